/-
  Tier A proof obligations for C19: the definitions regenerated from the current text of `ibicus/evaluate/metrics.py`
  (`Gen/Metrics.lean`, written by `translator/extract_metrics.py`) are equal to the hand-written model
  (`Model/Metrics.lean`, `Model/MetricsDispatch.lean`) the property theorems of `Props/C19.lean` are stated on.

  * dispatch on `threshold_type` / `higher_or_lower` / `threshold_scope` / `time is None` / the shape of `q`:
    `cmp_*`, `mask_threshold_condition_*`, `condition_elementwise`, `time_group_by_scope_*`, `thresholds_by_scope_*`,
    `from_quantile_*`;
  * the literal numpy expression of `_calculate_spell_lengths_one_location` and the `minimum_length` filter as terms of
    `Model.NpExpr.E`: `spellExpr_src`, `spellTerm_denote`, `spellExpr_denote`, `spellFilter_*`, `spellLoop_src`;
  * the per-location formulas: `instances_column`, `filter_column`, `probability_column`, `percent_column`,
    `intensity_column`, `annual_*`.
-/
import IbicusModel.Model.Metrics
import IbicusModel.Model.MetricsDispatch
import IbicusModel.Model.NpExpr
import IbicusModel.Gen.Metrics
import IbicusModel.Lemmas.Metrics
import Mathlib.Tactic.SplitIfs

set_option linter.unusedSimpArgs false
set_option linter.unusedVariables false

namespace Lemmas.GenMetrics
open Model.Metrics Model.NpExpr

/-! ### 1. the comparison and the dispatch on `threshold_type` -/

/-- the final dispatch of `_get_mask_higher_or_lower`: `"higher"` is the strict `x > thresholds`, `"lower"` the strict
    `x < thresholds` -/
theorem cmp_known (hl : HL) : Gen.Metrics.cmp hl.str = .ok (fun x th => cmpHL hl x th) := by
  cases hl <;> simp [Gen.Metrics.cmp, HL.str, cmpHL]

/-- every other string: `ValueError` -/
theorem cmp_unknown (s : String) (h1 : s ≠ "higher") (h2 : s ≠ "lower") : Gen.Metrics.cmp s = .error "ValueError" := by
  simp [Gen.Metrics.cmp, h1, h2]

/-- `_get_mask_higher_or_lower` put together from the regenerated halves: the thresholds (`thresholds`, tied to the source
    by `thresholds_by_scope_model`), then the regenerated comparison, element by element -/
def genMaskHL (x : Data) (grp : Option (Nat → Int)) (T : Nat) (s : Spec) (h : String) : Except String Mask := do
  let th ← thresholds s grp T
  let c ← Gen.Metrics.cmp h
  Except.ok (fun t i j => c (x t i j) (th t i j))

theorem genMaskHL_model (x : Data) (grp : Option (Nat → Int)) (T : Nat) (s : Spec) (hl : HL) :
    genMaskHL x grp T s hl.str = maskHL x s hl grp T := by
  unfold genMaskHL maskHL
  rw [cmp_known]
  cases thresholds s grp T <;> rfl

theorem genMaskHL_str (x : Data) (grp : Option (Nat → Int)) (T : Nat) (s : Spec) (h : String) :
    genMaskHL x grp T s h = maskHLStr x grp T s h := by
  unfold genMaskHL maskHLStr
  cases thresholds s grp T with
  | error e => rfl
  | ok th =>
    by_cases h1 : h = "higher"
    · subst h1; rfl
    · by_cases h2 : h = "lower"
      · subst h2; rfl
      · rw [cmp_unknown h h1 h2]; simp [h1, h2]; rfl

/-- **`_get_mask_threshold_condition` = `Model.Metrics.mask`**: `higher` → `(threshold_value, "higher")`, `lower` →
    `(threshold_value, "lower")`, `between` → `logical_and((threshold_value[0], "higher"), (threshold_value[1], "lower"))`,
    `outside` → `logical_or((threshold_value[0], "lower"), (threshold_value[1], "higher"))`, errors in source order. -/
theorem mask_threshold_condition_model (m : Metric) (x : Data) (grp : Option (Nat → Int)) (T : Nat) :
    Gen.Metrics.mask_threshold_condition (genMaskHL x grp T) maskAnd maskOr m.ty.str m.v0 m.v0 m.v1 = mask m x grp T := by
  have hh := genMaskHL_model x grp T
  unfold Gen.Metrics.mask_threshold_condition mask
  cases hty : m.ty with
  | higher => simpa [ThType.str, HL.str] using hh m.v0 .higher
  | lower => simpa [ThType.str, HL.str] using hh m.v0 .lower
  | between =>
    have a := hh m.v0 .higher
    have b := hh m.v1 .lower
    simp only [HL.str] at a b
    simp [ThType.str, a, b]
    cases maskHL x m.v0 .higher grp T <;> cases maskHL x m.v1 .lower grp T <;> rfl
  | outside =>
    have a := hh m.v0 .lower
    have b := hh m.v1 .higher
    simp only [HL.str] at a b
    simp [ThType.str, a, b]
    cases maskHL x m.v0 .lower grp T <;> cases maskHL x m.v1 .higher grp T <;> rfl

/-- a `threshold_type` that is none of the four strings: `ValueError` (before anything else is evaluated) -/
theorem mask_threshold_condition_unknown {σ μ : Type} (f : σ → String → Except String μ) (a o : μ → μ → μ) (s : String)
    (tv t0 t1 : σ) (h1 : s ≠ "higher") (h2 : s ≠ "lower") (h3 : s ≠ "between") (h4 : s ≠ "outside") :
    Gen.Metrics.mask_threshold_condition f a o s tv t0 t1 = .error "ValueError" := by
  simp [Gen.Metrics.mask_threshold_condition, h1, h2, h3, h4]

/-- **the condition on one value** (`Gen.Metrics.condition`): the regenerated dispatch applied to one element `x` with
    thresholds `lo` (= `threshold_value` resp. `threshold_value[0]`) and `hi` (= `threshold_value[1]`) -/
def condition (ty : String) (x lo hi : Rat) : Except String Bool :=
  Gen.Metrics.mask_threshold_condition (fun th h => (Gen.Metrics.cmp h).map (fun c => c x th))
    (fun a b => a && b) (fun a b => a || b) ty lo lo hi

/-- … is the defining comparison by string, `ValueError` for an unknown type -/
theorem condition_elementwise (ty : String) (x lo hi : Rat) : condition ty x lo hi = condStr ty x lo hi := by
  unfold condition condStr Gen.Metrics.mask_threshold_condition
  have c1 := cmp_known .higher
  have c2 := cmp_known .lower
  simp only [HL.str] at c1 c2
  by_cases h1 : ty = "higher"
  · subst h1; simp [c1, Except.map, cmpHL]
  · by_cases h2 : ty = "lower"
    · subst h2; simp [c2, Except.map, cmpHL]
    · by_cases h3 : ty = "between"
      · subst h3; simp [c1, c2, Except.map, cmpHL]; rfl
      · by_cases h4 : ty = "outside"
        · subst h4; simp [c1, c2, Except.map, cmpHL]; rfl
        · simp [h1, h2, h3, h4]

/-- … and, for the four types, the comparison `Props.C19.instances_def` / `condX_fin` are stated with -/
theorem condition_known (ty : ThType) (x lo hi : Rat) : condition ty.str x lo hi = .ok (condX ty (.fin x) lo hi) := by
  rw [condition_elementwise]
  cases ty <;> simp [condStr, ThType.str, condX, XVal.gt, XVal.lt]

/-! ### 2. the time scope -/

/-- **`_get_time_group_by_scope` = `timeGroup`**: `day` → `utils.day_of_year`, `month` → `utils.month`, `season` →
    `utils.season`, `overall` → `None`; a time scope with `time is None` → `ValueError` -/
theorem time_group_by_scope_model {τ γ : Type} (doy mon sea : τ → γ) (time : Option τ) (sc : Scope) :
    Gen.Metrics.time_group_by_scope doy mon sea time sc.str = timeGroup doy mon sea time sc := by
  cases sc <;> cases time <;> simp [Gen.Metrics.time_group_by_scope, Scope.str, timeGroup]

/-- any other scope string: `ValueError` -/
theorem time_group_by_scope_unknown {τ γ : Type} (doy mon sea : τ → γ) (time : Option τ) (s : String)
    (h0 : s ≠ "overall") (h1 : s ≠ "day") (h2 : s ≠ "month") (h3 : s ≠ "season") :
    Gen.Metrics.time_group_by_scope doy mon sea time s = .error "ValueError" := by
  simp [Gen.Metrics.time_group_by_scope, h0, h1, h2, h3]

theorem ite_flip {α : Type} (P Q : Prop) [Decidable P] [Decidable Q] (h : P ↔ ¬ Q) (a b : α) :
    (if P then a else b) = if Q then b else a := by
  by_cases hq : Q
  · have : ¬ P := fun hp => (h.mp hp) hq
    simp [hq, this]
  · have : P := h.mpr hq
    simp [hq, this]

theorem exists_none_iff {β : Type} (T : Nat) (g : Nat → Option β) :
    (∃ x < T, g x = none) ↔ ¬ ∀ x < T, (g x).isSome = true := by
  constructor
  · rintro ⟨k, hk, hn⟩ hall
    have := hall k hk
    simp [hn] at this
  · intro h
    by_contra hne
    apply h
    intro k hk
    cases hg : g k with
    | some v => rfl
    | none => exact absurd ⟨k, hk, hg⟩ hne

/-- **the thresholds `_get_mask_higher_or_lower` compares with = `Model.Metrics.thresholds`** on the time groups of the
    scope (`grpOf`): `overall` uses `threshold_value` itself and never looks at `time`; a time scope raises `ValueError`
    when `time is None`, then when a time step's group has no key, and otherwise looks every step's group up.
    (`sc.agrees s`: a dict of thresholds iff the scope is a time scope — `__attrs_post_init__`.) -/
theorem thresholds_by_scope_model {τ : Type} (doy mon sea : τ → Nat → Int) (sc : Scope) (s : Spec) (hs : sc.agrees s)
    (time : Option τ) (T : Nat) :
    Gen.Metrics.thresholds_by_scope doy mon sea (allIsinKeys T) mergeLookup overallValue sc.str s time
      = thresholds s (grpOf doy mon sea sc time) T := by
  have tg := time_group_by_scope_model doy mon sea
  cases sc <;> cases s <;> simp only [Scope.agrees] at hs
  · simp [Gen.Metrics.thresholds_by_scope, Scope.str, thresholds, overallValue]
  all_goals
    cases time with
    | none => simp [Gen.Metrics.thresholds_by_scope, Scope.str, thresholds, grpOf]
    | some t =>
      have e1 := tg (some t) .day
      have e2 := tg (some t) .month
      have e3 := tg (some t) .season
      simp only [Scope.str, timeGroup] at e1 e2 e3
      simp [Gen.Metrics.thresholds_by_scope, Scope.str, thresholds, grpOf, e1, e2, e3, allIsinKeys, mergeLookup, bind, Except.bind]
      try exact ite_flip _ _ (exists_none_iff _ _) _ _

/-- any other scope string: `ValueError` -/
theorem thresholds_by_scope_unknown {τ γ θ Θ : Type} (doy mon sea : τ → γ) (k : Option γ → θ → Bool) (l : Option γ → θ → Θ)
    (o : θ → Θ) (s : String) (v : θ) (time : Option τ)
    (h0 : s ≠ "overall") (h1 : s ≠ "day") (h2 : s ≠ "month") (h3 : s ≠ "season") :
    Gen.Metrics.thresholds_by_scope doy mon sea k l o s v time = .error "ValueError" := by
  simp [Gen.Metrics.thresholds_by_scope, h0, h1, h2, h3]

/-! ### 5. `from_quantile` -/

/-- **`from_quantile` = `fromQuantileQ`**: `between` / `outside` require a sequence `q` of length 2 with `q[0] < q[1]`
    (`ValueError` otherwise) and build `threshold_value = [threshold(q[0]), threshold(q[1])]` in this order;
    `higher` / `lower` build the single threshold of `q`. -/
theorem from_quantile_model (ty : ThType) (byTime : Bool) (lc : Locality) (x : Data) (grp : Option (Nat → Int))
    (T I J : Nat) (q : QArg) (hq : ty = .higher ∨ ty = .lower → q.isSeq = false) :
    Gen.Metrics.from_quantile QArg.isSeq QArg.len (QArg.item 0) (QArg.item 1) (fun a b => decide (a < b))
      (qSpec byTime lc x grp T I J) (fun k => qSpec byTime lc x grp T I J (k.item 0))
      (fun a b => (a, b)) (fun p => (⟨ty, p.1, p.2⟩ : Metric)) (fun s => (⟨ty, s, s⟩ : Metric)) q ty.str
      = fromQuantileQ ty byTime lc x grp T I J q := by
  have two : ∀ (q0 q1 : Rat) (ty : ThType), (ty = .between ∨ ty = .outside) →
      (if (¬ (decide (q0 < q1) = true)) then (Except.error "ValueError" : Except String Metric) else do
        let r_1 ← qSpec byTime lc x grp T I J q0
        let r_2 ← qSpec byTime lc x grp T I J q1
        Except.ok (⟨ty, r_1, r_2⟩ : Metric)) = fromQuantile ty byTime lc x grp T I J q0 q1 := by
    intro q0 q1 ty hty
    rcases hty with rfl | rfl <;>
    · unfold fromQuantile
      by_cases hlt : q0 < q1
      · simp [hlt]
        cases qSpec byTime lc x grp T I J q0 <;> cases qSpec byTime lc x grp T I J q1 <;> rfl
      · simp [hlt]
  cases q with
  | scalar q0 =>
    cases ty
    · simp [Gen.Metrics.from_quantile, ThType.str, fromQuantileQ, fromQuantile, QArg.item]
      cases qSpec byTime lc x grp T I J q0 <;> rfl
    · simp [Gen.Metrics.from_quantile, ThType.str, fromQuantileQ, fromQuantile, QArg.item]
      cases qSpec byTime lc x grp T I J q0 <;> rfl
    · simp [Gen.Metrics.from_quantile, ThType.str, fromQuantileQ, QArg.isSeq]
    · simp [Gen.Metrics.from_quantile, ThType.str, fromQuantileQ, QArg.isSeq]
  | seq l =>
    cases ty
    · simp [QArg.isSeq] at hq
    · simp [QArg.isSeq] at hq
    all_goals
      match l with
      | [] => simp [Gen.Metrics.from_quantile, ThType.str, fromQuantileQ, QArg.isSeq, QArg.len]
      | [a] => simp [Gen.Metrics.from_quantile, ThType.str, fromQuantileQ, QArg.isSeq, QArg.len]
      | [a, b] =>
        first
        | (have h2 := two a b .between (Or.inl rfl)
           simpa [Gen.Metrics.from_quantile, ThType.str, fromQuantileQ, QArg.isSeq, QArg.len, QArg.item] using h2)
        | (have h2 := two a b .outside (Or.inr rfl)
           simpa [Gen.Metrics.from_quantile, ThType.str, fromQuantileQ, QArg.isSeq, QArg.len, QArg.item] using h2)
      | a :: b :: c :: r =>
        simp [Gen.Metrics.from_quantile, ThType.str, fromQuantileQ, QArg.isSeq, QArg.len]
        omega

/-- an unknown `threshold_type` string is treated like `higher` / `lower` by `from_quantile` itself (the constructor's
    validator rejects it afterwards): the regenerated branch structure has exactly two arms -/
theorem from_quantile_arms {κ ρ σ ω : Type} (sq : κ → Bool) (ln : κ → Int) (i0 i1 : κ → ρ) (ls : ρ → ρ → Bool)
    (ti : ρ → Except String σ) (tw : κ → Except String σ) (pr : σ → σ → σ × σ) (m2 : σ × σ → ω) (m1 : σ → ω) (q : κ)
    (s : String) (h1 : s ≠ "between") (h2 : s ≠ "outside") :
    Gen.Metrics.from_quantile sq ln i0 i1 ls ti tw pr m2 m1 q s = (tw q).map m1 := by
  simp [Gen.Metrics.from_quantile, h1, h2]
  cases tw q <;> rfl

/-! ### 3. the spell-length expression -/

/-- `np.diff(np.where(np.concatenate(([m[0]], m[:-1] != m[1:], [True])))[0])[::2]`, written by hand -/
def spellTerm : E :=
  .slice (.diff (.where0 (.cat (.cons (.item .arg 0) .nil)
    (.cat (.neq (.slice .arg none (some (-1)) none) (.slice .arg (some 1) none none)) (.cons (.blit true) .nil)))))
    none none (some 2)

/-- the expression in the source is (still) that one -/
theorem spellExpr_src : Gen.Metrics.spellExpr = spellTerm := by decide  -- equality of two closed terms of `E`

theorem zipWith_changes : ∀ l : List Bool, List.zipWith (fun u v => u != v) l.dropLast l.tail = changes l
  | [] => rfl
  | [_] => rfl
  | a :: b :: t => by
    have ih := zipWith_changes (b :: t)
    simp only [List.tail_cons] at ih
    simp [List.dropLast_cons_cons, changes, ih]

theorem pySlice_dropLast {α : Type} (l : List α) : pySlice l none (some (-1)) = l.dropLast := by
  simp only [pySlice, normIdx, List.drop_zero, List.dropLast_eq_take]
  congr 1
  simp
  omega

theorem pySlice_tail {α : Type} (l : List α) : pySlice l (some 1) none = l.tail := by
  cases l with
  | nil => rfl
  | cons a t => simp [pySlice, normIdx]

theorem pySlice_all {α : Type} (l : List α) : pySlice l none none = l := by simp [pySlice]

theorem stepAux_two {α : Type} : ∀ l : List α, stepAux 2 0 l = everyOther l
  | [] => rfl
  | [_] => rfl
  | a :: b :: t => by simp [stepAux, everyOther, stepAux_two t]

/-- **meaning of the expression = `spellsLiteral`** (the function `Props.C19.spell_eq_rle` is about); an empty series is
    `IndexError` (`m[0]`) -/
theorem spellTerm_denote (m : List Bool) (p : Int) :
    denote (.bs m) p spellTerm =
      match spellsLiteral m with
      | some l => .ok (.is l)
      | none => .error "IndexError" := by
  cases m with
  | nil => rfl
  | cons a t =>
    have h0 : pyIndex (a :: t) 0 = some a := by simp [pyIndex]
    have hl : (a :: t).dropLast.length = t.length := by simp
    have hz : List.zipWith (fun u v => u != v) (a :: t).dropLast t = changes (a :: t) := by
      simpa using zipWith_changes (a :: t)
    simp only [spellTerm, denote, h0, pySliceStep, pySlice_dropLast, pySlice_tail, pySlice_all, Option.map_some, ofOpt,
      List.tail_cons, zipSame, hl, if_true, hz, spellsLiteral, flags]
    simp [stepAux_two]

theorem spellExpr_denote (m : List Bool) (p : Int) :
    denote (.bs m) p Gen.Metrics.spellExpr =
      match spellsLiteral m with
      | some l => .ok (.is l)
      | none => .error "IndexError" := by
  rw [spellExpr_src]; exact spellTerm_denote m p

/-- the `minimum_length` filter `s[s > minimum_length]` -/
theorem spellFilter_src : Gen.Metrics.spellFilterExpr = .sel .arg (.gt .arg .ivar) := by decide  -- closed terms

theorem selMask_map {α : Type} (l : List α) (f : α → Bool) : selMask l (l.map f) = some (l.filter f) := by
  simp only [selMask, List.length_map, if_true, Option.some.injEq]
  induction l with
  | nil => rfl
  | cons a t ih => cases h : f a <;> simp [List.filter, h, ih]

theorem spellFilter_denote (l : List Int) (minLen : Int) :
    denote (.is l) minLen Gen.Metrics.spellFilterExpr = .ok (.is (l.filter (fun s => decide (s > minLen)))) := by
  rw [spellFilter_src]
  simp [denote, selMask_map, ofOpt]

/-- the statements around the two expressions: an empty list, one call of `_calculate_spell_lengths_one_location` per
    location in `np.ndindex` order on the column `mask[:, i, j]`, `np.concatenate`, the filter; the mask comes from
    `_get_mask_threshold_condition` -/
theorem spellLoop_src :
    Gen.Metrics.spellLoop =
      ["v0 = []",
       "for v1, v2 in np.ndindex(v3.shape[1:]):     v0.append(ThresholdMetric._calculate_spell_lengths_one_location(v3[:, v1, v2]))",
       "v0 = np.concatenate(v0)",
       "v0 = v0[v0 > p0]"] ∧
    Gen.Metrics.spellMaskSource = ["self._get_mask_threshold_condition"] := ⟨rfl, rfl⟩

/-- **`calculate_spell_length` for one data set, read off the regenerated pieces, = `spellLengths`** -/
def genSpellLengths (m : Mask) (T I J : Nat) (minLen : Int) : Except String (List Int) := do
  let ls ← (cells I J).mapM (fun c =>
    match denote (.bs (column m T c.1 c.2)) 0 Gen.Metrics.spellExpr with
    | .ok (.is l) => Except.ok l
    | .ok _ => .error "TypeError"
    | .error e => .error e)
  match denote (.is ls.flatten) minLen Gen.Metrics.spellFilterExpr with
  | .ok (.is l) => Except.ok l
  | .ok _ => .error "TypeError"
  | .error e => .error e

theorem mapM_except_of_option {α β : Type} (g : α → Option β) (err : String) : ∀ l : List α,
    l.mapM (fun c => ofOpt err (g c)) = ofOpt err (l.mapM g)
  | [] => rfl
  | a :: t => by
    rw [List.mapM_cons, List.mapM_cons, mapM_except_of_option g err t]
    cases g a <;> cases t.mapM g <;> rfl

theorem genSpellLengths_model (m : Mask) (T I J : Nat) (minLen : Int) :
    genSpellLengths m T I J minLen =
      match spellLengths m T I J minLen with
      | some l => .ok l
      | none => .error "IndexError" := by
  unfold genSpellLengths spellLengths
  have e : (fun c : Nat × Nat =>
      match denote (.bs (column m T c.1 c.2)) 0 Gen.Metrics.spellExpr with
      | .ok (.is l) => (Except.ok l : Except String (List Int))
      | .ok _ => .error "TypeError"
      | .error e => .error e) =
      (fun c => ofOpt "IndexError" (spellsLiteral (column m T c.1 c.2))) := by
    funext c
    rw [spellExpr_denote]
    cases spellsLiteral (column m T c.1 c.2) <;> rfl
  rw [e, mapM_except_of_option]
  cases (cells I J).mapM (fun c => spellsLiteral (column m T c.1 c.2)) with
  | none => rfl
  | some ls => simp [spellFilter_denote, bind, Except.bind, ofOpt]

/-! ### 4. the per-location formulas -/

theorem zipWith_map_map {α β γ δ : Type} (f : β → γ → δ) (g : α → β) (h : α → γ) (l : List α) :
    List.zipWith f (l.map g) (l.map h) = l.map (fun a => f (g a) (h a)) := by
  induction l with
  | nil => rfl
  | cons a t ih => simp [ih]

theorem selectWhere_map {α β : Type} (f : α → β) (q : α → Bool) (l : List α) :
    Py.selectWhere (l.map f) (l.map q) = (l.filter q).map f := by
  unfold Py.selectWhere
  induction l with
  | nil => rfl
  | cons a t ih => cases h : q a <;> simp [List.filter, h, ih]

/-- the column of a `[time, i, j]` array at one location -/
def col {α : Type} (T : Nat) (f : Nat → α) : List α := (List.range T).map f

/-- `calculate_instances_of_threshold_exceedance`: `.astype(int)` of the mask -/
theorem instances_column (m : Mask) (T i j : Nat) (d : List Rat) (tm : List Int) :
    Gen.Metrics.instances (fun _ _ => column m T i j) d tm = col T (fun t => ((inst m t i j : Nat) : Int)) := by
  simp only [Gen.Metrics.instances, column, col, List.map_map]
  apply List.map_congr_left
  intro t _
  simp only [Function.comp, inst]
  split <;> rfl

/-- `filter_threshold_exceedances`: `np.where(mask, dataset, 0)` = `filt` -/
theorem filter_column (x : Data) (m : Mask) (T i j : Nat) (tm : List Int) :
    Gen.Metrics.filter_exceedances (fun _ _ => column m T i j) (col T (fun t => x t i j)) tm
      = col T (fun t => filt x m t i j) := by
  simp only [Gen.Metrics.filter_exceedances, column, col, zipWith_map_map, filt]
  apply List.map_congr_left
  intro t _
  split <;> simp

/-- `calculate_exceedance_probability` = `prob` (an empty time axis divides by zero) -/
theorem probability_column (m : Mask) (T i j : Nat) (d : List Rat) (tm : List Int) :
    Gen.Metrics.exceedance_probability (fun _ _ => col T (fun t => ((inst m t i j : Nat) : Int))) d tm
      = if T = 0 then .error "div0" else .ok (prob m T i j) := by
  simp only [Gen.Metrics.exceedance_probability, col, Py.divE, prob, List.length_map, List.length_range]
  have hs : (((List.range T).map (fun t => ((inst m t i j : Nat) : Int))).sum : Int)
      = ((sumR T (fun t => inst m t i j) : Nat) : Int) := by
    rw [Lemmas.Metrics.cast_sumR_int]; rfl
  rw [hs]
  by_cases hT : T = 0
  · subst hT; rfl
  · have : ¬ (((T : Int) : Rat) = 0) := by exact_mod_cast hT
    simp [hT, this, bind, Except.bind]

/-- `calculate_percent_of_total_amount_beyond_threshold` = `percent`: `100 · Σ filtered / Σ all` -/
theorem percent_column (x : Data) (m : Mask) (T i j : Nat) (tm : List Int) :
    Gen.Metrics.percent_of_total (fun _ _ => col T (fun t => filt x m t i j)) (col T (fun t => x t i j)) tm
      = match percent x m T i j with
        | some v => .ok v
        | none => .error "div0" := by
  simp only [Gen.Metrics.percent_of_total, col, Py.divE, percent, sumR]
  split_ifs with h <;> simp [bind, Except.bind, h]

/-- `calculate_intensity_index` = `intensity`: `Σ filtered / number of instances` -/
theorem intensity_column (x : Data) (m : Mask) (T i j : Nat) (tm : List Int) :
    Gen.Metrics.intensity_index (fun _ _ => col T (fun t => filt x m t i j))
        (fun _ _ => col T (fun t => ((inst m t i j : Nat) : Int))) (col T (fun t => x t i j)) tm
      = match intensity x m T i j with
        | some v => .ok v
        | none => .error "div0" := by
  simp only [Gen.Metrics.intensity_index, col, Py.divE, intensity]
  have hs : (((List.range T).map (fun t => ((inst m t i j : Nat) : Int))).sum : Int)
      = ((sumR T (fun t => inst m t i j) : Nat) : Int) := by
    rw [Lemmas.Metrics.cast_sumR_int]; rfl
  simp only [hs]
  by_cases h : sumR T (fun t => inst m t i j) = 0
  · simp [h, bind, Except.bind]
  · have : ¬ ((((sumR T (fun t => inst m t i j) : Nat) : Int) : Rat) = 0) := by exact_mod_cast h
    have h' : ¬ ((List.range T).map (fun t => inst m t i j)).sum = 0 := h
    simp [h, this, bind, Except.bind, sumR, h']

/-- the per-year comprehension of `calculate_annual_value_beyond_threshold` = `annualValue` for every listed year -/
theorem annual_values_column (x : Data) (m : Mask) (yr : Nat → Int) (T i j : Nat) (years : List Int) :
    Gen.Metrics.annual_values (col T (fun t => filt x m t i j)) (col T yr) years
      = years.map (fun y => annualValue x m yr T y i j) := by
  simp only [Gen.Metrics.annual_values, col, List.map_map, annualValue, sumYear]
  apply List.map_congr_left
  intro y _
  have := selectWhere_map (fun t => filt x m t i j) (fun t => decide (yr t = y)) (List.range T)
  exact congrArg List.sum this

/-- the per-year comprehension of `calculate_number_annual_days_beyond_threshold` = `annualCount` -/
theorem annual_counts_column (m : Mask) (yr : Nat → Int) (T i j : Nat) (years : List Int) :
    Gen.Metrics.annual_counts (col T (fun t => ((inst m t i j : Nat) : Int))) (col T yr) years
      = years.map (fun y => ((annualCount m yr T y i j : Nat) : Int)) := by
  simp only [Gen.Metrics.annual_counts, col, List.map_map, annualCount, sumYear]
  apply List.map_congr_left
  intro y _
  have := selectWhere_map (fun t => ((inst m t i j : Nat) : Int)) (fun t => decide (yr t = y)) (List.range T)
  rw [← Lemmas.Metrics.cast_list_sum, List.map_map]
  exact congrArg List.sum this

/-- where the comprehension's `values`, `time_array`, `years` come from: instances resp. filtered values of
    `(dataset, time=time)`, `utils.year(time)`, `np.unique` of it -/
theorem annual_prelude_src :
    Gen.Metrics.annual_counts_prelude =
      ["v0 = self.calculate_instances_of_threshold_exceedance(p0, time=p1)", "v1 = utils.year(p1)", "v2 = np.unique(v1)",
       "v3 = np.zeros((v2.shape[0], p0.shape[1], p0.shape[2]))"] ∧
    Gen.Metrics.annual_counts_roles = ["v0", "v1", "v2"] ∧
    Gen.Metrics.annual_values_prelude =
      ["v0 = self.filter_threshold_exceedances(p0, time=p1)", "v1 = utils.year(p1)", "v2 = np.unique(v1)",
       "v3 = np.zeros((v2.shape[0], p0.shape[1], p0.shape[2]))"] ∧
    Gen.Metrics.annual_values_roles = ["v0", "v1", "v2"] := ⟨rfl, rfl, rfl, rfl⟩

end Lemmas.GenMetrics
