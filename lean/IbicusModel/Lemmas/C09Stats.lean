/-
  C09 helpers, part 1: the vocabulary of "rank preservation" (`OrderPres x out`: `x_i < x_j → out_i ≤ out_j`),
  monotone real functions, the generic laws of an (ecdf, iecdf) pair (`EQLaws`) with their instances
  (all 2 × 9 modelled pairs, and the histogram ecdf under the oracle laws of its bins), the generic
  quantile map with constant extrapolation, and size-≥-1 versions of the ecdf / iecdf laws
  (the C16 laws are stated for samples of size ≥ 2; ISIMIP step 6 maps onto samples of size 1 too).
  Everything about `ecdf` / `iecdf` themselves is reused from `Lemmas/Stats*.lean` / `Props/C16.lean`.
-/
import IbicusModel.Props.C16
import IbicusModel.Model.Debiasers

namespace Lemmas.C09
open Model.Stats Lemmas.Stats

/-! ### monotone maps and rank preservation -/

/-- non-decreasing -/
def MonoR (T : Rat → Rat) : Prop := ∀ a b : Rat, a ≤ b → T a ≤ T b
/-- strictly increasing -/
def StrictMonoR (T : Rat → Rat) : Prop := ∀ a b : Rat, a < b → T a < T b

theorem StrictMonoR.mono {T : Rat → Rat} (h : StrictMonoR T) : MonoR T := by
  intro a b hab
  rcases eq_or_lt_of_le hab with rfl | hlt
  · exact le_refl _
  · exact le_of_lt (h a b hlt)

theorem MonoR.comp {S T : Rat → Rat} (hS : MonoR S) (hT : MonoR T) : MonoR (fun x => S (T x)) :=
  fun a b h => hS _ _ (hT a b h)

/-- **the property's relation** between the future values `x` of one window and their debiased values `out`:
    same length, and a strictly smaller input never gets a larger output -/
def OrderPres (x out : List Rat) : Prop :=
  x.length = out.length ∧
    ∀ i j, i < x.length → j < x.length → x.getD i 0 < x.getD j 0 → out.getD i 0 ≤ out.getD j 0

/-- strict version (used to compose a randomisation with a monotone map) -/
def StrictOrderPres (x out : List Rat) : Prop :=
  x.length = out.length ∧
    ∀ i j, i < x.length → j < x.length → x.getD i 0 < x.getD j 0 → out.getD i 0 < out.getD j 0

theorem StrictOrderPres.trans {x y z : List Rat} (h1 : StrictOrderPres x y) (h2 : OrderPres y z) :
    OrderPres x z :=
  ⟨h1.1.trans h2.1, fun i j hi hj h =>
    h2.2 i j (h1.1 ▸ hi) (h1.1 ▸ hj) (h1.2 i j hi hj h)⟩

theorem getD_map (T : Rat → Rat) (x : List Rat) (i : Nat) (hi : i < x.length) :
    (x.map T).getD i 0 = T (x.getD i 0) := by
  rw [getD_eq _ i (by simpa using hi), List.getElem_map, getD_eq x i hi]

/-- a pointwise image under a map that is monotone *on the values present* preserves ranks -/
theorem orderPres_map_on (x : List Rat) (T : Rat → Rat)
    (hT : ∀ a ∈ x, ∀ b ∈ x, a < b → T a ≤ T b) : OrderPres x (x.map T) := by
  refine ⟨by simp, ?_⟩
  intro i j hi hj hlt
  rw [getD_map T x i hi, getD_map T x j hj]
  exact hT _ (getD_mem x i hi) _ (getD_mem x j hj) hlt

theorem orderPres_map (x : List Rat) (T : Rat → Rat) (hT : MonoR T) : OrderPres x (x.map T) :=
  orderPres_map_on x T (fun a _ b _ h => hT a b (le_of_lt h))

theorem strictOrderPres_map (x : List Rat) (T : Rat → Rat) (hT : StrictMonoR T) :
    StrictOrderPres x (x.map T) := by
  refine ⟨by simp, ?_⟩
  intro i j hi hj hlt
  rw [getD_map T x i hi, getD_map T x j hj]
  exact hT _ _ hlt

theorem mem_zip_getD (x out : List Rat) (hlen : x.length = out.length) (i : Nat) (hi : i < x.length) :
    (x.getD i 0, out.getD i 0) ∈ x.zip out := by
  have hi' : i < out.length := hlen ▸ hi
  rw [getD_eq x i hi, getD_eq out i hi']
  have hz : i < (x.zip out).length := by rw [List.length_zip]; omega
  have := List.getElem_mem hz
  rwa [List.getElem_zip] at this

/-- membership form: rank preservation follows from the order relation on the set of (input, output) pairs -/
theorem orderPres_of_pairs (x out : List Rat) (hlen : x.length = out.length)
    (h : ∀ p ∈ x.zip out, ∀ q ∈ x.zip out, p.1 < q.1 → p.2 ≤ q.2) : OrderPres x out :=
  ⟨hlen, fun i j hi hj hlt =>
    h _ (mem_zip_getD x out hlen i hi) _ (mem_zip_getD x out hlen j hj) hlt⟩

/-! ### small monotone pieces -/

theorem thresholdCdf_monoR (t : Rat) : MonoR (thresholdCdf t) := fun _ _ h => Props.C16.thresholdCdf_mono t h

/-- `x ↦ 0 if x < thr else x` (CDFt SSR's final censoring, the censored model's ppf) is monotone for `thr ≥ 0` -/
theorem censor_monoR (thr : Rat) (h0 : 0 ≤ thr) : MonoR (fun v => if v < thr then 0 else v) := by
  intro a b hab
  by_cases ha : a < thr <;> by_cases hb : b < thr <;> simp only [ha, hb, if_true, if_false]
  · exact le_refl _
  · linarith [not_lt.mp hb]
  · linarith [not_lt.mp ha]
  · exact hab

/-! ### the laws of an (ecdf, iecdf) pair that monotonicity of the transfer functions needs -/

/-- `E sample point` is an empirical cdf, `Q sample p` an inverse empirical cdf: for samples of size ≥ 2
    `E` is non-decreasing in the point with values in `[0,1]`; `Q` is non-decreasing on `[0,1]` with values in
    the range of the sample -/
structure EQLaws (E Q : List Rat → Rat → Rat) : Prop where
  E_mono : ∀ s : List Rat, 2 ≤ s.length → ∀ v w : Rat, v ≤ w → E s v ≤ E s w
  E_range : ∀ s : List Rat, 2 ≤ s.length → ∀ v : Rat, 0 ≤ E s v ∧ E s v ≤ 1
  Q_mono : ∀ s : List Rat, 2 ≤ s.length → ∀ p q : Rat, 0 ≤ p → p ≤ q → q ≤ 1 → Q s p ≤ Q s q
  Q_range : ∀ s : List Rat, 2 ≤ s.length → ∀ p : Rat, 0 ≤ p → p ≤ 1 → minQ s ≤ Q s p ∧ Q s p ≤ maxQ s

/-- all `2 × 9` modelled method pairs (`step_function` / `linear_interpolation` × the nine `iecdf` methods) -/
theorem eqLaws_model (em : EcdfMethod) (im : IecdfMethod) : EQLaws (ecdf1 em) (iecdf1 im) where
  E_mono := fun s hs _ _ h => Props.C16.ecdf_mono em s hs h
  E_range := fun s hs v => Props.C16.ecdf_range em s hs v
  Q_mono := fun s hs _ _ h0 hpq h1 => Props.C16.iecdf_mono im s hs h0 hpq h1
  Q_range := fun s hs _ h0 h1 => Props.C16.iecdf_range im s hs h0 h1

/-- `ecdf_method = "kernel_density"` with any `iecdf` method: the histogram's bins are an oracle
    (`edges s`, `counts s` = what `np.histogram(s, bins="auto")` returned) constrained by `HistLaws` only -/
theorem eqLaws_hist (edges : List Rat → List Rat) (counts : List Rat → List Nat)
    (hl : ∀ s, HistLaws (edges s) (counts s)) (im : IecdfMethod) :
    EQLaws (fun s => ecdfHist1 (edges s) (counts s)) (iecdf1 im) where
  E_mono := fun s _ _ _ h => Lemmas.Stats.ecdfHist_mono (hl s) h
  E_range := fun s _ v => Lemmas.Stats.ecdfHist_range (hl s) v
  Q_mono := fun s hs _ _ h0 hpq h1 => Props.C16.iecdf_mono im s hs h0 hpq h1
  Q_range := fun s hs _ h0 h1 => Props.C16.iecdf_range im s hs h0 h1

/-! ### the generic quantile map with constant extrapolation -/

/-- `quantile_map_non_parametically_with_constant_extrapolation` at one value, for an arbitrary (E, Q) pair -/
def qmapExtrapG (E Q : List Rat → Rat → Rat) (x y : List Rat) (v : Rat) : Rat :=
  if v > maxQ x then v + (maxQ y - maxQ x) else if v < minQ x then v + (minQ y - minQ x) else Q y (E x v)

theorem qmapExtrapG_model (em : EcdfMethod) (im : IecdfMethod) (x y : List Rat) (v : Rat) :
    qmapExtrapG (ecdf1 em) (iecdf1 im) x y v = qmapExtrap1 em im x y v := rfl

/-- **monotone for every (E, Q) with `EQLaws`**: inside the range of `x` it is `Q_y ∘ E_x`; below it is
    `v + min y − min x < min y ≤ Q_y(anything)`; above it is `v + max y − max x > max y ≥ Q_y(anything)` -/
theorem qmapExtrapG_mono {E Q : List Rat → Rat → Rat} (L : EQLaws E Q) (x y : List Rat) (hx : 2 ≤ x.length)
    (hy : 2 ≤ y.length) : MonoR (qmapExtrapG E Q x y) := by
  intro v v' h
  have hne : x ≠ [] := by intro h; rw [h] at hx; simp at hx
  have hney : y ≠ [] := by intro h; rw [h] at hy; simp at hy
  have hmm := minQ_le_maxQ hne
  have hmmy := minQ_le_maxQ hney
  have hr : ∀ w, minQ y ≤ Q y (E x w) ∧ Q y (E x w) ≤ maxQ y :=
    fun w => L.Q_range y hy _ (L.E_range x hx w).1 (L.E_range x hx w).2
  unfold qmapExtrapG
  by_cases ha : v > maxQ x
  · have ha' : v' > maxQ x := lt_of_lt_of_le ha h
    rw [if_pos ha, if_pos ha']; linarith
  rw [if_neg ha]
  by_cases hb : v < minQ x
  · rw [if_pos hb]
    by_cases ha' : v' > maxQ x
    · rw [if_pos ha']; linarith
    rw [if_neg ha']
    by_cases hb' : v' < minQ x
    · rw [if_pos hb']; linarith
    · rw [if_neg hb']; have := (hr v').1; linarith
  · rw [if_neg hb]
    by_cases ha' : v' > maxQ x
    · rw [if_pos ha']; have := (hr v).2; linarith [not_lt.mp ha]
    rw [if_neg ha', if_neg (by linarith [not_lt.mp hb] : ¬ v' < minQ x)]
    exact L.Q_mono y hy _ _ (L.E_range x hx v).1 (L.E_mono x hx v v' h) (L.E_range x hx v').2

/-! ### ecdf / iecdf laws for samples of any size ≥ 1 (and the degenerate empty source sample) -/

theorem length_pos_of_ne_nil {x : List Rat} (h : x ≠ []) : 1 ≤ x.length :=
  Nat.one_le_iff_ne_zero.mpr (fun h0 => h (List.length_eq_zero_iff.mp h0))

theorem eq_singleton_of_length_one {x : List Rat} (h : x.length = 1) : ∃ a, x = [a] := by
  match x, h with
  | [a], _ => exact ⟨a, rfl⟩

/-- `ecdf` values lie in `[0,1]` whatever the sample size -/
theorem ecdf_range_any (m : EcdfMethod) (x : List Rat) (v : Rat) : 0 ≤ ecdf1 m x v ∧ ecdf1 m x v ≤ 1 := by
  by_cases h2 : 2 ≤ x.length
  · exact Props.C16.ecdf_range m x h2 v
  · cases m
    · exact ecdfStep_range x v
    · have hl : x.length = 0 ∨ x.length = 1 := by omega
      rcases hl with h0 | h1
      · have : x = [] := List.length_eq_zero_iff.mp h0
        subst this
        have : ecdf1 .linear [] v = 0 := by
          unfold ecdf1 ecdfLin1 interp1 lastLE sortQ linspace; simp
        rw [this]; norm_num
      · obtain ⟨a, rfl⟩ := eq_singleton_of_length_one h1
        rw [Props.C16.ecdf_size_one_linear]; norm_num

/-- `ecdf` is non-decreasing in the point whatever the sample size -/
theorem ecdf_mono_any (m : EcdfMethod) (x : List Rat) {v w : Rat} (h : v ≤ w) : ecdf1 m x v ≤ ecdf1 m x w := by
  cases m
  · exact ecdfStep_mono x h
  · by_cases hx : x = []
    · subst hx
      have e : ∀ z, ecdf1 .linear [] z = 0 := fun z => by
        unfold ecdf1 ecdfLin1 interp1 lastLE sortQ linspace; simp
      rw [e, e]
    · exact ecdfLin_mono hx h

/-- `iecdf` is non-decreasing on `[0,1]` for every non-empty sample -/
theorem iecdf_mono_any (m : IecdfMethod) (y : List Rat) (hy : y ≠ []) {p q : Rat} (h0 : 0 ≤ p) (hpq : p ≤ q)
    (h1 : q ≤ 1) : iecdf1 m y p ≤ iecdf1 m y q := by
  by_cases h2 : 2 ≤ y.length
  · exact Props.C16.iecdf_mono m y h2 h0 hpq h1
  · have hl : y.length = 1 := by have := length_pos_of_ne_nil hy; omega
    obtain ⟨a, rfl⟩ := eq_singleton_of_length_one hl
    rw [Props.C16.iecdf_size_one m a h0 (le_trans hpq h1), Props.C16.iecdf_size_one m a (le_trans h0 hpq) h1]

/-- … with values between the sample's minimum and maximum -/
theorem iecdf_range_any (m : IecdfMethod) (y : List Rat) (hy : y ≠ []) {p : Rat} (h0 : 0 ≤ p) (h1 : p ≤ 1) :
    minQ y ≤ iecdf1 m y p ∧ iecdf1 m y p ≤ maxQ y := by
  by_cases h2 : 2 ≤ y.length
  · exact Props.C16.iecdf_range m y h2 h0 h1
  · have hl : y.length = 1 := by have := length_pos_of_ne_nil hy; omega
    obtain ⟨a, rfl⟩ := eq_singleton_of_length_one hl
    rw [Props.C16.iecdf_size_one m a h0 h1]
    exact ⟨le_refl _, le_refl _⟩

/-- plain non-parametric quantile mapping (no extrapolation) is monotone for every source sample and every
    non-empty target sample, with values in the target's range -/
theorem qmap1_mono_any (em : EcdfMethod) (im : IecdfMethod) (x y : List Rat) (hy : y ≠ []) :
    MonoR (qmap1 em im x y) :=
  fun v w h => iecdf_mono_any im y hy (ecdf_range_any em x v).1 (ecdf_mono_any em x h) (ecdf_range_any em x w).2

theorem qmap1_range_any (em : EcdfMethod) (im : IecdfMethod) (x y : List Rat) (hy : y ≠ []) (v : Rat) :
    minQ y ≤ qmap1 em im x y v ∧ qmap1 em im x y v ≤ maxQ y :=
  iecdf_range_any im y hy (ecdf_range_any em x v).1 (ecdf_range_any em x v).2

end Lemmas.C09
