/-
  Capstone, helper part: the glue that plugs the denotation of a regenerated per-window piece (`Gen.DebWin.*` programs,
  the regenerated LinearScaling / DeltaChange kernels, `Gen.IsimipStep6.apply_on_window`) into the denotation of a
  regenerated loop spec (`Gen.Loops.*`) as its window function, and the lemmas that identify the glued window function
  with the window function of the hand-written model (every step is an existing `gen_*` / `*_denote` theorem).

  Glue (nothing else is hand-written between the regenerated pieces):
    * `kernelWin k`        a tier-A kernel `k obs cm_hist cm_future` called by the loop (time arguments go to `**kwargs`);
    * `progWin prog env`   a `Model.NpDeb.Prog` called by keyword: the samples the loop hands over for the slots
                           `obs` / `cm_hist` / `cm_future` are bound to the program's parameters **by name**
                           (`bindKw`, a missing name is Python's `TypeError`), the program must return one array;
    * `progWinDraws`       the same with the `np.random.uniform` stream of the window (keyed by the window's index list,
                           consumed in call order: `ssrSplitDraws`);
    * `progYearFn`         a program called by a year-window loop (`cm_future` = the year window, `obs` / `cm_hist` whole);
    * `yearsWin`           `apply_on_window` with year windows: the denotation of a regenerated year-loop spec inside a
                           seasonal window, its buffer used as an array (`Lemmas.C03.allAssigned`);
    * `qdmFitsThen`        QDM's `fit_obs, fit_cm_hist = self._get_obs_and_cm_hist_fits(obs, cm_hist)` in front of either branch;
    * `locOf`              `apply_location` as the location function of the grid map: the assembled buffer, a never
                           written step reported as the error `unassigned` (`Lemmas.C04.collapse`).
  What the glue does *not* read from the source: the two-line bodies of `CDFt.apply_on_window` /
  `QuantileDeltaMapping.apply_on_window` outside their year loops (the `if self.running_window_mode_over_years_of_cm_future`
  dispatch, the inference of `time_cm_future`, the `ValueError` length check) and `ScaledDistributionMapping.apply_on_window`'s
  dispatch on `distribution`.
-/
import IbicusModel.Lemmas.GenLoops
import IbicusModel.Lemmas.GenGridLoops
import IbicusModel.Lemmas.GenDebWin
import IbicusModel.Lemmas.GenDebWinSdm
import IbicusModel.Lemmas.GenDebiasers
import IbicusModel.Lemmas.GenIsimipStep6
import IbicusModel.Lemmas.C02Lift
import IbicusModel.Lemmas.C03
import IbicusModel.Lemmas.C04Windowed

namespace Lemmas.Capstone
open Model.Skeleton Model.Windows Model.Stats Model.Family Model.Debiasers
open Model.NpDeb (Prog Env Val)
open Lemmas.C03 (allAssigned winOfYears)
open Lemmas.C04 (guardedWin collapse collapse_map cdftWin qdmWin)

/-! ### glue -/

/-- a regenerated kernel as the window function of a loop -/
def kernelWin (k : List Rat → List Rat → List Rat → Except String (List Rat)) : WinFn Rat :=
  fun o h x _ _ _ => k o h x

variable {P : Type}

/-- Python's keyword binding: the program's parameters, in its own order, filled from the keywords of the call -/
def bindKw (kw : String → Option (Val P)) : List String → Option (List (Val P))
  | [] => some []
  | p :: ps =>
    match kw p, bindKw kw ps with
    | some v, some vs => some (v :: vs)
    | _, _ => none

/-- the keywords of the per-window call of a running-window loop that carry samples -/
def kwSamples (o h x : List Rat) (p : String) : Option (Val P) :=
  if p = "obs" then some (.arr o) else if p = "cm_hist" then some (.arr h) else if p = "cm_future" then some (.arr x)
  else none

/-- the keywords of QDM's call `self._apply_debiasing_steps(cm_future=…, fit_obs=…, fit_cm_hist=…)` -/
def kwQdm (x : List Rat) (fo fh : Val P) (p : String) : Option (Val P) :=
  if p = "cm_future" then some (.arr x) else if p = "fit_obs" then some fo else if p = "fit_cm_hist" then some fh
  else none

/-- the single array a per-window program returns -/
def single : Except String (List (Val P)) → Except String (List Rat)
  | .ok [.arr l] => .ok l
  | .ok _ => .error "TypeError"
  | .error e => .error e

/-- a program called with keywords `kw`, settings `env` and random streams `draws` -/
def callProg (prog : Prog) (env : Env P) (kw : String → Option (Val P)) (draws : Nat → List Rat) :
    Except String (List (Val P)) :=
  match bindKw kw prog.params with
  | none => .error "TypeError"
  | some args => Model.NpDeb.denote prog { env with args := args, draws := draws }

/-- a regenerated program, with the debiaser's settings `env`, as the window function of a loop; `draws o h ix` = the
    random streams of the window with samples `o`, `h` at future positions `ix` -/
def progWinDraws (prog : Prog) (env : Env P) (draws : List Rat → List Rat → List Nat → Nat → List Rat) : WinFn Rat :=
  fun o h x _ _ ix => single (callProg prog env (kwSamples o h x) (draws o h ix))

/-- … for a program that draws nothing -/
def progWin (prog : Prog) (env : Env P) : WinFn Rat := progWinDraws prog env (fun _ _ _ => env.draws)

/-- a regenerated program as the per-year-window function of a year loop running inside a window with samples `o`, `h`;
    the random streams of a year window are keyed by its index list -/
def progYearFn (prog : Prog) (env : Env P) (draws : List Rat → List Rat → List Nat → Nat → List Rat) (o h : List Rat) :
    YearFn Rat :=
  fun x iw => single (callProg prog env (kwSamples o h x) (draws o h iw))

/-- `apply_on_window` with year windows of `cm_future`: the regenerated year-loop spec `sp` run inside a seasonal window
    on the window's samples and the years of the window's steps (`yearsF` = the year of every step of the full series);
    its result buffer is used as an array -/
def yearsWin (sp : Model.Loops.LoopSpec) (g : List Rat → List Rat → YearFn Rat) (Ly Sy : Int) (yearsF : List Int) :
    WinFn Rat :=
  fun o h x _ _ ix =>
    (Model.Loops.denoteYears sp (g o h)
      ⟨Ly, Sy, Model.Loops.pick [] [] (take yearsF ix), Model.Loops.pick o h x⟩).bind allAssigned

/-- QDM: the two fits computed once per window (`fits` = the regenerated `_get_obs_and_cm_hist_fits`), then `k fo fh` -/
def qdmFitsThen {β : Type} (fits : Prog) (env : Env P) (o h : List Rat) (k : Val P → Val P → Except String β) :
    Except String β :=
  match callProg fits env (kwSamples o h []) env.draws with
  | .ok [fo, fh] => k fo fh
  | .ok _ => .error "TypeError"
  | .error e => .error e

/-- `apply_location` as the location function `Debiaser.apply` maps over the grid; the keyword arguments of `apply` are
    the three time axes (here: their days of year) -/
def locOf (apl : List Int → List Int → List Int → List Rat → List Rat → List Rat → Except String (List (Option Rat))) :
    Model.Grid.LocFnKw (List Int × List Int × List Int) Rat String :=
  fun kw o h x => collapse (apl kw.1 kw.2.1 kw.2.2 o h x)

/-! ### keyword binding of the standard parameter lists -/

theorem bindKw_samples (o h x : List Rat) :
    bindKw (P := P) (kwSamples o h x) ["obs", "cm_hist", "cm_future"] = some [.arr o, .arr h, .arr x] := by
  simp [bindKw, kwSamples]

theorem bindKw_fits (o h x : List Rat) :
    bindKw (P := P) (kwSamples o h x) ["obs", "cm_hist"] = some [.arr o, .arr h] := by
  simp [bindKw, kwSamples]

theorem bindKw_qdm (x : List Rat) (fo fh : Val P) :
    bindKw (kwQdm x fo fh) ["cm_future", "fit_obs", "fit_cm_hist"] = some [.arr x, fo, fh] := by
  simp [bindKw, kwQdm]

/-- a pure per-window function (the shape of `Props.C02.winOf` / `Lemmas.C03.winOf`) -/
abbrev winOf := Lemmas.C03.winOf

/-! ### the generic steps -/

theorem callProg_samples (prog : Prog) (env : Env P) (o h x : List Rat) (draws : Nat → List Rat)
    (hp : prog.params = ["obs", "cm_hist", "cm_future"]) :
    callProg prog env (kwSamples o h x) draws
      = Model.NpDeb.denote prog { env with args := [.arr o, .arr h, .arr x], draws := draws } := by
  simp only [callProg, hp, bindKw_samples]

/-- a program with the standard parameters that denotes `g` on every triple of samples is, glued into a loop, the pure
    window function `g` -/
theorem progWinDraws_eq (prog : Prog) (env : Env P) (draws : List Rat → List Rat → List Nat → Nat → List Rat)
    (g : List Rat → List Rat → List Nat → List Rat → List Rat)
    (hp : prog.params = ["obs", "cm_hist", "cm_future"])
    (hden : ∀ o h x ix, Model.NpDeb.denote prog { env with args := [.arr o, .arr h, .arr x], draws := draws o h ix }
      = .ok [.arr (g o h ix x)]) :
    progWinDraws prog env draws = fun o h x _ _ ix => .ok (g o h ix x) := by
  funext o h x io ih ix
  simp only [progWinDraws, callProg_samples _ _ _ _ _ _ hp, hden, single]

theorem progWin_eq (prog : Prog) (env : Env P) (g : List Rat → List Rat → List Rat → List Rat)
    (hp : prog.params = ["obs", "cm_hist", "cm_future"])
    (hden : ∀ o h x, Model.NpDeb.denote prog { env with args := [.arr o, .arr h, .arr x] } = .ok [.arr (g o h x)]) :
    progWin prog env = winOf g := by
  unfold progWin
  rw [progWinDraws_eq prog env _ (fun o h _ x => g o h x) hp (fun o h x _ => hden o h x)]
  rfl

theorem progYearFn_eq (prog : Prog) (env : Env P) (draws : List Rat → List Rat → List Nat → Nat → List Rat)
    (g : List Rat → List Rat → List Nat → List Rat → List Rat) (o h : List Rat)
    (hp : prog.params = ["obs", "cm_hist", "cm_future"])
    (hden : ∀ x iw, Model.NpDeb.denote prog { env with args := [.arr o, .arr h, .arr x], draws := draws o h iw }
      = .ok [.arr (g o h iw x)]) :
    progYearFn prog env draws o h = fun x iw => .ok (g o h iw x) := by
  funext x iw
  simp only [progYearFn, callProg_samples _ _ _ _ _ _ hp, hden, single]

/-! ### the regenerated per-window pieces, glued, are the model's window functions -/

/-- LinearScaling: the regenerated kernel (any `delta_type` string, incl. the `ValueError` fall-through) -/
theorem kernelWin_ls (dt : String) :
    kernelWin (Gen.Debiasers.ls_apply_on_window dt) = kernelWin (linearScalingS dt) := by
  funext o h x io ih ix
  exact Lemmas.GenDebiasers.ls_apply_on_window dt o h x

theorem kernelWin_ls_additive :
    kernelWin (Gen.Debiasers.ls_apply_on_window "additive") = winOf (linearScaling .additive) := by
  rw [kernelWin_ls]; funext o h x io ih ix; exact Lemmas.GenDebiasers.linearScalingS_additive o h x

theorem kernelWin_ls_multiplicative :
    kernelWin (Gen.Debiasers.ls_apply_on_window "multiplicative") = winOf (linearScaling .multiplicative) := by
  rw [kernelWin_ls]; funext o h x io ih ix; exact Lemmas.GenDebiasers.linearScalingS_multiplicative o h x

/-- DeltaChange -/
theorem kernelWin_dc (dt : String) :
    kernelWin (Gen.Debiasers.dc_apply_on_within_year_window dt) = kernelWin (deltaChangeS dt) := by
  funext o h x io ih ix
  exact Lemmas.GenDebiasers.dc_apply_on_within_year_window dt o h x

theorem kernelWin_dc_additive :
    kernelWin (Gen.Debiasers.dc_apply_on_within_year_window "additive") = winOf (deltaChange .additive) := by
  rw [kernelWin_dc]; funext o h x io ih ix; exact Lemmas.GenDebiasers.deltaChangeS_additive o h x

theorem kernelWin_dc_multiplicative :
    kernelWin (Gen.Debiasers.dc_apply_on_within_year_window "multiplicative") = winOf (deltaChange .multiplicative) := by
  rw [kernelWin_dc]; funext o h x io ih ix; exact Lemmas.GenDebiasers.deltaChangeS_multiplicative o h x

/-- ECDFM -/
theorem progWin_ecdfm (env : Env P) :
    progWin Gen.DebWin.ecdfm_apply_on_window env = winOf (ecdfm env.fam (env.num "cdf_threshold")) := by
  rw [Lemmas.GenDebWin.gen_ecdfm_apply_on_window]
  exact progWin_eq _ env _ rfl (fun o h x => Lemmas.GenDebWin.ecdfm_denote _ o h x rfl)

/-- QuantileMapping, parametric -/
theorem progWin_qm_param (env : Env P) (d : Detrending) (hd : env.str "detrending" = Model.NpDeb.detrendingStr d)
    (hm : env.str "mapping_type" = "parametric") :
    progWin Gen.DebWin.qm_apply_on_window env = winOf (qmParam env.fam (env.num "cdf_threshold") d) := by
  rw [Lemmas.GenDebWin.gen_qm_apply_on_window]
  exact progWin_eq _ env _ rfl (fun o h x => Lemmas.GenDebWin.qm_param_denote _ d o h x rfl hd hm)

/-- QuantileMapping, non-parametric -/
theorem progWin_qm_nonparam (env : Env P) (d : Detrending) (hd : env.str "detrending" = Model.NpDeb.detrendingStr d)
    (hm : env.str "mapping_type" = "nonparametric") :
    progWin Gen.DebWin.qm_apply_on_window env = winOf (qmNonparam d) := by
  rw [Lemmas.GenDebWin.gen_qm_apply_on_window]
  exact progWin_eq _ env _ rfl (fun o h x => Lemmas.GenDebWin.qm_nonparam_denote _ d o h x rfl hd hm)

/-- ScaledDistributionMapping, absolute (a location–scale family whose parameter tuple is indexed `(loc, scale)`) -/
theorem progWin_sdm_abs (env : Env (Rat × Rat)) (Fam : LocScaleFam) (hfam : env.fam = Fam.toFamily)
    (hidx : env.parIdx = Model.NpDeb.locScaleIdx) :
    progWin Gen.DebWin.sdm_apply_on_window_absolute_sdm env = winOf (sdmAbsolute Fam) := by
  rw [Lemmas.GenDebWin.gen_sdm_apply_on_window_absolute_sdm]
  exact progWin_eq _ env _ rfl (fun o h x => Lemmas.GenDebWin.sdm_absolute_denote _ Fam o h x rfl hfam hidx)

/-- the random streams of one CDFt window: one stream `drw ix` per window, consumed by the three `np.random.uniform`
    calls of the SSR step in order -/
def cdftDraws (drw : List Nat → List Rat) : List Rat → List Rat → List Nat → Nat → List Rat :=
  fun o h ix => Lemmas.GenDebWinSdm.ssrSplitDraws (drw ix) o.length h.length

/-- CDFt `_apply_debiasing_steps` (SSR on or off, every `delta_shift`, every method pair) -/
theorem progWin_cdft (env : Env P) (ssr : Bool) (d : DeltaShift) (em : EcdfMethod) (im : IecdfMethod)
    (drw : List Nat → List Rat)
    (hd : env.str "delta_shift" = Model.NpDeb.deltaShiftStr d) (hs : env.flag "SSR" = ssr)
    (he : env.ecdfM "ecdf_method" = ecdf1 em) (hi : env.iecdfM "iecdf_method" = iecdf1 im) :
    progWinDraws Gen.DebWin.cdft_apply_debiasing_steps env (cdftDraws drw)
      = fun o h x _ _ ix => .ok (cdftSteps ssr d em im o h x (drw ix)) := by
  rw [Lemmas.GenDebWin.gen_cdft_apply_debiasing_steps]
  exact progWinDraws_eq _ env _ (fun o h ix x => cdftSteps ssr d em im o h x (drw ix)) rfl
    (fun o h x ix => Lemmas.GenDebWinSdm.cdft_steps_denote_methods_single { env with args := [.arr o, .arr h, .arr x] }
      ssr d em im o h x (drw ix) rfl hd hs he hi)

theorem progWin_cdft_nossr (env : Env P) (d : DeltaShift) (em : EcdfMethod) (im : IecdfMethod)
    (drw : List Nat → List Rat)
    (hd : env.str "delta_shift" = Model.NpDeb.deltaShiftStr d) (hs : env.flag "SSR" = false)
    (he : env.ecdfM "ecdf_method" = ecdf1 em) (hi : env.iecdfM "iecdf_method" = iecdf1 im) :
    progWinDraws Gen.DebWin.cdft_apply_debiasing_steps env (cdftDraws drw) = winOf (cdftMapping d em im) := by
  rw [progWin_cdft env false d em im drw hd hs he hi]
  rfl

/-- CDFt with year windows inside the seasonal window (`SSR = False`): regenerated year loop ∘ regenerated steps -/
theorem yearsWin_cdft (env : Env P) (d : DeltaShift) (em : EcdfMethod) (im : IecdfMethod) (drw : List Nat → List Rat)
    (Ly Sy : Int) (yearsF : List Int)
    (hd : env.str "delta_shift" = Model.NpDeb.deltaShiftStr d) (hs : env.flag "SSR" = false)
    (he : env.ecdfM "ecdf_method" = ecdf1 em) (hi : env.iecdfM "iecdf_method" = iecdf1 im) :
    yearsWin Gen.Loops.loopCDFt (progYearFn Gen.DebWin.cdft_apply_debiasing_steps env (cdftDraws drw)) Ly Sy yearsF
      = winOfYears (cdftYearFn d em im) Ly Sy yearsF := by
  funext o h x io ih ix
  have hg : progYearFn Gen.DebWin.cdft_apply_debiasing_steps env (cdftDraws drw) o h = cdftYearFn d em im o h := by
    rw [Lemmas.GenDebWin.gen_cdft_apply_debiasing_steps]
    rw [progYearFn_eq _ env _ (fun o h iw x => cdftSteps false d em im o h x (drw iw)) o h rfl
      (fun x iw => Lemmas.GenDebWinSdm.cdft_steps_denote_methods_single { env with args := [.arr o, .arr h, .arr x] }
        false d em im o h x (drw iw) rfl hd hs he hi)]
    rfl
  simp only [yearsWin, winOfYears, hg, Lemmas.GenLoops.loopCDFt, Lemmas.GenLoops.denote_loopCDFt]

/-- QDM's window function without year windows: fits, then the steps on the whole future sample -/
def qdmWinRegen (env : Env P) : WinFn Rat :=
  fun o h x _ _ _ => qdmFitsThen Gen.DebWin.qdm_get_obs_and_cm_hist_fits env o h (fun fo fh =>
    single (callProg Gen.DebWin.qdm_apply_debiasing_steps env (kwQdm x fo fh) env.draws))

/-- QDM's window function with year windows: fits once, then the regenerated year loop over the steps -/
def qdmYearsWinRegen (env : Env P) (Ly Sy : Int) (yearsF : List Int) : WinFn Rat :=
  fun o h x _ _ ix => qdmFitsThen Gen.DebWin.qdm_get_obs_and_cm_hist_fits env o h (fun fo fh =>
    (Model.Loops.denoteYears Gen.Loops.loopQDM
      (fun xw _ => single (callProg Gen.DebWin.qdm_apply_debiasing_steps env (kwQdm xw fo fh) env.draws))
      ⟨Ly, Sy, Model.Loops.pick [] [] (take yearsF ix), Model.Loops.pick o h x⟩).bind allAssigned)

theorem qdmFitsThen_eq {β : Type} (env : Env P) (o h : List Rat) (k : Val P → Val P → Except String β) :
    qdmFitsThen Gen.DebWin.qdm_get_obs_and_cm_hist_fits env o h k = k (.par (env.fam.fit o)) (.par (env.fam.fit h)) := by
  unfold qdmFitsThen callProg
  rw [Lemmas.GenDebWin.gen_qdm_get_obs_and_cm_hist_fits,
    show Model.NpDeb.qdm_get_obs_and_cm_hist_fits.params = ["obs", "cm_hist"] from rfl, bindKw_fits]
  simp only
  rw [Lemmas.GenDebWin.qdm_fits_denote _ o h rfl]

theorem callProg_qdm_steps (env : Env P) (tp : TrendPres) (em : EcdfMethod) (c : Option Rat) (x : List Rat) (fo fh : P)
    (h : Lemmas.GenDebWin.qdmEnvOk env tp c) (he : env.ecdfM "ecdf_method" = ecdf1 em) :
    single (callProg Gen.DebWin.qdm_apply_debiasing_steps env (kwQdm x (.par fo) (.par fh)) env.draws)
      = .ok (qdmSteps env.fam tp em (env.num "cdf_threshold") c x fo fh) := by
  unfold callProg
  rw [Lemmas.GenDebWin.gen_qdm_apply_debiasing_steps,
    show Model.NpDeb.qdm_apply_debiasing_steps.params = ["cm_future", "fit_obs", "fit_cm_hist"] from rfl, bindKw_qdm]
  simp only
  rw [Lemmas.GenDebWin.qdm_denote { env with args := [.arr x, .par fo, .par fh], draws := env.draws } tp c x fo fh rfl h]
  simp only [single, he]
  rfl

theorem qdmWinRegen_eq (env : Env P) (tp : TrendPres) (em : EcdfMethod) (c : Option Rat)
    (h : Lemmas.GenDebWin.qdmEnvOk env tp c) (he : env.ecdfM "ecdf_method" = ecdf1 em) :
    qdmWinRegen env = winOf (qdmWindow env.fam tp em (env.num "cdf_threshold") c) := by
  funext o hh x io ih ix
  simp only [qdmWinRegen, qdmFitsThen_eq, callProg_qdm_steps env tp em c _ _ _ h he]
  rfl

theorem qdmYearsWinRegen_eq (env : Env P) (tp : TrendPres) (em : EcdfMethod) (c : Option Rat) (Ly Sy : Int)
    (yearsF : List Int) (h : Lemmas.GenDebWin.qdmEnvOk env tp c) (he : env.ecdfM "ecdf_method" = ecdf1 em) :
    qdmYearsWinRegen env Ly Sy yearsF
      = winOfYears (qdmYearFn env.fam tp em (env.num "cdf_threshold") c) Ly Sy yearsF := by
  funext o hh x io ih ix
  simp only [qdmYearsWinRegen, qdmFitsThen_eq, callProg_qdm_steps env tp em c _ _ _ h he, Lemmas.GenLoops.loopQDM,
    Lemmas.GenLoops.denote_loopQDM]
  rfl

/-! ### guards: a guarded window function whose guard holds on every window the loop forms is the unguarded one -/

theorem applyLocationRW_guarded_eq (G : List Rat → List Rat → List Rat → Bool)
    (f : List Rat → List Rat → List Rat → List Rat) (L S : Int) (dO dH dF : List Int) (obs hist fut : List Rat)
    (hG : ∀ c ∈ useCenters S dF,
      G (take obs (idxWindow L dO c)) (take hist (idxWindow L dH c)) (take fut (idxWindow L dF c)) = true) :
    applyLocationRW (guardedWin G f) L S dO dH dF obs hist fut = applyLocationRW (winOf f) L S dO dH dF obs hist fut := by
  unfold applyLocationRW
  apply Lemmas.Lift.runLoop_congr
  intro c hc
  unfold windowWrites
  simp only [guardedWin, hG c hc, if_true]
  rfl

theorem applyLocationDC_guarded_eq (G : List Rat → List Rat → List Rat → Bool)
    (f : List Rat → List Rat → List Rat → List Rat) (L S : Int) (dO dH dF : List Int) (obs hist fut : List Rat)
    (hG : ∀ c ∈ useCenters S dO,
      G (take obs (idxWindow L dO c)) (take hist (idxWindow L dH c)) (take fut (idxWindow L dF c)) = true) :
    applyLocationDC (guardedWin G f) L S dO dH dF obs hist fut = applyLocationDC (winOf f) L S dO dH dF obs hist fut := by
  unfold applyLocationDC
  apply Lemmas.Lift.runLoop_congr
  intro c hc
  unfold windowWritesDC
  simp only [guardedWin, hG c hc, if_true]
  rfl

/-- a unit-free guard that holds on the windows of the data holds on the windows of the data in the other unit -/
theorem guard_affine_windows (G : List Rat → List Rat → List Rat → Bool) (a b : Rat)
    (hGinv : ∀ o h x, G (affine a b o) (affine a b h) (affine a b x) = G o h x)
    (L : Int) (dO dH dF : List Int) (obs hist fut : List Rat) (cs : List Int)
    (hG : ∀ c ∈ cs, G (take obs (idxWindow L dO c)) (take hist (idxWindow L dH c)) (take fut (idxWindow L dF c)) = true) :
    ∀ c ∈ cs, G (take (affine a b obs) (idxWindow L dO c)) (take (affine a b hist) (idxWindow L dH c))
      (take (affine a b fut) (idxWindow L dF c)) = true := by
  intro c hc
  have := hG c hc
  unfold affine at hGinv ⊢
  rw [Lemmas.Lift.take_map, Lemmas.Lift.take_map, Lemmas.Lift.take_map, hGinv]
  exact this

/-- an equivariance statement about a guarded window function (the form of the C04 whole-series theorems) read on the
    unguarded function: the guard, unit-free, is required of the windows of the data -/
theorem unguarded_affine_RW (G : List Rat → List Rat → List Rat → Bool) (f : List Rat → List Rat → List Rat → List Rat)
    (a b : Rat) (hGinv : ∀ o h x, G (affine a b o) (affine a b h) (affine a b x) = G o h x)
    (L S : Int) (dO dH dF : List Int) (obs hist fut : List Rat)
    (hthm : applyLocationRW (guardedWin G f) L S dO dH dF (affine a b obs) (affine a b hist) (affine a b fut)
      = (applyLocationRW (guardedWin G f) L S dO dH dF obs hist fut).map (List.map (Option.map (fun v => a * v + b))))
    (hG : ∀ c ∈ useCenters S dF,
      G (take obs (idxWindow L dO c)) (take hist (idxWindow L dH c)) (take fut (idxWindow L dF c)) = true) :
    applyLocationRW (winOf f) L S dO dH dF (affine a b obs) (affine a b hist) (affine a b fut)
      = (applyLocationRW (winOf f) L S dO dH dF obs hist fut).map (List.map (Option.map (fun v => a * v + b))) := by
  rw [← applyLocationRW_guarded_eq G f L S dO dH dF _ _ _
      (guard_affine_windows G a b hGinv L dO dH dF obs hist fut _ hG),
    ← applyLocationRW_guarded_eq G f L S dO dH dF _ _ _ hG]
  exact hthm

theorem unguarded_affine_DC (G : List Rat → List Rat → List Rat → Bool) (f : List Rat → List Rat → List Rat → List Rat)
    (a b : Rat) (hGinv : ∀ o h x, G (affine a b o) (affine a b h) (affine a b x) = G o h x)
    (L S : Int) (dO dH dF : List Int) (obs hist fut : List Rat)
    (hthm : applyLocationDC (guardedWin G f) L S dO dH dF (affine a b obs) (affine a b hist) (affine a b fut)
      = (applyLocationDC (guardedWin G f) L S dO dH dF obs hist fut).map (List.map (Option.map (fun v => a * v + b))))
    (hG : ∀ c ∈ useCenters S dO,
      G (take obs (idxWindow L dO c)) (take hist (idxWindow L dH c)) (take fut (idxWindow L dF c)) = true) :
    applyLocationDC (winOf f) L S dO dH dF (affine a b obs) (affine a b hist) (affine a b fut)
      = (applyLocationDC (winOf f) L S dO dH dF obs hist fut).map (List.map (Option.map (fun v => a * v + b))) := by
  rw [← applyLocationDC_guarded_eq G f L S dO dH dF _ _ _
      (guard_affine_windows G a b hGinv L dO dH dF obs hist fut _ hG),
    ← applyLocationDC_guarded_eq G f L S dO dH dF _ _ _ hG]
  exact hthm

/-! ### year windows inside the seasonal window: the three formulations of the model agree on the windows the loop forms -/

/-- two window functions that agree on every window the loop forms give the same run -/
theorem applyLocationRW_congr_at {α} (f f' : WinFn α) (L S : Int) (dO dH dF : List Int) (obs hist fut : List α)
    (h : ∀ c ∈ useCenters S dF,
      f (take obs (idxWindow L dO c)) (take hist (idxWindow L dH c)) (take fut (idxWindow L dF c))
          (idxWindow L dO c) (idxWindow L dH c) (idxWindow L dF c)
        = f' (take obs (idxWindow L dO c)) (take hist (idxWindow L dH c)) (take fut (idxWindow L dF c))
          (idxWindow L dO c) (idxWindow L dH c) (idxWindow L dF c)) :
    applyLocationRW f L S dO dH dF obs hist fut = applyLocationRW f' L S dO dH dF obs hist fut := by
  unfold applyLocationRW
  apply Lemmas.Lift.runLoop_congr
  intro c hc
  unfold windowWrites
  simp only [h c hc]

theorem collapse_eq (r : Except String (List (Option Rat))) : collapse r = r.bind allAssigned := by
  cases r <;> rfl

/-- `winOfYears (cdftYearFn …)` (C03's form) is `collapse (cdftWindowYears …)` (C04's form) when the window carries one year
    per future value — the `ValueError` length check in front of the year loop passes -/
theorem winOfYears_cdft_eq (d : DeltaShift) (em : EcdfMethod) (im : IecdfMethod) (Ly Sy : Int) (yearsF : List Int)
    (o h x : List Rat) (io ih ix : List Nat) (hl : (take yearsF ix).length = x.length) :
    winOfYears (cdftYearFn d em im) Ly Sy yearsF o h x io ih ix
      = collapse (cdftWindowYears d em im Ly Sy (take yearsF ix) o h x) := by
  unfold winOfYears cdftWindowYears
  rw [if_neg (by simpa using hl), collapse_eq]

theorem winOfYears_qdm_eq (Fam : Family P) (tp : TrendPres) (em : EcdfMethod) (t : Rat) (cz : Option Rat) (Ly Sy : Int)
    (yearsF : List Int) (o h x : List Rat) (io ih ix : List Nat) (hl : (take yearsF ix).length = x.length) :
    winOfYears (qdmYearFn Fam tp em t cz) Ly Sy yearsF o h x io ih ix
      = collapse (qdmWindowYears Fam tp em t cz Ly Sy (take yearsF ix) o h x) := by
  unfold winOfYears qdmWindowYears
  rw [if_neg (by simpa using hl), collapse_eq]

/-- the years of a window are parallel to its future sample -/
theorem window_years_length (L : Int) (dF yearsF : List Int) (fut : List Rat) (c : Int)
    (hleny : yearsF.length = fut.length) :
    (take yearsF (idxWindow L dF c)).length = (take fut (idxWindow L dF c)).length :=
  Lemmas.C04.take_length_eq yearsF fut hleny _


/-! ### moved here from the property file: helper facts about the model's guarded window functions, the grid glue and ISIMIP's window function -/

/-- the shift law of `locOf apl` at a location from the shift law of `apl` (a buffer law) -/
theorem locOf_shift (apl : List Int → List Int → List Int → List Rat → List Rat → List Rat → Except String (List (Option Rat)))
    (kw : List Int × List Int × List Int) (c : Rat) (o h x : List Rat)
    (hapl : apl kw.1 kw.2.1 kw.2.2 o h (x.map (fun v => v + c))
      = (apl kw.1 kw.2.1 kw.2.2 o h x).map (List.map (Option.map (fun v => v + c)))) :
    locOf apl kw o h (x.map (fun v => v + c)) = (locOf apl kw o h x).map (List.map (fun v => v + c)) := by
  unfold locOf
  rw [hapl]
  exact collapse_map _ _

/-- `Lemmas.C04.cdftWin` without year windows is a guarded pure window function -/
theorem cdftWin_none (d : DeltaShift) (em : EcdfMethod) (im : IecdfMethod) :
    cdftWin d em im none = guardedWin (fun o h x => decide (cdftGuard d o h x)) (cdftMapping d em im) := by
  funext o h x io ih ix
  unfold cdftWin guardedWin
  by_cases hg : cdftGuard d o h x <;> simp [hg]

/-- `Lemmas.C04.qdmWin` without year windows is a guarded pure window function -/
theorem qdmWin_none (Fam : LocScaleFam) (em : EcdfMethod) (t : Rat) :
    qdmWin Fam em t none
      = guardedWin (fun o h _ => decide (scalesOk Fam [o, h])) (qdmWindow Fam.toFamily .absolute em t none) := by
  funext o h x io ih ix
  unfold qdmWin guardedWin
  by_cases hg : scalesOk Fam [o, h] <;> simp [hg]

/-- on data whose windows satisfy `cdftGuard` and carry one year per future value, C03's and C04's formulation of the
    window function with year windows give the same run -/
theorem cdft_years_bridge (d : DeltaShift) (em : EcdfMethod) (im : IecdfMethod) (Ly Sy : Int) (yearsF : List Int) (L S : Int)
    (dO dH dF : List Int) (obs hist fut : List Rat) (hleny : yearsF.length = fut.length)
    (hG : ∀ c ∈ useCenters S dF,
      cdftGuard d (take obs (idxWindow L dO c)) (take hist (idxWindow L dH c)) (take fut (idxWindow L dF c))) :
    applyLocationRW (winOfYears (cdftYearFn d em im) Ly Sy yearsF) L S dO dH dF obs hist fut
      = applyLocationRW (cdftWin d em im (some (Ly, Sy, yearsF))) L S dO dH dF obs hist fut := by
  apply applyLocationRW_congr_at
  intro c hc
  rw [winOfYears_cdft_eq _ _ _ _ _ _ _ _ _ _ _ _ (window_years_length L dF yearsF fut c hleny)]
  unfold cdftWin
  simp only [if_pos (hG c hc)]

theorem qdm_years_bridge (Fam : LocScaleFam) (em : EcdfMethod) (t : Rat) (Ly Sy : Int) (yearsF : List Int) (L S : Int)
    (dO dH dF : List Int) (obs hist fut : List Rat) (hleny : yearsF.length = fut.length)
    (hG : ∀ c ∈ useCenters S dF, scalesOk Fam [take obs (idxWindow L dO c), take hist (idxWindow L dH c)]) :
    applyLocationRW (winOfYears (qdmYearFn Fam.toFamily .absolute em t none) Ly Sy yearsF) L S dO dH dF obs hist fut
      = applyLocationRW (qdmWin Fam em t (some (Ly, Sy, yearsF))) L S dO dH dF obs hist fut := by
  apply applyLocationRW_congr_at
  intro c hc
  rw [winOfYears_qdm_eq _ _ _ _ _ _ _ _ _ _ _ _ _ _ (window_years_length L dF yearsF fut c hleny)]
  unfold qdmWin
  simp only [if_pos (hG c hc)]

open Model.Isimip in
/-- `ISIMIP._apply_on_window` as regenerated, as the window function of the loops: the loop passes
    `years_* = year(time_*)[window]` -/
def isimipWinRegen (c : Cfg) (fam : IsiFamily) (orc : List Nat → Oracles) (drw : List Nat → Draws)
    (yearsO yearsH yearsF : List Int) : WinFn Rat :=
  fun o h x iO iH iF =>
    Gen.IsimipStep6.apply_on_window (fun a b e => .ok (a, b, e))
      (fun a b e y1 y2 y3 => .ok (step3 c (orc iF) a b e y1 y2 y3)) (step4 c (drw iF)) (step5 c (orc iF))
      (step6 c fam (orc iF)) (step7 c) o h x (take yearsO iO) (take yearsH iH) (take yearsF iF)

open Model.Isimip in
theorem isimipWinRegen_eq (c : Cfg) (fam : IsiFamily) (orc : List Nat → Oracles) (drw : List Nat → Draws)
    (yearsO yearsH yearsF : List Int) :
    isimipWinRegen c fam orc drw yearsO yearsH yearsF = winFn c fam orc drw yearsO yearsH yearsF := by
  funext o h x iO iH iF
  exact Lemmas.GenIsimipStep6.apply_on_window_eq c fam (orc iF) (drw iF) o h x _ _ _

end Lemmas.Capstone
