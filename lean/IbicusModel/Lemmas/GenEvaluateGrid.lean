/-
  Tier A proof obligations for C20 at GRID level.

  `gen_*`      : the data regenerated from the current text of `ibicus/evaluate/{trend,marginal,multivariate,correlation}.py`
                 and `ibicus/utils/_utils.py` (`Gen.EvaluateGrid`, extractor `translator/extract_evalgrid.py`) is the expected
                 data (`Model.EvalGrid.Expected`) — closed terms, `rfl`.  A statistic read from another data set (F9c), another
                 `time`, `np.any` for `np.all` in a guard, a swapped loop nest, another argument position, another flatten order
                 breaks one of these; a rename of a local does not.
  `*_denote`   : the denotation of each expected helper program over ANY grid (list of locations, ≥ 1), any data, any
                 statistic `Q` / `P` / `I`, is `Model.Evaluate.gridEval` of the per-location model function — so `gridEval` is no
                 longer only validated by sampling: `Props.C20.cellwise / grid_raises_iff / grid_independent` speak about the
                 regenerated programs.
  `frame_*`    : the rows of the public functions are `Model.Evaluate.frameRows` (one block per key, inside it `statistics` then
                 `metrics`), and each row's value is the helper program run in the environment the call site binds.
-/
import IbicusModel.Model.EvalGrid
import IbicusModel.Gen.EvaluateGrid
import IbicusModel.Lemmas.Evaluate
import Mathlib.Tactic.Ring
import Mathlib.Tactic.SplitIfs
import Mathlib.Tactic.Linarith
import Mathlib.Tactic.Positivity

set_option linter.unusedSimpArgs false
set_option linter.unusedVariables false

namespace Lemmas.GenEvaluateGrid
open Model.Evaluate Model.EvalGrid Lemmas.Evaluate

/-! ### regenerated = expected (complete finite data, `rfl`) -/

theorem gen_calculate_mean_trend_bias :
    Gen.EvaluateGrid.calculate_mean_trend_bias = Expected.calculate_mean_trend_bias ∧
    Gen.EvaluateGrid.calculate_mean_trend_bias_params = Expected.calculate_mean_trend_bias_params := ⟨rfl, rfl⟩
theorem gen_calculate_mean_trend :
    Gen.EvaluateGrid.calculate_mean_trend = Expected.calculate_mean_trend ∧
    Gen.EvaluateGrid.calculate_mean_trend_params = Expected.calculate_mean_trend_params := ⟨rfl, rfl⟩
theorem gen_calculate_quantile_trend_bias :
    Gen.EvaluateGrid.calculate_quantile_trend_bias = Expected.calculate_quantile_trend_bias ∧
    Gen.EvaluateGrid.calculate_quantile_trend_bias_params = Expected.calculate_quantile_trend_bias_params := ⟨rfl, rfl⟩
theorem gen_calculate_quantile_trend :
    Gen.EvaluateGrid.calculate_quantile_trend = Expected.calculate_quantile_trend ∧
    Gen.EvaluateGrid.calculate_quantile_trend_params = Expected.calculate_quantile_trend_params := ⟨rfl, rfl⟩
theorem gen_calculate_metrics_trend_bias :
    Gen.EvaluateGrid.calculate_metrics_trend_bias = Expected.calculate_metrics_trend_bias ∧
    Gen.EvaluateGrid.calculate_metrics_trend_bias_params = Expected.calculate_metrics_trend_bias_params := ⟨rfl, rfl⟩
theorem gen_calculate_metrics_trend :
    Gen.EvaluateGrid.calculate_metrics_trend = Expected.calculate_metrics_trend ∧
    Gen.EvaluateGrid.calculate_metrics_trend_params = Expected.calculate_metrics_trend_params := ⟨rfl, rfl⟩
theorem gen_marginal_mean_bias :
    Gen.EvaluateGrid.marginal_mean_bias = Expected.marginal_mean_bias ∧
    Gen.EvaluateGrid.marginal_mean_bias_params = Expected.marginal_mean_bias_params := ⟨rfl, rfl⟩
theorem gen_marginal_quantile_bias :
    Gen.EvaluateGrid.marginal_quantile_bias = Expected.marginal_quantile_bias ∧
    Gen.EvaluateGrid.marginal_quantile_bias_params = Expected.marginal_quantile_bias_params := ⟨rfl, rfl⟩
theorem gen_marginal_metrics_bias :
    Gen.EvaluateGrid.marginal_metrics_bias = Expected.marginal_metrics_bias ∧
    Gen.EvaluateGrid.marginal_metrics_bias_params = Expected.marginal_metrics_bias_params := ⟨rfl, rfl⟩
theorem gen_marginal_metrics_absolute_bias :
    Gen.EvaluateGrid.marginal_metrics_absolute_bias = Expected.marginal_metrics_absolute_bias ∧
    Gen.EvaluateGrid.marginal_metrics_absolute_bias_params = Expected.marginal_metrics_absolute_bias_params := ⟨rfl, rfl⟩
theorem gen_calculate_chi :
    Gen.EvaluateGrid.calculate_chi = Expected.calculate_chi ∧
    Gen.EvaluateGrid.calculate_chi_params = Expected.calculate_chi_params := ⟨rfl, rfl⟩

theorem gen_frame_future_trend_bias :
    Gen.EvaluateGrid.calculate_future_trend_bias = Expected.calculate_future_trend_bias := rfl
theorem gen_frame_future_trend :
    Gen.EvaluateGrid.calculate_future_trend = Expected.calculate_future_trend := rfl
theorem gen_frame_marginal_bias :
    Gen.EvaluateGrid.calculate_marginal_bias = Expected.calculate_marginal_bias := rfl
theorem gen_frame_bias_days_metrics :
    Gen.EvaluateGrid.calculate_bias_days_metrics = Expected.calculate_bias_days_metrics := rfl
theorem gen_frame_conditional_joint_threshold_exceedance :
    Gen.EvaluateGrid.calculate_conditional_joint_threshold_exceedance = Expected.calculate_conditional_joint_threshold_exceedance := rfl
theorem gen_rmse_spatial_correlation_distribution :
    Gen.EvaluateGrid.rmse_spatial_correlation_distribution = Expected.rmse_spatial_correlation_distribution := rfl
/-- `_unpack_df_of_numpy_arrays` (flattens the `Bias` array of a row in C order = row-major) and the list-of-two unpacking,
    up to renaming of parameters / locals and the exception message -/
theorem gen_unpack_helpers :
    Gen.EvaluateGrid.unpack_df_of_numpy_arrays_text = Expected.unpack_df_of_numpy_arrays_text ∧
    Gen.EvaluateGrid.check_if_list_of_two_and_unpack_else_none_text = Expected.check_if_list_of_two_and_unpack_else_none_text ∧
    Gen.EvaluateGrid.unpack_flatten_order = "C" := ⟨rfl, rfl, rfl⟩

/-! ### `gridEval`: the two ways a grid call ends -/

theorem gridEval_ok {κ} (cells : List κ) (f : κ → Except String Rat) (h : ∀ c ∈ cells, isRaise (f c) = false) :
    gridEval cells f = .ok (cells.map fun c => (c, f c)) := by
  unfold gridEval
  have e : cells.find? (fun c => isRaise (f c)) = none := by
    rw [List.find?_eq_none]; intro c hc; simp [h c hc]
  rw [e]

theorem gridEval_err {κ} (cells : List κ) (f : κ → Except String Rat) (e : String)
    (hex : ∃ c ∈ cells, isRaise (f c) = true) (he : ∀ c ∈ cells, isRaise (f c) = true → f c = .error e) :
    gridEval cells f = .error e := by
  unfold gridEval
  cases hf : cells.find? (fun c => isRaise (f c)) with
  | none =>
    obtain ⟨c, hc, hr⟩ := hex
    have := List.find?_eq_none.mp hf c hc
    simp [hr] at this
  | some c =>
    have hm := List.mem_of_find?_eq_some hf
    have hr := List.find?_some hf
    simp only [he c hm hr]

theorem isRaise_divE (a b : Rat) : isRaise (Py.divE a b) = false := by
  unfold Py.divE; split_ifs <;> simp [isRaise]

theorem isRaise_ok (a : Rat) : isRaise (.ok a) = false := rfl

theorem exists_mem_of_ne_nil {κ} (cells : List κ) (h : cells ≠ []) : ∃ c, c ∈ cells := by
  cases cells with
  | nil => exact absurd rfl h
  | cons a t => exact ⟨a, List.mem_cons_self⟩

@[simp] theorem bin_ok_ok (f : Rat → Rat → Except String Rat) (a b : Rat) : bin f (.ok a) (.ok b) = f a b := rfl

/-- `100 * (x − y) / y` with partial operands is what the model's nested matches compute -/
theorem pct_bin (x y : Except String Rat) :
    bin Py.divE (bin (fun a b => .ok (a * b)) (.ok 100) (bin (fun a b => .ok (a - b)) x y)) y =
      (match x with
       | .error e => .error e
       | .ok b => match y with
         | .error e => .error e
         | .ok r => pctBias b r) := by
  cases x <;> cases y <;> simp [bin, pctBias]

/-! ### trend helpers -/

/-- the shape shared by the three `_calculate_*_trend_bias` programs (`g` = the multiplicative branch has the `np.all` guards) -/
def tbProg (g : Bool) (rv rf bv bf : Stat) : Prog :=
  .ite (.strEq "trend_type" "additive")
    (.ret (.div (.mul (.lit 100) (.sub (.sub (.stat bf) (.stat bv)) (.sub (.stat rf) (.stat rv)))) (.sub (.stat rf) (.stat rv))))
    (.ite (.strEq "trend_type" "multiplicative")
      (if g then
        .ite (.and (.allNe0 bv) (.allNe0 rv))
          (.ret (.div (.mul (.lit 100) (.sub (.div (.stat bf) (.stat bv)) (.div (.stat rf) (.stat rv)))) (.div (.stat rf) (.stat rv))))
          (.raise "ZeroDivisionError")
       else
        .ret (.div (.mul (.lit 100) (.sub (.div (.stat bf) (.stat bv)) (.div (.stat rf) (.stat rv)))) (.div (.stat rf) (.stat rv))))
      (.raise "ValueError"))

theorem tb_mul_cell (g : Bool) (rv rf bv bf : Rat) (h : ¬ (g = true ∧ (bv = 0 ∨ rv = 0))) :
    trendBias g "multiplicative" rv rf bv bf =
      bin Py.divE (bin (fun a b => .ok (a * b)) (.ok 100) (bin (fun a b => .ok (a - b)) (Py.divE bf bv) (Py.divE rf rv))) (Py.divE rf rv) := by
  unfold trendBias
  rw [if_neg (by decide), if_pos rfl, if_neg h]
  exact (pct_bin _ _).symm

theorem tb_mul_noraise (g : Bool) (rv rf bv bf : Rat) (h : ¬ (g = true ∧ (bv = 0 ∨ rv = 0))) :
    isRaise (trendBias g "multiplicative" rv rf bv bf) = false := by
  unfold trendBias
  rw [if_neg (by decide), if_pos rfl, if_neg h]
  cases h1 : Py.divE bf bv with
  | error e => have := isRaise_divE bf bv; rw [h1] at this; exact this
  | ok b =>
    cases h2 : Py.divE rf rv with
    | error e => have := isRaise_divE rf rv; rw [h2] at this; exact this
    | ok r => exact isRaise_divE _ _

theorem tbProg_den {κ} (E : Env κ) (hne : E.cells ≠ []) (g : Bool) (rv rf bv bf : Stat) :
    (tbProg g rv rf bv bf).den E =
      gridEval E.cells (fun c => trendBias g (E.str "trend_type") (rv.den E c) (rf.den E c) (bv.den E c) (bf.den E c)) := by
  obtain ⟨c0, hc0⟩ := exists_mem_of_ne_nil _ hne
  by_cases h1 : E.str "trend_type" = "additive"
  · have hf : ∀ c, trendBias g (E.str "trend_type") (rv.den E c) (rf.den E c) (bv.den E c) (bf.den E c) =
        pctBias (bf.den E c - bv.den E c) (rf.den E c - rv.den E c) := by
      intro c; unfold trendBias; rw [if_pos h1]
    rw [gridEval_ok _ _ (by intro c _; rw [hf]; exact isRaise_divE _ _)]
    simp only [tbProg, Prog.den, Cond.den, h1, decide_true, if_true]
    congr 1
  · by_cases h2 : E.str "trend_type" = "multiplicative"
    · have hna : ¬ ("multiplicative" = "additive") := by decide
      by_cases hg : g = true ∧ ∃ c ∈ E.cells, (bv.den E c = 0 ∨ rv.den E c = 0)
      · -- a validation statistic is 0 somewhere: the whole call raises
        obtain ⟨hg1, c, hc, hz⟩ := hg
        subst hg1
        rw [gridEval_err _ _ "ZeroDivisionError"]
        · have hcond : (Cond.and (.allNe0 bv) (.allNe0 rv)).den E = false := by
            simp only [Cond.den, Bool.and_eq_false_iff, List.all_eq_false]
            rcases hz with hz | hz
            · exact Or.inl ⟨c, hc, by simp [hz]⟩
            · exact Or.inr ⟨c, hc, by simp [hz]⟩
          simp only [tbProg, Prog.den, Cond.den, h2, hna, decide_false, decide_true, if_true, if_false, Bool.false_eq_true] at hcond ⊢
          simp only [hcond, Bool.false_eq_true, if_false]
        · refine ⟨c, hc, ?_⟩
          rw [h2]; unfold trendBias
          rw [if_neg (by decide), if_pos rfl, if_pos ⟨rfl, hz⟩]; rfl
        · intro c' _ hr
          rw [h2] at hr ⊢
          by_cases hz' : bv.den E c' = 0 ∨ rv.den E c' = 0
          · unfold trendBias; rw [if_neg (by decide), if_pos rfl, if_pos ⟨rfl, hz'⟩]
          · rw [tb_mul_noraise true _ _ _ _ (by rintro ⟨_, h⟩; exact hz' h)] at hr
            exact absurd hr (by decide)
      · -- no guard, or every validation statistic is non-zero: every location carries its own value
        have hcell : ∀ c ∈ E.cells, ¬ (g = true ∧ (bv.den E c = 0 ∨ rv.den E c = 0)) := by
          rintro c hc ⟨hg1, hz⟩; exact hg ⟨hg1, c, hc, hz⟩
        rw [h2, gridEval_ok _ _ (by intro c hc; exact tb_mul_noraise g _ _ _ _ (hcell c hc))]
        have hbody : (E.cells.map fun c => (c, GE.den E c (.div (.mul (.lit 100) (.sub (.div (.stat bf) (.stat bv)) (.div (.stat rf) (.stat rv)))) (.div (.stat rf) (.stat rv))))) =
            E.cells.map fun c => (c, trendBias g "multiplicative" (rv.den E c) (rf.den E c) (bv.den E c) (bf.den E c)) := by
          apply List.map_congr_left
          intro c hc
          rw [tb_mul_cell g _ _ _ _ (hcell c hc)]
          simp [GE.den]
        cases g with
        | false =>
          simp only [tbProg, Prog.den, Cond.den, h2, hna, decide_false, decide_true, if_true, if_false, Bool.false_eq_true]
          rw [hbody]
        | true =>
          have hcond : (Cond.and (.allNe0 bv) (.allNe0 rv)).den E = true := by
            simp only [Cond.den, Bool.and_eq_true, List.all_eq_true, decide_eq_true_eq]
            constructor
            · intro c hc hz; exact hcell c hc ⟨rfl, Or.inl hz⟩
            · intro c hc hz; exact hcell c hc ⟨rfl, Or.inr hz⟩
          simp only [tbProg, Prog.den, h2, hna, if_true] at hcond ⊢
          simp only [Cond.den, h2, hna, decide_false, decide_true, if_true, if_false, Bool.false_eq_true] at hcond ⊢
          simp only [hcond, if_true]
          rw [hbody]
    · have hf : ∀ c, trendBias g (E.str "trend_type") (rv.den E c) (rf.den E c) (bv.den E c) (bf.den E c) = .error "ValueError" := by
        intro c; unfold trendBias; rw [if_neg h1, if_neg h2]
      rw [gridEval_err _ _ "ValueError" ⟨c0, hc0, by rw [hf]; rfl⟩ (fun c _ _ => hf c)]
      simp only [tbProg, Prog.den, Cond.den, h1, h2, decide_false, if_false, Bool.false_eq_true]

/-- **`_calculate_mean_trend_bias` on a grid** = the per-location model at every location; the four means are those of
    `raw_validate / raw_future / bc_validate / bc_future`; no guard (a zero mean gives inf/NaN at that location only) -/
theorem calculate_mean_trend_bias_denote {κ} (E : Env κ) (hne : E.cells ≠ []) :
    Expected.calculate_mean_trend_bias.den E =
      gridEval E.cells (fun c => meanTrendBias (E.str "trend_type") (E.ds "raw_validate" c) (E.ds "raw_future" c)
        (E.ds "bc_validate" c) (E.ds "bc_future" c)) :=
  tbProg_den E hne false (.mean "raw_validate") (.mean "raw_future") (.mean "bc_validate") (.mean "bc_future")

/-- **`_calculate_quantile_trend_bias` on a grid**: both `np.all(… != 0)` guards are global — one location with a zero
    validation quantile (debiased or raw) raises `ZeroDivisionError` for the whole call -/
theorem calculate_quantile_trend_bias_denote {κ} (E : Env κ) (hne : E.cells ≠ []) :
    Expected.calculate_quantile_trend_bias.den E =
      gridEval E.cells (fun c => quantileTrendBias E.Q (E.str "trend_type") E.q (E.ds "raw_validate" c) (E.ds "raw_future" c)
        (E.ds "bc_validate" c) (E.ds "bc_future" c)) :=
  tbProg_den E hne true (.quantile "raw_validate") (.quantile "raw_future") (.quantile "bc_validate") (.quantile "bc_future")

/-- **`_calculate_metrics_trend_bias` on a grid**: validation probabilities with `time_validate`, future ones with
    `time_future`, the raw ones from the RAW data sets (F9c) -/
theorem calculate_metrics_trend_bias_denote {κ} (E : Env κ) (hne : E.cells ≠ []) :
    Expected.calculate_metrics_trend_bias.den E =
      gridEval E.cells (fun c => metricsTrendBias E.P (E.str "trend_type") (E.ds "raw_validate" c) (E.ds "raw_future" c)
        (E.ds "bc_validate" c) (E.ds "bc_future" c) (E.tm "time_validate") (E.tm "time_future")) :=
  tbProg_den E hne true (.prob "raw_validate" "time_validate") (.prob "raw_future" "time_future")
    (.prob "bc_validate" "time_validate") (.prob "bc_future" "time_future")

/-- the shape shared by the three `_calculate_*_trend` programs -/
def tProg (g : Bool) (v f : Stat) : Prog :=
  .ite (.strEq "trend_type" "additive")
    (.ret (.sub (.stat f) (.stat v)))
    (.ite (.strEq "trend_type" "multiplicative")
      (if g then .ite (.allNe0 v) (.ret (.div (.stat f) (.stat v))) (.raise "ZeroDivisionError")
       else .ret (.div (.stat f) (.stat v)))
      (.raise "ValueError"))

theorem tProg_den {κ} (E : Env κ) (hne : E.cells ≠ []) (g : Bool) (v f : Stat) :
    (tProg g v f).den E = gridEval E.cells (fun c => trend g (E.str "trend_type") (v.den E c) (f.den E c)) := by
  obtain ⟨c0, hc0⟩ := exists_mem_of_ne_nil _ hne
  by_cases h1 : E.str "trend_type" = "additive"
  · have hf : ∀ c, trend g (E.str "trend_type") (v.den E c) (f.den E c) = .ok (f.den E c - v.den E c) := by
      intro c; unfold trend; rw [if_pos h1]
    rw [gridEval_ok _ _ (by intro c _; rw [hf]; rfl)]
    simp only [tProg, Prog.den, Cond.den, h1, decide_true, if_true]
    congr 1
  · by_cases h2 : E.str "trend_type" = "multiplicative"
    · have hna : ¬ ("multiplicative" = "additive") := by decide
      rw [h2]
      by_cases hg : g = true ∧ ∃ c ∈ E.cells, v.den E c = 0
      · obtain ⟨hg1, c, hc, hz⟩ := hg
        subst hg1
        have hraise : ∀ c', v.den E c' = 0 → trend true "multiplicative" (v.den E c') (f.den E c') = .error "ZeroDivisionError" := by
          intro c' hz'; unfold trend; rw [if_neg (by decide), if_pos rfl, if_pos ⟨rfl, hz'⟩]
        rw [gridEval_err _ _ "ZeroDivisionError"]
        · have hcond : (Cond.allNe0 v).den E = false := by
            simp only [Cond.den, List.all_eq_false]
            exact ⟨c, hc, by simp [hz]⟩
          simp only [tProg, Prog.den, Cond.den, h2, hna, decide_false, decide_true, if_true, if_false, Bool.false_eq_true] at hcond ⊢
          simp only [hcond, Bool.false_eq_true, if_false]
        · exact ⟨c, hc, by rw [hraise c hz]; rfl⟩
        · intro c' _ hr
          by_cases hz' : v.den E c' = 0
          · exact hraise c' hz'
          · unfold trend at hr
            rw [if_neg (by decide), if_pos rfl, if_neg (by rintro ⟨_, h⟩; exact hz' h), isRaise_divE] at hr
            exact absurd hr (by decide)
      · have hcell : ∀ c ∈ E.cells, ¬ (g = true ∧ v.den E c = 0) := by
          rintro c hc ⟨hg1, hz⟩; exact hg ⟨hg1, c, hc, hz⟩
        have hval : ∀ c ∈ E.cells, trend g "multiplicative" (v.den E c) (f.den E c) = Py.divE (f.den E c) (v.den E c) := by
          intro c hc; unfold trend; rw [if_neg (by decide), if_pos rfl, if_neg (hcell c hc)]
        rw [gridEval_ok _ _ (by intro c hc; rw [hval c hc]; exact isRaise_divE _ _)]
        have hbody : (E.cells.map fun c => (c, GE.den E c (.div (.stat f) (.stat v)))) =
            E.cells.map fun c => (c, trend g "multiplicative" (v.den E c) (f.den E c)) := by
          apply List.map_congr_left
          intro c hc
          rw [hval c hc]
          simp [GE.den]
        cases g with
        | false =>
          simp only [tProg, Prog.den, Cond.den, h2, hna, decide_false, decide_true, if_true, if_false, Bool.false_eq_true]
          rw [hbody]
        | true =>
          have hcond : (Cond.allNe0 v).den E = true := by
            simp only [Cond.den, List.all_eq_true, decide_eq_true_eq]
            intro c hc hz; exact hcell c hc ⟨rfl, hz⟩
          simp only [tProg, Prog.den, h2, hna, if_true] at hcond ⊢
          simp only [Cond.den, h2, hna, decide_false, decide_true, if_true, if_false, Bool.false_eq_true] at hcond ⊢
          simp only [hcond, if_true]
          rw [hbody]
    · have hf : ∀ c, trend g (E.str "trend_type") (v.den E c) (f.den E c) = .error "ValueError" := by
        intro c; unfold trend; rw [if_neg h1, if_neg h2]
      rw [gridEval_err _ _ "ValueError" ⟨c0, hc0, by rw [hf]; rfl⟩ (fun c _ _ => hf c)]
      simp only [tProg, Prog.den, Cond.den, h1, h2, decide_false, if_false, Bool.false_eq_true]

theorem calculate_mean_trend_denote {κ} (E : Env κ) (hne : E.cells ≠ []) :
    Expected.calculate_mean_trend.den E =
      gridEval E.cells (fun c => meanTrend (E.str "trend_type") (E.ds "bc_validate" c) (E.ds "bc_future" c)) :=
  tProg_den E hne false (.mean "bc_validate") (.mean "bc_future")

theorem calculate_quantile_trend_denote {κ} (E : Env κ) (hne : E.cells ≠ []) :
    Expected.calculate_quantile_trend.den E =
      gridEval E.cells (fun c => quantileTrend E.Q (E.str "trend_type") E.q (E.ds "bc_validate" c) (E.ds "bc_future" c)) :=
  tProg_den E hne true (.quantile "bc_validate") (.quantile "bc_future")

theorem calculate_metrics_trend_denote {κ} (E : Env κ) (hne : E.cells ≠ []) :
    Expected.calculate_metrics_trend.den E =
      gridEval E.cells (fun c => metricsTrend E.P (E.str "trend_type") (E.ds "bc_validate" c) (E.ds "bc_future" c)
        (E.tm "time_validate") (E.tm "time_future")) :=
  tProg_den E hne true (.prob "bc_validate" "time_validate") (.prob "bc_future" "time_future")

/-! ### marginal helpers -/

/-- the two independent `if bias_type == …` of `_marginal_mean_bias` / `_marginal_quantile_bias` -/
def mbProg (o c : Stat) : Prog :=
  .ite (.strEq "bias_type" "percentage")
    (.ite (.strEq "bias_type" "absolute")
      (.ret (.sub (.stat c) (.stat o)))
      (.ret (.div (.mul (.lit 100) (.sub (.stat c) (.stat o))) (.stat o))))
    (.ite (.strEq "bias_type" "absolute")
      (.ret (.sub (.stat c) (.stat o)))
      (.raise "UnboundLocalError"))

theorem mbProg_den {κ} (E : Env κ) (hne : E.cells ≠ []) (o c : Stat) :
    (mbProg o c).den E = gridEval E.cells (fun x => marginalBias (E.str "bias_type") (c.den E x) (o.den E x)) := by
  obtain ⟨c0, hc0⟩ := exists_mem_of_ne_nil _ hne
  by_cases h1 : E.str "bias_type" = "percentage"
  · have hna : ¬ ("percentage" = "absolute") := by decide
    have hf : ∀ x, marginalBias (E.str "bias_type") (c.den E x) (o.den E x) = pctBias (c.den E x) (o.den E x) := by
      intro x; unfold marginalBias; rw [if_pos h1]
    rw [gridEval_ok _ _ (by intro x _; rw [hf]; exact isRaise_divE _ _)]
    simp only [mbProg, Prog.den, Cond.den, h1, hna, decide_true, decide_false, if_true, if_false, Bool.false_eq_true]
    congr 1
  · by_cases h2 : E.str "bias_type" = "absolute"
    · have hf : ∀ x, marginalBias (E.str "bias_type") (c.den E x) (o.den E x) = .ok (c.den E x - o.den E x) := by
        intro x; unfold marginalBias absBias; rw [if_neg h1, if_pos h2]
      rw [gridEval_ok _ _ (by intro x _; rw [hf]; rfl)]
      simp only [mbProg, Prog.den, Cond.den, h1, h2, decide_true, decide_false, if_true, if_false, Bool.false_eq_true]
      congr 1
    · have hf : ∀ x, marginalBias (E.str "bias_type") (c.den E x) (o.den E x) = .error "UnboundLocalError" := by
        intro x; unfold marginalBias; rw [if_neg h1, if_neg h2]
      rw [gridEval_err _ _ "UnboundLocalError" ⟨c0, hc0, by rw [hf]; rfl⟩ (fun x _ _ => hf x)]
      simp only [mbProg, Prog.den, Cond.den, h1, h2, decide_false, if_false, Bool.false_eq_true]

/-- **`_marginal_mean_bias` on a grid**: mean of `cm_data` against mean of `obs_data`, location by location -/
theorem marginal_mean_bias_denote {κ} (E : Env κ) (hne : E.cells ≠ []) :
    Expected.marginal_mean_bias.den E =
      gridEval E.cells (fun c => marginalMeanBias (E.ds "obs_data" c) (E.ds "cm_data" c) (E.str "bias_type")) :=
  mbProg_den E hne (.mean "obs_data") (.mean "cm_data")

theorem marginal_quantile_bias_denote {κ} (E : Env κ) (hne : E.cells ≠ []) :
    Expected.marginal_quantile_bias.den E =
      gridEval E.cells (fun c => marginalQuantileBias E.Q E.q (E.ds "obs_data" c) (E.ds "cm_data" c) (E.str "bias_type")) := by
  obtain ⟨c0, hc0⟩ := exists_mem_of_ne_nil _ hne
  by_cases hq : E.q < 0 ∨ E.q > 1
  · have hf : ∀ c, marginalQuantileBias E.Q E.q (E.ds "obs_data" c) (E.ds "cm_data" c) (E.str "bias_type") = .error "ValueError" := by
      intro c; unfold marginalQuantileBias; rw [if_pos hq]
    rw [gridEval_err _ _ "ValueError" ⟨c0, hc0, by rw [hf]; rfl⟩ (fun c _ _ => hf c)]
    have hc : (Cond.or (.qLt 0) (.qGt 1)).den E = true := by
      simp only [Cond.den, Bool.or_eq_true, decide_eq_true_eq]; exact hq
    show (if (Cond.or (.qLt 0) (.qGt 1)).den E = true then _ else _) = _
    rw [if_pos hc]; rfl
  · have hc : (Cond.or (.qLt 0) (.qGt 1)).den E = false := by
      have : ¬ ((Cond.or (.qLt 0) (.qGt 1)).den E = true) := by
        simp only [Cond.den, Bool.or_eq_true, decide_eq_true_eq]; exact hq
      simpa using this
    have hm := mbProg_den E hne (.quantile "obs_data") (.quantile "cm_data")
    show (if (Cond.or (.qLt 0) (.qGt 1)).den E = true then _ else (mbProg (.quantile "obs_data") (.quantile "cm_data")).den E) = _
    rw [hc, hm]
    simp only [Bool.false_eq_true, if_false]
    congr 1
    funext c
    unfold marginalQuantileBias
    rw [if_neg hq]
    rfl

theorem marginal_metrics_bias_denote {κ} (E : Env κ) :
    Expected.marginal_metrics_bias.den E =
      gridEval E.cells (fun c => marginalMetricsBias E.P (E.ds "obs_data" c) (E.ds "cm_data" c) (E.tm "time_obs_data") (E.tm "time_cm_data")) := by
  rw [gridEval_ok _ _ (by intro c _; exact isRaise_divE _ _)]
  simp only [Expected.marginal_metrics_bias, Prog.den]
  congr 1

theorem marginal_metrics_absolute_bias_denote {κ} (E : Env κ) :
    Expected.marginal_metrics_absolute_bias.den E =
      gridEval E.cells (fun c => .ok (marginalMetricsAbsoluteBias E.P (E.ds "obs_data" c) (E.ds "cm_data" c) (E.tm "time_obs_data") (E.tm "time_cm_data"))) := by
  rw [gridEval_ok _ _ (by intro c _; rfl)]
  simp only [Expected.marginal_metrics_absolute_bias, Prog.den]
  congr 1

/-! ### conditional joint exceedance -/

theorem cooccurrence_den (i1 i2 : List Int) :
    (List.zipWith (fun x y => if x = y then (1 : Int) else 0) (i1.map (fun x => if x = 0 then 2 else x)) i2).sum = cooccurrence i1 i2 := by
  unfold cooccurrence
  rw [List.map_zipWith]
  simp only [decide_eq_true_eq]

/-- **`_calculate_chi` on a grid**: `np.any(Σ_t metric2 == 0)` is global (one location where metric 2 never occurs raises
    `ValueError` for the whole call); otherwise `#(m1 ∧ m2) / #m2` location by location, both metrics with the same `time` -/
theorem calculate_chi_denote {κ} (E : Env κ) :
    Expected.calculate_chi.den E =
      gridEval E.cells (fun c => chi (E.I "metric1" (E.ds "dataset1" c) (E.tm "time")) (E.I "metric2" (E.ds "dataset2" c) (E.tm "time"))) := by
  by_cases hz : ∃ c ∈ E.cells, (E.I "metric2" (E.ds "dataset2" c) (E.tm "time")).sum = 0
  · obtain ⟨c, hc, h0⟩ := hz
    have hraise : ∀ c', (E.I "metric2" (E.ds "dataset2" c') (E.tm "time")).sum = 0 →
        chi (E.I "metric1" (E.ds "dataset1" c') (E.tm "time")) (E.I "metric2" (E.ds "dataset2" c') (E.tm "time")) = .error "ValueError" := by
      intro c' h; unfold chi; rw [if_pos h]
    rw [gridEval_err _ _ "ValueError" ⟨c, hc, by rw [hraise c h0]; rfl⟩]
    · have hcond : (Cond.anyEq0 (.sumT (.inst "metric2" "dataset2" "time"))).den E = true := by
        simp only [Cond.den, List.any_eq_true, decide_eq_true_eq]
        exact ⟨c, hc, by simp [Stat.den, IE.den, h0]⟩
      show (if (Cond.anyEq0 (.sumT (.inst "metric2" "dataset2" "time"))).den E = true then _ else _) = _
      rw [if_pos hcond]; rfl
    · intro c' _ hr
      by_cases h' : (E.I "metric2" (E.ds "dataset2" c') (E.tm "time")).sum = 0
      · exact hraise c' h'
      · unfold chi at hr
        rw [if_neg h', isRaise_divE] at hr
        exact absurd hr (by decide)
  · have hcell : ∀ c ∈ E.cells, (E.I "metric2" (E.ds "dataset2" c) (E.tm "time")).sum ≠ 0 := by
      intro c hc h; exact hz ⟨c, hc, h⟩
    have hval : ∀ c ∈ E.cells, chi (E.I "metric1" (E.ds "dataset1" c) (E.tm "time")) (E.I "metric2" (E.ds "dataset2" c) (E.tm "time")) =
        Py.divE ((cooccurrence (E.I "metric1" (E.ds "dataset1" c) (E.tm "time")) (E.I "metric2" (E.ds "dataset2" c) (E.tm "time")) : Int) : Rat)
          (((E.I "metric2" (E.ds "dataset2" c) (E.tm "time")).sum : Int) : Rat) := by
      intro c hc; unfold chi; rw [if_neg (hcell c hc)]
    rw [gridEval_ok _ _ (by intro c hc; rw [hval c hc]; exact isRaise_divE _ _)]
    have hcond : (Cond.anyEq0 (.sumT (.inst "metric2" "dataset2" "time"))).den E = false := by
      have : ¬ ((Cond.anyEq0 (.sumT (.inst "metric2" "dataset2" "time"))).den E = true) := by
        simp only [Cond.den, List.any_eq_true, decide_eq_true_eq, Stat.den, IE.den]
        rintro ⟨c, hc, h⟩
        exact hcell c hc (by simpa using h)
      simpa using this
    show (if (Cond.anyEq0 (.sumT (.inst "metric2" "dataset2" "time"))).den E = true then _ else _) = _
    rw [hcond]
    simp only [Bool.false_eq_true, if_false, Prog.den]
    congr 1
    apply List.map_congr_left
    intro c hc
    rw [hval c hc]
    simp only [GE.den, Stat.den, IE.den, bin_ok_ok, cooccurrence_den]

/-! ### public functions: row order, and what every row contains -/

def noRow : RowSpec := { loop := "", path := [], calls := [], dropIf := "", columns := [] }

/-- the append site that serves an element of `statistics` / `metrics` in the three-site frames (mean, quantile, metric) -/
def site3 (F : FrameSpec) : Ent → RowSpec
  | .mean => F.rows.getD 0 noRow
  | .q _ => F.rows.getD 1 noRow
  | .metric _ => F.rows.getD 2 noRow

def allEnts (stats : List Ent) (nM : Nat) : List Ent := stats ++ (List.range nM).map Ent.metric

def validStats (stats : List Ent) : Prop := ∀ e ∈ stats, e = .mean ∨ ∃ r, e = .q r ∧ r ≤ 1 ∧ r ≥ 0

theorem filterMap_some_of_forall {α β} (l : List α) (f : α → Option β) (g : α → β) (h : ∀ a ∈ l, f a = some (g a)) :
    l.filterMap f = l.map g := by
  induction l with
  | nil => rfl
  | cons a t ih =>
    rw [List.filterMap_cons, h a List.mem_cons_self, List.map_cons, ih (fun b hb => h b (List.mem_cons_of_mem _ hb))]

theorem map_getD_range {α β} (l : List α) (d : α) (h : α → β) : (List.range l.length).map (fun j => h (l.getD j d)) = l.map h := by
  apply List.ext_getElem
  · simp
  · intro i h1 h2
    have hi : i < l.length := by simpa using h2
    simp [List.getD_eq_getElem?_getD, List.getElem?_eq_getElem hi]

/-- blocks per key, inside a block the elements in list order = the model's `frameRows` (on which `Props.C20.frame_row`,
    `frame_length`, `frame_values_label_oblivious` are stated) -/
theorem blocks_eq_frameRows {κ ν} (keys : List κ) (ents : List Ent) (lab : Ent → String) (g : κ → Ent → ν) :
    (keys.flatMap fun k => ents.map fun e => (k, lab e, g k e)) =
      frameRows keys ents.length (fun j => lab (ents.getD j .mean)) (fun k j => g k (ents.getD j .mean)) := by
  unfold frameRows
  congr 1
  funext k
  exact (map_getD_range ents .mean (fun e => (k, lab e, g k e))).symm

/-- **Row order of `calculate_future_trend_bias`** (all of `statistics` valid, nothing dropped): one block per keyword data
    set in keyword order; inside a block first `statistics` in list order, then `metrics` in list order; the mean rows come
    from the mean site, the quantile rows from the quantile site, the metric rows from the metric site. -/
theorem frame_future_trend_bias_rows {κ ν} (str : String → String) (keys : List κ) (stats : List Ent) (nM : Nat)
    (V : κ → RowSpec → Ent → ν) (dropped : ν → Bool) (hv : validStats stats) (hk : ∀ k r e, dropped (V k r e) = false) :
    Expected.calculate_future_trend_bias.den str keys stats nM V dropped =
      keys.flatMap fun k => (allEnts stats nM).map fun e => (k, e, V k (site3 Expected.calculate_future_trend_bias e) e) := by
  unfold FrameSpec.den allEnts
  congr 1
  funext k
  simp only [Expected.calculate_future_trend_bias, List.flatMap_cons, List.flatMap_nil, List.append_nil, entries, List.map_append]
  congr 1
  · apply filterMap_some_of_forall
    intro e he
    rcases hv e he with rfl | ⟨r, rfl, hr⟩
    · simp [RowSpec.matches, PC.holds, site3, hk]
    · simp [RowSpec.matches, PC.holds, site3, hk, hr]
  · simp only [show ¬ ("metrics" = "statistics") by decide, if_false, if_true]
    apply filterMap_some_of_forall
    intro e he
    obtain ⟨i, _, rfl⟩ := List.mem_map.mp he
    simp [RowSpec.matches, PC.holds, site3, hk]

theorem frame_future_trend_rows {κ ν} (str : String → String) (keys : List κ) (stats : List Ent) (nM : Nat)
    (V : κ → RowSpec → Ent → ν) (dropped : ν → Bool) (hv : validStats stats) (hk : ∀ k r e, dropped (V k r e) = false) :
    Expected.calculate_future_trend.den str keys stats nM V dropped =
      keys.flatMap fun k => (allEnts stats nM).map fun e => (k, e, V k (site3 Expected.calculate_future_trend e) e) := by
  unfold FrameSpec.den allEnts
  congr 1
  funext k
  simp only [Expected.calculate_future_trend, List.flatMap_cons, List.flatMap_nil, List.append_nil, entries, List.map_append]
  congr 1
  · apply filterMap_some_of_forall
    intro e he
    rcases hv e he with rfl | ⟨r, rfl, hr⟩
    · simp [RowSpec.matches, PC.holds, site3, hk]
    · simp [RowSpec.matches, PC.holds, site3, hk, hr]
  · simp only [show ¬ ("metrics" = "statistics") by decide, if_false, if_true]
    apply filterMap_some_of_forall
    intro e he
    obtain ⟨i, _, rfl⟩ := List.mem_map.mp he
    simp [RowSpec.matches, PC.holds, site3, hk]

/-- the append site of `calculate_marginal_bias`: the metric site depends on `percentage_or_absolute` -/
def siteMarginal (poa : String) : Ent → RowSpec
  | .mean => Expected.calculate_marginal_bias.rows.getD 0 noRow
  | .q _ => Expected.calculate_marginal_bias.rows.getD 1 noRow
  | .metric _ => Expected.calculate_marginal_bias.rows.getD (if poa = "percentage" then 2 else 3) noRow

/-- **Row order of `calculate_marginal_bias`** (`percentage_or_absolute` one of the two documented values) -/
theorem frame_marginal_bias_rows {κ ν} (str : String → String) (keys : List κ) (stats : List Ent) (nM : Nat)
    (V : κ → RowSpec → Ent → ν) (dropped : ν → Bool) (hv : validStats stats) (hk : ∀ k r e, dropped (V k r e) = false)
    (hp : str "percentage_or_absolute" = "percentage" ∨ str "percentage_or_absolute" = "absolute") :
    Expected.calculate_marginal_bias.den str keys stats nM V dropped =
      keys.flatMap fun k => (allEnts stats nM).map fun e => (k, e, V k (siteMarginal (str "percentage_or_absolute") e) e) := by
  unfold FrameSpec.den allEnts
  congr 1
  funext k
  simp only [Expected.calculate_marginal_bias, List.flatMap_cons, List.flatMap_nil, List.append_nil, entries, List.map_append]
  congr 1
  · apply filterMap_some_of_forall
    intro e he
    rcases hv e he with rfl | ⟨r, rfl, hr⟩
    · simp [RowSpec.matches, PC.holds, siteMarginal, Expected.calculate_marginal_bias, hk]
    · simp [RowSpec.matches, PC.holds, siteMarginal, Expected.calculate_marginal_bias, hk, hr]
  · simp only [show ¬ ("metrics" = "statistics") by decide, if_false, if_true]
    apply filterMap_some_of_forall
    intro e he
    obtain ⟨i, _, rfl⟩ := List.mem_map.mp he
    rcases hp with hp | hp
    · simp [RowSpec.matches, PC.holds, siteMarginal, Expected.calculate_marginal_bias, hk, hp]
    · simp [RowSpec.matches, PC.holds, siteMarginal, Expected.calculate_marginal_bias, hk, hp]

/-- **What the metric row of `calculate_future_trend_bias` contains**: the helper program `_calculate_metrics_trend_bias` run in
    the environment its call site binds is, for every grid, the per-location model with the function's own `raw_validate`,
    `raw_future`, the key's `VALUE[0]` / `VALUE[1]` as debiased validation / future data and `time_validate` / `time_future`
    in these roles — the data-set wiring of the public function (a swap at the call site changes `gen_frame_future_trend_bias`). -/
theorem future_trend_bias_metric_row {κ} (cells : List κ) (hne : cells ≠ []) (ds : String → κ → List Rat) (tm : String → List Int)
    (str : String → String) (q : Rat) (Q : List Rat → Rat → Rat) (P : List Rat → List Int → Rat)
    (I : String → List Rat → List Int → List Int) :
    ∀ c ∈ (site3 Expected.calculate_future_trend_bias (.metric 0)).calls,
      c.callee = "_calculate_metrics_trend_bias" ∧
      Expected.calculate_metrics_trend_bias.den (c.env cells ds tm str q Q P I) =
        gridEval cells (fun x => metricsTrendBias P (str "trend_type") (ds "raw_validate" x) (ds "raw_future" x)
          (ds "VALUE[0]" x) (ds "VALUE[1]" x) (tm "time_validate") (tm "time_future")) := by
  intro c hc
  simp only [site3, Expected.calculate_future_trend_bias, List.getD_cons_succ, List.getD_cons_zero, List.mem_singleton] at hc
  subst hc
  exact ⟨rfl, calculate_metrics_trend_bias_denote _ hne⟩

/-- the mean and the quantile row of `calculate_future_trend_bias`, same statement -/
theorem future_trend_bias_mean_quantile_rows {κ} (cells : List κ) (hne : cells ≠ []) (ds : String → κ → List Rat) (tm : String → List Int)
    (str : String → String) (q : Rat) (Q : List Rat → Rat → Rat) (P : List Rat → List Int → Rat)
    (I : String → List Rat → List Int → List Int) :
    (∀ c ∈ (site3 Expected.calculate_future_trend_bias .mean).calls,
      c.callee = "_calculate_mean_trend_bias" ∧
      Expected.calculate_mean_trend_bias.den (c.env cells ds tm str q Q P I) =
        gridEval cells (fun x => meanTrendBias (str "trend_type") (ds "raw_validate" x) (ds "raw_future" x) (ds "VALUE[0]" x) (ds "VALUE[1]" x))) ∧
    (∀ c ∈ (site3 Expected.calculate_future_trend_bias (.q q)).calls,
      c.callee = "_calculate_quantile_trend_bias" ∧ c.args.lookup "quantile" = some "ITEM" ∧
      Expected.calculate_quantile_trend_bias.den (c.env cells ds tm str q Q P I) =
        gridEval cells (fun x => quantileTrendBias Q (str "trend_type") q (ds "raw_validate" x) (ds "raw_future" x) (ds "VALUE[0]" x) (ds "VALUE[1]" x))) := by
  constructor
  · intro c hc
    simp only [site3, Expected.calculate_future_trend_bias, List.getD_cons_succ, List.getD_cons_zero, List.mem_singleton] at hc
    subst hc
    exact ⟨rfl, calculate_mean_trend_bias_denote _ hne⟩
  · intro c hc
    simp only [site3, Expected.calculate_future_trend_bias, List.getD_cons_succ, List.getD_cons_zero, List.mem_singleton] at hc
    subst hc
    exact ⟨rfl, rfl, calculate_quantile_trend_bias_denote _ hne⟩

/-- **What the rows of `calculate_marginal_bias` compare**: observations (`obs`, unpacked) against the key's data set, the
    metric with the observation's time for the observations and the data set's own time for the data set -/
theorem marginal_bias_rows_wiring {κ} (cells : List κ) (hne : cells ≠ []) (ds : String → κ → List Rat) (tm : String → List Int)
    (str : String → String) (q : Rat) (Q : List Rat → Rat → Rat) (P : List Rat → List Int → Rat)
    (I : String → List Rat → List Int → List Int) :
    (∀ c ∈ (siteMarginal "percentage" .mean).calls,
      c.callee = "_marginal_mean_bias" ∧
      Expected.marginal_mean_bias.den (c.env cells ds tm str q Q P I) =
        gridEval cells (fun x => marginalMeanBias (ds "UNPACK2(obs)[0]" x) (ds "UNPACK2(VALUE)[0]" x) (str "percentage_or_absolute"))) ∧
    (∀ c ∈ (siteMarginal "percentage" (.metric 0)).calls,
      c.callee = "_marginal_metrics_bias" ∧
      Expected.marginal_metrics_bias.den (c.env cells ds tm str q Q P I) =
        gridEval cells (fun x => marginalMetricsBias P (ds "UNPACK2(obs)[0]" x) (ds "UNPACK2(VALUE)[0]" x)
          (tm "UNPACK2(obs)[1]") (tm "UNPACK2(VALUE)[1]"))) ∧
    (∀ c ∈ (siteMarginal "absolute" (.metric 0)).calls,
      c.callee = "_marginal_metrics_absolute_bias" ∧
      Expected.marginal_metrics_absolute_bias.den (c.env cells ds tm str q Q P I) =
        gridEval cells (fun x => .ok (marginalMetricsAbsoluteBias P (ds "UNPACK2(obs)[0]" x) (ds "UNPACK2(VALUE)[0]" x)
          (tm "UNPACK2(obs)[1]") (tm "UNPACK2(VALUE)[1]")))) := by
  refine ⟨?_, ?_, ?_⟩
  · intro c hc
    simp only [siteMarginal, Expected.calculate_marginal_bias, List.getD_cons_succ, List.getD_cons_zero, List.mem_singleton] at hc
    subst hc
    exact ⟨rfl, marginal_mean_bias_denote _ hne⟩
  · intro c hc
    simp only [siteMarginal, Expected.calculate_marginal_bias, if_true, List.getD_cons_succ, List.getD_cons_zero, List.mem_singleton] at hc
    subst hc
    exact ⟨rfl, marginal_metrics_bias_denote _⟩
  · intro c hc
    simp only [siteMarginal, Expected.calculate_marginal_bias, show ¬ ("absolute" = "percentage") by decide, if_false,
      List.getD_cons_succ, List.getD_cons_zero, List.mem_singleton] at hc
    subst hc
    exact ⟨rfl, marginal_metrics_absolute_bias_denote _⟩

/-- **The conditional exceedance row**: metric 1 on `VALUE[0]`, metric 2 on `VALUE[1]`, one optional shared `time`, and the
    reported column is `100 ·` the helper's value (`Model.Evaluate.chiPercent`) -/
theorem conditional_exceedance_row {κ} (cells : List κ) (ds : String → κ → List Rat) (tm : String → List Int)
    (str : String → String) (q : Rat) (Q : List Rat → Rat → Rat) (P : List Rat → List Int → Rat)
    (I : String → List Rat → List Int → List Int) :
    ∀ r ∈ Expected.calculate_conditional_joint_threshold_exceedance.rows,
      r.columns.lookup "Conditional exceedance probability" = some "[CALL0 * 100]" ∧
      ∀ c ∈ r.calls, c.callee = "_calculate_chi" ∧
        Expected.calculate_chi.den (c.env cells ds tm str q Q P I) =
          gridEval cells (fun x => chi (I "metric1" (ds "VALUE[0]" x) (tm "VALUE[2] if len(VALUE) > 2 else None"))
            (I "metric2" (ds "VALUE[1]" x) (tm "VALUE[2] if len(VALUE) > 2 else None"))) := by
  intro r hr
  simp only [Expected.calculate_conditional_joint_threshold_exceedance, List.mem_singleton] at hr
  subst hr
  refine ⟨rfl, ?_⟩
  intro c hc
  simp only [List.mem_singleton] at hc
  subst hc
  exact ⟨rfl, calculate_chi_denote _⟩

/-! ### RMSE of the correlation maps, flatten order -/

/-- what `Expected.rmse_spatial_correlation_distribution` says, in the model's terms: rows in the order of `np.ndindex`
    (row-major, `rowMajor`), at location `ab` the RMSE (`Model.Evaluate.rmse`: mean squared error, then `sqrt`) between the
    correlations of `ab` with every location in `obs_data` and in `cm_data[K]`.  `np.corrcoef` is the parameter `corr`. -/
theorem rmseGrid_row {κ} (corr : List Rat → List Rat → Rat) (sqrt : Rat → Rat) (cells : List κ) (obs cm : κ → List Rat) (i : Nat)
    (hi : i < cells.length) :
    (rmseGrid corr sqrt cells obs cm)[i]? =
      some (cells[i], rmse sqrt (cells.map fun ij => corr (obs cells[i]) (obs ij)) (cells.map fun ij => corr (cm cells[i]) (cm ij))) := by
  simp [rmseGrid, List.getElem?_map, List.getElem?_eq_getElem hi]

/-- a data set against itself: RMSE 0 at every location (`sqrt 0 = 0`) -/
theorem rmseGrid_self {κ} (corr : List Rat → List Rat → Rat) (sqrt : Rat → Rat) (h0 : sqrt 0 = 0) (cells : List κ) (obs : κ → List Rat) :
    rmseGrid corr sqrt cells obs obs = cells.map fun ab => (ab, (if cells = [] then rmse sqrt [] [] else .ok 0)) := by
  unfold rmseGrid
  apply List.map_congr_left
  intro ab hab
  have hne : cells ≠ [] := List.ne_nil_of_mem hab
  rw [if_neg hne]
  congr 1
  have hs : ∀ a : List Rat, (List.zipWith (fun x y => (x - y) * (x - y)) a a).sum = 0 := by
    intro a
    induction a with
    | nil => rfl
    | cons x t ih => simp only [List.zipWith_cons_cons, List.sum_cons, sub_self, mul_zero, zero_add]; exact ih
  have hl : (((cells.map fun ij => corr (obs ab) (obs ij)).length : Nat) : Rat) ≠ 0 := by
    rw [List.length_map]
    cases cells with
    | nil => exact absurd rfl hne
    | cons x t => simp only [List.length_cons]; push_cast; intro h; have : (0 : Rat) ≤ t.length := by positivity
                  nlinarith
  unfold rmse mse
  rw [hs, divE_ok _ _ hl, zero_div]
  simp only [Except.map, h0]

theorem frameRows_getElem {κ ν} (n : Nat) (label : Nat → String) (val : κ → Nat → ν) :
    ∀ (keys : List κ) (ki j : Nat) (hk : ki < keys.length), j < n →
      (frameRows keys n label val)[ki * n + j]? = some (keys[ki], label j, val keys[ki] j)
  | [], ki, _, hk, _ => by simp at hk
  | k :: ks, 0, j, _, hj => by
    rw [frameRows_cons, List.getElem?_append_left (by simpa using hj)]
    simp [List.getElem?_map, List.getElem?_range hj]
  | k :: ks, ki + 1, j, hk, hj => by
    rw [frameRows_cons, List.getElem?_append_right (by simp; nlinarith)]
    have e : (ki + 1) * n + j - ((List.range n).map (fun j => (k, label j, val k j))).length = ki * n + j := by
      simp only [List.length_map, List.length_range]; rw [Nat.add_mul]; omega
    rw [e, frameRows_getElem n label val ks ki j (by simpa using hk) hj]
    simp

/-- row-major enumeration: position `i * m + j` is location `(i, j)` — the order of `np.ndindex(n, m)` and of `.flatten()` in
    C order (`gen_unpack_helpers`: the order regenerated from `_unpack_df_of_numpy_arrays` is `"C"`) -/
theorem rowMajor_getElem (n m i j : Nat) (hi : i < n) (hj : j < m) : (rowMajor n m)[i * m + j]? = some (i, j) := by
  have h := frameRows_getElem m (fun _ => "") (fun (i : Nat) (j : Nat) => (i, j)) (List.range n) i j (by simpa using hi) hj
  simp only [List.getElem_range] at h
  have e : rowMajor n m = (frameRows (List.range n) m (fun _ => "") (fun i j => (i, j))).map (fun r => r.2.2) := by
    unfold rowMajor frameRows
    rw [List.map_flatMap]
    congr 1
    funext i
    simp
  rw [e, List.getElem?_map, h]
  rfl

end Lemmas.GenEvaluateGrid
