/-
  Tier A proof obligations for C20 at GRID level, part 2.

  §1  rows dropped by the `isinf` test: for EVERY frame specification the frame with the drop test is the undropped frame
      filtered (same order, a sublist); the regenerated drop tests of the five public functions are `np.any(np.isinf(CALL0))` or
      none (`gen_drop_tests`, on `Gen.EvaluateGrid.*`), and on the model a row is dropped iff some location is `+inf` or `-inf`
      — a row whose non-finite locations are all NaN stays (seeded change C20-15 tested `not np.all(np.isfinite(·))`).
  §2  `_yearly_exceedances` / `_mean_yearly_exceedances` as regenerated grid programs (`Gen.EvaluateGrid2`): column `j` of the
      denotation is `Model.Evaluate.yearlyExceedances` / `meanYearlyExceedances` of column `j` (so `Props.C20.yearly_split`,
      `yearly_single_year` speak about the regenerated programs); one year of data is ONE row (F10).
  §3  row order of `calculate_bias_days_metrics` and `calculate_conditional_joint_threshold_exceedance`, and what a row of
      `calculate_bias_days_metrics` contains.
  §4  the regenerated `RmseSpec` denotes `rmseGrid` (one block per key, locations row-major; `np.corrcoef`, `sqrt` parameters).
-/
import IbicusModel.Model.EvalGrid2
import IbicusModel.Gen.EvaluateGrid
import IbicusModel.Gen.EvaluateGrid2
import IbicusModel.Lemmas.GenEvaluateGrid
import IbicusModel.Props.C20

set_option linter.unusedSimpArgs false
set_option linter.unusedVariables false

namespace Lemmas.GenEvaluateGrid2
open Model.Evaluate Model.EvalGrid Lemmas.Evaluate Lemmas.GenEvaluateGrid

/-! ## §1 the drop test -/

/-- the text of the only drop test the current source contains -/
def isinfTest : String := "np.any(np.isinf(CALL0))"

/-- **The regenerated drop tests** (on the regenerated frames themselves): the three rows of both trend frames and the mean /
    quantile / percentage-metric rows of `calculate_marginal_bias` are dropped under `np.any(np.isinf(CALL0))`; the
    absolute-metric row, the days-per-year row and the conditional-exceedance row are never dropped. -/
theorem gen_drop_tests :
    Gen.EvaluateGrid.calculate_future_trend_bias.rows.map (·.dropIf) = [isinfTest, isinfTest, isinfTest] ∧
    Gen.EvaluateGrid.calculate_future_trend.rows.map (·.dropIf) = [isinfTest, isinfTest, isinfTest] ∧
    Gen.EvaluateGrid.calculate_marginal_bias.rows.map (·.dropIf) = [isinfTest, isinfTest, isinfTest, ""] ∧
    Gen.EvaluateGrid.calculate_bias_days_metrics.rows.map (·.dropIf) = [""] ∧
    Gen.EvaluateGrid.calculate_conditional_joint_threshold_exceedance.rows.map (·.dropIf) = [""] := by
  refine ⟨?_, ?_, ?_, ?_, ?_⟩ <;> decide

/-- the regenerated public functions -/
def genFrames : List FrameSpec :=
  [Gen.EvaluateGrid.calculate_future_trend_bias, Gen.EvaluateGrid.calculate_future_trend, Gen.EvaluateGrid.calculate_marginal_bias,
   Gen.EvaluateGrid.calculate_bias_days_metrics, Gen.EvaluateGrid.calculate_conditional_joint_threshold_exceedance]

/-- every regenerated drop test is one the model gives a meaning to (complete finite table, `decide`) -/
theorem gen_drop_tests_denote : ∀ F ∈ genFrames, ∀ r ∈ F.rows, r.dropIf = "" ∨ r.dropIf = isinfTest := by
  decide

theorem dropSem_known (d : String) (h : d = "" ∨ d = isinfTest) : (dropSem d).isSome = true := by
  rcases h with rfl | rfl <;> rfl

theorem dropTest_never (v : List FV) : dropTest "" v = false := rfl

/-- **Dropped iff some location is ±inf.** -/
theorem dropTest_isinf_iff (v : List FV) : dropTest isinfTest v = true ↔ ∃ x ∈ v, x = .pinf ∨ x = .ninf := by
  show (v.any FV.isInf) = true ↔ _
  rw [List.any_eq_true]
  constructor
  · rintro ⟨x, hx, h⟩
    refine ⟨x, hx, ?_⟩
    cases x <;> simp [FV.isInf] at h ⊢
  · rintro ⟨x, hx, h | h⟩ <;> exact ⟨x, hx, by subst h; rfl⟩

/-- a row without `±inf` (finite values and NaN only) is kept, whatever the regenerated test is among the two known ones -/
theorem noinf_row_kept (d : String) (h : d = "" ∨ d = isinfTest) (v : List FV) (hv : ∀ x ∈ v, x ≠ .pinf ∧ x ≠ .ninf) :
    dropTest d v = false := by
  rcases h with rfl | rfl
  · rfl
  · cases hd : dropTest isinfTest v with
    | false => rfl
    | true =>
      obtain ⟨x, hx, h⟩ := (dropTest_isinf_iff v).mp hd
      rcases h with h | h
      · exact absurd h (hv x hx).1
      · exact absurd h (hv x hx).2

/-- **NaN does not drop a row** — and this is where seeded change C20-15 (`not np.all(np.isfinite(·))`) differs -/
theorem nan_row_kept_seeded_differs :
    dropTest isinfTest [.fin 1, .nan] = false ∧ notAllFinite [.fin 1, .nan] = true ∧
    dropTest isinfTest [.fin 1, .ninf] = true := by decide

/-- where the non-finite values come from: numpy's division (`x/0 = ±inf` for `x ≠ 0`, `0/0 = NaN`) -/
theorem fdiv_isInf_iff (a b : Rat) : (fdiv a b).isInf = true ↔ b = 0 ∧ a ≠ 0 := by
  unfold fdiv
  by_cases hb : b = 0
  · by_cases ha : a = 0
    · simp [hb, ha, FV.isInf]
    · by_cases hp : a > 0 <;> simp [hb, ha, hp, FV.isInf]
  · simp [hb, FV.isInf]

theorem fdiv_nan_iff (a b : Rat) : fdiv a b = .nan ↔ b = 0 ∧ a = 0 := by
  unfold fdiv
  by_cases hb : b = 0
  · by_cases ha : a = 0
    · simp [hb, ha]
    · by_cases hp : a > 0 <;> simp [hb, ha, hp]
  · simp [hb]

/-- the model's partial division is the float division with `±inf` and NaN identified (`"div0"`) -/
theorem fdiv_toExcept (a b : Rat) : (fdiv a b).toExcept = Py.divE a b := by
  unfold fdiv Py.divE
  by_cases hb : b = 0
  · by_cases ha : a = 0
    · simp [hb, ha, FV.toExcept]
    · by_cases hp : a > 0 <;> simp [hb, ha, hp, FV.toExcept]
  · simp [hb, FV.toExcept]

/-- the percentage bias `100·(cm − obs)/obs` is dropped at a location iff `obs = 0 ≠ cm`; `obs = cm = 0` (NaN) is not -/
theorem pct_dropped_iff (cm obs : Rat) : dropTest isinfTest [fdiv (100 * (cm - obs)) obs] = true ↔ obs = 0 ∧ cm ≠ 0 := by
  rw [dropTest_isinf_iff]
  constructor
  · rintro ⟨x, hx, h⟩
    simp only [List.mem_singleton] at hx
    subst hx
    have hi : (fdiv (100 * (cm - obs)) obs).isInf = true := by rcases h with h | h <;> rw [h] <;> rfl
    obtain ⟨h0, h1⟩ := (fdiv_isInf_iff _ _).mp hi
    refine ⟨h0, ?_⟩
    intro hc; apply h1; rw [h0, hc]; norm_num
  · rintro ⟨h0, h1⟩
    have hi : (fdiv (100 * (cm - obs)) obs).isInf = true :=
      (fdiv_isInf_iff _ _).mpr ⟨h0, by rw [h0]; intro h; apply h1; linarith⟩
    refine ⟨_, List.mem_singleton.mpr rfl, ?_⟩
    cases hf : fdiv (100 * (cm - obs)) obs <;> simp [hf, FV.isInf] at hi ⊢

/-! ### row order under dropping (every frame specification) -/

theorem filter_flatMap' {α β} (p : β → Bool) (f : α → List β) : ∀ l : List α,
    (l.flatMap f).filter p = l.flatMap (fun a => (f a).filter p)
  | [] => rfl
  | a :: t => by rw [List.flatMap_cons, List.filter_append, filter_flatMap' p f t, List.flatMap_cons]

theorem filter_filterMap' {α β} (p : β → Bool) (f : α → Option β) : ∀ l : List α,
    (l.filterMap f).filter p = l.filterMap (fun a => (f a).filter p)
  | [] => rfl
  | a :: t => by
    rw [List.filterMap_cons, List.filterMap_cons]
    cases h : f a with
    | none => simp only [Option.filter_none]; exact filter_filterMap' p f t
    | some b =>
      have ih := filter_filterMap' p f t
      by_cases hp : p b = true
      · rw [List.filter_cons_of_pos hp, ih]; simp [Option.filter, hp]
      · rw [List.filter_cons_of_neg hp, ih]; simp [Option.filter, hp]

theorem flatMap_sublist {α β} (f g : α → List β) : ∀ l : List α, (∀ a ∈ l, (f a).Sublist (g a)) →
    (l.flatMap f).Sublist (l.flatMap g)
  | [], _ => List.Sublist.refl _
  | a :: t, h => by
    rw [List.flatMap_cons, List.flatMap_cons]
    exact List.Sublist.append (h a List.mem_cons_self) (flatMap_sublist f g t (fun b hb => h b (List.mem_cons_of_mem _ hb)))

theorem filterMap_sublist_of {α β} (f g : α → Option β) : ∀ l : List α, (∀ a ∈ l, f a = none ∨ f a = g a) →
    (l.filterMap f).Sublist (l.filterMap g)
  | [], _ => List.Sublist.refl _
  | a :: t, h => by
    have ih := filterMap_sublist_of f g t (fun b hb => h b (List.mem_cons_of_mem _ hb))
    rw [List.filterMap_cons, List.filterMap_cons]
    rcases h a List.mem_cons_self with h0 | h0
    · rw [h0]
      cases g a with
      | none => exact ih
      | some b => exact List.Sublist.cons _ ih
    · rw [h0]
      cases g a with
      | none => exact ih
      | some b => exact List.Sublist.cons_cons _ ih

/-- **Row order under dropping**: for every frame specification, every value function and every drop test, the rows that remain
    are a sublist of the frame without dropping — the same rows in the same order, some missing. -/
theorem den_drop_sublist {κ ν} (F : FrameSpec) (str : String → String) (keys : List κ) (stats : List Ent) (nM : Nat)
    (V : κ → RowSpec → Ent → ν) (dropped : ν → Bool) :
    (F.den str keys stats nM V dropped).Sublist (F.den str keys stats nM V (fun _ => false)) := by
  unfold FrameSpec.den
  apply flatMap_sublist; intro k _
  apply flatMap_sublist; intro lp _
  apply filterMap_sublist_of; intro e _
  cases F.rows.find? (fun r => r.matches str lp e) with
  | none => exact Or.inl rfl
  | some r =>
    by_cases h : r.dropIf ≠ "" ∧ dropped (V k r e) = true
    · left; show (if _ then _ else _) = _; rw [if_pos h]
    · right; show (if _ then _ else _) = (if _ then _ else _); rw [if_neg h]; simp

/-- every row carries the drop test of the append site that produced it -/
def tagV {κ ν} (V : κ → RowSpec → Ent → ν) : κ → RowSpec → Ent → String × ν := fun k r e => (r.dropIf, V k r e)

/-- **Which rows are dropped** (every frame specification): running the frame with each site's own regenerated test
    (`dropTest r.dropIf`) removes from the undropped frame exactly the rows whose test is true, and nothing else moves. -/
theorem den_drop_filter {κ} (F : FrameSpec) (str : String → String) (keys : List κ) (stats : List Ent) (nM : Nat)
    (V : κ → RowSpec → Ent → List FV) :
    F.den str keys stats nM (tagV V) (fun p => dropTest p.1 p.2) =
      (F.den str keys stats nM (tagV V) (fun _ => false)).filter (fun row => !(dropTest row.2.2.1 row.2.2.2)) := by
  unfold FrameSpec.den
  rw [filter_flatMap']
  congr 1; funext k
  rw [filter_flatMap']
  congr 1; funext lp
  rw [filter_filterMap']
  congr 1; funext e
  cases F.rows.find? (fun r => r.matches str lp e) with
  | none => rfl
  | some r =>
    simp only [tagV, Bool.false_eq_true, and_false, if_false]
    by_cases hd : r.dropIf = ""
    · simp [hd, dropTest_never, Option.filter]
    · by_cases ht : dropTest r.dropIf (V k r e) = true
      · simp [hd, ht, Option.filter]
      · simp [hd, ht, Option.filter]

/-- the tag of a row is the drop test of one of the frame's append sites -/
theorem den_tag_mem {κ ν} (F : FrameSpec) (str : String → String) (keys : List κ) (stats : List Ent) (nM : Nat)
    (V : κ → RowSpec → Ent → ν) (dropped : String × ν → Bool) :
    ∀ row ∈ F.den str keys stats nM (tagV V) dropped, row.2.2.1 ∈ F.rows.map (·.dropIf) := by
  intro row hrow
  unfold FrameSpec.den at hrow
  simp only [List.mem_flatMap, List.mem_filterMap] at hrow
  obtain ⟨k, _, lp, _, e, _, h⟩ := hrow
  cases hf : F.rows.find? (fun r => r.matches str lp e) with
  | none => rw [hf] at h; simp at h
  | some r =>
    rw [hf] at h
    have hm := List.mem_of_find?_eq_some hf
    by_cases hc : r.dropIf ≠ "" ∧ dropped (tagV V k r e) = true
    · simp [hc] at h
    · simp only [hc, if_false, Option.some.injEq] at h
      subst h
      exact List.mem_map.mpr ⟨r, hm, rfl⟩

/-- **`calculate_future_trend_bias` / `calculate_future_trend`, regenerated: a row is dropped iff some location is ±inf** — every
    row of the undropped frame stays iff none of its locations is `+inf` / `-inf` (NaN and finite values stay). -/
theorem future_trend_frames_dropped_iff {κ} (F : FrameSpec)
    (hF : F = Gen.EvaluateGrid.calculate_future_trend_bias ∨ F = Gen.EvaluateGrid.calculate_future_trend)
    (str : String → String) (keys : List κ) (stats : List Ent) (nM : Nat) (V : κ → RowSpec → Ent → List FV) :
    F.den str keys stats nM (tagV V) (fun p => dropTest p.1 p.2) =
      (F.den str keys stats nM (tagV V) (fun _ => false)).filter (fun row => !(row.2.2.2.any FV.isInf)) ∧
    ∀ row ∈ F.den str keys stats nM (tagV V) (fun _ => false),
      (dropTest row.2.2.1 row.2.2.2 = true ↔ ∃ x ∈ row.2.2.2, x = .pinf ∨ x = .ninf) := by
  have htag : ∀ row ∈ F.den str keys stats nM (tagV V) (fun _ => false), row.2.2.1 = isinfTest := by
    intro row hrow
    have hm := den_tag_mem F str keys stats nM V (fun _ => false) row hrow
    have hall : ∀ d ∈ F.rows.map (·.dropIf), d = isinfTest := by
      rcases hF with rfl | rfl
      · rw [gen_drop_tests.1]; simp
      · rw [gen_drop_tests.2.1]; simp
    exact hall _ hm
  constructor
  · rw [den_drop_filter]
    apply List.filter_congr
    intro row hrow
    rw [htag row hrow]; rfl
  · intro row hrow
    rw [htag row hrow]
    exact dropTest_isinf_iff _

/-- **`calculate_marginal_bias`, regenerated**: the same, except that the rows of the absolute-metric site (tag `""`) are never
    dropped. -/
theorem marginal_frame_dropped_iff {κ} (str : String → String) (keys : List κ) (stats : List Ent) (nM : Nat)
    (V : κ → RowSpec → Ent → List FV) :
    Gen.EvaluateGrid.calculate_marginal_bias.den str keys stats nM (tagV V) (fun p => dropTest p.1 p.2) =
      (Gen.EvaluateGrid.calculate_marginal_bias.den str keys stats nM (tagV V) (fun _ => false)).filter
        (fun row => !(decide (row.2.2.1 ≠ "") && row.2.2.2.any FV.isInf)) ∧
    (∀ r ∈ Gen.EvaluateGrid.calculate_marginal_bias.rows, r.dropIf = "" ↔ r.calls.map (·.callee) = ["_marginal_metrics_absolute_bias"]) := by
  constructor
  · rw [den_drop_filter]
    apply List.filter_congr
    intro row hrow
    have hm := den_tag_mem _ str keys stats nM V (fun _ => false) row hrow
    rw [gen_drop_tests.2.2.1] at hm
    simp only [List.mem_cons, List.mem_nil_iff, or_false] at hm
    rcases hm with h | h | h | h <;> (rw [h]; rfl)
  · decide

/-! ## §2 yearly exceedances on a grid -/

theorem gen_yearly_exceedances :
    Gen.EvaluateGrid2.yearly_exceedances = Expected2.yearly_exceedances ∧
    Gen.EvaluateGrid2.yearly_exceedances_params = Expected2.yearly_exceedances_params := ⟨rfl, rfl⟩

theorem gen_mean_yearly_exceedances :
    Gen.EvaluateGrid2.mean_yearly_exceedances = Expected2.mean_yearly_exceedances ∧
    Gen.EvaluateGrid2.mean_yearly_exceedances_params = Expected2.mean_yearly_exceedances_params := ⟨rfl, rfl⟩

theorem splitFrom_map {α β} (f : α → β) (x : List α) : ∀ (idx : List Int) (prev : Int),
    Py.splitFrom (x.map f) prev idx = (Py.splitFrom x prev idx).map (List.map f)
  | [], prev => by simp [Py.splitFrom, List.map_drop]
  | i :: t, prev => by simp [Py.splitFrom, List.map_drop, List.map_take, splitFrom_map f x t i]

theorem splitFrom_length {α} (x : List α) : ∀ (idx : List Int) (prev : Int), (Py.splitFrom x prev idx).length = idx.length + 1
  | [], prev => rfl
  | i :: t, prev => by simp [Py.splitFrom, splitFrom_length x t i]

theorem sumAxis0_getD (n j : Nat) (hj : j < n) (sec : List (List Int)) : (sumAxis0 n sec).getD j 0 = (colI j sec).sum := by
  simp [sumAxis0, List.getD_eq_getElem?_getD, List.getElem?_map, List.getElem?_range hj]

/-- splitting a `[time, loc]` matrix along time and summing every section along axis 0, read at location `j`, is splitting
    column `j` and summing the sections -/
theorem col_sumSplit (n j : Nat) (hj : j < n) (M : List (List Int)) (idx : List Int) :
    colI j ((Py.splitAtIdx M idx).map (sumAxis0 n)) = (Py.splitAtIdx (colI j M) idx).map List.sum := by
  unfold colI Py.splitAtIdx
  rw [splitFrom_map, List.map_map, List.map_map]
  apply List.map_congr_left
  intro sec _
  exact sumAxis0_getD n j hj sec

/-- **`_yearly_exceedances` on a grid** (expected = regenerated program, `gen_yearly_exceedances`): the result is a
    `[year, loc]` matrix whose column `j` is the per-location model `yearlyExceedances` of column `j` of the instance matrix —
    for every grid size, every data, every `year()`, every metric; one split-index list (`np.cumsum(counts)[:-1]` of the
    counts of `year(time)`) serves all locations. -/
theorem yearly_exceedances_denote (E : YEnv) :
    ∃ m, Expected2.yearly_exceedances.den E = .mat m ∧
      m.length = (Py.uniqueCounts (E.yearOf (E.tm "time"))).length - 1 + 1 ∧
      ∀ j, j < E.n → colI j m = yearlyExceedances (E.yearOf (E.tm "time")) (colI j (E.I "metric" (E.ds "dataset") (E.tm "time"))) := by
  refine ⟨_, rfl, ?_, ?_⟩
  · simp only [YE.den, YV.den, List.length_map, Py.splitAtIdx, splitFrom_length, List.length_dropLast]
    congr 2
    unfold Py.cumsum
    generalize (0 : Int) = a
    induction Py.uniqueCounts (E.yearOf (E.tm "time")) generalizing a with
    | nil => rfl
    | cons c t ih => simp only [Py.cumsumFrom, List.length_cons, ih]
  · intro j hj
    exact col_sumSplit E.n j hj _ _

/-- the same against the per-location REGENERATED kernel (`Gen.Evaluate.yearly_exceedances`), for a metric that acts location by
    location (`hI`) -/
theorem yearly_exceedances_denote_gen (E : YEnv) (I1 : List Rat → List Int → List Int)
    (hI : ∀ j, j < E.n → ∀ D t, colI j (E.I "metric" D t) = I1 (colQ j D) t) :
    ∃ m, Gen.EvaluateGrid2.yearly_exceedances.den E = .mat m ∧
      ∀ j, j < E.n → colI j m = Gen.Evaluate.yearly_exceedances I1 E.yearOf (colQ j (E.ds "dataset")) (E.tm "time") := by
  obtain ⟨m, hm, _, hc⟩ := yearly_exceedances_denote E
  refine ⟨m, hm, ?_⟩
  intro j hj
  rw [hc j hj, hI j hj, Lemmas.GenEvaluate.yearly_exceedances]

/-- **`_mean_yearly_exceedances` on a grid**: one number per location, location `j` carrying `meanYearlyExceedances` of column `j` -/
theorem mean_yearly_exceedances_denote (E : YEnv) :
    ∃ v, Expected2.mean_yearly_exceedances.den E = .vec v ∧ v.length = E.n ∧
      ∀ j, j < E.n → v.getD j 0 =
        meanYearlyExceedances (E.yearOf (E.tm "time")) (colI j (E.I "metric" (E.ds "dataset") (E.tm "time"))) := by
  refine ⟨_, rfl, by simp [meanAxis0], ?_⟩
  intro j hj
  obtain ⟨m, hm, _, hc⟩ := yearly_exceedances_denote E
  have hm' : m = YE.den E (.sumSplit (.inst "metric" "dataset" "time") (.dropLast (.cumsum (.uniqueCounts (.years "time"))))) := by
    have : YOut.mat m = YOut.mat _ := hm.symm.trans rfl
    exact (YOut.mat.injEq _ _ ▸ this : _)
  unfold meanYearlyExceedances
  rw [← hc j hj, hm']
  simp [meanAxis0, List.getD_eq_getElem?_getD, List.getElem?_map, List.getElem?_range hj]

/-- **Yearly split on a grid** (`Props.C20.yearly_split` transported): time-sorted data, one instance row per time step — at
    every location the rows of the result are, for the distinct years ascending, the exceedances on the days of that year -/
theorem yearly_split_grid (E : YEnv) (hne : E.yearOf (E.tm "time") ≠ []) (hs : (E.yearOf (E.tm "time")).Pairwise (· ≤ ·))
    (hl : (E.I "metric" (E.ds "dataset") (E.tm "time")).length = (E.yearOf (E.tm "time")).length) :
    ∃ m, Gen.EvaluateGrid2.yearly_exceedances.den E = .mat m ∧
      ∀ j, j < E.n → colI j m = (Py.uniqueSorted (E.yearOf (E.tm "time"))).map
        (yearSum (E.yearOf (E.tm "time")) (colI j (E.I "metric" (E.ds "dataset") (E.tm "time")))) := by
  obtain ⟨m, hm, _, hc⟩ := yearly_exceedances_denote E
  refine ⟨m, hm, ?_⟩
  intro j hj
  rw [hc j hj, Props.C20.yearly_split _ _ hne (hs) (by simp [colI, hl])]

/-- **One year of data is one row** (F10 at grid level): the regenerated program returns exactly one row, the column sums of the
    whole instance matrix, and the mean over years at location `j` is the total count there -/
theorem yearly_single_year_grid (E : YEnv) (y : Int) (k : Nat) (hy : E.yearOf (E.tm "time") = List.replicate (k + 1) y) :
    Gen.EvaluateGrid2.yearly_exceedances.den E = .mat [sumAxis0 E.n (E.I "metric" (E.ds "dataset") (E.tm "time"))] ∧
    ∃ v, Gen.EvaluateGrid2.mean_yearly_exceedances.den E = .vec v ∧
      ∀ j, j < E.n → v.getD j 0 = (((colI j (E.I "metric" (E.ds "dataset") (E.tm "time"))).sum : Int) : Rat) := by
  have hs : (List.replicate (k + 1) y).Pairwise (· ≤ ·) := by
    rw [List.pairwise_replicate]; exact Or.inr (le_refl y)
  constructor
  · show YOut.mat _ = _
    simp only [YE.den, YV.den, YM.den, hy, (uniqueCounts_sorted _ hs).1, runs_replicate]
    simp [Py.cumsum, Py.cumsumFrom, Py.splitAtIdx, Py.splitFrom]
  · obtain ⟨v, hv, _, hc⟩ := mean_yearly_exceedances_denote E
    refine ⟨v, hv, ?_⟩
    intro j hj
    rw [hc j hj, hy, (Props.C20.yearly_single_year y k _).2]

/-- what the split of the code before repair 7cffa2c denotes on one year of `c` days: TWO rows (the second one the sums of an
    empty section), so the mean over years was halved — a different denotation from the regenerated program's -/
theorem legacy_single_year_two_rows (n : Nat) (M : List (List Int)) (c : Int) :
    ((Py.splitAtIdx M (Expected2.legacy_single_year_idx c)).map (sumAxis0 n)).length = 2 := by
  simp [Expected2.legacy_single_year_idx, Py.splitAtIdx, Py.splitFrom]

/-! ## §3 row order of `calculate_bias_days_metrics` and `calculate_conditional_joint_threshold_exceedance` -/

/-- the single append site of `calculate_bias_days_metrics` -/
def siteDays : RowSpec := Gen.EvaluateGrid.calculate_bias_days_metrics.rows.getD 0 noRow

/-- **Row order of `calculate_bias_days_metrics`** (regenerated frame): one block per keyword data set in keyword order, inside a
    block one row per element of `metrics` in list order, every row from the one append site; no row is ever dropped (whatever
    the values are) and `statistics` plays no role. -/
theorem frame_bias_days_metrics_rows {κ ν} (str : String → String) (keys : List κ) (stats : List Ent) (nM : Nat)
    (V : κ → RowSpec → Ent → ν) (dropped : ν → Bool) :
    Gen.EvaluateGrid.calculate_bias_days_metrics.den str keys stats nM V dropped =
      keys.flatMap fun k => ((List.range nM).map Ent.metric).map fun e => (k, e, V k siteDays e) := by
  unfold FrameSpec.den
  congr 1
  funext k
  simp only [Gen.EvaluateGrid.calculate_bias_days_metrics, List.flatMap_cons, List.flatMap_nil, List.append_nil, entries,
    show ¬ ("metrics" = "statistics") by decide, if_false, if_true]
  apply filterMap_some_of_forall
  intro e he
  obtain ⟨i, _, rfl⟩ := List.mem_map.mp he
  simp [RowSpec.matches, siteDays, Gen.EvaluateGrid.calculate_bias_days_metrics]

/-- the same as the model's `frameRows` (on which `Props.C20.frame_row / frame_length` are stated): row `ki * nM + j` is key
    `ki`, metric `j` -/
theorem frame_bias_days_metrics_frameRows {κ ν} (str : String → String) (keys : List κ) (stats : List Ent) (nM : Nat)
    (V : κ → RowSpec → Ent → ν) (dropped : ν → Bool) (lab : Nat → String) :
    (Gen.EvaluateGrid.calculate_bias_days_metrics.den str keys stats nM V dropped).map
        (fun row => (row.1, (match row.2.1 with | .metric i => lab i | _ => ""), row.2.2)) =
      frameRows keys nM lab (fun k j => V k siteDays (.metric j)) := by
  rw [frame_bias_days_metrics_rows]
  unfold frameRows
  rw [List.map_flatMap]
  congr 1
  funext k
  simp [List.map_map, Function.comp]

/-- **What a row of `calculate_bias_days_metrics` contains**: `CM` is `_mean_yearly_exceedances` of the key's data set with the
    key's own time (`VALUE[0]`, `VALUE[1]`), `Obs` the same of the observations with the observations' time (`obs_data[0]`,
    `obs_data[1]`), both for the loop's metric, and `Bias = CM − Obs`: at every location the model's `daysMetrics`. -/
theorem bias_days_row (n : Nat) (ds : String → List (List Rat)) (tm : String → List Int) (yearOf : List Int → List Int)
    (I : String → List (List Rat) → List Int → List (List Int)) :
    siteDays.calls.map (·.callee) = ["_mean_yearly_exceedances", "_mean_yearly_exceedances"] ∧
    siteDays.columns.lookup "CM" = some "[CALL0]" ∧ siteDays.columns.lookup "Obs" = some "[CALL1]" ∧
    siteDays.columns.lookup "Bias" = some "[CALL0 - CALL1]" ∧
    ∃ c0 c1 v0 v1, siteDays.calls = [c0, c1] ∧
      Gen.EvaluateGrid2.mean_yearly_exceedances.den (c0.yenv n ds tm yearOf I) = .vec v0 ∧
      Gen.EvaluateGrid2.mean_yearly_exceedances.den (c1.yenv n ds tm yearOf I) = .vec v1 ∧
      ∀ j, j < n → (v0.getD j 0, v1.getD j 0, v0.getD j 0 - v1.getD j 0) =
        daysMetrics (yearOf (tm "VALUE[1]")) (colI j (I "ITEM" (ds "VALUE[0]") (tm "VALUE[1]")))
          (yearOf (tm "obs_data[1]")) (colI j (I "ITEM" (ds "obs_data[0]") (tm "obs_data[1]"))) := by
  refine ⟨rfl, rfl, rfl, rfl, ?_⟩
  obtain ⟨v0, h0, _, hc0⟩ := mean_yearly_exceedances_denote
    (Call.yenv { callee := "_mean_yearly_exceedances", args := [("metric", "ITEM"), ("dataset", "VALUE[0]"), ("time", "VALUE[1]")] } n ds tm yearOf I)
  obtain ⟨v1, h1, _, hc1⟩ := mean_yearly_exceedances_denote
    (Call.yenv { callee := "_mean_yearly_exceedances", args := [("metric", "ITEM"), ("dataset", "obs_data[0]"), ("time", "obs_data[1]")] } n ds tm yearOf I)
  refine ⟨_, _, v0, v1, rfl, h0, h1, ?_⟩
  intro j hj
  rw [hc0 j hj, hc1 j hj]
  rfl

/-- the single append site of `calculate_conditional_joint_threshold_exceedance` -/
def siteChi : RowSpec := Gen.EvaluateGrid.calculate_conditional_joint_threshold_exceedance.rows.getD 0 noRow

/-- **Row order of `calculate_conditional_joint_threshold_exceedance`** (regenerated frame): no inner loop, exactly one row per
    keyword data set, in keyword order, never dropped. -/
theorem frame_conditional_exceedance_rows {κ ν} (str : String → String) (keys : List κ) (stats : List Ent) (nM : Nat)
    (V : κ → RowSpec → ν) (W : κ → RowSpec → Ent → ν) (dropped : ν → Bool) :
    Gen.EvaluateGrid.calculate_conditional_joint_threshold_exceedance.denOuter keys V dropped = keys.map (fun k => (k, V k siteChi)) ∧
    Gen.EvaluateGrid.calculate_conditional_joint_threshold_exceedance.den str keys stats nM W dropped = [] := by
  constructor
  · unfold FrameSpec.denOuter
    have hr : Gen.EvaluateGrid.calculate_conditional_joint_threshold_exceedance.rows.filter
        (fun r => decide (r.loop = "") && r.path.isEmpty) = [siteChi] := by rfl
    rw [hr]
    induction keys with
    | nil => rfl
    | cons k t ih =>
      rw [List.flatMap_cons, ih, List.map_cons]
      have hd : siteChi.dropIf = "" := rfl
      simp [hd]
  · unfold FrameSpec.den
    simp [Gen.EvaluateGrid.calculate_conditional_joint_threshold_exceedance]

/-! ## §4 the RMSE loop -/

/-- **The regenerated `RmseSpec` denotes `rmseGrid`**: one block per key of `cm_data` (in key order); inside a block one row per
    location in the enumeration order of `np.ndindex` (`cells`; row-major, `rowMajor_getElem`); the value at location `ab` is
    `sqrt` of the mean squared error between the correlations of `ab` with every location in `obs_data` and in `cm_data[K]` —
    for every grid, data, `np.corrcoef` (`corr`) and `sqrt`. -/
theorem rmse_spec_denote {κ' κ : Type} (corr : List Rat → List Rat → Rat) (sqrt : Rat → Rat) (keys : List κ') (cells : List κ)
    (obs : κ → List Rat) (cm : κ' → κ → List Rat) :
    Gen.EvaluateGrid.rmse_spatial_correlation_distribution.den corr sqrt keys cells obs cm =
      some (keys.flatMap fun k => (rmseGrid corr sqrt cells obs (cm k)).map fun r => (k, r.1, r.2)) := by
  simp [RmseSpec.den, Gen.EvaluateGrid.rmse_spatial_correlation_distribution, sliceSem, valueSem, rmseGrid, List.map_map,
    Function.comp_def]

/-- a data set equal to the observations: RMSE 0 at every location of its block (`sqrt 0 = 0`, non-empty grid) -/
theorem rmse_spec_self {κ' κ : Type} (corr : List Rat → List Rat → Rat) (sqrt : Rat → Rat) (h0 : sqrt 0 = 0) (keys : List κ')
    (cells : List κ) (hne : cells ≠ []) (obs : κ → List Rat) :
    Gen.EvaluateGrid.rmse_spatial_correlation_distribution.den corr sqrt keys cells obs (fun _ => obs) =
      some (keys.flatMap fun k => cells.map fun ab => (k, ab, .ok 0)) := by
  rw [rmse_spec_denote]
  simp only [rmseGrid_self corr sqrt h0, if_neg hne, List.map_map, Function.comp_def]

/-- a spec whose texts the model does not know (here: another value expression) denotes nothing — it cannot silently pass -/
theorem rmse_spec_unknown_value {κ' κ : Type} (corr : List Rat → List Rat → Rat) (sqrt : Rat → Rat) (keys : List κ') (cells : List κ)
    (obs : κ → List Rat) (cm : κ' → κ → List Rat) :
    ({ Gen.EvaluateGrid.rmse_spatial_correlation_distribution with value := "sklearn.metrics.mean_squared_error(M0, M1)" } : RmseSpec).den
      corr sqrt keys cells obs cm = none := by
  simp [RmseSpec.den, Gen.EvaluateGrid.rmse_spatial_correlation_distribution, sliceSem, valueSem]

end Lemmas.GenEvaluateGrid2
