/-
  Helper lemmas for the numeric toolkit (`Model/Stats.lean`), part 1: sorted lists, `minQ`/`maxQ`,
  `pyIdx`, `lerp`, the clamped index interpolation shared by the continuous `np.quantile` methods,
  and the three discrete inverse-ecdf methods.  Used by `Props/C16`.
-/
import IbicusModel.Model.Stats
import Mathlib.Tactic.Linarith
import Mathlib.Tactic.Ring
import Mathlib.Tactic.Positivity
import Mathlib.Data.List.Basic
import Mathlib.Data.Rat.Floor

namespace Lemmas.Stats
open Model.Stats

/-! ### sorting -/

theorem sortQ_perm (x : List Rat) : (sortQ x).Perm x := List.mergeSort_perm _ _

theorem sortQ_length (x : List Rat) : (sortQ x).length = x.length := List.length_mergeSort _

theorem sortQ_sorted (x : List Rat) : (sortQ x).Pairwise (· ≤ ·) := by
  have h := List.pairwise_mergeSort (le := fun (a b : Rat) => decide (a ≤ b))
    (fun a b c hab hbc => by simp only [decide_eq_true_eq] at *; exact le_trans hab hbc)
    (fun a b => by simp only [Bool.or_eq_true, decide_eq_true_eq]; exact le_total a b) x
  simpa [sortQ] using h

theorem getD_eq (s : List Rat) (i : Nat) (h : i < s.length) : s.getD i 0 = s[i] :=
  (List.getElem_eq_getD 0).symm

theorem getD_mem (s : List Rat) (i : Nat) (h : i < s.length) : s.getD i 0 ∈ s := by
  rw [getD_eq s i h]; exact List.getElem_mem h

/-- a sorted list read through `getD` is monotone in the index -/
theorem sorted_getD_mono {s : List Rat} (hs : s.Pairwise (· ≤ ·)) {i j : Nat} (hij : i ≤ j)
    (hj : j < s.length) : s.getD i 0 ≤ s.getD j 0 := by
  rw [getD_eq s i (by omega), getD_eq s j hj]
  rcases Nat.eq_or_lt_of_le hij with h | h
  · subst h; exact le_refl _
  · exact (List.pairwise_iff_getElem.mp hs) i j (by omega) hj h

/-! ### `minQ`, `maxQ` -/

theorem foldl_min_le (t : List Rat) (a : Rat) : t.foldl min a ≤ a ∧ ∀ v ∈ t, t.foldl min a ≤ v := by
  induction t generalizing a with
  | nil => simp
  | cons b t ih =>
    simp only [List.foldl_cons, List.mem_cons, forall_eq_or_imp]
    obtain ⟨h1, h2⟩ := ih (min a b)
    exact ⟨le_trans h1 (min_le_left _ _), le_trans h1 (min_le_right _ _), h2⟩

theorem foldl_min_mem (t : List Rat) (a : Rat) : t.foldl min a = a ∨ t.foldl min a ∈ t := by
  induction t generalizing a with
  | nil => simp
  | cons b t ih =>
    simp only [List.foldl_cons, List.mem_cons]
    rcases ih (min a b) with h | h
    · rcases min_choice a b with h' | h'
      · left; rw [h, h']
      · right; left; rw [h, h']
    · right; right; exact h

theorem le_foldl_max (t : List Rat) (a : Rat) : a ≤ t.foldl max a ∧ ∀ v ∈ t, v ≤ t.foldl max a := by
  induction t generalizing a with
  | nil => simp
  | cons b t ih =>
    simp only [List.foldl_cons, List.mem_cons, forall_eq_or_imp]
    obtain ⟨h1, h2⟩ := ih (max a b)
    exact ⟨le_trans (le_max_left _ _) h1, le_trans (le_max_right _ _) h1, h2⟩

theorem foldl_max_mem (t : List Rat) (a : Rat) : t.foldl max a = a ∨ t.foldl max a ∈ t := by
  induction t generalizing a with
  | nil => simp
  | cons b t ih =>
    simp only [List.foldl_cons, List.mem_cons]
    rcases ih (max a b) with h | h
    · rcases max_choice a b with h' | h'
      · left; rw [h, h']
      · right; left; rw [h, h']
    · right; right; exact h

theorem minQ_le {l : List Rat} {v : Rat} (hv : v ∈ l) : minQ l ≤ v := by
  cases l with
  | nil => simp at hv
  | cons a t =>
    simp only [minQ, List.mem_cons] at *
    rcases hv with rfl | hv
    · exact (foldl_min_le t _).1
    · exact (foldl_min_le t a).2 v hv

theorem le_maxQ {l : List Rat} {v : Rat} (hv : v ∈ l) : v ≤ maxQ l := by
  cases l with
  | nil => simp at hv
  | cons a t =>
    simp only [maxQ, List.mem_cons] at *
    rcases hv with rfl | hv
    · exact (le_foldl_max t _).1
    · exact (le_foldl_max t a).2 v hv

theorem minQ_mem {l : List Rat} (hl : l ≠ []) : minQ l ∈ l := by
  cases l with
  | nil => exact absurd rfl hl
  | cons a t =>
    simp only [minQ, List.mem_cons]
    exact foldl_min_mem t a

theorem maxQ_mem {l : List Rat} (hl : l ≠ []) : maxQ l ∈ l := by
  cases l with
  | nil => exact absurd rfl hl
  | cons a t =>
    simp only [maxQ, List.mem_cons]
    exact foldl_max_mem t a

theorem minQ_le_maxQ {l : List Rat} (hl : l ≠ []) : minQ l ≤ maxQ l := le_maxQ (minQ_mem hl)

/-- `min x` is the first order statistic -/
theorem sortQ_head (x : List Rat) (hx : x ≠ []) : (sortQ x).getD 0 0 = minQ x := by
  have hlen : 0 < (sortQ x).length := by rw [sortQ_length]; exact List.length_pos_iff.mpr hx
  apply le_antisymm
  · have hm : minQ x ∈ sortQ x := (sortQ_perm x).mem_iff.mpr (minQ_mem hx)
    obtain ⟨k, hk, hkv⟩ := List.mem_iff_getElem.mp hm
    rw [← hkv, ← getD_eq _ k hk]
    exact sorted_getD_mono (sortQ_sorted x) (Nat.zero_le k) hk
  · exact minQ_le ((sortQ_perm x).mem_iff.mp (getD_mem _ 0 hlen))

/-- `max x` is the last order statistic -/
theorem sortQ_last (x : List Rat) (hx : x ≠ []) : (sortQ x).getD (x.length - 1) 0 = maxQ x := by
  have hpos : 0 < x.length := List.length_pos_iff.mpr hx
  have hlen : x.length - 1 < (sortQ x).length := by rw [sortQ_length]; omega
  apply le_antisymm
  · exact le_maxQ ((sortQ_perm x).mem_iff.mp (getD_mem _ _ hlen))
  · have hm : maxQ x ∈ sortQ x := (sortQ_perm x).mem_iff.mpr (maxQ_mem hx)
    obtain ⟨k, hk, hkv⟩ := List.mem_iff_getElem.mp hm
    rw [← hkv, ← getD_eq _ k hk]
    rw [sortQ_length] at hk
    exact sorted_getD_mono (sortQ_sorted x) (by omega) hlen

theorem minQ_sortQ (x : List Rat) (hx : x ≠ []) : minQ (sortQ x) = minQ x := by
  have hs : sortQ x ≠ [] := by
    intro h; have := sortQ_length x; rw [h] at this; exact hx (List.length_eq_zero_iff.mp this.symm)
  apply le_antisymm
  · exact minQ_le ((sortQ_perm x).mem_iff.mpr (minQ_mem hx))
  · exact minQ_le ((sortQ_perm x).mem_iff.mp (minQ_mem hs))

/-! ### `pyIdx`, `lerp` -/

theorem pyIdx_nat (s : List Rat) (k : Nat) : pyIdx s (k : Int) = s.getD k 0 := by
  unfold pyIdx
  have : ¬ ((k : Int) < 0) := by omega
  simp [this]

theorem pyIdx_nat_succ (s : List Rat) (k : Nat) : pyIdx s ((k : Int) + 1) = s.getD (k + 1) 0 := by
  have := pyIdx_nat s (k + 1)
  simpa using this

theorem pyIdx_zero (s : List Rat) : pyIdx s 0 = s.getD 0 0 := pyIdx_nat s 0

theorem pyIdx_neg_one (s : List Rat) : pyIdx s (-1) = s.getD (s.length - 1) 0 := by
  unfold pyIdx; simp

theorem lerp_ge {a b t : Rat} (hab : a ≤ b) (ht : 0 ≤ t) : a ≤ lerp a b t := by
  unfold lerp
  have : 0 ≤ (b - a) * t := mul_nonneg (by linarith) ht
  linarith

theorem lerp_le {a b t : Rat} (hab : a ≤ b) (ht : t ≤ 1) : lerp a b t ≤ b := by
  unfold lerp
  have : (b - a) * t ≤ (b - a) * 1 := mul_le_mul_of_nonneg_left ht (by linarith)
  linarith

theorem lerp_mono {a b t t' : Rat} (hab : a ≤ b) (ht : t ≤ t') : lerp a b t ≤ lerp a b t' := by
  unfold lerp
  have : (b - a) * t ≤ (b - a) * t' := mul_le_mul_of_nonneg_left ht (by linarith)
  linarith

theorem lerp_zero (a b : Rat) : lerp a b 0 = a := by unfold lerp; ring

theorem floor_frac (v : Rat) : 0 ≤ v - (v.floor : Rat) ∧ v - (v.floor : Rat) < 1 := by
  have h1 := Rat.floor_le v
  have h2 := Int.lt_floor_add_one v
  have : (⌊v⌋ : Rat) = (v.floor : Rat) := rfl
  constructor <;> linarith

/-! ### clamped interpolation on the index axis: the common core of the continuous quantile methods -/

/-- value at virtual index `vi` (numpy `_get_indexes` + `_lerp`) -/
def clampLerp (s : List Rat) (vi : Rat) : Rat :=
  if vi ≥ (s.length : Rat) - 1 then pyIdx s (-1)
  else if vi < 0 then pyIdx s 0
  else lerp (pyIdx s vi.floor) (pyIdx s (vi.floor + 1)) (vi - (vi.floor : Rat))

theorem quantileAB_eq (α β : Rat) (s : List Rat) (q : Rat) :
    quantileAB α β s q = clampLerp s ((s.length : Rat) * q + (α + q * (1 - α - β)) - 1) := rfl

theorem quantileLinear_eq (s : List Rat) (q : Rat) :
    quantileLinear s q = clampLerp s (((s.length : Rat) - 1) * q) := rfl

/-- in the interior the virtual index has a natural-number floor `k` with `k + 1 ≤ n - 1` -/
theorem interior_floor {n : Nat} {vi : Rat} (h0 : ¬ vi < 0) (h1 : ¬ vi ≥ (n : Rat) - 1) :
    ∃ k : Nat, vi.floor = (k : Int) ∧ k + 1 < n := by
  have hnn : 0 ≤ vi.floor := Rat.le_floor_iff.mpr (by push_cast; linarith)
  obtain ⟨k, hk⟩ := Int.eq_ofNat_of_zero_le hnn
  refine ⟨k, hk, ?_⟩
  have h2 := Rat.floor_le vi
  rw [hk] at h2
  have h3 : (k : Rat) < (n : Rat) - 1 := by push_cast at h2; linarith
  have h4 : ((k + 1 : Nat) : Rat) < (n : Rat) := by push_cast; linarith
  exact_mod_cast h4

theorem clampLerp_interior {s : List Rat} {vi : Rat} (h0 : ¬ vi < 0) (h1 : ¬ vi ≥ (s.length : Rat) - 1)
    {k : Nat} (hk : vi.floor = (k : Int)) :
    clampLerp s vi = lerp (s.getD k 0) (s.getD (k + 1) 0) (vi - (k : Rat)) := by
  unfold clampLerp
  rw [if_neg h1, if_neg h0, hk, pyIdx_nat, pyIdx_nat_succ]
  simp

theorem clampLerp_range {s : List Rat} (hs : s.Pairwise (· ≤ ·)) (hne : s ≠ []) (vi : Rat) :
    s.getD 0 0 ≤ clampLerp s vi ∧ clampLerp s vi ≤ s.getD (s.length - 1) 0 := by
  have hpos : 0 < s.length := List.length_pos_iff.mpr hne
  have hends : s.getD 0 0 ≤ s.getD (s.length - 1) 0 := sorted_getD_mono hs (Nat.zero_le _) (by omega)
  by_cases h1 : vi ≥ (s.length : Rat) - 1
  · unfold clampLerp; rw [if_pos h1, pyIdx_neg_one]; exact ⟨hends, le_refl _⟩
  by_cases h0 : vi < 0
  · unfold clampLerp; rw [if_neg h1, if_pos h0, pyIdx_zero]; exact ⟨le_refl _, hends⟩
  obtain ⟨k, hk, hkn⟩ := interior_floor h0 h1
  rw [clampLerp_interior h0 h1 hk]
  have hf := floor_frac vi
  rw [hk] at hf
  have hab : s.getD k 0 ≤ s.getD (k + 1) 0 := sorted_getD_mono hs (Nat.le_succ k) hkn
  constructor
  · exact le_trans (sorted_getD_mono hs (Nat.zero_le k) (by omega)) (lerp_ge hab (by exact_mod_cast hf.1))
  · exact le_trans (lerp_le hab (by exact_mod_cast le_of_lt hf.2)) (sorted_getD_mono hs (by omega) (by omega))

theorem clampLerp_mono {s : List Rat} (hs : s.Pairwise (· ≤ ·)) (hne : s ≠ []) {vi vi' : Rat}
    (h : vi ≤ vi') : clampLerp s vi ≤ clampLerp s vi' := by
  by_cases h1' : vi' ≥ (s.length : Rat) - 1
  · have : clampLerp s vi' = s.getD (s.length - 1) 0 := by
      unfold clampLerp; rw [if_pos h1', pyIdx_neg_one]
    rw [this]; exact (clampLerp_range hs hne vi).2
  have h1 : ¬ vi ≥ (s.length : Rat) - 1 := by intro hh; exact h1' (le_trans hh h)
  by_cases h0 : vi < 0
  · have : clampLerp s vi = s.getD 0 0 := by
      unfold clampLerp; rw [if_neg h1, if_pos h0, pyIdx_zero]
    rw [this]; exact (clampLerp_range hs hne vi').1
  have h0' : ¬ vi' < 0 := by intro hh; exact h0 (lt_of_le_of_lt h hh)
  obtain ⟨k, hk, hkn⟩ := interior_floor h0 h1
  obtain ⟨k', hk', hkn'⟩ := interior_floor h0' h1'
  rw [clampLerp_interior h0 h1 hk, clampLerp_interior h0' h1' hk']
  have hf := floor_frac vi
  have hf' := floor_frac vi'
  rw [hk] at hf; rw [hk'] at hf'
  have hkk : k ≤ k' := by
    have := Rat.floor_monotone h
    rw [hk, hk'] at this; exact_mod_cast this
  have hab : s.getD k 0 ≤ s.getD (k + 1) 0 := sorted_getD_mono hs (Nat.le_succ k) hkn
  have hab' : s.getD k' 0 ≤ s.getD (k' + 1) 0 := sorted_getD_mono hs (Nat.le_succ k') hkn'
  rcases Nat.eq_or_lt_of_le hkk with heq | hlt
  · subst heq
    exact lerp_mono hab (by linarith)
  · calc lerp (s.getD k 0) (s.getD (k + 1) 0) (vi - (k : Rat))
        ≤ s.getD (k + 1) 0 := lerp_le hab (by exact_mod_cast le_of_lt hf.2)
      _ ≤ s.getD k' 0 := sorted_getD_mono hs (by omega) (by omega)
      _ ≤ _ := lerp_ge hab' (by exact_mod_cast hf'.1)

/-! ### the Hyndman–Fan family, generic in `α β ∈ [0,1]` -/

/-- the virtual index is non-decreasing in `q` (slope `n + 1 - α - β ≥ n - 1 ≥ 0`) -/
theorem viAB_mono {α β : Rat} (hα : α ≤ 1) (hβ : β ≤ 1) {n : Nat} (hn : 1 ≤ n) {p q : Rat} (h : p ≤ q) :
    (n : Rat) * p + (α + p * (1 - α - β)) - 1 ≤ (n : Rat) * q + (α + q * (1 - α - β)) - 1 := by
  have hn' : (1 : Rat) ≤ (n : Rat) := by exact_mod_cast hn
  have : 0 ≤ ((n : Rat) + 1 - α - β) * (q - p) := mul_nonneg (by linarith) (by linarith)
  nlinarith

end Lemmas.Stats
