/-
  C06 tier A, ISIMIP step 2: `_step2_impute_values` regenerated from /repo's current source as data
  (`Gen/IsimipStep2.lean`, the symbolic reading `translator/extract_isimip_steps.py: generate_step2`) equals the expected
  spec of `Model/IsimipStep2.lean`, and the denotation of that spec IS `Model.Isimip.step2Impute` — the function the F21
  witness (`Props/C06Detrend.lean` §5: imputation depends on the storage position) is stated on.

  What the regenerated value pins down: the entries replaced are exactly those of `_step2_get_mask_for_values_to_impute`
  (tied to "`nan` or `±inf`" by `Lemmas.GenIsimipSteps.get_mask_for_values_to_impute_eq`); one `np.random.random` value per
  missing entry is pushed through `iecdf` of the valid values (`self.iecdf_method`); the sorted sample is placed by
  `argsort(argsort(·))` of `interp1d(np.where(valid)[0], argsort(argsort(valid)), fill_value="extrapolate")` evaluated at
  the positions of the missing entries — i.e. by ARRAY POSITION, which is why step 2 is not time-order equivariant (F21).
-/
import IbicusModel.Gen.IsimipStep2

namespace Lemmas.GenIsimipSteps3
open Model.IsimipStep2 Model.Isimip Model.Stats

/-! ### regenerated = expected (complete finite data, by evaluation) -/

theorem impute_values : Gen.IsimipStep2.impute_values = Model.IsimipStep2.imputeValues := by decide +kernel

/-! ### denotation of the expected spec = the model's step 2 -/

/-- reading `x` through the mask of valid values never touches a missing entry -/
theorem selectWhere_valid (x : List (Option Rat)) :
    Py.selectWhere (x.map (fun v => v.getD 0)) ((x.map (fun v => v.isNone)).map (fun b => !b)) = x.filterMap id := by
  induction x with
  | nil => rfl
  | cons a t ih =>
    unfold Py.selectWhere at ih ⊢
    cases a with
    | none => simpa using ih
    | some v => simpa using ih

/-- **`_step2_impute_values` as regenerated denotes `Model.Isimip.step2Impute`** (every configuration, series, draw list) -/
theorem impute_values_denote (c : Cfg) (x : List (Option Rat)) (u : List Rat) :
    denote Model.IsimipStep2.imputeValues c x u = step2Impute c x u := by
  unfold denote step2Impute
  simp only [imputeValues, validE, eval, selectWhere_valid]
  rcases h : x.filterMap id with _ | ⟨a, _ | ⟨b, t⟩⟩
  · simp
  · simp
  · simp only [asRats]
    by_cases hu : u.length = (Py.whereTrue (x.map (fun v => v.isNone))).length
    · simp [hu, Function.comp_def]
    · simp [hu]

/-- … and so does the regenerated value itself -/
theorem gen_impute_values_denote (c : Cfg) (x : List (Option Rat)) (u : List Rat) :
    denote Gen.IsimipStep2.impute_values c x u = step2Impute c x u := by
  rw [impute_values, impute_values_denote]

/-! ### non-vacuity (concrete evaluation) -/

/-- the configuration of the F21 witness (prsnratio: `impute_missing_values = True`) -/
def cfgImpute : Cfg := { trendMethod := .additive, nonparametricQm := false, detrending := false, imputeMissingValues := true }

def xW : List (Option Rat) := [some (1/10), none, some (1/2), some (3/10), none, some (9/10), some (7/10), none, some (1/5), some (3/5)]

-- (`#guard` = compiled evaluation, as in `Props/C06Detrend.lean` §5: `sortQ` is a well-founded `mergeSort`, `decide` does not unfold it)
-- the series of the F21 witness, three missing entries, draws `[1/16, 5/8, 3/8]`: the regenerated function imputes, and
-- returns what `step2Impute` returns
#guard (match denote Gen.IsimipStep2.impute_values cfgImpute xW [1/16, 5/8, 3/8], step2Impute cfgImpute xW [1/16, 5/8, 3/8] with
    | .ok r, .ok r' => r == r' && r.length == 10 && (r.zip xW).all (fun t => t.2.isNone || some t.1 == t.2) | _, _ => false)
-- no valid value: the regenerated exception; one valid value: it is copied
#guard (match denote Gen.IsimipStep2.impute_values cfgImpute [none, none] [] with | .error e => e == "ValueError" | _ => false)
#guard (match denote Gen.IsimipStep2.impute_values cfgImpute [none, some 7, none] [] with | .ok r => r == [7, 7, 7] | _ => false)
-- a spec that places the sorted sample in storage order of the missing entries (no interpolation of the valid values' ranks
-- along the position) denotes something else: `[5, _, 1, _, 3]` with the sample `{2, 4}` — the expected spec puts the larger
-- value next to 5
#guard (match denote { Model.IsimipStep2.imputeValues with
          fillValue := .take (.sort (.iecdf validE (.random (.count .maskImpute)) "self.iecdf_method")) (.rank (.whereIdx .maskImpute)) }
        cfgImpute [some 5, none, some 1, none, some 3] [3/4, 1/4],
      denote Model.IsimipStep2.imputeValues cfgImpute [some 5, none, some 1, none, some 3] [3/4, 1/4] with
    | .ok r, .ok r' => r != r' | _, _ => false)

end Lemmas.GenIsimipSteps3
