/-
  Lifting per-window statements to whole series (C01-C04, C06): the write-back loops commute with element-wise
  changes of the inputs (index sets depend on the dates only), and per-window fixed points lift.
-/
import IbicusModel.Lemmas.Pointwise

namespace Lemmas.Lift
open Model.Skeleton Model.Windows Lemmas.Windows Lemmas.Skeleton Lemmas.Pointwise

/-- relabel the values of a write list -/
def mapW {α} (ψ : α → α) (ws : List (Nat × α)) : List (Nat × α) := ws.map (fun p => (p.1, ψ p.2))

theorem applyWrites_map {α} (ψ : α → α) (out : List (Option α)) (ws : List (Nat × α)) :
    applyWrites (out.map (Option.map ψ)) (mapW ψ ws) = (applyWrites out ws).map (Option.map ψ) := by
  unfold applyWrites mapW
  induction ws generalizing out with
  | nil => rfl
  | cons p t ih =>
    simp only [List.map_cons, List.foldl_cons]
    rw [← ih]
    congr 1
    rw [List.map_set]
    rfl

theorem mapE_map {β γ ε} (f f' : β → Except ε γ) (k : γ → γ) (l : List β)
    (h : ∀ b ∈ l, f' b = (f b).map k) : mapE f' l = (mapE f l).map (List.map k) := by
  induction l with
  | nil => rfl
  | cons b t ih =>
    unfold mapE
    rw [h b List.mem_cons_self, ih (fun x hx => h x (List.mem_cons_of_mem _ hx))]
    cases f b with
    | error e => rfl
    | ok c =>
      simp only [Except.map]
      cases mapE f t with
      | error e => rfl
      | ok cs => rfl

/-- the generic loop commutes with a relabelling of the written values -/
theorem runLoop_map {α C} (writes writes' : C → Except String (List (Nat × α))) (ψ : α → α)
    (cs : List C) (n : Nat)
    (h : ∀ c ∈ cs, writes' c = (writes c).map (mapW ψ)) :
    runLoop writes' cs n = (runLoop writes cs n).map (List.map (Option.map ψ)) := by
  unfold runLoop
  rw [mapE_map writes writes' (mapW ψ) cs h]
  cases mapE writes cs with
  | error e => rfl
  | ok wss =>
    simp only [Except.map, bind, Except.bind, pure, Except.pure]
    congr 1
    have : (List.map (mapW ψ) wss).flatten = mapW ψ wss.flatten := by
      unfold mapW; rw [List.map_flatten]
    rw [this, ← applyWrites_map]
    simp

theorem runLoop_congr {α C} (writes writes' : C → Except String (List (Nat × α))) (cs : List C) (n : Nat)
    (h : ∀ c ∈ cs, writes' c = writes c) : runLoop writes' cs n = runLoop writes cs n := by
  unfold runLoop
  have : mapE writes' cs = mapE writes cs := by
    induction cs with
    | nil => rfl
    | cons b t ih =>
      unfold mapE
      rw [h b List.mem_cons_self, ih (fun x hx => h x (List.mem_cons_of_mem _ hx))]
  rw [this]

theorem take_map {α} (φ : α → α) (x : List α) (idx : List Nat) : take (x.map φ) idx = (take x idx).map φ := by
  unfold take
  rw [List.map_filterMap]
  congr 1
  funext i
  simp [List.getElem?_map]

theorem selectWhere_map {α} (ψ : α → α) (x : List α) (m : List Bool) :
    Py.selectWhere (x.map ψ) m = (Py.selectWhere x m).map ψ := by
  unfold Py.selectWhere
  induction x generalizing m with
  | nil => simp
  | cons a t ih =>
    cases m with
    | nil => simp
    | cons b u =>
      simp only [List.map_cons, List.zip_cons_cons, List.filterMap_cons]
      cases b <;> simp [ih]

theorem maskSelect_map {α} (ψ : α → α) (x : List α) (m : List Bool) :
    maskSelect (x.map ψ) m = (maskSelect x m).map (List.map ψ) := by
  unfold maskSelect
  simp only [List.length_map]
  split_ifs
  · simp [Except.map, selectWhere_map]
  · rfl

theorem pairsFor_map {α} (ψ : α → α) (idx : List Nat) (vals : List α) :
    pairsFor idx (vals.map ψ) = (pairsFor idx vals).map (mapW ψ) := by
  unfold pairsFor mapW
  simp only [List.length_map]
  split_ifs with hl
  · simp only [Except.map]
    congr 1
    rw [List.zip_map_right]
    simp [Prod.map]
  · cases vals with
    | nil => rfl
    | cons v t =>
      cases t with
      | nil => simp [Except.map, List.map_map, Function.comp]
      | cons w u => rfl


/-! ### equivariance of the write-back loops under element-wise changes of the inputs -/

theorem windowWrites_equivariant {α} (f : WinFn α) (φo φh φx ψ : α → α) (L S : Int) (dO dH dF : List Int)
    (obs hist fut : List α) (c : Int)
    (hf : ∀ o h x io ih ix, f (o.map φo) (h.map φh) (x.map φx) io ih ix = (f o h x io ih ix).map (List.map ψ)) :
    windowWrites f L S dO dH dF (obs.map φo) (hist.map φh) (fut.map φx) c =
      (windowWrites f L S dO dH dF obs hist fut c).map (mapW ψ) := by
  unfold windowWrites
  simp only [take_map, hf, bind, Except.bind]
  cases f (take obs (idxWindow L dO c)) (take hist (idxWindow L dH c)) (take fut (idxWindow L dF c))
      (idxWindow L dO c) (idxWindow L dH c) (idxWindow L dF c) with
  | error e => rfl
  | ok res =>
    simp only [Except.map, maskSelect_map]
    cases maskSelect res (List.map (fun j => (idxAdjust S dF c).contains j) (idxWindow L dF c)) with
    | error e => rfl
    | ok vals => simp only [Except.map, pairsFor_map]

/-- **Lift (RunningWindowDebiaser / ISIMIP running-window loop)**: a per-window relation
    `f (φo•o) (φh•h) (φx•x) = ψ • f o h x` lifts to the whole series — the index sets depend on the dates only. -/
theorem applyLocationRW_equivariant {α} (f : WinFn α) (φo φh φx ψ : α → α) (L S : Int) (dO dH dF : List Int)
    (obs hist fut : List α)
    (hf : ∀ o h x io ih ix, f (o.map φo) (h.map φh) (x.map φx) io ih ix = (f o h x io ih ix).map (List.map ψ)) :
    applyLocationRW f L S dO dH dF (obs.map φo) (hist.map φh) (fut.map φx) =
      (applyLocationRW f L S dO dH dF obs hist fut).map (List.map (Option.map ψ)) := by
  unfold applyLocationRW
  rw [List.length_map]
  exact runLoop_map _ _ ψ _ _ (fun c _ => windowWrites_equivariant f φo φh φx ψ L S dO dH dF obs hist fut c hf)

theorem windowWritesDC_equivariant {α} (f : WinFn α) (φo φh φx ψ : α → α) (L S : Int) (dO dH dF : List Int)
    (obs hist fut : List α) (c : Int)
    (hf : ∀ o h x io ih ix, f (o.map φo) (h.map φh) (x.map φx) io ih ix = (f o h x io ih ix).map (List.map ψ)) :
    windowWritesDC f L S dO dH dF (obs.map φo) (hist.map φh) (fut.map φx) c =
      (windowWritesDC f L S dO dH dF obs hist fut c).map (mapW ψ) := by
  unfold windowWritesDC
  simp only [take_map, hf, bind, Except.bind]
  cases f (take obs (idxWindow L dO c)) (take hist (idxWindow L dH c)) (take fut (idxWindow L dF c))
      (idxWindow L dO c) (idxWindow L dH c) (idxWindow L dF c) with
  | error e => rfl
  | ok res =>
    simp only [Except.map, maskSelect_map]
    cases maskSelect res (List.map (fun j => (idxAdjust S dO c).contains j) (idxWindow L dO c)) with
    | error e => rfl
    | ok vals => simp only [Except.map, pairsFor_map]

/-- **Lift (DeltaChange)** -/
theorem applyLocationDC_equivariant {α} (f : WinFn α) (φo φh φx ψ : α → α) (L S : Int) (dO dH dF : List Int)
    (obs hist fut : List α)
    (hf : ∀ o h x io ih ix, f (o.map φo) (h.map φh) (x.map φx) io ih ix = (f o h x io ih ix).map (List.map ψ)) :
    applyLocationDC f L S dO dH dF (obs.map φo) (hist.map φh) (fut.map φx) =
      (applyLocationDC f L S dO dH dF obs hist fut).map (List.map (Option.map ψ)) := by
  unfold applyLocationDC
  rw [List.length_map]
  exact runLoop_map _ _ ψ _ _ (fun c _ => windowWritesDC_equivariant f φo φh φx ψ L S dO dH dF obs hist fut c hf)

theorem monthWrites_equivariant {α} (f : WinFn α) (φo φh φx ψ : α → α) (mO mH mF : List Int)
    (obs hist fut : List α) (m : Int)
    (hf : ∀ o h x io ih ix, f (o.map φo) (h.map φh) (x.map φx) io ih ix = (f o h x io ih ix).map (List.map ψ)) :
    monthWrites f mO mH mF (obs.map φo) (hist.map φh) (fut.map φx) m =
      (monthWrites f mO mH mF obs hist fut m).map (mapW ψ) := by
  unfold monthWrites
  simp only [take_map, hf, bind, Except.bind]
  cases f (take obs (Py.whereTrue (mO.map (fun x => decide (x = m))))) (take hist (Py.whereTrue (mH.map (fun x => decide (x = m)))))
      (take fut (Py.whereTrue (mF.map (fun x => decide (x = m))))) (Py.whereTrue (mO.map (fun x => decide (x = m))))
      (Py.whereTrue (mH.map (fun x => decide (x = m)))) (Py.whereTrue (mF.map (fun x => decide (x = m)))) with
  | error e => rfl
  | ok res => simp only [Except.map, pairsFor_map]

/-- **Lift (ISIMIP month mode)** -/
theorem applyLocationMonths_equivariant {α} (f : WinFn α) (φo φh φx ψ : α → α) (mO mH mF : List Int)
    (obs hist fut : List α)
    (hf : ∀ o h x io ih ix, f (o.map φo) (h.map φh) (x.map φx) io ih ix = (f o h x io ih ix).map (List.map ψ)) :
    applyLocationMonths f mO mH mF (obs.map φo) (hist.map φh) (fut.map φx) =
      (applyLocationMonths f mO mH mF obs hist fut).map (List.map (Option.map ψ)) := by
  unfold applyLocationMonths
  rw [List.length_map]
  exact runLoop_map _ _ ψ _ _ (fun m _ => monthWrites_equivariant f φo φh φx ψ mO mH mF obs hist fut m hf)

theorem yearWrites_equivariant {α} (g : YearFn α) (φ ψ : α → α) (L S : Int) (years : List Int) (fut : List α) (c : Int)
    (hg : ∀ x iw, g (x.map φ) iw = (g x iw).map (List.map ψ)) :
    yearWrites g L S years (fut.map φ) c = (yearWrites g L S years fut c).map (mapW ψ) := by
  unfold yearWrites
  simp only [selectWhere_map, hg, bind, Except.bind]
  cases g (Py.selectWhere fut (yearMask years (yearsInWindow L c))) (Py.whereTrue (yearMask years (yearsInWindow L c))) with
  | error e => rfl
  | ok res =>
    simp only [Except.map, maskSelect_map]
    cases maskSelect res (yearMask (Py.selectWhere years (yearMask years (yearsInWindow L c))) (yearsAdjusted S c)) with
    | error e => rfl
    | ok vals => simp only [Except.map, pairsFor_map]

/-- **Lift (CDFt / QDM loop over year windows of the future period)** -/
theorem applyYears_equivariant {α} (g : YearFn α) (φ ψ : α → α) (L S : Int) (years : List Int) (fut : List α)
    (hg : ∀ x iw, g (x.map φ) iw = (g x iw).map (List.map ψ)) :
    applyYears g L S years (fut.map φ) = (applyYears g L S years fut).map (List.map (Option.map ψ)) := by
  unfold applyYears
  rw [List.length_map]
  exact runLoop_map _ _ ψ _ _ (fun c _ => yearWrites_equivariant g φ ψ L S years fut c hg)


/-! ### fixed points -/

/-- **Lift of a per-window fixed point** (`f o o x = x`: the window function returns the future sample unchanged
    whenever its first two samples coincide): with `cm_hist = obs` (same dates, same values) the whole running-window
    run returns `cm_future` unchanged, every step assigned. -/
theorem applyLocationRW_fixed {α} (f : WinFn α) (hf : ∀ o x io ix, f o o x io io ix = .ok x)
    (L S h : Int) (dO dF : List Int) (obs fut : List α)
    (hS : S = 2 * h + 1) (hh : 0 ≤ h) (hSL : S ≤ L) (hlen : dF.length = fut.length)
    (hr : ∀ d ∈ dF, 1 ≤ d ∧ d ≤ 366) :
    applyLocationRW f L S dO dO dF obs obs fut = .ok (fut.map some) := by
  let f' : WinFn α := fun _ _ x _ _ _ => .ok x
  have hpw : PointwiseOn f' (fun _ _ _ a => a) := by
    intro o h x io ih ix
    simp [f']
  have hcongr : applyLocationRW f L S dO dO dF obs obs fut = applyLocationRW f' L S dO dO dF obs obs fut := by
    unfold applyLocationRW
    apply runLoop_congr
    intro c _
    unfold windowWrites
    simp only [hf, f']
  rw [hcongr]
  obtain ⟨out, hrun, hl, hval⟩ := applyLocationRW_value f' _ hpw L S h dO dO dF obs obs fut hS hh hSL hlen hr
  rw [hrun]
  congr 1
  apply List.ext_getElem?
  intro i
  by_cases hi : i < fut.length
  · obtain ⟨c, hc⟩ := Props.C07.use_cover_unique S h dF i hS hh (by omega) (fun d hd => by have := hr d hd; omega)
    have hcm : c ∈ (useCenters S dF).filter (fun c => (idxAdjust S dF c).contains i) := by
      rw [hc]; exact List.mem_singleton.mpr rfl
    obtain ⟨hc1, hc2⟩ := List.mem_filter.mp hcm
    rw [hval i hi c hc1 (List.contains_iff_mem.mp hc2)]
    simp [List.getElem?_map, List.getElem?_eq_getElem hi]
  · rw [List.getElem?_eq_none (by omega), List.getElem?_eq_none (by simp; omega)]

end Lemmas.Lift
