/-
  C06 helper lemmas, part 13: the write-back loops commute with a *projection* of the element type
  (`φ : α → β`, here `Prod.fst : Rat × Int → Rat`).  A run on plain values whose window function looks the years up in
  separate lists (`Model.Isimip.winFn`) is the projection of the run on dated pairs (value, year) — provided the two window
  functions agree, up to the projection, on the window samples the loop actually forms.  This is the bridge between the
  dated-pairs theorems of `Props/C06Inst.lean` and the model functions the correspondence check ties to the code.
  (Heterogeneous versions of `Lemmas/Lift.lean`: there `ψ : α → α`.)
-/
import IbicusModel.Lemmas.C06Centre
import IbicusModel.Lemmas.C06MonthsC
import IbicusModel.Model.Isimip

namespace Lemmas.C06
open Model.Skeleton Model.Windows Lemmas.Windows Lemmas.Skeleton Lemmas.Pointwise Lemmas.Perm Lemmas.Lift

/-- relabel the values of a write list, changing the element type -/
def mapWH {α β} (φ : α → β) (ws : List (Nat × α)) : List (Nat × β) := ws.map (fun p => (p.1, φ p.2))

theorem applyWrites_mapH {α β} (φ : α → β) (out : List (Option α)) (ws : List (Nat × α)) :
    applyWrites (out.map (Option.map φ)) (mapWH φ ws) = (applyWrites out ws).map (Option.map φ) := by
  unfold applyWrites mapWH
  induction ws generalizing out with
  | nil => rfl
  | cons p t ih =>
    simp only [List.map_cons, List.foldl_cons]
    rw [← ih]
    congr 1
    rw [List.map_set]
    rfl

theorem mapE_mapH {β γ δ ε} (f : β → Except ε γ) (f' : β → Except ε δ) (k : γ → δ) (l : List β)
    (h : ∀ b ∈ l, f' b = (f b).map k) : mapE f' l = (mapE f l).map (List.map k) := by
  induction l with
  | nil => rfl
  | cons b t ih =>
    unfold mapE
    rw [h b List.mem_cons_self, ih (fun x hx => h x (List.mem_cons_of_mem _ hx))]
    cases f b with
    | error e => rfl
    | ok c =>
      simp only [Except.map]
      cases mapE f t with
      | error e => rfl
      | ok cs => rfl

/-- the generic loop commutes with a projection of the written values -/
theorem runLoop_mapH {α β C} (writes : C → Except String (List (Nat × α)))
    (writes' : C → Except String (List (Nat × β))) (φ : α → β) (cs : List C) (n : Nat)
    (h : ∀ c ∈ cs, writes' c = (writes c).map (mapWH φ)) :
    runLoop writes' cs n = (runLoop writes cs n).map (List.map (Option.map φ)) := by
  unfold runLoop
  rw [mapE_mapH writes writes' (mapWH φ) cs h]
  cases mapE writes cs with
  | error e => rfl
  | ok wss =>
    simp only [Except.map, bind, Except.bind, pure, Except.pure]
    congr 1
    have : (List.map (mapWH φ) wss).flatten = mapWH φ wss.flatten := by
      unfold mapWH; rw [List.map_flatten]
    rw [this, ← applyWrites_mapH]
    simp

theorem take_mapH {α β} (φ : α → β) (x : List α) (idx : List Nat) : take (x.map φ) idx = (take x idx).map φ := by
  unfold take
  rw [List.map_filterMap]
  congr 1
  funext i
  simp [List.getElem?_map]

theorem selectWhere_mapH {α β} (φ : α → β) (x : List α) (m : List Bool) :
    Py.selectWhere (x.map φ) m = (Py.selectWhere x m).map φ := by
  unfold Py.selectWhere
  induction x generalizing m with
  | nil => simp
  | cons a t ih =>
    cases m with
    | nil => simp
    | cons b u =>
      simp only [List.map_cons, List.zip_cons_cons, List.filterMap_cons]
      cases b <;> simp [ih]

theorem maskSelect_mapH {α β} (φ : α → β) (x : List α) (m : List Bool) :
    maskSelect (x.map φ) m = (maskSelect x m).map (List.map φ) := by
  unfold maskSelect
  simp only [List.length_map]
  split_ifs
  · simp [Except.map, selectWhere_mapH]
  · rfl

theorem pairsFor_mapH {α β} (φ : α → β) (idx : List Nat) (vals : List α) :
    pairsFor idx (vals.map φ) = (pairsFor idx vals).map (mapWH φ) := by
  unfold pairsFor mapWH
  simp only [List.length_map]
  split_ifs with hl
  · simp only [Except.map]
    congr 1
    rw [List.zip_map_right]
    simp [Prod.map]
  · cases vals with
    | nil => rfl
    | cons v t =>
      cases t with
      | nil => simp [Except.map, List.map_map, Function.comp]
      | cons w u => rfl

/-- one iteration of the running-window loop, projected: the window functions need to agree (up to `φ`) on the samples
    of this window only -/
theorem windowWrites_project {α β} (f : WinFn β) (fD : WinFn α) (φ : α → β) (L S : Int) (dO dH dF : List Int)
    (obs hist fut : List α) (c : Int)
    (hf : f (take (obs.map φ) (idxWindow L dO c)) (take (hist.map φ) (idxWindow L dH c)) (take (fut.map φ) (idxWindow L dF c))
        (idxWindow L dO c) (idxWindow L dH c) (idxWindow L dF c) =
      (fD (take obs (idxWindow L dO c)) (take hist (idxWindow L dH c)) (take fut (idxWindow L dF c))
        (idxWindow L dO c) (idxWindow L dH c) (idxWindow L dF c)).map (List.map φ)) :
    windowWrites f L S dO dH dF (obs.map φ) (hist.map φ) (fut.map φ) c =
      (windowWrites fD L S dO dH dF obs hist fut c).map (mapWH φ) := by
  unfold windowWrites
  simp only [hf, bind, Except.bind]
  cases fD (take obs (idxWindow L dO c)) (take hist (idxWindow L dH c)) (take fut (idxWindow L dF c))
      (idxWindow L dO c) (idxWindow L dH c) (idxWindow L dF c) with
  | error e => rfl
  | ok res =>
    simp only [Except.map, maskSelect_mapH]
    cases maskSelect res (List.map (fun j => (idxAdjust S dF c).contains j) (idxWindow L dF c)) with
    | error e => rfl
    | ok vals => simp only [Except.map, pairsFor_mapH]

/-- **the running-window loop on projected series is the projection of the loop** (centre-dependent window functions) -/
theorem applyLocationRWC_project {α β} (f : Int → WinFn β) (fD : Int → WinFn α) (φ : α → β) (L S : Int)
    (dO dH dF : List Int) (obs hist fut : List α)
    (hf : ∀ c ∈ useCenters S dF,
      f c (take (obs.map φ) (idxWindow L dO c)) (take (hist.map φ) (idxWindow L dH c)) (take (fut.map φ) (idxWindow L dF c))
        (idxWindow L dO c) (idxWindow L dH c) (idxWindow L dF c) =
      (fD c (take obs (idxWindow L dO c)) (take hist (idxWindow L dH c)) (take fut (idxWindow L dF c))
        (idxWindow L dO c) (idxWindow L dH c) (idxWindow L dF c)).map (List.map φ)) :
    applyLocationRWC f L S dO dH dF (obs.map φ) (hist.map φ) (fut.map φ) =
      (applyLocationRWC fD L S dO dH dF obs hist fut).map (List.map (Option.map φ)) := by
  unfold applyLocationRWC
  rw [List.length_map]
  exact runLoop_mapH _ _ φ _ _ (fun c hc => windowWrites_project (f c) (fD c) φ L S dO dH dF obs hist fut c (hf c hc))

/-- one iteration of the month loop, projected -/
theorem monthWrites_project {α β} (f : WinFn β) (fD : WinFn α) (φ : α → β) (mO mH mF : List Int)
    (obs hist fut : List α) (m : Int)
    (hf : f (take (obs.map φ) (indicesIn mO [m])) (take (hist.map φ) (indicesIn mH [m])) (take (fut.map φ) (indicesIn mF [m]))
        (indicesIn mO [m]) (indicesIn mH [m]) (indicesIn mF [m]) =
      (fD (take obs (indicesIn mO [m])) (take hist (indicesIn mH [m])) (take fut (indicesIn mF [m]))
        (indicesIn mO [m]) (indicesIn mH [m]) (indicesIn mF [m])).map (List.map φ)) :
    monthWrites f mO mH mF (obs.map φ) (hist.map φ) (fut.map φ) m =
      (monthWrites fD mO mH mF obs hist fut m).map (mapWH φ) := by
  unfold monthWrites
  simp only [monthIdx_eq, hf, bind, Except.bind]
  cases fD (take obs (indicesIn mO [m])) (take hist (indicesIn mH [m])) (take fut (indicesIn mF [m]))
      (indicesIn mO [m]) (indicesIn mH [m]) (indicesIn mF [m]) with
  | error e => rfl
  | ok res => simp only [Except.map, pairsFor_mapH]

/-- **the month loop on projected series is the projection of the loop** (month-dependent window functions) -/
theorem applyLocationMonthsC_project {α β} (f : Int → WinFn β) (fD : Int → WinFn α) (φ : α → β)
    (mO mH mF : List Int) (obs hist fut : List α)
    (hf : ∀ m ∈ Py.arange1 1 13,
      f m (take (obs.map φ) (indicesIn mO [m])) (take (hist.map φ) (indicesIn mH [m])) (take (fut.map φ) (indicesIn mF [m]))
        (indicesIn mO [m]) (indicesIn mH [m]) (indicesIn mF [m]) =
      (fD m (take obs (indicesIn mO [m])) (take hist (indicesIn mH [m])) (take fut (indicesIn mF [m]))
        (indicesIn mO [m]) (indicesIn mH [m]) (indicesIn mF [m])).map (List.map φ)) :
    applyLocationMonthsC f mO mH mF (obs.map φ) (hist.map φ) (fut.map φ) =
      (applyLocationMonthsC fD mO mH mF obs hist fut).map (List.map (Option.map φ)) := by
  unfold applyLocationMonthsC
  rw [List.length_map]
  exact runLoop_mapH _ _ φ _ _ (fun m hm => monthWrites_project (f m) (fD m) φ mO mH mF obs hist fut m (hf m hm))

/-! ### a kernel-reducible twin of `np.unique(years)` (for concrete witnesses only)

  `List.mergeSort` is defined by well-founded recursion and does not reduce in the kernel; insertion sort (structural)
  does.  Both are the sorted permutation of the list, hence equal. -/

def insInt (a : Int) : List Int → List Int
  | [] => [a]
  | b :: t => if a ≤ b then a :: b :: t else b :: insInt a t

def isortInt : List Int → List Int
  | [] => []
  | a :: t => insInt a (isortInt t)

theorem insInt_perm (a : Int) (l : List Int) : (insInt a l).Perm (a :: l) := by
  induction l with
  | nil => exact List.Perm.refl _
  | cons b t ih =>
    unfold insInt
    split_ifs
    · exact List.Perm.refl _
    · exact (List.Perm.cons b ih).trans (List.Perm.swap a b t)

theorem isortInt_perm (l : List Int) : (isortInt l).Perm l := by
  induction l with
  | nil => exact List.Perm.refl _
  | cons a t ih => exact (insInt_perm a (isortInt t)).trans (List.Perm.cons a ih)

theorem insInt_sorted (a : Int) (l : List Int) (h : l.Pairwise (· ≤ ·)) : (insInt a l).Pairwise (· ≤ ·) := by
  induction l with
  | nil => exact List.pairwise_singleton _ _
  | cons b t ih =>
    obtain ⟨hb, ht⟩ := List.pairwise_cons.mp h
    unfold insInt
    split_ifs with hab
    · refine List.pairwise_cons.mpr ⟨?_, h⟩
      intro x hx
      rcases List.mem_cons.mp hx with rfl | hx
      · exact hab
      · exact le_trans hab (hb x hx)
    · refine List.pairwise_cons.mpr ⟨?_, ih ht⟩
      intro x hx
      rcases List.mem_cons.mp ((insInt_perm a t).mem_iff.mp hx) with rfl | hx
      · omega
      · exact hb x hx

theorem isortInt_sorted (l : List Int) : (isortInt l).Pairwise (· ≤ ·) := by
  induction l with
  | nil => exact List.Pairwise.nil
  | cons a t ih => exact insInt_sorted a _ ih

theorem mergeSort_eq_isortInt (l : List Int) : l.mergeSort (fun a b => decide (a ≤ b)) = isortInt l := by
  have hs : (l.mergeSort (fun a b => decide (a ≤ b))).Pairwise (· ≤ ·) := by
    have := List.pairwise_mergeSort (le := fun (a b : Int) => decide (a ≤ b))
      (fun a b c hab hbc => by simp only [decide_eq_true_eq] at *; exact le_trans hab hbc)
      (fun a b => by simp only [Bool.or_eq_true, decide_eq_true_eq]; exact le_total a b) l
    simpa using this
  apply List.Perm.eq_of_pairwise (le := (· ≤ ·)) _ hs (isortInt_sorted l)
  · exact (List.mergeSort_perm _ _).trans (isortInt_perm l).symm
  · intro a b _ _ hab hba; exact le_antisymm hab hba

/-- `np.unique(years)` computed by insertion sort -/
theorem uniqueYears_eq_isort (ys : List Int) : Model.Isimip.uniqueYears ys = (isortInt ys).eraseDups := by
  unfold Model.Isimip.uniqueYears; rw [mergeSort_eq_isortInt]

end Lemmas.C06
