/-
  The CDFt / QDM loop over year windows in index form, its value for pointwise per-window functions, and the
  fixed-point lift (C03, C06).
-/
import IbicusModel.Lemmas.Lift
import IbicusModel.Lemmas.Perm

namespace Lemmas.Years
open Model.Skeleton Model.Windows Lemmas.Windows Lemmas.Skeleton Lemmas.Pointwise Lemmas.Lift

/-- boolean-mask indexing is fancy indexing by the positions of the `True`s -/
theorem selectWhere_eq_take {α} (x : List α) (m : List Bool) (hl : x.length = m.length) :
    Py.selectWhere x m = take x (Py.whereTrue m) := by
  unfold Py.whereTrue take Py.selectWhere
  induction m generalizing x with
  | nil => cases x <;> simp_all
  | cons b u ih =>
    cases x with
    | nil => simp at hl
    | cons a t =>
      have hl' : t.length = u.length := by simpa using hl
      rw [List.length_cons, List.range_succ_eq_map, List.filter_cons]
      simp only [List.zip_cons_cons, List.filterMap_cons, List.getD_cons_zero]
      have key : List.filterMap (fun i => (a :: t)[i]?)
          (List.filter (fun i => (b :: u).getD i false) (List.map Nat.succ (List.range u.length))) =
          List.filterMap (fun p => if p.2 = true then some p.1 else none) (t.zip u) := by
        rw [List.filter_map, List.filterMap_map, ih t hl']
        rfl
      cases b
      · simp only [Bool.false_eq_true, if_false]; rw [key]
      · simp only [if_true, List.filterMap_cons, List.getElem?_cons_zero]; rw [key]

theorem filter_indicesIn (d r1 r2 : List Int) (hsub : ∀ v, v ∈ r1 → v ∈ r2) :
    (indicesIn d r2).filter (fun j => (indicesIn d r1).contains j) = indicesIn d r1 := by
  have hmem : ∀ j, j ∈ indicesIn d r1 → j ∈ indicesIn d r2 := by
    intro j hj
    obtain ⟨hlt, hm⟩ := (mem_indicesIn _ _ _).mp hj
    exact (mem_indicesIn _ _ _).mpr ⟨hlt, hsub _ hm⟩
  unfold indicesIn Py.whereTrue at *
  simp only [Py.isin, List.length_map] at *
  rw [List.filter_filter]
  apply List.filter_congr
  intro j hj
  rw [List.mem_range] at hj
  by_cases hb : ((List.map (fun x => r1.contains x) d).getD j false) = true
  · have hm1 : j ∈ List.filter (fun i => (List.map (fun x => r1.contains x) d).getD i false) (List.range d.length) :=
      List.mem_filter.mpr ⟨List.mem_range.mpr hj, hb⟩
    have hw := (List.mem_filter.mp (hmem j hm1)).2
    simp only [hb, hw, Bool.and_true]
    exact List.contains_iff_mem.mpr hm1
  · have hb' : ((List.map (fun x => r1.contains x) d).getD j false) = false := by simpa using hb
    rw [hb']
    have : (List.filter (fun i => (List.map (fun x => r1.contains x) d).getD i false) (List.range d.length)).contains j = false := by
      rw [Bool.eq_false_iff]
      intro hc
      have := (List.mem_filter.mp (List.contains_iff_mem.mp hc)).2
      rw [hb'] at this; exact absurd this (by simp)
    rw [this, Bool.false_and]

theorem indicesIn_valid (d r : List Int) (j : Nat) (hj : j ∈ indicesIn d r) : j < d.length :=
  ((mem_indicesIn _ _ _).mp hj).1

/-- the mask `isin(years[mask_window], adjusted)` is the index-membership mask of `windowWrites` -/
theorem isin_take_eq (years adj : List Int) (idx : List Nat) (hv : ∀ j ∈ idx, j < years.length) :
    Py.isin (take years idx) adj = idx.map (fun j => (indicesIn years adj).contains j) := by
  induction idx with
  | nil => rfl
  | cons j t ih =>
    have hj := hv j List.mem_cons_self
    rw [take_cons_valid years j t hj]
    simp only [Py.isin, List.map_cons] at *
    rw [ih (fun k hk => hv k (List.mem_cons_of_mem _ hk))]
    congr 1
    rw [Bool.eq_iff_iff, List.contains_iff_mem, List.contains_iff_mem, mem_indicesIn]
    simp [hj]

/-- the year-window iteration in index form (the shape of `windowWrites`) -/
theorem yearWrites_index {α} (g : YearFn α) (L S : Int) (years : List Int) (fut : List α) (c : Int)
    (hlen : years.length = fut.length) :
    yearWrites g L S years fut c =
      (do let iWin := indicesIn years (yearsInWindow L c)
          let iAdj := indicesIn years (yearsAdjusted S c)
          let res ← g (take fut iWin) iWin
          let vals ← maskSelect res (iWin.map (fun j => iAdj.contains j))
          pairsFor iAdj vals) := by
  unfold yearWrites yearMask
  have e1 : Py.whereTrue (Py.isin years (yearsInWindow L c)) = indicesIn years (yearsInWindow L c) := rfl
  have e2 : Py.whereTrue (Py.isin years (yearsAdjusted S c)) = indicesIn years (yearsAdjusted S c) := rfl
  simp only []
  rw [selectWhere_eq_take fut _ (by simp [Py.isin, hlen]), selectWhere_eq_take years _ (by simp [Py.isin]), e1, e2,
    isin_take_eq years _ _ (fun j hj => indicesIn_valid _ _ j hj)]


def PointwiseY {α} (g : YearFn α) (G : List α → α → α) : Prop :=
  ∀ x iw, g x iw = .ok (x.map (G x))

theorem yearWrites_pointwise {α} (g : YearFn α) (G : List α → α → α) (hg : PointwiseY g G)
    (L S : Int) (years : List Int) (fut : List α) (c : Int) (hlen : years.length = fut.length)
    (hSL : S ≤ L) (hS : 0 < S) :
    yearWrites g L S years fut c =
      .ok ((indicesIn years (yearsAdjusted S c)).zip ((take fut (indicesIn years (yearsAdjusted S c))).map
        (G (take fut (indicesIn years (yearsInWindow L c)))))) := by
  rw [yearWrites_index g L S years fut c hlen]
  simp only [hg _ _, bind, Except.bind]
  have hv : ∀ j ∈ indicesIn years (yearsInWindow L c), j < fut.length := fun j hj => hlen ▸ indicesIn_valid _ _ j hj
  have hva : ∀ j ∈ indicesIn years (yearsAdjusted S c), j < fut.length := fun j hj => hlen ▸ indicesIn_valid _ _ j hj
  unfold maskSelect
  rw [if_pos (by simp [take_length fut _ hv])]
  simp only []
  rw [selectWhere_take_map fut _ _ _ hv,
    filter_indicesIn years _ _ (fun v hv => Props.C07.years_adjusted_subset_window L S c v hSL hS hv)]
  unfold pairsFor
  rw [if_pos (by simp [take_length fut _ hva])]

/-- **Value of the year-window loop (CDFt / QDM) for a pointwise per-window function** -/
theorem applyYears_value {α} (g : YearFn α) (G : List α → α → α) (hg : PointwiseY g G)
    (L S h : Int) (years : List Int) (fut : List α)
    (hS : S = 2 * h + 1) (hh : 0 ≤ h) (hSL : S ≤ L) (hlen : years.length = fut.length) :
    ∃ out, applyYears g L S years fut = .ok out ∧ out.length = fut.length ∧
      ∀ i (hi : i < fut.length) c, c ∈ yearCenters S years → i ∈ indicesIn years (yearsAdjusted S c) →
        out[i]? = some (some (G (take fut (indicesIn years (yearsInWindow L c))) fut[i])) := by
  have hSpos : 0 < S := by omega
  let W : Int → List (Nat × α) := fun c =>
    (indicesIn years (yearsAdjusted S c)).zip ((take fut (indicesIn years (yearsAdjusted S c))).map
      (G (take fut (indicesIn years (yearsInWindow L c)))))
  have hW : ∀ c ∈ yearCenters S years, yearWrites g L S years fut c = .ok (W c) :=
    fun c _ => yearWrites_pointwise g G hg L S years fut c hlen hSL hSpos
  have hrun : applyYears g L S years fut =
      .ok (applyWrites (List.replicate fut.length none) ((yearCenters S years).map W).flatten) := by
    unfold applyYears runLoop
    rw [mapE_ok_of_forall _ W _ hW]
    rfl
  refine ⟨_, hrun, by rw [applyWrites_length]; simp, ?_⟩
  intro i hi c hc hic
  have hva : ∀ c, ∀ j ∈ indicesIn years (yearsAdjusted S c), j < fut.length :=
    fun c j hj => hlen ▸ indicesIn_valid _ _ j hj
  have hkeys : ∀ c, (W c).map Prod.fst = indicesIn years (yearsAdjusted S c) := by
    intro c
    exact List.map_fst_zip (by simp [take_length fut _ (hva c)])
  have hi' : i < years.length := by omega
  obtain ⟨c0, hc0⟩ := Props.C07.years_cover_unique S h years years[i] hS hh (List.getElem_mem hi')
  have huniq : ∀ c', c' ∈ yearCenters S years → i ∈ indicesIn years (yearsAdjusted S c') → c' = c0 := by
    intro c' h1 h2
    obtain ⟨_, hm⟩ := (mem_indicesIn _ _ _).mp h2
    have : c' ∈ (yearCenters S years).filter (fun c => inBlock S c years[i]) :=
      List.mem_filter.mpr ⟨h1, (Props.C07.mem_yearsAdjusted S c' _).mp hm⟩
    rw [hc0] at this
    exact List.mem_singleton.mp this
  have hcc : c = c0 := huniq c hc hic
  have hval : ∀ p ∈ ((yearCenters S years).map W).flatten.filter (fun p => p.1 == i),
      p.2 = G (take fut (indicesIn years (yearsInWindow L c))) fut[i] := by
    intro p hp
    obtain ⟨hpf, hpi⟩ := List.mem_filter.mp hp
    have hpi' : p.1 = i := by simpa using hpi
    obtain ⟨ws, hws, hpws⟩ := List.mem_flatten.mp hpf
    obtain ⟨c', hc', rfl⟩ := List.mem_map.mp hws
    have hk : i ∈ indicesIn years (yearsAdjusted S c') := by
      rw [← hkeys c', ← hpi']; exact List.mem_map.mpr ⟨p, hpws, rfl⟩
    have : c' = c := by rw [hcc]; exact huniq c' hc' hk
    subst this
    obtain ⟨hj, hv⟩ := mem_zip_take_map fut _ _ (hva c') p hpws
    rw [hv]
    congr 1
    simp [hpi']
  have hne : ((yearCenters S years).map W).flatten.filter (fun p => p.1 == i) ≠ [] := by
    have : i ∈ (W c).map Prod.fst := by rw [hkeys c]; exact hic
    obtain ⟨p, hp, hpi⟩ := List.mem_map.mp this
    apply List.ne_nil_of_mem (a := p)
    exact List.mem_filter.mpr ⟨List.mem_flatten.mpr ⟨W c, List.mem_map.mpr ⟨c, hc, rfl⟩, hp⟩, by simp [hpi]⟩
  rw [applyWrites_get_filter, applyWrites_all_key _ _ i (by simpa using hi)
    (fun q hq => by simpa using (List.mem_filter.mp hq).2) hne, hval _ (List.getLast_mem hne)]

/-- **Lift of a per-year-window fixed point**: if the per-window function returns its sample unchanged, the loop
    over year windows returns `cm_future` unchanged with every step assigned (for every set of years). -/
theorem applyYears_fixed {α} (g : YearFn α) (hg : ∀ x iw, g x iw = .ok x)
    (L S h : Int) (years : List Int) (fut : List α)
    (hS : S = 2 * h + 1) (hh : 0 ≤ h) (hSL : S ≤ L) (hlen : years.length = fut.length) :
    applyYears g L S years fut = .ok (fut.map some) := by
  have hpw : PointwiseY g (fun _ a => a) := by
    intro x iw
    simp [hg]
  obtain ⟨out, hrun, hl, hval⟩ := applyYears_value g _ hpw L S h years fut hS hh hSL hlen
  rw [hrun]
  congr 1
  apply List.ext_getElem?
  intro i
  by_cases hi : i < fut.length
  · have hi' : i < years.length := by omega
    obtain ⟨c, hc⟩ := Props.C07.years_cover_unique S h years years[i] hS hh (List.getElem_mem hi')
    have hcm : c ∈ (yearCenters S years).filter (fun c => inBlock S c years[i]) := by
      rw [hc]; exact List.mem_singleton.mpr rfl
    obtain ⟨hc1, hc2⟩ := List.mem_filter.mp hcm
    rw [hval i hi c hc1 ((mem_indicesIn _ _ _).mpr ⟨hi', (Props.C07.mem_yearsAdjusted S c _).mpr hc2⟩)]
    simp [List.getElem?_map, List.getElem?_eq_getElem hi]
  · rw [List.getElem?_eq_none (by omega), List.getElem?_eq_none (by simp; omega)]

end Lemmas.Years
