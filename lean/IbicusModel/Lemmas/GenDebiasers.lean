/-
  Tier A proof obligations for the mean-based window functions: the kernels regenerated from /repo's current
  source (`Gen.Debiasers`) equal the hand-written model (`Model.Debiasers.linearScalingS / deltaChangeS`), and the
  string-dispatching forms reduce to the typed ones.  Also: `applyYearsC` with a centre-independent per-window
  function is `Skeleton.applyYears`.
-/
import IbicusModel.Model.Debiasers
import IbicusModel.Gen.Debiasers

namespace Lemmas.GenDebiasers
open Model.Debiasers

theorem py_mean_eq (l : List Rat) : Py.mean l = Model.Stats.mean l := rfl

/-- `LinearScaling.apply_on_window` (generated) = model -/
theorem ls_apply_on_window (dt : String) (obs H F : List Rat) :
    Gen.Debiasers.ls_apply_on_window dt obs H F = linearScalingS dt obs H F := by
  unfold Gen.Debiasers.ls_apply_on_window linearScalingS linearScaling
  by_cases h1 : dt = "additive"
  · simp [h1, py_mean_eq]
  · by_cases h2 : dt = "multiplicative"
    · simp [h2, py_mean_eq]
    · simp [h1, h2]

/-- `DeltaChange._apply_on_within_year_window` (generated) = model -/
theorem dc_apply_on_within_year_window (dt : String) (obs H F : List Rat) :
    Gen.Debiasers.dc_apply_on_within_year_window dt obs H F = deltaChangeS dt obs H F := by
  unfold Gen.Debiasers.dc_apply_on_within_year_window deltaChangeS deltaChange
  by_cases h1 : dt = "additive"
  · simp [h1, py_mean_eq]
  · by_cases h2 : dt = "multiplicative"
    · simp [h2, py_mean_eq]
    · simp [h1, h2]

/-- the validated attribute values select the typed model (attrs validator: `delta_type ∈ {additive, multiplicative}`) -/
theorem linearScalingS_additive (obs H F : List Rat) :
    linearScalingS "additive" obs H F = .ok (linearScaling .additive obs H F) := by
  simp [linearScalingS]

theorem linearScalingS_multiplicative (obs H F : List Rat) :
    linearScalingS "multiplicative" obs H F = .ok (linearScaling .multiplicative obs H F) := by
  simp [linearScalingS]

theorem deltaChangeS_additive (obs H F : List Rat) :
    deltaChangeS "additive" obs H F = .ok (deltaChange .additive obs H F) := by
  simp [deltaChangeS]

theorem deltaChangeS_multiplicative (obs H F : List Rat) :
    deltaChangeS "multiplicative" obs H F = .ok (deltaChange .multiplicative obs H F) := by
  simp [deltaChangeS]

/-- a centre-independent per-window function: `applyYearsC` is the shared skeleton loop -/
theorem applyYearsC_const {α} (g : Model.Skeleton.YearFn α) (L S : Int) (years : List Int) (fut : List α) :
    applyYearsC (fun _ => g) L S years fut = Model.Skeleton.applyYears g L S years fut := rfl

/-- the concrete CDFt / QDM definitions are instances of the generic ones (any `ecdf` / `iecdf` pair) -/
theorem cdftMapping_eq (d : DeltaShift) (em : Model.Stats.EcdfMethod) (im : Model.Stats.IecdfMethod) (obs H F : List Rat) :
    cdftMapping d em im obs H F = cdftMappingG (Model.Stats.ecdf1 em) (Model.Stats.iecdf1 im) d obs H F := rfl

theorem standardQMNonparam_eq (x obs H : List Rat) :
    standardQMNonparam x obs H = Model.Stats.qmapExtrap .step .inverted_cdf H obs x := rfl

end Lemmas.GenDebiasers
