/-
  C06 helper lemmas, part 9: ISIMIP's `_apply_on_window` for EVERY configuration on dated samples (value, year):
  step 3 (detrending on or off) and step 7 in one form, the pipeline as a composition of steps 4, 5, 6.
-/
import IbicusModel.Lemmas.C06Detrend
import IbicusModel.Lemmas.C06Step4

namespace Lemmas.C06
open Model.Stats Model.Isimip Lemmas.Stats

/-- the trend step 3 removes from a value of year `y` (zero when `detrending = False`) -/
def trendG (c : Cfg) (sig : Bool) (xs : List Dated) (y : Int) : Rat :=
  if c.detrending then trendOf c sig xs y else 0

/-- the values handed on by step 3 -/
def detrG (c : Cfg) (sig : Bool) (xs : List Dated) : List Rat := xs.map (fun p => p.1 - trendG c sig xs p.2)

theorem trendG_perm (c : Cfg) (sig : Bool) {xs xs' : List Dated} (h : xs.Perm xs') : trendG c sig xs = trendG c sig xs' := by
  funext y; unfold trendG; rw [trendOf_perm c sig h]

theorem detrG_perm (c : Cfg) (sig : Bool) {xs xs' : List Dated} (h : xs.Perm xs') :
    (detrG c sig xs).Perm (detrG c sig xs') := by
  unfold detrG; rw [trendG_perm c sig h]; exact h.map _

theorem detrG_of_detrending (c : Cfg) (sig : Bool) (xs : List Dated) (h : c.detrending = true) : detrG c sig xs = detr c sig xs := by
  unfold detrG detr trendG; simp [h]

theorem detrG_of_not_detrending (c : Cfg) (sig : Bool) (xs : List Dated) (h : c.detrending = false) :
    detrG c sig xs = xs.map Prod.fst := by
  unfold detrG trendG; simp [h]

theorem step3_dated (c : Cfg) (o : Oracles) (ob h x : List Dated) :
    step3 c o (ob.map Prod.fst) (h.map Prod.fst) (x.map Prod.fst) (ob.map Prod.snd) (h.map Prod.snd) (x.map Prod.snd) =
      (detrG c o.sigO ob, detrG c o.sigH h, detrG c o.sigF x, x.map (fun p => trendG c o.sigF x p.2)) := by
  by_cases hd : c.detrending = true
  · unfold step3
    simp only [hd, if_true, step3RemoveTrend_eq, detrG_of_detrending c _ _ hd]
    congr 3
    apply List.map_congr_left
    intro p _
    simp [trendG, hd]
  · have hd' : c.detrending = false := by simpa using hd
    unfold step3
    simp only [hd', Bool.false_eq_true, if_false, detrG_of_not_detrending c _ _ hd', List.map_map]
    congr 3
    apply List.map_congr_left
    intro p _
    simp [trendG, hd']

/-- step 7 after an element-wise step 6, element-wise -/
theorem step7_pointwise (c : Cfg) (sig : Bool) (x : List Dated) (g : Rat → Rat) :
    step7 c ((detrG c sig x).map g) (x.map (fun p => trendG c sig x p.2)) =
      x.map (fun p => g (p.1 - trendG c sig x p.2) + trendG c sig x p.2) := by
  by_cases hd : c.detrending = true
  · rw [Lemmas.IsimipModel.step7_eq_add c hd]
    unfold detrG
    rw [List.map_map, zipWith_maps]
    rfl
  · have hd' : c.detrending = false := by simpa using hd
    rw [Lemmas.IsimipModel.step7_of_not_detrending c hd']
    unfold detrG
    rw [List.map_map]
    apply List.map_congr_left
    intro p _
    simp [trendG, hd']

/-- `_apply_on_window` on dated samples: steps 4, 5, 6 on the values step 3 hands on, step 7 on the result -/
theorem isimipWinD_general (c : Cfg) (fam : IsiFamily) (o : Oracles) (d : Draws) (ob h x : List Dated) :
    isimipWinD c fam o d ob h x =
      (step4 c d (detrG c o.sigO ob) (detrG c o.sigH h) (detrG c o.sigF x)).bind (fun r4 =>
        (step5 c o r4.1 r4.2.1 r4.2.2).bind (fun oF =>
          (step6 c fam o r4.1 oF r4.2.1 r4.2.2).bind (fun r =>
            .ok (step7 c r (x.map (fun p => trendG c o.sigF x p.2)))))) := by
  unfold isimipWinD
  rw [Lemmas.IsimipModel.applyOnWindow_eq, step3_dated]

end Lemmas.C06
