/-
  C06 helper lemmas, part 5: ISIMIP's `_apply_on_window`.  Step 5 (pseudo future observations) is an element-wise map
  of `obs_hist` over an order-free, error-aware context; step 6 is rank based (`Props/C06Inst.lean`).
-/
import IbicusModel.Lemmas.C06Stats
import IbicusModel.Lemmas.C06Rank
import IbicusModel.Lemmas.IsimipModel
import IbicusModel.Lemmas.GenWindows

namespace Lemmas.C06
open Model.Stats Model.Isimip Lemmas.Stats

/-! ### step 5: transfer of the simulated trend to the observations -/

/-- the transfer function of `_step5_transfer_trend` (or its error) -/
def ttCtx (c : Cfg) (o : Oracles) (obs H F : List Rat) : Except String (Rat → Rat) :=
  if obs.length = 0 || H.length = 0 || F.length = 0 then .error "unmodelled:EmptySample" else
  let qH : Rat → Rat := fun a => iecdf1 c.iecdfMethod H (ecdf1 c.ecdfMethod obs a)
  let qF : Rat → Rat := fun a => iecdf1 c.iecdfMethod F (ecdf1 c.ecdfMethod obs a)
  match c.trendMethod with
  | .additive => .ok (fun a => a + (qF a - qH a))
  | .multiplicative => .ok (fun a => a * deltaMult (qH a) (qF a))
  | .mixed => .ok (fun a =>
      let g := gammaMixed o a (qH a)
      g * a * deltaMult (qH a) (qF a) + (1 - g) * (a + (qF a - qH a)))
  | .bounded => do
      let a ← c.lowerBound.toRat
      let b ← c.upperBound.toRat
      pure (fun v => boundedTransfer a b v (qH v) (qF v))

theorem zip_maps {α β γ} (l : List α) (f : α → β) (g : α → γ) :
    l.zip ((l.map f).zip (l.map g)) = l.map (fun a => (a, (f a, g a))) := by
  induction l with
  | nil => rfl
  | cons a t ih => simp [ih]

theorem step5TransferTrend_eq (c : Cfg) (o : Oracles) (obs H F : List Rat) :
    step5TransferTrend c o obs H F = (ttCtx c o obs H F).map (fun T => obs.map T) := by
  unfold step5TransferTrend ttCtx
  split_ifs with hemp
  · rfl
  · have hz : obs.zip ((iecdf c.iecdfMethod H (ecdf c.ecdfMethod obs obs)).zip (iecdf c.iecdfMethod F (ecdf c.ecdfMethod obs obs)))
        = obs.map (fun a => (a, (iecdf1 c.iecdfMethod H (ecdf1 c.ecdfMethod obs a), iecdf1 c.iecdfMethod F (ecdf1 c.ecdfMethod obs a)))) := by
      unfold iecdf ecdf
      rw [List.map_map, List.map_map]
      exact zip_maps obs _ _
    simp only [hz]
    cases c.trendMethod with
    | additive => simp [Except.map, List.map_map, Function.comp]
    | multiplicative => simp [Except.map, List.map_map, Function.comp]
    | mixed => simp [Except.map, List.map_map, Function.comp]
    | bounded =>
      simp only [bind, Except.bind, pure, Except.pure]
      cases c.lowerBound.toRat with
      | error e => rfl
      | ok a =>
        cases c.upperBound.toRat with
        | error e => rfl
        | ok b => simp [Except.map, List.map_map, Function.comp]

theorem length_zero_perm {α} {l l' : List α} (h : l.Perm l') : (l.length = 0) = (l'.length = 0) := by
  rw [h.length_eq]

theorem ttCtx_perm (c : Cfg) (o : Oracles) {obs obs' H H' F F' : List Rat} (ho : obs.Perm obs') (hh : H.Perm H')
    (hx : F.Perm F') : ttCtx c o obs H F = ttCtx c o obs' H' F' := by
  unfold ttCtx
  rw [ho.length_eq, hh.length_eq, hx.length_eq, ecdf1_perm c.ecdfMethod ho, iecdf1_perm c.iecdfMethod hh,
    iecdf1_perm c.iecdfMethod hx]

/-- "between the thresholds" -/
def betweenP (c : Cfg) (v : Rat) : Bool := ExtRat.gtOf v c.lowerThreshold && ExtRat.ltOf v c.upperThreshold

theorem maskBetween_eq (c : Cfg) (x : List Rat) : maskBetween c x = x.map (betweenP c) := rfl

theorem valuesBetween_eq (c : Cfg) (x : List Rat) : valuesBetween c x = x.filter (betweenP c) := by
  unfold valuesBetween
  rw [maskBetween_eq, Lemmas.GenWindows.selectWhere_map]

theorem fillWhere_filter_map (x : List Rat) (P : Rat → Bool) (T : Rat → Rat) :
    Model.IsimipFreq.fillWhere x (x.map P) ((x.filter P).map T) = x.map (fun a => if P a then T a else a) := by
  induction x with
  | nil => rfl
  | cons a t ih =>
    by_cases hp : P a = true
    · simp only [List.map_cons, List.filter_cons, hp, if_true, Model.IsimipFreq.fillWhere, ih]
    · have hp' : P a = false := by simpa using hp
      simp only [List.map_cons, List.filter_cons, hp', Bool.false_eq_true, if_false, Model.IsimipFreq.fillWhere, ih]

theorem any_map_id {α} (l : List α) (P : α → Bool) : (l.map P).any id = l.any P := by
  induction l with
  | nil => rfl
  | cons a t ih => simp [ih]

/-- the element-wise map of `step5` (or its error) -/
def step5Ctx (c : Cfg) (o : Oracles) (obs H F : List Rat) : Except String (Rat → Rat) :=
  if c.trendTransferOnlyWithinThreshold then
    if obs.any (betweenP c) && decide ((H.filter (betweenP c)).length > 0) && decide ((F.filter (betweenP c)).length > 0) then
      (ttCtx c o (obs.filter (betweenP c)) (H.filter (betweenP c)) (F.filter (betweenP c))).map
        (fun T => fun a => if betweenP c a then T a else a)
    else .ok id
  else ttCtx c o obs H F

/-- **step 5 is an element-wise map of `obs_hist`** -/
theorem step5_eq (c : Cfg) (o : Oracles) (obs H F : List Rat) :
    step5 c o obs H F = (step5Ctx c o obs H F).map (fun T => obs.map T) := by
  unfold step5 step5Ctx
  simp only [valuesBetween_eq, maskBetween_eq, Lemmas.GenWindows.selectWhere_map, any_map_id, step5TransferTrend_eq]
  split_ifs with h1 h2
  · simp only [bind, Except.bind]
    cases ttCtx c o (obs.filter (betweenP c)) (H.filter (betweenP c)) (F.filter (betweenP c)) with
    | error e => rfl
    | ok T => simp only [Except.map, pure, Except.pure, fillWhere_filter_map]
  · simp [Except.map]
  · rfl

theorem step5Ctx_perm (c : Cfg) (o : Oracles) {obs obs' H H' F F' : List Rat} (ho : obs.Perm obs') (hh : H.Perm H')
    (hx : F.Perm F') : step5Ctx c o obs H F = step5Ctx c o obs' H' F' := by
  unfold step5Ctx
  rw [ho.any_eq, (hh.filter _).length_eq, (hx.filter _).length_eq,
    ttCtx_perm c o (ho.filter (betweenP c)) (hh.filter (betweenP c)) (hx.filter (betweenP c)), ttCtx_perm c o ho hh hx]

/-! ### `_apply_on_window` without detrending and without randomisation (no bound / threshold pair) -/

/-- steps 3, 4 and 7 are the identity in that configuration -/
theorem applyOnWindow_plain (c : Cfg) (fam : IsiFamily) (o : Oracles) (d : Draws) (obs H F : List Rat)
    (yO yH yF : List Int) (hd : c.detrending = false)
    (hl : (c.hasLowerBound && c.hasLowerThreshold) = false) (hu : (c.hasUpperBound && c.hasUpperThreshold) = false) :
    applyOnWindow c fam o d obs H F yO yH yF =
      (step5 c o obs H F).bind (fun oF => step6 c fam o obs oF H F) := by
  rw [Lemmas.IsimipModel.applyOnWindow_eq, Lemmas.IsimipModel.step3_of_not_detrending c o hd]
  simp only [Lemmas.IsimipModel.step4_of_no_bound_threshold_pair c d hl hu, Except.bind,
    Lemmas.IsimipModel.step7_of_not_detrending c hd]
  cases step5 c o obs H F with
  | error e => rfl
  | ok oF =>
    simp only [Except.bind]
    cases step6 c fam o obs oF H F with
    | error e => rfl
    | ok r => rfl

end Lemmas.C06
