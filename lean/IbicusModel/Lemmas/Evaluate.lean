/-
  Helper lemmas for C20: the yearly split of `_yearly_exceedances` (`np.unique` counts → `np.cumsum` → `np.split`
  → per-section sums) computes, for time-sorted data, the per-year sums; co-occurrence counting of `_calculate_chi`.
-/
import IbicusModel.Model.Evaluate
import Mathlib.Data.List.Basic
import Mathlib.Tactic.Linarith
import Mathlib.Tactic.Ring

namespace Lemmas.Evaluate
open Model.Evaluate

theorem divE_ok (a b : Rat) (h : b ≠ 0) : Py.divE a b = .ok (a / b) := by
  unfold Py.divE; rw [if_neg h]

theorem divE_zero (a : Rat) : Py.divE a 0 = .error "div0" := by
  unfold Py.divE; rw [if_pos rfl]

/-- the sum of the instances on the days whose year is `y` -/
def yearSum (years inst : List Int) (y : Int) : Int :=
  (((years.zip inst).filter (fun p => decide (p.1 = y))).map (·.2)).sum

/-! ### `np.split(x, np.cumsum(counts)[:-1])` = consecutive blocks -/

theorem split_blocks (x : List Int) : ∀ (cs : List Int) (prev : Int), 0 ≤ prev → (∀ c ∈ cs, 0 ≤ c) →
    (Py.splitFrom x prev (Py.cumsumFrom prev cs).dropLast).map List.sum = blockSums cs (x.drop prev.toNat)
  | [], prev, _, _ => by simp [Py.cumsumFrom, Py.splitFrom, blockSums]
  | [c], prev, _, _ => by simp [Py.cumsumFrom, Py.splitFrom, blockSums]
  | c :: c' :: cs, prev, hp, hc => by
    have hc0 : 0 ≤ c := hc c (by simp)
    have ih := split_blocks x (c' :: cs) (prev + c) (by omega) (fun d hd => hc d (by simp at hd ⊢; tauto))
    simp only [Py.cumsumFrom] at ih ⊢
    rw [List.dropLast_cons_cons]
    simp only [Py.splitFrom, List.map_cons, blockSums]
    rw [ih]
    have e1 : (prev + c - prev).toNat = c.toNat := by congr 1; omega
    have e2 : (prev + c).toNat = prev.toNat + c.toNat := by omega
    rw [e1, e2, List.drop_drop]

/-! ### run-length encoding -/

theorem runs_singleton (a : Int) : Py.runs [a] = [(a, 1)] := by rw [Py.runs]; rfl

theorem runs_cons_same (a : Int) (t : List Int) (n : Nat) (r : List (Int × Nat)) (h : Py.runs t = (a, n) :: r) :
    Py.runs (a :: t) = (a, n + 1) :: r := by rw [Py.runs, h]; simp

theorem runs_cons_diff (a b : Int) (t : List Int) (n : Nat) (r : List (Int × Nat)) (h : Py.runs t = (b, n) :: r)
    (hab : a ≠ b) : Py.runs (a :: t) = (a, 1) :: (b, n) :: r := by rw [Py.runs, h]; simp [hab]

theorem runs_head (a : Int) (t : List Int) : ∃ n r, Py.runs (a :: t) = (a, n + 1) :: r := by
  cases t with
  | nil => exact ⟨0, [], runs_singleton a⟩
  | cons b t' =>
    obtain ⟨n, r, h⟩ := runs_head b t'
    by_cases hab : a = b
    · subst hab; exact ⟨n + 1, r, runs_cons_same a _ _ _ h⟩
    · exact ⟨0, (b, n + 1) :: r, runs_cons_diff a b _ _ _ h hab⟩

theorem runs_values_mem : ∀ (l : List Int) (v : Int), v ∈ (Py.runs l).map (·.1) → v ∈ l
  | [], v, h => by simp [Py.runs] at h
  | a :: t, v, h => by
    cases t with
    | nil => rw [runs_singleton] at h; simpa using h
    | cons b t' =>
      obtain ⟨n, r, hr⟩ := runs_head b t'
      have ih := runs_values_mem (b :: t') v
      rw [hr] at ih
      by_cases hab : a = b
      · subst hab
        rw [runs_cons_same a _ _ _ hr] at h
        simp only [List.map_cons, List.mem_cons] at h ih ⊢
        rcases h with h | h
        · exact Or.inl h
        · exact Or.inr (ih (Or.inr h))
      · rw [runs_cons_diff a b _ _ _ hr hab] at h
        simp only [List.map_cons, List.mem_cons] at h ih ⊢
        rcases h with h | h | h
        · exact Or.inl h
        · exact Or.inr (ih (Or.inl h))
        · exact Or.inr (ih (Or.inr h))

/-- the run values of a sorted list are strictly increasing (one run per distinct value) -/
theorem runs_values_sorted : ∀ (l : List Int), l.Pairwise (· ≤ ·) → ((Py.runs l).map (·.1)).Pairwise (· < ·)
  | [], _ => by simp [Py.runs]
  | a :: t, hs => by
    cases t with
    | nil => rw [runs_singleton]; simp
    | cons b t' =>
      obtain ⟨n, r, hr⟩ := runs_head b t'
      have hs' := (List.pairwise_cons.mp hs)
      have ih := runs_values_sorted (b :: t') hs'.2
      by_cases hab : a = b
      · subst hab
        rw [runs_cons_same a _ _ _ hr]
        rw [hr] at ih
        simpa using ih
      · have hlt : a < b := lt_of_le_of_ne (hs'.1 b (by simp)) hab
        rw [runs_cons_diff a b _ _ _ hr hab]
        rw [hr] at ih
        simp only [List.map_cons] at ih ⊢
        refine List.pairwise_cons.mpr ⟨?_, ih⟩
        intro v hv
        have : v ∈ (Py.runs (b :: t')).map (·.1) := by rw [hr]; simpa using hv
        have hm := runs_values_mem (b :: t') v this
        have hb : b ≤ v := by
          rcases List.mem_cons.mp hm with h | h
          · omega
          · exact (List.pairwise_cons.mp hs'.2).1 v h
        omega

theorem runs_values_complete : ∀ (l : List Int) (v : Int), v ∈ l → v ∈ (Py.runs l).map (·.1)
  | [], v, h => by simp at h
  | a :: t, v, h => by
    cases t with
    | nil => rw [runs_singleton]; simpa using h
    | cons b t' =>
      obtain ⟨n, r, hr⟩ := runs_head b t'
      have ih := runs_values_complete (b :: t') v
      rw [hr] at ih
      by_cases hab : a = b
      · subst hab
        rw [runs_cons_same a _ _ _ hr]
        simp only [List.map_cons, List.mem_cons] at h ih ⊢
        rcases h with h | h | h
        · exact Or.inl h
        · exact ih (Or.inl h)
        · exact ih (Or.inr h)
      · rw [runs_cons_diff a b _ _ _ hr hab]
        simp only [List.map_cons, List.mem_cons] at h ih ⊢
        rcases h with h | h | h
        · exact Or.inl h
        · exact Or.inr (ih (Or.inl h))
        · exact Or.inr (ih (Or.inr h))

theorem runs_replicate (y : Int) : ∀ n : Nat, Py.runs (List.replicate (n + 1) y) = [(y, n + 1)]
  | 0 => runs_singleton y
  | n + 1 => by
    rw [List.replicate_succ]
    exact runs_cons_same y _ _ _ (runs_replicate y n)

/-! ### per-year sums -/

theorem yearSum_cons (a : Int) (t : List Int) (i0 : Int) (x : List Int) (y : Int) :
    yearSum (a :: t) (i0 :: x) y = (if a = y then i0 else 0) + yearSum t x y := by
  unfold yearSum
  by_cases h : a = y <;> simp [h]

theorem yearSum_not_mem (l x : List Int) (y : Int) (h : y ∉ l) : yearSum l x y = 0 := by
  unfold yearSum
  have : (l.zip x).filter (fun p => decide (p.1 = y)) = [] := by
    rw [List.filter_eq_nil_iff]
    intro p hp
    have := (List.of_mem_zip hp).1
    simp only [decide_eq_true_eq]
    rintro rfl
    exact h this
  rw [this]; rfl

theorem blockSums_bump (n : Nat) (cs : List Int) (i0 : Int) (x : List Int) :
    blockSums (((n + 1 : Nat) : Int) :: cs) (i0 :: x) =
      (i0 + (blockSums ((n : Int) :: cs) x).headD 0) :: (blockSums ((n : Int) :: cs) x).tail := by
  cases cs with
  | nil => simp [blockSums]
  | cons c' cs' =>
    simp only [blockSums, List.headD_cons, List.tail_cons]
    have e1 : ((n + 1 : Nat) : Int).toNat = n + 1 := by omega
    have e2 : ((n : Nat) : Int).toNat = n := by omega
    rw [e1, e2]
    simp [List.take_succ_cons, List.sum_cons]

/-- **Blocks of the run lengths are the years** (sorted years, one instance per day). -/
theorem blocks_eq_yearSums : ∀ (l inst : List Int), l ≠ [] → l.Pairwise (· ≤ ·) → inst.length = l.length →
    blockSums ((Py.runs l).map (fun p => (p.2 : Int))) inst = ((Py.runs l).map (·.1)).map (yearSum l inst)
  | [], _, h, _, _ => absurd rfl h
  | [a], inst, _, _, hl => by
    match inst, hl with
    | [i0], _ => rw [runs_singleton]; simp [blockSums, yearSum]
  | a :: b :: t', inst, _, hs, hl => by
    match inst, hl with
    | i0 :: x, hl =>
      have hs' := List.pairwise_cons.mp hs
      have ih := blocks_eq_yearSums (b :: t') x (by simp) hs'.2 (by simpa using hl)
      obtain ⟨n, r, hr⟩ := runs_head b t'
      have hvs := runs_values_sorted (b :: t') hs'.2
      rw [hr] at ih hvs
      simp only [List.map_cons] at ih hvs
      by_cases hab : a = b
      · subst hab
        have e : Py.runs (a :: a :: t') = (a, n + 1 + 1) :: r := runs_cons_same a _ _ _ hr
        rw [e]
        simp only [List.map_cons]
        rw [blockSums_bump, ih]
        simp only [List.headD_cons, List.tail_cons, yearSum_cons, if_true]
        congr 1
        apply List.map_congr_left
        intro y hy
        have hlt : a < y := (List.pairwise_cons.mp hvs).1 y hy
        have : ¬ (a = y) := by omega
        rw [yearSum_cons]; simp [this]
      · have hlt : a < b := lt_of_le_of_ne (hs'.1 b (by simp)) hab
        have e : Py.runs (a :: b :: t') = (a, 1) :: (b, n + 1) :: r := runs_cons_diff a b _ _ _ hr hab
        rw [e]
        have hge : ∀ v ∈ b :: t', b ≤ v := by
          intro v hv
          rcases List.mem_cons.mp hv with h | h
          · omega
          · exact (List.pairwise_cons.mp hs'.2).1 v h
        have hna : a ∉ b :: t' := fun hm => by have := hge a hm; omega
        simp only [List.map_cons, blockSums, Nat.cast_one]
        have e1 : (1 : Int).toNat = 1 := rfl
        rw [e1]
        simp only [List.take_succ_cons, List.take_zero, List.sum_cons, List.sum_nil, add_zero, List.drop_succ_cons, List.drop_zero]
        rw [ih]
        simp only [yearSum_cons, if_true, yearSum_not_mem _ _ _ hna, add_zero]
        have hb : ¬ (a = b) := hab
        simp only [hb, if_false, zero_add]
        congr 2
        apply List.map_congr_left
        intro y hy
        have hm : y ∈ b :: t' := runs_values_mem (b :: t') y (by rw [hr]; simp only [List.map_cons, List.mem_cons]; exact Or.inr hy)
        have : ¬ (a = y) := fun h => hna (h ▸ hm)
        rw [yearSum_cons]; simp [this]

/-- `np.unique(years, return_counts=True)` on sorted years is the run-length encoding -/
theorem uniqueCounts_sorted (l : List Int) (hs : l.Pairwise (· ≤ ·)) :
    Py.uniqueCounts l = (Py.runs l).map (fun p => (p.2 : Int)) ∧ Py.uniqueSorted l = (Py.runs l).map (·.1) := by
  have : l.mergeSort (fun a b => decide (a ≤ b)) = l :=
    List.mergeSort_of_pairwise (hs.imp (fun h => by simpa using h))
  unfold Py.uniqueCounts Py.uniqueSorted
  rw [this]; exact ⟨rfl, rfl⟩

/-! ### co-occurrence counting of `_calculate_chi` -/

/-- a 0/1 array (what `calculate_instances_of_threshold_exceedance` returns) -/
def Bin (l : List Int) : Prop := ∀ v ∈ l, v = 0 ∨ v = 1

theorem cooccurrence_cons (a b : Int) (t u : List Int) :
    cooccurrence (a :: t) (b :: u) = (if (if a = 0 then 2 else a) = b then 1 else 0) + cooccurrence t u := by
  unfold cooccurrence
  simp only [List.map_cons, List.zipWith_cons_cons, List.sum_cons]
  by_cases h : (if a = 0 then (2 : Int) else a) = b <;> simp [h]

/-- on 0/1 arrays the "replace 0 by 2, then compare" trick counts exactly the steps where both metrics occur -/
theorem cooccurrence_eq_and : ∀ (i1 i2 : List Int), Bin i1 → Bin i2 →
    cooccurrence i1 i2 = (List.zipWith (· * ·) i1 i2).sum
  | [], _, _, _ => by simp [cooccurrence]
  | _ :: _, [], _, _ => by simp [cooccurrence]
  | a :: t, b :: u, h1, h2 => by
    rw [cooccurrence_cons, cooccurrence_eq_and t u (fun v hv => h1 v (by simp [hv])) (fun v hv => h2 v (by simp [hv]))]
    simp only [List.zipWith_cons_cons, List.sum_cons]
    congr 1
    rcases h1 a (by simp) with ha | ha <;> rcases h2 b (by simp) with hb | hb <;> subst ha <;> subst hb <;> decide

theorem cooccurrence_self : ∀ (i : List Int), Bin i → cooccurrence i i = i.sum
  | [], _ => by simp [cooccurrence]
  | a :: t, h => by
    rw [cooccurrence_cons, cooccurrence_self t (fun v hv => h v (by simp [hv]))]
    simp only [List.sum_cons]
    congr 1
    rcases h a (by simp) with ha | ha <;> subst ha <;> decide

theorem bin_sum_nonneg : ∀ (i : List Int), Bin i → 0 ≤ i.sum
  | [], _ => by simp
  | a :: t, h => by
    have := bin_sum_nonneg t (fun v hv => h v (by simp [hv]))
    rcases h a (by simp) with ha | ha <;> subst ha <;> simp only [List.sum_cons] <;> omega

/-! ### one year at a time, tiled records, row order -/

/-- the instances on the days of year `y`, in time order -/
def instOfYear (years inst : List Int) (y : Int) : List Int :=
  ((years.zip inst).filter (fun p => decide (p.1 = y))).map (·.2)

theorem yearSum_eq (years inst : List Int) (y : Int) : yearSum years inst y = (instOfYear years inst y).sum := rfl

theorem filter_eq_replicate (l : List Int) (y : Int) :
    l.filter (fun v => decide (v = y)) = List.replicate (l.filter (fun v => decide (v = y))).length y := by
  rw [List.eq_replicate_iff]
  refine ⟨rfl, fun b hb => ?_⟩
  simpa using (List.mem_filter.mp hb).2

/-- a record repeated `k` times (the same block tiled along the time axis) -/
def tile {α} (k : Nat) (x : List α) : List α := (List.replicate k x).flatten

theorem tile_succ {α} (k : Nat) (x : List α) : tile (k + 1) x = x ++ tile k x := by
  simp [tile, List.replicate_succ]

theorem tile_length {α} (k : Nat) (x : List α) : (tile k x).length = k * x.length := by
  induction k with
  | zero => simp [tile]
  | succ n ih => rw [tile_succ, List.length_append, ih]; ring

theorem tile_sum_int (k : Nat) (x : List Int) : (tile k x).sum = (k : Int) * x.sum := by
  induction k with
  | zero => simp [tile]
  | succ n ih => rw [tile_succ, List.sum_append, ih]; push_cast; ring

theorem tile_sum_rat (k : Nat) (x : List Rat) : (tile k x).sum = (k : Rat) * x.sum := by
  induction k with
  | zero => simp [tile]
  | succ n ih => rw [tile_succ, List.sum_append, ih]; push_cast; ring

theorem tile_map {α β} (f : α → β) (k : Nat) (x : List α) : (tile k x).map f = tile k (x.map f) := by
  induction k with
  | zero => simp [tile]
  | succ n ih => rw [tile_succ, tile_succ, List.map_append, ih]

theorem frameRows_cons {κ ν} (k : κ) (ks : List κ) (n : Nat) (label : Nat → String) (val : κ → Nat → ν) :
    frameRows (k :: ks) n label val = (List.range n).map (fun j => (k, label j, val k j)) ++ frameRows ks n label val := by
  simp [frameRows]

end Lemmas.Evaluate
