/-
  C12 — soundness of the provenance checker of `Model/Purity.lean` against the concrete heap semantics `Exec`,
  and the complete finite tables (`decide +kernel` over every settings branch; labelled).
-/
import IbicusModel.Model.Purity

namespace Lemmas.Purity
open Model.Purity

/-! ### lookups commute with abstraction -/

theorem alookN_abs (env : CEnv) (k : Nat) : alookN (absEnv env) k = (clookN env k).map provOf := by
  induction env with
  | nil => rfl
  | cons h t ih =>
    obtain ⟨a, b⟩ := h
    simp only [absEnv, List.map_cons, alookN, clookN]
    cases hk : Nat.beq a k
    · simpa [absEnv] using ih
    · simp

theorem alook_abs (env : CEnv) (v : V) : alook (absEnv env) v = (clook env v).map provOf :=
  alookN_abs env v.ctorIdx

theorem abindArgs_abs (env : CEnv) (args : List (V × V)) :
    abindArgs (absEnv env) args = absEnv (cbindArgs env args) := by
  induction args with
  | nil => rfl
  | cons h t ih =>
    obtain ⟨p, a⟩ := h
    simp only [abindArgs, cbindArgs, alook_abs]
    cases clook env a with
    | none => simpa using ih
    | some b => simp [absEnv] at ih ⊢; exact ih

theorem abindRets_abs (callee env : CEnv) (rets : List (V × V)) (e'' : AEnv)
    (h : abindRets (absEnv callee) (absEnv env) rets = some e'') :
    ∃ env1, cbindRets callee env rets = some env1 ∧ e'' = absEnv env1 := by
  induction rets generalizing env with
  | nil =>
    simp only [abindRets, Option.some.injEq] at h
    exact ⟨env, rfl, h.symm⟩
  | cons hd t ih =>
    obtain ⟨d, r⟩ := hd
    simp only [abindRets, alook_abs] at h
    simp only [cbindRets]
    cases hc : clook callee r with
    | none => simp [hc] at h
    | some b =>
      simp only [hc, Option.map_some] at h
      exact ih ((d.ctorIdx, b) :: env) (by simpa [absEnv] using h)

theorem cbindRets_of_abs (callee env : CEnv) (rets : List (V × V)) (e'' : AEnv) (env1 : CEnv)
    (h : abindRets (absEnv callee) (absEnv env) rets = some e'') (hc : cbindRets callee env rets = some env1) :
    e'' = absEnv env1 := by
  obtain ⟨env1', h1, h2⟩ := abindRets_abs callee env rets e'' h
  rw [hc] at h1
  cases h1
  exact h2

theorem provOf_own {b : Nat} (h : provOf b = .own) : nCaller ≤ b := by
  unfold provOf at h
  by_cases hb : b < nCaller
  · simp [hb] at h
  · exact Nat.le_of_not_lt hb

theorem provOf_of_le {b : Nat} (h : nCaller ≤ b) : provOf b = .own := by
  unfold provOf
  simp [Nat.not_lt.mpr h]

/-! ### the contract of `callWin` (complete finite table: 2⁵·4 settings branches of ISIMIP._apply_on_window) -/

instance (p : Trend → Prop) [DecidablePred p] : Decidable (∀ e, p e) :=
  decidable_of_iff (p .additive ∧ p .multiplicative ∧ p .mixed ∧ p .bounded)
    ⟨fun h e => by cases e <;> simp [h.1, h.2.1, h.2.2.1, h.2.2.2], fun h => ⟨h _, h _, h _, h _⟩⟩

instance (p : Detr → Prop) [DecidablePred p] : Decidable (∀ e, p e) :=
  decidable_of_iff (p .additive ∧ p .multiplicative ∧ p .noDetrending)
    ⟨fun h e => by cases e <;> simp [h.1, h.2.1, h.2.2], fun h => ⟨h _, h _, h _⟩⟩

instance (p : Entry → Prop) [DecidablePred p] : Decidable (∀ e, p e) :=
  decidable_of_iff (∀ a b : Bool, p (.applyLocation a) ∧ p (.apply a b))
    ⟨fun h e => by
      cases e with
      | applyLocation t => exact (h t true).1
      | apply cv t => exact (h cv t).2,
     fun h a b => ⟨h _, h _⟩⟩

/-- complete finite table -/
theorem window_table : ∀ i d l u t m,
    (safe (.isimipWindow i d l u t m) && resultOwn (.isimipWindow i d l u t m) && contractOk (.isimipWindow i d l u t m)) = true := by
  decide +kernel

theorem contract_ok (ci : Cfg) (h : ci.isInner = true) : contractOk ci = true := by
  cases ci with
  | isimipWindow i d l u t m =>
    have := window_table i d l u t m
    simp only [Bool.and_eq_true] at this
    exact this.2
  | _ => simp [Cfg.isInner] at h

/-! ### soundness -/

/-- what a run may do to the heap: it can grow, and the caller's buffers keep their contents -/
def Preserved {α : Type} (s t : St α) : Prop :=
  s.heap.length ≤ t.heap.length ∧ ∀ k, k < nCaller → t.heap[k]? = s.heap[k]?

theorem Preserved.trans {α : Type} {s t u : St α} (h1 : Preserved s t) (h2 : Preserved t u) : Preserved s u :=
  ⟨Nat.le_trans h1.1 h2.1, fun k hk => (h2.2 k hk).trans (h1.2 k hk)⟩

/-- If the checker accepts a program from the abstraction of the concrete environment, then every execution
    (whatever is written, whichever inner configuration the window function runs under) ends in an environment whose
    abstraction the checker computed, and has preserved the caller's buffers. -/
theorem check_sound {α : Type} {G : RngGuard → Bool} {c : Cfg} {p : List Stmt} {s t : St α} (hx : Exec G c p s t) :
    ∀ (f : Nat) (e' : AEnv), nCaller ≤ s.heap.length → check c f p (absEnv s.env) = some e' →
      e' = absEnv t.env ∧ Preserved s t := by
  induction hx with
  | nil c s =>
    intro f e' _ hc
    cases f with
    | zero => simp [check] at hc
    | succ f =>
      simp only [check, Option.some.injEq] at hc
      exact ⟨hc.symm, Nat.le_refl _, fun _ _ => rfl⟩
  | @alias c d src op r s t b hl _ ih =>
    intro f e' hn hc
    cases f with
    | zero => simp [check] at hc
    | succ f =>
      simp only [check, alook_abs, hl, Option.map_some] at hc
      exact ih f e' hn (by simpa [absEnv] using hc)
  | @fresh c d op srcs r s t v _ ih =>
    intro f e' hn hc
    cases f with
    | zero => simp [check] at hc
    | succ f =>
      simp only [check] at hc
      split at hc
      · have hlen : nCaller ≤ (s.heap ++ [v]).length := by simp; omega
        have := ih f e' hlen (by simpa [absEnv, provOf_of_le hn] using hc)
        refine ⟨this.1, ?_, ?_⟩
        · have := this.2.1; simp at this; omega
        · intro k hk
          rw [this.2.2 k hk]
          exact List.getElem?_append_left (by omega)
      · simp at hc
  | @store c tgt r s t b v hl _ ih =>
    intro f e' hn hc
    cases f with
    | zero => simp [check] at hc
    | succ f =>
      simp only [check, alook_abs, hl, Option.map_some] at hc
      split at hc
      · rename_i hp
        have hb : nCaller ≤ b := provOf_own (by simpa using hp)
        have := ih f e' (by simpa using hn) hc
        refine ⟨this.1, ?_, ?_⟩
        · simpa using this.2.1
        · intro k hk
          rw [this.2.2 k hk]
          exact List.getElem?_set_ne (by omega)
      · simp at hc
  | @draw c g r s t n _ _ ih =>
    intro f e' hn hc
    cases f with
    | zero => simp [check] at hc
    | succ f =>
      simp only [check] at hc
      exact ih f e' hn hc
  | @call c fn args rets r s t0 env1 t _ hr _ ih1 ih2 =>
    intro f e' hn hc
    cases f with
    | zero => simp [check] at hc
    | succ f =>
      simp only [check, abindArgs_abs] at hc
      split at hc
      · rename_i e1 h1
        have r1 := ih1 f e1 hn h1
        split at hc
        · rename_i e2 h2
          rw [r1.1] at h2
          have he2 := cbindRets_of_abs t0.env s.env rets e2 env1 h2 hr
          have hn0 : nCaller ≤ t0.heap.length := Nat.le_trans hn r1.2.1
          have r2 := ih2 f e' hn0 (by rw [← he2]; exact hc)
          exact ⟨r2.1, Preserved.trans r1.2 r2.2⟩
        · simp at hc
      · simp at hc
  | @callWin c ci args d r s t0 b t hi _ hl _ ih1 ih2 =>
    intro f e' hn hc
    cases f with
    | zero => simp [check] at hc
    | succ f =>
      simp only [check, abindArgs_abs] at hc
      split at hc
      · rename_i hargs
        -- the guarantee side of the contract, for the inner configuration this execution chose
        have hk := contract_ok ci hi
        unfold contractOk at hk
        split at hk
        · rename_i e1 h1
          have r1 := ih1 fuel e1 hn (by rw [hargs]; exact h1)
          have hown : provOf b = .own := by
            have : alook e1 V.ret = some .own := by simpa using hk
            rw [r1.1, alook_abs, hl] at this
            simpa using this
          have hn0 : nCaller ≤ t0.heap.length := Nat.le_trans hn r1.2.1
          have r2 := ih2 f e' hn0 (by simpa [absEnv, hown] using hc)
          exact ⟨r2.1, Preserved.trans r1.2 r2.2⟩
        · simp at hk
      · simp at hc

/-- numpy's global generator is advanced only by a draw whose guard is on: if it moved, some guard of the instance
    is on -/
theorem rng_moves_only_under_guard {α : Type} {G : RngGuard → Bool} {c : Cfg} {p : List Stmt} {s t : St α}
    (hx : Exec G c p s t) : s.rng ≤ t.rng ∧ (t.rng ≠ s.rng → ∃ g, G g = true) := by
  induction hx with
  | nil c s => exact ⟨Nat.le_refl _, fun h => absurd rfl h⟩
  | alias _ _ ih => exact ih
  | fresh _ _ ih => exact ih
  | store _ _ _ ih => exact ih
  | @draw c g r s t n hn _ ih =>
    refine ⟨Nat.le_trans (Nat.le_add_right _ _) ih.1, fun hne => ?_⟩
    by_cases hg : G g = true
    · exact ⟨g, hg⟩
    · have : n = 0 := hn (by simpa using hg)
      subst this
      exact ih.2 (by simpa using hne)
  | @call c fn args rets r s t0 env1 t _ _ _ ih1 ih2 =>
    refine ⟨Nat.le_trans ih1.1 ih2.1, fun hne => ?_⟩
    by_cases h1 : t0.rng = s.rng
    · exact ih2.2 (by simpa [h1] using hne)
    · exact ih1.2 h1
  | @callWin c ci args d r s t0 b t _ _ _ _ ih1 ih2 =>
    refine ⟨Nat.le_trans ih1.1 ih2.1, fun hne => ?_⟩
    by_cases h1 : t0.rng = s.rng
    · exact ih2.2 (by simpa [h1] using hne)
    · exact ih1.2 h1

/-! ### complete finite tables: every settings branch of every debiaser -/

/-- complete finite table -/
theorem ls_table : ∀ e w, (safe (.ls e w) && resultOwn (.ls e w)) = true := by decide +kernel
/-- complete finite table -/
theorem qm_table : ∀ e w d p, (safe (.qm e w d p) && resultOwn (.qm e w d p)) = true := by decide +kernel
/-- complete finite table -/
theorem ecdfm_table : ∀ e w, (safe (.ecdfm e w) && resultOwn (.ecdfm e w)) = true := by decide +kernel
/-- complete finite table -/
theorem cdft_table : ∀ e w y s h, (safe (.cdft e w y s h) && resultOwn (.cdft e w y s h)) = true := by decide +kernel
/-- complete finite table -/
theorem qdm_table : ∀ e w y z, (safe (.qdm e w y z) && resultOwn (.qdm e w y z)) = true := by decide +kernel
/-- complete finite table -/
theorem sdm_table : ∀ e w r, (safe (.sdm e w r) && resultOwn (.sdm e w r)) = true := by decide +kernel
/-- complete finite table -/
theorem dc_table : ∀ e w, (safe (.dc e w) && resultOwn (.dc e w)) = true := by decide +kernel
/-- complete finite table -/
theorem isimip_table : ∀ e w s, (safe (.isimip e w s) && resultOwn (.isimip e w s)) = true := by decide +kernel

theorem table (c : Cfg) : (safe c && resultOwn c) = true := by
  cases c with
  | ls e w => exact ls_table e w
  | qm e w d p => exact qm_table e w d p
  | ecdfm e w => exact ecdfm_table e w
  | cdft e w y s h => exact cdft_table e w y s h
  | qdm e w y z => exact qdm_table e w y z
  | sdm e w r => exact sdm_table e w r
  | dc e w => exact dc_table e w
  | isimip e w s => exact isimip_table e w s
  | isimipWindow i d l u t m =>
    have := window_table i d l u t m
    simp only [Bool.and_eq_true] at this ⊢
    exact this.1

theorem safe_all (c : Cfg) : safe c = true := by
  have := table c
  simp only [Bool.and_eq_true] at this
  exact this.1

theorem resultOwn_all (c : Cfg) : resultOwn c = true := by
  have := table c
  simp only [Bool.and_eq_true] at this
  exact this.2

/-! ### the programs and the write-site table name the same stores (complete finite tables) -/

/-- one configuration per branch in which a listed store occurs -/
def witnessCfgs : List Cfg := [
  .ls (.apply false true) true, .qm (.applyLocation true) false .noDetrending false, .cdft (.applyLocation true) true true true true,
  .qdm (.applyLocation true) true true true, .sdm (.applyLocation true) false true, .dc (.applyLocation true) true,
  .isimip (.applyLocation true) true true, .isimip (.applyLocation true) false false,
  .isimipWindow true true true true true .mixed, .isimipWindow true true true true true .bounded]

/-- complete finite table -/
theorem sites_justified : sitesJ.all (justBacked witnessCfgs) = true := by decide +kernel

/-- the three static ties between programs and tables, checked together -/
def tieOk (c : Cfg) : Bool := storesListed c && drawsListed c && helperCallsGuarded c

/-- complete finite table -/
theorem stores_listed_ls : ∀ e w, tieOk (.ls e w) = true := by decide +kernel
/-- complete finite table -/
theorem stores_listed_qm : ∀ e w d p, tieOk (.qm e w d p) = true := by decide +kernel
/-- complete finite table -/
theorem stores_listed_ecdfm : ∀ e w, tieOk (.ecdfm e w) = true := by decide +kernel
/-- complete finite table -/
theorem stores_listed_cdft : ∀ e w y s h, tieOk (.cdft e w y s h) = true := by decide +kernel
/-- complete finite table -/
theorem stores_listed_qdm : ∀ e w y z, tieOk (.qdm e w y z) = true := by decide +kernel
/-- complete finite table -/
theorem stores_listed_sdm : ∀ e w r, tieOk (.sdm e w r) = true := by decide +kernel
/-- complete finite table -/
theorem stores_listed_dc : ∀ e w, tieOk (.dc e w) = true := by decide +kernel
/-- complete finite table -/
theorem stores_listed_isimip : ∀ e w s, tieOk (.isimip e w s) = true := by decide +kernel
/-- complete finite table -/
theorem stores_listed_window : ∀ i d l u t m, tieOk (.isimipWindow i d l u t m) = true := by decide +kernel

theorem tie_ok (c : Cfg) : tieOk c = true := by
  cases c with
  | ls e w => exact stores_listed_ls e w
  | qm e w d p => exact stores_listed_qm e w d p
  | ecdfm e w => exact stores_listed_ecdfm e w
  | cdft e w y s h => exact stores_listed_cdft e w y s h
  | qdm e w y z => exact stores_listed_qdm e w y z
  | sdm e w r => exact stores_listed_sdm e w r
  | dc e w => exact stores_listed_dc e w
  | isimip e w s => exact stores_listed_isimip e w s
  | isimipWindow i d l u t m => exact stores_listed_window i d l u t m


theorem stores_listed (c : Cfg) : storesListed c = true := by
  have := tie_ok c; simp only [tieOk, Bool.and_eq_true] at this; exact this.1.1

theorem draws_listed (c : Cfg) : drawsListed c = true := by
  have := tie_ok c; simp only [tieOk, Bool.and_eq_true] at this; exact this.1.2

theorem helper_calls_guarded (c : Cfg) : helperCallsGuarded c = true := by
  have := tie_ok c; simp only [tieOk, Bool.and_eq_true] at this; exact this.2

/-- complete finite table -/
theorem draws_backed : drawsBacked witnessCfgs = true := by decide +kernel

end Lemmas.Purity
