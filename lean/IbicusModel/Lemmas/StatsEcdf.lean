/-
  Helper lemmas for the numeric toolkit, part 3: `np.interp` (`interp1`), `np.linspace`, and the three
  empirical CDFs (step, linear interpolation, histogram with oracle bin edges).
-/
import IbicusModel.Lemmas.Stats

namespace Lemmas.Stats
open Model.Stats

/-! ### the prefix counter behind `lastLE` -/

/-- length of the maximal prefix of `xp` whose elements are `≤ x` -/
def cnt (xp : List Rat) (x : Rat) : Nat := (xp.takeWhile (fun v => decide (v ≤ x))).length

theorem cnt_cons (a : Rat) (t : List Rat) (x : Rat) :
    cnt (a :: t) x = if a ≤ x then cnt t x + 1 else 0 := by
  unfold cnt
  rw [List.takeWhile_cons]
  by_cases h : a ≤ x <;> simp [h]

theorem cnt_le_length (xp : List Rat) (x : Rat) : cnt xp x ≤ xp.length := by
  unfold cnt; exact (List.takeWhile_prefix _).length_le

theorem cnt_below (xp : List Rat) (x : Rat) : ∀ i, i < cnt xp x → xp.getD i 0 ≤ x := by
  induction xp with
  | nil => intro i hi; simp [cnt] at hi
  | cons a t ih =>
    intro i hi
    rw [cnt_cons] at hi
    by_cases h : a ≤ x
    · rw [if_pos h] at hi
      cases i with
      | zero => simpa using h
      | succ i => rw [List.getD_cons_succ]; exact ih i (by omega)
    · rw [if_neg h] at hi; omega

theorem cnt_above (xp : List Rat) (x : Rat) (h : cnt xp x < xp.length) : x < xp.getD (cnt xp x) 0 := by
  induction xp with
  | nil => simp at h
  | cons a t ih =>
    rw [cnt_cons] at h ⊢
    by_cases ha : a ≤ x
    · rw [if_pos ha] at h ⊢
      rw [List.getD_cons_succ]
      exact ih (by simpa using h)
    · rw [if_neg ha]
      simpa using ha

theorem cnt_mono (xp : List Rat) {x x' : Rat} (h : x ≤ x') : cnt xp x ≤ cnt xp x' := by
  induction xp with
  | nil => simp [cnt]
  | cons a t ih =>
    rw [cnt_cons, cnt_cons]
    by_cases ha : a ≤ x
    · rw [if_pos ha, if_pos (le_trans ha h)]; omega
    · rw [if_neg ha]; omega

theorem cnt_all (xp : List Rat) (x : Rat) (h : ∀ v ∈ xp, v ≤ x) : cnt xp x = xp.length := by
  induction xp with
  | nil => simp [cnt]
  | cons a t ih =>
    rw [cnt_cons, if_pos (h a (by simp)), ih (fun v hv => h v (by simp [hv]))]
    simp

/-- on a sorted list the prefix counter counts *all* elements `≤ x` -/
theorem cnt_eq_filter {xp : List Rat} (hs : xp.Pairwise (· ≤ ·)) (x : Rat) :
    cnt xp x = (xp.filter (fun v => decide (v ≤ x))).length := by
  induction xp with
  | nil => simp [cnt]
  | cons a t ih =>
    rw [List.pairwise_cons] at hs
    rw [cnt_cons, List.filter_cons]
    by_cases ha : a ≤ x
    · simp only [ha, decide_true, if_true, List.length_cons]
      rw [ih hs.2]
    · simp only [ha, decide_false, if_false]
      have : t.filter (fun v => decide (v ≤ x)) = [] := by
        rw [List.filter_eq_nil_iff]
        intro v hv
        simp only [decide_eq_true_eq, not_le]
        exact lt_of_lt_of_le (not_le.mp ha) (hs.1 v hv)
      rw [this]; rfl

theorem lastLE_eq (xp : List Rat) (x : Rat) :
    lastLE xp x = if cnt xp x = 0 then none else some (cnt xp x - 1) := rfl

/-! ### `np.interp` at one point -/

/-- the linear piece of `interp1` as a `lerp` -/
theorem interp_piece (f0 f1 x0 x1 x : Rat) :
    (if x = x0 then f0 else f0 + (f1 - f0) / (x1 - x0) * (x - x0)) = lerp f0 f1 ((x - x0) / (x1 - x0)) := by
  unfold lerp
  split_ifs with h
  · subst h; simp
  · ring

theorem interp1_below {xp fp : List Rat} {x : Rat} (h : cnt xp x = 0) : interp1 xp fp x = fp.getD 0 0 := by
  unfold interp1; rw [lastLE_eq, if_pos h]

theorem interp1_top' {xp fp : List Rat} {x : Rat} (h : cnt xp x = xp.length) (hne : xp ≠ []) :
    interp1 xp fp x = fp.getD (fp.length - 1) 0 := by
  have hpos : 0 < xp.length := List.length_pos_iff.mpr hne
  unfold interp1
  rw [lastLE_eq, if_neg (by omega)]
  simp only []
  rw [if_pos (by omega)]

theorem interp1_interior {xp fp : List Rat} {x : Rat} {j : Nat} (hj : cnt xp x = j + 1)
    (hlt : j + 1 < xp.length) :
    interp1 xp fp x = lerp (fp.getD j 0) (fp.getD (j + 1) 0)
      ((x - xp.getD j 0) / (xp.getD (j + 1) 0 - xp.getD j 0)) := by
  unfold interp1
  rw [lastLE_eq, if_neg (by omega)]
  simp only [hj, Nat.add_sub_cancel]
  rw [if_neg (by omega)]
  exact interp_piece _ _ _ _ _

/-- the interpolation weight lies in `[0, 1)` -/
theorem interp_weight {xp : List Rat} {x : Rat} {j : Nat} (hj : cnt xp x = j + 1) (hlt : j + 1 < xp.length) :
    0 ≤ (x - xp.getD j 0) / (xp.getD (j + 1) 0 - xp.getD j 0) ∧
    (x - xp.getD j 0) / (xp.getD (j + 1) 0 - xp.getD j 0) < 1 := by
  have h0 : xp.getD j 0 ≤ x := cnt_below xp x j (by omega)
  have h1 : x < xp.getD (j + 1) 0 := by
    have := cnt_above xp x (by omega); rwa [hj] at this
  have hd : 0 < xp.getD (j + 1) 0 - xp.getD j 0 := by linarith
  constructor
  · exact div_nonneg (by linarith) (le_of_lt hd)
  · rw [div_lt_one hd]; linarith

theorem interp1_range {xp fp : List Rat} (hf : fp.Pairwise (· ≤ ·)) (hlen : fp.length = xp.length)
    (hne : xp ≠ []) (x : Rat) :
    fp.getD 0 0 ≤ interp1 xp fp x ∧ interp1 xp fp x ≤ fp.getD (fp.length - 1) 0 := by
  have hpos : 0 < xp.length := List.length_pos_iff.mpr hne
  have hends : fp.getD 0 0 ≤ fp.getD (fp.length - 1) 0 := sorted_getD_mono hf (Nat.zero_le _) (by omega)
  by_cases h0 : cnt xp x = 0
  · rw [interp1_below h0]; exact ⟨le_refl _, hends⟩
  obtain ⟨j, hj⟩ : ∃ j, cnt xp x = j + 1 := ⟨cnt xp x - 1, by omega⟩
  have hle := cnt_le_length xp x
  by_cases hlt : j + 1 < xp.length
  · rw [interp1_interior hj hlt]
    have hw := interp_weight hj hlt
    have hab : fp.getD j 0 ≤ fp.getD (j + 1) 0 := sorted_getD_mono hf (Nat.le_succ j) (by omega)
    exact ⟨le_trans (sorted_getD_mono hf (Nat.zero_le j) (by omega)) (lerp_ge hab hw.1),
           le_trans (lerp_le hab (le_of_lt hw.2)) (sorted_getD_mono hf (by omega) (by omega))⟩
  · rw [interp1_top' (by omega) hne]; exact ⟨hends, le_refl _⟩

/-- `np.interp` with non-decreasing values is non-decreasing in the point (whatever the knots are:
    the knot segment found by the prefix scan always has positive width) -/
theorem interp1_mono {xp fp : List Rat} (hf : fp.Pairwise (· ≤ ·)) (hlen : fp.length = xp.length)
    (hne : xp ≠ []) {x x' : Rat} (h : x ≤ x') : interp1 xp fp x ≤ interp1 xp fp x' := by
  have hpos : 0 < xp.length := List.length_pos_iff.mpr hne
  by_cases h0 : cnt xp x = 0
  · rw [interp1_below h0]; exact (interp1_range hf hlen hne x').1
  obtain ⟨j, hj⟩ : ∃ j, cnt xp x = j + 1 := ⟨cnt xp x - 1, by omega⟩
  have hcm := cnt_mono xp h
  obtain ⟨j', hj'⟩ : ∃ j', cnt xp x' = j' + 1 := ⟨cnt xp x' - 1, by omega⟩
  have hjj : j ≤ j' := by omega
  have hle' := cnt_le_length xp x'
  by_cases hlt' : j' + 1 < xp.length
  · have hlt : j + 1 < xp.length := by omega
    rw [interp1_interior hj hlt, interp1_interior hj' hlt']
    have hw := interp_weight hj hlt
    have hw' := interp_weight hj' hlt'
    have hab : fp.getD j 0 ≤ fp.getD (j + 1) 0 := sorted_getD_mono hf (Nat.le_succ j) (by omega)
    have hab' : fp.getD j' 0 ≤ fp.getD (j' + 1) 0 := sorted_getD_mono hf (Nat.le_succ j') (by omega)
    rcases Nat.eq_or_lt_of_le hjj with heq | hl
    · subst heq
      apply lerp_mono hab
      have h1 : x < xp.getD (j + 1) 0 := by
        have := cnt_above xp x (by omega); rwa [hj] at this
      have h0' : xp.getD j 0 ≤ x := cnt_below xp x j (by omega)
      have hd : 0 < xp.getD (j + 1) 0 - xp.getD j 0 := by linarith
      exact div_le_div_of_nonneg_right (by linarith) (le_of_lt hd)
    · calc lerp (fp.getD j 0) (fp.getD (j + 1) 0) _
          ≤ fp.getD (j + 1) 0 := lerp_le hab (le_of_lt hw.2)
        _ ≤ fp.getD j' 0 := sorted_getD_mono hf (by omega) (by omega)
        _ ≤ _ := lerp_ge hab' hw'.1
  · rw [interp1_top' (x := x') (by omega) hne]; exact (interp1_range hf hlen hne x).2

theorem interp1_top {xp fp : List Rat} (hne : xp ≠ []) {x : Rat} (h : ∀ v ∈ xp, v ≤ x) :
    interp1 xp fp x = fp.getD (fp.length - 1) 0 := interp1_top' (cnt_all xp x h) hne

/-! ### `np.linspace(0, 1, n)` -/

theorem linspace_length (a b : Rat) (n : Nat) : (linspace a b n).length = n := by
  unfold linspace; split_ifs with h
  · simp [h]
  · simp

theorem linspace01_getD {n : Nat} (hn : 2 ≤ n) {k : Nat} (hk : k < n) :
    (linspace 0 1 n).getD k 0 = (k : Rat) / ((n : Rat) - 1) := by
  unfold linspace
  rw [if_neg (by omega)]
  rw [getD_eq _ k (by simpa using hk)]
  simp

theorem linspace01_sorted (n : Nat) : (linspace 0 1 n).Pairwise (· ≤ ·) := by
  by_cases hn : 2 ≤ n
  · rw [List.pairwise_iff_getElem]
    intro i j hi hj hij
    rw [linspace_length] at hi hj
    rw [← getD_eq _ i (by rwa [linspace_length]), ← getD_eq _ j (by rwa [linspace_length]),
      linspace01_getD hn hi, linspace01_getD hn hj]
    have hn' : (2 : Rat) ≤ (n : Rat) := by exact_mod_cast hn
    apply div_le_div_of_nonneg_right _ (by linarith)
    exact_mod_cast le_of_lt hij
  · have : n = 0 ∨ n = 1 := by omega
    rcases this with rfl | rfl <;> simp [linspace]

theorem linspace01_first {n : Nat} (hn : 1 ≤ n) : (linspace 0 1 n).getD 0 0 = 0 := by
  by_cases h2 : 2 ≤ n
  · rw [linspace01_getD h2 (by omega)]; simp
  · have : n = 1 := by omega
    subst this; simp [linspace]

theorem linspace01_last {n : Nat} (hn : 2 ≤ n) : (linspace 0 1 n).getD (n - 1) 0 = 1 := by
  rw [linspace01_getD hn (by omega)]
  have hn' : (2 : Rat) ≤ (n : Rat) := by exact_mod_cast hn
  rw [Nat.cast_sub (by omega)]
  push_cast
  exact div_self (by linarith)

/-! ### the step ecdf -/

theorem ecdfStep_range (x : List Rat) (y : Rat) : 0 ≤ ecdfStep1 x y ∧ ecdfStep1 x y ≤ 1 := by
  unfold ecdfStep1
  have hle : ((x.filter (fun v => decide (v ≤ y))).length : Rat) ≤ (x.length : Rat) := by
    exact_mod_cast List.length_filter_le _ _
  constructor
  · positivity
  · by_cases h : (x.length : Rat) = 0
    · rw [h]; simp
    · have : 0 < (x.length : Rat) := lt_of_le_of_ne (by positivity) (Ne.symm h)
      rw [div_le_one this]; exact hle

theorem ecdfStep_mono (x : List Rat) {y y' : Rat} (h : y ≤ y') : ecdfStep1 x y ≤ ecdfStep1 x y' := by
  unfold ecdfStep1
  apply div_le_div_of_nonneg_right _ (by positivity)
  have : (x.filter (fun v => decide (v ≤ y))).Sublist (x.filter (fun v => decide (v ≤ y'))) := by
    apply List.monotone_filter_right
    intro a ha
    simp only [decide_eq_true_eq] at *
    exact le_trans ha h
  exact_mod_cast this.length_le

theorem ecdfStep_top {x : List Rat} (hne : x ≠ []) {y : Rat} (h : ∀ v ∈ x, v ≤ y) : ecdfStep1 x y = 1 := by
  unfold ecdfStep1
  have : x.filter (fun v => decide (v ≤ y)) = x := by
    rw [List.filter_eq_self]; intro a ha; simpa using h a ha
  rw [this]
  have : (x.length : Rat) ≠ 0 := by
    have := List.length_pos_iff.mpr hne
    positivity
  exact div_self this

/-! ### the linear-interpolation ecdf -/

theorem sortQ_ne_nil {x : List Rat} (hx : x ≠ []) : sortQ x ≠ [] := by
  intro h; have := sortQ_length x; rw [h] at this; exact hx (List.length_eq_zero_iff.mp this.symm)

theorem ecdfLin_range {x : List Rat} (hn : 2 ≤ x.length) (y : Rat) : 0 ≤ ecdfLin1 x y ∧ ecdfLin1 x y ≤ 1 := by
  have hx : x ≠ [] := by intro h; rw [h] at hn; simp at hn
  unfold ecdfLin1
  have hr := interp1_range (linspace01_sorted x.length)
    (by rw [linspace_length, sortQ_length]) (sortQ_ne_nil hx) y
  rw [linspace01_first (by omega), linspace_length, linspace01_last hn] at hr
  exact hr

theorem ecdfLin_mono {x : List Rat} (hx : x ≠ []) {y y' : Rat} (h : y ≤ y') : ecdfLin1 x y ≤ ecdfLin1 x y' := by
  unfold ecdfLin1
  exact interp1_mono (linspace01_sorted x.length) (by rw [linspace_length, sortQ_length]) (sortQ_ne_nil hx) h

theorem ecdfLin_top {x : List Rat} (hn : 2 ≤ x.length) {y : Rat} (h : ∀ v ∈ x, v ≤ y) : ecdfLin1 x y = 1 := by
  have hx : x ≠ [] := by intro h; rw [h] at hn; simp at hn
  unfold ecdfLin1
  rw [interp1_top (sortQ_ne_nil hx) (fun v hv => h v ((sortQ_perm x).mem_iff.mp hv)), linspace_length,
    linspace01_last hn]

/-! ### the histogram ecdf with oracle bins -/

/-- cumulative count before bin `j` -/
def cum (counts : List Nat) (j : Nat) : Rat := (((counts.take j).sum : Nat) : Rat)

theorem cum_succ (counts : List Nat) {j : Nat} (h : j < counts.length) :
    cum counts (j + 1) = cum counts j + ((counts.getD j 0 : Nat) : Rat) := by
  unfold cum
  rw [List.take_add_one]
  simp [h]

theorem cum_mono (counts : List Nat) {i j : Nat} (h : i ≤ j) : cum counts i ≤ cum counts j := by
  unfold cum
  have : (counts.take i).sum ≤ (counts.take j).sum := by
    have hsub : (counts.take i).Sublist (counts.take j) := List.take_sublist_take_left h
    exact List.Sublist.sum_le_sum hsub (fun a _ => Nat.zero_le a)
  exact_mod_cast this

theorem cum_total (counts : List Nat) : cum counts counts.length = ((counts.sum : Nat) : Rat) := by
  unfold cum; rw [List.take_length]

theorem cum_nonneg (counts : List Nat) (j : Nat) : 0 ≤ cum counts j := by unfold cum; positivity

/-- the oracle laws of the bins handed over by `np.histogram`: one more edge than counts, strictly
    increasing edges, at least one observation -/
structure HistLaws (edges : List Rat) (counts : List Nat) : Prop where
  len : edges.length = counts.length + 1
  incr : edges.Pairwise (· < ·)
  total : 0 < counts.sum

theorem hist_interior {edges : List Rat} {counts : List Nat} {y : Rat}
    (h0 : ¬ y ≤ edges.getD 0 0) (h1 : ¬ y ≥ edges.getD counts.length 0) (hl : HistLaws edges counts) :
    ∃ j, cnt edges y = j + 1 ∧ j < counts.length ∧
      ecdfHist1 edges counts y =
        lerp (cum counts j) (cum counts (j + 1))
          ((y - edges.getD j 0) / (edges.getD (j + 1) 0 - edges.getD j 0)) / ((counts.sum : Nat) : Rat) := by
  have hc0 : cnt edges y ≠ 0 := by
    intro hc
    have := cnt_above edges y (by rw [hc, hl.len]; omega)
    rw [hc] at this
    exact h0 (le_of_lt this)
  obtain ⟨j, hj⟩ : ∃ j, cnt edges y = j + 1 := ⟨cnt edges y - 1, by omega⟩
  have hjlt : j < counts.length := by
    by_contra hge
    have hle := cnt_le_length edges y
    have := cnt_below edges y counts.length (by omega)
    exact h1 this
  refine ⟨j, hj, hjlt, ?_⟩
  unfold ecdfHist1
  simp only []
  rw [if_neg h0, if_neg h1, lastLE_eq, if_neg hc0]
  simp only [hj, Nat.add_sub_cancel]
  rw [cum_succ counts hjlt]
  unfold lerp cum
  congr 1
  ring

theorem hist_weight {edges : List Rat} {y : Rat} {j : Nat} (hj : cnt edges y = j + 1)
    (hlt : j + 1 < edges.length) :
    0 ≤ (y - edges.getD j 0) / (edges.getD (j + 1) 0 - edges.getD j 0) ∧
    (y - edges.getD j 0) / (edges.getD (j + 1) 0 - edges.getD j 0) < 1 := interp_weight hj hlt

theorem ecdfHist_range {edges : List Rat} {counts : List Nat} (hl : HistLaws edges counts) (y : Rat) :
    0 ≤ ecdfHist1 edges counts y ∧ ecdfHist1 edges counts y ≤ 1 := by
  by_cases h0 : y ≤ edges.getD 0 0
  · unfold ecdfHist1; simp only []; rw [if_pos h0]; norm_num
  by_cases h1 : y ≥ edges.getD counts.length 0
  · unfold ecdfHist1; simp only []; rw [if_neg h0, if_pos h1]; norm_num
  obtain ⟨j, hj, hjlt, heq⟩ := hist_interior h0 h1 hl
  rw [heq]
  have hw := hist_weight hj (by rw [hl.len]; omega)
  have htot : (0 : Rat) < ((counts.sum : Nat) : Rat) := by exact_mod_cast hl.total
  have hab : cum counts j ≤ cum counts (j + 1) := cum_mono counts (Nat.le_succ j)
  constructor
  · exact div_nonneg (le_trans (cum_nonneg counts j) (lerp_ge hab hw.1)) (le_of_lt htot)
  · rw [div_le_one htot]
    calc _ ≤ cum counts (j + 1) := lerp_le hab (le_of_lt hw.2)
      _ ≤ cum counts counts.length := cum_mono counts (by omega)
      _ = _ := cum_total counts

theorem ecdfHist_mono {edges : List Rat} {counts : List Nat} (hl : HistLaws edges counts) {y y' : Rat}
    (h : y ≤ y') : ecdfHist1 edges counts y ≤ ecdfHist1 edges counts y' := by
  by_cases h0 : y ≤ edges.getD 0 0
  · have : ecdfHist1 edges counts y = 0 := by unfold ecdfHist1; simp only []; rw [if_pos h0]
    rw [this]; exact (ecdfHist_range hl y').1
  have h0' : ¬ y' ≤ edges.getD 0 0 := by intro hh; exact h0 (le_trans h hh)
  by_cases h1' : y' ≥ edges.getD counts.length 0
  · have : ecdfHist1 edges counts y' = 1 := by unfold ecdfHist1; simp only []; rw [if_neg h0', if_pos h1']
    rw [this]; exact (ecdfHist_range hl y).2
  have h1 : ¬ y ≥ edges.getD counts.length 0 := by intro hh; exact h1' (le_trans hh h)
  obtain ⟨j, hj, hjlt, heq⟩ := hist_interior h0 h1 hl
  obtain ⟨j', hj', hjlt', heq'⟩ := hist_interior h0' h1' hl
  rw [heq, heq']
  have htot : (0 : Rat) < ((counts.sum : Nat) : Rat) := by exact_mod_cast hl.total
  apply div_le_div_of_nonneg_right _ (le_of_lt htot)
  have hw := hist_weight hj (by rw [hl.len]; omega)
  have hw' := hist_weight hj' (by rw [hl.len]; omega)
  have hab : cum counts j ≤ cum counts (j + 1) := cum_mono counts (Nat.le_succ j)
  have hab' : cum counts j' ≤ cum counts (j' + 1) := cum_mono counts (Nat.le_succ j')
  have hjj : j ≤ j' := by have := cnt_mono edges h; omega
  rcases Nat.eq_or_lt_of_le hjj with he | hlt
  · subst he
    apply lerp_mono hab
    have hx1 : y < edges.getD (j + 1) 0 := by
      have := cnt_above edges y (by rw [hj, hl.len]; omega); rwa [hj] at this
    have hx0 : edges.getD j 0 ≤ y := cnt_below edges y j (by omega)
    have hd : 0 < edges.getD (j + 1) 0 - edges.getD j 0 := by linarith
    exact div_le_div_of_nonneg_right (by linarith) (le_of_lt hd)
  · calc lerp (cum counts j) (cum counts (j + 1)) _
        ≤ cum counts (j + 1) := lerp_le hab (le_of_lt hw.2)
      _ ≤ cum counts j' := cum_mono counts (by omega)
      _ ≤ _ := lerp_ge hab' hw'.1

/-- at (or beyond) the last edge the histogram ecdf is 1 -/
theorem ecdfHist_top {edges : List Rat} {counts : List Nat} (hl : HistLaws edges counts) {y : Rat}
    (h : edges.getD counts.length 0 ≤ y) : ecdfHist1 edges counts y = 1 := by
  have hk : 0 < counts.length := by
    rcases Nat.eq_zero_or_pos counts.length with h0 | h0
    · have : counts = [] := List.length_eq_zero_iff.mp h0
      have ht := hl.total; rw [this] at ht; simp at ht
    · exact h0
  have hlt : edges.getD 0 0 < edges.getD counts.length 0 := by
    have hlen := hl.len
    rw [getD_eq _ 0 (by omega), getD_eq _ counts.length (by omega)]
    exact (List.pairwise_iff_getElem.mp hl.incr) 0 counts.length (by omega) (by omega) hk
  unfold ecdfHist1
  simp only []
  rw [if_neg (by intro hh; linarith), if_pos h]

end Lemmas.Stats
