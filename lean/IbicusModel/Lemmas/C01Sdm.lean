/-
  Helper lemmas for C01 on `ScaledDistributionMapping` (absolute): interpolation of sorted cdf values onto their
  own length is the identity, sorting commutes with monotone maps, and the recurrence-interval scaling of step 5
  collapses when the model's future and historical cdf values coincide.
-/
import IbicusModel.Lemmas.C01
import IbicusModel.Lemmas.C01Isimip

namespace Lemmas.C01Sdm
open Model.Stats Model.Family Model.Debiasers Lemmas.Stats Lemmas.Family Lemmas.C03 Lemmas.C01

/-! ### `interp_sorted_cdf_vals_on_given_length(cdf_vals, len(cdf_vals))` is the identity -/

theorem linspace1n_getD {n : Nat} (hn : 2 ≤ n) {k : Nat} (hk : k < n) :
    (linspace 1 (n : Rat) n).getD k 0 = 1 + (k : Rat) := by
  have hn' : (2 : Rat) ≤ (n : Rat) := by exact_mod_cast hn
  have hd : (n : Rat) - 1 ≠ 0 := by intro h; linarith
  unfold linspace
  rw [if_neg (by omega), getD_eq _ k (by simpa using hk)]
  simp only [List.getElem_map, List.getElem_range]
  field_simp

theorem linspace1n_sorted_nodup {n : Nat} (hn : 2 ≤ n) :
    (linspace 1 (n : Rat) n).Pairwise (· ≤ ·) ∧ (linspace 1 (n : Rat) n).Nodup := by
  have hlen := linspace_length 1 (n : Rat) n
  have hlt : (linspace 1 (n : Rat) n).Pairwise (· < ·) := by
    rw [List.pairwise_iff_getElem]
    intro i j hi hj hij
    rw [hlen] at hi hj
    rw [← getD_eq _ i (by rwa [hlen]), ← getD_eq _ j (by rwa [hlen]), linspace1n_getD hn hi, linspace1n_getD hn hj]
    have : (i : Rat) < (j : Rat) := by exact_mod_cast hij
    linarith
  exact ⟨hlt.imp le_of_lt, hlt.imp ne_of_lt⟩

theorem interp1_at_knot {xp fp : List Rat} (hs : xp.Pairwise (· ≤ ·)) (hnd : xp.Nodup) (hl : fp.length = xp.length)
    {k : Nat} (hk : k < xp.length) : interp1 xp fp (xp.getD k 0) = fp.getD k 0 := by
  have hne : xp ≠ [] := by intro h; rw [h] at hk; simp at hk
  have hc := cnt_at_strict hs hnd hk
  by_cases hlt : k + 1 < xp.length
  · rw [interp1_interior hc hlt]
    simp [lerp]
  · rw [interp1_top' (by omega) hne]
    have : fp.length - 1 = k := by omega
    rw [this]

theorem interpOnLength_self (l : List Rat) : interpOnLength l l.length = l := by
  unfold interpOnLength interp
  by_cases hn : 2 ≤ l.length
  · obtain ⟨hs, hnd⟩ := linspace1n_sorted_nodup hn
    have hlen := linspace_length 1 (l.length : Rat) l.length
    apply List.ext_getElem
    · rw [List.length_map, hlen]
    · intro k h1 h2
      rw [List.getElem_map, ← getD_eq _ k (by rw [hlen]; exact h2),
        interp1_at_knot hs hnd (by rw [hlen]) (by rw [hlen]; exact h2), getD_eq l k h2]
  · match l, hn with
    | [], _ => simp [linspace]
    | [a], _ => simp [linspace, interp1, lastLE]
    | a :: b :: t, hn => simp at hn

/-! ### sorting commutes with monotone maps -/

theorem sortQ_map_mono (g : Rat → Rat) (hg : ∀ a b, a ≤ b → g a ≤ g b) (l : List Rat) :
    sortQ (l.map g) = (sortQ l).map g := by
  apply List.Perm.eq_of_pairwise (le := (· ≤ ·)) _ (sortQ_sorted _)
  · rw [List.pairwise_map]
    exact (sortQ_sorted l).imp (fun h => hg _ _ h)
  · exact (sortQ_perm _).trans ((sortQ_perm l).map g).symm
  · intro a b _ _ h1 h2; exact le_antisymm h1 h2

theorem takeIdx_map (l : List Rat) (g : Rat → Rat) (idx : List Nat) (h : ∀ i ∈ idx, i < l.length) :
    takeIdx (l.map g) idx = (takeIdx l idx).map g := by
  unfold takeIdx
  rw [List.map_map]
  apply List.map_congr_left
  intro i hi
  have hi' := h i hi
  simp only [Function.comp]
  rw [getD_eq _ i (by simpa using hi'), List.getElem_map, getD_eq l i hi']

/-! ### step 5 when the model's future and historical cdf values coincide -/

theorem sdmRecurrAbs_pos {c : Rat} (h0 : 0 < c) (h1 : c < 1) : 0 < sdmRecurrAbs c := by
  unfold sdmRecurrAbs
  apply one_div_pos.mpr
  rcases lt_or_ge (c - 1 / 2) 0 with h | h
  · rw [absQ_of_neg h]; linarith
  · rw [absQ_of_nonneg h]; linarith

/-- `ri_obs · ri_F / ri_H = ri_obs ≥ 2`, and the scaled cdf value is the observations' own cdf value -/
theorem sdmAbsCdfScaled_same {cO c : Rat} (hO0 : defaultCdfThreshold ≤ cO) (hO1 : cO ≤ 1 - defaultCdfThreshold)
    (hc0 : 0 < c) (hc1 : c < 1) : sdmAbsCdfScaled cO c c = cO := by
  have ht : (0 : Rat) < defaultCdfThreshold := by unfold defaultCdfThreshold; norm_num
  have hrc := sdmRecurrAbs_pos hc0 hc1
  have hrO := sdmRecurrAbs_pos (c := cO) (by linarith) (by linarith)
  unfold sdmAbsCdfScaled
  simp only []
  rw [mul_div_assoc, div_self (ne_of_gt hrc), mul_one]
  -- ri_obs ≥ 2
  have hden : 0 < 1 / 2 - Py.absQ (cO - 1 / 2) := by
    rcases lt_or_ge (cO - 1 / 2) 0 with h | h
    · rw [absQ_of_neg h]; linarith
    · rw [absQ_of_nonneg h]; linarith
  have hge : 1 ≤ sdmRecurrAbs cO := by
    unfold sdmRecurrAbs
    rw [le_div_iff₀ hden]
    have := absQ_nonneg (cO - 1 / 2)
    linarith
  rw [max_eq_right hge]
  have hinv : 1 / sdmRecurrAbs cO = 1 / 2 - Py.absQ (cO - 1 / 2) := by
    unfold sdmRecurrAbs; rw [one_div_one_div]
  rw [hinv]
  have hval : 1 / 2 + signQ (cO - 1 / 2) * Py.absQ (1 / 2 - (1 / 2 - Py.absQ (cO - 1 / 2))) = cO := by
    have e : 1 / 2 - (1 / 2 - Py.absQ (cO - 1 / 2)) = Py.absQ (cO - 1 / 2) := by ring
    rw [e, absQ_of_nonneg (absQ_nonneg _)]
    unfold signQ
    rcases lt_trichotomy (cO - 1 / 2) 0 with h | h | h
    · rw [if_pos h, absQ_of_neg h]; ring
    · rw [h]; simp [absQ_of_nonneg (le_refl (0 : Rat))]; linarith
    · rw [if_neg (not_lt.mpr (le_of_lt h)), if_pos h, absQ_of_nonneg (le_of_lt h)]; ring
  rw [hval]
  exact thresholdCdf_id _ _ hO0 hO1

/-! ### `zipWith` over lists of equal length -/

theorem zipWith_left_of_length {α β} (f : α → β → α) (hf : ∀ a b, f a b = a) :
    ∀ (l : List α) (m : List β), l.length = m.length → List.zipWith f l m = l
  | [], _, _ => by simp
  | a :: l, [], h => by simp at h
  | a :: l, b :: m, h => by
      have h' : l.length = m.length := by simpa using h
      simp [hf, zipWith_left_of_length f hf l m h']

theorem zipWith_map_left_of_length {α β γ} (f : α → β → γ) (g : α → γ) :
    ∀ (l : List α) (m : List β), l.length = m.length → (∀ a ∈ l, ∀ b ∈ m, f a b = g a) → List.zipWith f l m = l.map g
  | [], _, _, _ => by simp
  | a :: l, [], h, _ => by simp at h
  | a :: l, b :: m, h, hf => by
      have h' : l.length = m.length := by simpa using h
      simp only [List.zipWith_cons_cons, List.map_cons]
      rw [hf a List.mem_cons_self b List.mem_cons_self,
        zipWith_map_left_of_length f g l m h' (fun a' ha b' hb => hf a' (List.mem_cons_of_mem _ ha) b' (List.mem_cons_of_mem _ hb))]

/-! ### absolute SDM with `cm_future = cm_hist` at equal sample sizes -/

theorem interpOnLength_of_length (l : List Rat) (m : Nat) (h : m = l.length) : interpOnLength l m = l := by
  subst h; exact interpOnLength_self l

theorem zip_self_eq_map {α} (l : List α) : l.zip l = l.map (fun a => (a, a)) := by
  induction l with
  | nil => rfl
  | cons a t ih => simp [ih]

theorem cdf_mono {Fam : LocScaleFam} (L : LocScaleLaws Fam) (p : Rat × Rat) (hs : 0 < p.2) (a b : Rat) (h : a ≤ b) :
    Fam.cdf p a ≤ Fam.cdf p b := by
  rcases eq_or_lt_of_le h with h | h
  · rw [h]
  · exact le_of_lt (cdf_strictMono L p hs h)

theorem argsort_valid (l : List Rat) : ∀ i ∈ argsort l, i < l.length :=
  fun _ hi => List.mem_range.mp ((argsort_perm l).mem_iff.mp hi)

/-- the sorted, thresholded, interpolated cdf values of a sample under its own fit, at the sample's own length -/
theorem sdmAbsCdfIntpol_self {Fam : LocScaleFam} (L : LocScaleLaws Fam) (x : List Rat) (m : Nat) (hm : m = x.length)
    (hs : 0 < Fam.scale (detrendConst x))
    (hc : NoClip Fam defaultCdfThreshold (Fam.fit (detrendConst x)) (detrendConst x)) :
    sdmAbsCdfIntpol Fam x m = (sortQ (detrendConst x)).map (Fam.cdf (Fam.fit (detrendConst x))) := by
  unfold sdmAbsCdfIntpol
  simp only []
  rw [sortQ_map_mono _ (cdf_mono L (Fam.fit (detrendConst x)) hs), List.map_map]
  have hid : (sortQ (detrendConst x)).map (thresholdCdf defaultCdfThreshold ∘ Fam.cdf (Fam.fit (detrendConst x)))
      = (sortQ (detrendConst x)).map (Fam.cdf (Fam.fit (detrendConst x))) := by
    apply List.map_congr_left
    intro v hv
    obtain ⟨h0, h1⟩ := hc v ((sortQ_perm _).mem_iff.mp hv)
    simp only [Function.comp]
    exact thresholdCdf_id _ _ h0 h1
  rw [hid]
  apply interpOnLength_of_length
  rw [List.length_map, sortQ_length, hm]
  simp [detrendConst]

theorem sdmAbsCdfFut_eq {Fam : LocScaleFam} (x : List Rat)
    (hc : NoClip Fam defaultCdfThreshold (Fam.fit (detrendConst x)) (detrendConst x)) :
    sdmAbsCdfFut Fam x = (sortQ (detrendConst x)).map (Fam.cdf (Fam.fit (detrendConst x))) := by
  unfold sdmAbsCdfFut
  simp only []
  rw [takeIdx_map _ _ _ (argsort_valid _), Lemmas.IsimipModel.takeIdx_argsort, List.map_map]
  apply List.map_congr_left
  intro v hv
  obtain ⟨h0, h1⟩ := hc v ((sortQ_perm _).mem_iff.mp hv)
  simp only [Function.comp]
  exact thresholdCdf_id _ _ h0 h1

/-- **absolute SDM, `F = H`, `|obs| = |H|`, no clipping** (repaired code): the output is the detrended observations
    re-ordered like the (detrended) model, plus the observed mean -/
theorem sdmAbsolute_self {Fam : LocScaleFam} (L : LocScaleLaws Fam) (obs H : List Rat) (hlen : obs.length = H.length)
    (hso : 0 < Fam.scale (detrendConst obs)) (hsh : 0 < Fam.scale (detrendConst H))
    (hco : NoClip Fam defaultCdfThreshold (Fam.fit (detrendConst obs)) (detrendConst obs))
    (hch : NoClip Fam defaultCdfThreshold (Fam.fit (detrendConst H)) (detrendConst H)) :
    sdmAbsolute Fam obs H H = (sortLike (detrendConst obs) (detrendConst H)).map (fun b => b + mean obs) := by
  have hlo : (detrendConst obs).length = obs.length := by simp [detrendConst]
  have hlh : (detrendConst H).length = H.length := by simp [detrendConst]
  have hcO := sdmAbsCdfIntpol_self L obs H.length hlen.symm hso hco
  have hcH := sdmAbsCdfIntpol_self L H H.length rfl hsh hch
  have hcF := sdmAbsCdfFut_eq (Fam := Fam) H hch
  unfold sdmAbsolute sdmAbsoluteSorted
  simp only []
  rw [hcO, hcH, hcF]
  -- step 3: the scaling vanishes (same fit for the future and the historical model sample)
  have hscal : ((sortQ (detrendConst H)).map (Fam.cdf (Fam.fit (detrendConst H)))).map
      (fun c => (Fam.ppf (Fam.fit (detrendConst H)) c - Fam.ppf (Fam.fit (detrendConst H)) c) *
        (Fam.fit (detrendConst obs)).2 / (Fam.fit (detrendConst H)).2)
      = ((sortQ (detrendConst H)).map (Fam.cdf (Fam.fit (detrendConst H)))).map (fun _ => (0 : Rat)) := by
    apply List.map_congr_left
    intro c _
    simp
  rw [hscal]
  -- steps 4-5: the scaled cdf values are the observations' own
  have hscaled : List.zipWith (fun co (p : Rat × Rat) => sdmAbsCdfScaled co p.1 p.2)
      ((sortQ (detrendConst obs)).map (Fam.cdf (Fam.fit (detrendConst obs))))
      (((sortQ (detrendConst H)).map (Fam.cdf (Fam.fit (detrendConst H)))).zip
        ((sortQ (detrendConst H)).map (Fam.cdf (Fam.fit (detrendConst H)))))
      = (sortQ (detrendConst obs)).map (Fam.cdf (Fam.fit (detrendConst obs))) := by
    rw [zip_self_eq_map]
    have := zipWith_map_left_of_length (fun co (p : Rat × Rat) => sdmAbsCdfScaled co p.1 p.2) id
      ((sortQ (detrendConst obs)).map (Fam.cdf (Fam.fit (detrendConst obs))))
      (((sortQ (detrendConst H)).map (Fam.cdf (Fam.fit (detrendConst H)))).map (fun a => (a, a)))
      (by simp [sortQ_length, hlo, hlh, hlen])
      (by
        intro a ha b hb
        obtain ⟨v, hv, rfl⟩ := List.mem_map.mp ha
        obtain ⟨c, hc, rfl⟩ := List.mem_map.mp hb
        obtain ⟨w, _, rfl⟩ := List.mem_map.mp hc
        obtain ⟨h0, h1⟩ := hco v ((sortQ_perm _).mem_iff.mp hv)
        exact sdmAbsCdfScaled_same h0 h1 (L.G_pos _) (L.G_lt_one _))
    rw [this, List.map_id]
  rw [hscaled]
  -- step 6: ppf_obs of the observations' own cdf values
  have hbc : List.zipWith (fun cs sc => Fam.ppf (Fam.fit (detrendConst obs)) cs + sc)
      ((sortQ (detrendConst obs)).map (Fam.cdf (Fam.fit (detrendConst obs))))
      (((sortQ (detrendConst H)).map (Fam.cdf (Fam.fit (detrendConst H)))).map (fun _ => (0 : Rat)))
      = sortQ (detrendConst obs) := by
    rw [zipWith_map_left_of_length _ (Fam.ppf (Fam.fit (detrendConst obs))) _ _
      (by simp [sortQ_length, hlo, hlh, hlen])
      (by
        intro a _ b hb
        obtain ⟨_, _, rfl⟩ := List.mem_map.mp hb
        simp)]
    rw [List.map_map]
    apply map_eq_self
    intro v _
    simp only [Function.comp]
    exact ppf_cdf L (Fam.fit (detrendConst obs)) (ne_of_gt hso) v
  rw [hbc]
  -- step 7
  have htrend : subL H (detrendConst H) = H.map (fun _ => mean H) := by
    unfold subL detrendConst
    rw [List.zipWith_map_right, List.zipWith_self]
    apply List.map_congr_left
    intro x _
    ring
  rw [htrend]
  have hback : takeIdx (sortQ (detrendConst obs)) (rankOf (detrendConst H)) = sortLike (detrendConst obs) (detrendConst H) := rfl
  rw [hback]
  apply zipWith_map_left_of_length
  · rw [sortLike_length, hlh, List.length_map]
  · intro b _ tr htr
    obtain ⟨_, _, rfl⟩ := List.mem_map.mp htr
    ring

end Lemmas.C01Sdm
