/-
  Helper lemmas for the detailed pool model (chunking) and the instance-state model of the grid map (C05, C13).
-/
import IbicusModel.Lemmas.Grid

namespace Lemmas.GridState
open Model.Grid Lemmas.Grid

variable {α β σ ε : Type}

/-! ### chunks -/

theorem flatten_chunksAux (k : Nat) (hk : 1 ≤ k) :
    ∀ (fuel : Nat) (l : List β), l.length ≤ fuel → (chunksAux k fuel l).flatten = l
  | 0, l, h => by
    have : l = [] := List.length_eq_zero_iff.mp (by omega)
    subst this; rfl
  | fuel + 1, [], _ => rfl
  | fuel + 1, a :: l, h => by
    show ((a :: l).take k :: chunksAux k fuel ((a :: l).drop k)).flatten = a :: l
    rw [List.flatten_cons, flatten_chunksAux k hk fuel ((a :: l).drop k) (by
      rw [List.length_drop]; simp only [List.length_cons] at h ⊢; omega)]
    exact List.take_append_drop k (a :: l)

/-- the chunks, concatenated, are the argument list (chunk size ≥ 1) -/
theorem flatten_chunksOf (k : Nat) (hk : 1 ≤ k) (l : List β) : (chunksOf k l).flatten = l :=
  flatten_chunksAux k hk l.length l (Nat.le_refl _)

theorem mem_of_mem_chunk (k : Nat) (hk : 1 ≤ k) (l : List β) (ch : List β) (hch : ch ∈ chunksOf k l)
    (x : β) (hx : x ∈ ch) : x ∈ l := by
  rw [← flatten_chunksOf k hk l]
  exact List.mem_flatten.mpr ⟨ch, hch, hx⟩

theorem exists_chunk_of_mem (k : Nat) (hk : 1 ≤ k) (l : List β) (x : β) (hx : x ∈ l) :
    ∃ ch ∈ chunksOf k l, x ∈ ch := by
  rw [← flatten_chunksOf k hk l] at hx
  obtain ⟨ch, hch, hx⟩ := List.mem_flatten.mp hx
  exact ⟨ch, hch, hx⟩

theorem chunk_length_le (k : Nat) : ∀ (fuel : Nat) (l : List β), ∀ ch ∈ chunksAux k fuel l, ch.length ≤ k
  | 0, _, ch, h => by simp [chunksAux] at h
  | fuel + 1, [], ch, h => by simp [chunksAux] at h
  | fuel + 1, a :: l, ch, h => by
    simp only [chunksAux, List.mem_cons] at h
    rcases h with rfl | h
    · simp [List.length_take]; omega
    · exact chunk_length_le k fuel _ ch h

theorem defaultChunksize_pos (n p : Nat) (hn : 1 ≤ n) : 1 ≤ defaultChunksize n p := by
  unfold defaultChunksize
  have : n ≠ 0 := by omega
  simp only [this, if_false]
  split
  · rename_i h
    by_cases hp : p * 4 = 0
    · rw [hp, Nat.mod_zero] at h; omega
    · have hle : p * 4 ≤ n := Nat.le_of_dvd (by omega) (Nat.dvd_of_mod_eq_zero h)
      exact Nat.div_pos hle (by omega)
  · exact Nat.le_add_left 1 _

/-- at most four tasks per worker: every task is its own chunk -/
theorem defaultChunksize_small (n p : Nat) (hn : 1 ≤ n) (hnp : n ≤ p * 4) : defaultChunksize n p = 1 := by
  unfold defaultChunksize
  have : n ≠ 0 := by omega
  simp only [this, if_false]
  rcases Nat.lt_or_eq_of_le hnp with hlt | heq
  · have h1 : n % (p * 4) = n := Nat.mod_eq_of_lt hlt
    have h2 : n / (p * 4) = 0 := Nat.div_eq_of_lt hlt
    rw [h1, h2]; simp [this]
  · subst heq
    simp only [Nat.mod_self, if_true]
    exact Nat.div_self (by omega)

/-- `chunksize * (4 * processes)` covers all tasks -/
theorem defaultChunksize_covers (n p : Nat) (hp : 1 ≤ p) : n ≤ defaultChunksize n p * (p * 4) := by
  unfold defaultChunksize
  by_cases hn : n = 0
  · simp [hn]
  · simp only [hn, if_false]
    have := Nat.div_add_mod n (p * 4)
    have hlt : n % (p * 4) < p * 4 := Nat.mod_lt _ (by omega)
    split
    · rename_i h; rw [h] at this; rw [Nat.mul_comm]; omega
    · rw [Nat.add_mul, Nat.mul_comm (n / (p * 4))]; omega

/-! ### a chunk on a copy of an instance that does not change -/

theorem chunkTask_pure (f : StCell σ α ε) (hf : PureSt f) (fs : Bool) (s : σ) :
    ∀ (ch : List Cell), chunkTask f fs s ch = ch.mapM (fun c => runCatch fs (f s c).1)
  | [] => rfl
  | c :: cs => by
    unfold chunkTask
    rw [hf s c, chunkTask_pure f hf fs s cs, List.mapM_cons]
    cases runCatch fs (f s c).1 with
    | error e => rfl
    | ok r => cases List.mapM (fun c => runCatch fs (f s c).1) cs <;> rfl

theorem mapM_ok {γ δ E : Type} (g : γ → Except E δ) (r : γ → δ) :
    ∀ (l : List γ), (∀ x ∈ l, g x = .ok (r x)) → l.mapM g = .ok (l.map r)
  | [], _ => rfl
  | a :: l, h => by
    rw [List.mapM_cons, h a List.mem_cons_self, mapM_ok g r l (fun x hx => h x (List.mem_cons_of_mem _ hx))]
    rfl

theorem mapM_error {γ δ E : Type} (g : γ → Except E δ) :
    ∀ (l : List γ) (x : γ) (e : E), x ∈ l → g x = .error e → ∃ y ∈ l, ∃ e', g y = .error e' ∧ l.mapM g = .error e'
  | [], _, _, h, _ => by simp at h
  | a :: l, x, e, h, he => by
    rw [List.mapM_cons]
    cases ha : g a with
    | error e' => exact ⟨a, List.mem_cons_self, e', ha, rfl⟩
    | ok v =>
      rcases List.mem_cons.mp h with rfl | hm
      · rw [he] at ha; cases ha
      · obtain ⟨y, hy, e', hye, hm'⟩ := mapM_error g l x e hm he
        refine ⟨y, List.mem_cons_of_mem _ hy, e', hye, ?_⟩
        rw [hm']; rfl

/-! ### the write-back of a complete, argument-ordered result list is the serial run -/

theorem writeback_eq_serial (g : Cell → Except ε (List α)) (fs : Bool) (T nx ny : Nat)
    (hall : ∀ c ∈ pairIndices nx ny, ∃ x, runCatch fs (g c) = .ok x) :
    writeBack T nx ny ((pairIndices nx ny).map (resD g fs)) = applySerial g fs T nx ny := by
  unfold applySerial writeBack
  rw [foldlM_zip_map, ndindex_eq_pairIndices]
  apply foldlM_congr
  intro c hc s
  obtain ⟨x, hx⟩ := hall c hc
  unfold serialStep
  rw [hx, resD_of_ok hx]; rfl

/-- the stateless location function an instance in state `s0` stands for -/
def frozen (f : StCell σ α ε) (s0 : σ) : Cell → Except ε (List α) := fun c => (f s0 c).1

/-- **chunked pool, unchanged instance**: for every chunk size ≥ 1 and every completion order of the chunks the
    parallel run returns `(out, s0)` iff the serial run of the frozen location function returns `out` -/
theorem parallelSt_ok_iff (f : StCell σ α ε) (hf : PureSt f) (fs : Bool) (T nx ny : Nat) (s0 : σ) (k : Nat)
    (hk : 1 ≤ k) (sched : List Nat) (hs : Complete sched (chunksOf k (pairIndices nx ny)).length)
    (out : Arr3 (Elem α)) (s : σ) :
    applyParallelSt f fs T nx ny s0 k sched = .ok (out, s) ↔
      s = s0 ∧ applySerial (frozen f s0) fs T nx ny = .ok out := by
  have htask : ∀ ch, chunkTask f fs s0 ch = ch.mapM (fun c => runCatch fs (frozen f s0 c)) :=
    fun ch => chunkTask_pure f hf fs s0 ch
  by_cases hall : ∀ c ∈ pairIndices nx ny, ∃ x, runCatch fs (frozen f s0 c) = .ok x
  · have hchunks : ∀ ch ∈ chunksOf k (pairIndices nx ny),
        chunkTask f fs s0 ch = .ok (ch.map (resD (frozen f s0) fs)) := by
      intro ch hch
      rw [htask]
      apply mapM_ok
      intro c hc
      obtain ⟨x, hx⟩ := hall c (mem_of_mem_chunk k hk _ ch hch c hc)
      rw [hx, resD_of_ok hx]
    have hflat : ((chunksOf k (pairIndices nx ny)).map (fun (ch : List Cell) => ch.map (resD (frozen f s0) fs))).flatten =
        (pairIndices nx ny).map (resD (frozen f s0) fs) := by
      rw [← List.map_flatten, flatten_chunksOf k hk]
    unfold applyParallelSt
    rw [starmap_ok (chunkTask f fs s0) (fun (ch : List Cell) => ch.map (resD (frozen f s0) fs)) _ sched hs hchunks]
    simp only [hflat, writeback_eq_serial (frozen f s0) fs T nx ny hall]
    cases applySerial (frozen f s0) fs T nx ny with
    | error e =>
      constructor
      · intro h; cases h
      · rintro ⟨_, h⟩; cases h
    | ok o =>
      constructor
      · intro h
        have := Except.ok.inj h
        exact ⟨(Prod.mk.inj this).2.symm, by rw [(Prod.mk.inj this).1]⟩
      · rintro ⟨rfl, h⟩
        rw [Except.ok.inj h]
  · simp only [not_forall] at hall
    obtain ⟨c, hc, hne⟩ := hall
    cases hr : runCatch fs (frozen f s0 c) with
    | ok x => exact absurd ⟨x, hr⟩ hne
    | error e =>
      obtain ⟨ch, hch, hcch⟩ := exists_chunk_of_mem k hk _ c hc
      obtain ⟨_, _, e1, _, hm⟩ := mapM_error (fun c => runCatch fs (frozen f s0 c)) ch c e hcch hr
      obtain ⟨_, _, e2, _, hst⟩ := starmap_error (chunkTask f fs s0) (chunksOf k (pairIndices nx ny)) sched hs ch hch e1
        (by rw [htask]; exact hm)
      obtain ⟨e3, hser⟩ := serial_error_of_mem (frozen f s0) fs T nx ny c
        (by rw [ndindex_eq_pairIndices]; exact hc) e (cellCol_error_of_runCatch T hr)
      unfold applyParallelSt
      rw [hst, hser]
      constructor
      · intro h; cases h
      · rintro ⟨_, h⟩; cases h

/-- the parent's instance is never changed by a parallel run — whatever the location function does to its copy -/
theorem parallelSt_parent_state (f : StCell σ α ε) (fs : Bool) (T nx ny : Nat) (s0 : σ) (k : Nat) (sched : List Nat)
    (out : Arr3 (Elem α)) (s : σ) (h : applyParallelSt f fs T nx ny s0 k sched = .ok (out, s)) : s = s0 := by
  unfold applyParallelSt at h
  cases h1 : starmap (chunkTask f fs s0) (chunksOf k (pairIndices nx ny)) sched with
  | error e => rw [h1] at h; cases h
  | ok res =>
    rw [h1] at h
    simp only [] at h
    cases h2 : writeBack (ε := ε) T nx ny res.flatten with
    | error e => rw [h2] at h; cases h
    | ok o => rw [h2] at h; exact ((Prod.mk.inj (Except.ok.inj h)).2).symm

/-! ### the serial run on an instance that does not change -/

theorem foldlM_serialSt_pure (f : StCell σ α ε) (hf : PureSt f) (fs : Bool) (T nx ny : Nat) (s0 : σ) :
    ∀ (cells : List Cell) (out : Arr3 (Elem α)),
      cells.foldlM (serialStepSt f fs T nx ny) (out, s0) =
        (cells.foldlM (serialStep (frozen f s0) fs T nx ny) out).map (fun o => (o, s0))
  | [], _ => rfl
  | c :: cells, out => by
    rw [List.foldlM_cons, List.foldlM_cons]
    have h1 : serialStepSt f fs T nx ny (out, s0) c =
        (serialStep (frozen f s0) fs T nx ny out c).map (fun o => (o, s0)) := by
      unfold serialStepSt serialStep frozen
      simp only [hf s0 c]
      cases runCatch fs (f s0 c).1 with
      | error e => rfl
      | ok r =>
        show (match setColumn (ε := ε) T nx ny out c r with
          | .error e => Except.error e
          | .ok o => Except.ok (o, s0)) = Except.map (fun o => (o, s0)) (setColumn T nx ny out c r)
        cases setColumn (ε := ε) T nx ny out c r <;> rfl
    rw [h1]
    cases serialStep (frozen f s0) fs T nx ny out c with
    | error e => rfl
    | ok o => exact foldlM_serialSt_pure f hf fs T nx ny s0 cells o

theorem serialSt_pure (f : StCell σ α ε) (hf : PureSt f) (fs : Bool) (T nx ny : Nat) (s0 : σ) :
    applySerialSt f fs T nx ny s0 = (applySerial (frozen f s0) fs T nx ny).map (fun o => (o, s0)) :=
  foldlM_serialSt_pure f hf fs T nx ny s0 _ _

end Lemmas.GridState
