/-
  Helper lemmas for the loop DSL (`Model/Loops.lean`): boolean-mask indexing = fancy indexing by `np.where`,
  `get_mask_for_unique_subarray` is all-true on the index lists `np.where` returns, and `np.unique` in front of
  `_get_years_forming_window_centers` does not change the centres.
-/
import IbicusModel.Model.Loops
import IbicusModel.Lemmas.Windows
import IbicusModel.Lemmas.Perm
import IbicusModel.Lemmas.Evaluate
import Mathlib.Data.List.Basic

namespace Lemmas.Loops
open Model.Loops Model.Skeleton Model.Windows

/-! ### `x[mask] = x[np.where(mask)[0]]` -/

theorem whereTrue_cons (b : Bool) (m : List Bool) :
    Py.whereTrue (b :: m) = (if b then [0] else []) ++ (Py.whereTrue m).map (· + 1) := by
  unfold Py.whereTrue
  simp only [List.length_cons, List.range_succ_eq_map, List.filter_cons, List.filter_map]
  cases b <;> simp [Function.comp_def]

/-- boolean-mask indexing and fancy indexing by the positions of the `True`s select the same elements (also when the
    mask and the array differ in length: both stop at the shorter one) -/
theorem take_whereTrue {α} (x : List α) (m : List Bool) : take x (Py.whereTrue m) = Py.selectWhere x m := by
  induction m generalizing x with
  | nil => simp [Py.whereTrue, take, Py.selectWhere]
  | cons b m ih =>
    rw [whereTrue_cons]
    cases x with
    | nil => simp [take, Py.selectWhere]
    | cons a x =>
      have := ih x
      unfold take Py.selectWhere at *
      cases b <;> simp [List.filterMap_map, this]

/-! ### `get_mask_for_unique_subarray` on an index list without repetitions -/

theorem firstOccFrom_nodup (seen w : List Nat) (hs : ∀ x ∈ w, x ∉ seen) (hw : w.Nodup) :
    firstOccFrom seen w = w.map (fun _ => true) := by
  induction w generalizing seen with
  | nil => rfl
  | cons a w ih =>
    rw [List.nodup_cons] at hw
    simp only [firstOccFrom, List.map_cons]
    rw [ih (a :: seen) (by
      intro x hx hmem
      rcases List.mem_cons.mp hmem with h | h
      · subst h; exact hw.1 hx
      · exact hs x (List.mem_cons_of_mem _ hx) h) hw.2]
    simpa using hs a List.mem_cons_self

theorem whereTrue_nodup (m : List Bool) : (Py.whereTrue m).Nodup :=
  List.Nodup.filter _ List.nodup_range

theorem idxWindow_nodup (L : Int) (doy : List Int) (c : Int) : (idxWindow L doy c).Nodup := whereTrue_nodup _

/-- on an index list without repetitions (`np.where(...)[0]` always is one) the `unique` factor of
    `get_mask_vals_to_adjust_in_window` is all `True` -/
theorem maskOf_nodup (w : List Nat) (p : Nat → Bool) (hw : w.Nodup) :
    List.zipWith (fun x y => x && y) (w.map p) (uniqueMask w) = w.map p := by
  unfold uniqueMask
  rw [firstOccFrom_nodup [] w (by simp) hw]
  rw [List.zipWith_map_left, List.zipWith_map_right]
  simp

/-- and it is *not* vacuous: on a list with a repetition the factor removes the later occurrence -/
example : uniqueMask [3, 5, 3] = [true, true, false] := by decide

/-! ### `np.unique` in front of the year centres -/

theorem runs_values_mem' : ∀ (l : List Int) (v : Int), v ∈ l → v ∈ (Py.runs l).map (·.1)
  | [], v, h => by simp at h
  | a :: t, v, h => by
    cases t with
    | nil => rw [Lemmas.Evaluate.runs_singleton]; simpa using h
    | cons b t' =>
      obtain ⟨n, r, hr⟩ := Lemmas.Evaluate.runs_head b t'
      have ih := runs_values_mem' (b :: t') v
      rw [hr] at ih
      by_cases hab : a = b
      · subst hab
        rw [Lemmas.Evaluate.runs_cons_same a _ _ _ hr]
        simp only [List.map_cons, List.mem_cons] at h ih ⊢
        rcases h with h | h | h
        · exact Or.inl h
        · exact Or.inl h
        · exact ih (Or.inr h)
      · rw [Lemmas.Evaluate.runs_cons_diff a b _ _ _ hr hab]
        simp only [List.map_cons, List.mem_cons] at h ih ⊢
        rcases h with h | h | h
        · exact Or.inl h
        · exact Or.inr (ih (Or.inl h))
        · exact Or.inr (ih (Or.inr h))

theorem mem_uniqueSorted (l : List Int) (v : Int) : v ∈ Py.uniqueSorted l ↔ v ∈ l := by
  unfold Py.uniqueSorted
  constructor
  · intro h
    exact (List.mem_mergeSort).mp (Lemmas.Evaluate.runs_values_mem _ v h)
  · intro h
    exact runs_values_mem' _ v ((List.mem_mergeSort).mpr h)

theorem minL_congr (a b : List Int) (h : ∀ v, v ∈ a ↔ v ∈ b) : Py.minL a = Py.minL b := by
  by_cases ha : a = []
  · subst ha
    have : b = [] := List.eq_nil_iff_forall_not_mem.mpr (fun v hv => by simpa using (h v).mpr hv)
    rw [this]
  · have hb : b ≠ [] := by
      intro hb; subst hb
      exact ha (List.eq_nil_iff_forall_not_mem.mpr (fun v hv => by simpa using (h v).mp hv))
    apply le_antisymm
    · exact Lemmas.Windows.minL_le a _ ((h _).mpr (Lemmas.Perm.minL_mem b hb))
    · exact Lemmas.Windows.minL_le b _ ((h _).mp (Lemmas.Perm.minL_mem a ha))

theorem maxL_congr (a b : List Int) (h : ∀ v, v ∈ a ↔ v ∈ b) : Py.maxL a = Py.maxL b := by
  by_cases ha : a = []
  · subst ha
    have : b = [] := List.eq_nil_iff_forall_not_mem.mpr (fun v hv => by simpa using (h v).mpr hv)
    rw [this]
  · have hb : b ≠ [] := by
      intro hb; subst hb
      exact ha (List.eq_nil_iff_forall_not_mem.mpr (fun v hv => by simpa using (h v).mp hv))
    apply le_antisymm
    · exact Lemmas.Windows.le_maxL b _ ((h _).mp (Lemmas.Perm.maxL_mem a ha))
    · exact Lemmas.Windows.le_maxL a _ ((h _).mpr (Lemmas.Perm.maxL_mem b hb))

theorem isin_congr (x a b : List Int) (h : ∀ v, v ∈ a ↔ v ∈ b) : Py.isin x a = Py.isin x b := by
  unfold Py.isin
  apply List.map_congr_left
  intro v _
  simp [List.contains_eq_mem, h v]

/-- the centres depend on the *set* of years present only -/
theorem yearCenters_congr (S : Int) (a b : List Int) (h : ∀ v, v ∈ a ↔ v ∈ b) : yearCenters S a = yearCenters S b := by
  unfold yearCenters
  rw [minL_congr a b h, maxL_congr a b h]
  simp only [isin_congr _ a b h]

theorem yearCenters_unique (S : Int) (ys : List Int) : yearCenters S (Py.uniqueSorted ys) = yearCenters S ys :=
  yearCenters_congr S _ _ (mem_uniqueSorted ys)

end Lemmas.Loops
