/-
  C02 helper lemmas, part 1 (no dependency on the sorting toolkit): the element-wise shift `x ↦ x + c` and
  scaling `x ↦ k·x` of a sample, their effect on the mean, on `detrendConst`, and the location–scale family laws
  in shift form (`a = 1` case of `Lemmas.Family.fit_affine / cdf_affine / ppf_affine`).
-/
import IbicusModel.Model.Debiasers
import IbicusModel.Lemmas.Family

namespace Lemmas.C02
open Model.Stats Model.Family Model.Debiasers

/-! ### shift / scale as `affine` -/

theorem map_add_eq_affine (c : Rat) (xs : List Rat) : xs.map (fun x => x + c) = affine 1 c xs := by
  unfold affine
  apply List.map_congr_left
  intro x _
  ring

theorem map_mul_eq_affine (k : Rat) (xs : List Rat) : xs.map (fun x => k * x) = affine k 0 xs := by
  unfold affine
  apply List.map_congr_left
  intro x _
  ring

theorem map_ne_nil {α β} (f : α → β) {xs : List α} (h : xs ≠ []) : xs.map f ≠ [] := by
  simpa using h

/-! ### mean -/

theorem mean_shift (c : Rat) (xs : List Rat) (h : xs ≠ []) : mean (xs.map (fun x => x + c)) = mean xs + c := by
  rw [map_add_eq_affine, Lemmas.Family.mean_affine 1 c xs h]; ring

theorem mean_scale (k : Rat) (xs : List Rat) : mean (xs.map (fun x => k * x)) = k * mean xs := by
  unfold mean
  rw [Lemmas.Family.sum_map_mul, List.length_map]
  ring

/-- `x − mean x` forgets a shift -/
theorem detrendConst_shift (c : Rat) (xs : List Rat) (h : xs ≠ []) :
    detrendConst (xs.map (fun x => x + c)) = detrendConst xs := by
  unfold detrendConst
  rw [mean_shift c xs h, List.map_map]
  apply List.map_congr_left
  intro x _
  simp only [Function.comp]
  ring

/-- element-wise `(x + c) − d = (x − d) + c` on lists of equal length -/
theorem subL_shift_left (c : Rat) : ∀ (a b : List Rat),
    subL (a.map (fun x => x + c)) b = (subL a b).map (fun x => x + c)
  | [], _ => by simp [subL]
  | _ :: _, [] => by simp [subL]
  | x :: a, y :: b => by
      have ih := subL_shift_left c a b
      unfold subL at *
      simp only [List.map_cons, List.zipWith_cons_cons, ih]
      congr 1
      ring

/-! ### location–scale families: the shift case of the affine laws -/

section fam
variable {F : LocScaleFam} (L : LocScaleLaws F)
include L

theorem fit_shift (c : Rat) (xs : List Rat) (h : xs ≠ []) :
    F.fit (xs.map (fun x => x + c)) = ((F.fit xs).1 + c, (F.fit xs).2) := by
  rw [map_add_eq_affine, Lemmas.Family.fit_affine L 1 c xs one_pos h]
  unfold LocScaleFam.fit
  simp

omit L in
theorem cdf_shift (c : Rat) (p : Rat × Rat) (x : Rat) : F.cdf (p.1 + c, p.2) (x + c) = F.cdf p x := by
  have := Lemmas.Family.cdf_affine (F := F) 1 c p one_pos x
  simpa using this

omit L in
theorem ppf_shift (c : Rat) (p : Rat × Rat) (q : Rat) : F.ppf (p.1 + c, p.2) q = F.ppf p q + c := by
  have := Lemmas.Family.ppf_affine (F := F) 1 c p q
  simpa using this

end fam

/-! ### small list facts used by the property theorems -/

/-- mean of an element-wise map `x ↦ x − d` -/
theorem mean_map_sub (d : Rat) (xs : List Rat) (h : xs ≠ []) : mean (xs.map (fun x => x - d)) = mean xs - d := by
  have : xs.map (fun x => x - d) = xs.map (fun x => x + -d) := by
    apply List.map_congr_left; intro x _; ring
  rw [this, mean_shift (-d) xs h]; ring

theorem mean_map_mul_right (r : Rat) (xs : List Rat) : mean (xs.map (fun x => x * r)) = mean xs * r := by
  have : xs.map (fun x => x * r) = xs.map (fun x => r * x) := by
    apply List.map_congr_left; intro x _; ring
  rw [this, mean_scale]; ring

theorem zipWith_shift_right (g : Rat → Rat → Rat) (c : Rat) (hg : ∀ b t, g b (t + c) = g b t + c) :
    ∀ (bs ts : List Rat), List.zipWith g bs (ts.map (fun x => x + c)) = (List.zipWith g bs ts).map (fun x => x + c)
  | [], _ => by simp
  | _ :: _, [] => by simp
  | b :: bs, t :: ts => by
      simp only [List.map_cons, List.zipWith_cons_cons, hg, zipWith_shift_right g c hg bs ts]

theorem zipWith_add_sub_cancel : ∀ (x t : List Rat), x.length = t.length →
    List.zipWith (· - ·) (List.zipWith (· + ·) x t) x = t
  | [], [], _ => rfl
  | a :: x, b :: t, h => by
      have h' : x.length = t.length := by simpa using h
      simp only [List.zipWith_cons_cons, zipWith_add_sub_cancel x t h']
      congr 1
      ring
  | [], _ :: _, h => by simp at h
  | _ :: _, [], h => by simp at h

theorem zipWith_sub_self : ∀ (x : List Rat), List.zipWith (· - ·) x x = x.map (fun _ => 0)
  | [] => rfl
  | a :: x => by simp only [List.zipWith_cons_cons, List.map_cons, zipWith_sub_self x, sub_self]


end Lemmas.C02
