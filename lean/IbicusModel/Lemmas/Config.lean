/-
  Helper lemmas for C15: dictionary merge, and the closed form of `__attrs_post_init__` (`derive`) for rule lists
  whose rules only validate or rebuild non-field attributes ("pure"), from which idempotence and
  "assign then apply = construct then apply" follow.
-/
import IbicusModel.Model.Config
import Mathlib.Tactic.Linarith

namespace Lemmas.Config
open Model.Config

/-! #### `{**a, **b}` -/

theorem getKV_setKV_eq {α} (a : List (String × α)) (k : String) (v : α) : getKV (setKV a k v) k = some v := by
  induction a with
  | nil => simp [setKV, getKV]
  | cons p t ih =>
    obtain ⟨k', v'⟩ := p
    by_cases h : k' = k <;> simp [setKV, getKV, h, ih]

theorem getKV_setKV_ne {α} (a : List (String × α)) (k k2 : String) (v : α) (h : k2 ≠ k) :
    getKV (setKV a k v) k2 = getKV a k2 := by
  induction a with
  | nil => simp [setKV, getKV, Ne.symm h]
  | cons p t ih =>
    obtain ⟨k', v'⟩ := p
    by_cases h1 : k' = k
    · subst h1
      simp [setKV, getKV, Ne.symm h]
    · by_cases h2 : k' = k2
      · subst h2; simp [setKV, getKV, h1]
      · simp [setKV, getKV, h1, h2, ih]

/-- a key of `b` whose later occurrences do not rebind it wins over `a` -/
theorem getKV_merge {α} (a b : List (String × α)) (k : String) (v : α)
    (hmem : (k, v) ∈ b) (huniq : ∀ v', (k, v') ∈ b → v' = v) : getKV (merge a b) k = some v := by
  unfold merge
  induction b generalizing a with
  | nil => cases hmem
  | cons p t ih =>
    obtain ⟨k', v'⟩ := p
    simp only [List.foldl_cons]
    by_cases hin : (k, v) ∈ t
    · exact ih _ hin (fun w hw => huniq w (List.mem_cons_of_mem _ hw))
    · have hp : (k', v') = (k, v) := by
        rcases List.mem_cons.mp hmem with h | h
        · exact h.symm
        · exact absurd h hin
      obtain ⟨rfl, rfl⟩ := Prod.mk.inj hp
      -- no later binding of k' at all
      have hno : ∀ w, (k', w) ∉ t := by
        intro w hw
        have := huniq w (List.mem_cons_of_mem _ hw)
        subst this
        exact hin hw
      clear ih hmem huniq hin
      generalize hs : setKV a k' v' = s
      have hg : getKV s k' = some v' := by rw [← hs]; exact getKV_setKV_eq _ _ _
      clear hs
      induction t generalizing s with
      | nil => exact hg
      | cons q t' ih2 =>
        obtain ⟨k2, v2⟩ := q
        simp only [List.foldl_cons]
        apply ih2
        · intro w hw; exact hno w (List.mem_cons_of_mem _ hw)
        · have hne : k' ≠ k2 := by
            intro e; subst e
            exact hno v2 List.mem_cons_self
          rw [getKV_setKV_ne _ _ _ _ hne]; exact hg

/-! #### closed form of `derive` -/

def checkAll : List Rule → List (String × Val) → Except String Unit
  | [], _ => .ok ()
  | r :: rs, f => match checkRule r f with
      | .error e => .error e
      | .ok () => checkAll rs f

/-- the value the last active `build` rule for attribute `t` gives it -/
def lastBuilt : List Rule → List (String × Val) → String → Option Built
  | [], _, _ => none
  | r :: rs, f, t => match lastBuilt rs f t with
      | some v => some v
      | none => match r with
          | .build target flag sources cls => if get f flag = .b true ∧ t = target then some ⟨cls, sources.map (get f)⟩ else none
          | _ => none

def closed (rs : List Rule) (f : List (String × Val)) (e : String → Option Built) : String → Option Built :=
  fun t => match lastBuilt rs f t with
    | some v => some v
    | none => e t

theorem derive_pure (rs : List Rule) (hp : rs.all Rule.isPure = true) (f : List (String × Val)) (e : String → Option Built) :
    derive rs ⟨f, e⟩ = (match checkAll rs f with
      | .error x => .error x
      | .ok () => .ok ⟨f, closed rs f e⟩) := by
  induction rs generalizing e with
  | nil => rfl
  | cons r rs ih =>
    simp only [List.all_cons, Bool.and_eq_true] at hp
    obtain ⟨hr, hrs⟩ := hp
    simp only [derive, checkAll, deriveStep]
    cases hc : checkRule r f with
    | error x => rfl
    | ok u =>
      cases r with
      | fillNone t a b => simp [Rule.isPure] at hr
      | raiseIfGt a b =>
        simp only []
        rw [ih hrs]
        have hcl : closed rs f e = closed (Rule.raiseIfGt a b :: rs) f e := by
          funext t
          cases hl : lastBuilt rs f t <;> simp [closed, lastBuilt, hl]
        rw [hcl]
      | raiseIfNoneAndNot a b =>
        simp only []
        rw [ih hrs]
        have hcl : closed rs f e = closed (Rule.raiseIfNoneAndNot a b :: rs) f e := by
          funext t
          cases hl : lastBuilt rs f t <;> simp [closed, lastBuilt, hl]
        rw [hcl]
      | build target flag sources cls =>
        simp only []
        by_cases hf : get f flag = .b true
        · simp only [hf, if_true]
          rw [ih hrs]
          have hcl : closed rs f (setExtra e target ⟨cls, sources.map (get f)⟩) = closed (Rule.build target flag sources cls :: rs) f e := by
            funext t
            cases hl : lastBuilt rs f t with
            | some v => simp [closed, lastBuilt, hl]
            | none =>
              by_cases ht : t = target
              · subst ht; simp [closed, lastBuilt, hl, setExtra, hf]
              · simp [closed, lastBuilt, hl, setExtra, hf, ht]
          rw [hcl]
        · simp only [hf, if_false]
          rw [ih hrs]
          have hcl : closed rs f e = closed (Rule.build target flag sources cls :: rs) f e := by
            funext t
            cases hl : lastBuilt rs f t <;> simp [closed, lastBuilt, hl, hf]
          rw [hcl]

theorem lastBuilt_active (rs : List Rule) (f : List (String × Val)) (target flag : String) (sources : List String) (cls : String)
    (hm : Rule.build target flag sources cls ∈ rs) (hf : get f flag = .b true) : ∃ v, lastBuilt rs f target = some v := by
  induction rs with
  | nil => cases hm
  | cons r rs ih =>
    simp only [lastBuilt]
    cases hl : lastBuilt rs f target with
    | some v => exact ⟨v, rfl⟩
    | none =>
      rcases List.mem_cons.mp hm with h | h
      · subst h
        simp [hf]
      · obtain ⟨v, hv⟩ := ih h
        rw [hl] at hv; cases hv

/-- the active derived attributes of a freshly derived instance do not depend on what was there before -/
theorem activeExtra_closed (rs rs' : List Rule) (hsub : ∀ r ∈ rs', r ∈ rs) (f : List (String × Val)) (e e' : String → Option Built) :
    activeExtra rs' ⟨f, closed rs f e⟩ = activeExtra rs' ⟨f, closed rs f e'⟩ := by
  induction rs' with
  | nil => rfl
  | cons r rs' ih =>
    have ih' := ih (fun r' hr' => hsub r' (List.mem_cons_of_mem _ hr'))
    cases r with
    | build target flag sources cls =>
      simp only [activeExtra]
      by_cases hf : get f flag = .b true
      · simp only [hf, if_true]
        obtain ⟨v, hv⟩ := lastBuilt_active rs f target flag sources cls (hsub _ List.mem_cons_self) hf
        have h1 : closed rs f e target = some v := by simp [closed, hv]
        have h2 : closed rs f e' target = some v := by simp [closed, hv]
        simp only [h1, h2, ih']
      · simp only [hf, if_false]
        exact ih'
    | raiseIfGt a b => simpa only [activeExtra] using ih'
    | fillNone t a b => simpa only [activeExtra] using ih'
    | raiseIfNoneAndNot a b => simpa only [activeExtra] using ih'

theorem closed_closed (rs : List Rule) (f : List (String × Val)) (e : String → Option Built) :
    closed rs f (closed rs f e) = closed rs f e := by
  funext t
  simp only [closed]
  cases lastBuilt rs f t <;> rfl

/-! #### rules that fill a `None` field: inert once the field is given -/

/-- every "fill if None" rule of `rs` finds its field already given in `f` -/
def Settled (rs : List Rule) (f : List (String × Val)) : Prop :=
  ∀ t a b, Rule.fillNone t a b ∈ rs → get f t ≠ .none

theorem settled_of_pure (rs : List Rule) (hp : rs.all Rule.isPure = true) (f : List (String × Val)) : Settled rs f := by
  intro t a b hm
  have := List.all_eq_true.mp hp _ hm
  simp [Rule.isPure] at this

def pureOf (rs : List Rule) : List Rule := rs.filter Rule.isPure

theorem pureOf_pure (rs : List Rule) : (pureOf rs).all Rule.isPure = true := by
  simp [pureOf, List.all_eq_true]

theorem deriveStep_pure_fields (r : Rule) (hr : r.isPure = true) (i j : Inst) (h : deriveStep r i = .ok j) : j.fields = i.fields := by
  unfold deriveStep at h
  cases hc : checkRule r i.fields with
  | error x => rw [hc] at h; cases h
  | ok u =>
    rw [hc] at h
    cases r with
    | fillNone t a b => simp [Rule.isPure] at hr
    | raiseIfGt a b => simp only [Except.ok.injEq] at h; rw [← h]
    | raiseIfNoneAndNot a b => simp only [Except.ok.injEq] at h; rw [← h]
    | build target flag sources cls =>
      simp only [] at h
      split at h <;> simp only [Except.ok.injEq] at h <;> rw [← h]

theorem derive_settled (rs : List Rule) (f : List (String × Val)) (e : String → Option Built) (hs : Settled rs f) :
    derive rs ⟨f, e⟩ = derive (pureOf rs) ⟨f, e⟩ := by
  induction rs generalizing e with
  | nil => rfl
  | cons r rs ih =>
    have hs' : Settled rs f := fun t a b hm => hs t a b (List.mem_cons_of_mem _ hm)
    cases hr : r.isPure with
    | true =>
      have : pureOf (r :: rs) = r :: pureOf rs := by simp [pureOf, hr]
      rw [this]
      simp only [derive]
      cases hd : deriveStep r ⟨f, e⟩ with
      | error x => rfl
      | ok j =>
        have hj := deriveStep_pure_fields r hr _ _ hd
        obtain ⟨jf, je⟩ := j
        simp only [] at hj
        subst hj
        exact ih je hs'
    | false =>
      have : pureOf (r :: rs) = pureOf rs := by simp [pureOf, hr]
      rw [this]
      cases r with
      | fillNone t a b =>
        have hne := hs t a b List.mem_cons_self
        have : deriveStep (.fillNone t a b) ⟨f, e⟩ = .ok ⟨f, e⟩ := by
          unfold deriveStep checkRule
          simp only []
          cases hg : get f t <;> simp_all
        simp only [derive, this]
        exact ih e hs'
      | raiseIfGt a b => simp [Rule.isPure] at hr
      | raiseIfNoneAndNot a b => simp [Rule.isPure] at hr
      | build target flag sources cls => simp [Rule.isPure] at hr

theorem activeExtra_pureOf (rs : List Rule) (i : Inst) : activeExtra rs i = activeExtra (pureOf rs) i := by
  induction rs with
  | nil => rfl
  | cons r rs ih =>
    cases r with
    | fillNone t a b =>
      have : pureOf (Rule.fillNone t a b :: rs) = pureOf rs := by simp [pureOf, Rule.isPure]
      rw [this]; simpa only [activeExtra] using ih
    | raiseIfGt a b =>
      have : pureOf (Rule.raiseIfGt a b :: rs) = Rule.raiseIfGt a b :: pureOf rs := rfl
      rw [this]; simpa only [activeExtra] using ih
    | raiseIfNoneAndNot a b =>
      have : pureOf (Rule.raiseIfNoneAndNot a b :: rs) = Rule.raiseIfNoneAndNot a b :: pureOf rs := rfl
      rw [this]; simpa only [activeExtra] using ih
    | build target flag sources cls =>
      have : pureOf (Rule.build target flag sources cls :: rs) = Rule.build target flag sources cls :: pureOf rs := rfl
      rw [this]
      simp only [activeExtra, ih]

/-- **closed form of `apply` (re-deriving) on a settled instance**: it depends on the fields only -/
theorem derive_view (rs : List Rule) (f : List (String × Val)) (e : String → Option Built) (hs : Settled rs f) :
    applyView rs true ⟨f, e⟩ =
    (match checkAll (pureOf rs) f with
      | .error x => (.error x : Except String View)
      | .ok () => view (pureOf rs) ⟨f, closed (pureOf rs) f noExtra⟩) := by
  unfold applyView
  simp only [if_true]
  rw [derive_settled rs f e hs, derive_pure _ (pureOf_pure rs)]
  cases checkAll (pureOf rs) f with
  | error x => rfl
  | ok u =>
    simp only [view, activeExtra_pureOf rs]
    rw [activeExtra_closed (pureOf rs) (pureOf rs) (fun _ h => h) f e noExtra]

theorem derive_fields (rs : List Rule) (f : List (String × Val)) (e : String → Option Built) (hs : Settled rs f) (j : Inst)
    (h : derive rs ⟨f, e⟩ = .ok j) : j.fields = f ∧ j.extra = closed (pureOf rs) f e := by
  rw [derive_settled rs f e hs, derive_pure _ (pureOf_pure rs)] at h
  cases hc : checkAll (pureOf rs) f with
  | error x => rw [hc] at h; cases h
  | ok u =>
    rw [hc] at h
    simp only [Except.ok.injEq] at h
    rw [← h]
    exact ⟨rfl, rfl⟩

theorem firstFailure_of_mem (vs : List Validator) (y : Val) (v : Validator) (e : String)
    (hv : v ∈ vs) (he : checkVal v y = some e) : ∃ e', firstFailure vs y = some e' := by
  induction vs with
  | nil => cases hv
  | cons w t ih =>
    simp only [firstFailure]
    cases hw : checkVal w y with
    | some e2 => exact ⟨e2, rfl⟩
    | none =>
      rcases List.mem_cons.mp hv with h | h
      · subst h; rw [he] at hw; cases hw
      · exact ih h

theorem getKV_merge_not_key {α} (a b : List (String × α)) (k : String) (h : hasKey b k = false) :
    getKV (merge a b) k = getKV a k := by
  unfold merge
  induction b generalizing a with
  | nil => rfl
  | cons p t ih =>
    obtain ⟨k', v'⟩ := p
    simp only [hasKey, List.any_cons, Bool.or_eq_false_iff, beq_eq_false_iff_ne, ne_eq] at h
    simp only [List.foldl_cons]
    rw [ih _ (by simpa [hasKey] using h.2)]
    exact getKV_setKV_ne _ _ _ _ (fun e => h.1 e.symm)

theorem checkAll_error_of_mem (rs : List Rule) (f : List (String × Val)) (r : Rule) (x : String)
    (hm : r ∈ rs) (hc : checkRule r f = .error x) : ∃ y, checkAll rs f = .error y := by
  induction rs with
  | nil => cases hm
  | cons r' t ih =>
    simp only [checkAll]
    cases h' : checkRule r' f with
    | error y => exact ⟨y, rfl⟩
    | ok u =>
      rcases List.mem_cons.mp hm with h | h
      · subst h; rw [hc] at h'; cases h'
      · exact ih h

theorem derive_pure_error_of_mem (rs : List Rule) (hp : rs.all Rule.isPure = true) (f : List (String × Val)) (e : String → Option Built)
    (r : Rule) (x : String) (hm : r ∈ rs) (hc : checkRule r f = .error x) : ∃ y, derive rs ⟨f, e⟩ = .error y := by
  obtain ⟨y, hy⟩ := checkAll_error_of_mem rs f r x hm hc
  exact ⟨y, by rw [derive_pure rs hp, hy]⟩

theorem derive_append (a b : List Rule) (i : Inst) :
    derive (a ++ b) i = (match derive a i with | .error x => .error x | .ok j => derive b j) := by
  induction a generalizing i with
  | nil => rfl
  | cons r t ih =>
    simp only [List.cons_append, derive]
    cases deriveStep r i with
    | error x => rfl
    | ok j => exact ih j

theorem runOps_fields (rs : List Rule) (hp : rs.all Rule.isPure = true) (ops : List Op) (f : List (String × Val)) (e : String → Option Built)
    (j : Inst) (h : runOps rs ⟨f, e⟩ ops = .ok j) : j.fields = fieldsAfter f ops := by
  induction ops generalizing f e with
  | nil => simp only [runOps, Except.ok.injEq] at h; rw [← h]; rfl
  | cons o os ih =>
    cases o with
    | assign k v =>
      simp only [runOps, stepOp, assign] at h
      exact ih _ _ h
    | apply =>
      simp only [runOps, stepOp] at h
      cases hd : derive rs ⟨f, e⟩ with
      | error x => rw [hd] at h; cases h
      | ok i1 =>
        rw [hd] at h
        obtain ⟨hf, _⟩ := derive_fields rs f e (settled_of_pure rs hp f) i1 hd
        obtain ⟨f1, e1⟩ := i1
        simp only [] at hf
        subst hf
        exact ih _ _ h

theorem validateAll_error_of_mem (fs : List Field) (args : List (String × Val)) (f : Field) (x : Val) (e : String)
    (hm : f ∈ fs) (hx : getKV args f.name = some x) (he : checkField f x = .error e) : ∃ e', validateAll fs args = .error e' := by
  induction fs with
  | nil => cases hm
  | cons g t ih =>
    simp only [validateAll]
    cases hg : getKV args g.name with
    | none => exact ⟨_, rfl⟩
    | some y =>
      simp only []
      cases hc : checkField g y with
      | error e2 => exact ⟨e2, rfl⟩
      | ok z =>
        simp only []
        rcases List.mem_cons.mp hm with h | h
        · subst h; rw [hx] at hg; cases hg; rw [he] at hc; cases hc
        · obtain ⟨e', h'⟩ := ih h
          rw [h']; exact ⟨e', rfl⟩

end Lemmas.Config

deriving instance DecidableEq for Except
