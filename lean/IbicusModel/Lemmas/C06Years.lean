/-
  C06 helper lemmas, part 3: CDFt / QDM with BOTH the seasonal running window and the running window over the years
  of the future period.  The seasonal window function then runs the year loop (`Skeleton.applyYears`) on the window's
  future sample; time inside the window matters, so the element type is `Rat × Int` (value, year).
  `yearsWinFn_pointwise`: for a per-year-window function that is pointwise over an order-free context, the composite
  window function is pointwise over an order-free context of dated pairs — so `Props.C06.equivariance_RW` applies.
-/
import IbicusModel.Lemmas.Years
import IbicusModel.Lemmas.Perm
import IbicusModel.Props.C06
import IbicusModel.Model.Debiasers

namespace Lemmas.C06
open Model.Skeleton Model.Windows Lemmas.Windows Lemmas.Skeleton Lemmas.Pointwise Lemmas.Years Lemmas.Perm

/-- a dated value: (value, year) -/
abbrev Dated := Rat × Int

/-- every entry of a result buffer was written (`none` = a step the loop never assigned) -/
def allSome {α} : List (Option α) → Option (List α)
  | [] => some []
  | none :: _ => none
  | some a :: t => (allSome t).map (a :: ·)

theorem allSome_map_some {α} (l : List α) : allSome (l.map some) = some l := by
  induction l with
  | nil => rfl
  | cons a t ih => simp [allSome, ih]

/-- **the seasonal window function of CDFt / QDM with year windows**: `apply_on_window` loops over the year windows of
    the window's future sample; `g obs cm_hist` is the per-year-window function (`_apply_debiasing_steps`).  A step the
    year loop leaves unassigned is reported as an error (it never happens: `yearsWinFn_pointwise`, C07). -/
def yearsWinFn (g : List Rat → List Rat → YearFn Rat) (YL YS : Int) : WinFn Dated :=
  fun o h x _ _ _ =>
    match applyYears (g (o.map Prod.fst) (h.map Prod.fst)) YL YS (x.map Prod.snd) (x.map Prod.fst) with
    | .error e => .error e
    | .ok out =>
      match allSome out with
      | none => .error "unassigned"
      | some vals => .ok (vals.zip (x.map Prod.snd))

/-- the future values of the year window centred at `c` -/
def yearSample (YL : Int) (x : List Dated) (c : Int) : List Rat :=
  (x.filter (fun p => (yearsInWindow YL c).contains p.2)).map Prod.fst

/-- the context map of the composite: the year-window centre is found from the year of the step, the sample of that
    year window is a filter of the dated sample -/
def yearCtx (G : List Rat → List Rat → List Rat → Rat → Rat) (YL YS : Int) (o h x : List Dated) (a : Dated) : Dated :=
  match (yearCenters YS (x.map Prod.snd)).find? (fun c => inBlock YS c a.2) with
  | some c => (G (o.map Prod.fst) (h.map Prod.fst) (yearSample YL x c) a.1, a.2)
  | none => a

theorem yearCtx_snd (G : List Rat → List Rat → List Rat → Rat → Rat) (YL YS : Int) (o h x : List Dated) (a : Dated) :
    (yearCtx G YL YS o h x a).2 = a.2 := by
  unfold yearCtx
  split <;> rfl

theorem find?_of_filter_singleton {α} (p : α → Bool) (l : List α) (c : α) (h : l.filter p = [c]) :
    l.find? p = some c := by
  induction l with
  | nil => simp at h
  | cons a t ih =>
    rw [List.filter_cons] at h
    rw [List.find?_cons]
    by_cases hp : p a = true
    · rw [if_pos hp] at h
      rw [hp]
      exact congrArg some (List.cons.inj h).1
    · have hp' : p a = false := by simpa using hp
      rw [if_neg hp] at h
      rw [hp']
      exact ih h

theorem zip_map_fst_snd {α β} (x : List (α × β)) : (x.map Prod.fst).zip (x.map Prod.snd) = x := by
  induction x with
  | nil => rfl
  | cons a t ih => simp [ih]

/-- the year-window sample of the loop is the filter of the dated sample -/
theorem take_year_sample (YL : Int) (x : List Dated) (c : Int) :
    take (x.map Prod.fst) (indicesIn (x.map Prod.snd) (yearsInWindow YL c)) = yearSample YL x c := by
  rw [take_indicesIn_eq_zip_filter _ _ _ (by simp), zip_map_fst_snd]
  rfl

/-- **the composite window function is pointwise** (for per-year-window functions that are) -/
theorem yearsWinFn_pointwise (g : List Rat → List Rat → YearFn Rat) (G : List Rat → List Rat → List Rat → Rat → Rat)
    (hg : ∀ o h, PointwiseY (g o h) (G o h)) (YL YS hY : Int) (hS : YS = 2 * hY + 1) (hh : 0 ≤ hY) (hSL : YS ≤ YL) :
    PointwiseOn (yearsWinFn g YL YS) (yearCtx G YL YS) := by
  intro o h x io ih ix
  have hlen : (x.map Prod.snd).length = (x.map Prod.fst).length := by simp
  obtain ⟨out, hrun, hl, hval⟩ := applyYears_value (g (o.map Prod.fst) (h.map Prod.fst)) (G (o.map Prod.fst) (h.map Prod.fst))
    (hg _ _) YL YS hY (x.map Prod.snd) (x.map Prod.fst) hS hh hSL hlen
  have hout : out = (x.map (fun a => (yearCtx G YL YS o h x a).1)).map some := by
    apply List.ext_getElem?
    intro i
    by_cases hi : i < x.length
    · have hiy : i < (x.map Prod.snd).length := by simpa using hi
      have hif : i < (x.map Prod.fst).length := by simpa using hi
      obtain ⟨c, hc⟩ := Props.C07.years_cover_unique YS hY (x.map Prod.snd) (x.map Prod.snd)[i] hS hh (List.getElem_mem hiy)
      have hcm : c ∈ (yearCenters YS (x.map Prod.snd)).filter (fun c => inBlock YS c (x.map Prod.snd)[i]) := by
        rw [hc]; exact List.mem_singleton.mpr rfl
      obtain ⟨hc1, hc2⟩ := List.mem_filter.mp hcm
      have hic : i ∈ indicesIn (x.map Prod.snd) (yearsAdjusted YS c) :=
        (mem_indicesIn _ _ _).mpr ⟨hiy, (Props.C07.mem_yearsAdjusted YS c _).mpr hc2⟩
      rw [hval i hif c hc1 hic, take_year_sample]
      have hfind := find?_of_filter_singleton _ _ c hc
      simp only [List.getElem_map] at hfind
      simp only [List.map_map, List.getElem?_map, List.getElem?_eq_getElem hi, Option.map_some, Function.comp]
      unfold yearCtx
      rw [hfind]
      simp only [List.getElem_map]
    · have h1 : out.length ≤ i := by rw [hl]; simpa using hi
      rw [List.getElem?_eq_none h1, List.getElem?_eq_none (by simpa using hi)]
  unfold yearsWinFn
  rw [hrun]
  simp only [hout, allSome_map_some]
  congr 1
  apply List.ext_getElem
  · simp
  · intro i h1 h2
    have hi : i < x.length := by simpa using h2
    simp only [List.getElem_zip, List.getElem_map]
    exact Prod.ext rfl (yearCtx_snd G YL YS o h x x[i]).symm

/-- **… over an order-free context of dated pairs** -/
theorem yearCtx_orderFree (G : List Rat → List Rat → List Rat → Rat → Rat) (YL YS : Int)
    (hG : ∀ o o' h h' x x' : List Rat, o.Perm o' → h.Perm h' → x.Perm x' → G o h x = G o' h' x')
    (o o' h h' x x' : List Dated) (ho : o.Perm o') (hh : h.Perm h') (hx : x.Perm x') :
    yearCtx G YL YS o h x = yearCtx G YL YS o' h' x' := by
  funext a
  unfold yearCtx yearSample
  rw [Props.C06.yearCenters_perm YS _ _ (hx.map Prod.snd)]
  cases (yearCenters YS (x'.map Prod.snd)).find? (fun c => inBlock YS c a.2) with
  | none => rfl
  | some c =>
    simp only []
    rw [hG _ _ _ _ _ _ (ho.map Prod.fst) (hh.map Prod.fst) ((hx.filter _).map Prod.fst)]

end Lemmas.C06
