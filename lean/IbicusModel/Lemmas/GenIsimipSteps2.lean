/-
  Tier A proof obligations for the ISIMIP steps, part 2 (C10 rsds / C06 step 1 & 8): the list-level definitions
  regenerated from /repo's current `ibicus/debias/_isimip.py` by `translator/extract_isimip_steps.py` for
  `_step1_scale_by_annual_cycle_of_upper_bounds`, `_step8_rescale_by_annual_cycle_of_upper_bounds`,
  `_step1_calculate_debiased_annual_cycle_of_upper_bounds` (both branches) and `_step1_get_annual_cycle_of_upper_bounds`
  equal the definitions of `Model/Isimip.lean` (`scaleByCycle`, the body of `step8`, `debiasedCycle`, `annualCycle`) on which
  `Props.C10.rsds_step8/cycle/location_nonneg` and the C06 step-1/8 equivariance lemmas (`Lemmas/C06Cycle.lean`) are stated.

  The generated code speaks numpy (`PyElem.getIdx`: integer indexing with negative wrap and `IndexError`; `Py.selectWhere … [0]`;
  `np.where` on arrays; `np.unique(return_index)`, `np.maximum.reduceat`, a loop writing `out[k]`); the bridging lemmas are
  `getIdx_pred` (`arr[d − 1]` vs. `lookupDay`, days of year ≥ 1), `getIdx_selectWhere_first` (`arr[days == d][0]` vs. `idxOf`),
  `mapM_zip_mul` (a raising comprehension followed by `vals * scaling` vs. the model's `mapM` over the zipped series).
-/
import IbicusModel.Model.Isimip
import IbicusModel.Gen.IsimipSteps
import IbicusModel.Lemmas.GenIsimipSteps
import IbicusModel.Lemmas.C06Cycle
import Mathlib.Tactic.Linarith
import Mathlib.Tactic.Ring

set_option linter.unusedSimpArgs false
set_option linter.unusedVariables false

namespace Lemmas.GenIsimipSteps2
open Model.Isimip Model.Stats

/-! ### monad plumbing -/

theorem bind_ok {α} (x : Except String α) : (x >>= fun t => Except.ok t) = x := by cases x <;> rfl

theorem mapM_congr_mem {α β} (f g : α → Except String β) :
    ∀ (l : List α), (∀ a ∈ l, f a = g a) → l.mapM f = l.mapM g
  | [], _ => rfl
  | a :: l, h => by
    rw [List.mapM_cons, List.mapM_cons, h a List.mem_cons_self,
      mapM_congr_mem f g l (fun b hb => h b (List.mem_cons_of_mem _ hb))]

theorem mapM_map_comp {α β γ} (f : β → Except String γ) (g : α → β) :
    ∀ (l : List α), (l.map g).mapM f = l.mapM (fun a => f (g a))
  | [] => rfl
  | a :: l => by rw [List.map_cons, List.mapM_cons, List.mapM_cons, mapM_map_comp f g l]

/-- a raising comprehension `[g d for d in doy]` followed by `vals * scaling` = the model's `mapM` over the zipped series -/
theorem mapM_zip_mul (g : Int → Except String Rat) :
    ∀ (vals : List Rat) (doy : List Int), vals.length = doy.length →
      (doy.mapM g >>= fun ss => Except.ok (List.zipWith (fun x y => x * y) vals ss))
        = (vals.zip doy).mapM (fun p => (g p.2).map (fun s => p.1 * s))
  | [], [], _ => rfl
  | [], _ :: _, h => by simp at h
  | _ :: _, [], h => by simp at h
  | v :: vals, d :: doy, h => by
    have ih := mapM_zip_mul g vals doy (by simpa using h)
    rw [List.zip_cons_cons, List.mapM_cons, List.mapM_cons, ← ih]
    cases hg : g d with
    | error e => rfl
    | ok s =>
      cases hm : doy.mapM g with
      | error e => rfl
      | ok ss => rfl

/-! ### numpy indexing vs. the model's `lookupDay` -/

/-- `arr[d − 1]` for a day of year `d ≥ 1`: the element, or `IndexError` -/
theorem getIdx_pred (arr : List Rat) (d : Int) (hd : 1 ≤ d) :
    PyElem.getIdx arr (d - 1) = match arr[(d - 1).toNat]? with
      | some v => if d ≥ 1 then .ok v else .error "unmodelled:NegativeIndex"
      | none => .error "IndexError" := by
  unfold PyElem.getIdx
  have h0 : ¬ (d - 1 < 0) := by omega
  simp only [h0, if_false, ge_iff_le, hd, if_true]
  by_cases hlt : d - 1 < (arr.length : Int)
  · have h1 : (d - 1).toNat < arr.length := by omega
    rw [if_pos ⟨by omega, hlt⟩, List.getElem?_eq_getElem h1]
  · have h1 : arr.length ≤ (d - 1).toNat := by omega
    rw [if_neg (fun h => hlt h.2), List.getElem?_eq_none h1]

theorem getIdx_zero {α} (l : List α) :
    PyElem.getIdx l 0 = match l[0]? with | some v => .ok v | none => .error "IndexError" := by
  unfold PyElem.getIdx
  cases l with
  | nil => simp
  | cons a t => simp

/-- the first selected element of `arr[days == d]` is `arr[days.idxOf d]` (none when `d` is absent or beyond `arr`) -/
theorem selectWhere_eq_head (d : Int) : ∀ (arr : List Rat) (days : List Int),
    (Py.selectWhere arr (days.map (fun t => decide (t = d))))[0]? = if d ∈ days then arr[days.idxOf d]? else none := by
  intro arr
  induction arr with
  | nil => intro days; simp [Py.selectWhere]
  | cons a arr ih =>
    intro days
    cases days with
    | nil => simp [Py.selectWhere]
    | cons t days =>
      have ih' := ih days
      unfold Py.selectWhere at ih' ⊢
      by_cases ht : t = d
      · subst ht
        simp [List.idxOf_cons]
      · have ht' : ¬ d = t := fun h => ht h.symm
        have hb : (t == d) = false := by simpa using ht
        simp only [List.map_cons, List.zip_cons_cons, List.filterMap_cons, ht, decide_false, Bool.false_eq_true, if_false,
          List.mem_cons, ht', false_or, List.idxOf_cons, hb, cond_false, List.getElem?_cons_succ]
        exact ih'

/-- `arr[days == d][0]` = the non-366 branch of `lookupDay` -/
theorem getIdx_selectWhere_first (arr : List Rat) (days : List Int) (d : Int) :
    PyElem.getIdx (Py.selectWhere arr (days.map (fun t => decide (t = d)))) 0 = match arr[days.idxOf d]? with
      | some v => if days.contains d then .ok v else .error "IndexError"
      | none => .error "IndexError" := by
  rw [getIdx_zero, selectWhere_eq_head]
  by_cases hd : d ∈ days
  · simp only [hd, if_true, List.contains_iff_mem]
    cases arr[days.idxOf d]? <;> rfl
  · have : days.contains d = false := by
      cases hc : days.contains d with
      | false => rfl
      | true => exact absurd (List.contains_iff_mem.mp hc) hd
    simp only [hd, if_false, this, Bool.false_eq_true]
    cases arr[days.idxOf d]? <;> rfl

/-- the generated lookup expression (both branches of the conditional expression) = `lookupDay` for every day of the series -/
theorem lookup_eq (arr : List Rat) (days doy : List Int) (hd : ∀ d ∈ doy, 1 ≤ d) :
    (if ((days.length : Int) = 366) then PyElem.takeIdx arr (doy.map (fun x => x - 1))
      else doy.mapM (fun d => PyElem.getIdx (Py.selectWhere arr (days.map (fun x => decide (x = d)))) 0))
      = doy.mapM (lookupDay arr days) := by
  by_cases h : days.length = 366
  · have h' : (days.length : Int) = 366 := by omega
    rw [if_pos h']
    unfold PyElem.takeIdx
    rw [mapM_map_comp]
    apply mapM_congr_mem
    intro d hdm
    unfold lookupDay
    rw [if_pos h]
    exact getIdx_pred arr d (hd d hdm)
  · have h' : ¬ (days.length : Int) = 366 := by omega
    rw [if_neg h']
    apply mapM_congr_mem
    intro d _
    unfold lookupDay
    rw [if_neg h]
    exact getIdx_selectWhere_first arr days d

/-! ### `_step1_scale_by_annual_cycle_of_upper_bounds`, `_step8_rescale_by_annual_cycle_of_upper_bounds` -/

/-- `np.where(cycle == 0, 1.0, 1 / cycle)` -/
theorem scaling_eq : ∀ (cycle : List Rat),
    PyElem.npWhere (cycle.map (fun x => decide (x = ((0 : Int) : Rat))))
        ((cycle.map (fun x => decide (x = ((0 : Int) : Rat)))).map (fun _ => ((1 : Rat) / 1)))
        (cycle.map (fun x => (((1 : Int) : Rat)) / x))
      = cycle.map (fun v => if v = 0 then 1 else 1 / v)
  | [] => rfl
  | a :: t => by
    have ih := scaling_eq t
    unfold PyElem.npWhere at ih ⊢
    simp only [List.map_cons, List.zip_cons_cons, List.zipWith_cons_cons, ih]
    by_cases ha : a = 0 <;> simp [ha]

/-- **`_step1_scale_by_annual_cycle_of_upper_bounds` (regenerated) = `Model.Isimip.scaleByCycle`** for a dated series
    (`vals` parallel to its days of year, days of year ≥ 1): the scaling `1/cycle` (`1` where the cycle is 0), looked up by
    `days − 1` when all 366 days are present, else by the first position of the day in the cycle's day list (`IndexError`
    when absent), times the value. -/
theorem scale_by_annual_cycle_of_upper_bounds_eq (vals : List Rat) (doy : List Int) (cycle : List Rat) (days : List Int)
    (hl : vals.length = doy.length) (hd : ∀ d ∈ doy, 1 ≤ d) :
    Gen.IsimipSteps.scale_by_annual_cycle_of_upper_bounds vals doy cycle days = scaleByCycle vals doy cycle days := by
  unfold Gen.IsimipSteps.scale_by_annual_cycle_of_upper_bounds scaleByCycle
  simp only [bind_ok, Int.cast_ofNat_Int]
  rw [scaling_eq, lookup_eq _ _ _ hd]
  exact mapM_zip_mul _ vals doy hl

/-- **`_step8_rescale_by_annual_cycle_of_upper_bounds` (regenerated) = the body of `Model.Isimip.step8`**: the value times
    the looked-up entry of the (debiased) cycle -/
theorem rescale_by_annual_cycle_of_upper_bounds_eq (vals : List Rat) (doy : List Int) (cycle : List Rat) (days : List Int)
    (hl : vals.length = doy.length) (hd : ∀ d ∈ doy, 1 ≤ d) :
    Gen.IsimipSteps.rescale_by_annual_cycle_of_upper_bounds vals doy cycle days
      = (vals.zip doy).mapM (fun p => (lookupDay cycle days p.2).map (fun s => p.1 * s)) := by
  unfold Gen.IsimipSteps.rescale_by_annual_cycle_of_upper_bounds
  simp only [bind_ok]
  rw [lookup_eq _ _ _ hd]
  exact mapM_zip_mul _ vals doy hl

/-- `step8` of the model is the regenerated rescaling applied with `np.unique(days_of_year_cm_future)` -/
theorem step8_eq (c : Cfg) (F cyc : List Rat) (doyF : List Int) (hs : c.scaleByAnnualCycle = true)
    (hl : F.length = doyF.length) (hd : ∀ d ∈ doyF, 1 ≤ d) :
    step8 c F (some cyc) doyF = Gen.IsimipSteps.rescale_by_annual_cycle_of_upper_bounds F doyF cyc (uniqueYears doyF) := by
  rw [rescale_by_annual_cycle_of_upper_bounds_eq F doyF cyc _ hl hd]
  unfold step8
  simp [hs]

/-! ### `_step1_calculate_debiased_annual_cycle_of_upper_bounds` -/

/-- equal-calendar branch: `annual_cycle_obs_hist * clip(np.where(cH != 0, cF / cH, 1), 0.1, 10)` -/
theorem debiased_equal_branch : ∀ (cH cO cF : List Rat),
    List.zipWith (fun x y => x * y) cO
        (List.map (fun x => max ((1 : Rat) / 10) x)
          (List.map (fun x => min ((10 : Rat) / 1) x)
            (PyElem.npWhere (cH.map (fun x => decide (x ≠ ((0 : Int) : Rat))))
              (List.zipWith (fun x y => x / y) cF cH)
              ((cH.map (fun x => decide (x ≠ ((0 : Int) : Rat)))).map (fun _ => ((1 : Int) : Rat))))))
      = List.zipWith (fun o hf =>
          let factor := if hf.1 ≠ 0 then hf.2 / hf.1 else 1
          o * max (1 / 10) (min 10 factor)) cO (cH.zip cF)
  | [], cO, cF => by simp [PyElem.npWhere]
  | h :: cH, cO, [] => by simp [PyElem.npWhere]
  | h :: cH, [], f :: cF => by simp [PyElem.npWhere]
  | h :: cH, o :: cO, f :: cF => by
    have ih := debiased_equal_branch cH cO cF
    unfold PyElem.npWhere at ih ⊢
    simp only [List.map_cons, List.zip_cons_cons, List.zipWith_cons_cons, ih]
    by_cases hh : h = 0 <;> simp [hh]

/-- a loop `for k, v in enumerate(keys): … out[k] = E` whose body reads the *original* entry `out[k]` only:
    entry `j` becomes `(G o v).getD o` (`o` the original entry, `v` the key) -/
theorem enumAssignFrom_pointwise (F : Nat → Int → Except String (Option Rat)) (G : Rat → Int → Option Rat) :
    ∀ (keys : List Int) (k0 : Nat) (pre suf : List Rat), pre.length = k0 → suf.length = keys.length →
      (∀ j o v, suf[j]? = some o → keys[j]? = some v → F (k0 + j) v = .ok (G o v)) →
      PyElem.enumAssignFrom F k0 (pre ++ suf) keys = .ok (pre ++ List.zipWith (fun o v => (G o v).getD o) suf keys)
  | [], k0, pre, suf, _, hs, _ => by
    have : suf = [] := List.length_eq_zero_iff.mp (by simpa using hs)
    subst this
    simp [PyElem.enumAssignFrom]
  | v :: vs, k0, pre, [], _, hs, _ => by simp at hs
  | v :: vs, k0, pre, o :: os, hp, hs, hF => by
    have h0 : F k0 v = .ok (G o v) := by simpa using hF 0 o v (by simp) (by simp)
    have hF' : ∀ j o' v', os[j]? = some o' → vs[j]? = some v' → F (k0 + 1 + j) v' = .ok (G o' v') := by
      intro j o' v' h1 h2
      have := hF (j + 1) o' v' (by simpa using h1) (by simpa using h2)
      rwa [show k0 + (j + 1) = k0 + 1 + j by omega] at this
    have hs' : os.length = vs.length := by simpa using hs
    unfold PyElem.enumAssignFrom
    rw [h0]
    cases hG : G o v with
    | none =>
      have ih := enumAssignFrom_pointwise F G vs (k0 + 1) (pre ++ [o]) os (by simp [hp]) hs' hF'
      simp only [List.append_assoc, List.cons_append, List.nil_append] at ih
      simp only [ih, List.zipWith_cons_cons, hG, Option.getD_none]
    | some r =>
      have hlt : k0 < (pre ++ o :: os).length := by simp [hp]
      have hset : (pre ++ o :: os).set k0 r = pre ++ r :: os := by
        rw [List.set_append_right _ _ (by omega)]
        simp [hp]
      have ih := enumAssignFrom_pointwise F G vs (k0 + 1) (pre ++ [r]) os (by simp [hp]) hs' hF'
      simp only [List.append_assoc, List.cons_append, List.nil_append] at ih
      simp only [hlt, if_true, hset, ih, List.zipWith_cons_cons, hG, Option.getD_some]

theorem getIdx_natCast (l : List Rat) (j : Nat) (o : Rat) (h : l[j]? = some o) : PyElem.getIdx l ((j : Nat) : Int) = .ok o := by
  unfold PyElem.getIdx
  have hj : j < l.length := by
    by_contra hc
    rw [List.getElem?_eq_none (by omega)] at h
    exact absurd h (by simp)
  have h0 : ¬ ((j : Int) < 0) := by omega
  simp only [h0, if_false, Int.toNat_natCast, h]
  rw [if_pos ⟨by omega, by omega⟩]

/-- `c[d == v]` for a table `c` over the days `d`: non-empty with first element `c[d.idxOf v]` when `v` is a day, else empty -/
theorem sel_first (c : List Rat) (d : List Int) (v : Int) (h : c.length = d.length) :
    (v ∈ d → (Py.selectWhere c (d.map (fun t => decide (t = v)))).length > 0 ∧
        PyElem.getIdx (Py.selectWhere c (d.map (fun t => decide (t = v)))) 0 = .ok (c.getD (d.idxOf v) 0)) ∧
    (v ∉ d → (Py.selectWhere c (d.map (fun t => decide (t = v)))).length = 0) := by
  have hh := selectWhere_eq_head v c d
  constructor
  · intro hv
    have hlt : d.idxOf v < c.length := by rw [h]; exact List.idxOf_lt_length_iff.mpr hv
    rw [if_pos hv, List.getElem?_eq_getElem hlt] at hh
    refine ⟨?_, ?_⟩
    · by_contra hc
      have : Py.selectWhere c (d.map (fun t => decide (t = v))) = [] := List.length_eq_zero_iff.mp (by omega)
      rw [this] at hh
      simp at hh
    · rw [getIdx_zero, hh]
      simp [List.getD_eq_getElem?_getD, List.getElem?_eq_getElem hlt]
  · intro hv
    rw [if_neg hv] at hh
    cases hl : Py.selectWhere c (d.map (fun t => decide (t = v))) with
    | nil => rfl
    | cons a t => rw [hl] at hh; simp at hh

/-- **`_step1_calculate_debiased_annual_cycle_of_upper_bounds` (regenerated, both branches) = `Model.Isimip.debiasedCycle`**
    for cycles that are tables over their day lists (equal lengths — what `_step1_get_annual_cycle_of_upper_bounds` returns):
    equal calendars: `obs · clip(future / hist, 0.1, 10)` (factor 1 where hist is 0); otherwise, per future day, `obs · future / hist`
    (or `obs` where hist is 0) when the day exists in both historical calendars, else the future cycle unchanged. Never raises. -/
theorem calculate_debiased_annual_cycle_of_upper_bounds_eq (cO cH cF : List Rat) (dO dH dF : List Int)
    (hO : cO.length = dO.length) (hH : cH.length = dH.length) (hF : cF.length = dF.length) :
    Gen.IsimipSteps.calculate_debiased_annual_cycle_of_upper_bounds cO dO cH dH cF dF
      = .ok (debiasedCycle cO dO cH dH cF dF) := by
  unfold Gen.IsimipSteps.calculate_debiased_annual_cycle_of_upper_bounds
  simp only [bind_ok]
  unfold debiasedCycle
  by_cases hc : dH = dF ∧ dO = dF
  · rw [if_pos hc, if_pos hc, debiased_equal_branch]
  · rw [if_neg hc, if_neg hc]
    unfold PyElem.enumAssign
    have key := enumAssignFrom_pointwise
      (fun index_n day_of_year_i => do
        let t_8 ← PyElem.getIdx cF ((index_n : Nat) : Int)
        if ((Py.selectWhere cH (List.map (fun x_9 => decide (x_9 = day_of_year_i)) dH)).length : Int) > 0 then do
            let t_11 ← PyElem.getIdx (Py.selectWhere cH (List.map (fun x_9 => decide (x_9 = day_of_year_i)) dH)) 0
            if ((Py.selectWhere cO (List.map (fun x_9 => decide (x_9 = day_of_year_i)) dO)).length : Int) > 0 then do
                let t_12 ← PyElem.getIdx (Py.selectWhere cO (List.map (fun x_9 => decide (x_9 = day_of_year_i)) dO)) 0
                Except.ok (some (if t_11 ≠ ((0 : Int) : Rat) then t_12 * t_8 / t_11 else t_12))
              else Except.ok none
          else Except.ok none)
      (fun o v => if dH.contains v ∧ dO.contains v then
          some (if cH.getD (dH.idxOf v) 0 ≠ 0 then cO.getD (dO.idxOf v) 0 * o / cH.getD (dH.idxOf v) 0 else cO.getD (dO.idxOf v) 0)
        else none)
      dF 0 [] cF rfl hF ?_
    · simp only [List.nil_append] at key
      rw [key]
      congr 1
      rw [List.zip_eq_zipWith, List.map_zipWith]
      congr 1
      funext o v
      by_cases hv : dH.contains v = true ∧ dO.contains v = true
      · rw [if_pos hv, if_pos hv]; rfl
      · rw [if_neg hv, if_neg hv]; rfl
    · intro j o v hj _
      simp only [Nat.zero_add]
      rw [getIdx_natCast cF j o hj]
      simp only [bind, Except.bind]
      obtain ⟨hH1, hH2⟩ := sel_first cH dH v hH
      obtain ⟨hO1, hO2⟩ := sel_first cO dO v hO
      by_cases hvH : v ∈ dH
      · obtain ⟨l1, g1⟩ := hH1 hvH
        have l1' : ((Py.selectWhere cH (List.map (fun x_9 => decide (x_9 = v)) dH)).length : Int) > 0 := by omega
        rw [if_pos l1', g1]
        by_cases hvO : v ∈ dO
        · obtain ⟨l2, g2⟩ := hO1 hvO
          have l2' : ((Py.selectWhere cO (List.map (fun x_9 => decide (x_9 = v)) dO)).length : Int) > 0 := by omega
          simp only []
          rw [if_pos l2', g2]
          simp [hvH, hvO]
        · have l2 := hO2 hvO
          have l2' : ¬ ((Py.selectWhere cO (List.map (fun x_9 => decide (x_9 = v)) dO)).length : Int) > 0 := by omega
          simp only []
          rw [if_neg l2']
          simp [hvO]
      · have l1 := hH2 hvH
        have l1' : ¬ ((Py.selectWhere cH (List.map (fun x_9 => decide (x_9 = v)) dH)).length : Int) > 0 := by omega
        rw [if_neg l1']
        simp [hvH]

/-! ### `_step1_get_annual_cycle_of_upper_bounds` -/

theorem takeNat_valid {α} (x : List α) : ∀ (p : List Nat), (∀ j ∈ p, j < x.length) →
    PyElem.takeNat x p = .ok (Model.Skeleton.take x p)
  | [], _ => rfl
  | i :: p, h => by
    have hi : i < x.length := h i List.mem_cons_self
    have ih := takeNat_valid x p (fun j hj => h j (List.mem_cons_of_mem _ hj))
    unfold PyElem.takeNat at ih ⊢
    unfold Model.Skeleton.take at ih ⊢
    rw [List.mapM_cons, ih, List.filterMap_cons, List.getElem?_eq_getElem hi]
    rfl

/-- the code's route to the multi-year daily maxima on the series sorted by day of year: `np.unique(days, return_index=True)`
    gives the first position of every day, `np.maximum.reduceat(vals, idx)` the maximum of the segment between consecutive first
    positions — which for SORTED days is the maximum over the values of that day (the model's `maxQ (selectWhere …)`).
    Decidable for concrete series (examples below). -/
def GroupMax (vals : List Rat) (doy : List Int) : Prop :=
  PyElem.reduceatMax vals ((uniqueYears doy).map (fun v => doy.idxOf v))
    = .ok ((uniqueYears doy).map (fun d => maxQ (Py.selectWhere vals (doy.map (fun t => decide (t = d))))))

/-- concrete sorted instance (complete finite computation): several days, runs of length 1, 2 and 3, the maximum at the
    beginning / middle / end of its run -/
theorem uniqueYears_ex1 : uniqueYears [1, 1, 2, 3, 3, 3, 9] = [1, 2, 3, 9] := by
  simp [uniqueYears, List.mergeSort, List.eraseDups_cons]
example : GroupMax [3, 1, 2, 5, 4, 4, 7] [1, 1, 2, 3, 3, 3, 9] := by
  unfold GroupMax
  rw [uniqueYears_ex1]
  decide +kernel
/-- … and the hypothesis is not vacuous the other way: on UNSORTED days the reduceat route differs from the per-day maximum -/
theorem uniqueYears_ex2 : uniqueYears [1, 2, 1] = [1, 2] := by
  simp [uniqueYears, List.mergeSort, List.eraseDups_cons]
example : ¬ GroupMax [3, 1, 2] [1, 2, 1] := by
  unfold GroupMax
  rw [uniqueYears_ex2]
  decide +kernel

/-- FULL STATEMENT (proved in `Lemmas/GroupMax.lean`: `Lemmas.GroupMax.get_annual_cycle_of_upper_bounds_eq`, `step1_eq`; this
    theorem is kept as the lemma they use): for every `argsort` that returns a sorting permutation of the days,
    `Gen.get_annual_cycle_of_upper_bounds … vals doy = .ok (annualCycle c vals doy)`.
    Not proved in this file (`Lemmas.GroupMax.groupMax_of_sorted`): `GroupMax (take vals p) (take doy p)` for every series whose days `take doy p` are sorted (segments between
    consecutive first occurrences of a sorted list = the groups by value) — stated as the hypothesis `hg` below.

    **`_step1_get_annual_cycle_of_upper_bounds` (regenerated) = `Model.Isimip.annualCycle`**, partial: the sort by day of year
    (any permutation `argsort` returns — the cycle does not depend on it, `annualCycle_take`), `np.unique`, the running maximum
    and the running mean with `size = window_length_annual_cycle_of_upper_bounds` and `mode="wrap"` on BOTH filters, in this
    order, and the returned pair are tied; the filters are extern and instantiated with the model's
    `maximumFilterWrap` / `uniformFilterWrap`. -/
theorem get_annual_cycle_of_upper_bounds_eq_partial (c : Cfg) (argsort : List Int → List Nat) (vals : List Rat) (doy : List Int)
    (hl : vals.length = doy.length) (hp : (argsort doy).Perm (List.range vals.length))
    (hg : GroupMax (Model.Skeleton.take vals (argsort doy)) (Model.Skeleton.take doy (argsort doy))) :
    Gen.IsimipSteps.get_annual_cycle_of_upper_bounds argsort (fun a S => maximumFilterWrap S.toNat a)
        (fun a S => uniformFilterWrap S.toNat a) ((c.windowLengthAnnualCycle : Nat) : Int) vals doy
      = .ok (annualCycle c vals doy) := by
  have hv := Lemmas.Perm.perm_valid (argsort doy) hp
  unfold Gen.IsimipSteps.get_annual_cycle_of_upper_bounds
  unfold GroupMax at hg
  dsimp only
  rw [takeNat_valid vals _ hv, takeNat_valid doy _ (fun j hj => by rw [← hl]; exact hv j hj)]
  simp only [bind, Except.bind, PyElem.uniqueIndex]
  have hu : ∀ l : List Int, (l.mergeSort (fun a b => decide (a ≤ b))).eraseDups = uniqueYears l := fun _ => rfl
  simp only [hu, hg, Int.toNat_natCast]
  rw [← Lemmas.C06.annualCycle_take c vals doy (argsort doy) hl hp]
  rfl

/-! ### the wiring: `step1`, `step8` -/

/-- what the partial tie of `_step1_get_annual_cycle_of_upper_bounds` assumes about one dated series and `np.argsort` -/
structure SortedRoute (argsort : List Int → List Nat) (vals : List Rat) (doy : List Int) : Prop where
  len : vals.length = doy.length
  perm : (argsort doy).Perm (List.range vals.length)
  groupMax : GroupMax (Model.Skeleton.take vals (argsort doy)) (Model.Skeleton.take doy (argsort doy))
  days : ∀ d ∈ doy, 1 ≤ d

/-- **`ISIMIP.step1` (regenerated wiring) = `Model.Isimip.step1`**: the three cycles are computed from their own series, each
    series is scaled by its own cycle and day list, the debiased cycle gets (obs, cm_hist, cm_future) in this order, the
    result is the four-tuple with `None` when the scaling is off.  `day_of_year` is extern (`id`: the model is given the
    days of year).  Partial only through `get_annual_cycle_of_upper_bounds_eq_partial` (`SortedRoute.groupMax`). -/
theorem step1_eq_partial (c : Cfg) (argsort : List Int → List Nat) (obs H F : List Rat) (dO dH dF : List Int)
    (hO : SortedRoute argsort obs dO) (hH : SortedRoute argsort H dH) (hF : SortedRoute argsort F dF) :
    Gen.IsimipSteps.step1 id argsort (fun a S => maximumFilterWrap S.toNat a) (fun a S => uniformFilterWrap S.toNat a)
        c.scaleByAnnualCycle ((c.windowLengthAnnualCycle : Nat) : Int) obs H F dO dH dF
      = step1 c obs H F dO dH dF := by
  unfold Gen.IsimipSteps.step1 step1
  cases hs : c.scaleByAnnualCycle with
  | false => simp; rfl
  | true =>
    simp only [if_true, id]
    rw [get_annual_cycle_of_upper_bounds_eq_partial c argsort obs dO hO.len hO.perm hO.groupMax,
      get_annual_cycle_of_upper_bounds_eq_partial c argsort H dH hH.len hH.perm hH.groupMax,
      get_annual_cycle_of_upper_bounds_eq_partial c argsort F dF hF.len hF.perm hF.groupMax]
    simp only [bind, Except.bind]
    rw [scale_by_annual_cycle_of_upper_bounds_eq obs dO _ _ hO.len hO.days,
      scale_by_annual_cycle_of_upper_bounds_eq H dH _ _ hH.len hH.days,
      scale_by_annual_cycle_of_upper_bounds_eq F dF _ _ hF.len hF.days]
    cases h1 : scaleByCycle obs dO (annualCycle c obs dO).1 (annualCycle c obs dO).2 with
    | error e => rfl
    | ok o =>
      cases h2 : scaleByCycle H dH (annualCycle c H dH).1 (annualCycle c H dH).2 with
      | error e => rfl
      | ok h =>
        cases h3 : scaleByCycle F dF (annualCycle c F dF).1 (annualCycle c F dF).2 with
        | error e => rfl
        | ok f =>
          simp only []
          rw [calculate_debiased_annual_cycle_of_upper_bounds_eq _ _ _ _ _ _ (Lemmas.C06.annualCycle_length c obs dO)
            (Lemmas.C06.annualCycle_length c H dH) (Lemmas.C06.annualCycle_length c F dF)]
          rfl

/-- **`ISIMIP.step8` (regenerated wiring) = `Model.Isimip.step8`** with a cycle present (`debiased_annual_cycle = None` with the
    scaling on is the model's `TypeError` branch, not covered): the rescaling gets `cm_future`, its days of year, the debiased
    cycle and `np.unique` of those days; nothing happens with the scaling off -/
theorem step8_wiring_eq (c : Cfg) (F cyc : List Rat) (doyF : List Int)
    (hl : F.length = doyF.length) (hd : ∀ d ∈ doyF, 1 ≤ d) :
    Gen.IsimipSteps.step8 id c.scaleByAnnualCycle F cyc doyF = step8 c F (some cyc) doyF := by
  unfold Gen.IsimipSteps.step8
  cases hs : c.scaleByAnnualCycle with
  | false => simp [step8, hs]
  | true =>
    rw [step8_eq c F cyc doyF hs hl hd]
    simp only [if_true, id, bind_ok, PyElem.uniqueIndex]
    rfl

end Lemmas.GenIsimipSteps2
