/-
  C06 helper lemmas, part 1: the numeric toolkit depends on a sample only up to permutation
  (`np.sort`, `min`, `max`, `mean`, `ecdf`, `iecdf`, the non-parametric quantile maps, `detrend`), and
  "fit does not depend on the storage order" as a property of a general distribution family.
-/
import IbicusModel.Lemmas.Family
import IbicusModel.Lemmas.Stats
import IbicusModel.Lemmas.StatsQmap
import IbicusModel.Model.Debiasers
import Mathlib.Data.List.Perm.Basic

namespace Lemmas.C06
open Model.Stats Model.Family Model.Debiasers Lemmas.Stats

/-! ### sorting and order statistics -/

/-- **`np.sort` depends on the multiset only** -/
theorem sortQ_congr {l l' : List Rat} (h : l.Perm l') : sortQ l = sortQ l' := by
  apply List.Perm.eq_of_pairwise (le := (· ≤ ·)) _ (sortQ_sorted l) (sortQ_sorted l')
  · exact (sortQ_perm l).trans (h.trans (sortQ_perm l').symm)
  · intro a b _ _ hab hba; exact le_antisymm hab hba

theorem perm_nil_iff {α} {l l' : List α} (h : l.Perm l') : l = [] ↔ l' = [] := by
  constructor
  · intro e; subst e; exact h.symm.eq_nil
  · intro e; subst e; exact h.eq_nil

theorem minQ_perm {l l' : List Rat} (h : l.Perm l') : minQ l = minQ l' := by
  by_cases hl : l = []
  · have hl' := (perm_nil_iff h).mp hl
    rw [hl, hl']
  · have hl' : l' ≠ [] := fun e => hl ((perm_nil_iff h).mpr e)
    apply le_antisymm
    · exact minQ_le (h.mem_iff.mpr (minQ_mem hl'))
    · exact minQ_le (h.mem_iff.mp (minQ_mem hl))

theorem maxQ_perm {l l' : List Rat} (h : l.Perm l') : maxQ l = maxQ l' := by
  by_cases hl : l = []
  · have hl' := (perm_nil_iff h).mp hl
    rw [hl, hl']
  · have hl' : l' ≠ [] := fun e => hl ((perm_nil_iff h).mpr e)
    apply le_antisymm
    · exact le_maxQ (h.mem_iff.mp (maxQ_mem hl))
    · exact le_maxQ (h.mem_iff.mpr (maxQ_mem hl'))

/-- the number of sample values below `v` -/
theorem rankLt_perm {l l' : List Rat} (h : l.Perm l') (v : Rat) : rankLt l v = rankLt l' v := by
  unfold rankLt
  exact (h.filter _).length_eq

/-! ### empirical cdf / inverse cdf -/

theorem ecdf1_perm (m : EcdfMethod) {x x' : List Rat} (h : x.Perm x') : ecdf1 m x = ecdf1 m x' := by
  funext y
  cases m with
  | step =>
    simp only [ecdf1, ecdfStep1]
    rw [(h.filter _).length_eq, h.length_eq]
  | linear =>
    simp only [ecdf1, ecdfLin1]
    rw [sortQ_congr h, h.length_eq]

theorem iecdf1_perm (m : IecdfMethod) {x x' : List Rat} (h : x.Perm x') : iecdf1 m x = iecdf1 m x' := by
  funext q
  unfold iecdf1
  rw [sortQ_congr h]

theorem qmap1_perm (em : EcdfMethod) (im : IecdfMethod) {x x' y y' : List Rat} (hx : x.Perm x') (hy : y.Perm y') :
    qmap1 em im x y = qmap1 em im x' y' := by
  funext v
  unfold qmap1
  rw [ecdf1_perm em hx, iecdf1_perm im hy]

theorem qmapExtrap1_perm (em : EcdfMethod) (im : IecdfMethod) {x x' y y' : List Rat} (hx : x.Perm x')
    (hy : y.Perm y') : qmapExtrap1 em im x y = qmapExtrap1 em im x' y' := by
  funext v
  unfold qmapExtrap1
  rw [qmap1_perm em im hx hy, maxQ_perm hx, maxQ_perm hy, minQ_perm hx, minQ_perm hy]

/-! ### detrending, element-wise arithmetic -/

theorem detrendConst_perm {x x' : List Rat} (h : x.Perm x') : (detrendConst x).Perm (detrendConst x') := by
  unfold detrendConst
  rw [Lemmas.Family.mean_perm h]
  exact h.map _

theorem zipWith_map_self {α β γ} (f : α → β → γ) (g : α → β) (l : List α) :
    List.zipWith f l (l.map g) = l.map (fun a => f a (g a)) := by
  rw [List.zipWith_map_right, List.zipWith_self]

/-- `x − detrend(x)` is the constant `mean x` written element-wise as the code computes it -/
theorem subL_detrend (x : List Rat) : subL x (detrendConst x) = x.map (fun a => a - (a - mean x)) := by
  unfold subL detrendConst
  exact zipWith_map_self _ _ x

/-! ### fit does not depend on the storage order (a property of the family; a law of `LocScaleLaws`) -/

/-- `distribution.fit(x)` is a function of the multiset of the sample -/
def FitPerm {P} (Fam : Family P) : Prop := ∀ xs ys : List Rat, xs.Perm ys → Fam.fit xs = Fam.fit ys

theorem fitPerm_of_laws {F : LocScaleFam} (L : LocScaleLaws F) : FitPerm F.toFamily :=
  fun _ _ h => Lemmas.Family.fit_perm L h

/-- the two estimator laws alone (weaker than `LocScaleLaws`) -/
def LocScalePerm (F : LocScaleFam) : Prop := ∀ xs ys : List Rat, xs.Perm ys → F.fit xs = F.fit ys

theorem locScalePerm_of_laws {F : LocScaleFam} (L : LocScaleLaws F) : LocScalePerm F :=
  fun _ _ h => Lemmas.Family.fit_perm L h

theorem ratSigmoid_fitPerm : FitPerm ratSigmoid.toFamily := fitPerm_of_laws Lemmas.Family.ratSigmoid_laws

end Lemmas.C06
