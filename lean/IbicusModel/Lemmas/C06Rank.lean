/-
  C06 helper lemmas, part 2: the rank-based steps (`argsort`, `argsort(argsort)`, the back-sort of
  ScaledDistributionMapping and of ISIMIP step 6).  Reading a sample through `argsort` is sorting it; for a tie-free
  sample the back-sort `vals[argsort(argsort(x))]` is the element-wise map `a ↦ vals[#{w ∈ x | w < a}]` — a function of
  the value and of the multiset of the sample.  Also: tie-free series have tie-free window samples, and a running-window
  run only ever evaluates the window function on window samples.
-/
import IbicusModel.Lemmas.C06Stats
import IbicusModel.Lemmas.StatsAffine
import IbicusModel.Lemmas.Lift
import IbicusModel.Lemmas.Perm
import Mathlib.Data.List.Nodup

namespace Lemmas.C06
open Model.Stats Model.Family Model.Debiasers Lemmas.Stats Model.Skeleton Model.Windows

/-! ### `argsort` / `rankOf` -/

/-- `x[np.argsort(x)] = np.sort(x)` (no tie-freeness needed) -/
theorem takeIdx_argsort (l : List Rat) : takeIdx l (argsort l) = sortQ l := by
  apply List.ext_getElem
  · unfold takeIdx; rw [List.length_map, argsort_length, sortQ_length]
  · intro k h1 h2
    have hk : k < l.length := by rwa [sortQ_length] at h2
    have hka : k < (argsort l).length := by rw [argsort_length]; exact hk
    simp only [takeIdx, List.getElem_map]
    rw [← getDN_eq _ k hka, (argsort_spec l k hk).2, getD_eq _ k h2]

/-- `g(x)[np.argsort(x)] = g(np.sort(x))` -/
theorem takeIdx_map_argsort (g : Rat → Rat) (l : List Rat) :
    takeIdx (l.map g) (argsort l) = (sortQ l).map g := by
  rw [Lemmas.StatsAffine.takeIdx_map g l _ (Lemmas.StatsAffine.argsort_valid l), takeIdx_argsort]

/-- **the back-sort of a tie-free sample is an element-wise map**: position `i` reads the entry whose index is the number
    of sample values below `x[i]` -/
theorem takeIdx_rankOf_nodup (vals x : List Rat) (hx : x.Nodup) :
    takeIdx vals (rankOf x) = x.map (fun a => vals.getD (rankLt x a) 0) := by
  apply List.ext_getElem
  · unfold takeIdx; rw [List.length_map, List.length_map, rankOf_length]
  · intro i h1 h2
    have hi : i < x.length := by simpa using h2
    have hir : i < (rankOf x).length := by rw [rankOf_length]; exact hi
    simp only [takeIdx, List.getElem_map]
    rw [← getDN_eq _ i hir, rankOf_eq_rankLt hx hi, getD_eq x i hi]

theorem rankOf_detrend (x : List Rat) : rankOf (detrendConst x) = rankOf x := by
  unfold detrendConst
  apply Lemmas.StatsAffine.rankOf_map_mono
  intro a b hab
  simp only
  linarith

/-! ### tie-free series have tie-free window samples -/

theorem take_nodup {α} (x : List α) (idx : List Nat) (hx : x.Nodup) (hi : idx.Nodup) : (take x idx).Nodup := by
  unfold take
  apply List.Nodup.filterMap _ hi
  intro i j b hbi hbj
  simp only [Option.mem_def] at hbi hbj
  obtain ⟨hil, hie⟩ := List.getElem?_eq_some_iff.mp hbi
  obtain ⟨hjl, hje⟩ := List.getElem?_eq_some_iff.mp hbj
  exact (List.Nodup.getElem_inj_iff hx).mp (hie.trans hje.symm)

theorem take_map' {α β} (φ : α → β) (x : List α) (idx : List Nat) : take (x.map φ) idx = (take x idx).map φ := by
  unfold take
  rw [List.map_filterMap]
  congr 1
  funext i
  simp [List.getElem?_map]

theorem indicesIn_nodup (d r : List Int) : (indicesIn d r).Nodup := by
  unfold indicesIn Py.whereTrue
  exact List.nodup_range.filter _

theorem take_perm_nodup {α} (x : List α) (p : List Nat) (hp : p.Perm (List.range x.length)) (hx : x.Nodup) :
    (take x p).Nodup :=
  (Lemmas.Perm.take_perm x p hp).nodup_iff.mpr hx

/-- a running-window run evaluates the window function on window samples only: two window functions that agree
    whenever the future sample is tie-free give the same run on a tie-free `cm_future` -/
theorem applyLocationRW_congr_nodup {α} (f f' : WinFn α)
    (hff : ∀ o h x io ih ix, x.Nodup → f o h x io ih ix = f' o h x io ih ix)
    (L S : Int) (dO dH dF : List Int) (obs hist fut : List α) (hnd : fut.Nodup) :
    applyLocationRW f L S dO dH dF obs hist fut = applyLocationRW f' L S dO dH dF obs hist fut := by
  unfold applyLocationRW
  apply Lemmas.Lift.runLoop_congr
  intro c _
  unfold windowWrites
  have hw : (take fut (idxWindow L dF c)).Nodup := take_nodup fut _ hnd (indicesIn_nodup dF _)
  simp only [hff _ _ _ _ _ _ hw]

/-- the same for any guard that holds on every future window sample of the run -/
theorem applyLocationRW_congr_on {α} (f f' : WinFn α) (Pw : List α → Prop)
    (hff : ∀ o h x io ih ix, Pw x → f o h x io ih ix = f' o h x io ih ix)
    (L S : Int) (dO dH dF : List Int) (obs hist fut : List α)
    (hP : ∀ c ∈ useCenters S dF, Pw (take fut (idxWindow L dF c))) :
    applyLocationRW f L S dO dH dF obs hist fut = applyLocationRW f' L S dO dH dF obs hist fut := by
  unfold applyLocationRW
  apply Lemmas.Lift.runLoop_congr
  intro c hc
  unfold windowWrites
  simp only [hff _ _ _ _ _ _ (hP c hc)]

/-! ### ScaledDistributionMapping (absolute) -/

/-- the only family law used: the fit does not depend on the storage order -/
theorem sdmAbsCdfFut_eq (Fam : LocScaleFam) (F : List Rat) :
    sdmAbsCdfFut Fam F =
      (sortQ (detrendConst F)).map (fun v => thresholdCdf defaultCdfThreshold (Fam.cdf (Fam.fit (detrendConst F)) v)) := by
  unfold sdmAbsCdfFut
  simp only []
  rw [takeIdx_map_argsort, List.map_map]
  rfl

theorem sdmAbsCdfFut_perm (Fam : LocScaleFam) (hfit : LocScalePerm Fam) {F F' : List Rat} (h : F.Perm F') :
    sdmAbsCdfFut Fam F = sdmAbsCdfFut Fam F' := by
  rw [sdmAbsCdfFut_eq, sdmAbsCdfFut_eq, sortQ_congr (detrendConst_perm h), hfit _ _ (detrendConst_perm h)]

theorem sdmAbsCdfIntpol_perm (Fam : LocScaleFam) (hfit : LocScalePerm Fam) {x x' : List Rat} (h : x.Perm x') (m : Nat) :
    sdmAbsCdfIntpol Fam x m = sdmAbsCdfIntpol Fam x' m := by
  unfold sdmAbsCdfIntpol
  simp only []
  rw [hfit _ _ (detrendConst_perm h), sortQ_congr ((detrendConst_perm h).map _)]

/-- `bias_corrected` in the sorted order of `cm_future` depends on the three samples up to permutation -/
theorem sdmAbsoluteSorted_perm (Fam : LocScaleFam) (hfit : LocScalePerm Fam) {o o' h h' x x' : List Rat}
    (ho : o.Perm o') (hh : h.Perm h') (hx : x.Perm x') :
    sdmAbsoluteSorted Fam o h x = sdmAbsoluteSorted Fam o' h' x' := by
  unfold sdmAbsoluteSorted
  simp only []
  rw [hfit _ _ (detrendConst_perm ho), hfit _ _ (detrendConst_perm hh), hfit _ _ (detrendConst_perm hx),
    sdmAbsCdfIntpol_perm Fam hfit ho, sdmAbsCdfIntpol_perm Fam hfit hh, sdmAbsCdfFut_perm Fam hfit hx, hx.length_eq]

/-- the context map of absolute SDM: the value whose rank is that of `a`, plus the trend `a − (a − mean x)` the code
    adds back, minus the mean bias -/
def sdmAbsG (Fam : LocScaleFam) (o h x : List Rat) (a : Rat) : Rat :=
  (sdmAbsoluteSorted Fam o h x).getD (rankLt x a) 0 + (a - (a - mean x)) - (mean h - mean o)

/-- **absolute SDM on a tie-free future sample is an element-wise map** -/
theorem sdmAbsolute_pointwise (Fam : LocScaleFam) (o h x : List Rat) (hx : x.Nodup) :
    sdmAbsolute Fam o h x = x.map (sdmAbsG Fam o h x) := by
  unfold sdmAbsolute
  simp only []
  rw [rankOf_detrend, takeIdx_rankOf_nodup _ x hx, subL_detrend, List.zipWith_map, List.zipWith_self]
  rfl

theorem sdmAbsG_orderFree (Fam : LocScaleFam) (hfit : LocScalePerm Fam) {o o' h h' x x' : List Rat}
    (ho : o.Perm o') (hh : h.Perm h') (hx : x.Perm x') : sdmAbsG Fam o h x = sdmAbsG Fam o' h' x' := by
  funext a
  unfold sdmAbsG
  rw [sdmAbsoluteSorted_perm Fam hfit ho hh hx, rankLt_perm hx, Lemmas.Family.mean_perm ho,
    Lemmas.Family.mean_perm hh, Lemmas.Family.mean_perm hx]

end Lemmas.C06
