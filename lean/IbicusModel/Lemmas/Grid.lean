/-
  Helper lemmas for the grid map (C05, C13): index enumerations, the `[t][i][j]` buffer, folds in `Except`,
  the serial loop, the pool with an explicit completion schedule.
-/
import IbicusModel.Model.Grid
import Mathlib.Data.List.Basic
import Mathlib.Data.List.Nodup
import Mathlib.Data.List.Range
import Mathlib.Data.List.Perm.Basic

namespace Lemmas.Grid
open Model.Grid

variable {α β ε : Type}

theorem ndindex_eq_pairIndices (nx ny : Nat) : ndindex nx ny = pairIndices nx ny := by
  unfold ndindex pairIndices
  induction nx with
  | zero => simp
  | succ n ih =>
    rw [List.range_succ, List.flatMap_append, ← ih, Nat.succ_mul, List.range_add, List.map_append]
    congr 1
    simp only [List.flatMap_cons, List.flatMap_nil, List.append_nil, List.map_map]
    apply List.map_congr_left
    intro j hj
    have hj' : j < ny := List.mem_range.mp hj
    have hpos : 0 < ny := by omega
    simp only [Function.comp]
    rw [Nat.mul_comm n ny, Nat.mul_add_div hpos, Nat.mul_add_mod, Nat.div_eq_of_lt hj', Nat.mod_eq_of_lt hj']
    simp

theorem mem_pairIndices (nx ny : Nat) (c : Cell) : c ∈ pairIndices nx ny ↔ c.1 < nx ∧ c.2 < ny := by
  unfold pairIndices
  simp only [List.mem_flatMap, List.mem_range, List.mem_map]
  constructor
  · rintro ⟨i, hi, j, hj, rfl⟩; exact ⟨hi, hj⟩
  · rintro ⟨h1, h2⟩; exact ⟨c.1, h1, c.2, h2, rfl⟩

theorem pairIndices_nodup (nx ny : Nat) : (pairIndices nx ny).Nodup := by
  unfold pairIndices
  rw [List.nodup_flatMap]
  refine ⟨?_, ?_⟩
  · intro i _
    exact List.Nodup.map (fun a b h => by simpa using h) List.nodup_range
  · apply List.Pairwise.imp _ List.nodup_range
    intro a b hab
    simp only [Function.onFun, List.disjoint_iff_ne] 
    intro x hx y hy
    simp only [List.mem_map] at hx hy
    obtain ⟨_, _, rfl⟩ := hx
    obtain ⟨_, _, rfl⟩ := hy
    intro h
    exact hab (by simpa using congrArg Prod.fst h)

theorem length_pairIndices (nx ny : Nat) : (pairIndices nx ny).length = nx * ny := by
  rw [← ndindex_eq_pairIndices]; simp [ndindex]

theorem shaped_empty3 (T nx ny : Nat) : Shaped (empty3 (α := α) T nx ny) T nx ny := by
  unfold Shaped empty3
  refine ⟨by simp, ?_⟩
  intro p hp
  rw [List.eq_of_mem_replicate hp]
  refine ⟨by simp, ?_⟩
  intro r hr
  rw [List.eq_of_mem_replicate hr]; simp

theorem get3_empty3 (T nx ny t i j : Nat) (ht : t < T) (hi : i < nx) (hj : j < ny) :
    get3 (empty3 (α := α) T nx ny) t i j = some none := by
  unfold get3 empty3
  simp [ht, hi, hj]

/-- inside the shape every element exists -/
theorem get3_isSome {a : Arr3 β} {T nx ny : Nat} (h : Shaped a T nx ny) {t i j : Nat}
    (ht : t < T) (hi : i < nx) (hj : j < ny) : ∃ x, get3 a t i j = some x := by
  obtain ⟨hT, hp⟩ := h
  have ht' : t < a.length := by omega
  have h1 := hp a[t] (List.getElem_mem ht')
  have hi' : i < a[t].length := by omega
  have h2 := h1.2 a[t][i] (List.getElem_mem hi')
  have hj' : j < a[t][i].length := by omega
  refine ⟨a[t][i][j], ?_⟩
  unfold get3
  simp [List.getElem?_eq_getElem ht', List.getElem?_eq_getElem hi', List.getElem?_eq_getElem hj']

theorem shaped_setCol {a : Arr3 (Elem α)} {T nx ny : Nat} (h : Shaped a T nx ny) (i j : Nat)
    (col : List (Val α)) (hc : col.length = T) : Shaped (setCol a i j col) T nx ny := by
  obtain ⟨hT, hp⟩ := h
  unfold Shaped setCol
  refine ⟨by simp [hT, hc], ?_⟩
  intro p hp'
  obtain ⟨k, hk, rfl⟩ := List.getElem_of_mem hp'
  simp only [List.length_zipWith] at hk
  rw [List.getElem_zipWith]
  have hk' : k < a.length := by omega
  have h1 := hp a[k] (List.getElem_mem hk')
  refine ⟨by simp [h1.1], ?_⟩
  intro r hr
  obtain ⟨m, hm, rfl⟩ := List.getElem_of_mem hr
  rw [List.getElem_modify]
  simp only [List.length_modify] at hm
  have h2 := h1.2 a[k][m] (List.getElem_mem hm)
  split <;> simp [h2]

theorem get3_setCol {a : Arr3 (Elem α)} {T nx ny : Nat} (h : Shaped a T nx ny) (i j : Nat)
    (col : List (Val α)) (hc : col.length = T) (hi : i < nx) (hj : j < ny)
    (t i' j' : Nat) (ht : t < T) :
    get3 (setCol a i j col) t i' j' =
      if i' = i ∧ j' = j then (col[t]?).map some else get3 a t i' j' := by
  obtain ⟨hT, hp⟩ := h
  have ht' : t < a.length := by omega
  have htc : t < col.length := by omega
  have h1 := hp a[t] (List.getElem_mem ht')
  unfold get3 setCol
  rw [List.getElem?_zipWith, List.getElem?_eq_getElem ht', List.getElem?_eq_getElem htc]
  simp only [Option.bind_some, List.getElem?_modify]
  by_cases hii : i' = i
  · subst hii
    have hi' : i' < a[t].length := by omega
    have h2 := h1.2 a[t][i'] (List.getElem_mem hi')
    rw [List.getElem?_eq_getElem hi']
    simp only [if_true, Option.bind_some, true_and]
    by_cases hjj : j' = j
    · subst hjj
      have : j' < a[t][i'].length := by omega
      simp [this]
    · have : ¬ j = j' := fun h => hjj h.symm
      simp [hjj, this]
  · have : ¬ i = i' := fun h => hii h.symm
    simp only [hii, false_and, if_false, this]
    cases a[t][i']? <;> simp

theorem filterMap_getElem?_of_forall_some {γ δ : Type} (g : γ → Option δ) :
    ∀ (l : List γ), (∀ p ∈ l, ∃ x, g p = some x) → ∀ t : Nat, (l.filterMap g)[t]? = (l[t]?).bind g
  | [], _, t => by simp
  | p :: l, h, t => by
    obtain ⟨x, hx⟩ := h p (List.mem_cons_self)
    have ih := filterMap_getElem?_of_forall_some g l (fun q hq => h q (List.mem_cons_of_mem _ hq))
    rw [List.filterMap_cons_some hx]
    cases t with
    | zero => simp [hx]
    | succ t => simpa using ih t

theorem shaped_plane {a : Arr3 β} {T nx ny : Nat} (h : Shaped a T nx ny) {i j : Nat} (hi : i < nx) (hj : j < ny)
    (p : List (List β)) (hp : p ∈ a) : ∃ x, (p[i]?).bind (fun r => r[j]?) = some x := by
  have h1 := h.2 p hp
  have hi' : i < p.length := by omega
  have h2 := h1.2 p[i] (List.getElem_mem hi')
  have hj' : j < p[i].length := by omega
  exact ⟨p[i][j], by simp [List.getElem?_eq_getElem hi', List.getElem?_eq_getElem hj']⟩

theorem slice_getElem? {a : Arr3 β} {T nx ny : Nat} (h : Shaped a T nx ny) {i j : Nat} (hi : i < nx) (hj : j < ny)
    (t : Nat) : (slice a i j)[t]? = get3 a t i j := by
  unfold slice get3
  exact filterMap_getElem?_of_forall_some _ a (shaped_plane h hi hj) t

theorem slice_length {a : Arr3 β} {T nx ny : Nat} (h : Shaped a T nx ny) {i j : Nat} (hi : i < nx) (hj : j < ny) :
    (slice a i j).length = T := by
  have h1 : ∀ t, (slice a i j)[t]? = (a[t]?).bind (fun p => (p[i]?).bind (fun r => r[j]?)) :=
    fun t => slice_getElem? h hi hj t
  have hlt : ¬ T < (slice a i j).length := by
    intro hlt
    have := h1 T
    rw [List.getElem?_eq_getElem hlt, List.getElem?_eq_none (by rw [h.1])] at this
    simp at this
  have hge : ¬ (slice a i j).length < T := by
    intro hl
    have := h1 (slice a i j).length
    rw [List.getElem?_eq_none (Nat.le_refl _)] at this
    have hla : (slice a i j).length < a.length := by rw [h.1]; exact hl
    obtain ⟨x, hx⟩ := shaped_plane h hi hj _ (List.getElem_mem hla)
    rw [List.getElem?_eq_getElem hla, Option.bind_some, hx] at this
    simp at this
  omega

/-- a column is determined by its elements -/
theorem slice_eq_of_get3 {a : Arr3 β} {T nx ny : Nat} (h : Shaped a T nx ny) {i j : Nat} (hi : i < nx) (hj : j < ny)
    (col : List β) (hc : col.length = T) (hg : ∀ t (ht : t < T), get3 a t i j = some (col[t]'(by omega))) :
    slice a i j = col := by
  apply List.ext_getElem?
  intro t
  rw [slice_getElem? h hi hj]
  by_cases ht : t < T
  · rw [hg t ht, List.getElem?_eq_getElem]
  · rw [List.getElem?_eq_none (by omega)]
    unfold get3
    rw [List.getElem?_eq_none (by rw [h.1]; omega)]; rfl

section folds
variable {σ γ E : Type}

theorem foldlM_ok (step : σ → γ → Except E σ) (w : σ → γ → σ) :
    ∀ (l : List γ) (init : σ), (∀ c ∈ l, ∀ s, step s c = .ok (w s c)) →
      l.foldlM step init = .ok (l.foldl w init)
  | [], _, _ => rfl
  | c :: l, init, h => by
    rw [List.foldlM_cons, h c List.mem_cons_self init]
    exact foldlM_ok step w l (w init c) (fun c' hc' => h c' (List.mem_cons_of_mem _ hc'))

theorem foldlM_first_error (step : σ → γ → Except E σ) (w : σ → γ → σ) (c : γ) (e : E) (post : List γ) :
    ∀ (pre : List γ) (init : σ), (∀ c' ∈ pre, ∀ s, step s c' = .ok (w s c')) → (∀ s, step s c = .error e) →
      (pre ++ c :: post).foldlM step init = .error e
  | [], init, _, hc => by
    rw [List.nil_append, List.foldlM_cons, hc init]; rfl
  | c' :: pre, init, h, hc => by
    rw [List.cons_append, List.foldlM_cons, h c' List.mem_cons_self init]
    exact foldlM_first_error step w c e post pre (w init c') (fun x hx => h x (List.mem_cons_of_mem _ hx)) hc

theorem foldlM_error_of_mem (step : σ → γ → Except E σ) (c : γ) (hc : ∀ s, ∃ e, step s c = .error e) :
    ∀ (l : List γ) (init : σ), c ∈ l → ∃ e, l.foldlM step init = .error e
  | [], _, h => by simp at h
  | c' :: l, init, h => by
    rw [List.foldlM_cons]
    cases hs : step init c' with
    | error e => exact ⟨e, rfl⟩
    | ok s =>
      rcases List.mem_cons.mp h with rfl | hm
      · obtain ⟨e, he⟩ := hc init; rw [he] at hs; cases hs
      · exact foldlM_error_of_mem step c hc l s hm

/-- in a list either every element satisfies `p`, or there is a first one that does not -/
theorem all_or_first {p : γ → Prop} : ∀ (l : List γ),
    (∀ x ∈ l, p x) ∨ ∃ pre x post, l = pre ++ x :: post ∧ (∀ y ∈ pre, p y) ∧ ¬ p x
  | [] => Or.inl (by simp)
  | a :: l => by
    by_cases ha : p a
    · rcases all_or_first l with h | ⟨pre, x, post, rfl, h1, h2⟩
      · left; intro x hx; rcases List.mem_cons.mp hx with rfl | hx
        · exact ha
        · exact h x hx
      · right; refine ⟨a :: pre, x, post, rfl, ?_, h2⟩
        intro y hy; rcases List.mem_cons.mp hy with rfl | hy
        · exact ha
        · exact h1 y hy
    · right; exact ⟨[], a, l, rfl, by simp, ha⟩

end folds

theorem colOf_length {T : Nat} {r : CellResult α} {col : List (Val α)} (h : colOf (ε := ε) T r = .ok col) :
    col.length = T := by
  unfold colOf at h
  cases r with
  | nan => simp only [Except.ok.injEq] at h; subst h; simp
  | series v =>
    simp only at h
    split at h
    · simp only [Except.ok.injEq] at h; subst h; simpa
    · split at h
      · simp only [Except.ok.injEq] at h; subst h; simp
      · cases h

theorem cellCol_length {f : Cell → Except ε (List α)} {fs : Bool} {T : Nat} {c : Cell} {col : List (Val α)}
    (h : cellCol f fs T c = .ok col) : col.length = T := by
  unfold cellCol at h
  split at h
  · exact colOf_length h
  · cases h

/-- inside the grid one loop iteration is: compute the cell's column, write it -/
theorem serialStep_eq (f : Cell → Except ε (List α)) (fs : Bool) (T nx ny : Nat) (out : Arr3 (Elem α)) (c : Cell)
    (hc : c.1 < nx ∧ c.2 < ny) :
    serialStep f fs T nx ny out c = (cellCol f fs T c).map (setCol out c.1 c.2) := by
  unfold serialStep cellCol setColumn
  simp only [hc, and_self, if_true]
  cases runCatch fs (f c) <;> rfl

/-- the column a cell contributes, with a default of the right length where the cell does not produce one -/
def colD (f : Cell → Except ε (List α)) (fs : Bool) (T : Nat) (c : Cell) : List (Val α) :=
  match cellCol f fs T c with
  | .ok col => col
  | .error _ => List.replicate T .nan

theorem colD_length (f : Cell → Except ε (List α)) (fs : Bool) (T : Nat) (c : Cell) : (colD f fs T c).length = T := by
  unfold colD
  split
  · exact cellCol_length (by assumption)
  · simp

/-- all column writes, one after the other -/
def writeAll (cols : Cell → List (Val α)) (cells : List Cell) (a : Arr3 (Elem α)) : Arr3 (Elem α) :=
  cells.foldl (fun out c => setCol out c.1 c.2 (cols c)) a

theorem shaped_writeAll (cols : Cell → List (Val α)) (T nx ny : Nat) (hl : ∀ c, (cols c).length = T) :
    ∀ (cells : List Cell) (a : Arr3 (Elem α)), Shaped a T nx ny → Shaped (writeAll cols cells a) T nx ny
  | [], _, h => h
  | c :: cells, _, h => shaped_writeAll cols T nx ny hl cells _ (shaped_setCol h c.1 c.2 (cols c) (hl c))

theorem get3_writeAll (cols : Cell → List (Val α)) (T nx ny : Nat) (hl : ∀ c, (cols c).length = T)
    (t i j : Nat) (ht : t < T) :
    ∀ (cells : List Cell) (a : Arr3 (Elem α)), Shaped a T nx ny → (∀ c ∈ cells, c.1 < nx ∧ c.2 < ny) →
      get3 (writeAll cols cells a) t i j =
        if (i, j) ∈ cells then ((cols (i, j))[t]?).map some else get3 a t i j
  | [], _, _, _ => by simp [writeAll]
  | c :: cells, a, h, hr => by
    have hc := hr c List.mem_cons_self
    have ih := get3_writeAll cols T nx ny hl t i j ht cells (setCol a c.1 c.2 (cols c))
      (shaped_setCol h c.1 c.2 (cols c) (hl c)) (fun x hx => hr x (List.mem_cons_of_mem _ hx))
    show get3 (writeAll cols cells (setCol a c.1 c.2 (cols c))) t i j = _
    rw [ih, get3_setCol h c.1 c.2 (cols c) (hl c) hc.1 hc.2 t i j ht]
    by_cases hm : (i, j) ∈ cells
    · simp [hm]
    · by_cases he : (i, j) = c
      · subst he; simp
      · have : ¬ (i = c.1 ∧ j = c.2) := fun h => he (Prod.ext h.1 h.2)
        simp [hm, he, this]

theorem mem_ndindex (nx ny : Nat) (c : Cell) : c ∈ ndindex nx ny ↔ c.1 < nx ∧ c.2 < ny := by
  rw [ndindex_eq_pairIndices]; exact mem_pairIndices nx ny c

theorem colD_of_ok {f : Cell → Except ε (List α)} {fs : Bool} {T : Nat} {c : Cell} {col : List (Val α)}
    (h : cellCol f fs T c = .ok col) : colD f fs T c = col := by
  unfold colD; rw [h]

/-- the array the loop builds when every cell produces a column -/
def built (f : Cell → Except ε (List α)) (fs : Bool) (T nx ny : Nat) : Arr3 (Elem α) :=
  writeAll (colD f fs T) (ndindex nx ny) (empty3 T nx ny)

theorem serialStep_ok (f : Cell → Except ε (List α)) (fs : Bool) (T nx ny : Nat) (c : Cell)
    (hc : c.1 < nx ∧ c.2 < ny) (col : List (Val α)) (h : cellCol f fs T c = .ok col) (s : Arr3 (Elem α)) :
    serialStep f fs T nx ny s c = .ok (setCol s c.1 c.2 (colD f fs T c)) := by
  rw [serialStep_eq f fs T nx ny s c hc, colD_of_ok h, h]; rfl

theorem serialStep_error (f : Cell → Except ε (List α)) (fs : Bool) (T nx ny : Nat) (c : Cell)
    (hc : c.1 < nx ∧ c.2 < ny) (e : Err ε) (h : cellCol f fs T c = .error e) (s : Arr3 (Elem α)) :
    serialStep f fs T nx ny s c = .error e := by
  rw [serialStep_eq f fs T nx ny s c hc, h]; rfl

theorem serial_ok (f : Cell → Except ε (List α)) (fs : Bool) (T nx ny : Nat)
    (hall : ∀ c ∈ ndindex nx ny, ∃ col, cellCol f fs T c = .ok col) :
    applySerial f fs T nx ny = .ok (built f fs T nx ny) := by
  unfold applySerial built writeAll
  apply foldlM_ok
  intro c hc s
  obtain ⟨col, hcol⟩ := hall c hc
  exact serialStep_ok f fs T nx ny c ((mem_ndindex nx ny c).mp hc) col hcol s

/-- the loop stops at the first cell (row-major) that does not produce a column, with that cell's error -/
theorem serial_first_error (f : Cell → Except ε (List α)) (fs : Bool) (T nx ny : Nat)
    (pre post : List Cell) (c : Cell) (e : Err ε) (hsplit : ndindex nx ny = pre ++ c :: post)
    (hpre : ∀ c' ∈ pre, ∃ col, cellCol f fs T c' = .ok col) (hc : cellCol f fs T c = .error e) :
    applySerial f fs T nx ny = .error e := by
  unfold applySerial
  rw [hsplit]
  have hin : ∀ x ∈ pre ++ c :: post, x.1 < nx ∧ x.2 < ny := by
    intro x hx; rw [← hsplit] at hx; exact (mem_ndindex nx ny x).mp hx
  apply foldlM_first_error _ (fun out c => setCol out c.1 c.2 (colD f fs T c))
  · intro c' hc' s
    obtain ⟨col, hcol⟩ := hpre c' hc'
    exact serialStep_ok f fs T nx ny c' (hin c' (List.mem_append_left _ hc')) col hcol s
  · intro s
    exact serialStep_error f fs T nx ny c (hin c (List.mem_append_right _ List.mem_cons_self)) e hc s

theorem serial_error_of_mem (f : Cell → Except ε (List α)) (fs : Bool) (T nx ny : Nat) (c : Cell)
    (hc : c ∈ ndindex nx ny) (e : Err ε) (h : cellCol f fs T c = .error e) :
    ∃ e', applySerial f fs T nx ny = .error e' := by
  unfold applySerial
  apply foldlM_error_of_mem _ c _ _ _ hc
  intro s
  exact ⟨e, serialStep_error f fs T nx ny c ((mem_ndindex nx ny c).mp hc) e h s⟩

/-- if the serial run returns an array, every cell produced a column and the array is `built` -/
theorem serial_ok_inv (f : Cell → Except ε (List α)) (fs : Bool) (T nx ny : Nat) (out : Arr3 (Elem α))
    (h : applySerial f fs T nx ny = .ok out) :
    (∀ c ∈ ndindex nx ny, ∃ col, cellCol f fs T c = .ok col) ∧ out = built f fs T nx ny := by
  have hall : ∀ c ∈ ndindex nx ny, ∃ col, cellCol f fs T c = .ok col := by
    intro c hc
    cases hcc : cellCol f fs T c with
    | ok col => exact ⟨col, rfl⟩
    | error e =>
      obtain ⟨e', he'⟩ := serial_error_of_mem f fs T nx ny c hc e hcc
      rw [he'] at h; cases h
  refine ⟨hall, ?_⟩
  rw [serial_ok f fs T nx ny hall] at h
  exact (Except.ok.inj h).symm

theorem shaped_built (f : Cell → Except ε (List α)) (fs : Bool) (T nx ny : Nat) :
    Shaped (built f fs T nx ny) T nx ny :=
  shaped_writeAll _ T nx ny (colD_length f fs T) _ _ (shaped_empty3 T nx ny)

theorem get3_built (f : Cell → Except ε (List α)) (fs : Bool) (T nx ny t i j : Nat)
    (ht : t < T) (hi : i < nx) (hj : j < ny) :
    get3 (built f fs T nx ny) t i j = some (some ((colD f fs T (i, j))[t]'(by rw [colD_length]; exact ht))) := by
  unfold built
  rw [get3_writeAll _ T nx ny (colD_length f fs T) t i j ht _ _ (shaped_empty3 T nx ny)
    (fun c hc => (mem_ndindex nx ny c).mp hc)]
  have hm : (i, j) ∈ ndindex nx ny := (mem_ndindex nx ny (i, j)).mpr ⟨hi, hj⟩
  have hl : t < (colD f fs T (i, j)).length := by rw [colD_length]; exact ht
  simp [hm, List.getElem?_eq_getElem hl]

theorem slice_built (f : Cell → Except ε (List α)) (fs : Bool) (T nx ny i j : Nat) (hi : i < nx) (hj : j < ny) :
    slice (built f fs T nx ny) i j = (colD f fs T (i, j)).map some := by
  apply slice_eq_of_get3 (shaped_built f fs T nx ny) hi hj
  case hc => rw [List.length_map, colD_length]
  case hg =>
    intro t ht
    rw [get3_built f fs T nx ny t i j ht hi hj]
    simp

section pool
variable {γ : Type}

theorem allSome_map_some (l : List γ) : allSome (l.map some) = some l := by
  induction l with
  | nil => rfl
  | cons a l ih => simp [allSome, ih]

/-- what a completed task does to the slots when it returns `r a` -/
def slotStep (r : β → γ) (args : List β) (slots : List (Option γ)) (k : Nat) : List (Option γ) :=
  match args[k]? with
  | none => slots
  | some a => slots.set k (some (r a))

theorem length_slotStep (r : β → γ) (args : List β) (slots : List (Option γ)) (k : Nat) :
    (slotStep r args slots k).length = slots.length := by
  unfold slotStep; split <;> simp

theorem getElem?_slotFold (r : β → γ) (args : List β) (k : Nat) :
    ∀ (sched : List Nat) (slots : List (Option γ)), slots.length = args.length →
      (sched.foldl (slotStep r args) slots)[k]? =
        if k ∈ sched then (args[k]?).map (fun a => some (r a)) else slots[k]?
  | [], _, _ => by simp
  | k0 :: sched, slots, hl => by
    rw [List.foldl_cons, getElem?_slotFold r args k sched _ (by rw [length_slotStep]; exact hl)]
    by_cases hm : k ∈ sched
    · simp [hm]
    · simp only [hm, if_false, List.mem_cons, or_false]
      unfold slotStep
      by_cases hk : k = k0
      · subst hk
        simp only [if_true]
        cases ha : args[k]? with
        | none =>
          have : args.length ≤ k := by
            by_contra hlt
            rw [List.getElem?_eq_getElem (by omega)] at ha; cases ha
          simp only [Option.map_none]
          exact List.getElem?_eq_none (by omega)
        | some a =>
          have : k < args.length := by
            by_contra hlt
            rw [List.getElem?_eq_none (by omega)] at ha; cases ha
          have hk' : k < slots.length := by omega
          simp [hk']
      · have : ¬ k0 = k := fun h => hk h.symm
        simp only [hk, if_false]
        split
        · rfl
        · simp [this]

theorem slotFold_complete (r : β → γ) (args : List β) (sched : List Nat)
    (hs : ∀ k, k < args.length → k ∈ sched) :
    sched.foldl (slotStep r args) (List.replicate args.length none) = args.map (fun a => some (r a)) := by
  apply List.ext_getElem?
  intro k
  rw [getElem?_slotFold r args k sched _ (by simp)]
  by_cases hk : k < args.length
  · simp [hs k hk]
  · simp [hk]

theorem poolRun_ok (g : β → Except (Err ε) γ) (r : β → γ) (args : List β) (sched : List Nat)
    (hg : ∀ a ∈ args, g a = .ok (r a)) :
    poolRun g args sched = .ok (sched.foldl (slotStep r args) (List.replicate args.length none)) := by
  unfold poolRun
  apply foldlM_ok
  intro k _ s
  unfold slotStep
  cases ha : args[k]? with
  | none => rfl
  | some a =>
    have : a ∈ args := List.mem_of_getElem? ha
    simp only [hg a this]; rfl

/-- **the `starmap` contract**, derived from the slot model: whatever order the tasks complete in, the
    result list is in argument order -/
theorem starmap_ok (g : β → Except (Err ε) γ) (r : β → γ) (args : List β) (sched : List Nat)
    (hs : Complete sched args.length) (hg : ∀ a ∈ args, g a = .ok (r a)) :
    starmap g args sched = .ok (args.map r) := by
  unfold starmap
  rw [poolRun_ok g r args sched hg, slotFold_complete r args sched
    (fun k hk => (hs.mem_iff).mpr (List.mem_range.mpr hk))]
  have : args.map (fun a => some (r a)) = (args.map r).map some := by simp
  show (match allSome (args.map (fun a => some (r a))) with
    | some rs => Except.ok rs
    | none => Except.error Err.incomplete) = _
  rw [this, allSome_map_some]

/-- the task at position `k` of the argument list completes normally -/
def TaskOk (g : β → Except (Err ε) γ) (args : List β) (k : Nat) : Prop :=
  ∀ a, args[k]? = some a → ∃ r, g a = .ok r

/-- the first task *in completion order* that raises ends the map with its exception -/
theorem starmap_first_error (g : β → Except (Err ε) γ) (args : List β) (pre post : List Nat) (k : Nat)
    (a : β) (e : Err ε) (hpre : ∀ k' ∈ pre, TaskOk g args k') (hk : args[k]? = some a) (he : g a = .error e) :
    starmap g args (pre ++ k :: post) = .error e := by
  have : poolRun g args (pre ++ k :: post) = .error e := by
    unfold poolRun
    apply foldlM_first_error _ (fun slots k' => match args[k']? with
      | none => slots
      | some a => match g a with
        | .ok r => slots.set k' (some r)
        | .error _ => slots)
    · intro k' hk' s
      cases ha : args[k']? with
      | none => rfl
      | some a' =>
        obtain ⟨r, hr⟩ := hpre k' hk' a' ha
        simp only [hr]; rfl
    · intro s
      simp only [hk, he]; rfl
  unfold starmap
  rw [this]; rfl

/-- under a complete schedule a raising task makes `starmap` raise the exception of *some* raising task -/
theorem starmap_error (g : β → Except (Err ε) γ) (args : List β) (sched : List Nat)
    (hs : Complete sched args.length) (a : β) (ha : a ∈ args) (e : Err ε) (he : g a = .error e) :
    ∃ a' ∈ args, ∃ e', g a' = .error e' ∧ starmap g args sched = .error e' := by
  rcases all_or_first (p := TaskOk g args) sched with hall | ⟨pre, k, post, rfl, hpre, hk⟩
  · exfalso
    obtain ⟨k, hk, rfl⟩ := List.getElem_of_mem ha
    have hm : k ∈ sched := (hs.mem_iff).mpr (List.mem_range.mpr hk)
    obtain ⟨r, hr⟩ := hall k hm args[k] (List.getElem?_eq_getElem hk)
    rw [hr] at he; cases he
  · unfold TaskOk at hk
    simp only [not_forall] at hk
    obtain ⟨a', ha', hne⟩ := hk
    cases hg : g a' with
    | ok r => exact absurd ⟨r, hg⟩ hne
    | error e' =>
      exact ⟨a', List.mem_of_getElem? ha', e', hg, starmap_first_error g args pre post k a' e' hpre ha' hg⟩

end pool

section par
variable {σ γ δ E : Type}

theorem foldlM_congr (s1 s2 : σ → γ → Except E σ) :
    ∀ (l : List γ) (init : σ), (∀ c ∈ l, ∀ s, s1 s c = s2 s c) → l.foldlM s1 init = l.foldlM s2 init
  | [], _, _ => rfl
  | c :: l, init, h => by
    rw [List.foldlM_cons, List.foldlM_cons, h c List.mem_cons_self init]
    cases s2 init c with
    | error e => rfl
    | ok s => exact foldlM_congr s1 s2 l s (fun x hx => h x (List.mem_cons_of_mem _ hx))

theorem foldlM_zip_map (step : σ → γ × δ → Except E σ) (r : γ → δ) :
    ∀ (l : List γ) (init : σ),
      (l.zip (l.map r)).foldlM step init = l.foldlM (fun s c => step s (c, r c)) init
  | [], _ => rfl
  | c :: l, init => by
    simp only [List.map_cons, List.zip_cons_cons, List.foldlM_cons]
    cases step init (c, r c) with
    | error e => rfl
    | ok s => exact foldlM_zip_map step r l s

end par

/-- what `_run_func_on_location_and_catch_error` returns at a cell (default where it raises) -/
def resD (f : Cell → Except ε (List α)) (fs : Bool) (c : Cell) : CellResult α :=
  match runCatch fs (f c) with
  | .ok x => x
  | .error _ => .nan

theorem resD_of_ok {f : Cell → Except ε (List α)} {fs : Bool} {c : Cell} {x : CellResult α}
    (h : runCatch fs (f c) = .ok x) : resD f fs c = x := by
  unfold resD; rw [h]

/-- **parallel = serial**, for every completion schedule, whenever no exception of a location function
    propagates (failsafe mode, or no location raises).  Includes the case of a result of the wrong length:
    both runs then end with the same broadcast error. -/
theorem parallel_eq_serial_of_caught (f : Cell → Except ε (List α)) (fs : Bool) (T nx ny : Nat) (sched : List Nat)
    (hs : Complete sched (nx * ny))
    (hall : ∀ c ∈ pairIndices nx ny, ∃ x, runCatch fs (f c) = .ok x) :
    applyParallel f fs T nx ny sched = applySerial f fs T nx ny := by
  unfold applyParallel applySerial
  simp only []
  rw [starmap_ok (fun c => runCatch fs (f c)) (resD f fs) (pairIndices nx ny) sched
    (by rw [length_pairIndices]; exact hs)
    (fun c hc => by obtain ⟨x, hx⟩ := hall c hc; rw [hx, resD_of_ok hx])]
  show List.foldlM _ _ ((pairIndices nx ny).zip ((pairIndices nx ny).map (resD f fs))) = _
  rw [foldlM_zip_map, ndindex_eq_pairIndices]
  apply foldlM_congr
  intro c hc s
  obtain ⟨x, hx⟩ := hall c hc
  unfold serialStep
  rw [hx, resD_of_ok hx]; rfl

theorem runCatch_failsafe (r : Except ε (List α)) : ∃ x, runCatch true r = .ok x := by
  cases r <;> exact ⟨_, rfl⟩

theorem runCatch_error_iff (fs : Bool) (r : Except ε (List α)) (e : Err ε) :
    runCatch fs r = .error e ↔ fs = false ∧ ∃ e0, r = .error e0 ∧ e = .cell e0 := by
  cases r with
  | ok v => simp [runCatch]
  | error e0 =>
    cases fs
    · simp only [runCatch, Bool.false_eq_true, if_false, Except.error.injEq, true_and]
      constructor
      · rintro rfl; exact ⟨e0, rfl, rfl⟩
      · rintro ⟨_, h, rfl⟩; cases h; rfl
    · simp [runCatch]

/-- a propagating exception of a location function makes the parallel run raise the exception of some
    raising location — before anything is written -/
theorem parallel_error (f : Cell → Except ε (List α)) (fs : Bool) (T nx ny : Nat) (sched : List Nat)
    (hs : Complete sched (nx * ny)) (c : Cell) (hc : c ∈ pairIndices nx ny) (e : Err ε)
    (he : runCatch fs (f c) = .error e) :
    ∃ c' ∈ pairIndices nx ny, ∃ e', runCatch fs (f c') = .error e' ∧
      applyParallel (α := α) f fs T nx ny sched = .error e' := by
  obtain ⟨c', hc', e', he', hst⟩ := starmap_error (fun c => runCatch fs (f c)) (pairIndices nx ny) sched
    (by rw [length_pairIndices]; exact hs) c hc e he
  refine ⟨c', hc', e', he', ?_⟩
  unfold applyParallel
  simp only []
  rw [hst]; rfl

theorem cellCol_error_of_runCatch {f : Cell → Except ε (List α)} {fs : Bool} {c : Cell} {e : Err ε} (T : Nat)
    (he : runCatch fs (f c) = .error e) : cellCol f fs T c = .error e := by
  unfold cellCol; rw [he]

/-- **serial and parallel return the same array or both raise**, for every completion schedule -/
theorem parallel_ok_iff (f : Cell → Except ε (List α)) (fs : Bool) (T nx ny : Nat) (sched : List Nat)
    (hs : Complete sched (nx * ny)) (out : Arr3 (Elem α)) :
    applyParallel f fs T nx ny sched = .ok out ↔ applySerial f fs T nx ny = .ok out := by
  by_cases hall : ∀ c ∈ pairIndices nx ny, ∃ x, runCatch fs (f c) = .ok x
  · rw [parallel_eq_serial_of_caught f fs T nx ny sched hs hall]
  · simp only [not_forall] at hall
    obtain ⟨c, hc, hne⟩ := hall
    cases hr : runCatch fs (f c) with
    | ok x => exact absurd ⟨x, hr⟩ hne
    | error e =>
      obtain ⟨c', _, e', _, hp⟩ := parallel_error (α := α) f fs T nx ny sched hs c hc e hr
      obtain ⟨e'', hs'⟩ := serial_error_of_mem f fs T nx ny c (by rw [ndindex_eq_pairIndices]; exact hc) e
        (cellCol_error_of_runCatch T hr)
      rw [hp, hs']
      constructor <;> intro h <;> cases h

theorem applyGrid_ok_iff (f : Cell → Except ε (List α)) (fs : Bool) (T nx ny : Nat) (m : Mode)
    (hm : ModeOk m nx ny) (out : Arr3 (Elem α)) :
    applyGrid f fs T nx ny m = .ok out ↔ applySerial f fs T nx ny = .ok out := by
  cases m with
  | serial => rfl
  | parallel sched => exact parallel_ok_iff f fs T nx ny sched hm out

/-- **master lemma**: if `apply` returns an array (any admissible mode), it has the buffer's shape and the
    column of every cell is exactly the column that cell alone contributes -/
theorem grid_ok_inv (f : Cell → Except ε (List α)) (fs : Bool) (T nx ny : Nat) (m : Mode)
    (hm : ModeOk m nx ny) (out : Arr3 (Elem α)) (h : applyGrid f fs T nx ny m = .ok out) :
    Shaped out T nx ny ∧ ∀ i j, i < nx → j < ny →
      ∃ col, cellCol f fs T (i, j) = .ok col ∧ slice out i j = col.map some := by
  rw [applyGrid_ok_iff f fs T nx ny m hm] at h
  obtain ⟨hall, rfl⟩ := serial_ok_inv f fs T nx ny out h
  refine ⟨shaped_built f fs T nx ny, ?_⟩
  intro i j hi hj
  obtain ⟨col, hcol⟩ := hall (i, j) ((mem_ndindex nx ny (i, j)).mpr ⟨hi, hj⟩)
  refine ⟨col, hcol, ?_⟩
  rw [slice_built f fs T nx ny i j hi hj, colD_of_ok hcol]

/-- if every cell contributes a column, `apply` returns an array (any admissible mode) -/
theorem grid_ok_of_all (f : Cell → Except ε (List α)) (fs : Bool) (T nx ny : Nat) (m : Mode)
    (hm : ModeOk m nx ny) (hall : ∀ i j, i < nx → j < ny → ∃ col, cellCol f fs T (i, j) = .ok col) :
    applyGrid f fs T nx ny m = .ok (built f fs T nx ny) := by
  rw [applyGrid_ok_iff f fs T nx ny m hm]
  apply serial_ok
  intro c hc
  have := (mem_ndindex nx ny c).mp hc
  exact hall c.1 c.2 this.1 this.2

/-! ### the column a cell contributes, case by case -/

theorem cellCol_series (f : Cell → Except ε (List α)) (fs : Bool) (T : Nat) (c : Cell) (v : List α)
    (h : f c = .ok v) (hl : v.length = T) : cellCol f fs T c = .ok (v.map .val) := by
  unfold cellCol runCatch colOf; rw [h]; simp [hl]

theorem cellCol_failsafe (f : Cell → Except ε (List α)) (T : Nat) (c : Cell) (e : ε)
    (h : f c = .error e) : cellCol f true T c = .ok (List.replicate T .nan) := by
  unfold cellCol runCatch colOf; rw [h]; rfl

theorem cellCol_raise (f : Cell → Except ε (List α)) (T : Nat) (c : Cell) (e : ε)
    (h : f c = .error e) : cellCol f false T c = .error (.cell e) := by
  unfold cellCol runCatch; rw [h]; rfl

theorem cellCol_single (f : Cell → Except ε (List α)) (fs : Bool) (T : Nat) (c : Cell) (x : α)
    (h : f c = .ok [x]) : cellCol f fs T c = .ok (List.replicate T (.val x)) := by
  unfold cellCol runCatch colOf; rw [h]
  by_cases hT : T = 1
  · subst hT; rfl
  · have : ¬ [x].length = T := by simpa using fun h => hT h.symm
    simp only [this, if_false]

theorem cellCol_wrong_length (f : Cell → Except ε (List α)) (fs : Bool) (T : Nat) (c : Cell) (v : List α)
    (h : f c = .ok v) (hl : v.length ≠ T) (h1 : v.length ≠ 1) : cellCol f fs T c = .error .broadcast := by
  unfold cellCol runCatch colOf; rw [h]
  simp only [hl, if_false]
  match v, h1 with
  | [], _ => rfl
  | [_], h1 => exact absurd rfl h1
  | _ :: _ :: _, _ => rfl

end Lemmas.Grid
