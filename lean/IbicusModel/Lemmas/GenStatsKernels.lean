/-
  Tier A proof obligation for C16: the scalar kernel regenerated from /repo's current source
  (`Gen.StatsKernels`) equals the hand-written model (`Model.Stats.thresholdCdf`).
-/
import IbicusModel.Model.Stats
import IbicusModel.Gen.StatsKernels

namespace Lemmas.GenStatsKernels
open Model.Stats

theorem threshold_cdf_vals (v t : Rat) : Gen.StatsKernels.threshold_cdf_vals v t = thresholdCdf t v := by
  unfold Gen.StatsKernels.threshold_cdf_vals thresholdCdf
  simp

end Lemmas.GenStatsKernels
