/-
  C09 helpers, part 2: the per-window transfer functions of LinearScaling, QuantileMapping and CDFt
  (`Model/Debiasers.lean`) written as pointwise images `F.map T`, and the monotonicity of each `T`.
  CDFt's stochastic singularity removal: the randomisation is *strictly* rank preserving for every admissible
  draw list.
-/
import IbicusModel.Lemmas.C09Stats
import IbicusModel.Lemmas.Family

namespace Lemmas.C09
open Model.Stats Model.Family Model.Debiasers Lemmas.Stats

/-! ### QuantileMapping: the detrending wrapper -/

/-- the value-wise form of `QuantileMapping.apply_on_window` around a value-wise inner mapping `g` -/
def qmWrap (d : Detrending) (H F : List Rat) (g : Rat → Rat) : Rat → Rat :=
  match d with
  | .additive => fun x => g (x - (mean F - mean H)) + (mean F - mean H)
  | .multiplicative => fun x => g (x / (mean F / mean H)) * (mean F / mean H)
  | .no_detrending => g

/-- if the inner mapping works value by value, so does the whole window function -/
theorem quantileMapping_eq_map (qm : List Rat → List Rat → List Rat → List Rat) (g : Rat → Rat)
    (obs H : List Rat) (hqm : ∀ x, qm x obs H = x.map g) (d : Detrending) (F : List Rat) :
    quantileMapping qm d obs H F = F.map (qmWrap d H F g) := by
  cases d <;> simp only [quantileMapping, qmWrap, hqm, List.map_map] <;> rfl

/-- the wrapper keeps monotonicity; the multiplicative one needs `δ = mean F / mean H > 0` -/
theorem qmWrap_mono (d : Detrending) (H F : List Rat) (g : Rat → Rat) (hg : MonoR g)
    (hδ : d = .multiplicative → 0 < mean F / mean H) : MonoR (qmWrap d H F g) := by
  intro a b hab
  cases d with
  | additive =>
    simp only [qmWrap]
    have := hg (a - (mean F - mean H)) (b - (mean F - mean H)) (by linarith)
    linarith
  | multiplicative =>
    simp only [qmWrap]
    have hpos := hδ rfl
    have := hg (a / (mean F / mean H)) (b / (mean F / mean H)) (div_le_div_of_nonneg_right hab (le_of_lt hpos))
    exact mul_le_mul_of_nonneg_right this (le_of_lt hpos)
  | no_detrending => exact hg a b hab

/-- parametric inner mapping, value-wise -/
def qmParam1 {P} (Fam : Family P) (t : Rat) (obs H : List Rat) (v : Rat) : Rat :=
  Fam.ppf (Fam.fit obs) (thresholdCdf t (Fam.cdf (Fam.fit H) v))

theorem standardQMParam_eq_map {P} (Fam : Family P) (t : Rat) (x obs H : List Rat) :
    standardQMParam Fam t x obs H = x.map (qmParam1 Fam t obs H) := rfl

/-- `ppf_obs ∘ threshold ∘ cdf_H` is monotone when the fitted cdf is non-decreasing and the fitted ppf is
    non-decreasing on `[t, 1 − t]` (where the thresholded cdf values live, `t ≤ 1/2`) -/
theorem qmParam1_mono {P} (Fam : Family P) (t : Rat) (ht : t ≤ 1 / 2) (obs H : List Rat)
    (hc : MonoR (Fam.cdf (Fam.fit H)))
    (hp : ∀ p q : Rat, t ≤ p → p ≤ q → q ≤ 1 - t → Fam.ppf (Fam.fit obs) p ≤ Fam.ppf (Fam.fit obs) q) :
    MonoR (qmParam1 Fam t obs H) := by
  intro a b hab
  unfold qmParam1
  exact hp _ _ (Props.C16.thresholdCdf_range t _ ht).1 (Props.C16.thresholdCdf_mono t (hc a b hab))
    (Props.C16.thresholdCdf_range t _ ht).2

/-- the two hypotheses of `qmParam1_mono` hold for every location–scale family with `LocScaleLaws`
    whose two fitted scales are positive (`0 < t`) -/
theorem locScale_cdf_monoR {F : LocScaleFam} (L : LocScaleLaws F) (p : Rat × Rat) (hs : 0 < p.2) :
    MonoR (F.toFamily.cdf p) := by
  have : StrictMonoR (F.toFamily.cdf p) := fun a b h => Lemmas.Family.cdf_strictMono L p hs h
  exact this.mono

theorem locScale_ppf_mono {F : LocScaleFam} (L : LocScaleLaws F) (p : Rat × Rat) (hs : 0 < p.2) (t : Rat)
    (ht : 0 < t) (q r : Rat) (h0 : t ≤ q) (hqr : q ≤ r) (h1 : r ≤ 1 - t) :
    F.toFamily.ppf p q ≤ F.toFamily.ppf p r := by
  rcases eq_or_lt_of_le hqr with rfl | hlt
  · exact le_refl _
  · exact le_of_lt (Lemmas.Family.ppf_strictMono L p hs (by linarith) (by linarith) hlt)

/-! ### CDFt -/

/-- the shift of `_apply_CDFt_mapping`, value-wise -/
def cdftShift1 (d : DeltaShift) (obs H : List Rat) : Rat → Rat :=
  match d with
  | .additive => fun x => x + (mean obs - mean H)
  | .multiplicative => fun x => x * (mean obs / mean H)
  | .no_shift => fun x => x

theorem cdftShifted_eq (d : DeltaShift) (obs H F : List Rat) :
    cdftShifted d obs H F = (H.map (cdftShift1 d obs H), F.map (cdftShift1 d obs H)) := by
  cases d <;> simp [cdftShifted, cdftShift1]

theorem cdftShift1_mono (d : DeltaShift) (obs H : List Rat)
    (hs : d = .multiplicative → 0 ≤ mean obs / mean H) : MonoR (cdftShift1 d obs H) := by
  intro a b hab
  cases d with
  | additive => simp only [cdftShift1]; linarith
  | multiplicative => simp only [cdftShift1]; exact mul_le_mul_of_nonneg_right hab (hs rfl)
  | no_shift => exact hab

/-- the four-stage map on the shifted samples `H'`, `F'`, value-wise -/
def cdftCore (E Q : List Rat → Rat → Rat) (obs H' F' : List Rat) (v : Rat) : Rat :=
  Q F' (E H' (Q obs (E F' v)))

/-- `_apply_CDFt_mapping` is the pointwise image of `cm_future` under `cdftCore ∘ shift` -/
theorem cdftMappingG_eq_map (E Q : List Rat → Rat → Rat) (d : DeltaShift) (obs H F : List Rat) :
    cdftMappingG E Q d obs H F =
      F.map (fun x => cdftCore E Q obs (H.map (cdftShift1 d obs H)) (F.map (cdftShift1 d obs H))
        (cdftShift1 d obs H x)) := by
  unfold cdftMappingG cdftStage4 cdftStage3 cdftStage2 cdftStage1
  rw [cdftShifted_eq]
  simp only [List.map_map]
  rfl

/-- composition of four monotone maps -/
theorem cdftCore_mono {E Q : List Rat → Rat → Rat} (L : EQLaws E Q) (obs H' F' : List Rat)
    (ho : 2 ≤ obs.length) (hh : 2 ≤ H'.length) (hf : 2 ≤ F'.length) : MonoR (cdftCore E Q obs H' F') := by
  intro a b hab
  unfold cdftCore
  have r1 := fun v => L.E_range F' hf v
  have r3 := fun v => L.E_range H' hh v
  have m1 := L.E_mono F' hf a b hab
  have m2 := L.Q_mono obs ho _ _ (r1 a).1 m1 (r1 b).2
  have m3 := L.E_mono H' hh _ _ m2
  exact L.Q_mono F' hf _ _ (r3 _).1 m3 (r3 _).2

/-- the whole CDFt transfer function of one window (for the fixed window samples) is monotone -/
theorem cdftT_mono {E Q : List Rat → Rat → Rat} (L : EQLaws E Q) (d : DeltaShift) (obs H F : List Rat)
    (ho : 2 ≤ obs.length) (hh : 2 ≤ H.length) (hf : 2 ≤ F.length)
    (hs : d = .multiplicative → 0 ≤ mean obs / mean H) :
    MonoR (fun x => cdftCore E Q obs (H.map (cdftShift1 d obs H)) (F.map (cdftShift1 d obs H))
      (cdftShift1 d obs H x)) :=
  MonoR.comp (cdftCore_mono L obs _ _ ho (by simpa using hh) (by simpa using hf)) (cdftShift1_mono d obs H hs)

/-! ### stochastic singularity removal -/

theorem ssrThreshold_nonneg (obs H F : List Rat) : 0 ≤ ssrThreshold obs H F := by
  unfold ssrThreshold
  simp only []
  split_ifs with h
  · exact le_refl _
  · have hne : (obs.filter (fun v => decide (v > 0)) ++ H.filter (fun v => decide (v > 0)) ++
        F.filter (fun v => decide (v > 0))) ≠ [] := by
      intro he; rw [he] at h; simp at h
    have hm := minQ_mem hne
    simp only [List.mem_append, List.mem_filter, decide_eq_true_eq] at hm
    rcases hm with (hm | hm) | hm <;> exact le_of_lt hm.2

/-- every positive value of `cm_future` is at least the SSR threshold -/
theorem ssrThreshold_le_of_pos (obs H F : List Rat) {v : Rat} (hv : v ∈ F) (hpos : 0 < v) :
    ssrThreshold obs H F ≤ v := by
  unfold ssrThreshold
  simp only []
  have hmem : v ∈ (obs.filter (fun v => decide (v > 0)) ++ H.filter (fun v => decide (v > 0)) ++
      F.filter (fun v => decide (v > 0))) := by
    simp only [List.mem_append, List.mem_filter, decide_eq_true_eq]
    exact Or.inr ⟨hv, hpos⟩
  have hne : ¬ (obs.filter (fun v => decide (v > 0)) ++ H.filter (fun v => decide (v > 0)) ++
      F.filter (fun v => decide (v > 0))).isEmpty = true := by
    intro he
    rw [List.isEmpty_iff] at he
    rw [he] at hmem; simp at hmem
  rw [if_neg hne]
  exact minQ_le hmem

/-- … and strictly positive as soon as `cm_future` has a positive value -/
theorem ssrThreshold_pos_of_pos (obs H F : List Rat) {v : Rat} (hv : v ∈ F) (hpos : 0 < v) :
    0 < ssrThreshold obs H F := by
  unfold ssrThreshold
  simp only []
  have hmem : v ∈ (obs.filter (fun v => decide (v > 0)) ++ H.filter (fun v => decide (v > 0)) ++
      F.filter (fun v => decide (v > 0))) := by
    simp only [List.mem_append, List.mem_filter, decide_eq_true_eq]
    exact Or.inr ⟨hv, hpos⟩
  have hnil : (obs.filter (fun v => decide (v > 0)) ++ H.filter (fun v => decide (v > 0)) ++
      F.filter (fun v => decide (v > 0))) ≠ [] := by
    intro he; rw [he] at hmem; simp at hmem
  have hne : ¬ (obs.filter (fun v => decide (v > 0)) ++ H.filter (fun v => decide (v > 0)) ++
      F.filter (fun v => decide (v > 0))).isEmpty = true := by
    intro he
    rw [List.isEmpty_iff] at he
    exact hnil he
  rw [if_neg hne]
  have hm := minQ_mem hnil
  simp only [List.mem_append, List.mem_filter, decide_eq_true_eq] at hm
  rcases hm with (hm | hm) | hm <;> exact hm.2

theorem ssrRandomize_length (x u : List Rat) (h : x.length ≤ u.length) : (ssrRandomize x u).length = x.length := by
  unfold ssrRandomize
  rw [List.length_zipWith]; omega

theorem ssrRandomize_getD (x u : List Rat) (h : x.length ≤ u.length) (i : Nat) (hi : i < x.length) :
    (ssrRandomize x u).getD i 0 = if x.getD i 0 = 0 then u.getD i 0 else x.getD i 0 := by
  have hiu : i < u.length := by omega
  rw [getD_eq _ i (by rw [ssrRandomize_length x u h]; exact hi), getD_eq x i hi, getD_eq u i hiu]
  unfold ssrRandomize
  rw [List.getElem_zipWith]

/-- **the randomisation never reorders**: a strictly smaller original value gets a strictly smaller randomised
    value — for every draw list with `0 ≤ u < thr` (numpy's contract for `uniform(0, thr)`), where `thr` is at most
    every positive value of the series.  No sign condition on the data is needed. -/
theorem ssrRandomize_strict (x u : List Rat) (thr : Rat) (hlen : x.length ≤ u.length)
    (hthr : ∀ v ∈ x, 0 < v → thr ≤ v)
    (hu : ∀ r ∈ u, 0 ≤ r ∧ (r < thr ∨ (thr = 0 ∧ r = 0))) (hpos : (∃ v ∈ x, 0 < v) → 0 < thr) :
    StrictOrderPres x (ssrRandomize x u) := by
  refine ⟨(ssrRandomize_length x u hlen).symm, ?_⟩
  intro i j hi hj hlt
  rw [ssrRandomize_getD x u hlen i hi, ssrRandomize_getD x u hlen j hj]
  have hui := hu _ (getD_mem u i (by omega))
  have huj := hu _ (getD_mem u j (by omega))
  by_cases hi0 : x.getD i 0 = 0
  · -- x_i = 0 < x_j: the draw is below the threshold, x_j is at least the threshold
    rw [if_pos hi0]
    have hjpos : 0 < x.getD j 0 := by rw [hi0] at hlt; exact hlt
    rw [if_neg (ne_of_gt hjpos)]
    have h1 := hthr _ (getD_mem x j hj) hjpos
    have h2 := hpos ⟨_, getD_mem x j hj, hjpos⟩
    rcases hui.2 with h | ⟨h, _⟩
    · linarith
    · linarith
  · rw [if_neg hi0]
    by_cases hj0 : x.getD j 0 = 0
    · rw [if_pos hj0]; rw [hj0] at hlt; linarith [huj.1]
    · rw [if_neg hj0]; exact hlt

theorem mem_ssrRandomize {x u : List Rat} {v : Rat} (h : v ∈ ssrRandomize x u) : v ∈ x ∨ v ∈ u := by
  unfold ssrRandomize at h
  induction x generalizing u with
  | nil => simp at h
  | cons a t ih =>
    cases u with
    | nil => simp at h
    | cons b w =>
      simp only [List.zipWith_cons_cons, List.mem_cons] at h
      rcases h with rfl | h
      · by_cases h0 : a = 0
        · rw [if_pos h0]; right; exact List.mem_cons_self
        · rw [if_neg h0]; left; exact List.mem_cons_self
      · rcases ih h with h1 | h1
        · left; exact List.mem_cons_of_mem _ h1
        · right; exact List.mem_cons_of_mem _ h1

theorem mean_nonneg {l : List Rat} (h : ∀ v ∈ l, 0 ≤ v) : 0 ≤ mean l := by
  unfold mean
  exact div_nonneg (List.sum_nonneg h) (by exact_mod_cast Nat.zero_le _)

theorem ssrAfter_eq_map (thr : Rat) (x : List Rat) : ssrAfter thr x = x.map (fun v => if v < thr then 0 else v) := rfl

/-- sub-list of an admissible draw list is admissible -/
theorem ssrDrawsOk_sub {thr : Rat} {u v : List Rat} (h : ssrDrawsOk thr u) (hs : ∀ r ∈ v, r ∈ u) : ssrDrawsOk thr v :=
  fun r hr => h r (hs r hr)

end Lemmas.C09
