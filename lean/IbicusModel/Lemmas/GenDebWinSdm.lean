/-
  Tier A, per-window transfer functions (continuation of `Lemmas/GenDebWin.lean`):

  1. `sdm_relative_denote` — the expected program of `ScaledDistributionMapping._apply_on_window_relative_sdm`
     (`Model.NpDeb.sdm_apply_on_window_relative_sdm`, = the program regenerated from /repo by
     `gen_sdm_apply_on_window_relative_sdm`) denotes `Model.Debiasers.sdmRelative`, for all inputs and settings.
     Where the code raises (`ValueError`: one of the three samples has no value `≥ pr_lower_threshold`) the denotation is
     that error (`sdm_relative_denote_raises`); where it returns, the value is spelled out under the explicit guards
     (`sdm_relative_denote_ok`).  `sdm_relative_no_hidden_raise` discharges, from the code's own guard, everything else
     the Python text needs in order not to raise and that the DSL / the model totalise:
       * `round(x)` raises on `nan` / `inf`: the two denominators `size(obs)`, `sum(mask_cm_hist)/size(cm_hist)` are non-zero;
       * the slice bounds `cm_future.size - expected`, `bc_initial.size - expected` are non-negative Python ints
         (a negative bound would count from the end): `0 ≤ round(…)` and `expected ≤ #rainy(cm_future) = len(bc_initial)
         ≤ len(cm_future)`, so the model's truncated `Nat` subtraction is the exact one;
       * `x[k:] = y` needs `len(y) = len(x) − k`, and the element-wise operations of steps 3–6 need equal shapes: all of
         them have the length of `rainy_days_cm_future`.
     The proof runs the program in three stages (`stage1`: sorting, masks, the `raise` guard; `stage2`: the expected
     number of rainy days; `stage3`: fits, steps 2–7) glued by `runBinds_append`; `sdm_rel_core` is the three-array
     `zipWith` regrouping of steps 3–6 (as `sdm_abs_core` for the absolute variant).
  2. `cdft_steps_denote_single` — `cdft_steps_denote` with `env.draws` instantiated from ONE draw list `u`, split in the
     order the three `np.random.uniform` calls consume it (no hypotheses on the draws left).
-/
import IbicusModel.Lemmas.GenDebWin
import IbicusModel.Lemmas.IsimipModel

namespace Lemmas.GenDebWinSdm
open Model.Stats Model.Family Model.Debiasers Model.NpDeb
open Lemmas.IsimipModel (interpOnLength_length takeIdx_argsort)

variable {P : Type}

/-- the statements of the (single) path of `_apply_on_window_relative_sdm` -/
def relBinds : List Bind :=
  match sdm_apply_on_window_relative_sdm.paths with
  | p :: _ => p.binds
  | [] => []

def relResult : Expr := .bin .getitem (.loc 30) (.loc 31)

theorem runBinds_append (env : Env P) (b1 b2 : List Bind) (locs : List (Val P)) :
    runBinds env (b1 ++ b2) locs = (match runBinds env b1 locs with
      | .ok l => runBinds env b2 l
      | .error e => .error e) := by
  induction b1 generalizing locs with
  | nil => rfl
  | cons b t ih =>
    cases b with
    | let_ e => simp only [List.cons_append, runBinds]; exact ih _
    | raiseIf c cls =>
      simp only [List.cons_append, runBinds]
      split <;> simp_all

theorem denote_rel (env : Env P) :
    denote sdm_apply_on_window_relative_sdm env
      = (match runBinds env relBinds [] with
         | .error c => .error c
         | .ok locs => .ok [eval env locs relResult]) := by
  rfl

/-- the element-wise steps 3–6 of relative SDM: numpy's array-at-a-time evaluation (left) is the model's
    value-at-a-time evaluation (right), for arrays of any lengths -/
theorem sdm_rel_core (po T g s : Rat → Rat) (A B C : List Rat) :
    List.zipWith (fun x y => x * y)
      (List.zipWith (fun x y => po (T (1 - (max 1 (x / y))⁻¹)))
        (List.zipWith (fun a b => (1 - a)⁻¹ * (1 - g b)⁻¹) A C)
        (List.map ((fun y => y⁻¹) ∘ fun y => 1 - y) B))
      (List.map s C)
    = List.zipWith (fun cs sc => po cs * sc)
      (List.zipWith (fun co (p : Rat × Rat) => T (1 - (max 1 ((1 - co)⁻¹ * (1 - p.2)⁻¹ * (1 - p.1)))⁻¹))
        A (B.zip (List.map g C)))
      (List.map s C) := by
  induction A generalizing B C with
  | nil => simp
  | cons a A ih =>
    cases B with
    | nil => simp
    | cons b B =>
      cases C with
      | nil => simp
      | cons c C =>
        have := ih B C
        simp only [List.map_cons, List.zipWith_cons_cons, List.zip_cons_cons, Function.comp] at this ⊢
        rw [this, div_inv_eq_mul]

theorem stage3 (env : Env P) (so sh fS r7 r8 r9 : List Rat) (ia : List Nat) (m4 m5 m6 : List Bool) (x10 x11 x12 : Val P)
    (e : Nat) (he : e ≤ r9.length) (hr : r9.length ≤ fS.length) :
    (match runBinds env (relBinds.drop 15)
        [.arr so, .arr sh, .idx ia, .arr fS, .mask m4, .mask m5, .mask m6, .arr r7, .arr r8, .arr r9,
          x10, x11, x12, .int (e : Nat)] with
     | .error c => (.error c : Except String (List (Val P)))
     | .ok locs => .ok [eval env locs relResult])
    = .ok [.arr (takeIdx (List.replicate (fS.length - e) (0 : Rat) ++
        (sdmRelBcInitial env.fam (env.num "cdf_threshold") r7 r8 r9).drop
          ((sdmRelBcInitial env.fam (env.num "cdf_threshold") r7 r8 r9).length - e))
        (argsort (ia.map (fun (k : Nat) => (k : Rat)))))] := by
  have he' : e ≤ fS.length := he.trans hr
  simp [relBinds, sdm_apply_on_window_relative_sdm, relResult, runBinds, eval,
    evalBin, evalUn, binQ, fitV, cdfV, ppfV, threshV, argsortV, sizeV, getitemV, interpLenV,
    setSliceToV, setSliceFromV, sliceFromV,
    sdmRelBcInitial, sdmRelCdf, sdmRelCdfScaled, sdmRecurrRel, interpOnLength_length, he, he']
  congr 3
  exact sdm_rel_core _ _ _ _ _ _ _

/-! ### the expected number of rainy days: Python `int` arithmetic = the model's `Nat` -/

theorem roundHalfEven_nonneg {q : Rat} (h : 0 ≤ q) : 0 ≤ Py.roundHalfEven q :=
  (Lemmas.IsimipFreq.roundHalfEven_bounds q 0 (q.floor + 1) (by simpa using h)
    (by have := Lemmas.IsimipFreq.lt_floor_add_one q; push_cast; exact le_of_lt this)).1

theorem sdmRelExpectedArg_nonneg (nFr nOr nO nHr nH : Nat) : 0 ≤ sdmRelExpectedArg nFr nOr nO nHr nH := by
  unfold sdmRelExpectedArg; positivity

/-- the value of `expected_nr_rainy_days_cm_future` after the `if … > …:` clamp, a Python `int`, is the model's
    natural number: `round(…) ≥ 0`, so `Int.toNat` loses nothing -/
theorem expected_int (nFr nOr nO nHr nH : Nat) :
    (if (nFr : Int) < Py.roundHalfEven (sdmRelExpectedArg nFr nOr nO nHr nH) then (nFr : Int)
      else Py.roundHalfEven (sdmRelExpectedArg nFr nOr nO nHr nH))
    = ((sdmRelExpected nFr nOr nO nHr nH : Nat) : Int) := by
  have hnn := roundHalfEven_nonneg (sdmRelExpectedArg_nonneg nFr nOr nO nHr nH)
  unfold sdmRelExpected
  simp only [gt_iff_lt]
  split_ifs with h
  · rfl
  · exact (Int.toNat_of_nonneg hnn).symm

/-- the clamp: never more than the rainy days present in `cm_future` -/
theorem sdmRelExpected_le (nFr nOr nO nHr nH : Nat) : sdmRelExpected nFr nOr nO nHr nH ≤ nFr := by
  have := expected_int nFr nOr nO nHr nH
  split_ifs at this with h <;> omega

theorem ite_int_cast (n : Nat) (z : Int) :
    (if (n : Rat) < (z : Rat) then (Val.int (n : Int) : Val P) else Val.int z)
      = Val.int (if (n : Int) < z then (n : Int) else z) := by
  by_cases h : (n : Int) < z
  · have h' : (n : Rat) < (z : Rat) := by exact_mod_cast h
    simp [h, h']
  · have h' : ¬ (n : Rat) < (z : Rat) := by exact_mod_cast h
    simp [h, h']

theorem stage2 (env : Env P) (so sh fS r7 r8 r9 : List Rat) (ia : List Nat) (m4 m5 m6 : List Bool) :
    runBinds env ((relBinds.drop 11).take 4)
        [.arr so, .arr sh, .idx ia, .arr fS, .mask m4, .mask m5, .mask m6, .arr r7, .arr r8, .arr r9]
      = .ok [.arr so, .arr sh, .idx ia, .arr fS, .mask m4, .mask m5, .mask m6, .arr r7, .arr r8, .arr r9,
          .arr (Py.setWhere so (m4.map not) 0), .arr (Py.setWhere sh (m5.map not) 0),
          .int (Py.roundHalfEven (sdmRelExpectedArg (m6.count true) (m4.count true) m4.length (m5.count true) m5.length)),
          .int ((sdmRelExpected (m6.count true) (m4.count true) m4.length (m5.count true) m5.length : Nat) : Int)] := by
  rw [← expected_int]
  simp [relBinds, sdm_apply_on_window_relative_sdm, runBinds, eval,
    evalBin, evalUn, binQ, cmpQ, sumV, sizeV, roundV, iteV, setMaskV, lnotV, sdmRelExpectedArg]
  exact ite_int_cast _ _

/-! ### steps 0–1: sorting, rainy-day masks, the `raise ValueError` guard -/

theorem rainy_eq (thr : Rat) (x : List Rat) :
    Py.selectWhere x (x.map (fun v => decide (thr ≤ v))) = rainy thr x := by
  rw [Lemmas.GenDebWin.selectWhere_map]; rfl

theorem count_mask (thr : Rat) (x : List Rat) :
    (x.map (fun v => decide (thr ≤ v))).count true = (rainy thr x).length := by
  unfold rainy
  induction x with
  | nil => rfl
  | cons a t ih => by_cases h : thr ≤ a <;> simp [h, ih]

theorem stage1 (env : Env P) (obs H F : List Rat) (hargs : env.args = [.arr obs, .arr H, .arr F]) :
    runBinds env (relBinds.take 11) []
      = (let thr := env.num "pr_lower_threshold"
         let fS := takeIdx F (argsort F)
         if rainy thr (sortQ obs) = [] ∨ rainy thr (sortQ H) = [] ∨ rainy thr fS = [] then .error "ValueError"
         else .ok [.arr (sortQ obs), .arr (sortQ H), .idx (argsort F), .arr fS,
           .mask ((sortQ obs).map (fun v => decide (thr ≤ v))), .mask ((sortQ H).map (fun v => decide (thr ≤ v))),
           .mask (fS.map (fun v => decide (thr ≤ v))),
           .arr (rainy thr (sortQ obs)), .arr (rainy thr (sortQ H)), .arr (rainy thr fS)]) := by
  simp [relBinds, sdm_apply_on_window_relative_sdm, runBinds, eval, hargs,
    evalBin, evalUn, cmpQ, orV, sortV, argsortV, sizeV, getitemV, rainy_eq]
  by_cases h1 : rainy (env.num "pr_lower_threshold") (sortQ obs) = [] <;>
  by_cases h2 : rainy (env.num "pr_lower_threshold") (sortQ H) = [] <;>
  by_cases h3 : rainy (env.num "pr_lower_threshold") (takeIdx F (argsort F)) = [] <;>
  simp [h1, h2, h3]

/-! ### the theorem -/

theorem relBinds_split : relBinds = relBinds.take 11 ++ ((relBinds.drop 11).take 4 ++ relBinds.drop 15) := by rfl

theorem rainy_length_le (thr : Rat) (x : List Rat) : (rainy thr x).length ≤ x.length := List.length_filter_le _ _

/-- **`_apply_on_window_relative_sdm` (the program regenerated from /repo) denotes `Model.Debiasers.sdmRelative`**, for
    all inputs and settings; where the code raises (`ValueError`: no value `≥ pr_lower_threshold` in one of the three
    samples) so does the model. -/
theorem sdm_relative_denote (env : Env P) (obs H F : List Rat) (hargs : env.args = [.arr obs, .arr H, .arr F]) :
    denote sdm_apply_on_window_relative_sdm env
      = (match sdmRelative env.fam (env.num "pr_lower_threshold") (env.num "cdf_threshold") obs H F with
         | .ok l => .ok [.arr l] | .error e => .error e) := by
  rw [denote_rel, relBinds_split, runBinds_append, stage1 env obs H F hargs]
  by_cases hc : rainy (env.num "pr_lower_threshold") (sortQ obs) = [] ∨
      rainy (env.num "pr_lower_threshold") (sortQ H) = [] ∨
      rainy (env.num "pr_lower_threshold") (takeIdx F (argsort F)) = []
  · simp [hc, sdmRelative]
  · simp only [if_neg hc, runBinds_append, stage2]
    rw [stage3]
    · simp [sdmRelative, hc, count_mask, Lemmas.Stats.sortQ_length, rankOf]
    · rw [count_mask]; exact sdmRelExpected_le _ _ _ _ _
    · exact rainy_length_le _ _

/-! ### the two outcomes under explicit guards -/

/-- the code's `raise ValueError("No values bigger than pr_lower_threshold …")` -/
theorem sdm_relative_denote_raises (env : Env P) (obs H F : List Rat) (hargs : env.args = [.arr obs, .arr H, .arr F])
    (h : rainy (env.num "pr_lower_threshold") (sortQ obs) = [] ∨ rainy (env.num "pr_lower_threshold") (sortQ H) = [] ∨
      rainy (env.num "pr_lower_threshold") (takeIdx F (argsort F)) = []) :
    denote sdm_apply_on_window_relative_sdm env = .error "ValueError" := by
  rw [sdm_relative_denote env obs H F hargs]
  simp [sdmRelative, h]

theorem sdmRelBcInitial_length (Fam : Family P) (t : Rat) (rO rH rF : List Rat) :
    (sdmRelBcInitial Fam t rO rH rF).length = rF.length := by
  simp [sdmRelBcInitial, sdmRelCdf, interpOnLength_length]

/-- the run that returns: `expected` zeros-or-kept values, `bc_initial`'s last `expected` values at the top of the sorted
    `cm_future`, everything below set to `0`, original order restored -/
theorem sdm_relative_denote_ok (env : Env P) (obs H F : List Rat) (hargs : env.args = [.arr obs, .arr H, .arr F])
    (hO : rainy (env.num "pr_lower_threshold") (sortQ obs) ≠ [])
    (hH : rainy (env.num "pr_lower_threshold") (sortQ H) ≠ [])
    (hF : rainy (env.num "pr_lower_threshold") (takeIdx F (argsort F)) ≠ []) :
    denote sdm_apply_on_window_relative_sdm env
      = (let thr := env.num "pr_lower_threshold"
         let rO := rainy thr (sortQ obs)
         let rH := rainy thr (sortQ H)
         let rF := rainy thr (takeIdx F (argsort F))
         let e := sdmRelExpected rF.length rO.length obs.length rH.length H.length
         let bc := sdmRelBcInitial env.fam (env.num "cdf_threshold") rO rH rF
         .ok [.arr (takeIdx (List.replicate (F.length - e) (0 : Rat) ++ bc.drop (rF.length - e)) (rankOf F))]) := by
  rw [sdm_relative_denote env obs H F hargs]
  have hlen : (takeIdx F (argsort F)).length = F.length := by simp [takeIdx, Lemmas.Stats.argsort_length]
  simp only [sdmRelative, List.length_eq_zero_iff, hO, hH, hF, or_self, if_false, hlen, sdmRelBcInitial_length]

/-- what the Python text needs besides the `ValueError` guard in order not to raise — all of it follows from that guard
    (so neither the DSL's nor the model's totalisations are used on a run that returns) -/
theorem sdm_relative_no_hidden_raise (Fam : Family P) (thr t : Rat) (obs H F : List Rat)
    (hO : rainy thr (sortQ obs) ≠ []) (hH : rainy thr (sortQ H) ≠ []) :
    let rO := rainy thr (sortQ obs)
    let rH := rainy thr (sortQ H)
    let fS := takeIdx F (argsort F)
    let rF := rainy thr fS
    let e := sdmRelExpected rF.length rO.length obs.length rH.length H.length
    let bc := sdmRelBcInitial Fam t rO rH rF
    -- `round(…)` gets a finite argument: no division by zero in `nOr / nO`, `nHr / nH`, `… / (nHr / nH)`
    (obs.length : Rat) ≠ 0 ∧ (H.length : Rat) ≠ 0 ∧ (rH.length : Rat) / (H.length : Rat) ≠ 0 ∧
    -- … and the rounded value is a non-negative `int`, clamped to the rainy days of `cm_future`
    0 ≤ Py.roundHalfEven (sdmRelExpectedArg rF.length rO.length obs.length rH.length H.length) ∧
    e ≤ rF.length ∧ rF.length ≤ fS.length ∧
    -- shapes: steps 3–6 are element-wise on arrays of `rF.length`; both slice assignments fit
    bc.length = rF.length ∧ (bc.drop (bc.length - e)).length = fS.length - (fS.length - e) := by
  intro rO rH fS rF e bc
  have hOl : 0 < obs.length := by
    have := rainy_length_le thr (sortQ obs)
    rw [Lemmas.Stats.sortQ_length] at this
    exact lt_of_lt_of_le (List.length_pos_iff.mpr hO) this
  have hHr : 0 < rH.length := List.length_pos_iff.mpr hH
  have hHl : 0 < H.length := by
    have := rainy_length_le thr (sortQ H)
    rw [Lemmas.Stats.sortQ_length] at this
    exact lt_of_lt_of_le hHr this
  have he : e ≤ rF.length := sdmRelExpected_le _ _ _ _ _
  have hr : rF.length ≤ fS.length := rainy_length_le _ _
  have hb : bc.length = rF.length := sdmRelBcInitial_length _ _ _ _ _
  refine ⟨by positivity, by positivity, by positivity, roundHalfEven_nonneg (sdmRelExpectedArg_nonneg _ _ _ _ _),
    he, hr, hb, ?_⟩
  rw [List.length_drop, hb]; omega

/-! ### non-vacuity -/

theorem sortQ_of_sorted {l : List Rat} (h : l.Pairwise (· ≤ ·)) : sortQ l = l := by
  apply List.Perm.eq_of_pairwise (le := (· ≤ ·)) _ (Lemmas.Stats.sortQ_sorted _) h (Lemmas.Stats.sortQ_perm _)
  intro a b _ _ h1 h2; exact le_antisymm h1 h2

/-- a concrete environment: the rational test-double family `ratOdds`, `pr_lower_threshold = 1/8`, `cdf_threshold = 1/64` -/
def relEnv (obs H F : List Rat) : Env Rat :=
  { args := [.arr obs, .arr H, .arr F],
    str := fun _ => "", flag := fun _ => false,
    num := fun s => if s = "pr_lower_threshold" then 1 / 8 else 1 / 64,
    ecdfM := fun _ => ecdf1 .step, iecdfM := fun _ => iecdf1 .inverted_cdf,
    fam := ratOdds.toFamily, parIdx := fun p _ => p, draws := fun _ => [] }

-- the three guards of `sdm_relative_denote_ok` hold on a sample with dry and rainy days …
example : rainy ((relEnv [0, 0, 1, 2] [0, 0, 0, 2] [0, 1 / 16, 1, 3]).num "pr_lower_threshold") (sortQ [0, 0, 1, 2]) ≠ [] ∧
    rainy ((relEnv [0, 0, 1, 2] [0, 0, 0, 2] [0, 1 / 16, 1, 3]).num "pr_lower_threshold") (sortQ [0, 0, 0, 2]) ≠ [] ∧
    rainy ((relEnv [0, 0, 1, 2] [0, 0, 0, 2] [0, 1 / 16, 1, 3]).num "pr_lower_threshold")
      (takeIdx [0, 1 / 16, 1, 3] (argsort [0, 1 / 16, 1, 3])) ≠ [] := by
  rw [takeIdx_argsort, sortQ_of_sorted (l := [0, 0, 1, 2]) (by decide +kernel),
    sortQ_of_sorted (l := [0, 0, 0, 2]) (by decide +kernel), sortQ_of_sorted (l := [0, 1 / 16, 1, 3]) (by decide +kernel)]
  decide +kernel

-- … the program returns on it (`round(2 · (2/4) / (1/4)) = 4` expected rainy days, clamped to the 2 present) …
example : (denote sdm_apply_on_window_relative_sdm (relEnv [0, 0, 1, 2] [0, 0, 0, 2] [0, 1 / 16, 1, 3])).isOk = true := by
  rw [sdm_relative_denote _ [0, 0, 1, 2] [0, 0, 0, 2] [0, 1 / 16, 1, 3] rfl]
  have e1 : sortQ [0, 0, 1, (2 : Rat)] = [0, 0, 1, 2] := sortQ_of_sorted (by decide +kernel)
  have e2 : sortQ [0, 0, 0, (2 : Rat)] = [0, 0, 0, 2] := sortQ_of_sorted (by decide +kernel)
  have e3 : takeIdx [0, 1 / 16, 1, (3 : Rat)] (argsort [0, 1 / 16, 1, 3]) = [0, 1 / 16, 1, 3] := by
    rw [takeIdx_argsort]; exact sortQ_of_sorted (by decide +kernel)
  unfold sdmRelative
  simp only [e1, e2, e3]
  decide +kernel

-- … and raises on a `cm_future` without a rainy day
example : denote sdm_apply_on_window_relative_sdm (relEnv [0, 0, 1, 2] [0, 0, 0, 2] [0, 1 / 16]) = .error "ValueError" := by
  apply sdm_relative_denote_raises _ [0, 0, 1, 2] [0, 0, 0, 2] [0, 1 / 16] rfl
  right; right
  rw [takeIdx_argsort, sortQ_of_sorted (l := [0, 1 / 16]) (by decide +kernel)]
  decide +kernel

/-! ### CDFt `_apply_debiasing_steps`: one draw list -/

/-- the draws the `k`-th `np.random.uniform` call of `_apply_SSR_steps_before_adjustment` starts from, when the three
    calls (sizes `nObs`, `nHist`, `cm_future.size`) consume one stream `u` in order -/
def ssrSplitDraws (u : List Rat) (nObs nHist : Nat) : Nat → List Rat
  | 0 => u
  | 1 => u.drop nObs
  | _ => u.drop (nObs + nHist)

/-- `cdft_steps_denote` for a single draw list: no hypotheses on `env.draws` -/
theorem cdft_steps_denote_single (env : Env P) (ssr : Bool) (d : DeltaShift) (obs H F u : List Rat)
    (hargs : env.args = [.arr obs, .arr H, .arr F]) (hd : env.str "delta_shift" = deltaShiftStr d)
    (hs : env.flag "SSR" = ssr) :
    denote cdft_apply_debiasing_steps { env with draws := ssrSplitDraws u obs.length H.length }
      = .ok [.arr (cdftStepsG ssr (env.ecdfM "ecdf_method") (env.iecdfM "iecdf_method") d obs H F u)] :=
  Lemmas.GenDebWin.cdft_steps_denote { env with draws := ssrSplitDraws u obs.length H.length } ssr d obs H F u
    hargs hd hs rfl rfl rfl

theorem cdft_steps_denote_methods_single (env : Env P) (ssr : Bool) (d : DeltaShift) (em : EcdfMethod) (im : IecdfMethod)
    (obs H F u : List Rat)
    (hargs : env.args = [.arr obs, .arr H, .arr F]) (hd : env.str "delta_shift" = deltaShiftStr d)
    (hs : env.flag "SSR" = ssr)
    (he : env.ecdfM "ecdf_method" = ecdf1 em) (hi : env.iecdfM "iecdf_method" = iecdf1 im) :
    denote cdft_apply_debiasing_steps { env with draws := ssrSplitDraws u obs.length H.length }
      = .ok [.arr (cdftSteps ssr d em im obs H F u)] :=
  Lemmas.GenDebWin.cdft_steps_denote_methods { env with draws := ssrSplitDraws u obs.length H.length } ssr d em im
    obs H F u hargs hd hs rfl rfl rfl he hi

/-- non-vacuity: SSR on, zeros at different positions of the three samples; the (toy) `ecdf` / `iecdf` add the sum of
    their sample, so that the result depends on every draw that is used -/
def ssrEnv : Env Unit :=
  { args := [.arr [1, 0], .arr [0, 2], .arr [3, 0]],
    str := fun s => if s = "delta_shift" then "no_shift" else "", flag := fun s => s == "SSR",
    num := fun _ => 0,
    ecdfM := fun _ s y => y + s.sum, iecdfM := fun _ s p => p + s.sum,
    fam := { fit := fun _ => (), cdf := fun _ x => x, ppf := fun _ q => q }, parIdx := fun _ _ => 0,
    draws := fun _ => [] }

example :
    denote cdft_apply_debiasing_steps
        { ssrEnv with draws := ssrSplitDraws [1 / 4, 1 / 8, 1 / 2, 1 / 3, 1 / 5, 1 / 7] 2 2 }
      = .ok [.arr (cdftStepsG true (fun s y => y + s.sum) (fun s p => p + s.sum) .no_shift [1, 0] [0, 2] [3, 0]
          [1 / 4, 1 / 8, 1 / 2, 1 / 3, 1 / 5, 1 / 7])] :=
  cdft_steps_denote_single ssrEnv true .no_shift [1, 0] [0, 2] [3, 0] [1 / 4, 1 / 8, 1 / 2, 1 / 3, 1 / 5, 1 / 7] rfl rfl rfl

-- obs' = [1, 1/8], cm_hist' = [1/2, 2], cm_future' = [3, 1/7]: the second, third and sixth draw are the ones used
example : ssrBefore [1, 0] [0, 2] [3, 0] [1 / 4, 1 / 8, 1 / 2, 1 / 3, 1 / 5, 1 / 7]
    = ([1, 1 / 8], [1 / 2, 2], [3, 1 / 7], 1) := by decide +kernel
example : cdftStepsG true (fun s y => y + s.sum) (fun s p => p + s.sum) .no_shift [1, 0] [0, 2] [3, 0]
    [1 / 4, 1 / 8, 1 / 2, 1 / 3, 1 / 5, 1 / 7] = [723 / 56, 563 / 56] := by decide +kernel

end Lemmas.GenDebWinSdm
