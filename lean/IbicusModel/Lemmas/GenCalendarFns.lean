/-
  Calendar tier A (C07 / C08 / C19, and every property that reads a time axis): the structure of the calendar helpers of
  `ibicus/utils/_utils.py` regenerated from /repo's current source (`Gen/CalendarFns.lean`, extractor
  `translator/extract_calendar.py`) equals the expected value of `Model/CalendarFns.lean` (`gen_*`), and the denotation of
  the expected value is the hand-written model every theorem is stated on:

    day_of_year / month / year / day   `denotePub … = dayOfYear / month / year / day of every date` for object arrays of
                                       `date`-like elements with or without `timetuple` and for `datetime64` arrays of
                                       every unit and time of day; the error branch (`ValueError`) for an empty axis and
                                       for an element without calendar fields
    season                             the month → season rows = `Model.Calendar.season` for every natural number (all
                                       twelve months and the `None` branch), negative numbers → `None`
    create_array_of_consecutive_dates  = `Model.Calendar.inferred n`; with `Props.CalendarAgree.inferred_agree` the years /
                                       days of year read from it are `Model.InferredDates.inferredYears / inferredDoy`
    get_yearly_means, get_years_and_yearly_means = `Model.Isimip.yearlyMeans`, `(uniqueYears, yearlyMeans)`
    get_mask_for_unique_subarray       = `Model.Loops.uniqueMask`

  A change of the real helpers such as: a vectorised `datetime64` branch (a table of days before the month without the
  leap rule, rounding of the fractional day, `timedelta64[M]` months, `np.fmod` of months since 1970), `utctimetuple`
  instead of `timetuple`, a quarter table for the seasons, another start date or step of the inferred calendar … changes
  the regenerated value (or leaves the recognised shapes: the definition is not emitted) and breaks `gen_*` here.
  Trusted base: the meaning of the primitives in `Model/CalendarFns.lean` (its header lists them).
-/
import IbicusModel.Gen.CalendarFns
import IbicusModel.Props.CalendarAgree
import Mathlib.Tactic.IntervalCases
import Mathlib.Data.List.Basic

namespace Lemmas.GenCalendarFns
open Model.CalendarFns Model.Calendar

theorem gen_day : Gen.CalendarFns.day = dayFn := by decide +kernel
theorem gen_month : Gen.CalendarFns.month = monthFn := by decide +kernel
theorem gen_year : Gen.CalendarFns.year = yearFn := by decide +kernel
theorem gen_dayOfYear : Gen.CalendarFns.dayOfYear = dayOfYearFn := by decide +kernel
theorem gen_season : Gen.CalendarFns.season = seasonFn := by decide +kernel
theorem gen_consec : Gen.CalendarFns.consec = consecSpec := by decide +kernel
theorem gen_yearlyMeans : Gen.CalendarFns.yearlyMeans = yearlyMeansE := by decide +kernel
theorem gen_yearsAndYearlyMeans : Gen.CalendarFns.yearsAndYearlyMeans = yearsAndYearlyMeansE := by decide +kernel
theorem gen_uniqueMask : Gen.CalendarFns.uniqueMask = uniqueMaskE := by decide +kernel

/-- the date fields an accessor reads -/
def fieldOf (a : String) (p : Int × Nat × Nat) : Int :=
  if a = "year" then p.1 else if a = "month" then p.2.1 else p.2.2

theorem attr_elem (ps) (a : String) (ha : a = "year" ∨ a = "month" ∨ a = "day") (el : Elem) (p : Int × Nat × Nat)
    (h : fields el = some p) : denoteElem ps (attrFn a).elem el = .ok (fieldOf a p) := by
  obtain ⟨y, m, d⟩ := p
  rcases ha with rfl | rfl | rfl <;>
    simp [denoteElem, attrFn, denoteBody, denotePE, h, fieldOf]

theorem attr_elem_other (ps) (a : String) : denoteElem ps (attrFn a).elem .other = .error "ValueError" := by
  simp [denoteElem, attrFn, denoteBody, denotePE, fields]

theorem ordinal_sub (y : Int) (m d : Nat) : ordinal y m d - ordinal y 1 1 = (dayOfYear y m d : Nat) - 1 := by
  simp [ordinal, dayOfYear, daysBefore]

theorem dayOfYear_elem (el : Elem) (y : Int) (m d : Nat) (h : fields el = some (y, m, d)) :
    denoteElem pubs dayOfYearFn.elem el = .ok (dayOfYear y m d : Nat) := by
  cases el with
  | date y' m' d' =>
    simp [fields] at h; obtain ⟨rfl, rfl, rfl⟩ := h
    simp [denoteElem, dayOfYearFn, denoteBody, denotePE, hasattr]
  | bare y' m' d' =>
    simp [fields] at h; obtain ⟨rfl, rfl, rfl⟩ := h
    have hv : valid y' 1 1 = true := by simp [valid, monthLen]
    simp [denoteElem, dayOfYearFn, denoteBody, denotePE, hasattr, pubs, yearFn, attrFn, fields, hv, ordinal_sub, Except.map]
  | other => simp [fields] at h

theorem dayOfYear_elem_other : denoteElem pubs dayOfYearFn.elem .other = .error "ValueError" := by
  simp [denoteElem, dayOfYearFn, denoteBody, denotePE, hasattr, pubs]


/-! ### arrays -/

theorem mapM_fields {g : Elem → Except String Int} {h : Int × Nat × Nat → Int}
    (hg : ∀ el p, fields el = some p → g el = .ok (h p)) :
    ∀ (l : List Elem) (ds : List (Int × Nat × Nat)), l.mapM fields = some ds → l.mapM g = .ok (ds.map h) := by
  intro l
  induction l with
  | nil => intro ds h; simp at h; subst h; rfl
  | cons el t ih =>
    intro ds h
    rw [List.mapM_cons] at h
    cases hf : fields el with
    | none => simp [hf] at h
    | some p =>
      cases ht : t.mapM fields with
      | none => simp [hf, ht] at h
      | some ds' =>
        simp [hf, ht] at h
        subst h
        rw [List.mapM_cons, hg el p hf, ih ds' ht]
        rfl

theorem mapM_dates {g : Elem → Except String Int} {h : Int × Nat × Nat → Int}
    (hg : ∀ el p, fields el = some p → g el = .ok (h p)) (l : List ((Int × Nat × Nat) × Nat)) :
    (l.map (fun s => Elem.date s.1.1 s.1.2.1 s.1.2.2)).mapM g = .ok ((l.map (·.1)).map h) := by
  induction l with
  | nil => rfl
  | cons s t ih =>
    simp only [List.map_cons, List.mapM_cons]
    rw [hg (Elem.date s.1.1 s.1.2.1 s.1.2.2) s.1 rfl, ih]
    rfl

/-- a public accessor whose per-element function returns `h` of the date fields returns `h` of every date of the axis —
    for object arrays of dates (with or without `timetuple`) and for `datetime64` arrays of every unit and time of day -/
theorem pub_denote (f : PubFn) (h : Int × Nat × Nat → Int)
    (hc : f.coerce = "np.array") (ht : f.test = "np.issubdtype(_.dtype, np.datetime64)")
    (hconv : f.conv = [.astype "datetime64[D]", .astypeObject]) (hv : f.elem.vectorizer = "np.vectorize(_)")
    (hg : ∀ el p, fields el = some p → denoteElem pubs f.elem el = .ok (h p))
    (a : Arr) (ds : List (Int × Nat × Nat)) (hd : a.dates = some ds) (hne : ds ≠ []) :
    denotePub pubs f a = .ok (ds.map h) := by
  unfold denotePub
  rw [if_pos ⟨hc, ht⟩]
  cases a with
  | obj l =>
    have hl : l ≠ [] := by
      rintro rfl
      simp [Arr.dates] at hd
      exact hne hd
    simp only [vectorized, hv, if_true, if_neg hl]
    exact mapM_fields hg l ds hd
  | dt64 u l =>
    simp only [Arr.dates, Option.some.injEq] at hd
    subst hd
    have hl : l ≠ [] := by
      rintro rfl
      exact hne rfl
    simp only [hconv, applyConvs, applyConv, if_true, List.map_map]
    simp only [vectorized, hv, if_true]
    rw [if_neg (by simpa using hl)]
    have := mapM_dates hg (l.map (fun s => (s.1, 0)))
    simpa [List.map_map, Function.comp_def] using this


/-- `ibicus.utils.month` of a time axis is the month of every date (object arrays of `date` / `datetime` / cftime-like
    types, `datetime64` arrays of every unit, any time of day) -/
theorem month_denote (a : Arr) (ds) (hd : a.dates = some ds) (hne : ds ≠ []) :
    denotePub pubs monthFn a = .ok (ds.map (fun p => (p.2.1 : Int))) := by
  refine pub_denote monthFn _ rfl rfl rfl rfl ?_ a ds hd hne
  intro el p h
  exact attr_elem pubs "month" (by simp) el p h

theorem year_denote (a : Arr) (ds) (hd : a.dates = some ds) (hne : ds ≠ []) :
    denotePub pubs yearFn a = .ok (ds.map (fun p => p.1)) := by
  refine pub_denote yearFn _ rfl rfl rfl rfl ?_ a ds hd hne
  intro el p h
  exact attr_elem pubs "year" (by simp) el p h

theorem day_denote (a : Arr) (ds) (hd : a.dates = some ds) (hne : ds ≠ []) :
    denotePub pubs dayFn a = .ok (ds.map (fun p => (p.2.2 : Int))) := by
  refine pub_denote dayFn _ rfl rfl rfl rfl ?_ a ds hd hne
  intro el p h
  exact attr_elem pubs "day" (by simp) el p h

/-- `ibicus.utils.day_of_year` of a time axis is `Model.Calendar.dayOfYear` of every date — through `timetuple().tm_yday`
    and through the fallback `(x - type(x)(year(x), 1, 1)).days + 1` alike -/
theorem dayOfYear_denote (a : Arr) (ds) (hd : a.dates = some ds) (hne : ds ≠ []) :
    denotePub pubs dayOfYearFn a = .ok (ds.map (fun p => ((Model.Calendar.dayOfYear p.1 p.2.1 p.2.2 : Nat) : Int))) :=
  pub_denote dayOfYearFn _ rfl rfl rfl rfl (fun el p h => dayOfYear_elem el p.1 p.2.1 p.2.2 h) a ds hd hne

/-- the error branch: an empty axis (numpy refuses to vectorise over size 0) and an element without calendar fields -/
theorem pub_denote_empty (f : PubFn) (hc : f.coerce = "np.array") (ht : f.test = "np.issubdtype(_.dtype, np.datetime64)")
    (hv : f.elem.vectorizer = "np.vectorize(_)") : denotePub pubs f (.obj []) = .error "ValueError" := by
  simp [denotePub, hc, ht, vectorized, hv]

theorem mapM_error {g : Elem → Except String Int} (hg : ∀ el, g el = .error "ValueError" ∨ ∃ n, g el = .ok n) :
    ∀ (l : List Elem), (∃ el ∈ l, g el = .error "ValueError") → l.mapM g = .error "ValueError" := by
  intro l
  induction l with
  | nil => rintro ⟨_, h, _⟩; simp at h
  | cons x t ih =>
    rintro ⟨el, hel, he⟩
    rw [List.mapM_cons]
    rcases hg x with hx | ⟨n, hx⟩
    · rw [hx]; rfl
    · rw [hx]
      have : ∃ el ∈ t, g el = .error "ValueError" := by
        rcases List.mem_cons.1 hel with rfl | h
        · rw [hx] at he; cases he
        · exact ⟨el, h, he⟩
      rw [ih this]; rfl

theorem month_denote_other (l : List Elem) (h : Elem.other ∈ l) : denotePub pubs monthFn (.obj l) = .error "ValueError" := by
  have hl : l ≠ [] := by rintro rfl; simp at h
  simp only [denotePub, monthFn, attrFn, vectorized, and_self, if_true, if_neg hl]
  refine mapM_error (fun el => ?_) l ⟨_, h, attr_elem_other pubs "month"⟩
  cases el with
  | other => exact Or.inl (attr_elem_other pubs "month")
  | date y m d => exact Or.inr ⟨_, attr_elem pubs "month" (by simp) _ _ rfl⟩
  | bare y m d => exact Or.inr ⟨_, attr_elem pubs "month" (by simp) _ _ rfl⟩

theorem dayOfYear_denote_other (l : List Elem) (h : Elem.other ∈ l) :
    denotePub pubs dayOfYearFn (.obj l) = .error "ValueError" := by
  have hl : l ≠ [] := by rintro rfl; simp at h
  simp only [denotePub, dayOfYearFn, vectorized, and_self, if_true, if_neg hl]
  refine mapM_error (fun el => ?_) l ⟨_, h, dayOfYear_elem_other⟩
  cases el with
  | other => exact Or.inl dayOfYear_elem_other
  | date y m d => exact Or.inr ⟨_, dayOfYear_elem _ _ _ _ rfl⟩
  | bare y m d => exact Or.inr ⟨_, dayOfYear_elem _ _ _ _ rfl⟩

/-! ### seasons -/

/-- the month → season rows read from the source are `Model.Calendar.season`: all twelve months, and `None` for every
    other number -/
theorem seasonOf_none (m : Int) (h : m < 1 ∨ 12 < m) : seasonOf seasonFn.rows seasonFn.dflt m = none := by
  have hf : seasonFn.rows.find? (fun r => r.1.contains m) = none := by
    rw [List.find?_eq_none]
    intro r hr
    simp only [seasonFn, List.mem_cons, List.not_mem_nil, or_false] at hr
    rcases hr with rfl | rfl | rfl | rfl <;> simp <;> omega
  simp only [seasonOf, hf]; rfl

theorem season_table (m : Nat) : seasonOf seasonFn.rows seasonFn.dflt (m : Int) = Model.Calendar.season m := by
  by_cases h : m ≤ 12
  · interval_cases m <;> decide
  · have hs : Model.Calendar.season m = none := by
      unfold Model.Calendar.season
      repeat (rw [if_neg (by omega)])
    rw [hs]
    exact seasonOf_none m (by omega)

/-- `ibicus.utils.season` of a time axis is `Model.Calendar.season` of the month of every date -/
theorem season_denote (a : Arr) (ds) (hd : a.dates = some ds) (hne : ds ≠ []) :
    denoteSeason (denotePub pubs monthFn) seasonFn a = .ok (ds.map (fun p => Model.Calendar.season p.2.1)) := by
  unfold denoteSeason
  rw [if_pos ⟨rfl, rfl⟩, month_denote a ds hd hne]
  simp only [List.map_eq_nil_iff, if_neg hne, List.map_map]
  congr 1
  apply List.map_congr_left
  intro p _
  exact season_table p.2.1

/-! ### the inferred calendar -/

def asDates (l : List (Int × Nat × Nat)) : List Elem := l.map (fun p => Elem.date p.1 p.2.1 p.2.2)

/-- `create_array_of_consecutive_dates(n)` (default start, as every call in the library) is `n` consecutive `date`s from
    1950-01-01: `Model.Calendar.inferred` -/
theorem consec_denote (n : Nat) : denoteConsec consecSpec n = .ok (asDates (Model.Calendar.inferred n)) := by
  simp [denoteConsec, consecSpec, applyConvs, applyConv, inferred, asDates, List.map_map, Function.comp_def]
  rfl

theorem asDates_dates (l : List (Int × Nat × Nat)) : (Arr.obj (asDates l)).dates = some l := by
  induction l with
  | nil => rfl
  | cons p t ih =>
    simp only [Arr.dates, asDates, List.map_cons, List.mapM_cons] at ih ⊢
    rw [ih]
    rfl

theorem inferred_ne_nil (n : Nat) (hn : 0 < n) : Model.Calendar.inferred n ≠ [] := by
  intro h
  have := Props.Calendar.run_length n 1950 1 1
  unfold inferred at h
  rw [h] at this
  simp at this
  omega

theorem inferred_yd (n k : Nat) (hk : k < n) (hk' : k < (inferred n).length) :
    Props.CalendarAgree.yd ((inferred n)[k]) = Model.InferredDates.dateOf k := by
  have := Props.CalendarAgree.inferred_agree n k hk
  rw [List.getElem?_eq_getElem hk'] at this
  simpa using this

/-- the years / days of year the library reads from an inferred time axis are `Model.InferredDates.inferredYears` /
    `inferredDoy` (the model the trend / window theorems of C02 use for omitted time arrays) -/
theorem year_consec (n : Nat) (hn : 0 < n) :
    denotePub pubs yearFn (.obj (asDates (inferred n))) = .ok (Model.InferredDates.inferredYears n) := by
  rw [year_denote _ _ (asDates_dates _) (inferred_ne_nil n hn)]
  congr 1
  apply List.ext_getElem
  · simp [Model.InferredDates.inferredYears, inferred, Props.Calendar.run_length]
  · intro k h1 h2
    have hk : k < n := by simpa [Model.InferredDates.inferredYears] using h2
    have hk' : k < (inferred n).length := by simpa using h1
    have := inferred_yd n k hk hk'
    simp only [List.getElem_map, Model.InferredDates.inferredYears, List.getElem_range]
    rw [← this]
    rfl

theorem dayOfYear_consec (n : Nat) (hn : 0 < n) :
    denotePub pubs dayOfYearFn (.obj (asDates (inferred n))) = .ok (Model.InferredDates.inferredDoy n) := by
  rw [dayOfYear_denote _ _ (asDates_dates _) (inferred_ne_nil n hn)]
  congr 1
  apply List.ext_getElem
  · simp [Model.InferredDates.inferredDoy, inferred, Props.Calendar.run_length]
  · intro k h1 h2
    have hk : k < n := by simpa [Model.InferredDates.inferredDoy] using h2
    have hk' : k < (inferred n).length := by simpa using h1
    have := inferred_yd n k hk hk'
    simp only [List.getElem_map, Model.InferredDates.inferredDoy, List.getElem_range]
    rw [← this]
    rfl

/-! ### yearly means -/

theorem mapM_ok {α β} (g : α → Except String β) (h : α → β) :
    ∀ (l : List α), (∀ k ∈ l, g k = .ok (h k)) → l.mapM g = .ok (l.map h) := by
  intro l
  induction l with
  | nil => intro _; rfl
  | cons a t ih =>
    intro hg
    rw [List.mapM_cons, hg a (by simp), ih (fun k hk => hg k (by simp [hk]))]
    rfl

theorem collectRats_map {α} (q : α → Rat) (l : List α) : collectRats (l.map (fun k => YV.rat (q k))) = some (l.map q) := by
  induction l with
  | nil => rfl
  | cons a t ih => simp [collectRats, ih]

/-- a year that occurs selects at least one value -/
theorem selectWhere_ne_nil (k : Int) : ∀ (years : List Int) (x : List Rat), x.length = years.length → k ∈ years →
    Py.selectWhere x (years.map (fun t => decide (t = k))) ≠ [] := by
  intro years
  induction years with
  | nil => intro x _ h; simp at h
  | cons y t ih =>
    intro x hl hk
    cases x with
    | nil => simp at hl
    | cons a xs =>
      by_cases hy : y = k
      · simp [Py.selectWhere, hy]
      · have hk' : k ∈ t := by
          rcases List.mem_cons.1 hk with h | h
          · exact absurd h.symm hy
          · exact h
        have := ih xs (by simpa using hl) hk'
        simpa [Py.selectWhere, hy] using this

/-- `get_yearly_means(x, years)` is `Model.Isimip.yearlyMeans` (one value per year) -/
theorem yearlyMeans_denote (x : List Rat) (years : List Int) (h : x.length = years.length) :
    denoteYE (.rats x) (.ints years) none yearlyMeansE = .ok (.rats (Model.Isimip.yearlyMeans x years)) := by
  have hg : ∀ k ∈ Model.Isimip.uniqueYears years,
      denoteYE (.rats x) (.ints years) (some (.int k)) (.mean (.sel .p0 (.eq .p1 .v)))
        = .ok (.rat (Model.Stats.mean (Py.selectWhere x (years.map (fun t => decide (t = k)))))) := by
    intro k hk
    have hmem : k ∈ years := List.mem_mergeSort.mp (List.mem_eraseDups.mp hk)
    have hne := selectWhere_ne_nil k years x h hmem
    simp [denoteYE, h, hne]
  simp only [yearlyMeansE, denoteYE] at hg ⊢
  rw [mapM_ok _ _ _ hg]
  simp only [collectRats_map]
  rfl

/-- `get_years_and_yearly_means(x, years)` is `(np.unique(years), yearly means)` — the pair the detrending of ISIMIP
    step 3 is instantiated with (`Lemmas.GenIsimipSteps.remove_trend`) -/
theorem yearsAndYearlyMeans_denote (x : List Rat) (years : List Int) (h : x.length = years.length) :
    denoteYE (.rats x) (.ints years) none yearsAndYearlyMeansE
      = .ok (.pair (.ints (Model.Isimip.uniqueYears years)) (.rats (Model.Isimip.yearlyMeans x years))) := by
  have := yearlyMeans_denote x years h
  simp only [yearsAndYearlyMeansE, denoteYE] at this ⊢
  rw [this]

/-! ### the mask of first occurrences -/

/-- `True` exactly at the first occurrence of every value (`Model.Loops.firstOccFrom` on integers) -/
def firstOcc (seen : List Int) : List Int → List Bool
  | [] => []
  | a :: t => (!seen.contains a) :: firstOcc (a :: seen) t

theorem firstOcc_length (seen : List Int) (x : List Int) : (firstOcc seen x).length = x.length := by
  induction x generalizing seen with
  | nil => rfl
  | cons a t ih => simp [firstOcc, ih]

theorem firstOcc_getElem (x : List Int) : ∀ (seen : List Int) (k : Nat) (hk : k < x.length),
    (firstOcc seen x)[k]'(by rw [firstOcc_length]; exact hk) = (!seen.contains x[k] && decide (x.idxOf x[k] = k)) := by
  induction x with
  | nil => intro _ k hk; simp at hk
  | cons a t ih =>
    intro seen k hk
    cases k with
    | zero => simp [firstOcc]
    | succ j =>
      have hj : j < t.length := by simpa using hk
      simp only [firstOcc, List.getElem_cons_succ]
      rw [ih (a :: seen) j hj]
      by_cases ha : a = t[j]
      · simp [ha]
      · have ha' : ¬ t[j] = a := fun h => ha h.symm
        simp [ha, ha']

/-- the index array of `np.unique(x, return_index=True)` holds `k` iff `x[k]` occurs first at `k` -/
theorem uniqueIndex_contains (x : List Int) (k : Nat) (hk : k < x.length) :
    (PyElem.uniqueIndex x).2.contains k = decide (x.idxOf x[k] = k) := by
  rw [Bool.eq_iff_iff]
  simp only [PyElem.uniqueIndex, List.contains_iff_mem, List.mem_map, List.mem_eraseDups, List.mem_mergeSort, decide_eq_true_eq]
  constructor
  · rintro ⟨v, hv, rfl⟩
    have hlt : x.idxOf v < x.length := List.idxOf_lt_length_iff.mpr hv
    simp [List.getElem_idxOf hlt]
  · intro h
    exact ⟨x[k], List.getElem_mem hk, h⟩

theorem uniqueMask_denote_int (x : List Int) (a1 : YV) :
    denoteYE (.ints x) a1 none uniqueMaskE = .ok (.bools (firstOcc [] x)) := by
  have hall : ((PyElem.uniqueIndex x).2.all (· < (x.map (fun _ => false)).length)) = true := by
    rw [List.all_eq_true]
    intro i hi
    simp only [PyElem.uniqueIndex, List.mem_map, List.mem_eraseDups, List.mem_mergeSort] at hi
    obtain ⟨v, hv, rfl⟩ := hi
    simpa using List.idxOf_lt_length_iff.mpr hv
  simp only [uniqueMaskE, denoteYE, setTrueAtIdx, hall, if_true, Except.map]
  congr 2
  apply List.ext_getElem
  · simp [firstOcc_length]
  · intro k h1 h2
    have hk : k < x.length := by simpa using h1
    rw [firstOcc_getElem x [] k hk]
    have hu := uniqueIndex_contains x k hk
    rw [List.contains_eq_mem] at hu
    simp [hu, hk]

theorem firstOcc_nat (w : List Nat) : ∀ (seen : List Nat),
    firstOcc (seen.map Int.ofNat) (w.map Int.ofNat) = Model.Loops.firstOccFrom seen w := by
  induction w with
  | nil => intro _; rfl
  | cons a t ih =>
    intro seen
    have hc : (seen.map Int.ofNat).contains (Int.ofNat a) = seen.contains a := by
      rw [Bool.eq_iff_iff]
      simp only [List.contains_iff_mem, List.mem_map]
      constructor
      · rintro ⟨b, hb, he⟩
        have : b = a := Int.ofNat.inj he
        exact this ▸ hb
      · intro h; exact ⟨a, h, rfl⟩
    simp only [List.map_cons, firstOcc, Model.Loops.firstOccFrom, hc]
    rw [← ih (a :: seen)]
    rfl

/-- `get_mask_for_unique_subarray(w)` is `Model.Loops.uniqueMask w` (the mask the write-back loops are stated with) -/
theorem uniqueMask_denote (w : List Nat) (a1 : YV) :
    denoteYE (.ints (w.map Int.ofNat)) a1 none uniqueMaskE = .ok (.bools (Model.Loops.uniqueMask w)) := by
  rw [uniqueMask_denote_int, Model.Loops.uniqueMask, ← firstOcc_nat w []]
  rfl

end Lemmas.GenCalendarFns
