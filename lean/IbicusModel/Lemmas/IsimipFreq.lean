/-
  Helper lemmas for the ISIMIP step 6 frequency kernels (C11).
-/
import IbicusModel.Model.IsimipFreq
import Mathlib.Tactic.Linarith
import Mathlib.Tactic.Ring
import Mathlib.Tactic.FieldSimp
import Mathlib.Tactic.Positivity
import Mathlib.Algebra.Order.Field.Basic
import Mathlib.Data.Rat.Floor
import Mathlib.Data.List.Basic
import Mathlib.Data.List.Count

namespace Lemmas.IsimipFreq
open Model.IsimipFreq

/-! ### `np.isclose`, absolute value -/

theorem absQ_nonneg (q : Rat) : 0 ≤ Py.absQ q := by
  unfold Py.absQ; split_ifs with h <;> linarith

theorem absQ_zero : Py.absQ 0 = 0 := by
  unfold Py.absQ; simp

theorem isclose_self (a : Rat) : Py.isclose a a = true := by
  unfold Py.isclose
  have := absQ_nonneg a
  simp only [sub_self, absQ_zero, decide_eq_true_eq]
  positivity

theorem isclose_iff (a b : Rat) :
    Py.isclose a b = true ↔ Py.absQ (a - b) ≤ (1 : Rat) / 100000000 + (1 : Rat) / 100000 * Py.absQ b := by
  unfold Py.isclose; simp

/-! ### floor and round-half-even -/

theorem rat_floor_eq (q : Rat) (z : Int) (h1 : (z : Rat) ≤ q) (h2 : q < (z : Rat) + 1) : q.floor = z := by
  have a : z ≤ q.floor := Rat.le_floor_iff.mpr h1
  have b : q.floor < z + 1 := Rat.floor_lt_iff.mpr (by push_cast; exact h2)
  omega

theorem floor_le (q : Rat) : (q.floor : Rat) ≤ q := Rat.le_floor_iff.mp (le_refl _)

theorem lt_floor_add_one (q : Rat) : q < (q.floor : Rat) + 1 := by
  have : q.floor < q.floor + 1 := by omega
  have := Rat.floor_lt_iff.mp this
  push_cast at this; exact this

/-- rounding is monotone with respect to integer bounds: `a ≤ q ≤ b ⇒ a ≤ round q ≤ b` -/
theorem roundHalfEven_bounds (q : Rat) (a b : Int) (ha : (a : Rat) ≤ q) (hb : q ≤ (b : Rat)) :
    a ≤ Py.roundHalfEven q ∧ Py.roundHalfEven q ≤ b := by
  have h1 := floor_le q
  have h2 := lt_floor_add_one q
  have hfa : a ≤ q.floor := Rat.le_floor_iff.mpr ha
  have hfb : q.floor ≤ b := by
    have : (q.floor : Rat) ≤ (b : Rat) := le_trans h1 hb
    exact_mod_cast this
  -- if the fractional part is positive the floor is strictly below `b`
  have hstrict : 0 < q - (q.floor : Rat) → q.floor + 1 ≤ b := by
    intro hr
    have : (q.floor : Rat) < (b : Rat) := by linarith
    have : q.floor < b := by exact_mod_cast this
    omega
  unfold Py.roundHalfEven
  simp only []
  split_ifs with c1 c2 c3
  · exact ⟨hfa, hfb⟩
  · exact ⟨by omega, hstrict (by linarith)⟩
  · exact ⟨hfa, hfb⟩
  · have : q - (q.floor : Rat) = 1 / 2 := by
      push Not at c1 c2; linarith
    exact ⟨by omega, hstrict (by linarith)⟩

/-- the error of rounding is at most a half -/
theorem roundHalfEven_close (q : Rat) :
    q - 1 / 2 ≤ (Py.roundHalfEven q : Rat) ∧ (Py.roundHalfEven q : Rat) ≤ q + 1 / 2 := by
  have h1 := floor_le q
  have h2 := lt_floor_add_one q
  unfold Py.roundHalfEven
  simp only []
  split_ifs with c1 c2 c3 <;> push_cast <;> constructor <;> linarith

theorem floor_intDiv (a b : Int) (hb : 0 < b) : ((a : Rat) / (b : Rat)).floor = a / b := by
  have hbq : (0 : Rat) < (b : Rat) := by exact_mod_cast hb
  have hdm := Int.emod_add_mul_ediv a b
  have hm0 := Int.emod_nonneg a (ne_of_gt hb)
  have hm1 := Int.emod_lt_of_pos a hb
  have hq : (a : Rat) = ((a % b : Int) : Rat) + (b : Rat) * ((a / b : Int) : Rat) := by
    exact_mod_cast hdm.symm
  apply rat_floor_eq
  · rw [le_div_iff₀ hbq]
    have : (0 : Rat) ≤ ((a % b : Int) : Rat) := by exact_mod_cast hm0
    rw [hq]; nlinarith
  · rw [div_lt_iff₀ hbq]
    have : ((a % b : Int) : Rat) < (b : Rat) := by exact_mod_cast hm1
    rw [hq]; nlinarith

/-- **Bridge** between the integer kernel and the rational form the code (and `Gen`) uses:
    `round(a / b) = rhe a b` for `b > 0`. -/
theorem roundHalfEven_div (a b : Int) (hb : 0 < b) :
    Py.roundHalfEven ((a : Rat) / (b : Rat)) = rhe a b := by
  have hbq : (0 : Rat) < (b : Rat) := by exact_mod_cast hb
  have hdm := Int.emod_add_mul_ediv a b
  have hq : (a : Rat) = ((a % b : Int) : Rat) + (b : Rat) * ((a / b : Int) : Rat) := by
    exact_mod_cast hdm.symm
  have hr : (a : Rat) / (b : Rat) - ((a / b : Int) : Rat) = ((a % b : Int) : Rat) / (b : Rat) := by
    rw [hq]; field_simp; ring
  have e1 : (((a % b : Int) : Rat) / (b : Rat) < 1 / 2) ↔ 2 * (a % b) < b := by
    rw [div_lt_iff₀ hbq]
    constructor
    · intro h
      have : ((2 * (a % b) : Int) : Rat) < (b : Rat) := by push_cast; linarith
      exact_mod_cast this
    · intro h
      have : ((2 * (a % b) : Int) : Rat) < (b : Rat) := by exact_mod_cast h
      push_cast at this; linarith
  have e2 : (((a % b : Int) : Rat) / (b : Rat) > 1 / 2) ↔ 2 * (a % b) > b := by
    rw [gt_iff_lt, lt_div_iff₀ hbq]
    constructor
    · intro h
      have : (b : Rat) < ((2 * (a % b) : Int) : Rat) := by push_cast; linarith
      exact_mod_cast this
    · intro h
      have : (b : Rat) < ((2 * (a % b) : Int) : Rat) := by exact_mod_cast h
      push_cast at this; linarith
  unfold Py.roundHalfEven rhe
  simp only [floor_intDiv a b hb, hr, e1, e2]

/-! ### the integer kernel `rhe` -/

theorem rhe_bounds (a b n : Int) (hb : 0 < b) (ha : 0 ≤ a) (han : a ≤ n * b) :
    0 ≤ rhe a b ∧ rhe a b ≤ n := by
  have hdm := Int.emod_add_mul_ediv a b
  have hm0 := Int.emod_nonneg a (ne_of_gt hb)
  have hm1 := Int.emod_lt_of_pos a hb
  have hq0 : 0 ≤ a / b := Int.ediv_nonneg ha (le_of_lt hb)
  have hqn : a / b ≤ n := by
    have : a / b < n + 1 := (Int.ediv_lt_iff_lt_mul hb).mpr (by nlinarith)
    omega
  -- when the remainder is positive the quotient is strictly below `n`
  have hstrict : 0 < a % b → a / b + 1 ≤ n := by
    intro hr
    by_contra hc
    have : a / b = n := by omega
    rw [this] at hdm
    nlinarith
  unfold rhe
  split_ifs with c1 c2 c3
  · exact ⟨hq0, hqn⟩
  · exact ⟨by omega, hstrict (by omega)⟩
  · exact ⟨hq0, hqn⟩
  · exact ⟨by omega, hstrict (by omega)⟩

theorem rhe_ge (a b m : Int) (hb : 0 < b) (h : m * b ≤ a) : m ≤ rhe a b := by
  have : m ≤ a / b := (Int.le_ediv_iff_mul_le hb).mpr h
  unfold rhe
  split_ifs <;> omega

/-- `2 |b · rhe a b − a| ≤ b`: the integer kernel is a nearest integer to `a / b` -/
theorem rhe_close (a b : Int) (hb : 0 < b) :
    2 * a - b ≤ 2 * b * rhe a b ∧ 2 * b * rhe a b ≤ 2 * a + b := by
  have hdm := Int.emod_add_mul_ediv a b
  have hm0 := Int.emod_nonneg a (ne_of_gt hb)
  have hm1 := Int.emod_lt_of_pos a hb
  unfold rhe
  split_ifs with c1 c2 c3 <;> constructor <;> nlinarith

/-! ### frequencies of masks -/

theorem countTrue_nonneg (m : List Bool) : 0 ≤ countTrue m := by
  unfold countTrue; exact Int.natCast_nonneg _

theorem countTrue_le (m : List Bool) : countTrue m ≤ (m.length : Int) := by
  unfold countTrue; exact_mod_cast List.count_le_length

theorem freq_range (m : List Bool) : 0 ≤ freq m ∧ freq m ≤ 1 := by
  unfold freq
  have h0 : (0 : Rat) ≤ (countTrue m : Rat) := by exact_mod_cast countTrue_nonneg m
  have h1 : (countTrue m : Rat) ≤ (((m.length : Int)) : Rat) := by exact_mod_cast countTrue_le m
  have h2 : (0 : Rat) ≤ (((m.length : Int)) : Rat) := by exact_mod_cast Int.natCast_nonneg _
  exact ⟨div_nonneg h0 h2, div_le_one_of_le₀ h1 h2⟩

theorem freq_perm (m m' : List Bool) (h : m.Perm m') : freq m = freq m' := by
  unfold freq countTrue
  rw [h.count_eq, h.length_eq]

/-! ### masks and assignment -/

theorem pySliceIdx_of_nonneg (i : Int) (n : Nat) (h0 : 0 ≤ i) (h1 : i ≤ n) : pySliceIdx i n = i.toNat := by
  unfold pySliceIdx
  have : ¬ i < 0 := by omega
  simp only [this, if_false]
  omega

theorem lowerMask_eq (k r : Nat) : lowerMask (k : Int) (k + r) = List.replicate k true ++ List.replicate r false := by
  unfold lowerMask
  rw [pySliceIdx_of_nonneg _ _ (by omega) (by push_cast; omega)]
  simp

theorem upperMask_eq (r k : Nat) : upperMask (k : Int) (r + k) = List.replicate r false ++ List.replicate k true := by
  unfold upperMask
  rw [pySliceIdx_of_nonneg _ _ (by push_cast; omega) (by push_cast; omega)]
  have : ((((r + k : Nat) : Int)) - (k : Int)).toNat = r := by push_cast; omega
  rw [this]; simp

theorem setWhere_append {α} (x1 x2 : List α) (m1 m2 : List Bool) (v : α) (h : x1.length = m1.length) :
    Py.setWhere (x1 ++ x2) (m1 ++ m2) v = Py.setWhere x1 m1 v ++ Py.setWhere x2 m2 v := by
  unfold Py.setWhere
  rw [List.zip_append h, List.map_append]

theorem setWhere_true {α} (x : List α) (v : α) : Py.setWhere x (List.replicate x.length true) v = List.replicate x.length v := by
  induction x with
  | nil => rfl
  | cons a t ih =>
    simp only [Py.setWhere, List.length_cons, List.replicate_succ, List.zip_cons_cons, List.map_cons] at *
    rw [ih]; simp

theorem setWhere_false {α} (x : List α) (v : α) : Py.setWhere x (List.replicate x.length false) v = x := by
  induction x with
  | nil => rfl
  | cons a t ih =>
    simp only [Py.setWhere, List.length_cons, List.replicate_succ, List.zip_cons_cons, List.map_cons] at *
    rw [ih]; simp

theorem fillWhere_false_prefix {α} (x1 x2 : List α) (m2 : List Bool) (vs : List α) :
    fillWhere (x1 ++ x2) (List.replicate x1.length false ++ m2) vs = x1 ++ fillWhere x2 m2 vs := by
  induction x1 with
  | nil => simp
  | cons a t ih => simp [List.replicate_succ, fillWhere, ih]

theorem fillWhere_true_prefix {α} (x1 x2 : List α) (m2 : List Bool) (v1 v2 : List α) (h : x1.length = v1.length) :
    fillWhere (x1 ++ x2) (List.replicate x1.length true ++ m2) (v1 ++ v2) = v1 ++ fillWhere x2 m2 v2 := by
  induction x1 generalizing v1 with
  | nil =>
    cases v1 with
    | nil => simp
    | cons b s => simp at h
  | cons a t ih =>
    cases v1 with
    | nil => simp at h
    | cons b s =>
      simp only [List.length_cons, Nat.add_right_cancel_iff] at h
      simp [List.replicate_succ, fillWhere, ih s h]

theorem fillWhere_all_false {α} (x : List α) : fillWhere x (List.replicate x.length false) [] = x := by
  induction x with
  | nil => rfl
  | cons a t ih => simp [List.replicate_succ, fillWhere, ih]

/-- three-segment shape of the "neither bound" mask -/
theorem notMask_segments (a b c : Nat) :
    notMask (List.replicate a true ++ List.replicate (b + c) false)
            (List.replicate (a + b) false ++ List.replicate c true)
      = List.replicate a false ++ (List.replicate b true ++ List.replicate c false) := by
  unfold notMask
  rw [List.replicate_add b c, List.replicate_add a b, List.append_assoc]
  rw [List.zipWith_append (by simp), List.zipWith_append (by simp)]
  simp

/-- **Closed form of the bound assignment** when the two masks do not overlap: the lowest `nl` entries
    of the sorted values become `lo`, the highest `nu` become `hi`, the entries in between are `mid`. -/
theorem assignBounds_eq {α} (lo hi : α) (A B C mid : List α) (hm : mid.length = B.length) :
    assignBounds lo hi (A.length : Int) (C.length : Int) (A ++ (B ++ C)) mid
      = List.replicate A.length lo ++ (mid ++ List.replicate C.length hi) := by
  unfold assignBounds
  simp only []
  have hl : (A ++ (B ++ C)).length = A.length + (B.length + C.length) := by simp
  have hl' : (A ++ (B ++ C)).length = (A.length + B.length) + C.length := by simp; omega
  have e1 : lowerMask (A.length : Int) (A ++ (B ++ C)).length
      = List.replicate A.length true ++ List.replicate (B.length + C.length) false := by
    rw [hl]; exact lowerMask_eq _ _
  have e2 : upperMask (C.length : Int) (A ++ (B ++ C)).length
      = List.replicate (A.length + B.length) false ++ List.replicate C.length true := by
    rw [hl']; exact upperMask_eq _ _
  rw [e1, e2, notMask_segments]
  -- first assignment: lower bound
  have s1 : Py.setWhere (A ++ (B ++ C)) (List.replicate A.length true ++ List.replicate (B.length + C.length) false) lo
      = List.replicate A.length lo ++ (B ++ C) := by
    rw [setWhere_append _ _ _ _ _ (by simp), setWhere_true]
    have : B.length + C.length = (B ++ C).length := by simp
    rw [this, setWhere_false]
  rw [s1]
  -- second assignment: upper bound
  have s2 : Py.setWhere (List.replicate A.length lo ++ (B ++ C))
      (List.replicate (A.length + B.length) false ++ List.replicate C.length true) hi
      = List.replicate A.length lo ++ (B ++ List.replicate C.length hi) := by
    have : List.replicate A.length lo ++ (B ++ C) = (List.replicate A.length lo ++ B) ++ C := by simp
    rw [this, setWhere_append _ _ _ _ _ (by simp), setWhere_true]
    have h3 : A.length + B.length = (List.replicate A.length lo ++ B).length := by simp
    rw [h3, setWhere_false]; simp
  rw [s2]
  -- third assignment: the mapped middle values
  have h4 : A.length = (List.replicate A.length lo).length := by simp
  conv_lhs => rw [h4]
  rw [List.length_replicate]
  conv_lhs =>
    arg 2
    rw [h4]
  rw [fillWhere_false_prefix]
  have h5 : mid = mid ++ [] := by simp
  conv_lhs =>
    arg 2
    arg 3
    rw [h5]
  rw [fillWhere_true_prefix _ _ _ _ _ hm.symm]
  have h6 : C.length = (List.replicate C.length hi).length := by simp
  conv_lhs =>
    arg 2
    arg 2
    arg 2
    rw [h6]
  rw [fillWhere_all_false]

end Lemmas.IsimipFreq
