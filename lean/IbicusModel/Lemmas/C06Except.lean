/-
  C06 helper lemmas, part 4: window functions that may raise.  `f o h x = (E o h x).map (fun m => x.map (G m x))`:
  an error-aware context `E` (order-free) and an element-wise map of the future sample.  The running-window skeleton is
  time-order equivariant for such functions as well: either both runs succeed and the result is permuted like
  `cm_future`, or both runs raise the same error (the one of the first failing window centre — the centres and their
  order do not depend on the storage order).  Used for relative SDM and ISIMIP step 6 / `_apply_on_window`.
-/
import IbicusModel.Props.C06
import IbicusModel.Lemmas.Lift

namespace Lemmas.C06
open Model.Skeleton Model.Windows Lemmas.Windows Lemmas.Skeleton Lemmas.Pointwise Lemmas.Perm Lemmas.Lift

/-- error-aware pointwise shape of a window function -/
def PointwiseOnE {α C} (f : WinFn α) (E : List α → List α → List α → Except String C) (G : C → List α → α → α) : Prop :=
  ∀ o h x io ih ix, f o h x io ih ix = (E o h x).map (fun m => x.map (G m x))

/-- the context does not depend on the storage order of the three samples -/
def OrderFreeE {α C} (E : List α → List α → List α → Except String C) (G : C → List α → α → α) : Prop :=
  (∀ o o' h h' x x', o.Perm o' → h.Perm h' → x.Perm x' → E o h x = E o' h' x') ∧
  (∀ m x x', x.Perm x' → G m x = G m x')

/-- the total window function that agrees with `f` wherever the context exists -/
def totalG {α C} (E : List α → List α → List α → Except String C) (G : C → List α → α → α) :
    List α → List α → List α → α → α :=
  fun o h x a => match E o h x with
    | .ok m => G m x a
    | .error _ => a

def totalFn {α C} (E : List α → List α → List α → Except String C) (G : C → List α → α → α) : WinFn α :=
  fun o h x _ _ _ => .ok (x.map (totalG E G o h x))

theorem totalFn_pointwise {α C} (E : List α → List α → List α → Except String C) (G : C → List α → α → α) :
    PointwiseOn (totalFn E G) (totalG E G) := fun _ _ _ _ _ _ => rfl

theorem totalG_orderFree {α C} (E : List α → List α → List α → Except String C) (G : C → List α → α → α)
    (hE : OrderFreeE E G) : Props.C06.OrderFree (totalG E G) := by
  intro o o' h h' x x' ho hh hx
  funext a
  unfold totalG
  rw [hE.1 o o' h h' x x' ho hh hx]
  cases E o' h' x' with
  | error e => rfl
  | ok m => simp only [hE.2 m x x' hx]

/-- one window of the loop: the context raises, or the iteration is the one of the total function -/
theorem windowWrites_E {α C} (f : WinFn α) (E : List α → List α → List α → Except String C) (G : C → List α → α → α)
    (hf : PointwiseOnE f E G) (L S : Int) (dO dH dF : List Int) (obs hist fut : List α) (c : Int) :
    (∃ e, E (take obs (idxWindow L dO c)) (take hist (idxWindow L dH c)) (take fut (idxWindow L dF c)) = .error e ∧
      windowWrites f L S dO dH dF obs hist fut c = .error e) ∨
    (∃ m, E (take obs (idxWindow L dO c)) (take hist (idxWindow L dH c)) (take fut (idxWindow L dF c)) = .ok m ∧
      windowWrites f L S dO dH dF obs hist fut c = windowWrites (totalFn E G) L S dO dH dF obs hist fut c) := by
  cases hE : E (take obs (idxWindow L dO c)) (take hist (idxWindow L dH c)) (take fut (idxWindow L dF c)) with
  | error e =>
    left
    refine ⟨e, rfl, ?_⟩
    unfold windowWrites
    simp only [hf _ _ _ _ _ _, hE, Except.map, bind, Except.bind]
  | ok m =>
    right
    refine ⟨m, rfl, ?_⟩
    unfold windowWrites
    have hg : totalG E G (take obs (idxWindow L dO c)) (take hist (idxWindow L dH c)) (take fut (idxWindow L dF c)) =
        G m (take fut (idxWindow L dF c)) := by
      funext a; unfold totalG; rw [hE]
    simp only [hf _ _ _ _ _ _, hE, Except.map, totalFn, hg]

theorem mapE_error_congr {β γ ε} (w w' : β → Except ε γ) (cs : List β)
    (h : ∀ c ∈ cs, (∃ e, w c = .error e ∧ w' c = .error e) ∨ ((∃ a, w c = .ok a) ∧ (∃ b, w' c = .ok b)))
    (hex : ∃ c ∈ cs, ∃ e, w c = .error e) : ∃ e, mapE w cs = .error e ∧ mapE w' cs = .error e := by
  induction cs with
  | nil => obtain ⟨c, hc, _⟩ := hex; simp at hc
  | cons c t ih =>
    rcases h c List.mem_cons_self with ⟨e, h1, h2⟩ | ⟨⟨a, h1⟩, ⟨b, h2⟩⟩
    · refine ⟨e, ?_, ?_⟩ <;> (unfold mapE; simp only [h1, h2])
    · have hex' : ∃ c' ∈ t, ∃ e, w c' = .error e := by
        obtain ⟨c', hc', e, he⟩ := hex
        rcases List.mem_cons.mp hc' with rfl | hc''
        · rw [h1] at he; cases he
        · exact ⟨c', hc'', e, he⟩
      obtain ⟨e, e1, e2⟩ := ih (fun c' hc' => h c' (List.mem_cons_of_mem _ hc')) hex'
      refine ⟨e, ?_, ?_⟩
      · unfold mapE; simp only [h1, e1]
      · unfold mapE; simp only [h2, e2]

/-- **Time-order equivariance of the running-window skeleton for window functions that may raise.** -/
theorem equivariance_RW_E {α C} (f : WinFn α) (E : List α → List α → List α → Except String C)
    (G : C → List α → α → α) (hf : PointwiseOnE f E G) (hE : OrderFreeE E G)
    (L S h : Int) (dO dH dF : List Int) (obs hist fut : List α) (pO pH pF : List Nat)
    (hpO : pO.Perm (List.range obs.length)) (hpH : pH.Perm (List.range hist.length))
    (hpF : pF.Perm (List.range fut.length))
    (hlO : dO.length = obs.length) (hlH : dH.length = hist.length) (hlF : dF.length = fut.length)
    (hS : S = 2 * h + 1) (hh : 0 ≤ h) (hSL : S ≤ L) (hr : ∀ d ∈ dF, 1 ≤ d ∧ d ≤ 366) :
    (∃ out, applyLocationRW f L S dO dH dF obs hist fut = .ok out ∧
      applyLocationRW f L S (take dO pO) (take dH pH) (take dF pF) (take obs pO) (take hist pH) (take fut pF)
        = .ok (take out pF)) ∨
    (∃ e, applyLocationRW f L S dO dH dF obs hist fut = .error e ∧
      applyLocationRW f L S (take dO pO) (take dH pH) (take dF pF) (take obs pO) (take hist pH) (take fut pF)
        = .error e) := by
  have hvF := perm_valid pF hpF
  have hvFd : ∀ j ∈ pF, j < dF.length := fun j hj => hlF ▸ hvF j hj
  have hpFd : pF.Perm (List.range dF.length) := hlF ▸ hpF
  have hcs : useCenters S (take dF pF) = useCenters S dF := useCenters_perm S _ _ (take_perm dF pF hpFd)
  have hlen' : (take dF pF).length = (take fut pF).length := by
    rw [take_length dF pF hvFd, take_length fut pF hvF]
  have hr' : ∀ d ∈ take dF pF, 1 ≤ d ∧ d ≤ 366 := fun d hd => hr d ((take_perm dF pF hpFd).mem_iff.mp hd)
  have hSpos : 0 < S := by omega
  -- the contexts of the permuted run are those of the original run
  have hctx : ∀ c, E (take (take obs pO) (idxWindow L (take dO pO) c)) (take (take hist pH) (idxWindow L (take dH pH) c))
      (take (take fut pF) (idxWindow L (take dF pF) c)) =
      E (take obs (idxWindow L dO c)) (take hist (idxWindow L dH c)) (take fut (idxWindow L dF c)) := by
    intro c
    unfold idxWindow
    exact hE.1 _ _ _ _ _ _ (window_sample_perm obs dO _ pO hlO.symm hpO) (window_sample_perm hist dH _ pH hlH.symm hpH)
      (window_sample_perm fut dF _ pF hlF.symm hpF)
  by_cases hall : ∀ c ∈ useCenters S dF, ∃ m,
      E (take obs (idxWindow L dO c)) (take hist (idxWindow L dH c)) (take fut (idxWindow L dF c)) = .ok m
  · -- every window has a context: both runs are runs of the total function
    left
    have e1 : applyLocationRW f L S dO dH dF obs hist fut = applyLocationRW (totalFn E G) L S dO dH dF obs hist fut := by
      unfold applyLocationRW
      apply runLoop_congr
      intro c hc
      rcases windowWrites_E f E G hf L S dO dH dF obs hist fut c with ⟨e, he, _⟩ | ⟨m, _, hw⟩
      · obtain ⟨m, hm⟩ := hall c hc; rw [hm] at he; cases he
      · exact hw
    have e2 : applyLocationRW f L S (take dO pO) (take dH pH) (take dF pF) (take obs pO) (take hist pH) (take fut pF) =
        applyLocationRW (totalFn E G) L S (take dO pO) (take dH pH) (take dF pF) (take obs pO) (take hist pH) (take fut pF) := by
      unfold applyLocationRW
      apply runLoop_congr
      intro c hc
      rw [hcs] at hc
      rcases windowWrites_E f E G hf L S (take dO pO) (take dH pH) (take dF pF) (take obs pO) (take hist pH) (take fut pF) c
        with ⟨e, he, _⟩ | ⟨m, _, hw⟩
      · obtain ⟨m, hm⟩ := hall c hc; rw [hctx c, hm] at he; cases he
      · exact hw
    rw [e1, e2]
    exact Props.C06.equivariance_RW (totalFn E G) (totalG E G) (totalFn_pointwise E G) (totalG_orderFree E G hE)
      L S h dO dH dF obs hist fut pO pH pF hpO hpH hpF hlO hlH hlF hS hh hSL hr
  · -- some window raises: both runs raise the error of the first such centre
    right
    have hex : ∃ c ∈ useCenters S dF, ∃ e, windowWrites f L S dO dH dF obs hist fut c = .error e := by
      by_contra hno
      apply hall
      intro c hc
      rcases windowWrites_E f E G hf L S dO dH dF obs hist fut c with ⟨e, _, hw⟩ | ⟨m, hm, _⟩
      · exact absurd ⟨c, hc, e, hw⟩ hno
      · exact ⟨m, hm⟩
    have hsub : ∀ c i, i ∈ idxAdjust S dF c → i ∈ idxWindow L dF c :=
      fun c i hi => Props.C07.doy_adjust_subset_window L S dF c i hSL hSpos hr hi
    have hsub' : ∀ c i, i ∈ idxAdjust S (take dF pF) c → i ∈ idxWindow L (take dF pF) c :=
      fun c i hi => Props.C07.doy_adjust_subset_window L S (take dF pF) c i hSL hSpos hr' hi
    have hpair : ∀ c ∈ useCenters S dF,
        (∃ e, windowWrites f L S dO dH dF obs hist fut c = .error e ∧
          windowWrites f L S (take dO pO) (take dH pH) (take dF pF) (take obs pO) (take hist pH) (take fut pF) c = .error e) ∨
        ((∃ a, windowWrites f L S dO dH dF obs hist fut c = .ok a) ∧
          (∃ b, windowWrites f L S (take dO pO) (take dH pH) (take dF pF) (take obs pO) (take hist pH) (take fut pF) c = .ok b)) := by
      intro c _
      rcases windowWrites_E f E G hf L S dO dH dF obs hist fut c with ⟨e, he, hw⟩ | ⟨m, hm, hw⟩
      · left
        rcases windowWrites_E f E G hf L S (take dO pO) (take dH pH) (take dF pF) (take obs pO) (take hist pH) (take fut pF) c
          with ⟨e', he', hw'⟩ | ⟨m', hm', _⟩
        · rw [hctx c, he] at he'
          cases he'
          exact ⟨e, hw, hw'⟩
        · rw [hctx c, he] at hm'; cases hm'
      · right
        rcases windowWrites_E f E G hf L S (take dO pO) (take dH pH) (take dF pF) (take obs pO) (take hist pH) (take fut pF) c
          with ⟨e', he', _⟩ | ⟨m', _, hw'⟩
        · rw [hctx c, hm] at he'; cases he'
        · exact ⟨⟨_, hw.trans (windowWrites_pointwise (totalFn E G) (totalG E G) (totalFn_pointwise E G) L S dO dH dF
              obs hist fut c hlF (hsub c))⟩,
            ⟨_, hw'.trans (windowWrites_pointwise (totalFn E G) (totalG E G) (totalFn_pointwise E G) L S (take dO pO)
              (take dH pH) (take dF pF) (take obs pO) (take hist pH) (take fut pF) c hlen' (hsub' c))⟩⟩
    obtain ⟨e, e1, e2⟩ := mapE_error_congr _ _ _ hpair hex
    refine ⟨e, ?_, ?_⟩
    · unfold applyLocationRW runLoop
      rw [e1]; rfl
    · unfold applyLocationRW runLoop
      rw [hcs, e2]; rfl

end Lemmas.C06
