/-
  C04 helper lemmas: how the building blocks of the seven non-ISIMIP transfer functions (`Model/Debiasers.lean`)
  react to a change of unit `x ↦ a·x + b`, `a > 0`.  The property theorems are in `Props/C04.lean`.
-/
import IbicusModel.Lemmas.StatsAffine
import IbicusModel.Lemmas.C02Shift
import IbicusModel.Lemmas.Lift
import IbicusModel.Model.Debiasers

namespace Lemmas.C04
open Model.Stats Model.Family Model.Debiasers Lemmas.Stats Lemmas.StatsAffine Lemmas.Family

/-! ### list plumbing -/

theorem affine_map_congr (a b : Rat) (xs : List Rat) (f f' : Rat → Rat)
    (h : ∀ x ∈ xs, f' (a * x + b) = a * f x + b) : (affine a b xs).map f' = affine a b (xs.map f) := by
  unfold affine
  rw [List.map_map, List.map_map]
  apply List.map_congr_left
  intro x hx
  exact h x hx

theorem affine_map_inv (a b : Rat) (xs : List Rat) (f f' : Rat → Rat)
    (h : ∀ x ∈ xs, f' (a * x + b) = f x) : (affine a b xs).map f' = xs.map f := by
  unfold affine
  rw [List.map_map]
  apply List.map_congr_left
  intro x hx
  exact h x hx

theorem affine_affine_zero (a b c : Rat) (xs : List Rat) :
    (xs.map (fun x => a * x + c)).map (fun y => y + b) = affine a (c + b) xs := by
  unfold affine; rw [List.map_map]; apply List.map_congr_left; intro x _; simp only [Function.comp]; ring

/-! ### location–scale families -/

section locscale
variable {F : LocScaleFam} (L : LocScaleLaws F)
include L

/-- `fit (a • xs + b) = (a · loc + b, a · scale)` in the pair form that `cdf_affine` / `ppf_affine` consume -/
theorem fit_affine' {a : Rat} (ha : 0 < a) (b : Rat) {xs : List Rat} (h : xs ≠ []) :
    F.fit (affine a b xs) = (a * (F.fit xs).1 + b, a * (F.fit xs).2) :=
  Lemmas.Family.fit_affine L a b xs ha h

omit L in
/-- the thresholded cdf value of the transformed point under the transformed fit is unchanged -/
theorem thr_cdf_affine {a : Rat} (ha : 0 < a) (b t : Rat) (p : Rat × Rat) (x : Rat) :
    thresholdCdf t (F.cdf (a * p.1 + b, a * p.2) (a * x + b)) = thresholdCdf t (F.cdf p x) := by
  rw [Lemmas.Family.cdf_affine a b p ha x]

/-- `_standard_qm` (parametric) is equivariant — **clipped or not**: the clipping acts on cdf values, which do not
    change -/
theorem standardQMParam_affine {a : Rat} (ha : 0 < a) (b t : Rat) {obs H : List Rat} (ho : obs ≠ []) (hh : H ≠ [])
    (x : List Rat) :
    standardQMParam F.toFamily t (affine a b x) (affine a b obs) (affine a b H)
      = affine a b (standardQMParam F.toFamily t x obs H) := by
  unfold standardQMParam
  simp only [LocScaleFam.toFamily]
  rw [fit_affine' L ha b ho, fit_affine' L ha b hh]
  apply affine_map_congr
  intro v _
  rw [thr_cdf_affine ha, Lemmas.Family.ppf_affine]

end locscale

/-! ### QuantileMapping: detrending around an equivariant inner mapping -/

/-- `QuantileMapping.apply_on_window` with additive or no detrending is equivariant as soon as the inner mapping is -/
theorem quantileMapping_affine (qm : List Rat → List Rat → List Rat → List Rat) (a b : Rat) (d : Detrending)
    (hd : d ≠ .multiplicative) {obs H F : List Rat} (hh : H ≠ []) (hf : F ≠ [])
    (hqm : ∀ x, qm (affine a b x) (affine a b obs) (affine a b H) = affine a b (qm x obs H)) :
    quantileMapping qm d (affine a b obs) (affine a b H) (affine a b F)
      = affine a b (quantileMapping qm d obs H F) := by
  cases d with
  | multiplicative => exact absurd rfl hd
  | no_detrending => exact hqm F
  | additive =>
    unfold quantileMapping
    simp only
    rw [mean_map_affine a b hf, mean_map_affine a b hh]
    have h1 : (affine a b F).map (fun x => x - (a * mean F + b - (a * mean H + b)))
        = affine a b (F.map (fun x => x - (mean F - mean H))) := by
      apply affine_map_congr; intro x _; ring
    rw [h1, hqm]
    apply affine_map_congr; intro y _; ring

theorem standardQMNonparam_affine {a : Rat} (ha : 0 < a) (b : Rat) {obs H : List Rat} (ho : obs ≠ []) (hh : H ≠ [])
    (x : List Rat) :
    standardQMNonparam (affine a b x) (affine a b obs) (affine a b H) = affine a b (standardQMNonparam x obs H) := by
  unfold standardQMNonparam
  exact qmapExtrap_map_affine ha b .step .inverted_cdf hh ho x

/-! ### QuantileDeltaMapping -/

/-- `_apply_debiasing_steps` of QDM (absolute, no censoring) for transformed fits -/
theorem qdmSteps_affine {F : LocScaleFam} {a : Rat} (ha : 0 < a) (b : Rat) (em : EcdfMethod) (t : Rat)
    (Fw : List Rat) (fo fh : Rat × Rat) :
    qdmSteps F.toFamily .absolute em t none (affine a b Fw) (a * fo.1 + b, a * fo.2) (a * fh.1 + b, a * fh.2)
      = affine a b (qdmSteps F.toFamily .absolute em t none Fw fo fh) := by
  unfold qdmSteps qdmStepsG
  apply affine_map_congr
  intro x _
  simp only [qdmCensor, qdmCore, LocScaleFam.toFamily]
  rw [show affine a b Fw = affine a b Fw from rfl, ecdf1_map_affine ha b em Fw x,
    Lemmas.Family.ppf_affine, Lemmas.Family.ppf_affine]
  ring

/-- the same for an arbitrary empirical cdf `E sample point` that does not see the unit on the sample at hand
    (e.g. the histogram cdf of `ecdf_method = "kernel_density"` under the oracle law for the bins) -/
theorem qdmStepsG_affine {F : LocScaleFam} (a b : Rat) (E : List Rat → Rat → Rat) (t : Rat)
    (Fw : List Rat) (fo fh : Rat × Rat) (hE : ∀ y, E (affine a b Fw) (a * y + b) = E Fw y) :
    qdmStepsG F.toFamily .absolute E t none (affine a b Fw) (a * fo.1 + b, a * fo.2) (a * fh.1 + b, a * fh.2)
      = affine a b (qdmStepsG F.toFamily .absolute E t none Fw fo fh) := by
  unfold qdmStepsG
  apply affine_map_congr
  intro x _
  simp only [qdmCensor, qdmCore, LocScaleFam.toFamily]
  rw [hE x, Lemmas.Family.ppf_affine, Lemmas.Family.ppf_affine]
  ring

/-! ### ScaledDistributionMapping (absolute) -/

theorem detrendConst_affine (a b : Rat) {x : List Rat} (hx : x ≠ []) :
    detrendConst (affine a b x) = affine a 0 (detrendConst x) := by
  unfold detrendConst
  rw [mean_map_affine a b hx]
  unfold affine
  rw [List.map_map, List.map_map]
  apply List.map_congr_left
  intro v _
  simp only [Function.comp]
  ring

theorem detrendConst_ne_nil {x : List Rat} (hx : x ≠ []) : detrendConst x ≠ [] := by
  unfold detrendConst; simpa using hx

theorem detrendConst_length (x : List Rat) : (detrendConst x).length = x.length := by
  unfold detrendConst; rw [List.length_map]

section sdm
variable {F : LocScaleFam} (L : LocScaleLaws F)
include L

/-- the fit of the detrended transformed sample: location and scale both just scale by `a` -/
theorem fit_detrend_affine {a : Rat} (ha : 0 < a) (b : Rat) {x : List Rat} (hx : x ≠ []) :
    F.fit (detrendConst (affine a b x))
      = (a * (F.fit (detrendConst x)).1 + 0, a * (F.fit (detrendConst x)).2) := by
  rw [detrendConst_affine a b hx, fit_affine' L ha 0 (detrendConst_ne_nil hx)]

/-- the cdf values of the detrended sample under its own fit do not see the unit -/
theorem detrend_cdf_affine {a : Rat} (ha : 0 < a) (b : Rat) {x : List Rat} (hx : x ≠ []) :
    (detrendConst (affine a b x)).map (F.cdf (F.fit (detrendConst (affine a b x))))
      = (detrendConst x).map (F.cdf (F.fit (detrendConst x))) := by
  rw [fit_detrend_affine L ha b hx, detrendConst_affine a b hx]
  apply affine_map_inv
  intro v _
  exact Lemmas.Family.cdf_affine a 0 _ ha v

theorem sdmAbsCdfIntpol_affine {a : Rat} (ha : 0 < a) (b : Rat) {x : List Rat} (hx : x ≠ []) (m : Nat) :
    sdmAbsCdfIntpol F (affine a b x) m = sdmAbsCdfIntpol F x m := by
  unfold sdmAbsCdfIntpol
  simp only
  rw [detrend_cdf_affine L ha b hx]

theorem sdmAbsCdfFut_affine {a : Rat} (ha : 0 < a) (b : Rat) {x : List Rat} (hx : x ≠ []) :
    sdmAbsCdfFut F (affine a b x) = sdmAbsCdfFut F x := by
  unfold sdmAbsCdfFut
  simp only
  rw [detrend_cdf_affine L ha b hx, detrendConst_affine a b hx, argsort_map_affine ha 0]

omit L in
theorem sdmAbsCdfFut_length (x : List Rat) : (sdmAbsCdfFut F x).length = x.length := by
  unfold sdmAbsCdfFut takeIdx
  simp only [List.length_map, argsort_length, detrendConst_length]

omit L in
theorem sdmAbsCdfIntpol_length (x : List Rat) (m : Nat) : (sdmAbsCdfIntpol F x m).length = m := by
  unfold sdmAbsCdfIntpol
  exact interpOnLength_length _ m

omit L in
theorem sdmAbsoluteSorted_length (obs H x : List Rat) : (sdmAbsoluteSorted F obs H x).length = x.length := by
  unfold sdmAbsoluteSorted
  simp only [List.length_zipWith, List.length_map, List.length_zip, sdmAbsCdfFut_length, sdmAbsCdfIntpol_length]
  omega

/-- the sorted bias-corrected anomalies scale by `a` (no offset: they are anomalies about the detrended mean);
    the factor travels through `scale_obs / scale_H`, which is unit-free -/
theorem sdmAbsoluteSorted_affine {a : Rat} (ha : 0 < a) (b : Rat) {obs H x : List Rat}
    (ho : obs ≠ []) (hh : H ≠ []) (hx : x ≠ []) :
    sdmAbsoluteSorted F (affine a b obs) (affine a b H) (affine a b x)
      = affine a 0 (sdmAbsoluteSorted F obs H x) := by
  unfold sdmAbsoluteSorted
  simp only
  rw [sdmAbsCdfIntpol_affine L ha b ho, sdmAbsCdfIntpol_affine L ha b hh, sdmAbsCdfFut_affine L ha b hx,
    fit_detrend_affine L ha b ho, fit_detrend_affine L ha b hh, fit_detrend_affine L ha b hx, affine_length]
  simp only [Lemmas.Family.ppf_affine]
  have ha' : a ≠ 0 := ne_of_gt ha
  have hsc : (sdmAbsCdfFut F x).map (fun c =>
        (a * F.ppf (F.fit (detrendConst x)) c + 0 - (a * F.ppf (F.fit (detrendConst H)) c + 0))
          * (a * (F.fit (detrendConst obs)).2) / (a * (F.fit (detrendConst H)).2))
      = ((sdmAbsCdfFut F x).map (fun c =>
        (F.ppf (F.fit (detrendConst x)) c - F.ppf (F.fit (detrendConst H)) c)
          * (F.fit (detrendConst obs)).2 / (F.fit (detrendConst H)).2)).map (fun s => a * s) := by
    rw [List.map_map]
    apply List.map_congr_left
    intro c _
    simp only [Function.comp]
    by_cases hs : (F.fit (detrendConst H)).2 = 0
    · rw [hs]; simp
    · field_simp
      ring
  rw [hsc]
  unfold affine
  rw [List.map_zipWith, List.zipWith_map_right]
  congr 1
  funext cs sc
  ring

end sdm

/-! ### CDFt -/

/-- what the theorem needs from the pair (empirical cdf `E`, inverse empirical cdf `Q`) -/
structure EQAffineLaws (a b : Rat) (D : List Rat → Prop) (E Q : List Rat → Rat → Rat) : Prop where
  /-- on its domain `D` (non-empty samples; for the histogram cdf: non-constant samples) the cdf is unit-free -/
  E_inv : ∀ x y, D x → E (affine a b x) (a * y + b) = E x y
  E_le_one : ∀ x y, D x → E x y ≤ 1
  Q_aff : ∀ x p, x ≠ [] → p ≤ 1 → Q (affine a b x) p = a * Q x p + b

/-- every pair of methods ibicus offers (2 × 9; `kernel_density` is not modelled) satisfies the laws -/
theorem eqAffineLaws {a : Rat} (ha : 0 < a) (b : Rat) (em : EcdfMethod) (im : IecdfMethod) :
    EQAffineLaws a b (fun x => x ≠ []) (ecdf1 em) (iecdf1 im) where
  E_inv := fun x y _ => ecdf1_map_affine ha b em x y
  E_le_one := fun x y _ => ecdf1_le_one em x y
  Q_aff := fun _ _ hx hp => iecdf1_map_affine ha b im hx hp

/-- the oracle law of the histogram bins of `ecdf_method = "kernel_density"` (`bins x = np.histogram(x, bins="auto")`),
    on non-constant samples (for a constant sample numpy uses the fixed range `[v − 0.5, v + 0.5]`, which is in data units):
    well-shaped, and **the bin edges carry the unit while the counts do not change** — numpy's `auto` rule takes its bin
    width from the range and the inter-quartile range of the data, both of which scale with the unit -/
structure BinsAffine (a b : Rat) (bins : List Rat → List Rat × List Nat) : Prop where
  laws : ∀ x : List Rat, minQ x < maxQ x → HistLaws (bins x).1 (bins x).2
  aff : ∀ x : List Rat, minQ x < maxQ x → bins (affine a b x) = (affine a b (bins x).1, (bins x).2)

theorem histE_affine {a : Rat} (ha : 0 < a) (b : Rat) (bins : List Rat → List Rat × List Nat) (hb : BinsAffine a b bins)
    {x : List Rat} (hx : minQ x < maxQ x) (y : Rat) :
    Lemmas.C02.histE bins (affine a b x) (a * y + b) = Lemmas.C02.histE bins x y := by
  unfold Lemmas.C02.histE
  rw [hb.aff x hx]
  exact Lemmas.C02.ecdfHist1_affine ha b _ _ y (hb.laws x hx).len

/-- **histogram ecdf × every inverse-ecdf method** satisfies the laws, under the oracle law for the bins -/
theorem eqAffineLaws_hist {a : Rat} (ha : 0 < a) (b : Rat) (bins : List Rat → List Rat × List Nat)
    (hb : BinsAffine a b bins) (im : IecdfMethod) :
    EQAffineLaws a b (fun x => minQ x < maxQ x) (Lemmas.C02.histE bins) (iecdf1 im) where
  E_inv := fun _ y hx => histE_affine ha b bins hb hx y
  E_le_one := fun x y hx => (ecdfHist_range (hb.laws x hx) y).2
  Q_aff := fun _ _ hx hp => iecdf1_map_affine ha b im hx hp

theorem cdftShifted_affine (a b : Rat) (d : DeltaShift) (hd : d ≠ .multiplicative) {obs H : List Rat}
    (ho : obs ≠ []) (hh : H ≠ []) (F : List Rat) :
    cdftShifted d (affine a b obs) (affine a b H) (affine a b F)
      = (affine a b (cdftShifted d obs H F).1, affine a b (cdftShifted d obs H F).2) := by
  cases d with
  | multiplicative => exact absurd rfl hd
  | no_shift => rfl
  | additive =>
    unfold cdftShifted
    simp only
    rw [mean_map_affine a b ho, mean_map_affine a b hh]
    congr 1 <;> (apply affine_map_congr; intro x _; ring)

theorem cdftShifted_ne_nil (d : DeltaShift) (obs H : List Rat) {F : List Rat} (hf : F ≠ []) :
    (cdftShifted d obs H F).2 ≠ [] := by
  cases d <;> simpa [cdftShifted] using hf

theorem cdftShifted_fst_ne_nil (d : DeltaShift) (obs : List Rat) {H : List Rat} (hh : H ≠ []) (F : List Rat) :
    (cdftShifted d obs H F).1 ≠ [] := by
  cases d <;> simpa [cdftShifted] using hh

/-- the additive shift of CDFt keeps a non-constant sample non-constant -/
theorem cdftShifted_nonconst (d : DeltaShift) (hd : d ≠ .multiplicative) (obs : List Rat) {H F : List Rat}
    (hH : minQ H < maxQ H) (hF : minQ F < maxQ F) :
    minQ (cdftShifted d obs H F).1 < maxQ (cdftShifted d obs H F).1 ∧
    minQ (cdftShifted d obs H F).2 < maxQ (cdftShifted d obs H F).2 := by
  have key : ∀ (c : Rat) (x : List Rat), minQ x < maxQ x → minQ (x.map (fun v => v + c)) < maxQ (x.map (fun v => v + c)) := by
    intro c x hx
    have hne : x ≠ [] := by
      intro h0; rw [h0] at hx; simp [minQ, maxQ] at hx
    have hm : Monotone (fun v : Rat => v + c) := fun _ _ h => by simpa using h
    rw [minQ_map_mono hm hne, maxQ_map_mono hm hne]
    linarith
  cases d with
  | multiplicative => exact absurd rfl hd
  | no_shift => exact ⟨hH, hF⟩
  | additive => exact ⟨key _ H hH, key _ F hF⟩

theorem cdftMappingG_affine {a b : Rat} {D : List Rat → Prop} {E Q : List Rat → Rat → Rat} (laws : EQAffineLaws a b D E Q)
    (d : DeltaShift) (hd : d ≠ .multiplicative) {obs H F : List Rat} (ho : obs ≠ []) (hh : H ≠ []) (hf : F ≠ [])
    (hD1 : D (cdftShifted d obs H F).1) (hD2 : D (cdftShifted d obs H F).2) :
    cdftMappingG E Q d (affine a b obs) (affine a b H) (affine a b F)
      = affine a b (cdftMappingG E Q d obs H F) := by
  unfold cdftMappingG
  simp only
  rw [cdftShifted_affine a b d hd ho hh F]
  simp only
  generalize hHF : cdftShifted d obs H F = HF
  have hF2 : HF.2 ≠ [] := by rw [← hHF]; exact cdftShifted_ne_nil d obs H hf
  have hF1 : HF.1 ≠ [] := by rw [← hHF]; exact cdftShifted_fst_ne_nil d obs hh F
  rw [hHF] at hD1 hD2
  -- stage 1: cdf values of the shifted future sample at its own points: unchanged
  have s1 : cdftStage1 E (affine a b HF.2) = cdftStage1 E HF.2 := by
    unfold cdftStage1
    exact affine_map_inv a b _ _ _ (fun y _ => laws.E_inv HF.2 y hD2)
  rw [s1]
  -- stage 2: quantiles of obs: carry the unit
  have s2 : cdftStage2 Q (affine a b obs) (cdftStage1 E HF.2) = affine a b (cdftStage2 Q obs (cdftStage1 E HF.2)) := by
    unfold cdftStage2 affine
    rw [List.map_map]
    apply List.map_congr_left
    intro p hp
    unfold cdftStage1 at hp
    obtain ⟨y, _, rfl⟩ := List.mem_map.mp hp
    exact laws.Q_aff obs _ ho (laws.E_le_one _ _ hD2)
  rw [s2]
  -- stage 3: cdf values under the shifted historical sample: unchanged
  have s3 : cdftStage3 E (affine a b HF.1) (affine a b (cdftStage2 Q obs (cdftStage1 E HF.2)))
      = cdftStage3 E HF.1 (cdftStage2 Q obs (cdftStage1 E HF.2)) := by
    unfold cdftStage3
    exact affine_map_inv a b _ _ _ (fun y _ => laws.E_inv HF.1 y hD1)
  rw [s3]
  -- stage 4: quantiles of the shifted future sample: carry the unit
  unfold cdftStage4 affine
  rw [List.map_map]
  apply List.map_congr_left
  intro p hp
  unfold cdftStage3 at hp
  obtain ⟨y, _, rfl⟩ := List.mem_map.mp hp
  exact laws.Q_aff HF.2 _ hF2 (laws.E_le_one _ _ hD1)

/-! ### lifting: guarded window functions and the year loop with a per-run window function -/

open Model.Skeleton Model.Windows Lemmas.Lift in
/-- the year loop with *different* per-window functions on the two sides (CDFt / QDM: the per-year-window function
    closes over `obs` and `cm_hist`, which change unit as well) -/
theorem applyYears_equivariant2 {α} (g g' : YearFn α) (φ ψ : α → α) (L S : Int) (years : List Int) (fut : List α)
    (hg : ∀ x iw, g' (x.map φ) iw = (g x iw).map (List.map ψ)) :
    applyYears g' L S years (fut.map φ) = (applyYears g L S years fut).map (List.map (Option.map ψ)) := by
  unfold applyYears
  rw [List.length_map]
  apply runLoop_map _ _ ψ
  intro c _
  unfold yearWrites
  simp only [selectWhere_map, hg, bind, Except.bind]
  cases g (Py.selectWhere fut (yearMask years (yearsInWindow L c))) (Py.whereTrue (yearMask years (yearsInWindow L c))) with
  | error e => rfl
  | ok res =>
    simp only [Except.map, maskSelect_map]
    cases maskSelect res (yearMask (Py.selectWhere years (yearMask years (yearsInWindow L c))) (yearsAdjusted S c)) with
    | error e => rfl
    | ok vals => simp only [Except.map, pairsFor_map]

/-! ### lifting, continued: the per-window relation is only needed on the windows that are actually formed -/

section lift_on
open Model.Skeleton Model.Windows Lemmas.Lift

theorem applyLocationRW_equivariant_on {α} (f : WinFn α) (φo φh φx ψ : α → α) (L S : Int) (dO dH dF : List Int)
    (obs hist fut : List α)
    (hf : ∀ c, f ((take obs (idxWindow L dO c)).map φo) ((take hist (idxWindow L dH c)).map φh)
        ((take fut (idxWindow L dF c)).map φx) (idxWindow L dO c) (idxWindow L dH c) (idxWindow L dF c)
      = (f (take obs (idxWindow L dO c)) (take hist (idxWindow L dH c)) (take fut (idxWindow L dF c))
          (idxWindow L dO c) (idxWindow L dH c) (idxWindow L dF c)).map (List.map ψ)) :
    applyLocationRW f L S dO dH dF (obs.map φo) (hist.map φh) (fut.map φx) =
      (applyLocationRW f L S dO dH dF obs hist fut).map (List.map (Option.map ψ)) := by
  unfold applyLocationRW
  rw [List.length_map]
  apply runLoop_map _ _ ψ
  intro c _
  unfold windowWrites
  simp only [take_map, hf, bind, Except.bind]
  cases f (take obs (idxWindow L dO c)) (take hist (idxWindow L dH c)) (take fut (idxWindow L dF c))
      (idxWindow L dO c) (idxWindow L dH c) (idxWindow L dF c) with
  | error e => rfl
  | ok res =>
    simp only [Except.map, maskSelect_map]
    cases maskSelect res (List.map (fun j => (idxAdjust S dF c).contains j) (idxWindow L dF c)) with
    | error e => rfl
    | ok vals => simp only [Except.map, pairsFor_map]

theorem applyLocationMonths_equivariant_on {α} (f : WinFn α) (φo φh φx ψ : α → α) (mO mH mF : List Int)
    (obs hist fut : List α)
    (hf : ∀ m : Int,
      f ((take obs (Py.whereTrue (mO.map (fun x => decide (x = m))))).map φo)
        ((take hist (Py.whereTrue (mH.map (fun x => decide (x = m))))).map φh)
        ((take fut (Py.whereTrue (mF.map (fun x => decide (x = m))))).map φx)
        (Py.whereTrue (mO.map (fun x => decide (x = m)))) (Py.whereTrue (mH.map (fun x => decide (x = m))))
        (Py.whereTrue (mF.map (fun x => decide (x = m))))
      = (f (take obs (Py.whereTrue (mO.map (fun x => decide (x = m)))))
          (take hist (Py.whereTrue (mH.map (fun x => decide (x = m)))))
          (take fut (Py.whereTrue (mF.map (fun x => decide (x = m)))))
          (Py.whereTrue (mO.map (fun x => decide (x = m)))) (Py.whereTrue (mH.map (fun x => decide (x = m))))
          (Py.whereTrue (mF.map (fun x => decide (x = m))))).map (List.map ψ)) :
    applyLocationMonths f mO mH mF (obs.map φo) (hist.map φh) (fut.map φx) =
      (applyLocationMonths f mO mH mF obs hist fut).map (List.map (Option.map ψ)) := by
  unfold applyLocationMonths
  rw [List.length_map]
  apply runLoop_map _ _ ψ
  intro m _
  unfold monthWrites
  simp only [take_map, hf, bind, Except.bind]
  cases f (take obs (Py.whereTrue (mO.map (fun x => decide (x = m))))) (take hist (Py.whereTrue (mH.map (fun x => decide (x = m)))))
      (take fut (Py.whereTrue (mF.map (fun x => decide (x = m))))) (Py.whereTrue (mO.map (fun x => decide (x = m))))
      (Py.whereTrue (mH.map (fun x => decide (x = m)))) (Py.whereTrue (mF.map (fun x => decide (x = m)))) with
  | error e => rfl
  | ok res => simp only [Except.map, pairsFor_map]

/-- fancy indexing two parallel lists with the same index list gives parallel results -/
theorem take_length_eq {α β} (x : List α) (y : List β) (h : x.length = y.length) (idx : List Nat) :
    (take x idx).length = (take y idx).length := by
  unfold take
  induction idx with
  | nil => rfl
  | cons i t ih =>
    simp only [List.filterMap_cons]
    by_cases hi : i < x.length
    · have hi' : i < y.length := h ▸ hi
      rw [List.getElem?_eq_getElem hi, List.getElem?_eq_getElem hi']
      simp [ih]
    · have hi' : ¬ i < y.length := h ▸ hi
      rw [List.getElem?_eq_none (by omega), List.getElem?_eq_none (by omega)]
      simp [ih]

end lift_on

/-! ### window functions in the `Skeleton.WinFn` shape

  `apply_on_window` is a partial function: on an empty window sample (or a fitted scale of 0) the Python code
  computes with NaN / divides by zero.  The model's definitions are total (`x / 0 = 0`), so a windowed statement is
  made about the *guarded* window function, which reports `undef` outside the domain — and the guard is itself
  invariant under the change of unit, so both runs leave the domain on the same windows. -/

open Model.Skeleton in
/-- a pure per-window function with a decidable domain guard, as a `WinFn` -/
def guardedWin (G : List Rat → List Rat → List Rat → Bool) (f : List Rat → List Rat → List Rat → List Rat) :
    WinFn Rat :=
  fun o h x _ _ _ => if G o h x then .ok (f o h x) else .error "undef"

open Model.Skeleton in
/-- the hypothesis of the lifting lemmas for a guarded window function -/
theorem guardedWin_affine (G : List Rat → List Rat → List Rat → Bool) (f : List Rat → List Rat → List Rat → List Rat)
    (a b : Rat)
    (hG : ∀ o h x, G (affine a b o) (affine a b h) (affine a b x) = G o h x)
    (hf : ∀ o h x, G o h x = true → f (affine a b o) (affine a b h) (affine a b x) = affine a b (f o h x)) :
    ∀ o h x io ih ix, guardedWin G f (o.map (fun v => a * v + b)) (h.map (fun v => a * v + b))
        (x.map (fun v => a * v + b)) io ih ix
      = (guardedWin G f o h x io ih ix).map (List.map (fun v => a * v + b)) := by
  intro o h x io ih ix
  unfold guardedWin
  have := hG o h x
  unfold affine at this
  rw [this]
  split_ifs with hg
  · have := hf o h x hg
    unfold affine at this
    simp only [Except.map]
    rw [this]
  · rfl

/-- the values a year loop left unassigned (`none`) would be uninitialised memory in the result of
    `apply_on_window`: reported as the error `unassigned` (C07 shows it does not happen for consecutive years) -/
def collapse (r : Except String (List (Option Rat))) : Except String (List Rat) :=
  match r with
  | .error e => .error e
  | .ok l => if l.all (fun v => v.isSome) then .ok (l.filterMap id) else .error "unassigned"

theorem collapse_map (g : Rat → Rat) (r : Except String (List (Option Rat))) :
    collapse (r.map (List.map (Option.map g))) = (collapse r).map (List.map g) := by
  cases r with
  | error e => rfl
  | ok l =>
    simp only [Except.map, collapse, List.all_map]
    have : ((fun v : Option Rat => v.isSome) ∘ Option.map g) = (fun v : Option Rat => v.isSome) := by
      funext v; cases v <;> rfl
    rw [this]
    split_ifs
    · congr 1
      rw [List.filterMap_map, List.map_filterMap]
      rfl
    · rfl

end Lemmas.C04
