/-
  Helper lemmas for the running-window kernels (C07, C08).
-/
import IbicusModel.Model.Windows
import Mathlib.Tactic.Linarith
import Mathlib.Tactic.Ring
import Mathlib.Data.List.Basic
import Mathlib.Data.List.Nodup
import Mathlib.Data.List.Range

namespace Lemmas.Windows
open Model.Windows

/-! ### `np.arange` -/

theorem mem_arange1 (a b x : Int) : x ∈ Py.arange1 a b ↔ a ≤ x ∧ x < b := by
  unfold Py.arange1 Py.arange
  simp only [List.mem_map, List.mem_range]
  constructor
  · rintro ⟨k, hk, rfl⟩
    omega
  · rintro ⟨h1, h2⟩
    exact ⟨(x - a).toNat, by omega, by omega⟩

theorem mem_arange (a b s x : Int) (hs : 0 < s) :
    x ∈ Py.arange a b s ↔ ∃ k : Nat, x = a + k * s ∧ a + k * s < b := by
  unfold Py.arange
  simp only [List.mem_map, List.mem_range]
  constructor
  · rintro ⟨k, hk, rfl⟩
    refine ⟨k, rfl, ?_⟩
    have h2 : (k : Int) + 1 ≤ (b - a + s - 1) / s := by omega
    have h3 := Int.ediv_mul_le (b - a + s - 1) (ne_of_gt hs)
    nlinarith
  · rintro ⟨k, rfl, hk⟩
    refine ⟨k, ?_, rfl⟩
    have h3 := Int.lt_ediv_add_one_mul_self (b - a + s - 1) hs
    have : (k : Int) < (b - a + s - 1) / s := by
      by_contra hc
      push Not at hc
      nlinarith
    omega

/-! ### exactly one index of a range satisfies a predicate -/

theorem filter_range_unique (n k0 : Nat) (h : k0 < n) (p : Nat → Bool)
    (hp : ∀ k, k < n → (p k = true ↔ k = k0)) : (List.range n).filter p = [k0] := by
  have h1 : (List.range n).filter p = (List.range n).filter (fun k => k == k0) := by
    apply List.filter_congr
    intro k hk
    rw [List.mem_range] at hk
    have := hp k hk
    by_cases hk0 : k = k0
    · subst hk0; simp [this.mpr rfl]
    · have : p k = false := by
        cases hpk : p k with
        | false => rfl
        | true => exact absurd (this.mp hpk) hk0
      simp [this, hk0]
  rw [h1, List.filter_beq, List.count_eq_one_of_mem (List.nodup_range) (List.mem_range.mpr h)]
  rfl

/-- the block index of day `d` -/
theorem block_index (f S h d : Int) (k : Nat) (hS : S = 2 * h + 1) (hh : 0 ≤ h) :
    (f + k * S - h ≤ d ∧ d ≤ f + k * S + h) ↔ (k : Int) = (d - (f - h)) / S := by
  have hSpos : 0 < S := by omega
  have e1 := @Int.le_ediv_iff_mul_le (k : Int) (d - (f - h)) S hSpos
  have e2 := @Int.ediv_lt_iff_lt_mul (d - (f - h)) ((k : Int) + 1) S hSpos
  constructor
  · rintro ⟨h1, h2⟩
    have a1 : (k : Int) ≤ (d - (f - h)) / S := e1.mpr (by nlinarith)
    have a2 : (d - (f - h)) / S < (k : Int) + 1 := e2.mpr (by nlinarith)
    omega
  · intro hk
    have a1 : (k : Int) * S ≤ d - (f - h) := e1.mp (by omega)
    have a2 : d - (f - h) < ((k : Int) + 1) * S := e2.mp (by omega)
    constructor <;> nlinarith

/-- the first centre's block starts at or before `mn`, and the last centre's block reaches `mx` -/
theorem firstCenter_facts (mn mx S h : Int) (hS : S = 2 * h + 1) (hh : 0 ≤ h) (hmm : mn ≤ mx) :
    firstCenter mn mx S - h ≤ mn ∧ mn ≤ firstCenter mn mx S ∧
    ∃ q v : Int, mx - firstCenter mn mx S = q * S + v ∧ 0 ≤ v ∧ v ≤ h ∧ 0 ≤ q := by
  have hSpos : 0 < S := by omega
  have hdm := Int.emod_add_mul_ediv (mx - mn + 1) S
  have hr0 := Int.emod_nonneg (mx - mn + 1) (ne_of_gt hSpos)
  have hr1 := Int.emod_lt_of_pos (mx - mn + 1) hSpos
  have hq : 0 ≤ (mx - mn + 1) / S := Int.ediv_nonneg (by omega) (by omega)
  generalize hqe : (mx - mn + 1) / S = q at *
  generalize hre : (mx - mn + 1) % S = r at *
  unfold firstCenter
  rw [hre]
  have hS2 : S / 2 = h := by omega
  by_cases hr : r = 0
  · simp only [hr, if_true]
    refine ⟨by omega, by omega, q - 1, h, ?_, by omega, by omega, ?_⟩
    · subst hr; rw [hS2]; nlinarith
    · by_contra hc
      have : q = 0 := by omega
      subst this; omega
  · simp only [hr, if_false]
    refine ⟨by omega, by omega, q, r - 1 - h + (S - r) / 2, ?_, by omega, by omega, hq⟩
    rw [hS2]; nlinarith

/-- block predicate: day (year) `d` is adjusted by the window centred at `c` -/
def inBlock (S c d : Int) : Bool := decide (c - S / 2 ≤ d) && decide (d ≤ c + S / 2)

/-- **Exact cover** on the integer level: among the centres laid out over `mn..mx`, exactly one
    (counted with multiplicity in the list of centres) has `d` in its block. -/
theorem cover_unique (mn mx S h d : Int) (hS : S = 2 * h + 1) (hh : 0 ≤ h)
    (h1 : mn ≤ d) (h2 : d ≤ mx) :
    ∃ c, (centersMM mn mx S).filter (fun c => inBlock S c d) = [c] := by
  obtain ⟨hf1, hf2, q, v, hqv, hv0, hvh, hq0⟩ := firstCenter_facts mn mx S h hS hh (by omega)
  have hSpos : 0 < S := by omega
  have hS2 : S / 2 = h := by omega
  generalize hf : firstCenter mn mx S = f at *
  unfold centersMM Py.arange
  rw [hf, List.filter_map]
  set n := ((mx + 1 - f + S - 1) / S).toNat with hn
  set k0 := ((d - (f - h)) / S).toNat with hk0
  have hk0i : (k0 : Int) = (d - (f - h)) / S := by
    rw [hk0]; exact Int.toNat_of_nonneg (Int.ediv_nonneg (by omega) (by omega))
  have hlt : k0 < n := by
    have e1 : (mx + 1 - f + S - 1) / S = q + 1 := by
      have : mx + 1 - f + S - 1 = v + (q + 1) * S := by nlinarith
      rw [this, Int.add_mul_ediv_right _ _ (ne_of_gt hSpos), Int.ediv_eq_zero_of_lt hv0 (by omega)]
      ring
    have e2 : (d - (f - h)) / S ≤ q := by
      have : (d - (f - h)) / S ≤ (mx - (f - h)) / S := Int.ediv_le_ediv hSpos (by omega)
      have e3 : (mx - (f - h)) / S = q := by
        have : mx - (f - h) = (v + h) + q * S := by nlinarith
        rw [this, Int.add_mul_ediv_right _ _ (ne_of_gt hSpos), Int.ediv_eq_zero_of_lt (by omega) (by omega)]
        ring
      omega
    have : (n : Int) = q + 1 := by rw [hn, e1]; exact Int.toNat_of_nonneg (by omega)
    omega
  refine ⟨f + (k0 : Int) * S, ?_⟩
  rw [filter_range_unique n k0 hlt]
  · rfl
  · intro k _
    simp only [Function.comp, inBlock, hS2, Bool.and_eq_true, decide_eq_true_eq]
    rw [block_index f S h d k hS hh, ← hk0i]
    exact Nat.cast_inj

/-! ### min / max of a list -/

theorem foldl_min_le (l : List Int) (a : Int) : l.foldl min a ≤ a ∧ ∀ x ∈ l, l.foldl min a ≤ x := by
  induction l generalizing a with
  | nil => simp
  | cons y t ih =>
    simp only [List.foldl_cons, List.mem_cons]
    obtain ⟨h1, h2⟩ := ih (min a y)
    refine ⟨le_trans h1 (min_le_left _ _), ?_⟩
    rintro x (rfl | hx)
    · exact le_trans h1 (min_le_right _ _)
    · exact h2 x hx

theorem le_foldl_max (l : List Int) (a : Int) : a ≤ l.foldl max a ∧ ∀ x ∈ l, x ≤ l.foldl max a := by
  induction l generalizing a with
  | nil => simp
  | cons y t ih =>
    simp only [List.foldl_cons, List.mem_cons]
    obtain ⟨h1, h2⟩ := ih (max a y)
    refine ⟨le_trans (le_max_left _ _) h1, ?_⟩
    rintro x (rfl | hx)
    · exact le_trans (le_max_right _ _) h1
    · exact h2 x hx

theorem minL_le (l : List Int) (x : Int) (hx : x ∈ l) : Py.minL l ≤ x := by
  cases l with
  | nil => simp at hx
  | cons a t =>
    simp only [Py.minL, List.mem_cons] at *
    rcases hx with rfl | hx
    · exact (foldl_min_le t _).1
    · exact (foldl_min_le t a).2 x hx

theorem le_maxL (l : List Int) (x : Int) (hx : x ∈ l) : x ≤ Py.maxL l := by
  cases l with
  | nil => simp at hx
  | cons a t =>
    simp only [Py.maxL, List.mem_cons] at *
    rcases hx with rfl | hx
    · exact (le_foldl_max t _).1
    · exact (le_foldl_max t a).2 x hx

/-! ### index sets -/

theorem mem_whereTrue (m : List Bool) (i : Nat) :
    i ∈ Py.whereTrue m ↔ i < m.length ∧ m.getD i false = true := by
  unfold Py.whereTrue
  simp [List.mem_filter, List.mem_range]

theorem mem_indicesIn (doy r : List Int) (i : Nat) :
    i ∈ indicesIn doy r ↔ ∃ h : i < doy.length, doy[i] ∈ r := by
  unfold indicesIn Py.isin
  rw [mem_whereTrue]
  simp only [List.length_map]
  constructor
  · rintro ⟨h, hm⟩
    refine ⟨h, ?_⟩
    simpa [List.getD_eq_getElem?_getD, List.getElem?_map, List.getElem?_eq_getElem h] using hm
  · rintro ⟨h, hm⟩
    refine ⟨h, ?_⟩
    simpa [List.getD_eq_getElem?_getD, List.getElem?_map, List.getElem?_eq_getElem h] using hm

theorem mem_adjustRange (S c d : Int) :
    d ∈ adjustRange S c ↔ (c - S / 2 ≤ d ∧ d ≤ c + S / 2) ∧ 0 ≤ d ∧ d ≤ 366 := by
  unfold adjustRange
  simp only [List.mem_filter, mem_arange1, Bool.and_eq_true, decide_eq_true_eq]
  constructor <;> intro h <;> omega

theorem wrap366_id (d : Int) (h1 : 1 ≤ d) (h2 : d ≤ 366) : wrap366 d = d := by
  unfold wrap366
  by_cases h : d = 366
  · subst h; decide
  · have : d % 366 = d := Int.emod_eq_of_lt (by omega) (by omega)
    rw [this]; simp; omega

theorem mem_windowRange_of_close (L c d : Int) (h1 : 1 ≤ d) (h2 : d ≤ 366)
    (hc : c - L / 2 ≤ d ∧ d ≤ c + L / 2) : d ∈ windowRange L c := by
  unfold windowRange
  rw [List.mem_map]
  exact ⟨d, (mem_arange1 _ _ _).mpr (by omega), wrap366_id d h1 h2⟩

/-- circular distance over the year used by C08: `d` is within `ℓ` days of `c` counting `366 ↦ 0 ↦ …` -/
theorem mem_windowRange (L c d : Int) :
    d ∈ windowRange L c ↔ ∃ x, (c - L / 2 ≤ x ∧ x ≤ c + L / 2) ∧ wrap366 x = d := by
  unfold windowRange
  rw [List.mem_map]
  constructor
  · rintro ⟨x, hx, rfl⟩
    exact ⟨x, by have := (mem_arange1 _ _ _).mp hx; omega, rfl⟩
  · rintro ⟨x, hx, rfl⟩
    exact ⟨x, (mem_arange1 _ _ _).mpr (by omega), rfl⟩

end Lemmas.Windows
