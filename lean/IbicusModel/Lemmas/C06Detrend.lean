/-
  C06 helper lemmas, part 7: ISIMIP step 3 / step 7 (removal and restoration of the within-period trend of the annual
  means).  Time inside the window matters: samples are dated pairs (value, year).  The trend is a function of the year
  whose coefficients (annual means over `np.unique(years)`, regression slope) depend on the dated sample up to
  permutation; removing it is an element-wise map of (value, year).
-/
import IbicusModel.Lemmas.C06Isimip
import IbicusModel.Lemmas.C06Years
import Mathlib.Tactic.Ring

namespace Lemmas.C06
open Model.Stats Model.Isimip Lemmas.Stats

/-! ### `np.unique(years)`, annual means -/

theorem sortInt_congr {l l' : List Int} (h : l.Perm l') :
    l.mergeSort (fun a b => decide (a ≤ b)) = l'.mergeSort (fun a b => decide (a ≤ b)) := by
  have hs : ∀ m : List Int, (m.mergeSort (fun a b => decide (a ≤ b))).Pairwise (· ≤ ·) := by
    intro m
    have := List.pairwise_mergeSort (le := fun (a b : Int) => decide (a ≤ b))
      (fun a b c hab hbc => by simp only [decide_eq_true_eq] at *; exact le_trans hab hbc)
      (fun a b => by simp only [Bool.or_eq_true, decide_eq_true_eq]; exact le_total a b) m
    simpa using this
  apply List.Perm.eq_of_pairwise (le := (· ≤ ·)) _ (hs l) (hs l')
  · exact (List.mergeSort_perm _ _).trans (h.trans (List.mergeSort_perm _ _).symm)
  · intro a b _ _ hab hba; exact le_antisymm hab hba

theorem uniqueYears_perm {ys ys' : List Int} (h : ys.Perm ys') : uniqueYears ys = uniqueYears ys' := by
  unfold uniqueYears; rw [sortInt_congr h]

theorem selectWhere_map_map {α β} (l : List α) (f : α → β) (q : α → Bool) :
    Py.selectWhere (l.map f) (l.map q) = (l.filter q).map f := by
  induction l with
  | nil => rfl
  | cons a t ih =>
    unfold Py.selectWhere at ih ⊢
    simp only [List.map_cons, List.zip_cons_cons, List.filterMap_cons, List.filter_cons]
    by_cases h : q a = true
    · simp only [h, if_true, List.map_cons, ih]
    · have h' : q a = false := by simpa using h
      simp only [h', Bool.false_eq_true, if_false, ih]

/-- boolean-mask selection of the values by a predicate on the years is a filter of the dated sample -/
theorem selectWhere_dated (xs : List Dated) (P : Int → Bool) :
    Py.selectWhere (xs.map Prod.fst) ((xs.map Prod.snd).map P) = (xs.filter (fun p => P p.2)).map Prod.fst := by
  rw [List.map_map]
  exact selectWhere_map_map xs Prod.fst (P ∘ Prod.snd)

theorem yearlyMeans_perm {xs xs' : List Dated} (h : xs.Perm xs') :
    yearlyMeans (xs.map Prod.fst) (xs.map Prod.snd) = yearlyMeans (xs'.map Prod.fst) (xs'.map Prod.snd) := by
  unfold yearlyMeans
  rw [uniqueYears_perm (h.map Prod.snd)]
  apply List.map_congr_left
  intro y _
  rw [selectWhere_dated, selectWhere_dated]
  exact Lemmas.Family.mean_perm ((h.filter _).map _)

theorem annualTrend_perm (c : Cfg) (sig : Bool) {xs xs' : List Dated} (h : xs.Perm xs') :
    annualTrend c sig (xs.map Prod.fst) (xs.map Prod.snd) = annualTrend c sig (xs'.map Prod.fst) (xs'.map Prod.snd) := by
  unfold annualTrend
  rw [uniqueYears_perm (h.map Prod.snd), yearlyMeans_perm h]

/-- the trend removed from (and added back to) a value of year `y` -/
def trendOf (c : Cfg) (sig : Bool) (xs : List Dated) (y : Int) : Rat :=
  (annualTrend c sig (xs.map Prod.fst) (xs.map Prod.snd)).getD ((uniqueYears (xs.map Prod.snd)).idxOf y) 0

theorem trendOf_perm (c : Cfg) (sig : Bool) {xs xs' : List Dated} (h : xs.Perm xs') :
    trendOf c sig xs = trendOf c sig xs' := by
  funext y
  unfold trendOf
  rw [annualTrend_perm c sig h, uniqueYears_perm (h.map Prod.snd)]

theorem zipWith_maps {α β γ δ} (f : β → γ → δ) (g : α → β) (k : α → γ) (l : List α) :
    List.zipWith f (l.map g) (l.map k) = l.map (fun a => f (g a) (k a)) := by
  rw [List.zipWith_map, List.zipWith_self]

theorem dailyTrend_eq (c : Cfg) (sig : Bool) (xs : List Dated) :
    dailyTrend c sig (xs.map Prod.fst) (xs.map Prod.snd) = xs.map (fun p => trendOf c sig xs p.2) := by
  unfold dailyTrend
  simp only []
  rw [zipWith_maps]
  rfl

/-- the detrended values of a dated sample -/
def detr (c : Cfg) (sig : Bool) (xs : List Dated) : List Rat := xs.map (fun p => p.1 - trendOf c sig xs p.2)

theorem step3RemoveTrend_eq (c : Cfg) (sig : Bool) (xs : List Dated) :
    step3RemoveTrend c sig (xs.map Prod.fst) (xs.map Prod.snd) =
      (detr c sig xs, xs.map (fun p => trendOf c sig xs p.2)) := by
  unfold step3RemoveTrend
  simp only [dailyTrend_eq]
  congr 1
  rw [zipWith_maps]
  rfl

theorem detr_perm (c : Cfg) (sig : Bool) {xs xs' : List Dated} (h : xs.Perm xs') :
    (detr c sig xs).Perm (detr c sig xs') := by
  unfold detr
  rw [trendOf_perm c sig h]
  exact h.map _

/-- when the regression is not significant (or the significance test is switched off) nothing is removed -/
theorem trendOf_not_significant (c : Cfg) (xs : List Dated) (y : Int) : trendOf c false xs y = 0 := by
  unfold trendOf annualTrend
  simp only [Bool.false_and, Bool.false_eq_true, if_false, List.map_map]
  rw [List.getD_eq_getElem?_getD, List.getElem?_map]
  cases (uniqueYears (xs.map Prod.snd))[(uniqueYears (xs.map Prod.snd)).idxOf y]? <;> rfl

theorem detr_not_significant (c : Cfg) (xs : List Dated) : detr c false xs = xs.map Prod.fst := by
  unfold detr
  apply List.map_congr_left
  intro p _
  rw [trendOf_not_significant]
  ring

/-! ### `_apply_on_window` with detrending on dated samples (no bound / threshold pair: no random draws) -/

/-- `_apply_on_window(obs[idx], cm_hist[idx], cm_future[idx], years_obs[idx], …)` on dated samples -/
def isimipWinD (c : Cfg) (fam : IsiFamily) (o : Oracles) (d : Draws) (ob h x : List Dated) : Except String (List Rat) :=
  applyOnWindow c fam o d (ob.map Prod.fst) (h.map Prod.fst) (x.map Prod.fst) (ob.map Prod.snd) (h.map Prod.snd)
    (x.map Prod.snd)

theorem isimipWinD_detrending (c : Cfg) (fam : IsiFamily) (o : Oracles) (d : Draws) (ob h x : List Dated)
    (hd : c.detrending = true)
    (hl : (c.hasLowerBound && c.hasLowerThreshold) = false) (hu : (c.hasUpperBound && c.hasUpperThreshold) = false) :
    isimipWinD c fam o d ob h x =
      (step5 c o (detr c o.sigO ob) (detr c o.sigH h) (detr c o.sigF x)).bind (fun oF =>
        (step6 c fam o (detr c o.sigO ob) oF (detr c o.sigH h) (detr c o.sigF x)).bind (fun r =>
          .ok (List.zipWith (· + ·) r (x.map (fun p => trendOf c o.sigF x p.2))))) := by
  unfold isimipWinD
  rw [Lemmas.IsimipModel.applyOnWindow_eq]
  have h3 : step3 c o (ob.map Prod.fst) (h.map Prod.fst) (x.map Prod.fst) (ob.map Prod.snd) (h.map Prod.snd)
      (x.map Prod.snd) = (detr c o.sigO ob, detr c o.sigH h, detr c o.sigF x, x.map (fun p => trendOf c o.sigF x p.2)) := by
    unfold step3
    simp only [hd, if_true, step3RemoveTrend_eq]
  rw [h3]
  simp only [Lemmas.IsimipModel.step4_of_no_bound_threshold_pair c d hl hu, Except.bind,
    Lemmas.IsimipModel.step7_eq_add c hd]

end Lemmas.C06
