/-
  Helper lemmas for the quantitative clause of C01 at UNEQUAL sample sizes: the residual mean bias of the
  non-parametric quantile map (`step_function` ecdf + ibicus' `IECDF`) applied to its own calibration sample.

  With a tie-free `cm_hist` of size `m` the step ecdf at the value of rank `r` (0-based) is `(r+1)/m`, and `IECDF` of
  the sorted observations `s` (size `n`) reads the index `⌊(n−1)(r+1)/m⌋` — in natural-number arithmetic
  `(n-1)*(r+1)/m`.  So `mean out = (1/m) Σ_{r<m} s[(n-1)(r+1)/m]`, to be compared with `mean obs = (1/n) Σ_{j<n} s[j]`.
  Both sums are written over the common index set `p < n·m` (`Σ_{p<n·m} g(p / n) = n · Σ_{k<m} g k`) and compared
  term by term through the monotonicity of `s`:

      (n-1)·(p/n) / m ≤ p/m                       ⇒   mean out − range/m ≤ mean obs
      p/m − 1 ≤ (n-1)·(p/n + 1) / m               ⇒   mean obs − range/n ≤ mean out.
-/
import IbicusModel.Lemmas.C01

namespace Lemmas.C01Bound
open Model.Stats Model.Debiasers Lemmas.Stats Lemmas.C01

/-! ### sums over lists / ranges -/

theorem sum_map_le {α} (l : List α) (f g : α → Rat) (h : ∀ a ∈ l, f a ≤ g a) : (l.map f).sum ≤ (l.map g).sum := by
  induction l with
  | nil => simp
  | cons a t ih =>
    simp only [List.map_cons, List.sum_cons]
    have h1 := h a (by simp)
    have h2 := ih (fun b hb => h b (by simp [hb]))
    linarith

theorem sum_map_const {α} (l : List α) (c : Rat) : (l.map (fun _ => c)).sum = (l.length : Rat) * c := by
  induction l with
  | nil => simp
  | cons a t ih => simp only [List.map_cons, List.sum_cons, ih, List.length_cons]; push_cast; ring

theorem sum_range_succ_last (n : Nat) (g : Nat → Rat) :
    ((List.range (n + 1)).map g).sum = ((List.range n).map g).sum + g n := by
  rw [List.range_succ, List.map_append, List.sum_append]; simp

theorem sum_range_succ_first (n : Nat) (g : Nat → Rat) :
    ((List.range (n + 1)).map g).sum = g 0 + ((List.range n).map (fun k => g (k + 1))).sum := by
  rw [List.range_succ_eq_map, List.map_cons, List.sum_cons, List.map_map]; rfl

/-- `Σ_{p < n·m} g(p / n) = n · Σ_{k < m} g k` (every `k < m` is hit by exactly `n` values of `p`) -/
theorem sum_range_mul_div (n m : Nat) (hn : 0 < n) (g : Nat → Rat) :
    ((List.range (n * m)).map (fun p => g (p / n))).sum = (n : Rat) * ((List.range m).map g).sum := by
  induction m with
  | zero => simp
  | succ m ih =>
    have e : n * (m + 1) = n * m + n := by ring
    rw [e, List.range_add, List.map_append, List.sum_append, ih, sum_range_succ_last, List.map_map]
    have h2 : (List.range n).map ((fun p => g (p / n)) ∘ fun x => n * m + x) = (List.range n).map (fun _ => g m) := by
      apply List.map_congr_left
      intro t ht
      have ht' : t < n := List.mem_range.mp ht
      simp only [Function.comp]
      rw [Nat.mul_add_div hn, Nat.div_eq_of_lt ht', Nat.add_zero]
    rw [h2, sum_map_const, List.length_range]
    ring

/-! ### the two term-by-term index comparisons (natural-number arithmetic) -/

/-- `(n-1)·(p/n) / m ≤ p/m` -/
theorem idx_upper (n m p : Nat) : (n - 1) * (p / n) / m ≤ p / m := by
  apply Nat.div_le_div_right
  calc (n - 1) * (p / n) ≤ n * (p / n) := Nat.mul_le_mul_right _ (Nat.sub_le n 1)
    _ ≤ p := Nat.mul_div_le p n

/-- `p/m − 1 ≤ (n-1)·(p/n + 1) / m` for `p < n·m` -/
theorem idx_lower (n m p : Nat) (hn : 0 < n) (hm : 0 < m) (hp : p < n * m) :
    p / m - 1 ≤ (n - 1) * (p / n + 1) / m := by
  rw [Nat.le_div_iff_mul_le hm]
  have h1 : m * (p / m) ≤ p := Nat.mul_div_le p m
  have h2 : p < n * (p / n + 1) := Nat.lt_mul_div_succ p hn
  have h3 : p / n + 1 ≤ m := Nat.div_lt_of_lt_mul hp
  have h4 : ∀ k, n * k = (n - 1) * k + k := by
    intro k
    have : n = (n - 1) + 1 := by omega
    conv_lhs => rw [this]
    rw [Nat.add_mul, Nat.one_mul]
  rcases Nat.eq_zero_or_pos (p / m) with h0 | h0
  · rw [h0]; simp
  · have h5 : (p / m - 1) * m = m * (p / m) - m := by
      rw [Nat.sub_mul, Nat.one_mul, Nat.mul_comm]
    rw [h5]
    rw [h4 (p / n + 1)] at h2
    generalize m * (p / m) = X at *
    generalize (n - 1) * (p / n + 1) = Z at *
    omega

/-- the index read by the lower comparison is a valid index -/
theorem idx_valid (n m p : Nat) (hn : 0 < n) (hm : 0 < m) (hp : p < n * m) : (n - 1) * (p / n + 1) / m < n := by
  have h3 : p / n + 1 ≤ m := Nat.div_lt_of_lt_mul hp
  have : (n - 1) * (p / n + 1) / m ≤ n - 1 := by
    rw [Nat.div_le_iff_le_mul_add_pred hm]
    have := Nat.mul_le_mul_left (n - 1) h3
    rw [Nat.mul_comm m (n - 1)]
    omega
  omega

/-! ### the Riemann sum of a sorted sample on the grid of the other sample -/

/-- `Σ_{r<m} s[(n-1)(r+1)/m]` — `m` times the mean of the quantile-mapped calibration sample -/
def gridSum (s : List Rat) (m : Nat) : Rat :=
  ((List.range m).map (fun r => s.getD ((s.length - 1) * (r + 1) / m) 0)).sum

theorem sum_eq_range (s : List Rat) : s.sum = ((List.range s.length).map (fun j => s.getD j 0)).sum := by
  rw [range_map_getD]

/-- **upper comparison**: `n · Σ_{r<m} s[(n-1)(r+1)/m] ≤ m · Σ s + n · (s[n-1] − s[0])` -/
theorem gridSum_upper {s : List Rat} (hs : s.Pairwise (· ≤ ·)) (hne : s ≠ []) {m : Nat} (hm : 0 < m) :
    (s.length : Rat) * gridSum s m ≤ (m : Rat) * s.sum + (s.length : Rat) * (s.getD (s.length - 1) 0 - s.getD 0 0) := by
  have hn : 0 < s.length := List.length_pos_iff.mpr hne
  -- shift of the grid: Σ_{r<m} g(r+1) = Σ_{k<m} g k − g 0 + g m
  have hshift : gridSum s m
      = ((List.range m).map (fun k => s.getD ((s.length - 1) * k / m) 0)).sum - s.getD 0 0 + s.getD (s.length - 1) 0 := by
    have a := sum_range_succ_first m (fun k => s.getD ((s.length - 1) * k / m) 0)
    have b := sum_range_succ_last m (fun k => s.getD ((s.length - 1) * k / m) 0)
    simp only [Nat.mul_zero, Nat.zero_div, Nat.mul_div_cancel _ hm] at a b
    unfold gridSum
    linarith
  -- the left Riemann sum is at most the mean, term by term over `p < n·m`
  have h1 := sum_range_mul_div s.length m hn (fun k => s.getD ((s.length - 1) * k / m) 0)
  have h2 := sum_range_mul_div m s.length hm (fun j => s.getD j 0)
  rw [← sum_eq_range, Nat.mul_comm m s.length] at h2
  have h3 : ((List.range (s.length * m)).map (fun p => s.getD ((s.length - 1) * (p / s.length) / m) 0)).sum
      ≤ ((List.range (s.length * m)).map (fun p => s.getD (p / m) 0)).sum := by
    apply sum_map_le
    intro p hp
    have hp' : p < s.length * m := List.mem_range.mp hp
    exact sorted_getD_mono hs (idx_upper s.length m p)
      (Nat.div_lt_of_lt_mul (by rw [Nat.mul_comm]; exact hp'))
  rw [hshift]
  nlinarith [h1, h2, h3]

/-- **lower comparison**: `m · Σ s − m · (s[n-1] − s[0]) ≤ n · Σ_{r<m} s[(n-1)(r+1)/m]` -/
theorem gridSum_lower {s : List Rat} (hs : s.Pairwise (· ≤ ·)) (hne : s ≠ []) {m : Nat} (hm : 0 < m) :
    (m : Rat) * s.sum - (m : Rat) * (s.getD (s.length - 1) 0 - s.getD 0 0) ≤ (s.length : Rat) * gridSum s m := by
  have hn : 0 < s.length := List.length_pos_iff.mpr hne
  have h1 := sum_range_mul_div s.length m hn (fun r => s.getD ((s.length - 1) * (r + 1) / m) 0)
  have h2 := sum_range_mul_div m s.length hm (fun j => s.getD (j - 1) 0)
  rw [Nat.mul_comm m s.length] at h2
  -- Σ_{j<n} s[j-1] = s[0] + Σ s − s[n-1]
  have h4 : ((List.range s.length).map (fun j => s.getD (j - 1) 0)).sum = s.getD 0 0 + s.sum - s.getD (s.length - 1) 0 := by
    obtain ⟨n', hn'⟩ : ∃ n', s.length = n' + 1 := ⟨s.length - 1, by omega⟩
    have a := sum_range_succ_first n' (fun j => s.getD (j - 1) 0)
    have b := sum_range_succ_last n' (fun j => s.getD j 0)
    have c := sum_eq_range s
    rw [hn'] at c ⊢
    simp only [Nat.add_sub_cancel, Nat.zero_sub] at a b ⊢
    linarith
  have h3 : ((List.range (s.length * m)).map (fun p => s.getD (p / m - 1) 0)).sum
      ≤ ((List.range (s.length * m)).map (fun p => s.getD ((s.length - 1) * (p / s.length + 1) / m) 0)).sum := by
    apply sum_map_le
    intro p hp
    have hp' : p < s.length * m := List.mem_range.mp hp
    exact sorted_getD_mono hs (idx_lower s.length m p hn hm hp') (idx_valid s.length m p hn hm hp')
  unfold gridSum
  rw [h4] at h2
  nlinarith [h1, h2, h3]

/-- both comparisons divided out: `−range/n ≤ gridSum/m − Σ s / n ≤ range/m` -/
theorem gridMean_bounds {s : List Rat} (hs : s.Pairwise (· ≤ ·)) (hne : s ≠ []) {m : Nat} (hm : 0 < m) :
    -((s.getD (s.length - 1) 0 - s.getD 0 0) / (s.length : Rat)) ≤ gridSum s m / (m : Rat) - s.sum / (s.length : Rat) ∧
      gridSum s m / (m : Rat) - s.sum / (s.length : Rat) ≤ (s.getD (s.length - 1) 0 - s.getD 0 0) / (m : Rat) := by
  have hn : 0 < s.length := List.length_pos_iff.mpr hne
  have hn' : (0 : Rat) < (s.length : Rat) := by exact_mod_cast hn
  have hm' : (0 : Rat) < (m : Rat) := by exact_mod_cast hm
  have hu := gridSum_upper hs hne hm
  have hl := gridSum_lower hs hne hm
  constructor
  · rw [neg_le_sub_iff_le_add, div_add_div _ _ (ne_of_gt hm') (ne_of_gt hn'), div_le_div_iff₀ hn' (mul_pos hm' hn')]
    nlinarith [mul_pos hm' hn']
  · rw [sub_le_iff_le_add, div_add_div _ _ (ne_of_gt hm') (ne_of_gt hn'), div_le_div_iff₀ hm' (mul_pos hm' hn')]
    nlinarith [mul_pos hm' hn']

/-! ### the link to the model: `IECDF` at a step-ecdf value of a tie-free sample -/

/-- `IECDF(s)((r+1)/m) = s[(n-1)(r+1)/m]` (natural-number division = the floor the code takes) -/
theorem iecdfInverted_grid (s : List Rat) (hne : s ≠ []) (r m : Nat) :
    iecdfInverted s (((r : Rat) + 1) / (m : Rat)) = s.getD ((s.length - 1) * (r + 1) / m) 0 := by
  have hn : 0 < s.length := List.length_pos_iff.mpr hne
  unfold iecdfInverted
  have e : ((s.length : Rat) - 1) * (((r : Rat) + 1) / (m : Rat)) = (((s.length - 1) * (r + 1) : Nat) : Rat) / (m : Rat) := by
    rw [Nat.cast_mul, Nat.cast_sub hn]; push_cast; ring
  have hf : ((((s.length - 1) * (r + 1) : Nat) : Rat) / (m : Rat)).floor = (((s.length - 1) * (r + 1) / m : Nat) : Int) := by
    have : ((((s.length - 1) * (r + 1) : Nat) : Rat) / (m : Rat)).floor = ⌊(((s.length - 1) * (r + 1) : Nat) : Rat) / (m : Rat)⌋ := rfl
    rw [this, Rat.floor_natCast_div_natCast]
    rfl
  rw [e, hf, pyIdx_nat]

/-- the quantile-mapped calibration sample, value by value -/
theorem qmNonparam_self (d : Detrending) (obs H : List Rat) (hm : d = .multiplicative → mean H ≠ 0) :
    qmNonparam d obs H H = H.map (fun x => iecdfInverted (sortQ obs) (ecdfStep1 H x)) := by
  unfold qmNonparam
  rw [quantileMapping_self _ d obs H hm]
  unfold standardQMNonparam
  rw [qmapExtrap_self, qmap_eq_map]
  rfl

/-- the sum of the quantile-mapped tie-free calibration sample is the grid sum of the sorted observations -/
theorem qmNonparam_sum (d : Detrending) (obs H : List Rat) (ho : obs ≠ []) (hH : H.Nodup)
    (hm : d = .multiplicative → mean H ≠ 0) :
    (qmNonparam d obs H H).sum = gridSum (sortQ obs) H.length := by
  rw [qmNonparam_self d obs H hm]
  have e : H.map (fun x => iecdfInverted (sortQ obs) (ecdfStep1 H x))
      = (H.map (rankLt H)).map (fun r => (sortQ obs).getD (((sortQ obs).length - 1) * (r + 1) / H.length) 0) := by
    rw [List.map_map]
    apply List.map_congr_left
    intro x hx
    simp only [Function.comp]
    rw [ecdfStep_at_sample H x (count_le_nodup hH hx), iecdfInverted_grid _ (sortQ_ne_nil ho)]
  rw [e, map_rankLt_eq_rankOf hH, ((rankOf_perm H).map _).sum_eq]
  rfl

end Lemmas.C01Bound
