/-
  Tier A proof obligations: the kernels regenerated from /repo's current source
  (`Gen.Windows`) are equal to the hand-written model (`Model.Windows`) on which the
  property theorems are stated.  A change of the code that changes a kernel breaks one of these.
-/
import IbicusModel.Model.Windows
import IbicusModel.Gen.Windows
import Mathlib.Tactic.Linarith
import Mathlib.Tactic.Ring
import Mathlib.Data.Rat.Floor

namespace Lemmas.GenWindows
open Model.Windows

theorem selectWhere_map {α} (l : List α) (p : α → Bool) :
    Py.selectWhere l (l.map p) = l.filter p := by
  induction l with
  | nil => rfl
  | cons a t ih =>
    simp only [Py.selectWhere, List.map_cons, List.zip_cons_cons, List.filterMap_cons, List.filter_cons] at *
    by_cases h : p a <;> simp [h, ih]

theorem setWhere_mod366 (l : List Int) :
    Py.setWhere (l.map (· % 366)) ((l.map (· % 366)).map (fun x => decide (x = 0))) 366 = l.map wrap366 := by
  induction l with
  | nil => rfl
  | cons a t ih =>
    simp only [Py.setWhere, List.map_cons, List.zip_cons_cons, wrap366] at *
    rw [ih]
    by_cases h : a % 366 = 0 <;> simp [h]

theorem zipWith_and_map {α} (l : List α) (p q : α → Bool) :
    List.zipWith (fun x y => x && y) (l.map p) (l.map q) = l.map (fun x => p x && q x) := by
  induction l with
  | nil => rfl
  | cons a t ih => simp [ih]

theorem doy_post_init (L S : Int) : Gen.Windows.doy_post_init L S = postInit L S := by
  unfold Gen.Windows.doy_post_init postInit normOdd
  split_ifs <;> simp_all

theorem years_post_init (L S : Int) : Gen.Windows.years_post_init L S = postInit L S := by
  unfold Gen.Windows.years_post_init postInit normOdd
  split_ifs <;> simp_all

theorem get_window_centers (S : Int) (doy : List Int) :
    Gen.Windows.get_window_centers S doy = centers S doy := by
  unfold Gen.Windows.get_window_centers centers centersMM firstCenter
  rfl

theorem get_indices_vals_in_window (L : Int) (doy : List Int) (c : Int) :
    Gen.Windows.get_indices_vals_in_window L doy c = idxWindow L doy c := by
  unfold Gen.Windows.get_indices_vals_in_window idxWindow indicesIn windowRange
  simp only []
  have := setWhere_mod366 (Py.arange1 (c - L / 2) (c + L / 2 + 1))
  norm_num at this ⊢
  rw [this]

theorem get_indices_vals_to_adjust (S : Int) (doy : List Int) (c : Int) :
    Gen.Windows.get_indices_vals_to_adjust S doy c = idxAdjust S doy c := by
  unfold Gen.Windows.get_indices_vals_to_adjust idxAdjust indicesIn adjustRange
  simp only []
  rw [zipWith_and_map, selectWhere_map]

theorem get_years_in_window (L c : Int) : Gen.Windows.get_years_in_window L c = yearsInWindow L c := rfl

theorem get_years_in_window_that_are_adjusted (S c : Int) :
    Gen.Windows.get_years_in_window_that_are_adjusted S c = yearsAdjusted S c := rfl

theorem rat_floor_eq (q : Rat) (z : Int) (h1 : (z : Rat) ≤ q) (h2 : q < (z : Rat) + 1) : q.floor = z := by
  have a : z ≤ q.floor := Rat.le_floor_iff.mpr h1
  have b : q.floor < z + 1 := Rat.floor_lt_iff.mpr (by push_cast; exact h2)
  omega

theorem roundHalfEven_half (n : Int) : Py.roundHalfEven ((n : Rat) / ((2 : Int) : Rat)) = 
   (if n % 2 = 0 then n / 2 else if (n / 2) % 2 = 0 then n / 2 else n / 2 + 1) := by
  have hn := Int.emod_add_mul_ediv n 2
  have hf : ((n : Rat) / ((2 : Int) : Rat)).floor = n / 2 := by
    apply rat_floor_eq
    · rcases Int.emod_two_eq n with h | h <;> rw [h] at hn
      · have : (n : Rat) = 2 * ((n / 2 : Int) : Rat) := by exact_mod_cast (by omega : n = 2 * (n/2))
        rw [this]; push_cast; linarith
      · have : (n : Rat) = 2 * ((n / 2 : Int) : Rat) + 1 := by exact_mod_cast (by omega : n = 2 * (n/2) + 1)
        rw [this]; push_cast; linarith
    · rcases Int.emod_two_eq n with h | h <;> rw [h] at hn
      · have : (n : Rat) = 2 * ((n / 2 : Int) : Rat) := by exact_mod_cast (by omega : n = 2 * (n/2))
        rw [this]; push_cast; linarith
      · have : (n : Rat) = 2 * ((n / 2 : Int) : Rat) + 1 := by exact_mod_cast (by omega : n = 2 * (n/2) + 1)
        rw [this]; push_cast; linarith
  unfold Py.roundHalfEven
  simp only [hf]
  rcases Int.emod_two_eq n with h | h <;> rw [h] at hn
  · have : (n : Rat) = 2 * ((n / 2 : Int) : Rat) := by exact_mod_cast (by omega : n = 2 * (n/2))
    have e : (n : Rat) / ((2 : Int) : Rat) - ((n / 2 : Int) : Rat) = 0 := by rw [this]; push_cast; ring
    rw [e]; norm_num [h]
  · have : (n : Rat) = 2 * ((n / 2 : Int) : Rat) + 1 := by exact_mod_cast (by omega : n = 2 * (n/2) + 1)
    have e : (n : Rat) / ((2 : Int) : Rat) - ((n / 2 : Int) : Rat) = 1/2 := by rw [this]; push_cast; ring
    rw [e]; norm_num [h]

theorem get_years_forming_window_centers (S : Int) (ys : List Int) :
    Gen.Windows.get_years_forming_window_centers S ys = yearCenters S ys := by
  unfold Gen.Windows.get_years_forming_window_centers yearCenters
  simp only []
  by_cases h : Py.maxL ys - Py.minL ys + 1 ≤ S
  · simp only [h, if_true]
    rw [roundHalfEven_half]; rfl
  · simp only [h, if_false]
    rw [selectWhere_map]
    unfold centersMM firstCenter
    by_cases h2 : (Py.maxL ys - Py.minL ys + 1) % S = 0
    · simp only [h2, if_true]; rfl
    · simp only [h2, if_false]; rfl

end Lemmas.GenWindows
