/-
  C12 tier A — soundness of the checker of `Model/PurityProg.lean` against its heap semantics: a program the checker
  accepts leaves the caller's buffers as they are, in every execution (whichever side of each branch runs, whichever
  source an aliasing operation picks, whatever is written), and the name it reports as own is a buffer allocated later.
-/
import IbicusModel.Model.PurityProg

namespace Lemmas.PurityProg
open Model.Purity (NpOp nCaller)
open Model.PurityProg

/-- the abstract environment covers the concrete one: every bound name is abstractly bound, and a name bound to a
    caller buffer `b` has `b` in its set -/
def Sim (ce : CEnv) (ae : AEnv) : Prop := ∀ v b, ce v = some b → ∃ s, ae v = some s ∧ (b < nCaller → b ∈ s)

def Preserved {α : Type} (s t : St α) : Prop :=
  s.heap.length ≤ t.heap.length ∧ ∀ k, k < nCaller → t.heap[k]? = s.heap[k]?

theorem Preserved.refl {α : Type} (s : St α) : Preserved s s := ⟨Nat.le_refl _, fun _ _ => rfl⟩

theorem Preserved.trans {α : Type} {s t u : St α} (h1 : Preserved s t) (h2 : Preserved t u) : Preserved s u :=
  ⟨Nat.le_trans h1.1 h2.1, fun k hk => (h2.2 k hk).trans (h1.2 k hk)⟩

theorem lookAll_mem {e : AEnv} {srcs : List Var} {s : List Nat} (h : lookAll e srcs = some s) {src : Var}
    (hm : src ∈ srcs) : ∃ a, e src = some a ∧ ∀ x, x ∈ a → x ∈ s := by
  induction srcs generalizing s with
  | nil => cases hm
  | cons v r ih =>
    simp only [lookAll] at h
    cases hv : e v with
    | none => simp [hv] at h
    | some a =>
      cases hr : lookAll e r with
      | none => simp [hv, hr] at h
      | some b =>
        simp only [hv, hr, Option.some.injEq] at h
        subst h
        rcases List.mem_cons.mp hm with rfl | hm'
        · exact ⟨a, hv, fun x hx => List.mem_append_left _ hx⟩
        · obtain ⟨a', ha', hs⟩ := ih hr hm'
          exact ⟨a', ha', fun x hx => List.mem_append_right _ (hs x hx)⟩

theorem sim_upd {ce : CEnv} {ae : AEnv} (h : Sim ce ae) (d : Var) (b : Nat) (s : List Nat) (hb : b < nCaller → b ∈ s) :
    Sim (upd ce d b) (upd ae d s) := by
  intro v b' hv
  unfold upd at hv ⊢
  by_cases hd : v = d
  · simp only [hd, if_true, Option.some.injEq] at hv ⊢
    subst hv
    exact ⟨s, rfl, hb⟩
  · simp only [hd, if_false] at hv ⊢
    exact h v b' hv

theorem sim_join_left {ce : CEnv} {ea eb : AEnv} (h : Sim ce ea) : Sim ce (join ea eb) := by
  intro v b hv
  obtain ⟨s, hs, hm⟩ := h v b hv
  unfold join
  cases hb : eb v with
  | none => exact ⟨s, by simp [hs], hm⟩
  | some s' => exact ⟨s ++ s', by simp [hs], fun hlt => List.mem_append_left _ (hm hlt)⟩

theorem sim_join_right {ce : CEnv} {ea eb : AEnv} (h : Sim ce eb) : Sim ce (join ea eb) := by
  intro v b hv
  obtain ⟨s, hs, hm⟩ := h v b hv
  unfold join
  cases ha : ea v with
  | none => exact ⟨s, by simp [hs], hm⟩
  | some s' => exact ⟨s' ++ s, by simp [hs], fun hlt => List.mem_append_right _ (hm hlt)⟩

theorem sim_bindArgs {ce : CEnv} {ae : AEnv} (h : Sim ce ae) (args : List (Var × Var)) :
    Sim (bindArgs ce args) (bindArgs ae args) := by
  intro v b hv
  unfold bindArgs at hv ⊢
  cases hf : args.find? (fun pa => pa.1 == v) with
  | none => simp [hf] at hv
  | some pa =>
    simp only [hf] at hv ⊢
    exact h pa.2 b hv

theorem sim_bindRets {callee : CEnv} {acallee : AEnv} (hc : Sim callee acallee) (rets : List (Var × Var)) :
    ∀ {ce : CEnv} {ae : AEnv} {env1 : CEnv} {ae1 : AEnv}, Sim ce ae → bindRets callee ce rets = some env1 →
      bindRets acallee ae rets = some ae1 → Sim env1 ae1 := by
  induction rets with
  | nil =>
    intro ce ae env1 ae1 h h1 h2
    simp only [bindRets, Option.some.injEq] at h1 h2
    subst h1; subst h2
    exact h
  | cons hd t ih =>
    intro ce ae env1 ae1 h h1 h2
    obtain ⟨d, r⟩ := hd
    simp only [bindRets] at h1 h2
    cases hcr : callee r with
    | none => simp [hcr] at h1
    | some b =>
      obtain ⟨s, hs, hm⟩ := hc r b hcr
      simp only [hcr] at h1
      simp only [hs] at h2
      exact ih (sim_upd h d b s hm) h1 h2

/-- If the checker accepts a program from an environment that covers the concrete one, then every execution ends in
    an environment covered by the one the checker computed, and has preserved the caller's buffers. -/
theorem check_sound {α : Type} {P : Prog} {p : List PStmt} {s t : St α} (hx : Exec P p s t) :
    ∀ (f : Nat) (ae ae' : AEnv), nCaller ≤ s.heap.length → Sim s.env ae → check P f p ae = some ae' →
      Sim t.env ae' ∧ Preserved s t := by
  induction hx with
  | nil s =>
    intro f ae ae' _ hs hc
    cases f with
    | zero => simp [check] at hc
    | succ f =>
      simp only [check, Option.some.injEq] at hc
      subst hc
      exact ⟨hs, Preserved.refl _⟩
  | @bindAlias d op srcs r s t src b hop hm hl _ ih =>
    intro f ae ae' hn hs hc
    cases f with
    | zero => simp [check] at hc
    | succ f =>
      simp only [check, hop, if_true] at hc
      cases hla : lookAll ae srcs with
      | none => simp [hla] at hc
      | some S =>
        simp only [hla] at hc
        obtain ⟨a, ha, hsub⟩ := lookAll_mem hla hm
        obtain ⟨a', ha', hm'⟩ := hs src b hl
        rw [ha] at ha'
        cases ha'
        exact ih f _ ae' hn (sim_upd hs d b S (fun hlt => hsub _ (hm' hlt))) hc
  | @bindFresh d op srcs r s t v hop _ ih =>
    intro f ae ae' hn hs hc
    cases f with
    | zero => simp [check] at hc
    | succ f =>
      simp only [check, hop] at hc
      have hlen : nCaller ≤ (s.heap ++ [v]).length := by simp; omega
      have := ih f _ ae' hlen (sim_upd hs d s.heap.length [] (fun hlt => by omega)) (by simpa using hc)
      refine ⟨this.1, ?_, ?_⟩
      · have := this.2.1; simp at this; omega
      · intro k hk
        rw [this.2.2 k hk]
        exact List.getElem?_append_left (by omega)
  | @store tgt r s t b v hl _ ih =>
    intro f ae ae' hn hs hc
    cases f with
    | zero => simp [check] at hc
    | succ f =>
      simp only [check] at hc
      obtain ⟨S, hS, hm⟩ := hs tgt b hl
      rw [hS] at hc
      cases S with
      | cons x xs => simp at hc
      | nil =>
        simp only at hc
        have hb : nCaller ≤ b := by
          by_cases hlt : b < nCaller
          · exact absurd (hm hlt) (by simp)
          · omega
        have := ih f ae ae' (by simpa using hn) hs hc
        refine ⟨this.1, ?_, ?_⟩
        · simpa using this.2.1
        · intro k hk
          rw [this.2.2 k hk]
          exact List.getElem?_set_ne (by omega)
  | @draw r s t _ ih =>
    intro f ae ae' hn hs hc
    cases f with
    | zero => simp [check] at hc
    | succ f =>
      simp only [check] at hc
      exact ih f ae ae' hn hs hc
  | @iteL a b r s t0 t _ _ ih1 ih2 =>
    intro f ae ae' hn hs hc
    cases f with
    | zero => simp [check] at hc
    | succ f =>
      simp only [check] at hc
      cases ha : check P f a ae with
      | none => simp [ha] at hc
      | some ea =>
        cases hb : check P f b ae with
        | none => simp [ha, hb] at hc
        | some eb =>
          simp only [ha, hb] at hc
          have r1 := ih1 f ae ea hn hs ha
          have r2 := ih2 f _ ae' (Nat.le_trans hn r1.2.1) (sim_join_left r1.1) hc
          exact ⟨r2.1, Preserved.trans r1.2 r2.2⟩
  | @iteR a b r s t0 t _ _ ih1 ih2 =>
    intro f ae ae' hn hs hc
    cases f with
    | zero => simp [check] at hc
    | succ f =>
      simp only [check] at hc
      cases ha : check P f a ae with
      | none => simp [ha] at hc
      | some ea =>
        cases hb : check P f b ae with
        | none => simp [ha, hb] at hc
        | some eb =>
          simp only [ha, hb] at hc
          have r1 := ih1 f ae eb hn hs hb
          have r2 := ih2 f _ ae' (Nat.le_trans hn r1.2.1) (sim_join_right r1.1) hc
          exact ⟨r2.1, Preserved.trans r1.2 r2.2⟩
  | @call fn args rets r s t0 env1 t _ hr _ ih1 ih2 =>
    intro f ae ae' hn hs hc
    cases f with
    | zero => simp [check] at hc
    | succ f =>
      simp only [check] at hc
      cases h1 : check P f (P fn) (bindArgs ae args) with
      | none => simp [h1] at hc
      | some e1 =>
        simp only [h1] at hc
        cases h2 : bindRets e1 ae rets with
        | none => simp [h2] at hc
        | some e2 =>
          simp only [h2] at hc
          have r1 := ih1 f _ e1 hn (sim_bindArgs hs args) h1
          have hs2 := sim_bindRets r1.1 rets hs hr h2
          have r2 := ih2 f _ ae' (Nat.le_trans hn r1.2.1) hs2 hc
          exact ⟨r2.1, Preserved.trans r1.2 r2.2⟩

theorem sim_entry : Sim entryCEnv entryEnv := by
  intro v b hv
  unfold entryCEnv at hv
  unfold entryEnv
  by_cases h : v < nCaller
  · simp only [h, if_true, Option.some.injEq] at hv ⊢
    subst hv
    exact ⟨[v], rfl, fun _ => by simp⟩
  · simp [h] at hv

/-- **accepted ⇒ inputs preserved, result fresh.**  For a class whose regenerated function table is accepted: every
    execution of `apply_location` started with the caller's six buffers leaves these buffers as they are, and the
    returned name denotes a buffer allocated during the call. -/
theorem accepted_sound {α : Type} {P : Prog} {fn : Nat} (hacc : accepted P fn = true) {s t : St α}
    (henv : s.env = entryCEnv) (hheap : nCaller ≤ s.heap.length) (hx : Exec P (entryProg fn) s t) :
    (∀ k, k < nCaller → t.heap[k]? = s.heap[k]?) ∧ ∀ b, t.env resultVar = some b → nCaller ≤ b := by
  unfold accepted at hacc
  cases hc : check P fuel (entryProg fn) entryEnv with
  | none => simp [hc] at hacc
  | some e =>
    simp only [hc] at hacc
    have hsnd := check_sound hx fuel entryEnv e hheap (by rw [henv]; exact sim_entry) hc
    refine ⟨hsnd.2.2, fun b hb => ?_⟩
    obtain ⟨S, hS, hm⟩ := hsnd.1 resultVar b hb
    have : e resultVar = some [] := by simpa using hacc
    rw [this] at hS
    cases hS
    by_cases hlt : b < nCaller
    · exact absurd (hm hlt) (by simp)
    · omega

/-! ### the checker is not vacuous -/

/-- a store through a name that may denote a caller buffer is refused, in every program -/
theorem store_into_caller_rejected (P : Prog) (f : Nat) (v : Var) (k : Nat) (S : List Nat) (r : List PStmt) (e : AEnv)
    (h : e v = some (k :: S)) : check P f (.store v :: r) e = none := by
  cases f with
  | zero => simp [check]
  | succ f => simp [check, h]

/-- concrete witnesses (labelled `decide +kernel`): `x = np.sort(obs); x[m] = 0` is accepted, while
    `x = np.asarray(obs); x *= s`, a view of a view, a name that is a copy on one side of a branch only, a helper that
    returns its argument (function 1) and a slice handed to a helper that writes into its argument (function 2) are refused -/
theorem checker_not_vacuous :
    let P : Prog := fun n => if n = 1 then [.bind retBase .name [0]] else if n = 2 then [.store 0, .bind retBase .alloc []] else []
    (check P fuel [.bind 6 .sort [0], .store 6] entryEnv).isSome = true ∧
    check P fuel [.bind 6 .name [0], .store 6] entryEnv = none ∧
    check P fuel [.bind 6 .basicSlice [1], .bind 7 .basicSlice [6], .store 7] entryEnv = none ∧
    check P fuel [.ite [.bind 6 .sort [0]] [.bind 6 .basicSlice [0]], .store 6] entryEnv = none ∧
    check P fuel [.call 1 [(0, 2)] [(6, retBase)], .store 6] entryEnv = none ∧
    check P fuel [.bind 6 .basicSlice [2], .call 2 [(0, 6)] [(7, retBase)]] entryEnv = none ∧
    (check P fuel [.bind 6 .fancyIndex [2], .call 2 [(0, 6)] [(7, retBase)]] entryEnv).isSome = true := by
  decide +kernel

/-- the hypotheses of `accepted_sound` are satisfiable: an execution of `y = x0 + 1; y[m] = v; return y` -/
example (o : List Int) (v w : List Int) :
    let P : Prog := fun n => if n = 0 then [.bind 6 .arith [0], .store 6, .bind retBase .name [6]] else []
    ∃ t : St Int, Exec P (entryProg 0) ⟨entryCEnv, [o, [], [], [], [], []]⟩ t :=
  ⟨_, Exec.call (Exec.bindFresh v (by rfl) (Exec.store w (b := 6) (by rfl) (Exec.bindAlias (src := 6) (b := 6) (by rfl) (by simp) (by rfl) (Exec.nil _))))
    (by rfl) (Exec.nil _)⟩

end Lemmas.PurityProg
