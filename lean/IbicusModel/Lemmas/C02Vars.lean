/-
  C02, tier A for the quantifier "ISIMIP additive": which variables `ISIMIP.from_variable` runs with the additive
  trend method.  The settings dictionaries of `ibicus/debias/_isimip_options.py` are regenerated on every run
  (`Gen/IsimipVars.lean`, translator group `isimip_vars`, shared with C10); the documented additive variables are the
  unbounded ones — tas, psl, rlds (Lange 2019, table 1; ISIMIP class docstring).  An edit of the table that changes the
  trend method, a bound / threshold, the detrending flag or the scaling flag of one of them breaks `additive_variables_cfg`.
-/
import IbicusModel.Lemmas.GenIsimipVars
import IbicusModel.Lemmas.C02Isimip

namespace Lemmas.C02
open Model.Isimip Model.IsimipVars Lemmas.GenIsimipVars

/-- the variables whose documented trend preservation is additive (all unbounded) -/
def additiveVariables : List String := ["psl", "rlds", "tas"]

/-- what the shift theorems need of a configuration, as a decidable predicate -/
def additiveCfg (c : Cfg) : Bool :=
  decide (c.trendMethod = .additive) && decide (c.lowerBound = .negInf) && decide (c.lowerThreshold = .negInf) &&
  decide (c.upperBound = .posInf) && decide (c.upperThreshold = .posInf) && c.detrending && !c.scaleByAnnualCycle

theorem additiveCfg_spec {c : Cfg} (h : additiveCfg c = true) :
    Unbounded c ∧ c.trendMethod = .additive ∧ c.detrending = true ∧ c.scaleByAnnualCycle = false := by
  unfold additiveCfg at h
  simp only [Bool.and_eq_true, decide_eq_true_eq, Bool.not_eq_true'] at h
  obtain ⟨⟨⟨⟨⟨⟨h1, h2⟩, h3⟩, h4⟩, h5⟩, h6⟩, h7⟩ := h
  exact ⟨⟨h2, h3, h4, h5⟩, h1, h6, h7⟩

/-- **Gen = Model**: in the code's current dictionaries every documented additive variable gets an additive, unbounded,
    detrending configuration without scaling by the annual cycle (complete finite table) -/
theorem additive_variables_cfg :
    ∀ v ∈ additiveVariables, (match genCfg v with | some c => additiveCfg c | none => false) = true := by
  decide +kernel

/-- … and the list is complete: no other variable of the dictionary runs with the additive method, and every unbounded
    variable is in it (complete finite table) -/
theorem additive_variables_complete :
    ∀ v ∈ Gen.IsimipVars.variables,
      (match genCfg v.1 with
        | some c => (decide (c.trendMethod = .additive) || !(c.hasBound || c.hasThreshold)) == additiveVariables.contains v.1
        | none => false) = true := by
  decide +kernel

end Lemmas.C02
