/-
  C06 helper lemmas, part 11: ISIMIP step 1 / step 8 (rsds: scaling by the annual cycle of upper bounds), the two steps of
  `apply_location` OUTSIDE the window loop.  The annual cycle is a table over `np.unique(days_of_year)` (sorted unique days):
  it depends on the dated series up to permutation; scaling and re-scaling look a step's factor up by its own day of year —
  element-wise in (value, day of year).
-/
import IbicusModel.Lemmas.C06Detrend
import IbicusModel.Lemmas.Perm

namespace Lemmas.C06
open Model.Stats Model.Isimip Lemmas.Stats Model.Skeleton Lemmas.Perm Lemmas.Pointwise

/-! ### `mapM` in `Except` -/

/-- the value a successful `f` returns -/
def okOr {β γ ε} [Inhabited γ] (f : β → Except ε γ) (b : β) : γ :=
  match f b with
  | .ok v => v
  | .error _ => default

theorem mapM_ok_of_forall {β γ ε} (f : β → Except ε γ) (g : β → γ) (l : List β) (h : ∀ b ∈ l, f b = .ok (g b)) :
    l.mapM f = .ok (l.map g) := by
  induction l with
  | nil => rfl
  | cons a t ih =>
    rw [List.mapM_cons, h a List.mem_cons_self, ih (fun b hb => h b (List.mem_cons_of_mem _ hb))]
    rfl

theorem mapM_ok_inv {β γ ε} [Inhabited γ] (f : β → Except ε γ) (l : List β) (r : List γ) (h : l.mapM f = .ok r) :
    r = l.map (okOr f) ∧ ∀ b ∈ l, f b = .ok (okOr f b) := by
  induction l generalizing r with
  | nil =>
    have : r = [] := by
      have h' : (Except.ok [] : Except ε (List γ)) = .ok r := h
      exact (Except.ok.inj h').symm
    subst this; exact ⟨rfl, fun b hb => by simp at hb⟩
  | cons a t ih =>
    rw [List.mapM_cons] at h
    cases hfa : f a with
    | error e => rw [hfa] at h; cases h
    | ok v =>
      rw [hfa] at h
      cases ht : t.mapM f with
      | error e => rw [ht] at h; cases h
      | ok vs =>
        rw [ht] at h
        have hr : r = v :: vs := (Except.ok.inj h).symm
        obtain ⟨h1, h2⟩ := ih vs ht
        have hv : okOr f a = v := by unfold okOr; rw [hfa]
        refine ⟨by rw [hr, h1, List.map_cons, hv], ?_⟩
        intro b hb
        rcases List.mem_cons.mp hb with rfl | hb'
        · rw [hfa, hv]
        · exact h2 b hb'

theorem mem_take {α} (x : List α) (idx : List Nat) (a : α) (h : a ∈ take x idx) : a ∈ x := by
  unfold take at h
  obtain ⟨i, _, hi⟩ := List.mem_filterMap.mp h
  exact List.mem_of_getElem? hi

/-- `mapM` of an element-wise function commutes with fancy indexing when it succeeds -/
theorem mapM_take {β γ ε} [Inhabited γ] (f : β → Except ε γ) (l : List β) (r : List γ) (idx : List Nat)
    (h : l.mapM f = .ok r) : (take l idx).mapM f = .ok (take r idx) := by
  obtain ⟨hr, hall⟩ := mapM_ok_inv f l r h
  rw [mapM_ok_of_forall f (okOr f) _ (fun b hb => hall b (mem_take l idx b hb)), hr, take_map']

/-! ### the annual cycle of upper bounds -/

theorem mem_uniqueYears (ys : List Int) (y : Int) : y ∈ uniqueYears ys ↔ y ∈ ys := by
  unfold uniqueYears
  rw [List.mem_eraseDups, List.mem_mergeSort]

/-- zipped form of a dated series: (value, day of year) -/
theorem annualCycle_perm (c : Cfg) {xs xs' : List (Rat × Int)} (h : xs.Perm xs') :
    annualCycle c (xs.map Prod.fst) (xs.map Prod.snd) = annualCycle c (xs'.map Prod.fst) (xs'.map Prod.snd) := by
  unfold annualCycle
  simp only []
  rw [uniqueYears_perm (h.map Prod.snd)]
  have : (uniqueYears (xs'.map Prod.snd)).map (fun d => maxQ (Py.selectWhere (xs.map Prod.fst) ((xs.map Prod.snd).map (fun t => decide (t = d)))))
      = (uniqueYears (xs'.map Prod.snd)).map (fun d => maxQ (Py.selectWhere (xs'.map Prod.fst) ((xs'.map Prod.snd).map (fun t => decide (t = d))))) := by
    apply List.map_congr_left
    intro d _
    rw [selectWhere_dated, selectWhere_dated]
    exact maxQ_perm ((h.filter _).map _)
  rw [this]

theorem unzip_take {α β} (x : List α) (d : List β) (p : List Nat) (hl : x.length = d.length) (hv : ∀ j ∈ p, j < x.length) :
    (take (x.zip d) p).map Prod.fst = take x p ∧ (take (x.zip d) p).map Prod.snd = take d p := by
  rw [take_zip x d p hl hv]
  have hlen : (take x p).length = (take d p).length := by
    rw [take_length x p hv, take_length d p (fun j hj => hl ▸ hv j hj)]
  exact ⟨List.map_fst_zip (le_of_eq hlen), List.map_snd_zip (le_of_eq hlen.symm)⟩

/-- **the annual cycle does not depend on the storage order** of the dated series -/
theorem annualCycle_take (c : Cfg) (vals : List Rat) (doy : List Int) (p : List Nat) (hl : vals.length = doy.length)
    (hp : p.Perm (List.range vals.length)) :
    annualCycle c (take vals p) (take doy p) = annualCycle c vals doy := by
  have hv := perm_valid p hp
  obtain ⟨e1, e2⟩ := unzip_take vals doy p hl hv
  have hz : (take (vals.zip doy) p).Perm (vals.zip doy) := take_perm _ p (by simpa [hl] using hp)
  rw [← e1, ← e2, annualCycle_perm c hz, List.map_fst_zip (le_of_eq hl), List.map_snd_zip (le_of_eq hl.symm)]

/-- scaling is element-wise in (value, day of year) -/
theorem scaleByCycle_take (vals : List Rat) (doy : List Int) (cycle : List Rat) (days : List Int) (r : List Rat)
    (p : List Nat) (hl : vals.length = doy.length) (hv : ∀ j ∈ p, j < vals.length)
    (h : scaleByCycle vals doy cycle days = .ok r) :
    scaleByCycle (take vals p) (take doy p) cycle days = .ok (take r p) := by
  unfold scaleByCycle at h ⊢
  rw [← take_zip vals doy p hl hv]
  exact mapM_take _ _ r p h

/-- **step 1 is time-order equivariant** (when it succeeds; it always does for calendar days, see `step1_ok`) -/
theorem step1_take (c : Cfg) (obs H F : List Rat) (dO dH dF : List Int) (pO pH pF : List Nat)
    (hlO : obs.length = dO.length) (hlH : H.length = dH.length) (hlF : F.length = dF.length)
    (hpO : pO.Perm (List.range obs.length)) (hpH : pH.Perm (List.range H.length)) (hpF : pF.Perm (List.range F.length))
    (o1 h1 f1 : List Rat) (cyc : Option (List Rat)) (h : step1 c obs H F dO dH dF = .ok (o1, h1, f1, cyc)) :
    step1 c (take obs pO) (take H pH) (take F pF) (take dO pO) (take dH pH) (take dF pF) =
      .ok (take o1 pO, take h1 pH, take f1 pF, cyc) := by
  unfold step1 at h ⊢
  by_cases hs : c.scaleByAnnualCycle = true
  · simp only [hs, if_true] at h ⊢
    rw [annualCycle_take c obs dO pO hlO hpO, annualCycle_take c H dH pH hlH hpH, annualCycle_take c F dF pF hlF hpF]
    simp only [bind, Except.bind, pure, Except.pure] at h ⊢
    cases ho : scaleByCycle obs dO (annualCycle c obs dO).1 (annualCycle c obs dO).2 with
    | error e => rw [ho] at h; cases h
    | ok o =>
      rw [ho] at h
      cases hh : scaleByCycle H dH (annualCycle c H dH).1 (annualCycle c H dH).2 with
      | error e => rw [hh] at h; cases h
      | ok hv =>
        rw [hh] at h
        cases hf : scaleByCycle F dF (annualCycle c F dF).1 (annualCycle c F dF).2 with
        | error e => rw [hf] at h; cases h
        | ok f =>
          rw [hf] at h
          simp only [] at h
          have hq := Except.ok.inj h
          simp only [Prod.mk.injEq] at hq
          obtain ⟨q1, q2, q3, q4⟩ := hq
          rw [scaleByCycle_take obs dO _ _ o pO hlO (perm_valid pO hpO) ho,
            scaleByCycle_take H dH _ _ hv pH hlH (perm_valid pH hpH) hh,
            scaleByCycle_take F dF _ _ f pF hlF (perm_valid pF hpF) hf]
          simp only []
          rw [q1, q2, q3, q4]
  · have hs' : c.scaleByAnnualCycle = false := by simpa using hs
    simp only [hs', Bool.false_eq_true, if_false, pure, Except.pure] at h ⊢
    have hq := Except.ok.inj h
    simp only [Prod.mk.injEq] at hq
    obtain ⟨q1, q2, q3, q4⟩ := hq
    rw [q1, q2, q3, q4]

/-! ### step 8 -/

/-- the re-scaling of one entry of the result buffer -/
def step8Entry (cyc : List Rat) (days : List Int) (p : Option Rat × Int) : Except String (Option Rat) :=
  match p.1 with
  | some v => (lookupDay cyc days p.2).map (fun s => some (v * s))
  | none => .ok none

theorem uniqueYears_take (doy : List Int) (p : List Nat) (hp : p.Perm (List.range doy.length)) :
    uniqueYears (take doy p) = uniqueYears doy := uniqueYears_perm (take_perm doy p hp)

/-- **step 8 is time-order equivariant**: the factor of a step is looked up by its own day of year in the table over the
    SORTED unique days of `cm_future` (which does not depend on the storage order) -/
theorem step8Buffer_take (c : Cfg) (out : List (Option Rat)) (cyc : Option (List Rat)) (dF : List Int) (p : List Nat)
    (hl : out.length = dF.length) (hp : p.Perm (List.range out.length)) (r : List (Option Rat))
    (h : step8Buffer c out cyc dF = .ok r) :
    step8Buffer c (take out p) cyc (take dF p) = .ok (take r p) := by
  unfold step8Buffer at h ⊢
  by_cases hs : c.scaleByAnnualCycle = true
  · simp only [hs, if_true] at h ⊢
    cases cyc with
    | none => cases h
    | some cy =>
      simp only [] at h ⊢
      rw [uniqueYears_take dF p (hl ▸ hp), ← take_zip out dF p hl (perm_valid p hp)]
      exact mapM_take _ _ r p h
  · have hs' : c.scaleByAnnualCycle = false := by simpa using hs
    simp only [hs', Bool.false_eq_true, if_false] at h ⊢
    rw [← Except.ok.inj h]

/-! ### steps 1 and 8 succeed for calendar days (the error branches of `lookupDay` are unreachable) -/

theorem annualCycle_length (c : Cfg) (vals : List Rat) (doy : List Int) :
    (annualCycle c vals doy).1.length = (annualCycle c vals doy).2.length := by
  simp [annualCycle, uniformFilterWrap, maximumFilterWrap]

theorem annualCycle_days (c : Cfg) (vals : List Rat) (doy : List Int) : (annualCycle c vals doy).2 = uniqueYears doy := rfl

theorem lookupDay_ok (arr : List Rat) (days : List Int) (d : Int) (hlen : arr.length = days.length) (hd : d ∈ days)
    (h1 : 1 ≤ d) (h2 : d ≤ 366) : ∃ v, lookupDay arr days d = .ok v := by
  unfold lookupDay
  by_cases h366 : days.length = 366
  · have hlt : (d - 1).toNat < arr.length := by rw [hlen, h366]; omega
    rw [if_pos h366, List.getElem?_eq_getElem hlt]
    simp only []
    rw [if_pos h1]
    exact ⟨_, rfl⟩
  · have hlt : days.idxOf d < arr.length := by rw [hlen]; exact List.idxOf_lt_length_iff.mpr hd
    rw [if_neg h366, List.getElem?_eq_getElem hlt]
    simp only []
    rw [if_pos (List.contains_iff_mem.mpr hd)]
    exact ⟨_, rfl⟩

theorem mapM_ok_of_forall_exists {β γ ε} (f : β → Except ε γ) (l : List β) (h : ∀ b ∈ l, ∃ v, f b = .ok v) :
    ∃ r, l.mapM f = .ok r := by
  induction l with
  | nil => exact ⟨[], rfl⟩
  | cons a t ih =>
    obtain ⟨v, hv⟩ := h a List.mem_cons_self
    obtain ⟨r, hr⟩ := ih (fun b hb => h b (List.mem_cons_of_mem _ hb))
    exact ⟨v :: r, by rw [List.mapM_cons, hv, hr]; rfl⟩

theorem mapM_length {β γ ε} [Inhabited γ] (f : β → Except ε γ) (l : List β) (r : List γ) (h : l.mapM f = .ok r) :
    r.length = l.length := by
  rw [(mapM_ok_inv f l r h).1, List.length_map]

theorem mem_zip_snd {α β} (x : List α) (d : List β) (p : α × β) (h : p ∈ x.zip d) : p.2 ∈ d := (List.of_mem_zip h).2

theorem scaleByCycle_ok (c : Cfg) (vals : List Rat) (doy : List Int) (hr : ∀ d ∈ doy, 1 ≤ d ∧ d ≤ 366) :
    ∃ r, scaleByCycle vals doy (annualCycle c vals doy).1 (annualCycle c vals doy).2 = .ok r := by
  unfold scaleByCycle
  apply mapM_ok_of_forall_exists
  intro p hp
  have hd : p.2 ∈ doy := mem_zip_snd vals doy p hp
  obtain ⟨v, hv⟩ := lookupDay_ok ((annualCycle c vals doy).1.map (fun v => if v = 0 then 1 else 1 / v)) (annualCycle c vals doy).2 p.2
    (by rw [List.length_map, annualCycle_length]) (by rw [annualCycle_days]; exact (mem_uniqueYears doy p.2).mpr hd)
    (hr _ hd).1 (hr _ hd).2
  exact ⟨_, by rw [hv]; rfl⟩

theorem scaleByCycle_length (vals : List Rat) (doy : List Int) (cycle : List Rat) (days : List Int) (r : List Rat)
    (hl : vals.length = doy.length) (h : scaleByCycle vals doy cycle days = .ok r) : r.length = vals.length := by
  unfold scaleByCycle at h
  rw [mapM_length _ _ r h, List.length_zip, hl, Nat.min_self]

/-- **step 1 never raises on calendar days** -/
theorem step1_ok (c : Cfg) (obs H F : List Rat) (dO dH dF : List Int)
    (hrO : ∀ d ∈ dO, 1 ≤ d ∧ d ≤ 366) (hrH : ∀ d ∈ dH, 1 ≤ d ∧ d ≤ 366) (hrF : ∀ d ∈ dF, 1 ≤ d ∧ d ≤ 366) :
    ∃ r, step1 c obs H F dO dH dF = .ok r := by
  unfold step1
  by_cases hs : c.scaleByAnnualCycle = true
  · simp only [hs, if_true, bind, Except.bind, pure, Except.pure]
    obtain ⟨o, ho⟩ := scaleByCycle_ok c obs dO hrO
    obtain ⟨h, hh⟩ := scaleByCycle_ok c H dH hrH
    obtain ⟨f, hf⟩ := scaleByCycle_ok c F dF hrF
    rw [ho, hh, hf]
    exact ⟨_, rfl⟩
  · have hs' : c.scaleByAnnualCycle = false := by simpa using hs
    simp only [hs', Bool.false_eq_true, if_false]
    exact ⟨_, rfl⟩

/-- the debiased annual cycle step 1 hands to step 8 is a table over the unique days of `cm_future` -/
theorem debiasedCycle_length (cO : List Rat) (dO : List Int) (cH : List Rat) (dH : List Int) (cF : List Rat) (dF : List Int)
    (hO : cO.length = dO.length) (hH : cH.length = dH.length) (hF : cF.length = dF.length) :
    (debiasedCycle cO dO cH dH cF dF).length = dF.length := by
  unfold debiasedCycle
  split_ifs with h
  · obtain ⟨h1, h2⟩ := h
    subst h1; subst h2
    simp [hO, hH, hF]
  · simp [hF]

theorem step1_cycle (c : Cfg) (obs H F : List Rat) (dO dH dF : List Int) (o1 h1 f1 : List Rat) (cyc : Option (List Rat))
    (hlO : obs.length = dO.length) (hlH : H.length = dH.length)
    (hlF : F.length = dF.length) (h : step1 c obs H F dO dH dF = .ok (o1, h1, f1, cyc)) :
    o1.length = obs.length ∧ h1.length = H.length ∧ f1.length = F.length ∧ (c.scaleByAnnualCycle = true → ∃ cy, cyc = some cy ∧ cy.length = (uniqueYears dF).length) := by
  unfold step1 at h
  by_cases hs : c.scaleByAnnualCycle = true
  · simp only [hs, if_true, bind, Except.bind, pure, Except.pure] at h
    cases ho : scaleByCycle obs dO (annualCycle c obs dO).1 (annualCycle c obs dO).2 with
    | error e => rw [ho] at h; cases h
    | ok o =>
      rw [ho] at h
      cases hh : scaleByCycle H dH (annualCycle c H dH).1 (annualCycle c H dH).2 with
      | error e => rw [hh] at h; cases h
      | ok hv =>
        rw [hh] at h
        cases hf : scaleByCycle F dF (annualCycle c F dF).1 (annualCycle c F dF).2 with
        | error e => rw [hf] at h; cases h
        | ok f =>
          rw [hf] at h
          simp only [] at h
          have hq := Except.ok.inj h
          simp only [Prod.mk.injEq] at hq
          obtain ⟨q1, q2, q3, q4⟩ := hq
          refine ⟨?_, ?_, ?_, fun _ => ⟨_, q4.symm, ?_⟩⟩
          · rw [← q1]; exact scaleByCycle_length obs dO _ _ o hlO ho
          · rw [← q2]; exact scaleByCycle_length H dH _ _ hv hlH hh
          · rw [← q3]; exact scaleByCycle_length F dF _ _ f hlF hf
          · rw [debiasedCycle_length _ _ _ _ _ _ (annualCycle_length c obs dO) (annualCycle_length c H dH)
              (annualCycle_length c F dF)]
            rfl
  · have hs' : c.scaleByAnnualCycle = false := by simpa using hs
    simp only [hs', Bool.false_eq_true, if_false, pure, Except.pure] at h
    have hq := Except.ok.inj h
    simp only [Prod.mk.injEq] at hq
    exact ⟨by rw [← hq.1], by rw [← hq.2.1], by rw [← hq.2.2.1], fun h' => absurd h' hs⟩

/-- **step 8 never raises** on a fully assigned … or partially assigned buffer, for calendar days and the cycle of step 1 -/
theorem step8Buffer_ok (c : Cfg) (out : List (Option Rat)) (cyc : Option (List Rat)) (dF : List Int)
    (hr : ∀ d ∈ dF, 1 ≤ d ∧ d ≤ 366)
    (hc : c.scaleByAnnualCycle = true → ∃ cy, cyc = some cy ∧ cy.length = (uniqueYears dF).length) :
    ∃ r, step8Buffer c out cyc dF = .ok r := by
  unfold step8Buffer
  by_cases hs : c.scaleByAnnualCycle = true
  · obtain ⟨cy, rfl, hlen⟩ := hc hs
    simp only [hs, if_true]
    apply mapM_ok_of_forall_exists
    intro p hp
    have hd : p.2 ∈ dF := mem_zip_snd out dF p hp
    cases hp1 : p.1 with
    | none => exact ⟨none, rfl⟩
    | some v =>
      obtain ⟨s, hs'⟩ := lookupDay_ok cy (uniqueYears dF) p.2 hlen ((mem_uniqueYears dF p.2).mpr hd) (hr _ hd).1 (hr _ hd).2
      exact ⟨some (v * s), by simp only [hs']; rfl⟩
  · have hs' : c.scaleByAnnualCycle = false := by simpa using hs
    simp only [hs', Bool.false_eq_true, if_false]
    exact ⟨_, rfl⟩

end Lemmas.C06
