/-
  C04: the eight per-window transfer functions (tas-like settings) in the `Skeleton.WinFn` shape, with their domain
  guards, and the facts the lifting lemmas (`Lemmas/Lift.lean`) need: the guards are invariant under the change of
  unit.  The guards are the model's own guard predicates (`lsGuard`, `dcGuard`, `qmGuard`, `scalesOk`, `sdmAbsGuard`,
  `cdftGuard` of `Model/Debiasers.lean`) — the driver reports `undef` exactly when they fail.
-/
import IbicusModel.Lemmas.C04Isimip
import IbicusModel.Model.Grid

namespace Lemmas.C04
open Model.Stats Model.Family Model.Debiasers Model.Skeleton Lemmas.Stats Lemmas.StatsAffine Lemmas.Family

/-! ### guards -/

theorem scalesOk_affine {F : LocScaleFam} (L : LocScaleLaws F) {a : Rat} (ha : 0 < a) (b : Rat) (samples : List (List Rat)) :
    scalesOk F (samples.map (affine a b)) ↔ scalesOk F samples := by
  unfold scalesOk
  simp only [List.mem_map, forall_exists_index, and_imp, forall_apply_eq_imp_iff₂]
  constructor
  · intro h s hs
    obtain ⟨h1, h2⟩ := h s hs
    have hne : s ≠ [] := affine_ne_nil_iff.mp h1
    refine ⟨hne, ?_⟩
    rw [L.scale_affine a b s ha hne] at h2
    exact fun h0 => h2 (by rw [h0, mul_zero])
  · intro h s hs
    obtain ⟨h1, h2⟩ := h s hs
    refine ⟨affine_ne_nil h1, ?_⟩
    rw [L.scale_affine a b s ha h1]
    exact mul_ne_zero (ne_of_gt ha) h2

theorem qmGuard_affine (a b : Rat) (d : Detrending) (hd : d ≠ .multiplicative) (o h x : List Rat) :
    qmGuard d (affine a b o) (affine a b h) (affine a b x) ↔ qmGuard d o h x := by
  unfold qmGuard
  simp only [affine_ne_nil_iff]
  constructor <;> (rintro ⟨h1, h2, h3, _⟩; exact ⟨h1, h2, h3, fun hm => absurd hm hd⟩)

theorem cdftGuard_affine (a b : Rat) (d : DeltaShift) (hd : d ≠ .multiplicative) (o h x : List Rat) :
    cdftGuard d (affine a b o) (affine a b h) (affine a b x) ↔ cdftGuard d o h x := by
  unfold cdftGuard
  simp only [affine_ne_nil_iff]
  constructor <;> (rintro ⟨h1, h2, h3, _⟩; exact ⟨h1, h2, h3, fun hm => absurd hm hd⟩)

theorem sdmAbsGuard_affine {F : LocScaleFam} (L : LocScaleLaws F) {a : Rat} (ha : 0 < a) (b : Rat) (o h x : List Rat) :
    sdmAbsGuard F (affine a b o) (affine a b h) (affine a b x) ↔ sdmAbsGuard F o h x := by
  unfold sdmAbsGuard
  by_cases hne : o ≠ [] ∧ h ≠ [] ∧ x ≠ []
  · obtain ⟨ho, hh, hx⟩ := hne
    rw [detrendConst_affine a b ho, detrendConst_affine a b hh, detrendConst_affine a b hx]
    exact scalesOk_affine L ha 0 [detrendConst o, detrendConst h, detrendConst x]
  · -- an empty sample: the guard fails on both sides
    have hfail : ∀ o h x : List Rat, ¬ (o ≠ [] ∧ h ≠ [] ∧ x ≠ []) → ¬ scalesOk F [detrendConst o, detrendConst h, detrendConst x] := by
      intro o h x hn hs
      apply hn
      unfold scalesOk at hs
      refine ⟨?_, ?_, ?_⟩
      · intro h0; exact (hs (detrendConst o) (by simp)).1 (by rw [h0]; rfl)
      · intro h0; exact (hs (detrendConst h) (by simp)).1 (by rw [h0]; rfl)
      · intro h0; exact (hs (detrendConst x) (by simp)).1 (by rw [h0]; rfl)
    constructor
    · intro hs
      exact absurd hs (hfail _ _ _ (by simpa only [affine_ne_nil_iff] using hne))
    · intro hs
      exact absurd hs (hfail _ _ _ hne)

/-! ### the window functions -/

/-- LinearScaling, additive -/
def lsWin : WinFn Rat := guardedWin (fun o h _ => decide (lsGuard .additive o h)) (linearScaling .additive)

/-- DeltaChange, additive (runs under `applyLocationDC`) -/
def dcWin : WinFn Rat := guardedWin (fun _ h x => decide (dcGuard .additive h x)) (deltaChange .additive)

/-- QuantileMapping, parametric over a location–scale family, any `cdf_threshold` -/
def qmParamWin (F : LocScaleFam) (t : Rat) (d : Detrending) : WinFn Rat :=
  guardedWin (fun o h x => decide (qmGuard d o h x ∧ scalesOk F [o, h])) (qmParam F.toFamily t d)

/-- QuantileMapping, non-parametric -/
def qmNonparamWin (d : Detrending) : WinFn Rat :=
  guardedWin (fun o h x => decide (qmGuard d o h x)) (qmNonparam d)

/-- ECDFM -/
def ecdfmWin (F : LocScaleFam) (t : Rat) : WinFn Rat :=
  guardedWin (fun o h x => decide (scalesOk F [o, h, x])) (ecdfm F.toFamily t)

/-- ScaledDistributionMapping, absolute -/
def sdmWin (F : LocScaleFam) : WinFn Rat :=
  guardedWin (fun o h x => decide (sdmAbsGuard F o h x)) (sdmAbsolute F)

/-- QuantileDeltaMapping, absolute, no censoring; `yrs = none`: `running_window_mode_over_years_of_cm_future = False`,
    `yrs = some (L, S, years)`: year windows of (normalised) length `L`, step `S`, `years` = the year of every step of
    the full future series (the window's years are looked up by the window's index list) -/
def qdmWin (F : LocScaleFam) (em : EcdfMethod) (t : Rat) (yrs : Option (Int × Int × List Int)) : WinFn Rat :=
  fun o h x _ _ ix =>
    if scalesOk F [o, h] then
      match yrs with
      | none => .ok (qdmWindow F.toFamily .absolute em t none o h x)
      | some (L, S, years) => collapse (qdmWindowYears F.toFamily .absolute em t none L S (take years ix) o h x)
    else .error "undef"

/-- CDFt (`SSR = False`), any of the 2 × 9 method pairs, `delta_shift` additive or `no_shift`; `yrs` as for `qdmWin` -/
def cdftWin (d : DeltaShift) (em : EcdfMethod) (im : IecdfMethod) (yrs : Option (Int × Int × List Int)) : WinFn Rat :=
  fun o h x _ _ ix =>
    if cdftGuard d o h x then
      match yrs with
      | none => .ok (cdftMapping d em im o h x)
      | some (L, S, years) => collapse (cdftWindowYears d em im L S (take years ix) o h x)
    else .error "undef"

/-- LinearScaling / DeltaChange, multiplicative (pure rescalings only) -/
def lsMultWin : WinFn Rat := guardedWin (fun o h _ => decide (lsGuard .multiplicative o h)) (linearScaling .multiplicative)
def dcMultWin : WinFn Rat := guardedWin (fun _ h x => decide (dcGuard .multiplicative h x)) (deltaChange .multiplicative)

theorem mean_scale_ne_zero {a : Rat} (ha : a ≠ 0) {h : List Rat} (hh : h ≠ []) : mean (affine a 0 h) ≠ 0 ↔ mean h ≠ 0 := by
  rw [mean_map_affine a 0 hh, add_zero]
  constructor
  · intro h1 h0; exact h1 (by rw [h0, mul_zero])
  · intro h1; exact mul_ne_zero ha h1

theorem lsGuard_mult_scale {a : Rat} (ha : a ≠ 0) (o h : List Rat) :
    lsGuard .multiplicative (affine a 0 o) (affine a 0 h) ↔ lsGuard .multiplicative o h := by
  unfold lsGuard
  simp only [affine_ne_nil_iff]
  constructor
  · rintro ⟨h1, h2, h3⟩; exact ⟨h1, h2, fun hm => (mean_scale_ne_zero ha h2).mp (h3 hm)⟩
  · rintro ⟨h1, h2, h3⟩; exact ⟨h1, h2, fun hm => (mean_scale_ne_zero ha h2).mpr (h3 hm)⟩

theorem dcGuard_mult_scale {a : Rat} (ha : a ≠ 0) (h x : List Rat) :
    dcGuard .multiplicative (affine a 0 h) (affine a 0 x) ↔ dcGuard .multiplicative h x := by
  unfold dcGuard
  simp only [affine_ne_nil_iff]
  constructor
  · rintro ⟨h1, h2, h3⟩; exact ⟨h1, h2, fun hm => (mean_scale_ne_zero ha h1).mp (h3 hm)⟩
  · rintro ⟨h1, h2, h3⟩; exact ⟨h1, h2, fun hm => (mean_scale_ne_zero ha h1).mpr (h3 hm)⟩

/-- `apply_location` of a running-window debiaser as a function of the three series at one location (a `Grid.LocFn`):
    the assembled buffer, with a never-written step reported as the error `unassigned` -/
def locRW (win : WinFn Rat) (L S : Int) (dO dH dF : List Int) : Model.Grid.LocFn Rat String :=
  fun o h x => collapse (applyLocationRW win L S dO dH dF o h x)

def locDC (win : WinFn Rat) (L S : Int) (dO dH dF : List Int) : Model.Grid.LocFn Rat String :=
  fun o h x => collapse (applyLocationDC win L S dO dH dF o h x)

/-- three-dimensional arrays change unit element-wise -/
def affine3 (a b : Rat) (x : Model.Grid.Arr3 Rat) : Model.Grid.Arr3 Rat := x.map (fun p => p.map (affine a b))

theorem slice_affine3 (a b : Rat) (x : Model.Grid.Arr3 Rat) (i j : Nat) :
    Model.Grid.slice (affine3 a b x) i j = affine a b (Model.Grid.slice x i j) := by
  unfold Model.Grid.slice affine3 affine
  rw [List.filterMap_map, List.map_filterMap]
  congr 1
  funext p
  simp only [Function.comp, List.getElem?_map]
  cases p[i]? with
  | none => rfl
  | some r => simp [Option.bind, List.getElem?_map]

theorem affine3_length (a b : Rat) (x : Model.Grid.Arr3 Rat) : (affine3 a b x).length = x.length := by
  unfold affine3; rw [List.length_map]

end Lemmas.C04
