/-
  C05 / C13 tier A: the dispatch table and the statements of the map functions regenerated from /repo's current source
  (`Gen/GridDispatch.lean`) equal the hand-written tables of `Model/GridDispatch.lean` that the theorems are stated on.
  A dropped `**kwargs`, a different `output_size`, an extra `chunksize=`, a changed write-back … breaks these equalities.
-/
import IbicusModel.Gen.GridDispatch

namespace Lemmas.GenGridDispatch

theorem paths : Gen.GridDispatch.paths = Model.GridDispatch.paths := by decide +kernel
theorem facts : Gen.GridDispatch.facts = Model.GridDispatch.facts := by decide +kernel

end Lemmas.GenGridDispatch
