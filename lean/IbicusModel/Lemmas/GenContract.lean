/-
  Tier A proof obligations of C14: the data regenerated from /repo's current source (`Gen.Contract`)
  equals the hand-written model (`Model.Contract`) on which the property theorems are stated.
  A reordered / dropped / added check, a changed helper predicate, an `apply` that no longer runs the checks
  first, or a moved time check breaks one of these.
-/
import IbicusModel.Model.Contract
import IbicusModel.Gen.Contract

namespace Lemmas.GenContract
open Model.Contract

/-- the ordered step list of `_check_inputs_and_convert_if_possible` (finite table) -/
theorem checkSteps : Gen.Contract.checkSteps = steps := by decide

theorem returnsConverted : Gen.Contract.returnsConverted = true := by decide

/-- the step list of `_check_output` (finite table) -/
theorem outputSteps : Gen.Contract.outputSteps = Model.Contract.outputSteps := by decide

/-- the helper predicates have the source text the kinds were modelled from -/
theorem helperDefs : Gen.Contract.helperDefs = Model.Contract.helperDefs := rfl

/-- `Debiaser.apply` and `DeltaChange.apply` are the only `apply` methods and both have the modelled shape -/
theorem applyShapes : Gen.Contract.applyShapes = Model.Contract.applyShapes := rfl

theorem timeSites : Gen.Contract.timeSites = Model.Contract.timeSites := rfl

theorem check_time_information (a b c d e f : Int) :
    Gen.Contract.check_time_information a b c d e f = checkTime a b c d e f := rfl

theorem applyLocationOwner : Gen.Contract.applyLocationOwner = Model.Contract.applyLocationOwner := rfl

/-- only the missing time arrays are inferred; a given one is passed through untouched -/
theorem infer_time (a b c : Int) (x y z : Option Int) :
    Gen.Contract.infer_time a b c x y z =
      (some (inferTime a b c x y z).1, some (inferTime a b c x y z).2.1, some (inferTime a b c x y z).2.2) := by
  cases x <;> cases y <;> cases z <;> rfl

end Lemmas.GenContract
