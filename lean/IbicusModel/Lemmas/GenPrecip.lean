/-
  Tier A proof obligations for C17: the per-element definitions regenerated from /repo's current source by
  `translator/extract_precip.py` (`Gen.Precip.*`: the `fit` / `cdf` / `ppf` methods of the three precipitation models and the
  factory `map_standard_precipitation_method`) are the functions of `Model/Precip.lean` that the theorems of
  `Props/C17.lean` are stated on.

  Reading of the parameters of the generated definitions:
    `cdf ppf : Rat → P → Rat`   `distribution.cdf(·, *prm)` / `distribution.ppf(·, *prm)` (or `scipy.stats.gamma.…`) for a fitted
                                parameter tuple `prm : P` — the model's `Amounts` is `applied cdf ppf prm`;
    `U : Rat → Rat → Rat`       the draw of `np.random.uniform(lo, hi, x.shape)` at this position as a function of the range
                                the code asks for: the model's explicit draw `u` is `U 0 p0` (hurdle) / `U 0 thr` (censored) —
                                a changed range (`uniform(0, 1)`) no longer proves;
    `dist_fit`, `inner`         scipy's fit / the Nelder–Mead fit: arbitrary.
-/
import IbicusModel.Model.PrecipBuilt
import IbicusModel.Gen.Precip
import IbicusModel.Lemmas.GenWindows

namespace Lemmas.GenPrecip
open Model.Precip

/-- the amounts family with the fitted parameters applied -/
def applied {P : Type} (cdf ppf : Rat → P → Rat) (prm : P) : Amounts := ⟨fun x => cdf x prm, fun p => ppf p prm⟩

theorem rainy_select (data : List Rat) :
    Py.selectWhere data (data.map (fun x => decide (x ≠ (((0 : Int) : Int) : Rat)))) = rainyDays data := by
  rw [Lemmas.GenWindows.selectWhere_map]
  unfold rainyDays
  apply List.filter_congr
  intro v _
  simp

/-! ## hurdle model -/

/-- `fit`: `p0` is the model's `hurdleP0`, the amounts fit sees exactly the non-zero values and the class's `fit_kwds`
    (whether or not they are `None`) -/
theorem hurdle_fit {P K : Type} (dist_fit : List Rat → Option K → P) (kw : Option K) (data : List Rat) :
    Gen.Precip.hurdle_fit dist_fit kw data = (hurdleP0 data, dist_fit (rainyDays data) kw) := by
  unfold Gen.Precip.hurdle_fit hurdleP0
  simp only [rainy_select]
  cases kw <;> simp

theorem hurdle_cdf {P : Type} (cdf ppf : Rat → P → Rat) (U : Rat → Rat → Rat) (rand : Bool) (x p0 : Rat) (prm : P) :
    Gen.Precip.hurdle_cdf cdf U rand x (p0, prm) = hurdleCdf (applied cdf ppf prm) p0 rand (U 0 p0) x := by
  unfold Gen.Precip.hurdle_cdf hurdleCdf applied
  cases rand <;> simp

theorem hurdle_ppf {P : Type} (cdf ppf : Rat → P → Rat) (q p0 : Rat) (prm : P) :
    Gen.Precip.hurdle_ppf ppf q (p0, prm) = hurdlePpf (applied cdf ppf prm) p0 q := by
  unfold Gen.Precip.hurdle_ppf hurdlePpf applied
  simp

/-! ## ignore-zeros model -/

theorem iz_fit {P K : Type} (dist_fit : List Rat → Option K → P) (kw : Option K) (data : List Rat) :
    Gen.Precip.iz_fit dist_fit kw data = dist_fit (rainyDays data) kw := by
  unfold Gen.Precip.iz_fit
  simp only [rainy_select]
  cases kw <;> simp

theorem iz_cdf {P : Type} (cdf ppf : Rat → P → Rat) (x : Rat) (prm : P) :
    Gen.Precip.iz_cdf cdf x prm = izCdf (applied cdf ppf prm) x := by
  unfold Gen.Precip.iz_cdf izCdf applied
  simp

/-- the code evaluates `distribution.ppf` on the whole vector, `-inf` included, and discards that value: whatever
    `ppfE` is at `-∞`, the result is the model's -/
theorem iz_ppf {P : Type} (cdf ppf : Rat → P → Rat) (ppfE : ERat → P → Rat) (prm : P)
    (h : ∀ r, ppfE (.fin r) prm = ppf r prm) (q : ERat) :
    Gen.Precip.iz_ppf ppfE q prm = izPpf (applied cdf ppf prm) q := by
  unfold Gen.Precip.iz_ppf izPpf applied
  cases q with
  | negInf => simp
  | fin r => simp [h]

/-! ## left-censored gamma model -/

/-- the data split of `fit`: the optimiser gets the values `> thr` (in order), the NUMBER of the others, and `thr` -/
theorem cens_fit {P : Type} (inner : List Rat → Int → Rat → P) (thr : Rat) (data : List Rat) :
    Gen.Precip.cens_fit inner thr data = inner (censFitArgs thr data).1 (((censFitArgs thr data).2 : Nat) : Int) thr := by
  unfold Gen.Precip.cens_fit censFitArgs
  simp only [Lemmas.GenWindows.selectWhere_map, gt_iff_lt]
  have h : (data.filter (fun v => decide (thr < v))).length ≤ data.length := List.length_filter_le _ _
  congr 1
  omega

theorem cens_cdf {P : Type} (cdf ppf : Rat → P → Rat) (U : Rat → Rat → Rat) (thr x : Rat) (prm : P) :
    Gen.Precip.cens_cdf cdf U thr x prm = censCdf (applied cdf ppf prm) thr (U 0 thr) x := by
  unfold Gen.Precip.cens_cdf censCdf censArg applied
  simp

theorem cens_ppf {P : Type} (cdf ppf : Rat → P → Rat) (thr : Rat) (censor : Bool) (q : Rat) (prm : P) :
    Gen.Precip.cens_ppf ppf thr censor q prm = censPpf (applied cdf ppf prm) thr censor q := by
  unfold Gen.Precip.cens_ppf censPpf censPost applied
  cases censor <;> simp

/-! ## the factory -/

/-- string → model with every forwarded keyword: `"censored"` -/
theorem map_standard_censored {D K : Type} [DecidableEq D] (g d : D) (thr : Rat) (rand : Bool) (kw : K) :
    Gen.Precip.map_standard g "censored" d thr rand kw =
      if d = g ∧ 0 < thr then .ok (.censored thr true) else .error "ValueError" := by
  unfold Gen.Precip.map_standard
  by_cases hd : d = g
  · by_cases h : 0 < thr
    · have h1 : ¬ thr < 0 := not_lt.mpr (le_of_lt h)
      simp [hd, h, h1]; rfl
    · by_cases h1 : thr < 0
      · simp [hd, h, h1]
      · simp [hd, h, h1]; rfl
  · simp [hd]

theorem map_standard_hurdle {D K : Type} [DecidableEq D] (g d : D) (thr : Rat) (rand : Bool) (kw : K) :
    Gen.Precip.map_standard g "hurdle" d thr rand kw = .ok (.hurdle d (some kw) rand) := by
  unfold Gen.Precip.map_standard
  simp

theorem map_standard_ignore_zeros {D K : Type} [DecidableEq D] (g d : D) (thr : Rat) (rand : Bool) (kw : K) :
    Gen.Precip.map_standard g "ignore_zeros" d thr rand kw = .ok (.ignoreZeros d none) := by
  unfold Gen.Precip.map_standard
  simp

theorem map_standard_other {D K : Type} [DecidableEq D] (g d : D) (t : String) (thr : Rat) (rand : Bool) (kw : K)
    (h1 : t ≠ "censored") (h2 : t ≠ "hurdle") (h3 : t ≠ "ignore_zeros") :
    Gen.Precip.map_standard g t d thr rand kw = .error "ValueError" := by
  unfold Gen.Precip.map_standard
  simp [h1, h2, h3]

/-- the regenerated factory, seen through `Built.toModel`, is the model's `mapStandard` (with
    `isGamma := amounts_distribution == scipy.stats.gamma`) -/
theorem map_standard {D K : Type} [DecidableEq D] (g d : D) (t : String) (thr : Rat) (rand : Bool) (kw : K) :
    (Gen.Precip.map_standard g t d thr rand kw).map Built.toModel = mapStandard t (decide (d = g)) thr rand := by
  by_cases h1 : t = "censored"
  · subst h1
    rw [map_standard_censored]
    unfold mapStandard
    by_cases hd : d = g
    · by_cases h : 0 < thr
      · have a : ¬ thr < 0 := not_lt.mpr (le_of_lt h)
        have b : ¬ thr ≤ 0 := not_le.mpr h
        simp [hd, h, a, b, Except.map, Built.toModel]
      · have b : thr ≤ 0 := not_lt.mp h
        simp [hd, h, b, Except.map]
    · simp [hd, Except.map]
  · by_cases h2 : t = "hurdle"
    · subst h2
      rw [map_standard_hurdle]
      unfold mapStandard
      simp [Except.map, Built.toModel]
    · by_cases h3 : t = "ignore_zeros"
      · subst h3
        rw [map_standard_ignore_zeros]
        unfold mapStandard
        simp [Except.map, Built.toModel]
      · rw [map_standard_other g d t thr rand kw h1 h2 h3]
        unfold mapStandard
        simp [h1, h2, h3, Except.map]

/-- the attrs field lists of the three classes (order, defaults, validators) and the defaults of the factory's parameters
    are the ones the model was written from (complete finite table) -/
theorem field_table : Gen.Precip.field_table = [
    ("gen_PrecipitationIgnoreZeroValuesModel.distribution", "scipy.stats.gamma", "attrs.validators.instance_of(scipy.stats.rv_continuous)"),
    ("gen_PrecipitationIgnoreZeroValuesModel.fit_kwds", "{'floc': 0, 'fscale': None}", "attrs.validators.instance_of((dict, type(None)))"),
    ("gen_PrecipitationHurdleModel.distribution", "scipy.stats.gamma", "attrs.validators.instance_of(scipy.stats.rv_continuous)"),
    ("gen_PrecipitationHurdleModel.fit_kwds", "{'floc': 0, 'fscale': None}", "attrs.validators.instance_of((dict, type(None)))"),
    ("gen_PrecipitationHurdleModel.cdf_randomization", "True", "attrs.validators.instance_of(bool)"),
    ("gen_PrecipitationGammaLeftCensoredModel.censoring_threshold", "0.1", "attrs.validators.instance_of(float); attrs.validators.gt(0)"),
    ("gen_PrecipitationGammaLeftCensoredModel.censor_in_ppf", "True", "attrs.validators.instance_of(bool)"),
    ("map_standard_precipitation_method.model_type", "'censored'", ""),
    ("map_standard_precipitation_method.amounts_distribution", "scipy.stats.gamma", ""),
    ("map_standard_precipitation_method.censoring_threshold", "0.1", ""),
    ("map_standard_precipitation_method.hurdle_model_randomization", "True", ""),
    ("map_standard_precipitation_method.hurdle_model_kwds_for_distribution_fit", "{'floc': 0, 'fscale': None}", "")] := rfl

end Lemmas.GenPrecip
