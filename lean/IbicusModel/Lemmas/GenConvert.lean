/-
  Tier A proof obligations for C18: the conversion kernels regenerated from the current text of
  `ibicus/utils/_utils.py` (`Gen.Convert`) are equal to the hand-written model (`Model.Convert`).
  A changed formula, swapped arguments, or a division appearing in / disappearing from a function breaks one of these
  (the latter already at the type level: `Rat` vs `Except String Rat`).  The total kernels are compared by `ring`, so a
  rewrite of the source that is the same polynomial (e.g. `tasrange * tasskew`) is not reported.
-/
import IbicusModel.Model.Convert
import IbicusModel.Gen.Convert
import Mathlib.Tactic.Ring

set_option linter.unusedTactic false
set_option linter.unreachableTactic false

namespace Lemmas.GenConvert
open Model.Convert

theorem bind_ok_id {α} (x : Except String α) : (do let t ← x; (Except.ok t : Except String α)) = x := by
  cases x <;> rfl

theorem get_tasmax_from_tasmin_and_range (tasrange tasmin : Rat) :
    Gen.Convert.get_tasmax_from_tasmin_and_range tasrange tasmin = tasmaxFromTasminAndRange tasrange tasmin := by
  simp only [Gen.Convert.get_tasmax_from_tasmin_and_range, tasmaxFromTasminAndRange] <;> ring

theorem get_tasrange (tasmin tasmax : Rat) : Gen.Convert.get_tasrange tasmin tasmax = getTasrange tasmin tasmax := by
  simp only [Gen.Convert.get_tasrange, getTasrange] <;> ring

theorem get_tasskew (tas tasmin tasmax : Rat) :
    Gen.Convert.get_tasskew tas tasmin tasmax = getTasskew tas tasmin tasmax := by
  unfold Gen.Convert.get_tasskew getTasskew
  exact bind_ok_id _

theorem get_tasmin (tas tasrange tasskew : Rat) :
    Gen.Convert.get_tasmin tas tasrange tasskew = getTasmin tas tasrange tasskew := by
  simp only [Gen.Convert.get_tasmin, getTasmin] <;> ring

theorem get_tasmax (tas tasrange tasskew : Rat) :
    Gen.Convert.get_tasmax tas tasrange tasskew = getTasmax tas tasrange tasskew := by
  simp only [Gen.Convert.get_tasmax, Gen.Convert.get_tasmin, Gen.Convert.get_tasmax_from_tasmin_and_range, getTasmax, getTasmin, tasmaxFromTasminAndRange] <;> ring

theorem get_tasmin_tasmax (tas tasrange tasskew : Rat) :
    Gen.Convert.get_tasmin_tasmax tas tasrange tasskew = getTasminTasmax tas tasrange tasskew := by
  simp only [Gen.Convert.get_tasmin_tasmax, Gen.Convert.get_tasmin, Gen.Convert.get_tasmax_from_tasmin_and_range,
    getTasminTasmax, getTasmin, tasmaxFromTasminAndRange] <;> (congr 1 <;> ring)

theorem get_tasrange_tasskew (tas tasmin tasmax : Rat) :
    Gen.Convert.get_tasrange_tasskew tas tasmin tasmax = getTasrangeTasskew tas tasmin tasmax := by
  unfold Gen.Convert.get_tasrange_tasskew getTasrangeTasskew
  rw [get_tasskew]
  cases getTasskew tas tasmin tasmax <;> rfl

theorem get_prsnratio (pr prsn : Rat) : Gen.Convert.get_prsnratio pr prsn = getPrsnratio pr prsn := by
  unfold Gen.Convert.get_prsnratio getPrsnratio
  exact bind_ok_id _

theorem get_pr (prsn prsnratio : Rat) : Gen.Convert.get_pr prsn prsnratio = getPr prsn prsnratio := by
  unfold Gen.Convert.get_pr getPr
  exact bind_ok_id _

theorem get_prsn (pr prsnratio : Rat) : Gen.Convert.get_prsn pr prsnratio = getPrsn pr prsnratio := by
  simp only [Gen.Convert.get_prsn, getPrsn] <;> ring

end Lemmas.GenConvert
