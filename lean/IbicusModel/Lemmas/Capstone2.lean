/-
  Capstone 2, helper part: the bridge between the two formulations of "CDFt / QDM with year windows inside every seasonal
  window".

    * `Lemmas.C03.winOfYears g Ly Sy yearsF` (what `Props/Capstone.lean` proves the regenerated composition equal to): the
      series hold plain values, the years of a window's future sample are looked up in the separate list `yearsF` by the
      window's index list;
    * `Lemmas.C06.yearsWinFn g Ly Sy` (what `Props.C06.cdft_years_time_order_equivariant` /
      `qdm_years_time_order_equivariant` are stated on): every value carries its year (`Dated = Rat × Int`).

  `applyLocationRW_winOfYears_project`: the run of the first is the projection (`Prod.fst`) of the run of the second on the
  zipped future series (`Lemmas/C06Dated.lean`: the loops commute with a projection of the element type).
  `winOfYears_time_order`: hence time-order equivariance of the dated formulation carries over — the list of years is
  permuted together with `cm_future`.
-/
import IbicusModel.Lemmas.C03
import IbicusModel.Lemmas.C06Dated
import IbicusModel.Props.C06Inst

namespace Lemmas.Capstone2
open Model.Skeleton Model.Windows Lemmas.Windows Lemmas.Skeleton Lemmas.Pointwise Lemmas.Perm
open Lemmas.C03 (winOfYears allAssigned)
open Lemmas.C06 (yearsWinFn allSome Dated mapWH take_mapH runLoop_mapH windowWrites_project)
open Props.C06 (undated TimeOrderEquivariantRW anySeries)

/-- the two readings of a result buffer as an array agree -/
theorem allAssigned_eq_allSome {α} (l : List (Option α)) :
    allAssigned l = match allSome l with
      | none => .error "unassigned"
      | some v => .ok v := by
  induction l with
  | nil => rfl
  | cons a t ih =>
    cases a with
    | none => simp [allAssigned, allSome]
    | some a =>
      unfold allAssigned at ih ⊢
      simp only [List.all_cons, Option.isSome_some, Bool.true_and, List.filterMap_cons, id, allSome]
      cases hs : allSome t with
      | none =>
        rw [hs] at ih
        by_cases ht : t.all Option.isSome = true
        · rw [if_pos ht] at ih; cases ih
        · rw [if_neg ht]; rfl
      | some v =>
        rw [hs] at ih
        by_cases ht : t.all Option.isSome = true
        · rw [if_pos ht] at ih ⊢
          have e : List.filterMap id t = v := Except.ok.inj ih
          show Except.ok (a :: List.filterMap id t) = _
          rw [e]; rfl
        · rw [if_neg ht] at ih; cases ih

theorem allSome_length {α} (l : List (Option α)) (v : List α) (h : allSome l = some v) : v.length = l.length := by
  induction l generalizing v with
  | nil => simp only [allSome, Option.some.injEq] at h; subst h; rfl
  | cons a t ih =>
    cases a with
    | none => simp [allSome] at h
    | some a =>
      simp only [allSome] at h
      cases hs : allSome t with
      | none => rw [hs] at h; cases h
      | some w =>
        rw [hs] at h
        simp only [Option.map_some, Option.some.injEq] at h
        subst h
        simp [ih w hs]

theorem applyYears_length {α} (g : YearFn α) (L S : Int) (years : List Int) (fut : List α) (out : List (Option α))
    (h : applyYears g L S years fut = .ok out) : out.length = fut.length := by
  obtain ⟨wss, _, rfl⟩ := runLoop_ok _ _ _ _ h
  rw [applyWrites_length]; simp

/-- one window: `winOfYears` on the values (years looked up by the index list) returns the values of `yearsWinFn` on the
    window sample of the zipped future series -/
theorem winOfYears_eq_project (g : List Rat → List Rat → YearFn Rat) (Ly Sy : Int) (yearsF : List Int) (o h : List Dated)
    (fut : List Rat) (iO iH iF : List Nat) (hy : fut.length = yearsF.length) (hv : ∀ j ∈ iF, j < fut.length) :
    winOfYears g Ly Sy yearsF (o.map Prod.fst) (h.map Prod.fst) (take fut iF) iO iH iF
      = (yearsWinFn g Ly Sy o h (take (fut.zip yearsF) iF) iO iH iF).map (List.map Prod.fst) := by
  have hvy : ∀ j ∈ iF, j < yearsF.length := fun j hj => hy ▸ hv j hj
  have hl : (take fut iF).length = (take yearsF iF).length := by
    rw [take_length fut iF hv, take_length yearsF iF hvy]
  unfold winOfYears yearsWinFn
  rw [take_zip fut yearsF iF hy hv, List.map_snd_zip (le_of_eq hl.symm), List.map_fst_zip (le_of_eq hl)]
  cases hr : applyYears (g (o.map Prod.fst) (h.map Prod.fst)) Ly Sy (take yearsF iF) (take fut iF) with
  | error e => rfl
  | ok out =>
    simp only [Except.bind]
    rw [allAssigned_eq_allSome]
    cases hs : allSome out with
    | none => rfl
    | some vals =>
      simp only [Except.map]
      congr 1
      rw [List.map_fst_zip]
      rw [allSome_length out vals hs, applyYears_length _ _ _ _ _ _ hr]
      exact le_of_eq hl

/-- **the running-window loop with year windows on plain values is the projection of the loop on dated pairs** -/
theorem applyLocationRW_winOfYears_project (g : List Rat → List Rat → YearFn Rat) (Ly Sy : Int) (yearsF : List Int)
    (L S : Int) (dO dH dF : List Int) (obs hist fut : List Rat) (hy : yearsF.length = fut.length)
    (hlF : dF.length = fut.length) :
    applyLocationRW (winOfYears g Ly Sy yearsF) L S dO dH dF obs hist fut
      = (applyLocationRW (yearsWinFn g Ly Sy) L S dO dH dF (undated obs) (undated hist) (fut.zip yearsF)).map
          (List.map (Option.map Prod.fst)) := by
  have zO : (undated obs).map Prod.fst = obs := by simp [undated, List.map_map, Function.comp_def]
  have zH : (undated hist).map Prod.fst = hist := by simp [undated, List.map_map, Function.comp_def]
  have zF : (fut.zip yearsF).map Prod.fst = fut := List.map_fst_zip (le_of_eq hy.symm)
  have zl : (fut.zip yearsF).length = fut.length := by simp [List.length_zip, hy]
  unfold applyLocationRW
  rw [zl]
  apply runLoop_mapH _ _ Prod.fst
  intro c _
  have key := windowWrites_project (winOfYears g Ly Sy yearsF) (yearsWinFn g Ly Sy) Prod.fst L S dO dH dF
    (undated obs) (undated hist) (fut.zip yearsF) c (by
      rw [zF, take_mapH, take_mapH]
      exact winOfYears_eq_project g Ly Sy yearsF _ _ fut _ _ _ hy.symm
        (fun j hj => by have := idxWindow_valid L dF c j hj; omega))
  rw [zO, zH, zF] at key
  exact key

/-- **time-order equivariance carries over from the dated formulation**: the list of years is permuted with `cm_future` -/
theorem winOfYears_time_order (g : List Rat → List Rat → YearFn Rat) (Ly Sy : Int)
    (hg : TimeOrderEquivariantRW (yearsWinFn g Ly Sy) anySeries) (yearsF : List Int)
    (L S h : Int) (dO dH dF : List Int) (obs hist fut : List Rat) (pO pH pF : List Nat)
    (hpO : pO.Perm (List.range obs.length)) (hpH : pH.Perm (List.range hist.length))
    (hpF : pF.Perm (List.range fut.length))
    (hlO : dO.length = obs.length) (hlH : dH.length = hist.length) (hlF : dF.length = fut.length)
    (hy : yearsF.length = fut.length)
    (hS : S = 2 * h + 1) (hh : 0 ≤ h) (hSL : S ≤ L) (hr : ∀ d ∈ dF, 1 ≤ d ∧ d ≤ 366) :
    ∃ out, applyLocationRW (winOfYears g Ly Sy yearsF) L S dO dH dF obs hist fut = .ok out ∧
      applyLocationRW (winOfYears g Ly Sy (take yearsF pF)) L S (take dO pO) (take dH pH) (take dF pF)
        (take obs pO) (take hist pH) (take fut pF) = .ok (take out pF) := by
  have lO : (undated obs).length = obs.length := by simp [undated]
  have lH : (undated hist).length = hist.length := by simp [undated]
  have lF : (fut.zip yearsF).length = fut.length := by simp [List.length_zip, hy]
  have hvF := perm_valid pF hpF
  have hvFd : ∀ j ∈ pF, j < dF.length := fun j hj => hlF ▸ hvF j hj
  have hvFy : ∀ j ∈ pF, j < yearsF.length := fun j hj => hy ▸ hvF j hj
  obtain ⟨outD, h1, h2⟩ := hg L S h dO dH dF (undated obs) (undated hist) (fut.zip yearsF) pO pH pF
    (lO ▸ hpO) (lH ▸ hpH) (lF ▸ hpF) (hlO.trans lO.symm) (hlH.trans lH.symm) (hlF.trans lF.symm) hS hh hSL hr trivial
  refine ⟨outD.map (Option.map Prod.fst), ?_, ?_⟩
  · rw [applyLocationRW_winOfYears_project g Ly Sy yearsF L S dO dH dF obs hist fut hy hlF, h1]
    rfl
  · have hy' : (take yearsF pF).length = (take fut pF).length := by
      rw [take_length yearsF pF hvFy, take_length fut pF hvF]
    have hlF' : (take dF pF).length = (take fut pF).length := by
      rw [take_length dF pF hvFd, take_length fut pF hvF]
    rw [applyLocationRW_winOfYears_project g Ly Sy (take yearsF pF) L S _ _ _ _ _ _ hy' hlF']
    have e1 : undated (take obs pO) = take (undated obs) pO := by unfold undated; rw [take_mapH]
    have e2 : undated (take hist pH) = take (undated hist) pH := by unfold undated; rw [take_mapH]
    have e3 : (take fut pF).zip (take yearsF pF) = take (fut.zip yearsF) pF := (take_zip fut yearsF pF hy.symm hvF).symm
    rw [e1, e2, e3, h2, take_mapH]
    rfl

end Lemmas.Capstone2
