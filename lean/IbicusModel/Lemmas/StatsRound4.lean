/-
  Helper lemmas added in the proof round 4 (C16): exact end points below the minimum, discrete iecdf methods return
  sample values, `sortLike x x = x`, element-wise / chunk-wise structure of the list functions.
-/
import IbicusModel.Lemmas.StatsQmap
import IbicusModel.Model.StatsSeq

namespace Lemmas.Stats
open Model.Stats

/-! ### below the sample minimum -/

theorem ecdfStep_below {x : List Rat} {y : Rat} (h : ∀ v ∈ x, y < v) : ecdfStep1 x y = 0 := by
  unfold ecdfStep1
  have : x.filter (fun v => decide (v ≤ y)) = [] := by
    rw [List.filter_eq_nil_iff]; intro v hv; simp only [decide_eq_true_eq, not_le]; exact h v hv
  rw [this]; simp

theorem cnt_zero_of_lt {xp : List Rat} {y : Rat} (h : ∀ v ∈ xp, y < v) : cnt xp y = 0 := by
  cases xp with
  | nil => rfl
  | cons a t => rw [cnt_cons, if_neg (not_le.mpr (h a (by simp)))]

theorem ecdfLin_below {x : List Rat} (hx : x ≠ []) {y : Rat} (h : ∀ v ∈ x, y < v) : ecdfLin1 x y = 0 := by
  unfold ecdfLin1
  rw [interp1_below (cnt_zero_of_lt (fun v hv => h v ((sortQ_perm x).mem_iff.mp hv)))]
  exact linspace01_first (List.length_pos_iff.mpr hx)

/-! ### the discrete methods return sample values -/

theorem iecdfInverted_mem {s : List Rat} (hne : s ≠ []) {q : Rat} (h0 : 0 ≤ q) (h1 : q ≤ 1) : iecdfInverted s q ∈ s := by
  have hpos : 0 < s.length := List.length_pos_iff.mpr hne
  obtain ⟨k, hk, hkn⟩ := inverted_index hpos h0 h1
  unfold iecdfInverted
  rw [hk, pyIdx_nat]; exact getD_mem s k (by omega)

theorem quantileClosest_mem {s : List Rat} (hne : s ≠ []) {q : Rat} (h1 : q ≤ 1) : quantileClosest s q ∈ s := by
  have hpos : 0 < s.length := List.length_pos_iff.mpr hne
  obtain ⟨k, hk, hkn⟩ := closest_index_nat hpos h1
  rw [quantileClosest_eq, hk, pyIdx_nat]; exact getD_mem s k (by omega)

/-! ### `sort_array_like_another_one(a, a) = a` -/

theorem sortLike_self (x : List Rat) : sortLike x x = x := by
  apply List.ext_getElem
  · rw [sortLike_length]
  · intro i h1 h2
    rw [← getD_eq _ i h1, ← getD_eq _ i h2, sortLike_getD x x i h2]
    have hr := rankOf_lt x i h2
    have hs := (argsort_spec x _ hr).2
    rw [argsort_rankOf x i h2] at hs
    exact hs.symm

/-! ### element-wise structure: evaluating on selected positions / on chunks -/

/-- selecting positions commutes with a pointwise map (out-of-range positions read the default and its image) -/
theorem map_select {α β} (g : α → β) (xs : List α) (d : α) (idx : List Nat) :
    (idx.map (fun i => xs.getD i d)).map g = idx.map (fun i => (xs.map g).getD i (g d)) := by
  rw [List.map_map]
  apply List.map_congr_left
  intro i _
  simp only [Function.comp]
  by_cases h : i < xs.length
  · rw [List.getD_eq_getElem?_getD, List.getD_eq_getElem?_getD]
    simp [h]
  · rw [List.getD_eq_getElem?_getD, List.getD_eq_getElem?_getD]
    simp [h]

end Lemmas.Stats
