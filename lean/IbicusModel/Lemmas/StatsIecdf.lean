/-
  Helper lemmas for the numeric toolkit, part 2: the nine inverse-ecdf methods on a sorted sample —
  range, end points, monotonicity in the probability.
-/
import IbicusModel.Lemmas.Stats

namespace Lemmas.Stats
open Model.Stats

theorem floor_eq_iff (v : Rat) (z : Int) : v.floor = z ↔ (z : Rat) ≤ v ∧ v < (z : Rat) + 1 := by
  have : v.floor = ⌊v⌋ := rfl
  rw [this, Int.floor_eq_iff]

theorem floor_nat {v : Rat} (h0 : 0 ≤ v) : ∃ k : Nat, v.floor = (k : Int) :=
  Int.eq_ofNat_of_zero_le (Rat.le_floor_iff.mpr (by push_cast; exact h0))

/-! ### ibicus' own `IECDF`: `sorted[floor((n-1) q)]` -/

theorem inverted_index {n : Nat} (hn : 1 ≤ n) {q : Rat} (h0 : 0 ≤ q) (h1 : q ≤ 1) :
    ∃ k : Nat, (((n : Rat) - 1) * q).floor = (k : Int) ∧ k ≤ n - 1 := by
  have hn' : (1 : Rat) ≤ (n : Rat) := by exact_mod_cast hn
  have hv0 : 0 ≤ ((n : Rat) - 1) * q := mul_nonneg (by linarith) h0
  have hv1 : ((n : Rat) - 1) * q ≤ (n : Rat) - 1 := by
    have := mul_le_mul_of_nonneg_left h1 (by linarith : (0 : Rat) ≤ (n : Rat) - 1)
    linarith
  obtain ⟨k, hk⟩ := floor_nat hv0
  refine ⟨k, hk, ?_⟩
  have h2 := Rat.floor_le (((n : Rat) - 1) * q)
  rw [hk] at h2
  have h3 : (k : Rat) ≤ ((n - 1 : Nat) : Rat) := by
    rw [Nat.cast_sub hn]; push_cast at h2 ⊢; linarith
  exact_mod_cast h3

theorem iecdfInverted_range {s : List Rat} (hs : s.Pairwise (· ≤ ·)) (hne : s ≠ []) {q : Rat}
    (h0 : 0 ≤ q) (h1 : q ≤ 1) :
    s.getD 0 0 ≤ iecdfInverted s q ∧ iecdfInverted s q ≤ s.getD (s.length - 1) 0 := by
  have hpos : 0 < s.length := List.length_pos_iff.mpr hne
  obtain ⟨k, hk, hkn⟩ := inverted_index hpos h0 h1
  unfold iecdfInverted
  rw [hk, pyIdx_nat]
  exact ⟨sorted_getD_mono hs (Nat.zero_le k) (by omega), sorted_getD_mono hs hkn (by omega)⟩

theorem iecdfInverted_mono {s : List Rat} (hs : s.Pairwise (· ≤ ·)) (hne : s ≠ []) {p q : Rat}
    (h0 : 0 ≤ p) (hpq : p ≤ q) (h1 : q ≤ 1) : iecdfInverted s p ≤ iecdfInverted s q := by
  have hpos : 0 < s.length := List.length_pos_iff.mpr hne
  obtain ⟨k, hk, hkn⟩ := inverted_index hpos h0 (le_trans hpq h1)
  obtain ⟨k', hk', hkn'⟩ := inverted_index hpos (le_trans h0 hpq) h1
  have hn' : (1 : Rat) ≤ (s.length : Rat) := by exact_mod_cast hpos
  have hv : ((s.length : Rat) - 1) * p ≤ ((s.length : Rat) - 1) * q :=
    mul_le_mul_of_nonneg_left hpq (by linarith)
  have hkk : k ≤ k' := by
    have := Rat.floor_monotone hv
    rw [hk, hk'] at this; exact_mod_cast this
  unfold iecdfInverted
  rw [hk, hk', pyIdx_nat, pyIdx_nat]
  exact sorted_getD_mono hs hkk (by omega)

theorem iecdfInverted_zero (s : List Rat) : iecdfInverted s 0 = s.getD 0 0 := by
  unfold iecdfInverted
  have : (((s.length : Rat) - 1) * 0).floor = ((0 : Nat) : Int) := by
    rw [mul_zero]; exact Rat.floor_intCast 0
  rw [this, pyIdx_nat]

theorem iecdfInverted_one (s : List Rat) (hne : s ≠ []) : iecdfInverted s 1 = s.getD (s.length - 1) 0 := by
  have hpos : 0 < s.length := List.length_pos_iff.mpr hne
  unfold iecdfInverted
  have : (((s.length : Rat) - 1) * 1).floor = ((s.length - 1 : Nat) : Int) := by
    rw [mul_one, floor_eq_iff]
    rw [Nat.cast_sub hpos]
    push_cast
    constructor <;> linarith
  rw [this, pyIdx_nat]

/-! ### clamped interpolation with a modified weight (`averaged_inverted_cdf`) -/

/-- numpy's `fix_gamma` for `averaged_inverted_cdf` -/
def avgGamma (g : Rat) : Rat := if g = 0 then 1 / 2 else 1

theorem quantileAveraged_eq (s : List Rat) (q : Rat) :
    quantileAveraged s q =
      (let vi := (s.length : Rat) * q - 1
       if vi ≥ (s.length : Rat) - 1 then pyIdx s (-1)
       else if vi < 0 then pyIdx s 0
       else lerp (pyIdx s vi.floor) (pyIdx s (vi.floor + 1)) (avgGamma (vi - (vi.floor : Rat)))) := rfl

/-- the averaged method as a function of the virtual index -/
def avgAt (s : List Rat) (vi : Rat) : Rat :=
  if vi ≥ (s.length : Rat) - 1 then pyIdx s (-1)
  else if vi < 0 then pyIdx s 0
  else lerp (pyIdx s vi.floor) (pyIdx s (vi.floor + 1)) (avgGamma (vi - (vi.floor : Rat)))

theorem quantileAveraged_eq' (s : List Rat) (q : Rat) :
    quantileAveraged s q = avgAt s ((s.length : Rat) * q - 1) := rfl

theorem avgGamma_range (g : Rat) : 0 ≤ avgGamma g ∧ avgGamma g ≤ 1 := by
  unfold avgGamma; split_ifs <;> constructor <;> norm_num

theorem avgAt_interior {s : List Rat} {vi : Rat} (h0 : ¬ vi < 0) (h1 : ¬ vi ≥ (s.length : Rat) - 1)
    {k : Nat} (hk : vi.floor = (k : Int)) :
    avgAt s vi = lerp (s.getD k 0) (s.getD (k + 1) 0) (avgGamma (vi - (k : Rat))) := by
  unfold avgAt
  rw [if_neg h1, if_neg h0, hk, pyIdx_nat, pyIdx_nat_succ]
  simp

theorem avgAt_range {s : List Rat} (hs : s.Pairwise (· ≤ ·)) (hne : s ≠ []) (vi : Rat) :
    s.getD 0 0 ≤ avgAt s vi ∧ avgAt s vi ≤ s.getD (s.length - 1) 0 := by
  have hpos : 0 < s.length := List.length_pos_iff.mpr hne
  have hends : s.getD 0 0 ≤ s.getD (s.length - 1) 0 := sorted_getD_mono hs (Nat.zero_le _) (by omega)
  by_cases h1 : vi ≥ (s.length : Rat) - 1
  · unfold avgAt; rw [if_pos h1, pyIdx_neg_one]; exact ⟨hends, le_refl _⟩
  by_cases h0 : vi < 0
  · unfold avgAt; rw [if_neg h1, if_pos h0, pyIdx_zero]; exact ⟨le_refl _, hends⟩
  obtain ⟨k, hk, hkn⟩ := interior_floor h0 h1
  rw [avgAt_interior h0 h1 hk]
  have hg := avgGamma_range (vi - (k : Rat))
  have hab : s.getD k 0 ≤ s.getD (k + 1) 0 := sorted_getD_mono hs (Nat.le_succ k) hkn
  constructor
  · exact le_trans (sorted_getD_mono hs (Nat.zero_le k) (by omega)) (lerp_ge hab hg.1)
  · exact le_trans (lerp_le hab hg.2) (sorted_getD_mono hs (by omega) (by omega))

theorem avgAt_mono {s : List Rat} (hs : s.Pairwise (· ≤ ·)) (hne : s ≠ []) {vi vi' : Rat}
    (h : vi ≤ vi') : avgAt s vi ≤ avgAt s vi' := by
  by_cases h1' : vi' ≥ (s.length : Rat) - 1
  · have : avgAt s vi' = s.getD (s.length - 1) 0 := by
      unfold avgAt; rw [if_pos h1', pyIdx_neg_one]
    rw [this]; exact (avgAt_range hs hne vi).2
  have h1 : ¬ vi ≥ (s.length : Rat) - 1 := by intro hh; exact h1' (le_trans hh h)
  by_cases h0 : vi < 0
  · have : avgAt s vi = s.getD 0 0 := by
      unfold avgAt; rw [if_neg h1, if_pos h0, pyIdx_zero]
    rw [this]; exact (avgAt_range hs hne vi').1
  have h0' : ¬ vi' < 0 := by intro hh; exact h0 (lt_of_le_of_lt h hh)
  obtain ⟨k, hk, hkn⟩ := interior_floor h0 h1
  obtain ⟨k', hk', hkn'⟩ := interior_floor h0' h1'
  rw [avgAt_interior h0 h1 hk, avgAt_interior h0' h1' hk']
  have hg := avgGamma_range (vi - (k : Rat))
  have hg' := avgGamma_range (vi' - (k' : Rat))
  have hf := floor_frac vi
  rw [hk] at hf
  have hkk : k ≤ k' := by
    have := Rat.floor_monotone h
    rw [hk, hk'] at this; exact_mod_cast this
  have hab : s.getD k 0 ≤ s.getD (k + 1) 0 := sorted_getD_mono hs (Nat.le_succ k) hkn
  have hab' : s.getD k' 0 ≤ s.getD (k' + 1) 0 := sorted_getD_mono hs (Nat.le_succ k') hkn'
  rcases Nat.eq_or_lt_of_le hkk with heq | hlt
  · subst heq
    rcases eq_or_lt_of_le h with he | hl
    · rw [he]
    · apply lerp_mono hab
      have hpos : vi' - (k : Rat) ≠ 0 := by
        have : (0 : Rat) ≤ vi - ((k : Int) : Rat) := hf.1
        push_cast at this
        intro h0; linarith
      have : avgGamma (vi' - (k : Rat)) = 1 := by unfold avgGamma; rw [if_neg hpos]
      rw [this]; exact hg.2
  · calc lerp (s.getD k 0) (s.getD (k + 1) 0) _
        ≤ s.getD (k + 1) 0 := lerp_le hab hg.2
      _ ≤ s.getD k' 0 := sorted_getD_mono hs (by omega) (by omega)
      _ ≤ _ := lerp_ge hab' hg'.1

/-! ### `closest_observation` -/

/-- the index chosen by `_closest_observation` for the real-valued index `n q - 3/2` -/
def closestIdx (index : Rat) : Int :=
  discreteIdx index (decide (index - (index.floor : Rat) = 0 ∧ index.floor % 2 = 1))

theorem quantileClosest_eq (s : List Rat) (q : Rat) :
    quantileClosest s q = pyIdx s (closestIdx ((s.length : Rat) * q - 3 / 2)) := rfl

theorem closestIdx_nonneg (index : Rat) : 0 ≤ closestIdx index := by
  unfold closestIdx discreteIdx
  simp only []
  split_ifs <;> omega

theorem closestIdx_le (index : Rat) : closestIdx index ≤ max 0 (index.floor + 1) := by
  unfold closestIdx discreteIdx
  simp only []
  split_ifs <;> omega

theorem closestIdx_ge (index : Rat) : index.floor ≤ closestIdx index := by
  unfold closestIdx discreteIdx
  simp only []
  split_ifs <;> omega

theorem closestIdx_mono {a b : Rat} (h : a ≤ b) : closestIdx a ≤ closestIdx b := by
  have hfl := Rat.floor_monotone h
  rcases eq_or_lt_of_le h with he | hl
  · rw [he]
  rcases eq_or_lt_of_le hfl with hfe | hfl'
  · -- same floor, a < b : b is not an integer, so b takes `floor + 1`
    have hb : ¬ (b - (b.floor : Rat) = 0) := by
      intro hb0
      have ha := Rat.floor_le a
      rw [hfe] at ha
      linarith
    have : closestIdx b = max 0 (b.floor + 1) := by
      unfold closestIdx discreteIdx
      simp only [hb, false_and, decide_false]
      simp only [Bool.false_eq_true, if_false]
      split_ifs <;> omega
    rw [this]
    have := closestIdx_le a
    rw [hfe] at this
    exact this
  · have h1 := closestIdx_le a
    have h2 := closestIdx_ge b
    have h3 := closestIdx_nonneg b
    omega

theorem closestIdx_upper {n : Nat} (hn : 1 ≤ n) {index : Rat} (h : index ≤ (n : Rat) - 3 / 2) :
    closestIdx index ≤ (n : Int) - 1 := by
  have h1 := closestIdx_le index
  have : index.floor < (n : Int) - 1 := by
    rw [Rat.floor_lt_iff]; push_cast; linarith
  omega

theorem closestIdx_at_zero : closestIdx (-3 / 2) = 0 := by
  have hf : ((-3 / 2 : Rat)).floor = -2 := by
    rw [floor_eq_iff]; constructor <;> norm_num
  unfold closestIdx discreteIdx
  rw [hf]
  norm_num

theorem closestIdx_at_one {n : Nat} (hn : 1 ≤ n) : closestIdx ((n : Rat) - 3 / 2) = (n : Int) - 1 := by
  have hf : ((n : Rat) - 3 / 2).floor = (n : Int) - 2 := by
    rw [floor_eq_iff]; push_cast; constructor <;> linarith
  have hfr : ¬ ((n : Rat) - 3 / 2 - (((n : Int) - 2 : Int) : Rat) = 0) := by
    push_cast; intro h; linarith
  unfold closestIdx discreteIdx
  rw [hf]
  simp only [hfr, false_and, decide_false, Bool.false_eq_true, if_false]
  split_ifs <;> omega

theorem closest_index_nat {n : Nat} (hn : 1 ≤ n) {q : Rat} (h1 : q ≤ 1) :
    ∃ k : Nat, closestIdx ((n : Rat) * q - 3 / 2) = (k : Int) ∧ k ≤ n - 1 := by
  have hnn := closestIdx_nonneg ((n : Rat) * q - 3 / 2)
  obtain ⟨k, hk⟩ := Int.eq_ofNat_of_zero_le hnn
  refine ⟨k, hk, ?_⟩
  have hle : (n : Rat) * q - 3 / 2 ≤ (n : Rat) - 3 / 2 := by
    have : (n : Rat) * q ≤ (n : Rat) * 1 := mul_le_mul_of_nonneg_left h1 (by positivity)
    linarith
  have := closestIdx_upper hn hle
  omega

theorem quantileClosest_range {s : List Rat} (hs : s.Pairwise (· ≤ ·)) (hne : s ≠ []) {q : Rat}
    (h1 : q ≤ 1) :
    s.getD 0 0 ≤ quantileClosest s q ∧ quantileClosest s q ≤ s.getD (s.length - 1) 0 := by
  have hpos : 0 < s.length := List.length_pos_iff.mpr hne
  obtain ⟨k, hk, hkn⟩ := closest_index_nat hpos h1
  rw [quantileClosest_eq, hk, pyIdx_nat]
  exact ⟨sorted_getD_mono hs (Nat.zero_le k) (by omega), sorted_getD_mono hs hkn (by omega)⟩

theorem quantileClosest_mono {s : List Rat} (hs : s.Pairwise (· ≤ ·)) (hne : s ≠ []) {p q : Rat}
    (hpq : p ≤ q) (h1 : q ≤ 1) : quantileClosest s p ≤ quantileClosest s q := by
  have hpos : 0 < s.length := List.length_pos_iff.mpr hne
  obtain ⟨k, hk, hkn⟩ := closest_index_nat hpos (le_trans hpq h1)
  obtain ⟨k', hk', hkn'⟩ := closest_index_nat hpos h1
  have hv : (s.length : Rat) * p - 3 / 2 ≤ (s.length : Rat) * q - 3 / 2 := by
    have : (s.length : Rat) * p ≤ (s.length : Rat) * q := mul_le_mul_of_nonneg_left hpq (by positivity)
    linarith
  have hkk : k ≤ k' := by
    have := closestIdx_mono hv
    rw [hk, hk'] at this; exact_mod_cast this
  rw [quantileClosest_eq, quantileClosest_eq, hk, hk', pyIdx_nat, pyIdx_nat]
  exact sorted_getD_mono hs hkk (by omega)

theorem quantileClosest_zero (s : List Rat) : quantileClosest s 0 = s.getD 0 0 := by
  rw [quantileClosest_eq]
  have : (s.length : Rat) * 0 - 3 / 2 = -3 / 2 := by ring
  rw [this, closestIdx_at_zero]
  exact pyIdx_zero s

theorem quantileClosest_one (s : List Rat) (hne : s ≠ []) :
    quantileClosest s 1 = s.getD (s.length - 1) 0 := by
  have hpos : 0 < s.length := List.length_pos_iff.mpr hne
  rw [quantileClosest_eq]
  have : (s.length : Rat) * 1 - 3 / 2 = (s.length : Rat) - 3 / 2 := by ring
  rw [this, closestIdx_at_one hpos]
  have : (s.length : Int) - 1 = ((s.length - 1 : Nat) : Int) := by omega
  rw [this, pyIdx_nat]

/-! ### end points of the interpolating methods -/

theorem clampLerp_top {s : List Rat} {vi : Rat} (h : vi ≥ (s.length : Rat) - 1) :
    clampLerp s vi = s.getD (s.length - 1) 0 := by
  unfold clampLerp; rw [if_pos h, pyIdx_neg_one]

/-- at a virtual index `≤ 0` (and `n ≥ 2`) the value is the first order statistic -/
theorem clampLerp_bottom {s : List Rat} (hn : 2 ≤ s.length) {vi : Rat} (h : vi ≤ 0) :
    clampLerp s vi = s.getD 0 0 := by
  have hn' : (2 : Rat) ≤ (s.length : Rat) := by exact_mod_cast hn
  have h1 : ¬ vi ≥ (s.length : Rat) - 1 := by intro hh; linarith
  rcases eq_or_lt_of_le h with he | hl
  · subst he
    have h0 : ¬ (0 : Rat) < 0 := lt_irrefl _
    have hk : (0 : Rat).floor = ((0 : Nat) : Int) := Rat.floor_intCast 0
    rw [clampLerp_interior h0 h1 hk]
    simp [lerp]
  · unfold clampLerp; rw [if_neg h1, if_pos hl, pyIdx_zero]

theorem quantileAB_zero {α β : Rat} (hα : α ≤ 1) {s : List Rat} (hn : 2 ≤ s.length) :
    quantileAB α β s 0 = s.getD 0 0 := by
  rw [quantileAB_eq]
  apply clampLerp_bottom hn
  linarith

theorem quantileAB_one {α β : Rat} (hβ : β ≤ 1) (s : List Rat) :
    quantileAB α β s 1 = s.getD (s.length - 1) 0 := by
  rw [quantileAB_eq]
  apply clampLerp_top
  linarith

theorem quantileLinear_zero {s : List Rat} (hn : 2 ≤ s.length) : quantileLinear s 0 = s.getD 0 0 := by
  rw [quantileLinear_eq]
  apply clampLerp_bottom hn
  simp

theorem quantileLinear_one (s : List Rat) : quantileLinear s 1 = s.getD (s.length - 1) 0 := by
  rw [quantileLinear_eq]
  apply clampLerp_top
  simp

theorem quantileAveraged_zero {s : List Rat} (hne : s ≠ []) : quantileAveraged s 0 = s.getD 0 0 := by
  have hpos : 0 < s.length := List.length_pos_iff.mpr hne
  have hn' : (1 : Rat) ≤ (s.length : Rat) := by exact_mod_cast hpos
  rw [quantileAveraged_eq']
  unfold avgAt
  have h1 : ¬ ((s.length : Rat) * 0 - 1 ≥ (s.length : Rat) - 1) := by intro h; linarith
  have h0 : (s.length : Rat) * 0 - 1 < 0 := by linarith
  rw [if_neg h1, if_pos h0, pyIdx_zero]

theorem quantileAveraged_one (s : List Rat) : quantileAveraged s 1 = s.getD (s.length - 1) 0 := by
  rw [quantileAveraged_eq']
  unfold avgAt
  have h1 : (s.length : Rat) * 1 - 1 ≥ (s.length : Rat) - 1 := by linarith
  rw [if_pos h1, pyIdx_neg_one]

end Lemmas.Stats
