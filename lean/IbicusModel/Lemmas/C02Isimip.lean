/-
  C02 helper lemmas, part 3: ISIMIP's per-window pipeline (`Model/Isimip.lean`, steps 3–7) under a shift of
  `cm_future`, for the additive / unbounded configuration (tas, psl, rlds: no bounds, no thresholds).

  * step 3: the regression slope of the annual means (modelled exactly: `linSlope`) does not see a constant, hence the
    removed trend is the same and the detrended series is shifted; the significance decision is the oracle
    `Oracles.sigF` — the oracle law "`linregress(...).pvalue` is invariant under adding a constant to `y`" is
    expressed by using the *same* `Oracles` value in both runs;
  * step 4: identity (no bound/threshold pair);
  * step 5 (additive transfer): `obs + (iecdf_F(p) − iecdf_H(p))` is shifted, `p = ecdf_obs(obs)` does not involve `F`;
  * step 6 (non-parametric, parametric with or without event-likelihood adjustment, every fallback branch): all
    samples derived from `cm_future` and the pseudo-future observations are shifted together; parametric branch under
    `IsiShiftLaws` (fit of the shifted sample = shifted fit, proved for every `IsiFamily.ofLocScale` of a family with
    `LocScaleLaws`); the Kolmogorov–Smirnov decision is the oracle `Oracles.ksGood` (same in both runs: the statistic
    `sup |ecdf − cdf|` is invariant when sample and fitted location are shifted together);
  * step 7: adds the (unchanged) trend back.
-/
import IbicusModel.Lemmas.C02Shift
import IbicusModel.Lemmas.IsimipModel
import IbicusModel.Lemmas.Lift

set_option linter.unusedSimpArgs false

namespace Lemmas.C02
open Model.Stats Model.Family Model.Isimip Lemmas.Stats Lemmas.StatsAffine Lemmas.IsimipModel

/-! ### configuration guard -/

/-- no bounds, no thresholds (the attrs defaults `∓inf`; variables tas, psl, rlds) -/
structure Unbounded (c : Cfg) : Prop where
  lb : c.lowerBound = .negInf
  lt : c.lowerThreshold = .negInf
  ub : c.upperBound = .posInf
  ut : c.upperThreshold = .posInf

namespace Unbounded
variable {c : Cfg} (h : Unbounded c)
include h
theorem hasLowerThreshold : c.hasLowerThreshold = false := by simp [Cfg.hasLowerThreshold, h.lt, ExtRat.gtNegInf]
theorem hasUpperThreshold : c.hasUpperThreshold = false := by simp [Cfg.hasUpperThreshold, h.ut, ExtRat.ltPosInf]
theorem hasLowerBound : c.hasLowerBound = false := by simp [Cfg.hasLowerBound, h.lb, ExtRat.gtNegInf]
theorem hasUpperBound : c.hasUpperBound = false := by simp [Cfg.hasUpperBound, h.ub, ExtRat.ltPosInf]
theorem hasThreshold : c.hasThreshold = false := by simp [Cfg.hasThreshold, h.hasLowerThreshold, h.hasUpperThreshold]
end Unbounded

/-! ### generic list facts -/

theorem zipWith_sub_shift (c : Rat) : ∀ (a b : List Rat),
    List.zipWith (· - ·) (a.map (fun x => x + c)) b = (List.zipWith (· - ·) a b).map (fun x => x + c)
  | [], _ => by simp
  | _ :: _, [] => by simp
  | x :: a, y :: b => by
      simp only [List.map_cons, List.zipWith_cons_cons, zipWith_sub_shift c a b]
      congr 1
      ring

theorem zipWith_add_shift (c : Rat) : ∀ (a b : List Rat),
    List.zipWith (· + ·) (a.map (fun x => x + c)) b = (List.zipWith (· + ·) a b).map (fun x => x + c)
  | [], _ => by simp
  | _ :: _, [] => by simp
  | x :: a, y :: b => by
      simp only [List.map_cons, List.zipWith_cons_cons, zipWith_add_shift c a b]
      congr 1
      ring

theorem selectWhere_ne_nil {α} : ∀ (x : List α) (m : List Bool) (i : Nat), i < x.length → m[i]? = some true →
    Py.selectWhere x m ≠ []
  | [], _, _, h, _ => by simp at h
  | _ :: _, [], _, _, h => by simp at h
  | a :: t, b :: u, 0, _, h => by
      simp only [List.getElem?_cons_zero, Option.some.injEq] at h
      subst h
      simp [Py.selectWhere]
  | a :: t, b :: u, i + 1, hi, h => by
      have ih := selectWhere_ne_nil t u i (by simpa using hi) (by simpa using h)
      unfold Py.selectWhere at *
      simp only [List.zip_cons_cons, List.filterMap_cons]
      cases b <;> simp [ih]

theorem fillWhere_map {α} (g : α → α) : ∀ (xs : List α) (m : List Bool) (vs : List α),
    Model.IsimipFreq.fillWhere (xs.map g) m (vs.map g) = (Model.IsimipFreq.fillWhere xs m vs).map g
  | [], _, _ => by simp [Model.IsimipFreq.fillWhere]
  | x :: xs, [], _ => by simp [Model.IsimipFreq.fillWhere]
  | x :: xs, false :: ms, vs => by
      simp only [List.map_cons, Model.IsimipFreq.fillWhere]
      rw [← List.map_cons, fillWhere_map g xs ms vs]
      simp
  | x :: xs, true :: ms, [] => by
      simp only [List.map_cons, List.map_nil, Model.IsimipFreq.fillWhere]
      have := fillWhere_map g xs ms []
      simp only [List.map_nil] at this
      rw [this]
  | x :: xs, true :: ms, v :: vs => by
      simp only [List.map_cons, Model.IsimipFreq.fillWhere]
      rw [fillWhere_map g xs ms vs]

/-- `x[mask] = vals` with an all-`True` mask and as many values as entries replaces everything -/
theorem fillWhere_all_true {α} : ∀ (xs vs : List α), vs.length = xs.length →
    Model.IsimipFreq.fillWhere xs (xs.map (fun _ => true)) vs = vs
  | [], [], _ => rfl
  | [], _ :: _, h => by simp at h
  | _ :: _, [], h => by simp at h
  | x :: xs, v :: vs, h => by
      simp only [List.map_cons, Model.IsimipFreq.fillWhere]
      rw [fillWhere_all_true xs vs (by simpa using h)]

theorem selectWhere_all_true {α} : ∀ (xs : List α), Py.selectWhere xs (xs.map (fun _ => true)) = xs
  | [] => rfl
  | x :: xs => by
      have ih := selectWhere_all_true xs
      unfold Py.selectWhere at *
      simp only [List.map_cons, List.zip_cons_cons, List.filterMap_cons, if_true, ih]

/-! ### step 3 -/

/-- every year of `np.unique(years)` occurs in `years` -/
theorem mem_of_mem_uniqueYears {years : List Int} {y : Int} (h : y ∈ uniqueYears years) : y ∈ years := by
  unfold uniqueYears at h
  exact List.mem_mergeSort.mp (List.mem_eraseDups.mp h)

/-- the annual means of a shifted series are the shifted annual means (year list parallel to the values: every
    year of `np.unique(years)` has at least one value) -/
theorem yearlyMeans_shift (c : Rat) (x : List Rat) (years : List Int) (hlen : x.length = years.length) :
    yearlyMeans (x.map (fun v => v + c)) years = (yearlyMeans x years).map (fun v => v + c) := by
  unfold yearlyMeans
  rw [List.map_map]
  apply List.map_congr_left
  intro y hy
  simp only [Function.comp]
  rw [Lemmas.Lift.selectWhere_map]
  apply mean_shift
  obtain ⟨i, hi, hiy⟩ := List.mem_iff_getElem.mp (mem_of_mem_uniqueYears hy)
  apply selectWhere_ne_nil x _ i (by omega)
  rw [List.getElem?_map, List.getElem?_eq_getElem hi]
  simp [hiy]

/-- **the regression slope does not see a constant added to `y`** (`linregress(x, y + c).slope = linregress(x, y).slope`) -/
theorem linSlope_shift (c : Rat) (xs ys : List Rat) : linSlope xs (ys.map (fun v => v + c)) = linSlope xs ys := by
  unfold linSlope
  by_cases hy : ys = []
  · subst hy; rfl
  · simp only []
    rw [mean_shift c ys hy, List.map_map]
    have : (fun v => v - (mean ys + c)) ∘ (fun v => v + c) = fun v => v - mean ys := by
      funext v; simp only [Function.comp]; ring
    rw [this]

theorem annualTrend_shift (cfg : Cfg) (sig : Bool) (c : Rat) (x : List Rat) (years : List Int)
    (hlen : x.length = years.length) :
    annualTrend cfg sig (x.map (fun v => v + c)) years = annualTrend cfg sig x years := by
  unfold annualTrend
  simp only [yearlyMeans_shift c x years hlen, linSlope_shift]

theorem dailyTrend_shift (cfg : Cfg) (sig : Bool) (c : Rat) (x : List Rat) (years : List Int)
    (hlen : x.length = years.length) :
    dailyTrend cfg sig (x.map (fun v => v + c)) years = dailyTrend cfg sig x years := by
  unfold dailyTrend
  simp only [annualTrend_shift cfg sig c x years hlen, List.zipWith_map_left]

/-- `_step3_remove_trend(x + c) = (detrended + c, same trend)` -/
theorem step3RemoveTrend_shift (cfg : Cfg) (sig : Bool) (c : Rat) (x : List Rat) (years : List Int)
    (hlen : x.length = years.length) :
    step3RemoveTrend cfg sig (x.map (fun v => v + c)) years =
      ((step3RemoveTrend cfg sig x years).1.map (fun v => v + c), (step3RemoveTrend cfg sig x years).2) := by
  unfold step3RemoveTrend
  simp only [dailyTrend_shift cfg sig c x years hlen, zipWith_sub_shift]

theorem step3_shift (cfg : Cfg) (o : Oracles) (c : Rat) (obs H F : List Rat) (yO yH yF : List Int)
    (hlen : F.length = yF.length) :
    step3 cfg o obs H (F.map (fun v => v + c)) yO yH yF =
      ((step3 cfg o obs H F yO yH yF).1, (step3 cfg o obs H F yO yH yF).2.1,
       (step3 cfg o obs H F yO yH yF).2.2.1.map (fun v => v + c), (step3 cfg o obs H F yO yH yF).2.2.2) := by
  unfold step3
  by_cases hd : cfg.detrending = true
  · simp only [hd, if_true, step3RemoveTrend_shift cfg o.sigF c F yF hlen]
  · simp only [hd, Bool.false_eq_true, if_false, List.map_map]
    rfl

theorem step3_lengths (cfg : Cfg) (o : Oracles) (obs H F : List Rat) (yO yH yF : List Int)
    (hO : obs.length = yO.length) (hH : H.length = yH.length) (hF : F.length = yF.length) :
    (step3 cfg o obs H F yO yH yF).1.length = obs.length ∧ (step3 cfg o obs H F yO yH yF).2.1.length = H.length ∧
    (step3 cfg o obs H F yO yH yF).2.2.1.length = F.length := by
  unfold step3
  by_cases hd : cfg.detrending = true
  · simp only [hd, if_true, step3RemoveTrend, List.length_zipWith, dailyTrend_length _ _ _ _ hO,
      dailyTrend_length _ _ _ _ hH, dailyTrend_length _ _ _ _ hF, min_self, and_self]
  · simp only [hd, Bool.false_eq_true, if_false, and_self]

/-! ### step 7 -/

theorem step7_shift (cfg : Cfg) (c : Rat) (x tr : List Rat) :
    step7 cfg (x.map (fun v => v + c)) tr = (step7 cfg x tr).map (fun v => v + c) := by
  unfold step7
  by_cases hd : cfg.detrending = true
  · simp only [hd, if_true, zipWith_add_shift]
  · simp only [hd, Bool.false_eq_true, if_false]

/-! ### step 5 (additive trend transfer) -/

theorem step5TransferTrend_length (cfg : Cfg) (o : Oracles) (obs H F out : List Rat)
    (ht : cfg.trendMethod = .additive) (h : step5TransferTrend cfg o obs H F = .ok out) : out.length = obs.length := by
  unfold step5TransferTrend at h
  split_ifs at h
  simp only [ht] at h
  have := Except.ok.inj h
  rw [← this]
  simp [iecdf, ecdf]

/-- `_step5_transfer_trend` with `trend_preservation_method = "additive"`: the pseudo-future observations follow a
    shift of `cm_future` -/
theorem step5TransferTrend_shift (cfg : Cfg) (o : Oracles) (c : Rat) (obs H F : List Rat)
    (ht : cfg.trendMethod = .additive) (hF : F ≠ []) :
    step5TransferTrend cfg o obs H (F.map (fun v => v + c)) =
      (step5TransferTrend cfg o obs H F).map (List.map (fun v => v + c)) := by
  unfold step5TransferTrend
  simp only [List.length_map, ht]
  split_ifs
  · rfl
  · simp only [Except.map]
    congr 1
    rw [iecdf_shift cfg.iecdfMethod hF _ (ecdf_le_one cfg.ecdfMethod obs obs), List.zip_map_right, List.zip_map_right,
      List.map_map, List.map_map]
    apply List.map_congr_left
    intro t _
    simp only [Function.comp, Prod.map, id]
    ring

/-- `step5` for the unbounded additive configuration (non-empty samples) -/
theorem step5_shift (cfg : Cfg) (hU : Unbounded cfg) (o : Oracles) (c : Rat) (obs H F : List Rat)
    (ht : cfg.trendMethod = .additive) (hO : obs ≠ []) (hH : H ≠ []) (hF : F ≠ []) :
    step5 cfg o obs H (F.map (fun v => v + c)) = (step5 cfg o obs H F).map (List.map (fun v => v + c)) := by
  unfold step5
  by_cases hw : cfg.trendTransferOnlyWithinThreshold = true
  · simp only [hw, if_true, maskBetween_of_infinite cfg hU.lt hU.ut, valuesBetween_of_infinite cfg hU.lt hU.ut,
      selectWhere_all_true, List.length_map]
    have h1 : (List.map (fun _ => true) obs).any id = true := by
      cases obs with
      | nil => exact absurd rfl hO
      | cons a t => simp
    have h2 : decide (H.length > 0) = true := by simpa using List.length_pos_iff.mpr hH
    have h3 : decide (F.length > 0) = true := by simpa using List.length_pos_iff.mpr hF
    simp only [h1, h2, h3, Bool.and_self, if_true]
    rw [step5TransferTrend_shift cfg o c obs H F ht hF]
    cases hr : step5TransferTrend cfg o obs H F with
    | error e => rfl
    | ok t =>
      have hl := step5TransferTrend_length cfg o obs H F t ht hr
      simp only [Except.map, bind, Except.bind, pure, Except.pure]
      rw [fillWhere_all_true obs _ (by rw [List.length_map]; exact hl), fillWhere_all_true obs _ hl]
  · simp only [hw, Bool.false_eq_true, if_false]
    exact step5TransferTrend_shift cfg o c obs H F ht hF

/-! ### step 6 -/

/-- what step 6 needs of the distribution family for a shift to pass through the parametric branch -/
structure IsiShiftLaws (fam : IsiFamily) : Prop where
  fit_shift : ∀ (d : List Rat) (c : Rat),
    fam.fit (d.map (fun v => v + c)) none none = (fam.fit d none none).map (fun p => (p.1 + c, p.2))
  cdf_shift : ∀ (p : Rat × Rat) (x c : Rat), fam.cdf (p.1 + c, p.2) (x + c) = fam.cdf p x
  ppf_shift : ∀ (p : Rat × Rat) (q c : Rat), fam.ppf (p.1 + c, p.2) q = fam.ppf p q + c

/-- every location–scale family with `LocScaleLaws`, used the way step 6 uses it, satisfies `IsiShiftLaws` -/
theorem isiShiftLaws_ofLocScale (F : LocScaleFam) (L : LocScaleLaws F) (scaleAt : Rat → List Rat → Rat) :
    IsiShiftLaws (IsiFamily.ofLocScale F scaleAt) where
  fit_shift := by
    intro d c
    unfold IsiFamily.ofLocScale
    simp only [List.length_map]
    by_cases hd : d.length = 0
    · simp [hd]
    · have hne : d ≠ [] := fun h => hd (by rw [h]; rfl)
      have hfit := fit_shift L c d hne
      unfold LocScaleFam.fit at hfit
      have h1 : F.loc (d.map (fun v => v + c)) = F.loc d + c := congrArg Prod.fst hfit
      have h2 : F.scale (d.map (fun v => v + c)) = F.scale d := congrArg Prod.snd hfit
      simp only [hd, if_false, h1, h2]
      by_cases hs : F.scale d = 0
      · simp [hs]
      · simp [hs]
  cdf_shift := fun p x c => cdf_shift c p x
  ppf_shift := fun p q c => ppf_shift c p q

theorem isiShiftLaws_ratSigmoid : IsiShiftLaws Model.Isimip.ratSigmoid :=
  isiShiftLaws_ofLocScale _ Lemmas.Family.ratSigmoid_laws _

theorem fixedArgs_unbounded (cfg : Cfg) (hU : Unbounded cfg) : fixedArgs cfg = .ok (none, none) := by
  unfold fixedArgs
  simp only [hU.hasLowerThreshold, hU.hasUpperThreshold, Bool.false_eq_true, if_false, Bool.and_self]
  cases cfg.riceOrWeibull <;> rfl

theorem qmapXonY_self_shift (cfg : Cfg) (c : Rat) (x : List Rat) {y : List Rat} (hy : y ≠ []) :
    qmap cfg.ecdfMethod cfg.iecdfMethod (x.map (fun v => v + c)) (y.map (fun v => v + c)) (x.map (fun v => v + c)) =
      (qmap cfg.ecdfMethod cfg.iecdfMethod x y x).map (fun v => v + c) :=
  qmap_shift_all _ _ x hy x c

/-- `_step6_adjust_values_between_thresholds` with the pseudo-future observations and both `cm_future` samples shifted
    together (unbounded configuration: no ISIMIP v2.5 pre-mapping, no fixed `floc`/`fscale`) -/
theorem adjustBetween_shift (cfg : Cfg) (hU : Unbounded cfg) (fam : IsiFamily) (hL : IsiShiftLaws fam) (o : Oracles)
    (c : Rat) (Obt OFbt Hbt Fns Fbt : List Rat) (hOF : OFbt ≠ []) :
    adjustBetween cfg fam o Obt (OFbt.map (fun v => v + c)) Hbt (Fns.map (fun v => v + c)) (Fbt.map (fun v => v + c)) =
      (adjustBetween cfg fam o Obt OFbt Hbt Fns Fbt).map (fun r => (r.1.map (fun v => v + c), r.2)) := by
  unfold adjustBetween
  have hq := qmapXonY_self_shift cfg c Fns hOF
  by_cases hnp : cfg.nonparametricQm = true
  · simp only [hnp, if_true, hq, Except.map]
  · simp only [hnp, Bool.false_eq_true, if_false, hU.hasThreshold, Bool.false_and, List.length_map, hq,
      fixedArgs_unbounded cfg hU]
    by_cases h0 : Fbt.length = 0
    · simp only [h0, if_true, Except.map]
    · simp only [h0, if_false]
      by_cases h1 : (Fbt.length = 1 || OFbt.length ≤ 1) = true
      · simp only [h1, if_true, Except.map]
      · simp only [h1, Bool.false_eq_true, if_false, bind, Except.bind, hL.fit_shift]
        cases hfF : fam.fit Fbt none none with
        | none => simp only [Option.map, Except.map, pure, Except.pure]
        | some fitF =>
          cases hfO : fam.fit OFbt none none with
          | none => simp only [Option.map, Except.map, pure, Except.pure]
          | some fitOF =>
            simp only [Option.map]
            by_cases hks : (cfg.ksTest && !o.ksGood) = true
            · simp only [hks, if_true, Except.map, pure, Except.pure]
            · simp only [hks, Bool.false_eq_true, if_false]
              have hcdf : (Fns.map (fun v => v + c)).map (fun v => thrCdf (fam.cdf (fitF.1 + c, fitF.2) v)) =
                  Fns.map (fun v => thrCdf (fam.cdf fitF v)) := by
                rw [List.map_map]
                apply List.map_congr_left
                intro v _
                simp only [Function.comp, hL.cdf_shift]
              have hppf : ∀ l : List Rat, l.map (fam.ppf (fitOF.1 + c, fitOF.2)) =
                  (l.map (fam.ppf fitOF)).map (fun v => v + c) := by
                intro l
                rw [List.map_map]
                apply List.map_congr_left
                intro q _
                simp only [Function.comp, hL.ppf_shift]
              rw [hcdf]
              by_cases hela : cfg.eventLikelihoodAdjustment = true
              · simp only [hela, Bool.not_true, Bool.false_eq_true, if_false]
                cases fam.fit Hbt none none with
                | none => rfl
                | some fitH =>
                  cases fam.fit Obt none none with
                  | none => rfl
                  | some fitO => simp only [hppf, Except.map, pure, Except.pure]
              · simp only [hela, Bool.not_false, if_true, hppf, Except.map, pure, Except.pure]

theorem setBound_negInf_map (g : Rat → Rat) (xs : List Rat) (m : List Bool) :
    setBound (xs.map g) m .negInf = (setBound xs m .negInf).map (List.map g) := by
  unfold setBound
  split_ifs <;> rfl

theorem setBound_posInf_map (g : Rat → Rat) (xs : List Rat) (m : List Bool) :
    setBound (xs.map g) m .posInf = (setBound xs m .posInf).map (List.map g) := by
  unfold setBound
  split_ifs <;> rfl

theorem valuesBetween_shift (cfg : Cfg) (hU : Unbounded cfg) (c : Rat) (x : List Rat) :
    valuesBetween cfg (x.map (fun v => v + c)) = (valuesBetween cfg x).map (fun v => v + c) := by
  rw [valuesBetween_of_infinite cfg hU.lt hU.ut, valuesBetween_of_infinite cfg hU.lt hU.ut]

theorem setBound_inf_ok {xs m1 : List Rat} {m : List Bool} {b : ExtRat} (hb : b = .negInf ∨ b = .posInf)
    (h : setBound xs m b = .ok m1) : m1 = xs := by
  unfold setBound at h
  split_ifs at h
  · rcases hb with rfl | rfl <;> simp [ExtRat.toRat, Except.map] at h
  · exact (Except.ok.inj h).symm

theorem fillWhere_length {α} : ∀ (xs : List α) (m : List Bool) (vs : List α),
    (Model.IsimipFreq.fillWhere xs m vs).length = xs.length
  | [], _, _ => by simp [Model.IsimipFreq.fillWhere]
  | x :: xs, [], _ => by simp [Model.IsimipFreq.fillWhere]
  | x :: xs, false :: ms, vs => by simp [Model.IsimipFreq.fillWhere, fillWhere_length xs ms vs]
  | x :: xs, true :: ms, [] => by simp [Model.IsimipFreq.fillWhere, fillWhere_length xs ms []]
  | x :: xs, true :: ms, v :: vs => by simp [Model.IsimipFreq.fillWhere, fillWhere_length xs ms vs]

theorem takeIdx_argsort_length (F : List Rat) : (takeIdx F (argsort F)).length = F.length := by
  unfold takeIdx
  rw [List.length_map, argsort_length]

/-- **step 6** (unbounded configuration): pseudo-future observations and `cm_future` shifted together -/
theorem step6_shift (cfg : Cfg) (hU : Unbounded cfg) (fam : IsiFamily) (hL : IsiShiftLaws fam) (o : Oracles)
    (c : Rat) (obs oF H F : List Rat) :
    step6 cfg fam o obs (oF.map (fun v => v + c)) H (F.map (fun v => v + c)) =
      (step6 cfg fam o obs oF H F).map (List.map (fun v => v + c)) := by
  unfold step6 step6Full
  simp only [hU.hasLowerThreshold, hU.hasUpperThreshold, Bool.false_eq_true, if_false, argsort_shift, rankOf_shift,
    sortQ_shift, takeIdx_shift c F _ (argsort_valid F), List.length_map, hU.lb, hU.ub, setBound_negInf_map,
    valuesBetween_shift cfg hU, bind, Except.bind]
  cases hb1 : setBound (takeIdx F (argsort F)) (Model.IsimipFreq.lowerMask (Model.IsimipFreq.finalCounts 0 0 ↑(takeIdx F (argsort F)).length).1
      (takeIdx F (argsort F)).length) ExtRat.negInf with
  | error e => rfl
  | ok m1 =>
    simp only [Except.map, setBound_posInf_map]
    cases hb2 : setBound m1 (Model.IsimipFreq.upperMask (Model.IsimipFreq.finalCounts 0 0 ↑(takeIdx F (argsort F)).length).2
        (takeIdx F (argsort F)).length) ExtRat.posInf with
    | error e => rfl
    | ok m2 =>
      have hm2 : m2.length = F.length := by
        rw [setBound_inf_ok (Or.inr rfl) hb2, setBound_inf_ok (Or.inl rfl) hb1, takeIdx_argsort_length]
      have hvalid : ∀ i ∈ rankOf F, i < m2.length := fun i hi => hm2 ▸ rankOf_valid F i hi
      simp only [Except.map]
      split_ifs with hN hOF
      · have hne : valuesBetween cfg (sortQ oF) ≠ [] := by
          intro h; rw [h] at hOF; simp at hOF
        rw [Lemmas.Lift.selectWhere_map, adjustBetween_shift cfg hU fam hL o c _ _ _ _ _ hne]
        cases adjustBetween cfg fam o (valuesBetween cfg (sortQ obs)) (valuesBetween cfg (sortQ oF)) (valuesBetween cfg (sortQ H))
            (Py.selectWhere m2 _) (valuesBetween cfg (takeIdx F (argsort F))) with
        | error e => rfl
        | ok r =>
          simp only [Except.map, pure, Except.pure, fillWhere_map]
          congr 1
          apply takeIdx_shift
          intro i hi
          rw [fillWhere_length]
          exact hvalid i hi
      · simp only [pure, Except.pure]
        congr 1
        exact takeIdx_shift c m2 _ hvalid
      · simp only [pure, Except.pure]
        congr 1
        exact takeIdx_shift c m2 _ hvalid

/-! ### `_apply_on_window` (steps 3–7) -/

/-- **ISIMIP additive, one window**: `_apply_on_window(obs, H, F + c) = _apply_on_window(obs, H, F) + c` for the
    unbounded additive configuration, parametric or non-parametric, with or without detrending, any `Oracles`
    (the same in both runs: oracle laws "p-value / KS decision invariant under a common shift") and any draws
    (none are consumed). -/
theorem applyOnWindow_shift (cfg : Cfg) (hU : Unbounded cfg) (ht : cfg.trendMethod = .additive)
    (fam : IsiFamily) (hL : IsiShiftLaws fam) (o : Oracles) (d : Draws) (c : Rat)
    (obs H F : List Rat) (yO yH yF : List Int)
    (hO : obs ≠ []) (hH : H ≠ []) (hF : F ≠ [])
    (hlO : obs.length = yO.length) (hlH : H.length = yH.length) (hlF : F.length = yF.length) :
    applyOnWindow cfg fam o d obs H (F.map (fun v => v + c)) yO yH yF =
      (applyOnWindow cfg fam o d obs H F yO yH yF).map (List.map (fun v => v + c)) := by
  rw [applyOnWindow_eq, applyOnWindow_eq, step3_shift cfg o c obs H F yO yH yF hlF]
  have hs4 : ∀ a b e : List Rat, step4 cfg d a b e = .ok (a, b, e) := fun a b e =>
    step4_of_no_bound_threshold_pair cfg d (by simp [hU.hasLowerBound]) (by simp [hU.hasUpperBound]) a b e
  obtain ⟨l1, l2, l3⟩ := step3_lengths cfg o obs H F yO yH yF hlO hlH hlF
  have ne_of_len : ∀ {a b : List Rat}, a.length = b.length → b ≠ [] → a ≠ [] := by
    intro a b h hb ha
    rw [ha] at h
    exact hb (List.length_eq_zero_iff.mp h.symm)
  have n1 := ne_of_len l1 hO
  have n2 := ne_of_len l2 hH
  have n3 := ne_of_len l3 hF
  simp only [hs4, Except.bind]
  rw [step5_shift cfg hU o c _ _ _ ht n1 n2 n3]
  cases step5 cfg o (step3 cfg o obs H F yO yH yF).1 (step3 cfg o obs H F yO yH yF).2.1
      (step3 cfg o obs H F yO yH yF).2.2.1 with
  | error e => rfl
  | ok oF =>
    simp only [Except.map, Except.bind]
    rw [step6_shift cfg hU fam hL o c]
    cases step6 cfg fam o (step3 cfg o obs H F yO yH yF).1 oF (step3 cfg o obs H F yO yH yF).2.1
        (step3 cfg o obs H F yO yH yF).2.2.1 with
    | error e => rfl
    | ok r => simp only [Except.map, Except.bind, step7_shift]

/-! ### the removed trend is the linear trend of the annual means -/

theorem zipWith_ignore_left {α β γ} (h : β → γ) : ∀ (x : List α) (ys : List β), x.length = ys.length →
    List.zipWith (fun (_ : α) y => h y) x ys = ys.map h
  | [], [], _ => rfl
  | [], _ :: _, hl => by simp at hl
  | _ :: _, [], hl => by simp at hl
  | _ :: x, y :: ys, hl => by
      simp only [List.zipWith_cons_cons, List.map_cons, zipWith_ignore_left h x ys (by simpa using hl)]

theorem mem_uniqueYears_of_mem {years : List Int} {y : Int} (h : y ∈ years) : y ∈ uniqueYears years := by
  unfold uniqueYears
  exact List.mem_eraseDups.mpr (List.mem_mergeSort.mpr h)

/-- the regression slope step 3 uses for a series: `linregress(unique_years, annual_means).slope` -/
def trendSlope (x : List Rat) (years : List Int) : Rat :=
  linSlope ((uniqueYears years).map (fun (y : Int) => (y : Rat))) (yearlyMeans x years)

/-- `mean(unique_years)` -/
def meanYear (years : List Int) : Rat := mean ((uniqueYears years).map (fun (y : Int) => (y : Rat)))

/-- **what step 3 removes is the within-period linear trend of the annual means**: with a significant regression
    (and `detrending_with_significance_test`), every value of year `y` loses `slope · (y − mean(unique years))` -/
theorem dailyTrend_linear (cfg : Cfg) (hsig : cfg.detrendingWithSignificanceTest = true) (x : List Rat)
    (years : List Int) (hlen : x.length = years.length) :
    dailyTrend cfg true x years = years.map (fun (y : Int) => trendSlope x years * ((y : Rat) - meanYear years)) := by
  unfold dailyTrend annualTrend
  simp only [hsig, Bool.and_self, if_true]
  rw [zipWith_ignore_left _ x years hlen]
  apply List.map_congr_left
  intro y hy
  have hU := mem_uniqueYears_of_mem hy
  have hi : (uniqueYears years).idxOf y < (uniqueYears years).length := List.idxOf_lt_length_iff.mpr hU
  rw [List.getD_eq_getElem?_getD, List.getElem?_map, List.getElem?_map, List.getElem?_eq_getElem hi]
  simp only [Option.map, Option.getD, List.getElem_idxOf hi]
  rfl

/-- not significant (or the significance test switched off): nothing is removed -/
theorem dailyTrend_zero (cfg : Cfg) (sig : Bool) (h : (sig && cfg.detrendingWithSignificanceTest) = false) (x : List Rat)
    (years : List Int) (hlen : x.length = years.length) :
    dailyTrend cfg sig x years = years.map (fun (_ : Int) => (0 : Rat)) := by
  unfold dailyTrend annualTrend
  simp only [h, Bool.false_eq_true, if_false]
  rw [zipWith_ignore_left _ x years hlen]
  apply List.map_congr_left
  intro y hy
  have hU := mem_uniqueYears_of_mem hy
  have hi : (uniqueYears years).idxOf y < (uniqueYears years).length := List.idxOf_lt_length_iff.mpr hU
  rw [List.getD_eq_getElem?_getD, List.getElem?_map, List.getElem?_map, List.getElem?_eq_getElem hi]
  rfl

/-! ### a linear within-period trend added to `cm_future` is removed by step 3 and restored by step 7 -/

theorem zipWith_map_map {α β γ δ} (g : β → γ → δ) (a : α → β) (b : α → γ) : ∀ (l : List α),
    List.zipWith g (l.map a) (l.map b) = l.map (fun y => g (a y) (b y))
  | [] => rfl
  | y :: l => by simp only [List.map_cons, List.zipWith_cons_cons, zipWith_map_map g a b l]

theorem sum_map_add' {α} (f g : α → Rat) (l : List α) :
    (l.map (fun y => f y + g y)).sum = (l.map f).sum + (l.map g).sum := by
  induction l with
  | nil => simp
  | cons y l ih => simp only [List.map_cons, List.sum_cons, ih]; ring

theorem sum_map_mul_left' {α} (k : Rat) (f : α → Rat) (l : List α) :
    (l.map (fun y => k * f y)).sum = k * (l.map f).sum := by
  induction l with
  | nil => simp
  | cons y l ih => simp only [List.map_cons, List.sum_cons, ih]; ring

theorem sum_map_sub_const {α} (f : α → Rat) (k : Rat) (l : List α) :
    (l.map (fun y => f y - k)).sum = (l.map f).sum - k * (l.length : Rat) := by
  induction l with
  | nil => simp
  | cons y l ih => simp only [List.map_cons, List.sum_cons, List.length_cons, ih]; push_cast; ring

/-- **`linregress(x, y + b·(x − mean x)).slope = linregress(x, y).slope + b`** (guard: the abscissae are not all equal,
    i.e. the sum of squares `ssxm ≠ 0`) -/
theorem linSlope_add_linear {α} (l : List α) (cx f : α → Rat) (b : Rat)
    (hD : (l.map (fun y => (cx y - mean (l.map cx)) * (cx y - mean (l.map cx)))).sum ≠ 0) :
    linSlope (l.map cx) (l.map (fun y => f y + b * (cx y - mean (l.map cx)))) = linSlope (l.map cx) (l.map f) + b := by
  have hne : l ≠ [] := by
    intro h; subst h; simp at hD
  have hn : ((l.length : Nat) : Rat) ≠ 0 := by
    have : l.length ≠ 0 := fun h0 => hne (List.length_eq_zero_iff.mp h0)
    exact_mod_cast this
  set M := mean (l.map cx) with hM
  -- the mean of the ordinates does not change: the added term has mean 0
  have hmean : mean (l.map (fun y => f y + b * (cx y - M))) = mean (l.map f) := by
    unfold mean
    rw [sum_map_add', sum_map_mul_left', sum_map_sub_const, List.length_map, List.length_map]
    have hMs : (l.map cx).sum = M * (l.length : Rat) := by
      rw [hM]; unfold mean; rw [List.length_map]; field_simp
    rw [hMs]
    field_simp
    ring
  unfold linSlope
  simp only [hmean, List.map_map, zipWith_map_map]
  have hnum : (l.map (fun y => ((fun x => x - M) ∘ cx) y * ((fun x => x - mean (l.map f)) ∘ fun y => f y + b * (cx y - M)) y)).sum =
      (l.map (fun y => ((fun x => x - M) ∘ cx) y * ((fun x => x - mean (l.map f)) ∘ f) y)).sum +
        b * (l.map (fun y => ((fun x => x - M) ∘ cx) y * ((fun x => x - M) ∘ cx) y)).sum := by
    rw [← sum_map_mul_left', ← sum_map_add']
    congr 1
    apply List.map_congr_left
    intro y _
    simp only [Function.comp]
    ring
  rw [hnum, add_div]
  congr 1
  have hD' : (l.map (fun y => ((fun x => x - M) ∘ cx) y * ((fun x => x - M) ∘ cx) y)).sum ≠ 0 := hD
  exact mul_div_cancel_right₀ b hD'

theorem selectWhere_add_const_on_mask (h : Int → Rat) (Y : Int) : ∀ (x : List Rat) (years : List Int),
    Py.selectWhere (List.zipWith (· + ·) x (years.map h)) (years.map (fun t => decide (t = Y))) =
      (Py.selectWhere x (years.map (fun t => decide (t = Y)))).map (fun v => v + h Y)
  | [], _ => by simp [Py.selectWhere]
  | _ :: _, [] => by simp [Py.selectWhere]
  | a :: x, t :: years => by
      have ih := selectWhere_add_const_on_mask h Y x years
      unfold Py.selectWhere at *
      simp only [List.map_cons, List.zipWith_cons_cons, List.zip_cons_cons, List.filterMap_cons]
      by_cases ht : t = Y
      · simp only [ht, decide_true, if_true, List.map_cons, ih]
      · simp only [ht, decide_false, Bool.false_eq_true, if_false, ih]

/-- the sum of squares of the (unique) years about their mean — `ssxm` of the regression -/
def yearsSS (years : List Int) : Rat :=
  ((uniqueYears years).map (fun (y : Int) => ((y : Rat) - meanYear years) * ((y : Rat) - meanYear years))).sum

/-- the linear signal `b · (year − mean(unique years))`, one value per time step -/
def linearSignal (b : Rat) (years : List Int) : List Rat := years.map (fun (y : Int) => b * ((y : Rat) - meanYear years))

theorem yearlyMeans_add_linear (b : Rat) (x : List Rat) (years : List Int) (hlen : x.length = years.length) :
    yearlyMeans (List.zipWith (· + ·) x (linearSignal b years)) years =
      (uniqueYears years).map (fun (Y : Int) =>
        mean (Py.selectWhere x (years.map (fun t => decide (t = Y)))) + b * ((Y : Rat) - meanYear years)) := by
  unfold yearlyMeans linearSignal
  apply List.map_congr_left
  intro Y hY
  rw [selectWhere_add_const_on_mask]
  apply mean_shift
  obtain ⟨i, hi, hiy⟩ := List.mem_iff_getElem.mp (mem_of_mem_uniqueYears hY)
  apply selectWhere_ne_nil x _ i (by omega)
  rw [List.getElem?_map, List.getElem?_eq_getElem hi]
  simp [hiy]

/-- the regression slope of the annual means gains exactly `b` -/
theorem trendSlope_add_linear (b : Rat) (x : List Rat) (years : List Int) (hlen : x.length = years.length)
    (hD : yearsSS years ≠ 0) :
    trendSlope (List.zipWith (· + ·) x (linearSignal b years)) years = trendSlope x years + b := by
  unfold trendSlope
  rw [yearlyMeans_add_linear b x years hlen]
  unfold yearlyMeans
  exact linSlope_add_linear (uniqueYears years) (fun (y : Int) => (y : Rat))
    (fun Y => mean (Py.selectWhere x (years.map (fun t => decide (t = Y))))) b hD

theorem zipWith_add_add_sub : ∀ (x t g : List Rat), x.length = g.length → t.length = g.length →
    List.zipWith (· - ·) (List.zipWith (· + ·) x g) (List.zipWith (· + ·) t g) = List.zipWith (· - ·) x t
  | [], _, _, _, _ => by simp
  | _ :: _, [], _, _, _ => by simp
  | _ :: _, _ :: _, [], h, _ => by simp at h
  | a :: x, c :: t, e :: g, h1, h2 => by
      simp only [List.zipWith_cons_cons, zipWith_add_add_sub x t g (by simpa using h1) (by simpa using h2)]
      congr 1
      ring

theorem zipWith_add_assoc : ∀ (r t g : List Rat),
    List.zipWith (· + ·) r (List.zipWith (· + ·) t g) = List.zipWith (· + ·) (List.zipWith (· + ·) r t) g
  | [], _, _ => by simp
  | _ :: _, [], _ => by simp
  | _ :: _, _ :: _, [] => by simp
  | a :: r, c :: t, e :: g => by
      simp only [List.zipWith_cons_cons, zipWith_add_assoc r t g]
      congr 1
      ring

/-- **step 3 on `x + b·(year − mean year)`** (significant regression in both runs — oracle; `ssxm ≠ 0`): the detrended
    series is the same, the removed trend gains exactly the added linear signal -/
theorem step3RemoveTrend_add_linear (cfg : Cfg) (hsig : cfg.detrendingWithSignificanceTest = true) (b : Rat)
    (x : List Rat) (years : List Int) (hlen : x.length = years.length) (hD : yearsSS years ≠ 0) :
    step3RemoveTrend cfg true (List.zipWith (· + ·) x (linearSignal b years)) years =
      ((step3RemoveTrend cfg true x years).1,
       List.zipWith (· + ·) (step3RemoveTrend cfg true x years).2 (linearSignal b years)) := by
  have hl' : (List.zipWith (· + ·) x (linearSignal b years)).length = years.length := by
    simp [linearSignal, hlen]
  have htr : dailyTrend cfg true (List.zipWith (· + ·) x (linearSignal b years)) years =
      List.zipWith (· + ·) (dailyTrend cfg true x years) (linearSignal b years) := by
    rw [dailyTrend_linear cfg hsig _ years hl', dailyTrend_linear cfg hsig x years hlen,
      trendSlope_add_linear b x years hlen hD]
    unfold linearSignal
    rw [zipWith_map_map]
    apply List.map_congr_left
    intro y _
    ring
  unfold step3RemoveTrend
  simp only [htr]
  congr 1
  apply zipWith_add_add_sub
  · simp [linearSignal, hlen]
  · rw [dailyTrend_length cfg true x years hlen]; simp [linearSignal, hlen]

/-- **`_apply_on_window` with a linear within-period trend added to `cm_future`** (detrending on, significant
    regression in both runs): steps 4–6 see identical inputs, step 7 restores the larger trend — the signal passes
    through unchanged.  No restriction on the configuration of steps 4–6. -/
theorem applyOnWindow_add_linear (cfg : Cfg) (hd : cfg.detrending = true) (hsig : cfg.detrendingWithSignificanceTest = true)
    (fam : IsiFamily) (o : Oracles) (hF : o.sigF = true) (d : Draws) (b : Rat)
    (obs H F : List Rat) (yO yH yF : List Int) (hlen : F.length = yF.length) (hD : yearsSS yF ≠ 0) :
    applyOnWindow cfg fam o d obs H (List.zipWith (· + ·) F (linearSignal b yF)) yO yH yF =
      (applyOnWindow cfg fam o d obs H F yO yH yF).map (fun r => List.zipWith (· + ·) r (linearSignal b yF)) := by
  rw [applyOnWindow_eq, applyOnWindow_eq]
  have h3 : step3 cfg o obs H (List.zipWith (· + ·) F (linearSignal b yF)) yO yH yF =
      ((step3 cfg o obs H F yO yH yF).1, (step3 cfg o obs H F yO yH yF).2.1, (step3 cfg o obs H F yO yH yF).2.2.1,
       List.zipWith (· + ·) (step3 cfg o obs H F yO yH yF).2.2.2 (linearSignal b yF)) := by
    unfold step3
    simp only [hd, if_true, hF, step3RemoveTrend_add_linear cfg hsig b F yF hlen hD]
  rw [h3]
  simp only []
  cases step4 cfg d (step3 cfg o obs H F yO yH yF).1 (step3 cfg o obs H F yO yH yF).2.1 (step3 cfg o obs H F yO yH yF).2.2.1 with
  | error e => rfl
  | ok r4 =>
    simp only [Except.bind, Except.map]
    cases step5 cfg o r4.1 r4.2.1 r4.2.2 with
    | error e => rfl
    | ok oF =>
      simp only [Except.bind]
      cases step6 cfg fam o r4.1 oF r4.2.1 r4.2.2 with
      | error e => rfl
      | ok r =>
        simp only [Except.bind, step7, hd, if_true, zipWith_add_assoc]

theorem sum_sq_eq_zero {α} (f : α → Rat) : ∀ (l : List α), (l.map (fun y => f y * f y)).sum = 0 → ∀ y ∈ l, f y = 0
  | [], _, y, hy => by simp at hy
  | a :: l, h, y, hy => by
      simp only [List.map_cons, List.sum_cons] at h
      have h1 : 0 ≤ f a * f a := mul_self_nonneg _
      have h2 : 0 ≤ (l.map (fun y => f y * f y)).sum := by
        apply List.sum_nonneg
        intro v hv
        obtain ⟨w, _, rfl⟩ := List.mem_map.mp hv
        exact mul_self_nonneg _
      have ha : f a * f a = 0 := by linarith
      have hl : (l.map (fun y => f y * f y)).sum = 0 := by linarith
      rcases List.mem_cons.mp hy with rfl | hy'
      · exact mul_self_eq_zero.mp ha
      · exact sum_sq_eq_zero f l hl y hy'

/-- the regression is non-degenerate as soon as the period covers two different years -/
theorem yearsSS_ne_zero (years : List Int) (h : ∃ a ∈ years, ∃ b ∈ years, a ≠ b) : yearsSS years ≠ 0 := by
  obtain ⟨a, ha, b, hb, hab⟩ := h
  intro h0
  unfold yearsSS at h0
  have hz := sum_sq_eq_zero (fun (y : Int) => (y : Rat) - meanYear years) (uniqueYears years) h0
  have h1 := hz a (mem_uniqueYears_of_mem ha)
  have h2 := hz b (mem_uniqueYears_of_mem hb)
  have : (a : Rat) = (b : Rat) := by linarith
  exact hab (by exact_mod_cast this)

/-! ### lengths through steps 3, 4, 6 (any configuration) -/

theorem step3_future_length (cfg : Cfg) (o : Oracles) (obs H F : List Rat) (yO yH yF : List Int)
    (hF : F.length = yF.length) : (step3 cfg o obs H F yO yH yF).2.2.1.length = F.length := by
  unfold step3
  by_cases hd : cfg.detrending = true
  · simp only [hd, if_true, step3RemoveTrend, List.length_zipWith, dailyTrend_length _ _ _ _ hF, min_self]
  · simp only [hd, Bool.false_eq_true, if_false]

theorem randomizeMasked_length (vals : List Rat) (mask : List Bool) (draws out : List Rat)
    (h : randomizeMasked vals mask draws = .ok out) : out.length = vals.length := by
  unfold randomizeMasked at h
  simp only [] at h
  split_ifs at h
  rw [← Except.ok.inj h, fillWhere_length]

/-- step 4 keeps the length of `cm_future` -/
theorem step4_future_length (cfg : Cfg) (d : Draws) (obs H F : List Rat) (r : List Rat × List Rat × List Rat)
    (h : step4 cfg d obs H F = .ok r) : r.2.2.length = F.length := by
  unfold step4 at h
  simp only [bind, Except.bind, pure, Except.pure] at h
  by_cases hl : (cfg.hasLowerBound && cfg.hasLowerThreshold) = true
  · simp only [hl, if_true, step4RandomizeLower] at h
    cases h1 : randomizeMasked obs (maskBeyondLower cfg obs) d.lowO with
    | error e => simp [h1] at h
    | ok o1 =>
      cases h2 : randomizeMasked H (maskBeyondLower cfg H) d.lowH with
      | error e => simp [h1, h2] at h
      | ok h1' =>
        cases h3 : randomizeMasked F (maskBeyondLower cfg F) d.lowF with
        | error e => simp [h1, h2, h3] at h
        | ok f1 =>
          have lf1 := randomizeMasked_length _ _ _ _ h3
          simp only [h1, h2, h3] at h
          by_cases hu : (cfg.hasUpperBound && cfg.hasUpperThreshold) = true
          · simp only [hu, if_true, step4RandomizeUpper] at h
            cases h4 : randomizeMasked o1 (maskBeyondUpper cfg o1) d.upO with
            | error e => simp [h4] at h
            | ok o2 =>
              cases h5 : randomizeMasked h1' (maskBeyondUpper cfg h1') d.upH with
              | error e => simp [h4, h5] at h
              | ok h2' =>
                cases h6 : randomizeMasked f1 (maskBeyondUpper cfg f1) d.upF with
                | error e => simp [h4, h5, h6] at h
                | ok f2 =>
                  simp only [h4, h5, h6, Except.ok.injEq] at h
                  rw [← h]
                  simp only
                  rw [randomizeMasked_length _ _ _ _ h6, lf1]
          · simp only [hu, Bool.false_eq_true, if_false, Except.ok.injEq] at h
            rw [← h]; exact lf1
  · simp only [hl, Bool.false_eq_true, if_false] at h
    by_cases hu : (cfg.hasUpperBound && cfg.hasUpperThreshold) = true
    · simp only [hu, if_true, step4RandomizeUpper] at h
      cases h4 : randomizeMasked obs (maskBeyondUpper cfg obs) d.upO with
      | error e => simp [h4] at h
      | ok o2 =>
        cases h5 : randomizeMasked H (maskBeyondUpper cfg H) d.upH with
        | error e => simp [h4, h5] at h
        | ok h2' =>
          cases h6 : randomizeMasked F (maskBeyondUpper cfg F) d.upF with
          | error e => simp [h4, h5, h6] at h
          | ok f2 =>
            simp only [h4, h5, h6, Except.ok.injEq] at h
            rw [← h]
            exact randomizeMasked_length _ _ _ _ h6
    · simp only [hu, Bool.false_eq_true, if_false, Except.ok.injEq] at h
      rw [← h]

/-- step 6 returns one value per value of `cm_future` (`mapped_vals[np.argsort(cm_future_argsort)]`) -/
theorem step6_length (cfg : Cfg) (fam : IsiFamily) (o : Oracles) (obs oF H F r : List Rat)
    (h : step6 cfg fam o obs oF H F = .ok r) : r.length = F.length := by
  unfold step6 at h
  cases hf : step6Full cfg fam o obs oF H F with
  | error e => rw [hf] at h; simp [Except.map] at h
  | ok s6 =>
    rw [hf] at h
    simp only [Except.map, Except.ok.injEq] at h
    rw [← h]
    -- `result = takeIdx mapped (rankOf F)` in every branch
    have hres : ∃ m : List Rat, s6.result = takeIdx m (rankOf F) := by
      unfold step6Full at hf
      simp only [bind, Except.bind, pure, Except.pure] at hf
      repeat' split at hf
      all_goals first
        | (simp only [reduceCtorEq] at hf)
        | (simp only [Except.ok.injEq] at hf; exact ⟨_, by rw [← hf]⟩)
    obtain ⟨m, hm⟩ := hres
    rw [hm]
    unfold takeIdx
    rw [List.length_map, rankOf_length]

theorem step3_trend_length (cfg : Cfg) (o : Oracles) (obs H F : List Rat) (yO yH yF : List Int)
    (hF : F.length = yF.length) : (step3 cfg o obs H F yO yH yF).2.2.2.length = F.length := by
  unfold step3
  by_cases hd : cfg.detrending = true
  · simp only [hd, if_true, step3RemoveTrend, dailyTrend_length _ _ _ _ hF]
  · simp only [hd, Bool.false_eq_true, if_false, List.length_map]

/-- `_apply_on_window` returns one value per value of `cm_future` (any configuration) -/
theorem applyOnWindow_length (cfg : Cfg) (fam : IsiFamily) (o : Oracles) (d : Draws) (obs H F : List Rat)
    (yO yH yF : List Int) (out : List Rat) (hlen : F.length = yF.length)
    (hrun : applyOnWindow cfg fam o d obs H F yO yH yF = .ok out) : out.length = F.length := by
  rw [applyOnWindow_eq] at hrun
  cases h4 : step4 cfg d (step3 cfg o obs H F yO yH yF).1 (step3 cfg o obs H F yO yH yF).2.1
      (step3 cfg o obs H F yO yH yF).2.2.1 with
  | error e => rw [h4] at hrun; simp [Except.bind] at hrun
  | ok r4 =>
    rw [h4] at hrun
    simp only [Except.bind] at hrun
    cases h5 : step5 cfg o r4.1 r4.2.1 r4.2.2 with
    | error e => rw [h5] at hrun; simp at hrun
    | ok oF =>
      rw [h5] at hrun
      simp only at hrun
      cases h6 : step6 cfg fam o r4.1 oF r4.2.1 r4.2.2 with
      | error e => rw [h6] at hrun; simp at hrun
      | ok r =>
        rw [h6] at hrun
        simp only [Except.ok.injEq] at hrun
        have hr : r.length = F.length := by
          rw [step6_length cfg fam o r4.1 oF r4.2.1 r4.2.2 r h6, step4_future_length cfg d _ _ _ r4 h4]
          exact step3_future_length cfg o obs H F yO yH yF hlen
        rw [← hrun]
        unfold step7
        split
        · rw [List.length_zipWith, hr, step3_trend_length cfg o obs H F yO yH yF hlen, min_self]
        · exact hr

end Lemmas.C02
