/-
  Tier A proof obligations for the per-window transfer functions (C01–C04, C06, C09, C10):

  1. `gen_*`    — the program regenerated from /repo's current AST by `translator/extract_debiasers.py`
                  (`Gen.DebWin.<f>`) is the expected program `Model.NpDeb.<f>` (closed terms, `rfl`);
  2. `*_denote` — the denotation of the expected program (every primitive denoting the existing definition of
                  `Model/Stats.lean` / `Model/Family.lean` / `Model/Py.lean`) is the hand-written transfer function of
                  `Model/Debiasers.lean`, for all inputs and all settings (`env`): the theorems of C01–C04, C06, C09, C10
                  are stated on those functions.
  A change of /repo that alters which value flows where (wrong series, other method keyword, swapped sign, dropped
  add-back, other threshold …) changes `Gen.DebWin.<f>` and breaks 1; a harmless rename of a local variable does not.
-/
import IbicusModel.Model.NpDeb
import IbicusModel.Gen.DebWin

namespace Lemmas.GenDebWin
open Model.Stats Model.Family Model.Debiasers Model.NpDeb

/-! ### 1. regenerated = expected -/

theorem gen_cdft_apply_CDFt_mapping : Gen.DebWin.cdft_apply_CDFt_mapping = Model.NpDeb.cdft_apply_CDFt_mapping := rfl
theorem gen_ecdfm_apply_on_window : Gen.DebWin.ecdfm_apply_on_window = Model.NpDeb.ecdfm_apply_on_window := rfl
theorem gen_qdm_apply_debiasing_steps : Gen.DebWin.qdm_apply_debiasing_steps = Model.NpDeb.qdm_apply_debiasing_steps := rfl
theorem gen_qdm_get_obs_and_cm_hist_fits :
    Gen.DebWin.qdm_get_obs_and_cm_hist_fits = Model.NpDeb.qdm_get_obs_and_cm_hist_fits := rfl
theorem gen_qm_standard_qm : Gen.DebWin.qm_standard_qm = Model.NpDeb.qm_standard_qm := rfl
theorem gen_qm_apply_on_window : Gen.DebWin.qm_apply_on_window = Model.NpDeb.qm_apply_on_window := rfl
theorem gen_sdm_apply_on_window_absolute_sdm :
    Gen.DebWin.sdm_apply_on_window_absolute_sdm = Model.NpDeb.sdm_apply_on_window_absolute_sdm := rfl
theorem gen_cdft_apply_debiasing_steps : Gen.DebWin.cdft_apply_debiasing_steps = Model.NpDeb.cdft_apply_debiasing_steps := rfl
theorem gen_sdm_apply_on_window_relative_sdm :
    Gen.DebWin.sdm_apply_on_window_relative_sdm = Model.NpDeb.sdm_apply_on_window_relative_sdm := rfl

/-! ### 2. denotation of the expected program = hand-written transfer function -/

variable {P : Type}

/-! #### CDFt `_apply_CDFt_mapping` -/

theorem cdft_mapping_denote (env : Env P) (d : DeltaShift) (obs H F : List Rat)
    (hargs : env.args = [.arr obs, .arr H, .arr F]) (hd : env.str "delta_shift" = deltaShiftStr d) :
    denote cdft_apply_CDFt_mapping env
      = .ok [.arr (cdftMappingG (env.ecdfM "ecdf_method") (env.iecdfM "iecdf_method") d obs H F)] := by
  cases d <;>
  simp [denote, cdft_apply_CDFt_mapping, selectPath, Cond.holds, hd, deltaShiftStr, Path.run, runBinds, eval, hargs,
    evalBin, evalUn, binQ, meanV, mapByV, ecdfOf, iecdfOf, cdftMappingG, cdftShifted, cdftStage1, cdftStage2, cdftStage3,
    cdftStage4]

/-- … with the library's `ecdf` / `iecdf` methods: the function the C02/C03 theorems are stated on -/
theorem cdft_mapping_denote_methods (env : Env P) (d : DeltaShift) (em : EcdfMethod) (im : IecdfMethod) (obs H F : List Rat)
    (hargs : env.args = [.arr obs, .arr H, .arr F]) (hd : env.str "delta_shift" = deltaShiftStr d)
    (he : env.ecdfM "ecdf_method" = ecdf1 em) (hi : env.iecdfM "iecdf_method" = iecdf1 im) :
    denote cdft_apply_CDFt_mapping env = .ok [.arr (cdftMapping d em im obs H F)] := by
  rw [cdft_mapping_denote env d obs H F hargs hd, he, hi]; rfl

/-! #### ECDFM `apply_on_window`, QDM `_apply_debiasing_steps` -/

theorem zipWith_self' {α β} (f : α → α → β) (l : List α) : List.zipWith f l l = l.map (fun a => f a a) := by
  induction l with
  | nil => rfl
  | cons a t ih => simp

theorem ecdfm_denote (env : Env P) (obs H F : List Rat)
    (hargs : env.args = [.arr obs, .arr H, .arr F]) :
    denote ecdfm_apply_on_window env = .ok [.arr (ecdfm env.fam (env.num "cdf_threshold") obs H F)] := by
  simp [denote, ecdfm_apply_on_window, selectPath, Path.run, runBinds, eval, hargs,
    evalBin, binQ, fitV, cdfV, ppfV, threshV, ecdfm, List.zipWith_map_left, List.zipWith_map_right]

def qdmEnvOk (env : Env P) (tp : TrendPres) (c : Option Rat) : Prop :=
  env.str "trend_preservation" = trendPresStr tp ∧ env.flag "censor_values_to_zero" = c.isSome ∧
  (∀ thr, c = some thr → env.num "censoring_threshold" = thr)

theorem setWhere_map {α} (l : List α) (f : α → Rat) (g : Rat → Bool) (v : Rat) :
    Py.setWhere (l.map f) (l.map (g ∘ f)) v = l.map (fun x => if g (f x) then v else f x) := by
  induction l with
  | nil => rfl
  | cons a t ih =>
    simp only [Py.setWhere] at ih ⊢
    simp [ih]

theorem qdm_denote (env : Env P) (tp : TrendPres) (c : Option Rat) (F : List Rat) (fo fh : P)
    (hargs : env.args = [.arr F, .par fo, .par fh]) (h : qdmEnvOk env tp c) :
    denote qdm_apply_debiasing_steps env
      = .ok [.arr (qdmStepsG env.fam tp (env.ecdfM "ecdf_method") (env.num "cdf_threshold") c F fo fh)] := by
  obtain ⟨h1, h2, h3⟩ := h
  cases tp <;> cases c <;>
  simp_all [denote, qdm_apply_debiasing_steps, selectPath, Cond.holds, trendPresStr, Path.run, runBinds, eval,
    evalBin, binQ, cmpQ, ppfV, threshV, mapByV, ecdfOf, setMaskV, qdmStepsG, qdmCore, qdmCensor,
    List.zipWith_map_left, List.zipWith_map_right, setWhere_map]
  all_goals (intro a _; split <;> rename_i h <;> simp [h])

theorem qdm_fits_denote (env : Env P) (obs H : List Rat) (hargs : env.args = [.arr obs, .arr H]) :
    denote qdm_get_obs_and_cm_hist_fits env = .ok [.par (env.fam.fit obs), .par (env.fam.fit H)] := by
  simp [denote, qdm_get_obs_and_cm_hist_fits, selectPath, Path.run, runBinds, eval, hargs, fitV]

/-- `apply_on_window` without year windows = `_apply_debiasing_steps(cm_future, *_get_obs_and_cm_hist_fits(obs, cm_hist))` -/
theorem qdm_window_denote (env : Env P) (tp : TrendPres) (em : EcdfMethod) (c : Option Rat) (obs H F : List Rat)
    (hargs : env.args = [.arr F, .par (env.fam.fit obs), .par (env.fam.fit H)]) (h : qdmEnvOk env tp c)
    (he : env.ecdfM "ecdf_method" = ecdf1 em) :
    denote qdm_apply_debiasing_steps env = .ok [.arr (qdmWindow env.fam tp em (env.num "cdf_threshold") c obs H F)] := by
  rw [qdm_denote env tp c F _ _ hargs h, he]; rfl

theorem qdm_bad_trend_preservation (env : Env P)
    (h : env.str "trend_preservation" ≠ "absolute" ∧ env.str "trend_preservation" ≠ "relative") :
    denote qdm_apply_debiasing_steps env = .error "ValueError" := by
  simp [denote, qdm_apply_debiasing_steps, selectPath, Cond.holds, Path.run, runBinds, h]

/-! #### QuantileMapping `_standard_qm`, `apply_on_window` -/

theorem qm_standard_param_denote (env : Env P) (x obs H : List Rat)
    (hargs : env.args = [.arr x, .arr obs, .arr H]) (hm : env.str "mapping_type" = "parametric") :
    denote qm_standard_qm env = .ok [.arr (standardQMParam env.fam (env.num "cdf_threshold") x obs H)] := by
  simp [denote, qm_standard_qm, selectPath, Cond.holds, hm, Path.run, runBinds, eval, hargs,
    fitV, cdfV, ppfV, threshV, standardQMParam]

theorem qm_standard_nonparam_denote (env : Env P) (x obs H : List Rat)
    (hargs : env.args = [.arr x, .arr obs, .arr H]) (hm : env.str "mapping_type" = "nonparametric") :
    denote qm_standard_qm env = .ok [.arr (standardQMNonparam x obs H)] := by
  simp [denote, qm_standard_qm, selectPath, Cond.holds, hm, Path.run, runBinds, eval, hargs,
    qmapExtrapV, standardQMNonparam]

theorem qm_param_denote (env : Env P) (d : Detrending) (obs H F : List Rat)
    (hargs : env.args = [.arr obs, .arr H, .arr F]) (hd : env.str "detrending" = detrendingStr d)
    (hm : env.str "mapping_type" = "parametric") :
    denote qm_apply_on_window env = .ok [.arr (qmParam env.fam (env.num "cdf_threshold") d obs H F)] := by
  cases d <;>
  simp [denote, qm_apply_on_window, selectPath, Cond.holds, hm, hd, detrendingStr, Path.run, runBinds, eval, hargs,
    evalBin, evalUn, binQ, meanV, fitV, cdfV, ppfV, threshV, qmParam, quantileMapping, standardQMParam]

theorem qm_nonparam_denote (env : Env P) (d : Detrending) (obs H F : List Rat)
    (hargs : env.args = [.arr obs, .arr H, .arr F]) (hd : env.str "detrending" = detrendingStr d)
    (hm : env.str "mapping_type" = "nonparametric") :
    denote qm_apply_on_window env = .ok [.arr (qmNonparam d obs H F)] := by
  cases d <;>
  simp [denote, qm_apply_on_window, selectPath, Cond.holds, hm, hd, detrendingStr, Path.run, runBinds, eval, hargs,
    evalBin, evalUn, binQ, meanV, qmapExtrapV, qmNonparam, quantileMapping, standardQMNonparam]

theorem qm_bad_detrending (env : Env P)
    (h : env.str "detrending" ≠ "additive" ∧ env.str "detrending" ≠ "multiplicative" ∧ env.str "detrending" ≠ "no_detrending") :
    denote qm_apply_on_window env = .error "ValueError" := by
  simp [denote, qm_apply_on_window, selectPath, Cond.holds, Path.run, runBinds, h]

theorem qm_bad_mapping_type (env : Env P)
    (h : env.str "mapping_type" ≠ "parametric" ∧ env.str "mapping_type" ≠ "nonparametric") :
    denote qm_apply_on_window env = .error "ValueError" := by
  by_cases h1 : env.str "detrending" = "additive"
  · simp [denote, qm_apply_on_window, selectPath, Cond.holds, Path.run, runBinds, h, h1]
  · by_cases h2 : env.str "detrending" = "multiplicative"
    · simp [denote, qm_apply_on_window, selectPath, Cond.holds, Path.run, runBinds, h, h2]
    · by_cases h3 : env.str "detrending" = "no_detrending"
      · simp [denote, qm_apply_on_window, selectPath, Cond.holds, Path.run, runBinds, h, h3]
      · simp [denote, qm_apply_on_window, selectPath, Cond.holds, Path.run, runBinds, h, h1, h2, h3]

theorem cdft_bad_delta_shift (env : Env P)
    (h : env.str "delta_shift" ≠ "additive" ∧ env.str "delta_shift" ≠ "multiplicative" ∧ env.str "delta_shift" ≠ "no_shift") :
    denote cdft_apply_CDFt_mapping env = .error "ValueError" := by
  simp [denote, cdft_apply_CDFt_mapping, selectPath, Cond.holds, Path.run, runBinds, h]

/-! #### SDM absolute -/

/-- the element-wise steps 3–6 of absolute SDM: numpy's array-at-a-time evaluation (left) is the model's
    value-at-a-time evaluation (right), for arrays of any lengths -/
theorem sdm_abs_core (po g : Rat → Rat) (A B C : List Rat) :
    List.zipWith (fun x y => x + y)
      (List.zipWith (fun x y => po (thresholdCdf defaultCdfThreshold (1 / 2 + x * y)))
        (List.map (signQ ∘ fun x => x - 1 / 2) A)
        (List.zipWith (fun x y => Py.absQ (1 / 2 - 1 / max 1 (x / y)))
          (List.zipWith
            (fun a b => 1 / (1 / 2 - Py.absQ (a - 1 / 2)) *
              (1 / (1 / 2 - Py.absQ (thresholdCdf defaultCdfThreshold b - 1 / 2)))) A C)
          (List.map ((fun y => 1 / y) ∘ (fun y => 1 / 2 - y) ∘ Py.absQ ∘ fun x => x - 1 / 2) B)))
      (List.map (g ∘ thresholdCdf defaultCdfThreshold) C)
    = List.zipWith (fun cs sc => po cs + sc)
      (List.zipWith
        (fun co (p : Rat × Rat) =>
          thresholdCdf defaultCdfThreshold
            (1 / 2 + signQ (co - 1 / 2) *
              Py.absQ (1 / 2 - 1 / max 1
                (1 / (1 / 2 - Py.absQ (co - 1 / 2)) * (1 / (1 / 2 - Py.absQ (p.snd - 1 / 2))) /
                  (1 / (1 / 2 - Py.absQ (p.fst - 1 / 2)))))))
        A (B.zip (List.map (thresholdCdf defaultCdfThreshold) C)))
      (List.map (g ∘ thresholdCdf defaultCdfThreshold) C) := by
  induction A generalizing B C with
  | nil => simp
  | cons a A ih =>
    cases B with
    | nil => simp
    | cons b B =>
      cases C with
      | nil => simp
      | cons c C =>
        have := ih B C
        simp only [List.map_cons, List.zipWith_cons_cons, List.zip_cons_cons, Function.comp] at this ⊢
        rw [this]

theorem sdm_absolute_denote (env : Env (Rat × Rat)) (Fam : LocScaleFam) (obs H F : List Rat)
    (hargs : env.args = [.arr obs, .arr H, .arr F]) (hfam : env.fam = Fam.toFamily)
    (hidx : env.parIdx = locScaleIdx) :
    denote sdm_apply_on_window_absolute_sdm env = .ok [.arr (sdmAbsolute Fam obs H F)] := by
  simp [denote, sdm_apply_on_window_absolute_sdm, selectPath, Path.run, runBinds, eval, hargs, hfam, hidx,
    evalBin, evalUn, binQ, meanV, fitV, cdfV, ppfV, threshV, detrendV, argsortV, sortV, sizeV, getitemV, interpLenV,
    parIdxV, liftU, locScaleIdx, LocScaleFam.toFamily,
    sdmAbsolute, sdmAbsoluteSorted, sdmAbsCdfIntpol, sdmAbsCdfFut, sdmAbsCdfScaled, sdmRecurrAbs, subL, rankOf]
  congr 2
  exact sdm_abs_core _ (fun a => (Fam.ppf (Fam.fit (detrendConst F)) a - Fam.ppf (Fam.fit (detrendConst H)) a) *
    (Fam.fit (detrendConst obs)).snd / (Fam.fit (detrendConst H)).snd) _ _ _

/-! #### CDFt `_apply_debiasing_steps` (SSR) -/

theorem selectWhere_map (x : List Rat) (g : Rat → Bool) :
    Py.selectWhere x (x.map g) = x.filter g := by
  induction x with
  | nil => rfl
  | cons a t ih =>
    simp only [Py.selectWhere] at ih ⊢
    by_cases h : g a <;> simp [h, ih]

theorem where_draws (x u : List Rat) (g : Rat → Bool) :
    List.zipWith (fun (c : Bool) (p : Rat × Rat) => if c then p.1 else p.2) (x.map g) (u.zip x)
      = List.zipWith (fun v r => if g v then r else v) x u := by
  induction x generalizing u with
  | nil => simp
  | cons a t ih => cases u with
    | nil => simp
    | cons b u => simp [ih]

theorem where_const (x : List Rat) (g : Rat → Bool) (c : Rat) :
    List.zipWith (fun (b : Bool) (y : Rat) => if b then c else y) (x.map g) x = x.map (fun y => if g y then c else y) := by
  induction x with
  | nil => rfl
  | cons a t ih => simp [ih]

theorem ssrRandomize_fold (x u : List Rat) :
    List.zipWith (fun (c : Bool) (p : Rat × Rat) => if c then p.1 else p.2) (x.map (fun v => decide (v = 0))) (u.zip x)
      = ssrRandomize x u := by
  rw [where_draws]; simp [ssrRandomize]

attribute [local simp high] ssrRandomize_fold

theorem cdft_steps_denote (env : Env P) (ssr : Bool) (d : DeltaShift) (obs H F u : List Rat)
    (hargs : env.args = [.arr obs, .arr H, .arr F]) (hd : env.str "delta_shift" = deltaShiftStr d)
    (hs : env.flag "SSR" = ssr)
    (h0 : env.draws 0 = u) (h1 : env.draws 1 = u.drop obs.length) (h2 : env.draws 2 = u.drop (obs.length + H.length)) :
    denote cdft_apply_debiasing_steps env
      = .ok [.arr (cdftStepsG ssr (env.ecdfM "ecdf_method") (env.iecdfM "iecdf_method") d obs H F u)] := by
  cases ssr <;> cases d <;>
  simp [denote, cdft_apply_debiasing_steps, selectPath, Cond.holds, hd, hs, h0, h1, h2, deltaShiftStr, Path.run, runBinds,
    eval, hargs, evalBin, evalUn, binQ, cmpQ, meanV, mapByV, ecdfOf, iecdfOf, sizeV, minOr0V, getitemV, concat3V, uniformV,
    whereV, cdftStepsG, ssrBefore, ssrAfter, ssrThreshold, selectWhere_map, Function.comp_def,
    cdftMappingG, cdftShifted, cdftStage1, cdftStage2, cdftStage3, cdftStage4]

theorem cdft_steps_denote_methods (env : Env P) (ssr : Bool) (d : DeltaShift) (em : EcdfMethod) (im : IecdfMethod)
    (obs H F u : List Rat)
    (hargs : env.args = [.arr obs, .arr H, .arr F]) (hd : env.str "delta_shift" = deltaShiftStr d)
    (hs : env.flag "SSR" = ssr)
    (h0 : env.draws 0 = u) (h1 : env.draws 1 = u.drop obs.length) (h2 : env.draws 2 = u.drop (obs.length + H.length))
    (he : env.ecdfM "ecdf_method" = ecdf1 em) (hi : env.iecdfM "iecdf_method" = iecdf1 im) :
    denote cdft_apply_debiasing_steps env = .ok [.arr (cdftSteps ssr d em im obs H F u)] := by
  rw [cdft_steps_denote env ssr d obs H F u hargs hd hs h0 h1 h2, he, hi]; rfl

/-! #### SDM relative — NOT proved

  The program of `_apply_on_window_relative_sdm` is regenerated and compared (`gen_sdm_apply_on_window_relative_sdm`), so
  any change of its dataflow breaks the tie; that the expected program denotes `Model.Debiasers.sdmRelative` is only
  covered by the correspondence campaign (tier B).  Full statement (open):

    theorem sdm_relative_denote (env : Env P) (obs H F : List Rat) (hargs : env.args = [.arr obs, .arr H, .arr F]) :
        denote sdm_apply_on_window_relative_sdm env
          = (match sdmRelative env.fam (env.num "pr_lower_threshold") (env.num "cdf_threshold") obs H F with
             | .ok l => .ok [.arr l] | .error e => .error e)

  What is missing: the length facts that make Python's integer slice bounds (`size - expected`, a Python `int`) agree with
  the model's truncated `Nat` subtraction (`0 ≤ round(…)`, `expected ≤ #rainy(cm_future) = len(bc_initial)`), and the
  three-array `zipWith` regrouping of steps 3–6 (as `sdm_abs_core` for the absolute variant). -/

end Lemmas.GenDebWin
