/-
  C02 helper lemmas, part 7: the inferred time information (`Model/InferredDates.lean`) is well formed — one entry per
  step, days of year in `1..366` — for every length, and depends on the length only.
-/
import IbicusModel.Model.InferredDates
import Mathlib.Tactic.Linarith

namespace Lemmas.C02
open Model.InferredDates

theorem yearLen_cases (y : Int) : yearLen y = 365 ∨ yearLen y = 366 := by
  unfold yearLen; split <;> simp

/-- the fuel of `dateOf` suffices: the day of year produced lies in `1..366` -/
theorem dateFrom_doy_range : ∀ (fuel : Nat) (y : Int) (off : Nat), off < 365 * (fuel + 1) →
    1 ≤ (dateFrom fuel y off).2 ∧ (dateFrom fuel y off).2 ≤ 366
  | 0, y, off, h => by
      unfold dateFrom
      simp only
      omega
  | fuel + 1, y, off, h => by
      unfold dateFrom
      rcases yearLen_cases y with hy | hy
      all_goals
        by_cases hlt : off < yearLen y
        · rw [if_pos hlt]; simp only; omega
        · rw [if_neg hlt]
          exact dateFrom_doy_range fuel (y + 1) (off - yearLen y) (by omega)

theorem inferredDoy_length (n : Nat) : (inferredDoy n).length = n := by
  unfold inferredDoy; simp

theorem inferredYears_length (n : Nat) : (inferredYears n).length = n := by
  unfold inferredYears; simp

theorem inferredMonths_length (n : Nat) : (inferredMonths n).length = n := by
  unfold inferredMonths; simp

theorem inferredDoy_range (n : Nat) : ∀ d ∈ inferredDoy n, 1 ≤ d ∧ d ≤ 366 := by
  intro d hd
  unfold inferredDoy at hd
  obtain ⟨k, _, rfl⟩ := List.mem_map.mp hd
  exact dateFrom_doy_range k 1950 k (by omega)

end Lemmas.C02
