/-
  Helper lemmas for the precipitation models (C17): counting zeros, the laws demanded of an amounts family,
  and the proof that the rational test-double family satisfies them (non-vacuity).
-/
import IbicusModel.Model.Precip
import Mathlib.Tactic.Linarith
import Mathlib.Tactic.Ring
import Mathlib.Tactic.FieldSimp
import Mathlib.Tactic.Positivity
import Mathlib.Data.List.Basic

namespace Lemmas.Precip
open Model.Precip

/-- the laws of an amounts distribution on `(0, ∞)`: cdf strictly increasing with values in `(0,1)`, ppf its inverse -/
structure AmountLaws (A : Amounts) : Prop where
  pos : ∀ x, 0 < x → 0 < A.cdfA x ∧ A.cdfA x < 1
  mono : ∀ x y, 0 < x → x < y → A.cdfA x < A.cdfA y
  inv : ∀ x, 0 < x → A.ppfA (A.cdfA x) = x

/-- number of dry values -/
def zeros (data : List Rat) : Nat := (data.filter (fun v => decide (v = 0))).length

theorem length_split (data : List Rat) : data.length = zeros data + (rainyDays data).length := by
  unfold zeros rainyDays
  induction data with
  | nil => simp
  | cons a t ih =>
    simp only [List.filter_cons, List.length_cons]
    by_cases h : a = 0
    · simp [h] at ih ⊢; omega
    · simp [h] at ih ⊢; omega

theorem hurdleP0_eq (data : List Rat) (hne : data ≠ []) :
    hurdleP0 data = (zeros data : Rat) / (data.length : Rat) := by
  have hn : (data.length : Rat) ≠ 0 := by
    have := List.length_pos_iff.mpr hne
    positivity
  have hs : (data.length : Rat) = (zeros data : Rat) + ((rainyDays data).length : Rat) := by
    exact_mod_cast length_split data
  unfold hurdleP0
  field_simp
  linarith

theorem hurdleP0_range (data : List Rat) (hne : data ≠ []) : 0 ≤ hurdleP0 data ∧ hurdleP0 data ≤ 1 := by
  rw [hurdleP0_eq data hne]
  have hn : (0 : Rat) < (data.length : Rat) := by
    have := List.length_pos_iff.mpr hne
    exact_mod_cast this
  have hz : (zeros data : Rat) ≤ (data.length : Rat) := by
    exact_mod_cast (by have := length_split data; omega : zeros data ≤ data.length)
  exact ⟨by positivity, by rw [div_le_one hn]; exact hz⟩

/-- the fitted dry probability is `< 1` exactly when there is a wet value -/
theorem hurdleP0_lt_one (data : List Rat) (hne : data ≠ []) (hw : rainyDays data ≠ []) : hurdleP0 data < 1 := by
  have hn : (0 : Rat) < (data.length : Rat) := by
    have := List.length_pos_iff.mpr hne
    exact_mod_cast this
  have hr : (0 : Rat) < ((rainyDays data).length : Rat) := by
    have := List.length_pos_iff.mpr hw
    exact_mod_cast this
  unfold hurdleP0
  have : 0 < ((rainyDays data).length : Rat) / (data.length : Rat) := div_pos hr hn
  linarith

/-- … and `> 0` exactly when there is a dry value -/
theorem hurdleP0_pos (data : List Rat) (hne : data ≠ []) (hz : 0 < zeros data) : 0 < hurdleP0 data := by
  rw [hurdleP0_eq data hne]
  have hn : (0 : Rat) < (data.length : Rat) := by
    have := List.length_pos_iff.mpr hne
    exact_mod_cast this
  exact div_pos (by exact_mod_cast hz) hn

/-! ### the rational family satisfies the laws (`loc = 0`, any `scale > 0`) -/

theorem ratCdf_pos_form {s x : Rat} (hs : 0 < s) (hx : 0 < x) : ratCdf 0 s x = x / (s + x) := by
  unfold ratCdf
  rw [if_neg (not_le.mpr hx)]
  have : s + x ≠ 0 := by positivity
  have hs' : s ≠ 0 := ne_of_gt hs
  simp only [sub_zero]
  field_simp

theorem ratFam_laws (s : Rat) (hs : 0 < s) : AmountLaws (ratFam 0 s) := by
  refine ⟨fun x hx => ?_, fun x y hx hxy => ?_, fun x hx => ?_⟩
  · show 0 < ratCdf 0 s x ∧ ratCdf 0 s x < 1
    rw [ratCdf_pos_form hs hx]
    have h : 0 < s + x := by positivity
    exact ⟨div_pos hx h, by rw [div_lt_one h]; linarith⟩
  · show ratCdf 0 s x < ratCdf 0 s y
    have hy : 0 < y := lt_trans hx hxy
    rw [ratCdf_pos_form hs hx, ratCdf_pos_form hs hy]
    rw [div_lt_div_iff₀ (by positivity) (by positivity)]
    nlinarith
  · show ratPpf 0 s (ratCdf 0 s x) = x
    rw [ratCdf_pos_form hs hx]
    unfold ratPpf
    have h : s + x ≠ 0 := by positivity
    have h2 : (1 : Rat) - x / (s + x) = s / (s + x) := by field_simp; ring
    rw [h2]
    have hs' : s ≠ 0 := ne_of_gt hs
    field_simp
    ring

theorem ratFam_inv0 (s : Rat) : (ratFam 0 s).ppfA ((ratFam 0 s).cdfA 0) = 0 := by
  show ratPpf 0 s (ratCdf 0 s 0) = 0
  unfold ratPpf ratCdf
  simp

/-! ### families whose support starts at a location `lo ≥ 0` (a fitted / fixed `loc`): the laws on `(lo, ∞)` -/

structure AmountLawsOn (lo : Rat) (A : Amounts) : Prop where
  pos : ∀ x, lo < x → 0 < A.cdfA x ∧ A.cdfA x < 1
  mono : ∀ x y, lo < x → x < y → A.cdfA x < A.cdfA y
  inv : ∀ x, lo < x → A.ppfA (A.cdfA x) = x

theorem amountLaws_iff (A : Amounts) : AmountLaws A ↔ AmountLawsOn 0 A :=
  ⟨fun h => ⟨h.pos, h.mono, h.inv⟩, fun h => ⟨h.pos, h.mono, h.inv⟩⟩

theorem ratCdf_form {loc s x : Rat} (hs : 0 < s) (hx : loc < x) : ratCdf loc s x = (x - loc) / (s + (x - loc)) := by
  unfold ratCdf
  rw [if_neg (not_le.mpr hx)]
  have h1 : 0 < x - loc := by linarith
  have : s + (x - loc) ≠ 0 := by positivity
  have hs' : s ≠ 0 := ne_of_gt hs
  field_simp

theorem ratFamLoc_laws (loc s : Rat) (hs : 0 < s) : AmountLawsOn loc (ratFam loc s) := by
  refine ⟨fun x hx => ?_, fun x y hx hxy => ?_, fun x hx => ?_⟩
  · show 0 < ratCdf loc s x ∧ ratCdf loc s x < 1
    rw [ratCdf_form hs hx]
    have h1 : 0 < x - loc := by linarith
    have h : 0 < s + (x - loc) := by positivity
    exact ⟨div_pos h1 h, by rw [div_lt_one h]; linarith⟩
  · show ratCdf loc s x < ratCdf loc s y
    have hy : loc < y := lt_trans hx hxy
    rw [ratCdf_form hs hx, ratCdf_form hs hy]
    have h1 : 0 < x - loc := by linarith
    have h2 : 0 < y - loc := by linarith
    rw [div_lt_div_iff₀ (by positivity) (by positivity)]
    nlinarith
  · show ratPpf loc s (ratCdf loc s x) = x
    rw [ratCdf_form hs hx]
    unfold ratPpf
    have h1 : 0 < x - loc := by linarith
    have h : s + (x - loc) ≠ 0 := by positivity
    have h2 : (1 : Rat) - (x - loc) / (s + (x - loc)) = s / (s + (x - loc)) := by field_simp; ring
    rw [h2]
    have hs' : s ≠ 0 := ne_of_gt hs
    field_simp
    ring

/-- selecting positions commutes with a pointwise map -/
theorem map_select {α β} (g : α → β) (xs : List α) (d : α) (idx : List Nat) :
    (idx.map (fun i => xs.getD i d)).map g = idx.map (fun i => (xs.map g).getD i (g d)) := by
  rw [List.map_map]
  apply List.map_congr_left
  intro i _
  simp only [Function.comp]
  rw [List.getD_eq_getElem?_getD, List.getD_eq_getElem?_getD]
  by_cases h : i < xs.length <;> simp [h]

/-- … and with a pointwise map of two aligned vectors -/
theorem zipWith_select {α β γ} (g : α → β → γ) (xs : List α) (us : List β) (dx : α) (du : β) (idx : List Nat)
    (hlen : xs.length = us.length) :
    List.zipWith g (idx.map (fun i => xs.getD i dx)) (idx.map (fun i => us.getD i du)) =
      idx.map (fun i => (List.zipWith g xs us).getD i (g dx du)) := by
  rw [List.zipWith_map_left, List.zipWith_map_right, List.zipWith_self]
  apply List.map_congr_left
  intro i _
  rw [List.getD_eq_getElem?_getD, List.getD_eq_getElem?_getD, List.getD_eq_getElem?_getD]
  by_cases h : i < xs.length
  · have h' : i < us.length := by omega
    simp [h, h']
  · have h' : ¬ i < us.length := by omega
    simp [h, h']

end Lemmas.Precip
