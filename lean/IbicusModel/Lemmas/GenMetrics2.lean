/-
  Tier A proof obligations for C19, part 2: what `Lemmas/GenMetrics.lean` left to tier B.

  Regenerated from the current text of `ibicus/evaluate/metrics.py` (`Gen/Metrics.lean`, second half of
  `translator/extract_metrics.py`) and proved equal to the functions of `Model/Metrics.lean` that
  `Props.C19.clusters_conserve`, `legacy_cluster_label0`, `spatial_extent_conserve`, `quantile_count`, `from_quantile_*`,
  `annual_counts_conserve`, `accumulative_annual` are stated on:

  1. `calculate_spatiotemporal_clusters`: the reported column as a term of `Model.NpGrid.A` (labelling = extern) denotes
     `clusterSizes` — the labels reported are `1 … max` (`clusters_body_denote`); the pre-F8 term (labels `0 … max`) denotes
     the same table with the background row `clusterSize … 0` in front (`legacy_clusters_denote`) and is not what the
     source says (`clusters_src_not_legacy`);
  2. `calculate_spatial_extent`: the term denotes `spatialExtent` (sum over both spatial axes / `I · J`, zero rows dropped);
  3. the statements around both bodies (`Head`);
  4. `_get_quantile_by_locality` and `_get_threshold_from_quantile` = `qSpec`; `from_quantile` over them = `fromQuantileQ`;
     `higher` / `lower` with a sequence `q` (`from_quantile_onesided_seq`, `check_types_locality_*`);
  5. the allocation / loop nest / store of the two annual functions around the per-year comprehension.
-/
import IbicusModel.Model.Metrics
import IbicusModel.Model.MetricsDispatch
import IbicusModel.Model.NpGrid
import IbicusModel.Gen.Metrics
import IbicusModel.Lemmas.Metrics
import IbicusModel.Lemmas.GenMetrics
import Mathlib.Tactic.SplitIfs

set_option linter.unusedSimpArgs false
set_option linter.unusedVariables false

namespace Lemmas.GenMetrics2
open Model.Metrics Model.NpGrid Lemmas.GenMetrics

/-! ### 1. spatiotemporal clusters -/

/-- `measurements.sum(inst, lab, index=np.arange(1, lab.max() + 1))` with `lab = measurements.label(inst)[0]`, by hand -/
def clustersTerm : A :=
  .labelSum .inst (.label0 .inst) (.arange (.lit 1) (.add (.amax (.label0 .inst)) (.lit 1)))

/-- the same with `np.arange(lab.max() + 1)`: the code before repair F8 -/
def legacyClustersTerm : A :=
  .labelSum .inst (.label0 .inst) (.arange (.lit 0) (.add (.amax (.label0 .inst)) (.lit 1)))

/-- the expression in the source is (still) the first one -/
theorem clusters_src : Gen.Metrics.clusters_body = clustersTerm := by decide  -- equality of two closed terms of `A`

theorem clusters_src_not_legacy : Gen.Metrics.clusters_body ≠ legacyClustersTerm := by decide  -- closed terms

theorem clustersTerm_denote (label : Arr → Arr) (mk : Mask) (T I J : Nat) :
    denote label (.arr T I J (inst mk)) clustersTerm =
      if T * I * J = 0 then .error "ValueError"
      else .ok (.vecN (clusterSizes mk (label (inst mk)) T I J)) := by
  by_cases h : T * I * J = 0
  · simp [clustersTerm, denote, h]
  · simp [clustersTerm, denote, h, clusterSizes, clusterSize, List.map_map, Function.comp]

/-- **the cluster table `calculate_spatiotemporal_clusters` reports = `clusterSizes`** for every labelling function
    (`scipy.ndimage.label` is an extern) and every non-empty data set: one row per label `1 … labels.max()`, the
    background label 0 is not reported.  (An empty array raises numpy's `ValueError` in `.max()`.) -/
theorem clusters_body_denote (label : Arr → Arr) (mk : Mask) (T I J : Nat) :
    denote label (.arr T I J (inst mk)) Gen.Metrics.clusters_body =
      if T * I * J = 0 then .error "ValueError"
      else .ok (.vecN (clusterSizes mk (label (inst mk)) T I J)) := by
  rw [clusters_src]; exact clustersTerm_denote label mk T I J

/-- the pre-F8 expression reports the background label as a first row (of size 0 under `LabelLaw`:
    `Props.C19.legacy_cluster_label0`) -/
theorem legacy_clusters_denote (label : Arr → Arr) (mk : Mask) (T I J : Nat) (h : T * I * J ≠ 0) :
    denote label (.arr T I J (inst mk)) legacyClustersTerm =
      .ok (.vecN (clusterSize mk (label (inst mk)) T I J 0 :: clusterSizes mk (label (inst mk)) T I J)) := by
  simp [legacyClustersTerm, denote, h, clusterSizes, clusterSize, List.map_map, Function.comp, List.range_succ_eq_map]

/-! ### 2. spatial extent -/

/-- `s = np.einsum("ijk -> i", inst) / np.prod(inst.shape[1:]); s[s != 0]`, by hand -/
def extentTerm : A := .selNeZero (.div (.einsumTime .inst) (.prodShapeFrom .inst 1))

/-- the divisor `inst.shape[1]` (one spatial axis only) -/
def extentTermOneAxis : A := .selNeZero (.div (.einsumTime .inst) (.shapeAt .inst 1))

theorem spatial_extent_src : Gen.Metrics.spatial_extent_body = extentTerm := by decide  -- closed terms

theorem spatial_extent_src_not_one_axis : Gen.Metrics.spatial_extent_body ≠ extentTermOneAxis := by decide  -- closed terms

theorem extentTerm_denote (label : Arr → Arr) (mk : Mask) (T I J : Nat) :
    denote label (.arr T I J (inst mk)) extentTerm =
      if I * J = 0 then .error "nan" else .ok (.vecQ (spatialExtent mk T I J)) := by
  by_cases h : I * J = 0
  · simp [extentTerm, denote, h, List.foldl]
  · simp [extentTerm, denote, h, List.foldl, spatialExtent, cellsAt, List.map_map, Function.comp_def]

/-- **the column `calculate_spatial_extent` reports = `spatialExtent`**: per time step the number of instances over both
    spatial axes divided by the number of cells `I · J`, the steps without an instance dropped.  (No cell: numpy divides
    by zero — `nan` entries and a warning, not a number.) -/
theorem spatial_extent_body_denote (label : Arr → Arr) (mk : Mask) (T I J : Nat) :
    denote label (.arr T I J (inst mk)) Gen.Metrics.spatial_extent_body =
      if I * J = 0 then .error "nan" else .ok (.vecQ (spatialExtent mk T I J)) := by
  rw [spatial_extent_src]; exact extentTerm_denote label mk T I J

/-- dividing by `shape[1]` alone is a different function as soon as the second spatial axis is not 1:
    one time step, a 1 × 2 grid, both cells exceeding → extent 2 instead of 1 -/
theorem one_axis_differs :
    (match denote id (.arr 1 1 2 (inst (fun _ _ _ => true))) extentTermOneAxis with
      | .ok (.vecQ l) => l | _ => []) = [2] ∧ spatialExtent (fun _ _ _ => true) 1 1 2 = [1] := by
  decide +kernel  -- concrete witness

/-! ### 3. the statements around the two bodies -/

/-- every data set goes through `calculate_instances_of_threshold_exceedance` (with `value[0]`, `time=value[1]` for a list /
    tuple, else `value`, `time=None` — a bare array with a time scope is a `ValueError`); the frame has the key, the
    metric's name and the body's value; the value column is made numeric after `pd.concat` -/
def instancesHead (col : String) : Head :=
  { source := "calculate_instances_of_threshold_exceedance", timeScopes := ["day", "month", "season"], raises := "ValueError",
    columns := ["Correction Method", "Metric", col], numericColumn := col }

theorem heads_src :
    Gen.Metrics.clusters_head = instancesHead "Spatiotemporal cluster size" ∧
    Gen.Metrics.spatial_extent_head = instancesHead "Spatial extent (% of area)" := ⟨rfl, rfl⟩

/-! ### 4. thresholds from quantiles -/

/-- **`_get_quantile_by_locality`**: `overall` → `np.quantile(x, q)` (global) / `np.quantile(x, q, axis=0)` (local) of the
    whole array; a time scope → the dict comprehension over the groups that occur, of the same two on `x[time == t]` -/
theorem quantile_by_locality_model (sc : Scope) (lc : Locality) (x : Data) (time : Groups) (T I J : Nat) (q : Rat) :
    Gen.Metrics.quantile_by_locality (quantileFlat T I J) (quantileAxis0 T I J) (groupDict .global T I J)
        (groupDict .local T I J) x q time sc.str lc.str
      = .ok (match sc with
        | .overall => .overall (qThr lc x (List.range T) I J q)
        | _ => groupDict lc T I J x time q) := by
  cases sc <;> cases lc <;>
    simp [Gen.Metrics.quantile_by_locality, Scope.str, Locality.str, quantileFlat, quantileAxis0]

/-- any other locality string: `ValueError` -/
theorem quantile_by_locality_unknown {ξ κ γ σ : Type} (f a : ξ → κ → σ) (gf ga : ξ → γ → κ → σ) (x : ξ) (q : κ) (t : γ)
    (s l : String) (h1 : l ≠ "global") (h2 : l ≠ "local") :
    Gen.Metrics.quantile_by_locality f a gf ga x q t s l = .error "ValueError" := by
  unfold Gen.Metrics.quantile_by_locality
  split_ifs <;> rfl

/-- **`_get_threshold_from_quantile` = `qSpec`** on the time groups of the scope: `ValueError` for a time scope without
    `time`, one threshold for `overall`, one per group that occurs otherwise; `global` → the quantile of the flattened
    selection, `local` → `axis=0` -/
theorem threshold_from_quantile_model {τ : Type} (doy mon sea : τ → Nat → Int) (sc : Scope) (lc : Locality) (x : Data)
    (time : Option τ) (T I J : Nat) (q : Rat) :
    Gen.Metrics.threshold_from_quantile doy mon sea (quantileFlat T I J) (quantileAxis0 T I J) (groupDict .global T I J)
        (groupDict .local T I J) x q time sc.str lc.str
      = qSpec (decide (sc ≠ .overall)) lc x (grpOf doy mon sea sc time) T I J q := by
  cases sc <;> cases lc <;> cases time <;>
    simp [Gen.Metrics.threshold_from_quantile, Gen.Metrics.time_group_by_scope, Gen.Metrics.quantile_by_locality, Scope.str,
      Locality.str, qSpec, grpOf, quantileFlat, quantileAxis0, groupDict, bind, Except.bind]

/-- **`from_quantile` over the regenerated `_get_threshold_from_quantile` = `fromQuantileQ`** (the function
    `Props.C19.from_quantile_count_*`, `from_quantile_two_sided_all` are stated on, through `fromQuantile`) -/
theorem from_quantile_source {τ : Type} (doy mon sea : τ → Nat → Int) (ty : ThType) (sc : Scope) (lc : Locality) (x : Data)
    (time : Option τ) (T I J : Nat) (q : QArg) (hq : ty = .higher ∨ ty = .lower → q.isSeq = false) :
    Gen.Metrics.from_quantile QArg.isSeq QArg.len (QArg.item 0) (QArg.item 1) (fun a b => decide (a < b))
      (fun r => Gen.Metrics.threshold_from_quantile doy mon sea (quantileFlat T I J) (quantileAxis0 T I J)
        (groupDict .global T I J) (groupDict .local T I J) x r time sc.str lc.str)
      (fun k => Gen.Metrics.threshold_from_quantile doy mon sea (quantileFlat T I J) (quantileAxis0 T I J)
        (groupDict .global T I J) (groupDict .local T I J) x (k.item 0) time sc.str lc.str)
      (fun a b => (a, b)) (fun p => (⟨ty, p.1, p.2⟩ : Metric)) (fun s => (⟨ty, s, s⟩ : Metric)) q ty.str
      = fromQuantileQ ty (decide (sc ≠ .overall)) lc x (grpOf doy mon sea sc time) T I J q := by
  have e : (fun r => Gen.Metrics.threshold_from_quantile doy mon sea (quantileFlat T I J) (quantileAxis0 T I J)
      (groupDict .global T I J) (groupDict .local T I J) x r time sc.str lc.str)
      = qSpec (decide (sc ≠ .overall)) lc x (grpOf doy mon sea sc time) T I J := by
    funext r; exact threshold_from_quantile_model doy mon sea sc lc x time T I J r
  have e2 : (fun k : QArg => Gen.Metrics.threshold_from_quantile doy mon sea (quantileFlat T I J) (quantileAxis0 T I J)
      (groupDict .global T I J) (groupDict .local T I J) x (k.item 0) time sc.str lc.str)
      = fun k => qSpec (decide (sc ≠ .overall)) lc x (grpOf doy mon sea sc time) T I J (k.item 0) := by
    funext k; exact threshold_from_quantile_model doy mon sea sc lc x time T I J (k.item 0)
  rw [e, e2]
  exact from_quantile_model ty _ lc x _ T I J q hq

/-! #### `higher` / `lower` with a *sequence* `q`

  `from_quantile` does not look at the shape of `q` for these types: it computes `np.quantile(…, q, …)` with the whole
  sequence — numpy then returns an *array* with one leading entry per quantile — and hands it to the constructor, whose
  `_check_types_locality` decides: `global` wants an `int` / `float` (an array is a `ValueError`), `local` wants an
  `np.ndarray` / `list` (an array with the extra leading axis passes: the metric is built with thresholds of shape
  `(len(q), I, J)`, which is not a per-location threshold — reported in the builder's notes, no property states it). -/

/-- Python type of one threshold entry, as far as `_check_types_locality` looks at it -/
inductive Kind where
  | number      -- `int`, `float` (`np.float64` is a `float`)
  | array       -- `np.ndarray`
  | list
  | other
deriving DecidableEq, Repr

def Kind.isNumber : Kind → Bool
  | .number => true
  | _ => false

def Kind.isArrayOrList : Kind → Bool
  | .array | .list => true
  | _ => false

/-- what `np.quantile(x, q)` / `np.quantile(x, q, axis=0)` returns: a number only for a scalar `q` without `axis` -/
def quantileKind (qIsSeq : Bool) (lc : Locality) : Kind :=
  match qIsSeq, lc with
  | false, .global => .number
  | _, _ => .array

/-- **`_check_types_locality`**: `global` accepts exactly numbers, `local` exactly arrays / lists, any other locality
    string is a `ValueError` -/
theorem check_types_locality_model (k : Kind) (lc : Locality) :
    Gen.Metrics.check_types_locality Kind.isNumber Kind.isArrayOrList k lc.str
      = (match lc with
        | .global => if k.isNumber then .ok () else .error "ValueError"
        | .local => if k.isArrayOrList then .ok () else .error "ValueError") := by
  cases lc <;> cases k <;> simp [Gen.Metrics.check_types_locality, Locality.str, Kind.isNumber, Kind.isArrayOrList]

theorem check_types_locality_unknown {σ : Type} (n a : σ → Bool) (v : σ) (l : String) (h1 : l ≠ "global") (h2 : l ≠ "local") :
    Gen.Metrics.check_types_locality n a v l = .error "ValueError" := by
  simp [Gen.Metrics.check_types_locality, h1, h2]

/-- **`from_quantile`, `higher` / `lower`, any `q`** (scalar or sequence): exactly one `_get_threshold_from_quantile` call
    with the whole `q`, handed to the constructor (already `GenMetrics.from_quantile_arms`); with `overall` scope the
    constructor's check then accepts a scalar `q` for both localities, rejects a sequence `q` for `global`
    (`ValueError`) and lets it pass for `local`. -/
theorem from_quantile_onesided_seq (qIsSeq : Bool) (lc : Locality) :
    Gen.Metrics.check_types_locality Kind.isNumber Kind.isArrayOrList (quantileKind qIsSeq lc) lc.str
      = if qIsSeq && decide (lc = .global) then .error "ValueError" else .ok () := by
  cases qIsSeq <;> cases lc <;>
    simp [Gen.Metrics.check_types_locality, Locality.str, Kind.isNumber, Kind.isArrayOrList, quantileKind]

/-! ### 5. the annual functions: allocation, loop nest, store -/

/-- `out = np.zeros((years.shape[0], dataset.shape[1], dataset.shape[2]))`,
    `for j in range(values.shape[1]): for k in range(values.shape[2]): out[:, j, k] = [… for i in years]`, `return out` -/
def annualLoopTerm : AnnualLoop :=
  { alloc := [.years, .data 1, .data 2], outer := .values 1, inner := .values 2,
    storeOuter := true, storeInner := true, returnsAlloc := true }

theorem annual_loops_src :
    Gen.Metrics.annual_counts_loop = annualLoopTerm ∧ Gen.Metrics.annual_values_loop = annualLoopTerm := by
  decide  -- closed terms

/-- the loop nest visits every location of a `[T, I, J]` data set exactly once and nothing is left at the `np.zeros` value:
    the returned array has shape `[Y, I, J]` and entry `[y][i][j]` is the comprehension of location `(i, j)` at `y` -/
theorem annualLoop_run {α : Type} [Zero α] (Y T I J : Nat) (comp : Nat → Nat → List α) :
    annualLoopTerm.run Y [T, I, J] [T, I, J] comp
      = some ([Y, I, J], fun y i j => if i < I ∧ j < J then (comp i j).getD y 0 else 0) := by
  simp [annualLoopTerm, AnnualLoop.run, Dim.val]

/-- **`calculate_number_annual_days_beyond_threshold` on the grid = `annualCount`**: regenerated loop nest around the
    regenerated comprehension; entry `[y][i][j]` for `i < I`, `j < J` and `y` indexing `years` -/
theorem annual_counts_grid (m : Mask) (yr : Nat → Int) (T I J : Nat) (years : List Int) :
    Gen.Metrics.annual_counts_loop.run years.length [T, I, J] [T, I, J]
        (fun i j => Gen.Metrics.annual_counts (col T (fun t => ((inst m t i j : Nat) : Int))) (col T yr) years)
      = some ([years.length, I, J], fun y i j =>
          if i < I ∧ j < J then (years.map (fun y => ((annualCount m yr T y i j : Nat) : Int))).getD y 0 else 0) := by
  rw [annual_loops_src.1, annualLoop_run]
  simp only [annual_counts_column]

/-- **`calculate_annual_value_beyond_threshold` on the grid = `annualValue`** -/
theorem annual_values_grid (x : Data) (m : Mask) (yr : Nat → Int) (T I J : Nat) (years : List Int) :
    Gen.Metrics.annual_values_loop.run years.length [T, I, J] [T, I, J]
        (fun i j => Gen.Metrics.annual_values (col T (fun t => filt x m t i j)) (col T yr) years)
      = some ([years.length, I, J], fun y i j =>
          if i < I ∧ j < J then (years.map (fun y => annualValue x m yr T y i j)).getD y 0 else 0) := by
  rw [annual_loops_src.2, annualLoop_run]
  simp only [annual_values_column]

end Lemmas.GenMetrics2
