/-
  C12 — lemmas on the instance model: `__attrs_post_init__` is idempotent (also when it raises), it changes no
  setting except the `None` → value fill of QuantileDeltaMapping.cdf_threshold.
-/
import IbicusModel.Model.Instance

namespace Lemmas.Instance
open Model.Instance

variable {σ : Type}

/-- the fields no statement of an `__attrs_post_init__` assigns -/
structure Core (σ : Type) where
  rwMode : Bool
  rwLen : Int
  rwStep : Int
  yrMode : Bool
  yrLen : Int
  yrStep : Int
  distributionNone : Bool
  nonparametricQm : Bool
  other : σ

def core (i : Inst σ) : Core σ :=
  ⟨i.settings.rwMode, i.settings.rwLen, i.settings.rwStep, i.settings.yrMode, i.settings.yrLen, i.settings.yrStep,
   i.settings.distributionNone, i.settings.nonparametricQm, i.settings.other⟩

@[simp] theorem core_setRw (i : Inst σ) (w) : core (setRw i w) = core i := rfl
@[simp] theorem core_setYr (i : Inst σ) (w) : core (setYr i w) = core i := rfl
@[simp] theorem core_setCdf (i : Inst σ) (q) : core (setCdf i q) = core i := rfl

/-- a statement that has nothing left to do on `j` -/
def Fix (st : Step) (j : Inst σ) : Prop :=
  match st with
  | .checkStepLeLen => ¬ (j.settings.rwStep > j.settings.rwLen)
  | .buildRw => j.settings.rwMode = true →
      ∃ w, mkWindow j.settings.rwLen j.settings.rwStep = .ok w ∧ j.derived.runningWindow = some w
  | .buildYr => j.settings.yrMode = true →
      ∃ w, mkWindow j.settings.yrLen j.settings.yrStep = .ok w ∧ j.derived.yearWindow = some w
  | .fillCdf => j.settings.cdfThreshold ≠ none
  | .checkDistribution => (j.settings.distributionNone && !j.settings.nonparametricQm) = false

theorem setRw_self (j : Inst σ) (w) (h : j.derived.runningWindow = some w) : setRw j w = j := by
  obtain ⟨s, ⟨r, y⟩⟩ := j
  simp only at h
  simp [setRw, h]

theorem setYr_self (j : Inst σ) (w) (h : j.derived.yearWindow = some w) : setYr j w = j := by
  obtain ⟨s, ⟨r, y⟩⟩ := j
  simp only at h
  simp [setYr, h]

theorem step_of_fix (st : Step) (j : Inst σ) (h : Fix st j) : step st j = (j, none) := by
  cases st with
  | checkStepLeLen => simp only [Fix] at h; simp [step, h]
  | buildRw =>
    simp only [Fix] at h
    simp only [step]
    by_cases hm : j.settings.rwMode = true
    · obtain ⟨w, hw, hd⟩ := h hm
      simp [hm, hw, setRw_self j w hd]
    · simp [hm]
  | buildYr =>
    simp only [Fix] at h
    simp only [step]
    by_cases hm : j.settings.yrMode = true
    · obtain ⟨w, hw, hd⟩ := h hm
      simp [hm, hw, setYr_self j w hd]
    · simp [hm]
  | fillCdf =>
    simp only [Fix] at h
    simp only [step]
    cases hc : j.settings.cdfThreshold with
    | none => exact absurd hc h
    | some q => rfl
  | checkDistribution => simp only [Fix] at h; simp [step, h]

/-- what one statement does, in terms of the three components it can touch -/
theorem step_spec (st : Step) (i j : Inst σ) (x : Option String) (h : step st i = (j, x)) :
    core j = core i ∧
    (st ≠ .buildRw → j.derived.runningWindow = i.derived.runningWindow) ∧
    (st ≠ .buildYr → j.derived.yearWindow = i.derived.yearWindow) ∧
    (i.settings.cdfThreshold ≠ none → j.settings.cdfThreshold = i.settings.cdfThreshold) ∧
    (st ≠ .fillCdf → j.settings.cdfThreshold = i.settings.cdfThreshold) ∧
    (x ≠ none → j = i) ∧ (x = none → Fix st j) := by
  cases st with
  | checkStepLeLen =>
    simp only [step] at h
    split at h <;> (cases h; simp_all [Fix])
  | buildRw =>
    simp only [step] at h
    split at h
    · rename_i hm
      split at h
      · rename_i w hw
        cases h
        refine ⟨rfl, by simp, by simp [setRw], by simp [setRw], by simp [setRw], by simp, ?_⟩
        intro _ _
        exact ⟨w, by simpa [setRw] using hw, rfl⟩
      · cases h; simp
    · rename_i hm
      cases h
      simp_all [Fix]
  | buildYr =>
    simp only [step] at h
    split at h
    · rename_i hm
      split at h
      · rename_i w hw
        cases h
        refine ⟨rfl, by simp [setYr], by simp, by simp [setYr], by simp [setYr], by simp, ?_⟩
        intro _ _
        exact ⟨w, by simpa [setYr] using hw, rfl⟩
      · cases h; simp
    · rename_i hm
      cases h
      simp_all [Fix]
  | fillCdf =>
    simp only [step] at h
    split at h
    · rename_i hc
      split at h
      · cases h; simp
      · cases h
        refine ⟨rfl, by simp [setCdf], by simp [setCdf], by simp [hc], by simp, by simp, ?_⟩
        intro _
        simp [Fix, setCdf]
    · rename_i q hc
      cases h
      simp_all [Fix]
  | checkDistribution =>
    simp only [step] at h
    split at h <;> (cases h; simp_all [Fix])

/-- a finished statement stays finished when another statement runs -/
theorem fix_frame (st st' : Step) (j j' : Inst σ) (x : Option String) (hf : Fix st j) (h : step st' j = (j', x)) :
    Fix st j' := by
  obtain ⟨hcore, hrw, hyr, hcdf, hcdf', herr, hfix⟩ := step_spec st' j j' x h
  by_cases hx : x = none
  · by_cases hs : st' = st
    · subst hs; exact hfix hx
    · have hc : core j' = core j := hcore
      simp only [core, Core.mk.injEq] at hc
      obtain ⟨c1, c2, c3, c4, c5, c6, c7, c8, _⟩ := hc
      cases st with
      | checkStepLeLen => simp only [Fix] at hf ⊢; rw [c2, c3]; exact hf
      | buildRw =>
        simp only [Fix] at hf ⊢
        rw [c1, c2, c3, hrw hs]
        exact hf
      | buildYr =>
        simp only [Fix] at hf ⊢
        rw [c4, c5, c6, hyr hs]
        exact hf
      | fillCdf =>
        simp only [Fix] at hf ⊢
        rw [hcdf hf]; exact hf
      | checkDistribution => simp only [Fix] at hf ⊢; rw [c7, c8]; exact hf
  · rw [herr hx]; exact hf

theorem deriveL_of_fix (L : List Step) (j : Inst σ) (h : ∀ st ∈ L, Fix st j) : deriveL L j = (j, none) := by
  induction L with
  | nil => rfl
  | cons st r ih =>
    simp only [deriveL, step_of_fix st j (h st (by simp))]
    exact ih (fun s hs => h s (by simp [hs]))

/-- after a run of the statements: every statement that completed is finished on the final instance, and a failing
    statement fails again on it -/
theorem deriveL_spec (L : List Step) (i j : Inst σ) (x : Option String) (h : deriveL L i = (j, x)) :
    ∀ (P : List Step), (∀ st ∈ P, Fix st i) →
      (x = none → ∀ st ∈ P ++ L, Fix st j) ∧ (x ≠ none → deriveL (P ++ L) j = (j, x)) := by
  induction L generalizing i with
  | nil =>
    intro P hP
    simp only [deriveL, Prod.mk.injEq] at h
    obtain ⟨rfl, rfl⟩ := h
    simp only [List.append_nil]
    exact ⟨fun _ => hP, fun hx => absurd rfl hx⟩
  | cons st r ih =>
    intro P hP
    simp only [deriveL] at h
    cases hs : step st i with
    | mk i1 x1 =>
      rw [hs] at h
      obtain ⟨_, _, _, _, _, herr, hfix⟩ := step_spec st i i1 x1 hs
      cases x1 with
      | none =>
        simp only at h
        have hP1 : ∀ s ∈ P ++ [st], Fix s i1 := by
          intro s hs'
          rcases List.mem_append.mp hs' with hp | hl
          · exact fix_frame s st i i1 none (hP s hp) hs
          · simp only [List.mem_singleton] at hl; subst hl; exact hfix rfl
        have := ih i1 h (P ++ [st]) hP1
        simpa [List.append_assoc] using this
      | some e =>
        simp only [Prod.mk.injEq] at h
        obtain ⟨rfl, rfl⟩ := h
        have hi : i1 = i := herr (by simp)
        subst hi
        refine ⟨fun hx => by simp at hx, fun _ => ?_⟩
        -- the finished prefix is skipped, then the same statement fails in the same way
        have hpre : ∀ (Q : List Step) (T : List Step), (∀ s ∈ Q, Fix s i1) → deriveL (Q ++ T) i1 = deriveL T i1 := by
          intro Q T hQ
          induction Q with
          | nil => rfl
          | cons q qs ihq =>
            simp only [List.cons_append, deriveL, step_of_fix q i1 (hQ q (by simp))]
            exact ihq (fun s hs' => hQ s (by simp [hs']))
        rw [hpre P (st :: r) hP]
        simp [deriveL, hs]

/-- `__attrs_post_init__` run a second time does nothing new: same instance, same exception (if any) -/
theorem derive_idem (k : Kind) (i : Inst σ) : derive k (derive k i).1 = derive k i := by
  cases h : derive k i with
  | mk j x =>
    have := deriveL_spec (steps k) i j x h [] (by simp)
    simp only [List.nil_append] at this
    cases x with
    | none => exact deriveL_of_fix (steps k) j (this.1 rfl)
    | some e => exact this.2 (by simp)

theorem deriveL_core (L : List Step) (i j : Inst σ) (x : Option String) (h : deriveL L i = (j, x)) : core j = core i := by
  induction L generalizing i with
  | nil => simp only [deriveL, Prod.mk.injEq] at h; rw [← h.1]
  | cons st r ih =>
    simp only [deriveL] at h
    cases hs : step st i with
    | mk i1 x1 =>
      rw [hs] at h
      have hc := (step_spec st i i1 x1 hs).1
      cases x1 with
      | none => exact (ih i1 h).trans hc
      | some e => simp only [Prod.mk.injEq] at h; rw [← h.1]; exact hc

theorem deriveL_cdf (L : List Step) (i j : Inst σ) (x : Option String) (h : deriveL L i = (j, x)) :
    (i.settings.cdfThreshold ≠ none ∨ Step.fillCdf ∉ L) → j.settings.cdfThreshold = i.settings.cdfThreshold := by
  induction L generalizing i with
  | nil => intro _; simp only [deriveL, Prod.mk.injEq] at h; rw [← h.1]
  | cons st r ih =>
    intro hh
    simp only [deriveL] at h
    cases hs : step st i with
    | mk i1 x1 =>
      rw [hs] at h
      obtain ⟨_, _, _, hcdf, hcdf', _, _⟩ := step_spec st i i1 x1 hs
      have h1 : i1.settings.cdfThreshold = i.settings.cdfThreshold := by
        rcases hh with hn | hn
        · exact hcdf hn
        · exact hcdf' (fun e => hn (by simp [e]))
      cases x1 with
      | none =>
        have := ih i1 h (by
          rcases hh with hn | hn
          · left; rw [h1]; exact hn
          · right; exact fun hm => hn (by simp [hm]))
        rw [this, h1]
      | some e => simp only [Prod.mk.injEq] at h; rw [← h.1]; exact h1

/-! ### the run sees only what the settings determine -/

theorem step_sim (st : Step) (i i' : Inst σ) (h : i.settings = i'.settings) :
    (step st i).2 = (step st i').2 ∧ (step st i).1.settings = (step st i').1.settings := by
  cases st with
  | checkStepLeLen => simp only [step, h]; split <;> simp [h]
  | buildRw =>
    simp only [step, h]
    split
    · split <;> simp [setRw, h]
    · simp [h]
  | buildYr =>
    simp only [step, h]
    split
    · split <;> simp [setYr, h]
    · simp [h]
  | fillCdf =>
    simp only [step, h]
    split
    · split <;> simp [setCdf, h]
    · simp [h]
  | checkDistribution => simp only [step, h]; split <;> simp [h]

theorem deriveL_sim (L : List Step) (i i' : Inst σ) (h : i.settings = i'.settings) :
    (deriveL L i).2 = (deriveL L i').2 ∧ (deriveL L i).1.settings = (deriveL L i').1.settings := by
  induction L generalizing i i' with
  | nil => exact ⟨rfl, h⟩
  | cons st r ih =>
    have hs := step_sim st i i' h
    simp only [deriveL]
    cases h1 : step st i with
    | mk j x =>
      cases h2 : step st i' with
      | mk j' x' =>
        rw [h1, h2] at hs
        simp only at hs
        obtain ⟨hx, hset⟩ := hs
        subst hx
        cases x with
        | none => exact ih j j' hset
        | some e => exact ⟨rfl, hset⟩

theorem buildRw_mem (k : Kind) : Step.buildRw ∈ steps k := by cases k <;> simp [steps]

theorem buildYr_mem (k : Kind) (h : k.hasYearWindow = true) : Step.buildYr ∈ steps k := by
  cases k <;> simp_all [steps, Kind.hasYearWindow]

/-- after a successful `__attrs_post_init__` the view is a function of the final settings -/
theorem view_of_derive (k : Kind) (i j : Inst σ) (h : derive k i = (j, none)) :
    view k j = ⟨j.settings,
      if j.settings.rwMode then (match mkWindow j.settings.rwLen j.settings.rwStep with | .ok w => some w | .error _ => none) else none,
      if k.hasYearWindow && j.settings.yrMode then (match mkWindow j.settings.yrLen j.settings.yrStep with | .ok w => some w | .error _ => none) else none⟩ := by
  have hfix := (deriveL_spec (steps k) i j none h [] (by simp)).1 rfl
  simp only [List.nil_append] at hfix
  simp only [view, View.mk.injEq, true_and]
  constructor
  · by_cases hm : j.settings.rwMode = true
    · have := hfix _ (buildRw_mem k)
      simp only [Fix] at this
      obtain ⟨w, hw, hd⟩ := this hm
      simp [hm, hw, hd]
    · simp [hm]
  · by_cases hm : (k.hasYearWindow && j.settings.yrMode) = true
    · simp only [Bool.and_eq_true] at hm
      have := hfix _ (buildYr_mem k hm.1)
      simp only [Fix] at this
      obtain ⟨w, hw, hd⟩ := this hm.2
      simp [hm.1, hm.2, hw, hd]
    · simp [hm]

end Lemmas.Instance
