/-
  C09 helpers, part 5:
  * instances of `IsiLaws` (non-vacuity of the step-6 theorem): every location–scale family with `LocScaleLaws`
    for a variable without bounds (tas / psl / rlds), and the uniform family `U[floc, floc + fscale]` — a genuine
    bounded family — for a variable with both bounds and thresholds (hurs-like);
  (the precipitation models inside QuantileMapping are in `Lemmas/C09Precip.lean`, on `Model/PrecipQM.lean`).
-/
import IbicusModel.Lemmas.C09Step6
import IbicusModel.Lemmas.C09Deb

namespace Lemmas.C09
open Model.Stats Model.Family Model.Isimip Lemmas.Stats

/-! ### `IsiLaws` for location–scale families, variables without bounds -/

theorem fit_ofLocScale_pos {F : LocScaleFam} {scaleAt : Rat → List Rat → Rat} {d : List Rat}
    {fl fs : Option Rat} {p : Rat × Rat} (h : (IsiFamily.ofLocScale F scaleAt).fit d fl fs = some p)
    (hF : 0 ≤ F.scale d) (hsa : ∀ l, 0 ≤ scaleAt l d) (hfs : ∀ s, fs = some s → 0 < s) : 0 < p.2 := by
  cases fs with
  | some s =>
    simp only [IsiFamily.ofLocScale] at h
    split_ifs at h
    injection h with h
    subst h
    exact hfs s rfl
  | none =>
    cases fl with
    | none =>
      simp only [IsiFamily.ofLocScale] at h
      split_ifs at h with _ hs
      injection h with h
      subst h
      exact lt_of_le_of_ne hF (Ne.symm hs)
    | some l =>
      simp only [IsiFamily.ofLocScale] at h
      split_ifs at h with _ hs
      injection h with h
      subst h
      exact lt_of_le_of_ne (hsa l) (Ne.symm hs)

/-- a location–scale family (`LocScaleLaws`) used by step 6 for a variable without bounds; the scale that step 6
    fixes (if any) must be positive — `upper_threshold − lower_threshold > 0` — and so must the family's
    scale estimate about a fixed location -/
theorem isiLaws_locScale (c : Cfg) (F : LocScaleFam) (L : LocScaleLaws F) (scaleAt : Rat → List Rat → Rat)
    (hsa : ∀ l d, 0 ≤ scaleAt l d)
    (hfs : ∀ fl s, fixedArgs c = .ok (fl, some s) → 0 < s)
    (hlb : c.lowerBound = .negInf) (hub : c.upperBound = .posInf) :
    IsiLaws c (IsiFamily.ofLocScale F scaleAt) := by
  have hpos : ∀ fl fs, fixedArgs c = .ok (fl, fs) → ∀ d p, (IsiFamily.ofLocScale F scaleAt).fit d fl fs = some p →
      0 < p.2 := by
    intro fl fs hfa d p hp
    exact fit_ofLocScale_pos hp (L.scale_nonneg d) (fun l => hsa l d) (fun s hs => hfs fl s (by rw [← hs]; exact hfa))
  refine ⟨?_, ?_, ?_⟩
  · intro fl fs hfa d p hp
    exact locScale_cdf_monoR L p (hpos fl fs hfa d p hp)
  · intro fl fs hfa d p hp q r hq hqr hr
    rcases eq_or_lt_of_le hqr with rfl | hlt
    · exact le_refl _
    · exact le_of_lt (Lemmas.Family.ppf_strictMono L p (hpos fl fs hfa d p hp) hq hr hlt)
  · intro fl fs _ d p _ q _ _
    unfold InBounds
    rw [hlb, hub]
    exact ⟨rfl, rfl⟩

/-- tas-like configuration of the test double: `IsiLaws` holds (non-vacuity of `step6_mono` for unbounded variables) -/
def tasCfg : Cfg := { trendMethod := .additive, nonparametricQm := false, detrending := false }

theorem meanAbsDevAt_nonneg (l : Rat) (d : List Rat) : 0 ≤ meanAbsDevAt l d := by
  unfold meanAbsDevAt mean
  apply div_nonneg
  · apply List.sum_nonneg
    intro x hx
    obtain ⟨y, _, rfl⟩ := List.mem_map.mp hx
    exact Lemmas.Family.absQ_nonneg _
  · exact_mod_cast Nat.zero_le _

theorem isiLaws_tas : IsiLaws tasCfg Model.Isimip.ratSigmoid := by
  apply isiLaws_locScale tasCfg Model.Family.ratSigmoid Lemmas.Family.ratSigmoid_laws meanAbsDevAt meanAbsDevAt_nonneg
  · intro fl s h
    have : fixedArgs tasCfg = .ok (none, none) := by decide +kernel
    rw [this] at h
    injection h with h
    simp at h
  · rfl
  · rfl

theorem cfgOrdered_unbounded (c : Cfg) (hlb : c.lowerBound = .negInf) (hub : c.upperBound = .posInf) : CfgOrdered c where
  lower := fun _ _ => by rw [hlb]; rfl
  upper := fun _ _ => by rw [hub]; rfl
  bounds := fun lo hi h _ => by rw [hlb] at h; cases h

/-! ### a bounded family: the uniform distribution on `[floc, floc + fscale]` -/

/-- `scipy.stats.uniform`-like: `fit` honours `floc` / `fscale` (else the sample's minimum / range), fails for a
    non-positive scale; `cdf = clip((x − loc)/scale, 0, 1)`; `ppf = loc + scale · q` -/
def uniformFam : IsiFamily where
  fit := fun d fl fs =>
    let loc := fl.getD (minQ d)
    let sc := fs.getD (maxQ d - minQ d)
    if 0 < sc then some (loc, sc) else none
  cdf := fun p x => max 0 (min 1 ((x - p.1) / p.2))
  ppf := fun p q => p.1 + p.2 * q

/-- hurs-like configuration: bounds `[0, 100]`, thresholds `0.01`, `99.99` -/
def hursCfg : Cfg :=
  { trendMethod := .bounded, nonparametricQm := false, detrending := false,
    lowerBound := .fin 0, lowerThreshold := .fin (1 / 100), upperBound := .fin 100, upperThreshold := .fin (9999 / 100) }

theorem fixedArgs_hurs : fixedArgs hursCfg = .ok (some (1 / 100), some (9999 / 100 - 1 / 100)) := by decide +kernel

theorem isiLaws_hurs_uniform : IsiLaws hursCfg uniformFam := by
  have key : ∀ fl fs, fixedArgs hursCfg = .ok (fl, fs) → ∀ d p, uniformFam.fit d fl fs = some p →
      p = (1 / 100, 9999 / 100 - 1 / 100) := by
    intro fl fs hfa d p hp
    rw [fixedArgs_hurs] at hfa
    injection hfa with hfa
    have h1 : fl = some (1 / 100) := (congrArg Prod.fst hfa).symm
    have h2 : fs = some (9999 / 100 - 1 / 100) := (congrArg Prod.snd hfa).symm
    subst h1 h2
    simp only [uniformFam, Option.getD_some] at hp
    split_ifs at hp
    injection hp with hp
    exact hp.symm
  refine ⟨?_, ?_, ?_⟩
  · intro fl fs hfa d p hp a b hab
    rw [key fl fs hfa d p hp]
    simp only [uniformFam]
    apply max_le_max (le_refl _)
    apply min_le_min (le_refl _)
    apply div_le_div_of_nonneg_right (by linarith) (by norm_num)
  · intro fl fs hfa d p hp q r _ hqr _
    rw [key fl fs hfa d p hp]
    simp only [uniformFam]
    nlinarith
  · intro fl fs hfa d p hp q hq0 hq1
    rw [key fl fs hfa d p hp]
    have h0 : (0 : Rat) ≤ 1 / 100 + (9999 / 100 - 1 / 100) * q := by nlinarith
    have h100 : (1 / 100 : Rat) + (9999 / 100 - 1 / 100) * q ≤ 100 := by nlinarith
    exact ⟨decide_eq_true h0, decide_eq_true h100⟩

theorem cfgOrdered_hurs : CfgOrdered hursCfg where
  lower := fun v h => by
    simp only [hursCfg, ExtRat.gtOf, ExtRat.geOf, decide_eq_true_eq, gt_iff_lt, ge_iff_le] at h ⊢
    linarith
  upper := fun v h => by
    simp only [hursCfg, ExtRat.ltOf, ExtRat.leOf, decide_eq_true_eq] at h ⊢
    linarith
  bounds := fun lo hi h1 h2 => by
    simp only [hursCfg] at h1 h2
    injection h1 with h1; injection h2 with h2
    rw [← h1, ← h2]; norm_num

/-! ### event likelihood adjustment (known finding F22): the tas-like configuration with the option on, rational
    stand-ins for `scipy.special.logit` / `expit` / `np.log(10)`, and evaluation helpers (`List.mergeSort` is defined by
    well-founded recursion and does not reduce in the kernel; on sorted input every sort of the model is the identity) -/

/-- `ISIMIP.from_variable("tas", event_likelihood_adjustment=True)`-like: `tasCfg` with the option on -/
def elaCfg : Cfg := { tasCfg with eventLikelihoodAdjustment := true }

/-- rational doubles of the three oracles of the adjustment: `logit := G⁻¹`, `expit := G` of the rational sigmoid
    (strictly increasing, mutually inverse: `ratSigmoid_laws`), `np.log(10) ≈ 23/10` -/
def elaOracles : Oracles := { logit := sigGinv, expit := sigG, log10 := 23 / 10 }

theorem isiLaws_ela : IsiLaws elaCfg Model.Isimip.ratSigmoid := by
  apply isiLaws_locScale elaCfg Model.Family.ratSigmoid Lemmas.Family.ratSigmoid_laws meanAbsDevAt meanAbsDevAt_nonneg
  · intro fl s h
    have : fixedArgs elaCfg = .ok (none, none) := by decide +kernel
    rw [this] at h
    injection h with h
    simp at h
  · rfl
  · rfl

theorem sortQ_of_sorted_ela {l : List Rat} (h : l.Pairwise (· ≤ ·)) : sortQ l = l := by
  unfold sortQ
  exact List.mergeSort_of_pairwise (h.imp (fun h => by simpa using h))

theorem argsort_of_sorted_ela {l : List Rat} (h : l.Pairwise (· ≤ ·)) : argsort l = List.range l.length := by
  unfold argsort
  have h1 : ((l.zip (List.range l.length)).map Prod.fst).Pairwise (· ≤ ·) := by
    rw [List.map_fst_zip (by simp)]; exact h
  rw [List.pairwise_map] at h1
  have hp : (l.zip (List.range l.length)).Pairwise (fun a b => (decide (a.1 ≤ b.1)) = true) :=
    h1.imp (fun h => by simpa using h)
  rw [List.mergeSort_of_pairwise hp, List.map_snd_zip (by simp)]

end Lemmas.C09
