/-
  C09 helpers, part 5:
  * instances of `IsiLaws` (non-vacuity of the step-6 theorem): every location–scale family with `LocScaleLaws`
    for a variable without bounds (tas / psl / rlds), and the uniform family `U[floc, floc + fscale]` — a genuine
    bounded family — for a variable with both bounds and thresholds (hurs-like);
  * the left-censored gamma precipitation model `ibicus.utils.gen_PrecipitationGammaLeftCensoredModel` and the hurdle
    model `gen_PrecipitationHurdleModel` used inside parametric `QuantileMapping`, transcribed locally (the precipitation models belong to C17; no
    `Model/Precip.lean` exists in this tree).  `Gh` = the fitted gamma cdf of `cm_hist`, `Qo` = the fitted gamma
    ppf of `obs` are parameters constrained by monotonicity only; the draws `u` are explicit.  The tie of this
    transcription to the code is the C09 oracle (real code) and a structural probe in `harness/c09.py`.
-/
import IbicusModel.Lemmas.C09Step6
import IbicusModel.Lemmas.C09Deb

namespace Lemmas.C09
open Model.Stats Model.Family Model.Isimip Lemmas.Stats

/-! ### `IsiLaws` for location–scale families, variables without bounds -/

theorem fit_ofLocScale_pos {F : LocScaleFam} {scaleAt : Rat → List Rat → Rat} {d : List Rat}
    {fl fs : Option Rat} {p : Rat × Rat} (h : (IsiFamily.ofLocScale F scaleAt).fit d fl fs = some p)
    (hF : 0 ≤ F.scale d) (hsa : ∀ l, 0 ≤ scaleAt l d) (hfs : ∀ s, fs = some s → 0 < s) : 0 < p.2 := by
  cases fs with
  | some s =>
    simp only [IsiFamily.ofLocScale] at h
    split_ifs at h
    injection h with h
    subst h
    exact hfs s rfl
  | none =>
    cases fl with
    | none =>
      simp only [IsiFamily.ofLocScale] at h
      split_ifs at h with _ hs
      injection h with h
      subst h
      exact lt_of_le_of_ne hF (Ne.symm hs)
    | some l =>
      simp only [IsiFamily.ofLocScale] at h
      split_ifs at h with _ hs
      injection h with h
      subst h
      exact lt_of_le_of_ne (hsa l) (Ne.symm hs)

/-- a location–scale family (`LocScaleLaws`) used by step 6 for a variable without bounds; the scale that step 6
    fixes (if any) must be positive — `upper_threshold − lower_threshold > 0` — and so must the family's
    scale estimate about a fixed location -/
theorem isiLaws_locScale (c : Cfg) (F : LocScaleFam) (L : LocScaleLaws F) (scaleAt : Rat → List Rat → Rat)
    (hsa : ∀ l d, 0 ≤ scaleAt l d)
    (hfs : ∀ fl s, fixedArgs c = .ok (fl, some s) → 0 < s)
    (hlb : c.lowerBound = .negInf) (hub : c.upperBound = .posInf) :
    IsiLaws c (IsiFamily.ofLocScale F scaleAt) := by
  have hpos : ∀ fl fs, fixedArgs c = .ok (fl, fs) → ∀ d p, (IsiFamily.ofLocScale F scaleAt).fit d fl fs = some p →
      0 < p.2 := by
    intro fl fs hfa d p hp
    exact fit_ofLocScale_pos hp (L.scale_nonneg d) (fun l => hsa l d) (fun s hs => hfs fl s (by rw [← hs]; exact hfa))
  refine ⟨?_, ?_, ?_⟩
  · intro fl fs hfa d p hp
    exact locScale_cdf_monoR L p (hpos fl fs hfa d p hp)
  · intro fl fs hfa d p hp q r hq hqr hr
    rcases eq_or_lt_of_le hqr with rfl | hlt
    · exact le_refl _
    · exact le_of_lt (Lemmas.Family.ppf_strictMono L p (hpos fl fs hfa d p hp) hq hr hlt)
  · intro fl fs _ d p _ q _ _
    unfold InBounds
    rw [hlb, hub]
    exact ⟨rfl, rfl⟩

/-- tas-like configuration of the test double: `IsiLaws` holds (non-vacuity of `step6_mono` for unbounded variables) -/
def tasCfg : Cfg := { trendMethod := .additive, nonparametricQm := false, detrending := false }

theorem meanAbsDevAt_nonneg (l : Rat) (d : List Rat) : 0 ≤ meanAbsDevAt l d := by
  unfold meanAbsDevAt mean
  apply div_nonneg
  · apply List.sum_nonneg
    intro x hx
    obtain ⟨y, _, rfl⟩ := List.mem_map.mp hx
    exact Lemmas.Family.absQ_nonneg _
  · exact_mod_cast Nat.zero_le _

theorem isiLaws_tas : IsiLaws tasCfg Model.Isimip.ratSigmoid := by
  apply isiLaws_locScale tasCfg Model.Family.ratSigmoid Lemmas.Family.ratSigmoid_laws meanAbsDevAt meanAbsDevAt_nonneg
  · intro fl s h
    have : fixedArgs tasCfg = .ok (none, none) := by decide +kernel
    rw [this] at h
    injection h with h
    simp at h
  · rfl
  · rfl

theorem cfgOrdered_unbounded (c : Cfg) (hlb : c.lowerBound = .negInf) (hub : c.upperBound = .posInf) : CfgOrdered c where
  lower := fun _ _ => by rw [hlb]; rfl
  upper := fun _ _ => by rw [hub]; rfl
  bounds := fun lo hi h _ => by rw [hlb] at h; cases h

/-! ### a bounded family: the uniform distribution on `[floc, floc + fscale]` -/

/-- `scipy.stats.uniform`-like: `fit` honours `floc` / `fscale` (else the sample's minimum / range), fails for a
    non-positive scale; `cdf = clip((x − loc)/scale, 0, 1)`; `ppf = loc + scale · q` -/
def uniformFam : IsiFamily where
  fit := fun d fl fs =>
    let loc := fl.getD (minQ d)
    let sc := fs.getD (maxQ d - minQ d)
    if 0 < sc then some (loc, sc) else none
  cdf := fun p x => max 0 (min 1 ((x - p.1) / p.2))
  ppf := fun p q => p.1 + p.2 * q

/-- hurs-like configuration: bounds `[0, 100]`, thresholds `0.01`, `99.99` -/
def hursCfg : Cfg :=
  { trendMethod := .bounded, nonparametricQm := false, detrending := false,
    lowerBound := .fin 0, lowerThreshold := .fin (1 / 100), upperBound := .fin 100, upperThreshold := .fin (9999 / 100) }

theorem fixedArgs_hurs : fixedArgs hursCfg = .ok (some (1 / 100), some (9999 / 100 - 1 / 100)) := by decide +kernel

theorem isiLaws_hurs_uniform : IsiLaws hursCfg uniformFam := by
  have key : ∀ fl fs, fixedArgs hursCfg = .ok (fl, fs) → ∀ d p, uniformFam.fit d fl fs = some p →
      p = (1 / 100, 9999 / 100 - 1 / 100) := by
    intro fl fs hfa d p hp
    rw [fixedArgs_hurs] at hfa
    injection hfa with hfa
    have h1 : fl = some (1 / 100) := (congrArg Prod.fst hfa).symm
    have h2 : fs = some (9999 / 100 - 1 / 100) := (congrArg Prod.snd hfa).symm
    subst h1 h2
    simp only [uniformFam, Option.getD_some] at hp
    split_ifs at hp
    injection hp with hp
    exact hp.symm
  refine ⟨?_, ?_, ?_⟩
  · intro fl fs hfa d p hp a b hab
    rw [key fl fs hfa d p hp]
    simp only [uniformFam]
    apply max_le_max (le_refl _)
    apply min_le_min (le_refl _)
    apply div_le_div_of_nonneg_right (by linarith) (by norm_num)
  · intro fl fs hfa d p hp q r _ hqr _
    rw [key fl fs hfa d p hp]
    simp only [uniformFam]
    nlinarith
  · intro fl fs hfa d p hp q hq0 hq1
    rw [key fl fs hfa d p hp]
    have h0 : (0 : Rat) ≤ 1 / 100 + (9999 / 100 - 1 / 100) * q := by nlinarith
    have h100 : (1 / 100 : Rat) + (9999 / 100 - 1 / 100) * q ≤ 100 := by nlinarith
    exact ⟨decide_eq_true h0, decide_eq_true h100⟩

theorem cfgOrdered_hurs : CfgOrdered hursCfg where
  lower := fun v h => by
    simp only [hursCfg, ExtRat.gtOf, ExtRat.geOf, decide_eq_true_eq, gt_iff_lt, ge_iff_le] at h ⊢
    linarith
  upper := fun v h => by
    simp only [hursCfg, ExtRat.ltOf, ExtRat.leOf, decide_eq_true_eq] at h ⊢
    linarith
  bounds := fun lo hi h1 h2 => by
    simp only [hursCfg] at h1 h2
    injection h1 with h1; injection h2 with h2
    rw [← h1, ← h2]; norm_num

/-! ### left-censored gamma model inside parametric QuantileMapping (local transcription) -/

/-- `gen_PrecipitationGammaLeftCensoredModel.cdf`: `gamma.cdf(where(x < thr, uniform(0, thr), x), *fit)` -/
def censCdf (Gh : Rat → Rat) (thr x u : Rat) : Rat := Gh (if x < thr then u else x)

/-- `gen_PrecipitationGammaLeftCensoredModel.ppf` (`censor_in_ppf = True`): `where(v < thr, 0, v)`, `v = gamma.ppf(q, *fit)` -/
def censPpf (Qo : Rat → Rat) (thr q : Rat) : Rat := if Qo q < thr then 0 else Qo q

/-- `_standard_qm` with the censored model: one value `x` with its draw `u` -/
def censQM1 (Gh Qo : Rat → Rat) (thr t x u : Rat) : Rat := censPpf Qo thr (thresholdCdf t (censCdf Gh thr x u))

/-- the window function with `detrending = "no_detrending"` -/
def censQM (Gh Qo : Rat → Rat) (thr t : Rat) (F u : List Rat) : List Rat :=
  List.zipWith (fun x r => censQM1 Gh Qo thr t x r) F u

theorem censQM1_mono_in_randomized (Gh Qo : Rat → Rat) (thr t : Rat) (ht : t ≤ 1 / 2) (h0 : 0 ≤ thr)
    (hG : MonoR Gh) (hQ : ∀ p q : Rat, t ≤ p → p ≤ q → q ≤ 1 - t → Qo p ≤ Qo q)
    {a b : Rat} (hab : a ≤ b) :
    censPpf Qo thr (thresholdCdf t (Gh a)) ≤ censPpf Qo thr (thresholdCdf t (Gh b)) := by
  unfold censPpf
  exact censor_monoR thr h0 _ _
    (hQ _ _ (Props.C16.thresholdCdf_range t _ ht).1 (Props.C16.thresholdCdf_mono t (hG a b hab))
      (Props.C16.thresholdCdf_range t _ ht).2)

/-- **censored model, what holds for every draw**: among values at or above the censoring threshold the map is
    monotone, and a sub-threshold value never ends up above a value at or above the threshold
    (`0 ≤ u < thr` for the draw of the sub-threshold value) -/
theorem censQM1_order (Gh Qo : Rat → Rat) (thr t : Rat) (ht : t ≤ 1 / 2) (h0 : 0 ≤ thr)
    (hG : MonoR Gh) (hQ : ∀ p q : Rat, t ≤ p → p ≤ q → q ≤ 1 - t → Qo p ≤ Qo q)
    (xi xj ui uj : Rat) (hlt : xi < xj) (hj : thr ≤ xj) (hui : ui < thr) :
    censQM1 Gh Qo thr t xi ui ≤ censQM1 Gh Qo thr t xj uj := by
  unfold censQM1 censCdf
  rw [if_neg (not_lt.mpr hj)]
  by_cases hi : xi < thr
  · rw [if_pos hi]
    exact censQM1_mono_in_randomized Gh Qo thr t ht h0 hG hQ (by linarith)
  · rw [if_neg hi]
    exact censQM1_mono_in_randomized Gh Qo thr t ht h0 hG hQ (le_of_lt hlt)

/-- **F16 (known finding, inherent to censoring)**: two distinct sub-threshold inputs are re-drawn independently and
    can come out in either order.  Concrete witness with the rational scale family `G(z) = z/(1+z)`
    (`cm_hist` scale 1, `obs` scale 4, so the composed map is `x ↦ 4x`), `thr = 1`, `t = 1/1000`:
    inputs `0 < 1/2`, draws `3/4`, `1/2` (both in `[0, thr)`), outputs `3 > 2`. -/
theorem censQM_subthreshold_pair_can_invert :
    ∃ (Gh Qo : Rat → Rat) (thr t xi xj ui uj : Rat), MonoR Gh ∧ (∀ p q : Rat, t ≤ p → p ≤ q → q ≤ 1 - t → Qo p ≤ Qo q) ∧
      xi < xj ∧ xj < thr ∧ 0 ≤ ui ∧ ui < thr ∧ 0 ≤ uj ∧ uj < thr ∧
      censQM1 Gh Qo thr t xj uj < censQM1 Gh Qo thr t xi ui := by
  refine ⟨fun z => if z < 0 then 0 else z / (1 + z), fun p => 4 * (p / (1 - p)), 1, 1 / 1000, 0, 1 / 2, 3 / 4, 1 / 2,
    ?_, ?_, by norm_num, by norm_num, by norm_num, by norm_num, by norm_num, by norm_num, ?_⟩
  · intro a b hab
    by_cases ha : a < 0 <;> by_cases hb : b < 0 <;> simp only [ha, hb, if_true, if_false]
    · exact le_refl _
    · exact div_nonneg (not_lt.mp hb) (by linarith [not_lt.mp hb])
    · linarith [not_lt.mp ha]
    · have h1 : (0 : Rat) < 1 + a := by linarith [not_lt.mp ha]
      have h2 : (0 : Rat) < 1 + b := by linarith [not_lt.mp hb]
      rw [div_le_div_iff₀ h1 h2]; nlinarith [not_lt.mp ha]
  · intro p q hp hpq hq
    have h1 : (0 : Rat) < 1 - p := by linarith
    have h2 : (0 : Rat) < 1 - q := by linarith
    have : p / (1 - p) ≤ q / (1 - q) := by
      rw [div_le_div_iff₀ h1 h2]; nlinarith
    linarith
  · decide +kernel

/-! ### hurdle model inside parametric QuantileMapping (local transcription, like the censored model) -/

/-- `gen_PrecipitationHurdleModel.cdf` (`cdf_randomization = True`): `where(x == 0, uniform(0, p0), p0 + (1 − p0)·G(x))` -/
def hurdleCdf (Gh : Rat → Rat) (p0 x u : Rat) : Rat := if x = 0 then u else p0 + (1 - p0) * Gh x

/-- `gen_PrecipitationHurdleModel.ppf`: `where(q > p0, Q((q − p0)/(1 − p0)), 0)` -/
def hurdlePpf (Qo : Rat → Rat) (p0 q : Rat) : Rat := if q > p0 then Qo ((q - p0) / (1 - p0)) else 0

/-- `_standard_qm` with the hurdle model: one value `x` with its draw `u` -/
def hurdleQM1 (Gh Qo : Rat → Rat) (p0h p0o t x u : Rat) : Rat :=
  hurdlePpf Qo p0o (thresholdCdf t (hurdleCdf Gh p0h x u))

theorem hurdlePpf_mono (Qo : Rat → Rat) (p0o t : Rat) (ht0 : 0 < t) (hp1 : p0o < 1)
    (hQ : ∀ p q : Rat, 0 < p → p ≤ q → q < 1 → Qo p ≤ Qo q) (hQ0 : ∀ p : Rat, 0 < p → p < 1 → 0 ≤ Qo p)
    {a b : Rat} (hab : a ≤ b) (hb : b ≤ 1 - t) : hurdlePpf Qo p0o a ≤ hurdlePpf Qo p0o b := by
  have hd : 0 < 1 - p0o := by linarith
  have arg : ∀ q, q > p0o → q ≤ 1 - t → 0 < (q - p0o) / (1 - p0o) ∧ (q - p0o) / (1 - p0o) < 1 := by
    intro q h1 h2
    exact ⟨div_pos (by linarith) hd, by rw [div_lt_one hd]; linarith⟩
  unfold hurdlePpf
  by_cases ha : a > p0o
  · have hb' : b > p0o := lt_of_lt_of_le ha hab
    rw [if_pos ha, if_pos hb']
    exact hQ _ _ (arg a ha (le_trans hab hb)).1 (div_le_div_of_nonneg_right (by linarith) (le_of_lt hd)) (arg b hb' hb).2
  · rw [if_neg ha]
    by_cases hb' : b > p0o
    · rw [if_pos hb']; exact hQ0 _ (arg b hb' hb).1 (arg b hb' hb).2
    · rw [if_neg hb']

/-- **hurdle model, for every draw**: zeros are randomised below `p0` (the dry fraction of `cm_hist`), positive values
    have cdf values `≥ p0`; hence a strictly smaller value never gets a larger output.  Non-negative data;
    `Gh` / `Qo` = fitted amounts cdf / ppf, constrained by monotonicity and non-negativity only. -/
theorem hurdleQM1_order (Gh Qo : Rat → Rat) (p0h p0o t : Rat) (ht0 : 0 < t) (ht : t ≤ 1 / 2)
    (hp1 : p0h ≤ 1) (hpo : p0o < 1)
    (hG : MonoR Gh) (hG0 : ∀ z : Rat, 0 ≤ Gh z)
    (hQ : ∀ p q : Rat, 0 < p → p ≤ q → q < 1 → Qo p ≤ Qo q) (hQ0 : ∀ p : Rat, 0 < p → p < 1 → 0 ≤ Qo p)
    (xi xj ui uj : Rat) (hxi : 0 ≤ xi) (hlt : xi < xj) (hui : ui ≤ p0h) :
    hurdleQM1 Gh Qo p0h p0o t xi ui ≤ hurdleQM1 Gh Qo p0h p0o t xj uj := by
  unfold hurdleQM1
  have hxj : xj ≠ 0 := by intro h; rw [h] at hlt; linarith
  have hc : hurdleCdf Gh p0h xi ui ≤ hurdleCdf Gh p0h xj uj := by
    unfold hurdleCdf
    rw [if_neg hxj]
    have h1 : 0 ≤ (1 - p0h) * Gh xj := mul_nonneg (by linarith) (hG0 xj)
    by_cases h0 : xi = 0
    · rw [if_pos h0]; linarith
    · rw [if_neg h0]
      have := mul_le_mul_of_nonneg_left (hG xi xj (le_of_lt hlt)) (by linarith : (0 : Rat) ≤ 1 - p0h)
      linarith
  exact hurdlePpf_mono Qo p0o t ht0 hpo hQ hQ0 (Props.C16.thresholdCdf_mono t hc)
    (Props.C16.thresholdCdf_range t _ ht).2


end Lemmas.C09
