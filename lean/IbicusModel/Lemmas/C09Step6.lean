/-
  C09 helpers, part 4: ISIMIP step 6 (`Model.Isimip.step6Full`).
  * the sorted future values split into the `n_l` lowest, the middle and the `n_u` highest; the result in sorted
    order is `[lower bound]*n_l ++ mid ++ [upper bound]*n_u` (`step6After_shape`);
  * `mid` is the pointwise image of the middle values under a map that is monotone and stays inside the bounds, in
    every branch of `_step6_adjust_values_between_thresholds` (`adjustBetween_spec`) — by the range of the
    pseudo-future observations between the thresholds for the non-parametric branches, by the family's laws
    (`IsiLaws`: monotone cdf / ppf and support inside the bounds for the `floc` / `fscale` step 6 passes) for the
    parametric one;
  * hence the result in sorted order is sorted, and reading it through the ranks of `cm_future` preserves order.
  Event likelihood adjustment is excluded (`L_obs + clamp(L_future − L_hist)` is not monotone in general).
-/
import IbicusModel.Lemmas.C09Step4
import IbicusModel.Lemmas.IsimipFreq
import IbicusModel.Props.C11

namespace Lemmas.C09
open Model.Stats Model.Isimip Model.IsimipFreq Lemmas.Stats Lemmas.IsimipFreq

/-! ### laws of the family and of the configuration -/

/-- `lower_bound ≤ v ≤ upper_bound` (an infinite bound is no constraint) -/
def InBounds (c : Cfg) (v : Rat) : Prop :=
  ExtRat.geOf v c.lowerBound = true ∧ ExtRat.leOf v c.upperBound = true

/-- what step 6 needs from the distribution family, for the fixed arguments (`floc`, `fscale`) that step 6 passes
    under configuration `c`: every successful fit has a non-decreasing cdf, a ppf that is non-decreasing on
    `(0, 1)`, and a support inside the variable's bounds.  Proved for the test doubles below, assumed for
    scipy's families (gamma / weibull / rice with `floc = lower_threshold`: support `[floc, ∞)`; beta with
    `floc`, `fscale`: support `[lower_threshold, upper_threshold]`; norm for unbounded variables). -/
structure IsiLaws (c : Cfg) (fam : IsiFamily) : Prop where
  cdf_mono : ∀ fl fs, fixedArgs c = .ok (fl, fs) → ∀ d p, fam.fit d fl fs = some p → MonoR (fam.cdf p)
  ppf_mono : ∀ fl fs, fixedArgs c = .ok (fl, fs) → ∀ d p, fam.fit d fl fs = some p →
    ∀ q r : Rat, 0 < q → q ≤ r → r < 1 → fam.ppf p q ≤ fam.ppf p r
  support : ∀ fl fs, fixedArgs c = .ok (fl, fs) → ∀ d p, fam.fit d fl fs = some p →
    ∀ q : Rat, 0 < q → q < 1 → InBounds c (fam.ppf p q)

/-- the bounds enclose the thresholds: `lower_bound ≤ lower_threshold`, `upper_threshold ≤ upper_bound`
    (stated on values: whatever is strictly inside the thresholds is inside the bounds), `lower_bound ≤ upper_bound` -/
structure CfgOrdered (c : Cfg) : Prop where
  lower : ∀ v : Rat, ExtRat.gtOf v c.lowerThreshold = true → ExtRat.geOf v c.lowerBound = true
  upper : ∀ v : Rat, ExtRat.ltOf v c.upperThreshold = true → ExtRat.leOf v c.upperBound = true
  bounds : ∀ lo hi : Rat, c.lowerBound = .fin lo → c.upperBound = .fin hi → lo ≤ hi

theorem geOf_mono {v w : Rat} {t : ExtRat} (h : v ≤ w) (hv : ExtRat.geOf v t = true) : ExtRat.geOf w t = true := by
  cases t with
  | negInf => rfl
  | fin q => simp only [ExtRat.geOf, decide_eq_true_eq, ge_iff_le] at hv ⊢; linarith
  | posInf => simp [ExtRat.geOf] at hv

theorem leOf_mono {v w : Rat} {t : ExtRat} (h : w ≤ v) (hv : ExtRat.leOf v t = true) : ExtRat.leOf w t = true := by
  cases t with
  | negInf => simp [ExtRat.leOf] at hv
  | fin q => simp only [ExtRat.leOf, decide_eq_true_eq] at hv ⊢; linarith
  | posInf => rfl

theorem inBounds_between {c : Cfg} {a b v : Rat} (ha : InBounds c a) (hb : InBounds c b) (h1 : a ≤ v) (h2 : v ≤ b) :
    InBounds c v := ⟨geOf_mono h1 ha.1, leOf_mono h2 hb.2⟩

/-- members of `valuesBetween` are strictly inside the thresholds -/
theorem mem_valuesBetween {c : Cfg} {x : List Rat} {v : Rat} (h : v ∈ valuesBetween c x) :
    ExtRat.gtOf v c.lowerThreshold = true ∧ ExtRat.ltOf v c.upperThreshold = true := by
  unfold valuesBetween maskBetween at h
  rw [selectWhere_map_pred] at h
  have := (List.mem_filter.mp h).2
  simpa using this

theorem inBounds_of_valuesBetween {c : Cfg} (hc : CfgOrdered c) {x : List Rat} {v : Rat}
    (h : v ∈ valuesBetween c x) : InBounds c v :=
  ⟨hc.lower v (mem_valuesBetween h).1, hc.upper v (mem_valuesBetween h).2⟩

/-! ### masks -/

theorem setWhere_not_any {α} (x : List α) (m : List Bool) (v : α) (hlen : m.length = x.length)
    (h : m.any id = false) : Py.setWhere x m v = x := by
  induction x generalizing m with
  | nil => rfl
  | cons a t ih =>
    cases m with
    | nil => simp at hlen
    | cons b ms =>
      simp only [List.any_cons, id, Bool.or_eq_false_iff] at h
      simp only [List.length_cons, Nat.add_right_cancel_iff] at hlen
      unfold Py.setWhere at ih ⊢
      simp only [List.zip_cons_cons, List.map_cons, h.1, Bool.false_eq_true, if_false]
      rw [ih ms hlen h.2]

theorem any_replicate_true_append (k r : Nat) :
    (List.replicate k true ++ List.replicate r false).any id = decide (0 < k) := by
  cases k with
  | zero => simp
  | succ k => simp [List.replicate_succ]

theorem any_false_append_true (r k : Nat) :
    (List.replicate r false ++ List.replicate k true).any id = decide (0 < k) := by
  cases k with
  | zero => simp
  | succ k => simp [List.replicate_succ]

theorem selectWhere_false_prefix {α} (x1 x2 : List α) (m2 : List Bool) :
    Py.selectWhere (x1 ++ x2) (List.replicate x1.length false ++ m2) = Py.selectWhere x2 m2 := by
  induction x1 with
  | nil => simp
  | cons a t ih =>
    unfold Py.selectWhere at ih ⊢
    simp only [List.cons_append, List.length_cons, List.replicate_succ, List.zip_cons_cons, List.filterMap_cons,
      Bool.false_eq_true, if_false]
    exact ih

theorem selectWhere_true_prefix {α} (x1 x2 : List α) (m2 : List Bool) :
    Py.selectWhere (x1 ++ x2) (List.replicate x1.length true ++ m2) = x1 ++ Py.selectWhere x2 m2 := by
  induction x1 with
  | nil => simp
  | cons a t ih =>
    unfold Py.selectWhere at ih ⊢
    simp only [List.cons_append, List.length_cons, List.replicate_succ, List.zip_cons_cons, List.filterMap_cons,
      if_true]
    rw [ih]

theorem selectWhere_all_false {α} (x : List α) : Py.selectWhere x (List.replicate x.length false) = [] := by
  induction x with
  | nil => rfl
  | cons a t ih =>
    unfold Py.selectWhere at ih ⊢
    simp only [List.length_cons, List.replicate_succ, List.zip_cons_cons, List.filterMap_cons,
      Bool.false_eq_true, if_false]
    exact ih

/-- the middle segment is what `mapped_vals[mask_for_entries_not_set_to_either_bound]` selects -/
theorem selectWhere_segments {α} (X B Z : List α) :
    Py.selectWhere (X ++ (B ++ Z))
      (List.replicate X.length false ++ (List.replicate B.length true ++ List.replicate Z.length false)) = B := by
  rw [selectWhere_false_prefix, selectWhere_true_prefix, selectWhere_all_false, List.append_nil]

/-- both bound assignments, closed form -/
theorem setBounds_eq {α} (lo hi : α) (A B C : List α) :
    Py.setWhere (Py.setWhere (A ++ (B ++ C)) (lowerMask (A.length : Int) (A ++ (B ++ C)).length) lo)
      (upperMask (C.length : Int) (A ++ (B ++ C)).length) hi
      = List.replicate A.length lo ++ (B ++ List.replicate C.length hi) := by
  have hl : (A ++ (B ++ C)).length = A.length + (B.length + C.length) := by simp
  have hl' : (A ++ (B ++ C)).length = (A.length + B.length) + C.length := by simp; omega
  have e1 : lowerMask (A.length : Int) (A ++ (B ++ C)).length
      = List.replicate A.length true ++ List.replicate (B.length + C.length) false := by
    rw [hl]; exact lowerMask_eq _ _
  have e2 : upperMask (C.length : Int) (A ++ (B ++ C)).length
      = List.replicate (A.length + B.length) false ++ List.replicate C.length true := by
    rw [hl']; exact upperMask_eq _ _
  rw [e1, e2]
  have s1 : Py.setWhere (A ++ (B ++ C)) (List.replicate A.length true ++ List.replicate (B.length + C.length) false) lo
      = List.replicate A.length lo ++ (B ++ C) := by
    rw [setWhere_append _ _ _ _ _ (by simp), setWhere_true]
    have : B.length + C.length = (B ++ C).length := by simp
    rw [this, setWhere_false]
  rw [s1]
  have : List.replicate A.length lo ++ (B ++ C) = (List.replicate A.length lo ++ B) ++ C := by simp
  rw [this, setWhere_append _ _ _ _ _ (by simp), setWhere_true]
  have h3 : A.length + B.length = (List.replicate A.length lo ++ B).length := by simp
  rw [h3, setWhere_false]; simp

theorem notMask_abc (A B C : Nat) :
    notMask (lowerMask (A : Int) (A + (B + C))) (upperMask (C : Int) (A + (B + C)))
      = List.replicate A false ++ (List.replicate B true ++ List.replicate C false) := by
  have e2 : upperMask (C : Int) (A + (B + C)) = List.replicate (A + B) false ++ List.replicate C true := by
    have : A + (B + C) = (A + B) + C := by omega
    rw [this]; exact upperMask_eq _ _
  rw [lowerMask_eq, e2, notMask_segments]

theorem any_notMask_abc (A B C : Nat) :
    (List.replicate A false ++ (List.replicate B true ++ List.replicate C false)).any id = decide (0 < B) := by
  cases B with
  | zero => simp
  | succ k => simp [List.replicate_succ]

/-- `mapped[mask] = bound`: succeeds iff nothing is selected or the bound is finite -/
theorem setBound_ok {xs out : List Rat} {m : List Bool} {b : ExtRat} (h : setBound xs m b = .ok out) :
    (m.any id = false ∧ out = xs) ∨ (m.any id = true ∧ ∃ q, b = .fin q ∧ out = Py.setWhere xs m q) := by
  unfold setBound at h
  by_cases ha : m.any id = true
  · rw [if_pos ha] at h
    cases b with
    | negInf => simp [ExtRat.toRat, Except.map] at h
    | posInf => simp [ExtRat.toRat, Except.map] at h
    | fin q =>
      simp only [ExtRat.toRat, Except.map] at h
      injection h with h
      exact Or.inr ⟨ha, q, rfl, h.symm⟩
  · rw [if_neg ha] at h
    injection h with h
    exact Or.inl ⟨by simpa using ha, h.symm⟩

/-- … in the form used below: the result is `setWhere xs m q` for some `q` that is the finite bound whenever
    something is selected -/
theorem setBound_ok' {xs out : List Rat} {m : List Bool} {b : ExtRat} (hlen : m.length = xs.length)
    (h : setBound xs m b = .ok out) :
    ∃ q, out = Py.setWhere xs m q ∧ (m.any id = true → b = .fin q) := by
  rcases setBound_ok h with ⟨ha, he⟩ | ⟨ha, q, hb, he⟩
  · exact ⟨0, by rw [he, setWhere_not_any xs m 0 hlen ha], fun h => by rw [ha] at h; exact absurd h (by simp)⟩
  · exact ⟨q, he, fun _ => hb⟩

/-! ### the shape of `step6Full`'s result in sorted order -/

theorem lowerMask_abc {α} (A B C : List α) :
    lowerMask (A.length : Int) (A ++ (B ++ C)).length
      = List.replicate A.length true ++ List.replicate (B.length + C.length) false := by
  have hl : (A ++ (B ++ C)).length = A.length + (B.length + C.length) := by simp
  rw [hl]; exact lowerMask_eq _ _

theorem upperMask_abc {α} (A B C : List α) :
    upperMask (C.length : Int) (A ++ (B ++ C)).length
      = List.replicate (A.length + B.length) false ++ List.replicate C.length true := by
  have hl' : (A ++ (B ++ C)).length = (A.length + B.length) + C.length := by simp; omega
  rw [hl']; exact upperMask_eq _ _

theorem fillWhere_segments {α} (X B Z mid : List α) (hm : mid.length = B.length) :
    fillWhere (X ++ (B ++ Z))
      (List.replicate X.length false ++ (List.replicate B.length true ++ List.replicate Z.length false)) mid
      = X ++ (mid ++ Z) := by
  rw [fillWhere_false_prefix]
  have h5 : mid = mid ++ [] := by simp
  conv_lhs => arg 2; arg 3; rw [h5]
  rw [fillWhere_true_prefix _ _ _ _ _ hm.symm, fillWhere_all_false]

/-- `step6Full` after the sorting and the counting -/
def step6After (c : Cfg) (fam : IsiFamily) (o : Oracles) (Os OFs Hs Fs : List Rat) (nL nU : Int) (F : List Rat) :
    Except String Step6Out := do
  let n := Fs.length
  let mL := lowerMask nL n
  let mU := upperMask nU n
  let mapped ← setBound Fs mL c.lowerBound
  let mapped ← setBound mapped mU c.upperBound
  let mN := notMask mL mU
  let (mapped, br, pre) ←
    if mN.any id then
      let OFbt := valuesBetween c OFs
      if OFbt.length > 0 then do
        let (v, br, pre) ← adjustBetween c fam o (valuesBetween c Os) OFbt (valuesBetween c Hs)
          (Py.selectWhere mapped mN) (valuesBetween c Fs)
        pure (fillWhere mapped mN v, br, pre)
      else pure (mapped, Branch.noPseudoObs, false)
    else pure (mapped, Branch.allToBounds, false)
  pure { nL := nL, nU := nU, branch := br, premapped := pre, mappedSorted := mapped,
         result := takeIdx mapped (rankOf F) }

/-- the raw counts of `step6Full` -/
def step6Raw (c : Cfg) (Os Hs Fs : List Rat) : Int × Int :=
  (if c.hasLowerThreshold then
      nrToBound c.biasCorrectFrequencies (maskBeyondLower c Os) (maskBeyondLower c Hs) (maskBeyondLower c Fs)
    else 0,
   if c.hasUpperThreshold then
      nrToBound c.biasCorrectFrequencies (maskBeyondUpper c Os) (maskBeyondUpper c Hs) (maskBeyondUpper c Fs)
    else 0)

/-- `step6Full` is `step6After` on the sorted samples with the final counts (definitional) -/
theorem step6Full_eq (c : Cfg) (fam : IsiFamily) (o : Oracles) (obs oF H F : List Rat) :
    step6Full c fam o obs oF H F =
      step6After c fam o (sortQ obs) (sortQ oF) (sortQ H) (takeIdx F (argsort F))
        (finalCounts (step6Raw c (sortQ obs) (sortQ H) (takeIdx F (argsort F))).1
          (step6Raw c (sortQ obs) (sortQ H) (takeIdx F (argsort F))).2 ((takeIdx F (argsort F)).length : Int)).1
        (finalCounts (step6Raw c (sortQ obs) (sortQ H) (takeIdx F (argsort F))).1
          (step6Raw c (sortQ obs) (sortQ H) (takeIdx F (argsort F))).2 ((takeIdx F (argsort F)).length : Int)).2 F := rfl

/-- **shape**: with `n_l = |A|`, `n_u = |C|` and the sorted future values `A ++ B ++ C`, the result in sorted order is
    `[lo]*n_l ++ mid ++ [hi]*n_u`, where `lo` / `hi` are the (finite) bounds whenever they are used and `mid` is either
    the untouched middle segment or what `_step6_adjust_values_between_thresholds` returned for it -/
theorem step6After_shape (c : Cfg) (fam : IsiFamily) (o : Oracles) (Os OFs Hs A B C F : List Rat) (r : Step6Out)
    (hadj : valuesBetween c OFs ≠ [] → ∀ v br pre, adjustBetween c fam o (valuesBetween c Os) (valuesBetween c OFs)
      (valuesBetween c Hs) B (valuesBetween c (A ++ (B ++ C))) = .ok (v, br, pre) → v.length = B.length)
    (h : step6After c fam o Os OFs Hs (A ++ (B ++ C)) (A.length : Int) (C.length : Int) F = .ok r) :
    ∃ lo hi mid, r.mappedSorted = List.replicate A.length lo ++ (mid ++ List.replicate C.length hi) ∧
      r.result = takeIdx r.mappedSorted (rankOf F) ∧
      (A ≠ [] → c.lowerBound = .fin lo) ∧ (C ≠ [] → c.upperBound = .fin hi) ∧
      mid.length = B.length ∧
      (mid = B ∨
       (valuesBetween c OFs ≠ [] ∧ ∃ br pre, adjustBetween c fam o (valuesBetween c Os) (valuesBetween c OFs)
          (valuesBetween c Hs) B (valuesBetween c (A ++ (B ++ C))) = .ok (mid, br, pre))) := by
  unfold step6After at h
  simp only [bind, Except.bind, pure, Except.pure] at h
  split at h
  · cases h
  rename_i m1 hm1
  split at h
  · cases h
  rename_i m2 hm2
  have lenL : (lowerMask (A.length : Int) (A ++ (B ++ C)).length).length = (A ++ (B ++ C)).length := by
    rw [lowerMask_abc]; simp
  obtain ⟨lo, e1, hlo⟩ := setBound_ok' lenL hm1
  have lenm1 : m1.length = (A ++ (B ++ C)).length := by
    rw [e1]; unfold Py.setWhere; rw [List.length_map, List.length_zip, lenL]; simp
  have lenU : (upperMask (C.length : Int) (A ++ (B ++ C)).length).length = m1.length := by
    rw [lenm1, upperMask_abc]; simp; omega
  obtain ⟨hi, e2, hhi⟩ := setBound_ok' lenU hm2
  rw [e1] at e2
  rw [setBounds_eq] at e2
  have hA : A ≠ [] → c.lowerBound = .fin lo := by
    intro hne
    apply hlo
    rw [lowerMask_abc, any_replicate_true_append]
    simpa using List.length_pos_iff.mpr hne
  have hC : C ≠ [] → c.upperBound = .fin hi := by
    intro hne
    apply hhi
    rw [upperMask_abc, any_false_append_true]
    simpa using List.length_pos_iff.mpr hne
  have hmask : notMask (lowerMask (A.length : Int) (A ++ (B ++ C)).length) (upperMask (C.length : Int) (A ++ (B ++ C)).length)
      = List.replicate A.length false ++ (List.replicate B.length true ++ List.replicate C.length false) := by
    have : (A ++ (B ++ C)).length = A.length + (B.length + C.length) := by simp
    rw [this]; exact notMask_abc _ _ _
  rw [hmask, any_notMask_abc] at h
  have hsel : Py.selectWhere m2 (List.replicate A.length false ++ (List.replicate B.length true ++ List.replicate C.length false)) = B := by
    have := selectWhere_segments (List.replicate A.length lo) B (List.replicate C.length hi)
    simp only [List.length_replicate] at this
    rw [e2]; exact this
  have hfill : ∀ mid : List Rat, mid.length = B.length →
      fillWhere m2 (List.replicate A.length false ++ (List.replicate B.length true ++ List.replicate C.length false)) mid
        = List.replicate A.length lo ++ (mid ++ List.replicate C.length hi) := by
    intro mid hm
    have := fillWhere_segments (List.replicate A.length lo) B (List.replicate C.length hi) mid hm
    simp only [List.length_replicate] at this
    rw [e2]; exact this
  by_cases hB : 0 < B.length
  · simp only [hB, decide_true, if_true] at h
    by_cases hOF : (valuesBetween c OFs).length > 0
    · rw [if_pos hOF, hsel] at h
      split at h
      · cases h
      rename_i v hv
      injection h with h
      subst h
      obtain ⟨mid, br, pre⟩ := v
      have hne : valuesBetween c OFs ≠ [] := by
        intro he; rw [he] at hOF; simp at hOF
      have hl := hadj hne mid br pre hv
      exact ⟨lo, hi, mid, hfill mid hl, rfl, hA, hC, hl, Or.inr ⟨hne, br, pre, hv⟩⟩
    · rw [if_neg hOF] at h
      injection h with h
      subst h
      exact ⟨lo, hi, B, e2, rfl, hA, hC, rfl, Or.inl rfl⟩
  · have hB0 : B = [] := by
      apply List.length_eq_zero_iff.mp; omega
    simp only [hB, decide_false, Bool.false_eq_true, if_false] at h
    injection h with h
    subst h
    exact ⟨lo, hi, B, e2, rfl, hA, hC, rfl, Or.inl rfl⟩

/-! ### the values between the bounds -/

/-- the ISIMIP v2.5 pre-mapping of the entries not sent to a bound onto the values between thresholds, value-wise -/
def premap1 (c : Cfg) (Fns Fbt : List Rat) : Rat → Rat :=
  match c.modeNpqm with
  | .normal => qmap1 c.ecdfMethod c.iecdfMethod Fns Fbt
  | .isimipv30 => qmapIsimip1 Fns Fbt

theorem qmapXonY_eq_map (c : Cfg) (x y : List Rat) : qmapXonY c x y = x.map (premap1 c x y) := by
  unfold qmapXonY premap1
  cases c.modeNpqm
  · exact Props.C16.qmap_eq_map _ _ _ _ _
  · exact Props.C16.qmapIsimip_eq_map _ _

theorem premap1_mono (c : Cfg) (x y : List Rat) (hy : y ≠ []) : MonoR (premap1 c x y) := by
  unfold premap1
  cases c.modeNpqm
  · exact qmap1_mono_any _ _ x y hy
  · exact fun v w h => qmapIsimip1_mono x y hy h

theorem thrCdf_range (v : Rat) : 0 < thrCdf v ∧ thrCdf v < 1 := by
  have := Props.C16.thresholdCdf_range (1 / 10000000000) v (by norm_num)
  unfold thrCdf
  constructor <;> [linarith [this.1]; linarith [this.2]]

theorem thrCdf_mono : MonoR thrCdf := fun _ _ h => Props.C16.thresholdCdf_mono _ h

/-- **every branch of `_step6_adjust_values_between_thresholds`** (event likelihood adjustment off) returns the
    pointwise image of the entries not sent to a bound under a monotone map with values inside the bounds -/
theorem adjustBetween_spec (c : Cfg) (fam : IsiFamily) (o : Oracles) (Obt OFbt Hbt Fns Fbt v : List Rat) (br : Branch) (pre : Bool)
    (hela : c.eventLikelihoodAdjustment = false) (hL : IsiLaws c fam)
    (hOF : OFbt ≠ []) (hin : ∀ w ∈ OFbt, InBounds c w)
    (h : adjustBetween c fam o Obt OFbt Hbt Fns Fbt = .ok (v, br, pre)) :
    ∃ T : Rat → Rat, MonoR T ∧ (∀ a, InBounds c (T a)) ∧ v = Fns.map T := by
  -- the non-parametric map onto the pseudo-future observations between thresholds
  have fb : ∀ (X : List Rat) (T0 : Rat → Rat), MonoR T0 → X = Fns.map T0 →
      ∃ T : Rat → Rat, MonoR T ∧ (∀ a, InBounds c (T a)) ∧ qmap c.ecdfMethod c.iecdfMethod X OFbt X = Fns.map T := by
    intro X T0 hT0 hX
    refine ⟨fun a => qmap1 c.ecdfMethod c.iecdfMethod X OFbt (T0 a),
      MonoR.comp (qmap1_mono_any _ _ X OFbt hOF) hT0, ?_, ?_⟩
    · intro a
      have hr := qmap1_range_any c.ecdfMethod c.iecdfMethod X OFbt hOF (T0 a)
      exact inBounds_between (hin _ (minQ_mem hOF)) (hin _ (maxQ_mem hOF)) hr.1 hr.2
    · rw [Props.C16.qmap_eq_map]
      conv_lhs => arg 2; rw [hX]
      rw [List.map_map]; rfl
  unfold adjustBetween at h
  simp only [bind, Except.bind, pure, Except.pure, hela] at h
  generalize hX : (if (c.hasThreshold && decide (Fbt.length > 0)) = true then qmapXonY c Fns Fbt else Fns) = X at h
  by_cases hnp : c.nonparametricQm = true
  · rw [if_pos hnp] at h
    injection h with h
    obtain ⟨T, h1, h2, h3⟩ := fb Fns id (fun _ _ h => h) (by simp)
    exact ⟨T, h1, h2, by rw [← h3]; exact (congrArg Prod.fst h).symm⟩
  rw [if_neg hnp] at h
  have hpre : ∃ T0 : Rat → Rat, MonoR T0 ∧ X = Fns.map T0 := by
    by_cases hp : (c.hasThreshold && decide (Fbt.length > 0)) = true
    · rw [if_pos hp] at hX
      have hne : Fbt ≠ [] := by
        intro he; rw [he] at hp; simp at hp
      exact ⟨premap1 c Fns Fbt, premap1_mono c Fns Fbt hne, by rw [← hX, qmapXonY_eq_map]⟩
    · rw [if_neg hp] at hX
      exact ⟨id, fun _ _ h => h, by rw [← hX]; simp⟩
  obtain ⟨T0, hT0, hX0⟩ := hpre
  obtain ⟨T, h1, h2, h3⟩ := fb X T0 hT0 hX0
  have done : ∀ b p, (Except.ok (qmap c.ecdfMethod c.iecdfMethod X OFbt X, b, p) : Except String _) = .ok (v, br, pre) →
      ∃ T : Rat → Rat, MonoR T ∧ (∀ a, InBounds c (T a)) ∧ v = Fns.map T := by
    intro b p h
    injection h with h
    exact ⟨T, h1, h2, by rw [← h3]; exact (congrArg Prod.fst h).symm⟩
  by_cases hF0 : Fbt.length = 0
  · rw [if_pos hF0] at h; exact done _ _ h
  rw [if_neg hF0] at h
  by_cases hfew : (decide (Fbt.length = 1) || decide (OFbt.length ≤ 1)) = true
  · rw [if_pos hfew] at h; exact done _ _ h
  rw [if_neg hfew] at h
  split at h
  · cases h
  rename_i fa hfa
  split at h
  · rename_i fitF fitOF hfF hfOF
    by_cases hks : (c.ksTest && !o.ksGood) = true
    · rw [if_pos hks] at h; exact done _ _ h
    · rw [if_neg hks] at h
      simp only [Bool.not_false, if_true] at h
      injection h with h
      have hv := (congrArg Prod.fst h).symm
      simp only [] at hv
      have hfa' : fixedArgs c = .ok (fa.1, fa.2) := hfa
      refine ⟨fun a => fam.ppf fitOF (thrCdf (fam.cdf fitF (T0 a))), ?_, ?_, ?_⟩
      · intro a b hab
        have m1 := hL.cdf_mono _ _ hfa' _ _ hfF _ _ (hT0 a b hab)
        exact hL.ppf_mono _ _ hfa' _ _ hfOF _ _ (thrCdf_range _).1 (thrCdf_mono _ _ m1) (thrCdf_range _).2
      · intro a
        exact hL.support _ _ hfa' _ _ hfOF _ (thrCdf_range _).1 (thrCdf_range _).2
      · rw [hv, hX0, List.map_map, List.map_map]; rfl
  · exact done _ _ h

/-! ### assembling: the result in sorted order is sorted -/

theorem takeIdx_argsort (F : List Rat) : takeIdx F (argsort F) = sortQ F := by
  apply List.ext_getElem
  · unfold takeIdx; rw [List.length_map, argsort_length, sortQ_length]
  · intro k h1 h2
    have hk : k < F.length := by rw [sortQ_length] at h2; exact h2
    have hka : k < (argsort F).length := by rw [argsort_length]; exact hk
    have e : (takeIdx F (argsort F))[k] = F.getD ((argsort F)[k]) 0 := by simp [takeIdx]
    rw [e, ← getDN_eq _ k hka, (argsort_spec F k hk).2, getD_eq _ k h2]

theorem sorted_three (a b : Nat) (lo hi : Rat) (mid : List Rat) (hmid : mid.Pairwise (· ≤ ·))
    (hlo : 0 < a → ∀ v ∈ mid, lo ≤ v) (hhi : 0 < b → ∀ v ∈ mid, v ≤ hi) (hlh : 0 < a → 0 < b → lo ≤ hi) :
    (List.replicate a lo ++ (mid ++ List.replicate b hi)).Pairwise (· ≤ ·) := by
  rw [List.pairwise_append, List.pairwise_append]
  refine ⟨?_, ⟨hmid, ?_, ?_⟩, ?_⟩
  · rw [List.pairwise_replicate]; right; exact le_refl _
  · rw [List.pairwise_replicate]; right; exact le_refl _
  · intro x hx y hy
    obtain ⟨hb, rfl⟩ := List.mem_replicate.mp hy
    exact hhi (Nat.pos_of_ne_zero hb) x hx
  · intro x hx y hy
    obtain ⟨ha, rfl⟩ := List.mem_replicate.mp hx
    have ha' := Nat.pos_of_ne_zero ha
    rcases List.mem_append.mp hy with hy | hy
    · exact hlo ha' y hy
    · obtain ⟨hb, rfl⟩ := List.mem_replicate.mp hy
      exact hlh ha' (Nat.pos_of_ne_zero hb)

theorem geOf_fin {v q : Rat} (h : ExtRat.geOf v (.fin q) = true) : q ≤ v := by
  simpa [ExtRat.geOf] using h
theorem leOf_fin {v q : Rat} (h : ExtRat.leOf v (.fin q) = true) : v ≤ q := by
  simpa [ExtRat.leOf] using h

theorem takeIdx_getD (m : List Rat) (idx : List Nat) (i : Nat) (hi : i < idx.length) :
    (takeIdx m idx).getD i 0 = m.getD (idx.getD i 0) 0 := by
  unfold takeIdx
  rw [getD_eq _ i (by simpa using hi), List.getElem_map, getDN_eq _ i hi]

/-- reading a sorted list through the ranks of `F` preserves the order of `F` -/
theorem orderPres_takeIdx_rankOf (F m : List Rat) (hm : m.Pairwise (· ≤ ·)) (hlen : m.length = F.length) :
    OrderPres F (takeIdx m (rankOf F)) := by
  refine ⟨by unfold takeIdx; rw [List.length_map, rankOf_length], ?_⟩
  intro i j hi hj hlt
  rw [takeIdx_getD m _ i (by rw [rankOf_length]; exact hi), takeIdx_getD m _ j (by rw [rankOf_length]; exact hj)]
  exact sorted_getD_mono hm (le_of_lt (rankOf_lt_of_lt F hi hj hlt)) (by rw [hlen]; exact rankOf_lt F j hj)

theorem step6Raw_range (c : Cfg) (Os Hs Fs : List Rat) (ho : Os ≠ []) (hh : Hs ≠ []) (hf : Fs ≠ []) :
    0 ≤ (step6Raw c Os Hs Fs).1 ∧ 0 ≤ (step6Raw c Os Hs Fs).2 := by
  have lo := List.length_pos_iff.mpr ho
  have lh := List.length_pos_iff.mpr hh
  have lf := List.length_pos_iff.mpr hf
  unfold step6Raw
  constructor
  · simp only []
    split_ifs
    · exact (Props.C11.nrToBound_range _ _ _ _ (by simpa [maskBeyondLower] using lo) (by simpa [maskBeyondLower] using lh)
        (by simpa [maskBeyondLower] using lf)).1
    · exact le_refl _
  · simp only []
    split_ifs
    · exact (Props.C11.nrToBound_range _ _ _ _ (by simpa [maskBeyondUpper] using lo) (by simpa [maskBeyondUpper] using lh)
        (by simpa [maskBeyondUpper] using lf)).1
    · exact le_refl _

/-- **ISIMIP step 6 preserves ranks.** -/
theorem step6_orderPres (c : Cfg) (fam : IsiFamily) (o : Oracles) (obs oF H F out : List Rat)
    (ho : obs ≠ []) (hh : H ≠ []) (hf : F ≠ [])
    (hela : c.eventLikelihoodAdjustment = false) (hL : IsiLaws c fam) (hc : CfgOrdered c)
    (hdata : ∀ v ∈ F, InBounds c v)
    (h : step6 c fam o obs oF H F = .ok out) : OrderPres F out := by
  unfold step6 at h
  cases hfull : step6Full c fam o obs oF H F with
  | error e => rw [hfull] at h; simp [Except.map] at h
  | ok r =>
    rw [hfull] at h
    have hout : out = r.result := by
      simp only [Except.map] at h
      injection h with h; exact h.symm
    rw [step6Full_eq, takeIdx_argsort] at hfull
    -- the counts
    have hOs : sortQ obs ≠ [] := sortQ_ne_nil ho
    have hHs : sortQ H ≠ [] := sortQ_ne_nil hh
    have hFs : sortQ F ≠ [] := sortQ_ne_nil hf
    obtain ⟨r1, r2⟩ := step6Raw_range c (sortQ obs) (sortQ H) (sortQ F) hOs hHs hFs
    obtain ⟨c1, c2, c3, _, _⟩ := Props.C11.finalCounts_valid _ _ ((sortQ F).length : Int) r1 r2 (Int.natCast_nonneg _)
    generalize (finalCounts (step6Raw c (sortQ obs) (sortQ H) (sortQ F)).1 (step6Raw c (sortQ obs) (sortQ H) (sortQ F)).2
      ((sortQ F).length : Int)).1 = nL at hfull c1 c3
    generalize (finalCounts (step6Raw c (sortQ obs) (sortQ H) (sortQ F)).1 (step6Raw c (sortQ obs) (sortQ H) (sortQ F)).2
      ((sortQ F).length : Int)).2 = nU at hfull c2 c3
    obtain ⟨a, rfl⟩ := Int.eq_ofNat_of_zero_le c1
    obtain ⟨b, rfl⟩ := Int.eq_ofNat_of_zero_le c2
    have hn' : a + b ≤ (sortQ F).length := by exact_mod_cast c3
    -- the three segments of the sorted future values
    set xs := sortQ F with hxs
    let A := xs.take a
    let B := (xs.drop a).take (xs.length - a - b)
    let C := (xs.drop a).drop (xs.length - a - b)
    have hA : A.length = a := by simp [A]; omega
    have hB : B.length = xs.length - a - b := by simp [B]
    have hC : C.length = b := by simp [C]; omega
    have hx : xs = A ++ (B ++ C) := by simp [A, B, C]
    have hsorted : (A ++ (B ++ C)).Pairwise (· ≤ ·) := by rw [← hx]; exact sortQ_sorted F
    have hBs : B.Pairwise (· ≤ ·) := (List.pairwise_append.mp (List.pairwise_append.mp hsorted).2.1).1
    have hBmem : ∀ v ∈ B, v ∈ F := fun v hv =>
      (sortQ_perm F).mem_iff.mp (by rw [← hxs, hx]; simp [hv])
    rw [hx, ← hA, ← hC] at hfull
    have hOFin : ∀ w ∈ valuesBetween c (sortQ oF), InBounds c w := fun w hw => inBounds_of_valuesBetween hc hw
    have hadj : valuesBetween c (sortQ oF) ≠ [] → ∀ v br pre, adjustBetween c fam o (valuesBetween c (sortQ obs))
        (valuesBetween c (sortQ oF)) (valuesBetween c (sortQ H)) B (valuesBetween c (A ++ (B ++ C))) = .ok (v, br, pre) →
        v.length = B.length := by
      intro hne v br pre hv
      obtain ⟨T, _, _, e⟩ := adjustBetween_spec c fam o _ _ _ _ _ v br pre hela hL hne hOFin hv
      rw [e]; simp
    obtain ⟨lo, hi, mid, hms, hres, hlo, hhi, hml, hmid⟩ :=
      step6After_shape c fam o (sortQ obs) (sortQ oF) (sortQ H) A B C F r hadj hfull
    -- the middle values: sorted and inside the bounds
    have hmidspec : mid.Pairwise (· ≤ ·) ∧ ∀ v ∈ mid, InBounds c v := by
      rcases hmid with rfl | ⟨hne, br, pre, hv⟩
      · exact ⟨hBs, fun v hv => hdata v (hBmem v hv)⟩
      · obtain ⟨T, hT, hTin, e⟩ := adjustBetween_spec c fam o _ _ _ _ _ mid br pre hela hL hne hOFin hv
        rw [e]
        refine ⟨List.Pairwise.map T (fun x y hxy => hT x y hxy) hBs, ?_⟩
        intro v hv
        obtain ⟨w, _, rfl⟩ := List.mem_map.mp hv
        exact hTin w
    have hsortedOut : r.mappedSorted.Pairwise (· ≤ ·) := by
      rw [hms]
      apply sorted_three _ _ lo hi mid hmidspec.1
      · intro ha v hv
        have := hlo (List.length_pos_iff.mp ha)
        have hb := (hmidspec.2 v hv).1
        rw [this] at hb; exact geOf_fin hb
      · intro hb v hv
        have := hhi (List.length_pos_iff.mp hb)
        have hb' := (hmidspec.2 v hv).2
        rw [this] at hb'; exact leOf_fin hb'
      · intro ha hb
        exact hc.bounds lo hi (hlo (List.length_pos_iff.mp ha)) (hhi (List.length_pos_iff.mp hb))
    have hlenOut : r.mappedSorted.length = F.length := by
      rw [hms]
      have : xs.length = F.length := sortQ_length F
      simp only [List.length_append, List.length_replicate, hml]
      omega
    rw [hout, hres]
    exact orderPres_takeIdx_rankOf F r.mappedSorted hsortedOut hlenOut

end Lemmas.C09
