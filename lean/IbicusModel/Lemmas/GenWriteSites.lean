/-
  C12 tier A: the write sites / `self.<attr> =` sites / global state regenerated from /repo's current source
  (`Gen/WriteSites.lean`) equal the hand-written tables of `Model/Purity.lean` that the theorems are stated on.
  A new, removed or changed write site breaks these equalities.
-/
import IbicusModel.Gen.WriteSites

namespace Lemmas.GenWriteSites

theorem sites : Gen.WriteSites.sites = Model.Purity.sites := by decide +kernel
theorem selfAssigns : Gen.WriteSites.selfAssigns = Model.Purity.selfAssigns := by decide +kernel
theorem globalState : Gen.WriteSites.globalState = Model.Purity.globalState := by decide +kernel
theorem callArgs : Gen.WriteSites.callArgs = Model.Purity.callArgs := by decide +kernel
theorem rngSites : Gen.WriteSites.rngSites = Model.Purity.rngSites := by decide +kernel

end Lemmas.GenWriteSites
