/-
  C10 helpers, part 3: a property of every value a per-window function returns is a property of every value the
  write-back loops (`Model/Skeleton.lean`) write — running windows, DeltaChange's loop, ISIMIP's month mode, the
  year windows of CDFt / QDM.  Polymorphic in the element type; no arithmetic.
-/
import IbicusModel.Lemmas.Skeleton
import IbicusModel.Lemmas.C10

namespace Lemmas.C10
open Model.Skeleton Model.Windows Lemmas.Skeleton

theorem forall2_mem_right {β γ} {R : β → γ → Prop} {l : List β} {rs : List γ} (h : List.Forall₂ R l rs)
    (r : γ) (hr : r ∈ rs) : ∃ b ∈ l, R b r := by
  induction h with
  | nil => simp at hr
  | cons hab _ ih =>
    rcases List.mem_cons.mp hr with rfl | hr
    · exact ⟨_, List.mem_cons_self, hab⟩
    · obtain ⟨b, hb, hR⟩ := ih hr
      exact ⟨b, List.mem_cons_of_mem _ hb, hR⟩

theorem applyWrites_forall {α} (P : α → Prop) (ws : List (Nat × α)) : ∀ (out : List (Option α)),
    (∀ v, some v ∈ out → P v) → (∀ p ∈ ws, P p.2) → ∀ v, some v ∈ applyWrites out ws → P v := by
  induction ws with
  | nil => intro out hout _ v hv; exact hout v (by simpa [applyWrites] using hv)
  | cons p t ih =>
    intro out hout hws v hv
    have hstep : applyWrites out (p :: t) = applyWrites (out.set p.1 (some p.2)) t := by simp [applyWrites]
    rw [hstep] at hv
    refine ih (out.set p.1 (some p.2)) ?_ (fun q hq => hws q (List.mem_cons_of_mem _ hq)) v hv
    intro w hw
    rcases List.mem_or_eq_of_mem_set hw with hw | hw
    · exact hout w hw
    · injection hw with hw; rw [hw]; exact hws p List.mem_cons_self

/-- every value in the result buffer of a write-back loop was written by some iteration -/
theorem runLoop_forall {α C} (P : α → Prop) (writes : C → Except String (List (Nat × α))) (cs : List C) (n : Nat)
    (out : List (Option α)) (hw : ∀ c ∈ cs, ∀ ws, writes c = .ok ws → ∀ p ∈ ws, P p.2)
    (h : runLoop writes cs n = .ok out) : ∀ v, some v ∈ out → P v := by
  obtain ⟨wss, hF, rfl⟩ := runLoop_ok _ _ _ _ h
  apply applyWrites_forall P
  · intro v hv
    rw [List.mem_replicate] at hv
    exact absurd hv.2 (by simp)
  · intro p hp
    obtain ⟨ws, hws, hpw⟩ := List.mem_flatten.mp hp
    obtain ⟨c, hc, hR⟩ := forall2_mem_right hF ws hws
    exact hw c hc ws hR p hpw

theorem maskSelect_mem {α} (x : List α) (m : List Bool) (vals : List α) (h : maskSelect x m = .ok vals) :
    ∀ v ∈ vals, v ∈ x := by
  unfold maskSelect at h
  split at h
  · injection h with h; subst h; intro v hv; exact selectWhere_mem x m hv
  · exact absurd h (by simp)

theorem pairsFor_mem {α} (idx : List Nat) (vals : List α) (ws : List (Nat × α)) (h : pairsFor idx vals = .ok ws) :
    ∀ p ∈ ws, p.2 ∈ vals := by
  unfold pairsFor at h
  split at h
  · injection h with h; subst h; intro p hp; exact (List.of_mem_zip hp).2
  · split at h
    · injection h with h; subst h
      intro p hp
      rw [List.mem_map] at hp
      obtain ⟨k, -, rfl⟩ := hp
      exact List.mem_singleton.mpr rfl
    · exact absurd h (by simp)

/-- the tail of every iteration: `res → maskSelect → pairsFor` only passes values of `res` on -/
theorem select_pairs_mem {α} (res : List α) (mask : List Bool) (idx : List Nat) (ws : List (Nat × α))
    (h : (maskSelect res mask).bind (fun vals => pairsFor idx vals) = .ok ws) : ∀ p ∈ ws, p.2 ∈ res := by
  cases hv : maskSelect res mask with
  | error e => rw [hv] at h; exact absurd h (by simp [Except.bind])
  | ok vals =>
    rw [hv] at h
    intro p hp
    exact maskSelect_mem res mask vals hv _ (pairsFor_mem idx vals ws h p hp)

/-- running-window loop (`RunningWindowDebiaser.apply_location`, ISIMIP) -/
theorem applyLocationRW_forall {α} (P : α → Prop) (f : WinFn α) (L S : Int) (dO dH dF : List Int)
    (obs hist fut : List α) (out : List (Option α))
    (hf : ∀ c ∈ useCenters S dF, ∀ r, f (take obs (idxWindow L dO c)) (take hist (idxWindow L dH c))
        (take fut (idxWindow L dF c)) (idxWindow L dO c) (idxWindow L dH c) (idxWindow L dF c) = .ok r → ∀ v ∈ r, P v)
    (h : applyLocationRW f L S dO dH dF obs hist fut = .ok out) : ∀ v, some v ∈ out → P v := by
  unfold applyLocationRW at h
  refine runLoop_forall P _ _ _ out ?_ h
  intro c hc ws hws p hp
  unfold windowWrites at hws
  simp only [bind, Except.bind] at hws
  split at hws
  · exact absurd hws (by simp)
  · rename_i r hr
    exact hf c hc r hr _ (select_pairs_mem r _ _ ws hws p hp)

/-- `DeltaChange.apply_location` (the loop runs over the days of `obs`) -/
theorem applyLocationDC_forall {α} (P : α → Prop) (f : WinFn α) (L S : Int) (dO dH dF : List Int)
    (obs hist fut : List α) (out : List (Option α))
    (hf : ∀ c ∈ useCenters S dO, ∀ r, f (take obs (idxWindow L dO c)) (take hist (idxWindow L dH c))
        (take fut (idxWindow L dF c)) (idxWindow L dO c) (idxWindow L dH c) (idxWindow L dF c) = .ok r → ∀ v ∈ r, P v)
    (h : applyLocationDC f L S dO dH dF obs hist fut = .ok out) : ∀ v, some v ∈ out → P v := by
  unfold applyLocationDC at h
  refine runLoop_forall P _ _ _ out ?_ h
  intro c hc ws hws p hp
  unfold windowWritesDC at hws
  simp only [bind, Except.bind] at hws
  split at hws
  · exact absurd hws (by simp)
  · rename_i r hr
    exact hf c hc r hr _ (select_pairs_mem r _ _ ws hws p hp)

/-- ISIMIP month mode -/
theorem applyLocationMonths_forall {α} (P : α → Prop) (f : WinFn α) (mO mH mF : List Int)
    (obs hist fut : List α) (out : List (Option α))
    (hf : ∀ m ∈ Py.arange1 1 13, ∀ r,
        f (take obs (Py.whereTrue (mO.map (fun x => decide (x = m))))) (take hist (Py.whereTrue (mH.map (fun x => decide (x = m)))))
          (take fut (Py.whereTrue (mF.map (fun x => decide (x = m))))) (Py.whereTrue (mO.map (fun x => decide (x = m))))
          (Py.whereTrue (mH.map (fun x => decide (x = m)))) (Py.whereTrue (mF.map (fun x => decide (x = m)))) = .ok r →
        ∀ v ∈ r, P v)
    (h : applyLocationMonths f mO mH mF obs hist fut = .ok out) : ∀ v, some v ∈ out → P v := by
  unfold applyLocationMonths at h
  refine runLoop_forall P _ _ _ out ?_ h
  intro m hm ws hws p hp
  unfold monthWrites at hws
  simp only [bind, Except.bind] at hws
  split at hws
  · exact absurd hws (by simp)
  · rename_i r hr
    exact hf m hm r hr _ (pairsFor_mem _ r ws hws p hp)

/-- the year-window loop of CDFt / QDM, with a per-window function that may depend on the window centre -/
theorem yearLoop_forall {α} (P : α → Prop) (g : Int → YearFn α) (L S : Int) (years : List Int) (fut : List α)
    (out : List (Option α))
    (hg : ∀ c ∈ yearCenters S years, ∀ r,
        g c (Py.selectWhere fut (yearMask years (yearsInWindow L c))) (Py.whereTrue (yearMask years (yearsInWindow L c))) = .ok r →
        ∀ v ∈ r, P v)
    (h : runLoop (fun c => yearWrites (g c) L S years fut c) (yearCenters S years) fut.length = .ok out) :
    ∀ v, some v ∈ out → P v := by
  refine runLoop_forall P _ _ _ out ?_ h
  intro c hc ws hws p hp
  unfold yearWrites at hws
  simp only [bind, Except.bind] at hws
  split at hws
  · exact absurd hws (by simp)
  · rename_i r hr
    exact hg c hc r hr _ (select_pairs_mem r _ _ ws hws p hp)

theorem applyYears_forall {α} (P : α → Prop) (g : YearFn α) (L S : Int) (years : List Int) (fut : List α)
    (out : List (Option α))
    (hg : ∀ c ∈ yearCenters S years, ∀ r,
        g (Py.selectWhere fut (yearMask years (yearsInWindow L c))) (Py.whereTrue (yearMask years (yearsInWindow L c))) = .ok r →
        ∀ v ∈ r, P v)
    (h : applyYears g L S years fut = .ok out) : ∀ v, some v ∈ out → P v :=
  yearLoop_forall P (fun _ => g) L S years fut out hg h

end Lemmas.C10
