/-
  Tier A proof obligations for ISIMIP step 6 and the per-window pipeline (C10 / C11 / C15 / C09): the definitions
  regenerated from /repo's current `ibicus/debias/_isimip.py` by `translator/extract_isimip_step6.py`
  (`Gen.IsimipStep6`, a symbolic reading of the function bodies) equal the hand-written model (`Model.Isimip`).
  The generated definitions are applied positionally and compared up to renaming of bound variables, so renaming a
  local of the Python code keeps every proof; a change of a condition, of what is fitted on what with which fixed
  arguments, of what a path returns, of a mask, of the order of the steps breaks one.
-/
import IbicusModel.Model.Isimip
import IbicusModel.Gen.IsimipStep6
import IbicusModel.Lemmas.GenIsimipFreq
import IbicusModel.Lemmas.GenIsimipSteps
import Mathlib.Tactic.Linarith

set_option linter.unusedSimpArgs false
set_option linter.unusedVariables false

namespace Lemmas.GenIsimipStep6
open Model.Isimip Model.Stats

/-! ### `_step6_adjust_values_between_thresholds` -/

/-- the model's single Kolmogorov–Smirnov oracle (`both _step6_fit_good_enough calls`) from a per-call oracle
    `ks data fit` (= `_step6_fit_good_enough(data, self.distribution, fit)`) -/
def ksBoth (c : Cfg) (fam : IsiFamily) (ks : List Rat → Rat × Rat → Bool) (OFbt Fbt : List Rat) : Bool :=
  match fixedArgs c with
  | .ok (fl, fs) =>
    match fam.fit Fbt fl fs, fam.fit OFbt fl fs with
    | some a, some b => ks Fbt a && ks OFbt b
    | _, _ => true
  | .error _ => true

theorem adjust_eq (c : Cfg) (fam : IsiFamily) (o : Oracles) (ks : List Rat → Rat × Rat → Bool) (rice weib : Bool)
    (hb hlb hub : Bool) (lBound uBound : ExtRat) (hrw : c.riceOrWeibull = (rice || weib))
    (Obt OFbt Hbt Fns Fbt : List Rat) :
    Gen.IsimipStep6.adjust_values_between_thresholds (qmap c.ecdfMethod c.iecdfMethod) (qmapXonY c) fam.fit fam.cdf fam.ppf
        rice weib ks thrCdf interpOnLength o.logit o.expit o.log10
        c.nonparametricQm c.hasThreshold c.hasLowerThreshold c.hasUpperThreshold hb hlb hub c.ksTest c.eventLikelihoodAdjustment
        c.lowerThreshold c.upperThreshold lBound uBound Obt OFbt Hbt Fns Fbt
      = (adjustBetween c fam { o with ksGood := ksBoth c fam ks OFbt Fbt } Obt OFbt Hbt Fns Fbt).map (·.1) := by
  unfold Gen.IsimipStep6.adjust_values_between_thresholds adjustBetween
  by_cases hnp : c.nonparametricQm = true
  · simp [hnp, Except.map]
  · simp only [hnp, if_false, Bool.false_eq_true]
    by_cases h0 : Fbt.length = 0
    · simp [h0, Except.map]
    · by_cases h1 : (Fbt.length = 1 ∨ OFbt.length ≤ 1)
      · simp [h0, h1, Except.map]
      · simp only [h0, h1, decide_false, Bool.false_eq_true, if_false, Bool.or_false, decide_eq_true_eq, Bool.or_eq_true]
        generalize (if (c.hasThreshold && decide (Fbt.length > 0)) = true then qmapXonY c Fns Fbt else Fns) = Fns'
        cases hl : c.lowerThreshold <;> cases hu : c.upperThreshold <;>
          simp only [Cfg.hasLowerThreshold, Cfg.hasUpperThreshold, ksBoth, fixedArgs, hl, hu, ExtRat.gtNegInf, ExtRat.ltPosInf,
            ExtRat.toRat, hrw, Except.bind, Except.map, bind, pure, Except.pure, Bool.false_eq_true, if_false, if_true, Bool.and_true,
            Bool.and_false, Bool.and_self, Bool.or_eq_true]
        all_goals (by_cases hr : (rice = true ∨ weib = true) <;> simp only [hr, if_true, if_false, Functor.map, Except.map])
        all_goals (
          generalize fam.fit Fbt _ _ = f1
          generalize fam.fit OFbt _ _ = f2
          cases f1 <;> cases f2 <;> try rfl
          rename_i fF fOF
          by_cases hk : c.ksTest = true <;> by_cases hg : (ks Fbt fF && ks OFbt fOF) = true <;>
            by_cases he : c.eventLikelihoodAdjustment = true <;>
            simp only [hk, hg, he, Bool.not_true, Bool.not_false, Bool.and_true, Bool.and_false, Bool.true_and, Bool.false_and,
              Bool.false_eq_true, if_true, if_false, List.map_map, Function.comp_def, Bool.not_eq_true] <;>
            first
              | rfl
              | (cases hH : fam.fit Hbt none none <;> cases hO : fam.fit Obt none none <;>
                  simp [elaProbabilities, List.map_map, List.map_zipWith, Function.comp_def]))

/-- **No thresholds ⇒ unbounded treatment** (C15: "an ISIMIP debiaser built without bounds treats the variable as
    unbounded" rests on how the `has_*` flags are used here): with `lower_threshold = -inf`, `upper_threshold = +inf` the
    regenerated function does not pre-map `cm_future` onto its values between thresholds and fits location **and** scale
    freely (`floc = fscale = None`) on both samples; written out for the plain parametric path (no KS test, no event
    likelihood adjustment, at least two values in both samples). -/
theorem adjust_unbounded (c : Cfg) (fam : IsiFamily) (o : Oracles) (ks : List Rat → Rat × Rat → Bool) (rice weib : Bool)
    (hb hlb hub : Bool) (lBound uBound : ExtRat) (hrw : c.riceOrWeibull = (rice || weib))
    (hl : c.lowerThreshold = .negInf) (hu : c.upperThreshold = .posInf)
    (hnp : c.nonparametricQm = false) (hks : c.ksTest = false) (hela : c.eventLikelihoodAdjustment = false)
    (Obt OFbt Hbt Fns Fbt : List Rat) (h2 : 2 ≤ Fbt.length) (h2' : 2 ≤ OFbt.length) :
    Gen.IsimipStep6.adjust_values_between_thresholds (qmap c.ecdfMethod c.iecdfMethod) (qmapXonY c) fam.fit fam.cdf fam.ppf
        rice weib ks thrCdf interpOnLength o.logit o.expit o.log10
        c.nonparametricQm c.hasThreshold c.hasLowerThreshold c.hasUpperThreshold hb hlb hub c.ksTest c.eventLikelihoodAdjustment
        c.lowerThreshold c.upperThreshold lBound uBound Obt OFbt Hbt Fns Fbt
      = .ok (match fam.fit Fbt none none, fam.fit OFbt none none with
             | some fF, some fOF => Fns.map (fun v => fam.ppf fOF (thrCdf (fam.cdf fF v)))
             | _, _ => qmap c.ecdfMethod c.iecdfMethod Fns OFbt Fns) := by
  rw [adjust_eq c fam o ks rice weib hb hlb hub lBound uBound hrw]
  unfold adjustBetween fixedArgs
  have e0 : ¬ Fbt.length = 0 := by omega
  have e1 : ¬ (Fbt.length = 1 ∨ OFbt.length ≤ 1) := by omega
  simp only [hnp, hks, hela, hl, hu, Cfg.hasThreshold, Cfg.hasLowerThreshold, Cfg.hasUpperThreshold, ExtRat.gtNegInf, ExtRat.ltPosInf,
    e0, e1, Bool.false_eq_true, if_false, Bool.or_self, Bool.false_and, Bool.and_false, Bool.not_false, if_true, ite_self,
    bind, Except.bind, pure, Except.pure, Except.map, decide_false, Bool.or_false, decide_eq_true_eq, Bool.or_eq_true]
  cases fam.fit Fbt none none <;> cases fam.fit OFbt none none <;> simp [List.map_map, Function.comp_def]

/-- the half-open case of the seeded regression: a lower threshold only (precipitation-like) fixes the location and
    leaves the scale free (labelled witness, `decide` on a concrete configuration) -/
example : fixedArgs { trendMethod := .additive, nonparametricQm := false, detrending := false, lowerThreshold := .fin 0 }
    = .ok (some 0, none) := by decide +kernel

/-! ### `step6` -/

theorem notMask_eq : ∀ (ml mu : List Bool),
    List.zipWith (fun a b => a && b) (ml.map (fun a => !a)) (mu.map (fun a => !a)) = Model.IsimipFreq.notMask ml mu := by
  intro ml mu
  unfold Model.IsimipFreq.notMask
  rw [List.zipWith_map]

/-- the argsort of an index array, as the model writes it (`rankOf`) -/
def argsortIdx (i : List Nat) : List Nat := argsort (i.map (fun (k : Nat) => (k : Rat)))

theorem finalCounts_eq (nl nu n : Int) (hn : 0 ≤ n) :
    (if decide (nl + nu > n) = true then
        ((Gen.IsimipFreq.scale_nr_of_entries_to_set_to_bounds nl nu n).1, (Gen.IsimipFreq.scale_nr_of_entries_to_set_to_bounds nl nu n).2)
      else (nl, nu)) = Model.IsimipFreq.finalCounts nl nu n := by
  unfold Model.IsimipFreq.finalCounts
  by_cases h : nl + nu > n
  · have hp : 0 < nl + nu := by omega
    simp [h, Lemmas.GenIsimipFreq.scale_nr_of_entries_to_set_to_bounds nl nu n hp]
  · simp [h]

/-- **`step6` (regenerated) = `Model.Isimip.step6`** for every configuration, family and oracle: sorting, the counts
    through the regenerated kernels, the two bound masks, `mask_for_entries_not_set_to_either_bound`, which arrays go
    into `_step6_adjust_values_between_thresholds` in which order, the "left unadjusted" path, the write-back by the
    reverse sorting index.  `adj` is whatever stands for `_step6_adjust_values_between_thresholds`; it only has to agree
    with the model on the arguments `step6` passes (`adjust_eq` provides that for the regenerated one). -/
theorem step6_eq (c : Cfg) (fam : IsiFamily) (o : Oracles)
    (adj : List Rat → List Rat → List Rat → List Rat → List Rat → Except String (List Rat)) (obs obsFut H F : List Rat)
    (hadj : ∀ d, adj (valuesBetween c (sortQ obs)) (valuesBetween c (sortQ obsFut)) (valuesBetween c (sortQ H)) d
                (valuesBetween c (takeIdx F (argsort F)))
              = (adjustBetween c fam o (valuesBetween c (sortQ obs)) (valuesBetween c (sortQ obsFut)) (valuesBetween c (sortQ H)) d
                  (valuesBetween c (takeIdx F (argsort F)))).map (·.1)) :
    Gen.IsimipStep6.step6 argsort argsortIdx sortQ (maskBeyondLower c) (maskBeyondUpper c) (maskBetween c) (valuesBetween c) adj
        c.hasLowerThreshold c.hasUpperThreshold c.hasThreshold c.hasBound c.hasLowerBound c.hasUpperBound c.biasCorrectFrequencies
        c.lowerBound c.upperBound c.lowerThreshold c.upperThreshold obs obsFut H F
      = step6 c fam o obs obsFut H F := by
  unfold Gen.IsimipStep6.step6 step6 step6Full
  simp only [Lemmas.GenIsimipFreq.get_nr_of_entries_to_set_to_bound, Lemmas.GenIsimipSteps.get_mask_for_entries_to_set_to_lower_bound_eq,
    Lemmas.GenIsimipSteps.get_mask_for_entries_to_set_to_upper_bound_eq, notMask_eq,
    finalCounts_eq _ _ _ (Int.natCast_nonneg _)]
  generalize Model.IsimipFreq.finalCounts _ _ _ = p
  have hrank : argsortIdx (argsort F) = rankOf F := rfl
  cases hs1 : setBound (takeIdx F (argsort F)) (Model.IsimipFreq.lowerMask p.1 (takeIdx F (argsort F)).length) c.lowerBound with
  | error e => rfl
  | ok m1 =>
    cases hs2 : setBound m1 (Model.IsimipFreq.upperMask p.2 (takeIdx F (argsort F)).length) c.upperBound with
    | error e => simp [hs2, Except.bind, Except.map, bind]
    | ok m2 =>
      simp only [hs2, Except.bind, Except.map, bind, pure, Except.pure, hrank, hadj, gt_iff_lt, decide_eq_true_eq]
      by_cases ha : (Model.IsimipFreq.notMask (Model.IsimipFreq.lowerMask p.1 (takeIdx F (argsort F)).length)
          (Model.IsimipFreq.upperMask p.2 (takeIdx F (argsort F)).length)).any id = true
      · by_cases hv : 0 < (valuesBetween c (sortQ obsFut)).length
        · simp only [ha, hv, if_true]
          cases adjustBetween c fam o (valuesBetween c (sortQ obs)) (valuesBetween c (sortQ obsFut)) (valuesBetween c (sortQ H))
            (Py.selectWhere m2 (Model.IsimipFreq.notMask (Model.IsimipFreq.lowerMask p.1 (takeIdx F (argsort F)).length)
              (Model.IsimipFreq.upperMask p.2 (takeIdx F (argsort F)).length))) (valuesBetween c (takeIdx F (argsort F))) <;> rfl
        · simp only [ha, hv, if_true, if_false]
      · simp only [ha, if_false, Bool.false_eq_true]

/-- `_get_values_between_thresholds` (regenerated) = `valuesBetween`: `x[mask between thresholds]` -/
theorem get_values_between_thresholds_eq (c : Cfg) (x : List Rat) :
    Gen.IsimipStep6.get_values_between_thresholds (maskBetween c) x = valuesBetween c x := rfl

/-- the threshold masks of the model (extended-real thresholds) are the regenerated kernels at a finite threshold -/
theorem maskBeyondLower_fin (c : Cfg) (t : Rat) (h : c.lowerThreshold = .fin t) :
    maskBeyondLower c = Gen.IsimipFreq.get_mask_for_values_beyond_lower_threshold t := by
  funext x
  simp [maskBeyondLower, Gen.IsimipFreq.get_mask_for_values_beyond_lower_threshold, h, ExtRat.leOf]

theorem maskBeyondUpper_fin (c : Cfg) (t : Rat) (h : c.upperThreshold = .fin t) :
    maskBeyondUpper c = Gen.IsimipFreq.get_mask_for_values_beyond_upper_threshold t := by
  funext x
  simp [maskBeyondUpper, Gen.IsimipFreq.get_mask_for_values_beyond_upper_threshold, h, ExtRat.geOf]

theorem maskBetween_fin (c : Cfg) (tl tu : Rat) (hl : c.lowerThreshold = .fin tl) (hu : c.upperThreshold = .fin tu) :
    maskBetween c = Gen.IsimipFreq.get_mask_for_values_between_thresholds tl tu := by
  funext x
  rw [Lemmas.GenIsimipFreq.get_mask_for_values_between_thresholds]
  simp [maskBetween, Model.IsimipFreq.maskMiddle, hl, hu, ExtRat.gtOf, ExtRat.ltOf]

/-- the oracle record the regenerated step 6 denotes: the single KS decision of the model is the conjunction of the two
    `_step6_fit_good_enough` calls on the samples `step6` passes -/
def withKs (c : Cfg) (fam : IsiFamily) (o : Oracles) (ks : List Rat → Rat × Rat → Bool) (obsFut F : List Rat) : Oracles :=
  { o with ksGood := ksBoth c fam ks (valuesBetween c (sortQ obsFut)) (valuesBetween c (takeIdx F (argsort F))) }

/-- **`step6` with the regenerated `_step6_adjust_values_between_thresholds` inside = `Model.Isimip.step6`** -/
theorem step6_adjust_eq (c : Cfg) (fam : IsiFamily) (o : Oracles) (ks : List Rat → Rat × Rat → Bool) (rice weib : Bool)
    (hrw : c.riceOrWeibull = (rice || weib)) (obs obsFut H F : List Rat) :
    Gen.IsimipStep6.step6 argsort argsortIdx sortQ (maskBeyondLower c) (maskBeyondUpper c) (maskBetween c)
        (Gen.IsimipStep6.get_values_between_thresholds (maskBetween c))
        (Gen.IsimipStep6.adjust_values_between_thresholds (qmap c.ecdfMethod c.iecdfMethod) (qmapXonY c) fam.fit fam.cdf fam.ppf
          rice weib ks thrCdf interpOnLength o.logit o.expit o.log10
          c.nonparametricQm c.hasThreshold c.hasLowerThreshold c.hasUpperThreshold c.hasBound c.hasLowerBound c.hasUpperBound
          c.ksTest c.eventLikelihoodAdjustment c.lowerThreshold c.upperThreshold c.lowerBound c.upperBound)
        c.hasLowerThreshold c.hasUpperThreshold c.hasThreshold c.hasBound c.hasLowerBound c.hasUpperBound c.biasCorrectFrequencies
        c.lowerBound c.upperBound c.lowerThreshold c.upperThreshold obs obsFut H F
      = step6 c fam (withKs c fam o ks obsFut F) obs obsFut H F := by
  have hv : Gen.IsimipStep6.get_values_between_thresholds (maskBetween c) = valuesBetween c := rfl
  rw [hv]
  apply step6_eq
  intro d
  exact adjust_eq c fam o ks rice weib _ _ _ _ _ hrw _ _ _ _ _

/-! ### The wrappers `step2` … `step5` and `_apply_on_window` -/

/-- `step2`: nothing happens unless `impute_missing_values` -/
theorem step2_off (imp : Nat → List Rat → Except String (List Rat)) (a b d : List Rat) :
    Gen.IsimipStep6.step2 imp false a b d = .ok (a, b, d) := rfl

/-- `step2` with imputation: `obs_hist`, `cm_hist`, `cm_future` in this order, each through `_step2_impute_values` -/
theorem step2_on (imp : Nat → List Rat → Except String (List Rat)) (a b d : List Rat) :
    Gen.IsimipStep6.step2 imp true a b d
      = (imp 0 a).bind (fun x => (imp 1 b).bind (fun y => (imp 2 d).bind (fun z => .ok (x, y, z)))) := by
  unfold Gen.IsimipStep6.step2
  cases imp 0 a <;> cases imp 1 b <;> cases imp 2 d <;> rfl

/-- `step3` (regenerated) = `Model.Isimip.step3`: the three series are detrended with their own years, in the order
    obs / cm_hist / cm_future (the significance decision is an oracle per call site), only the trend of `cm_future` is
    kept, and it is `zeros_like(cm_future)` when `detrending` is off -/
theorem step3_eq (c : Cfg) (o : Oracles) (sig : Nat → Bool) (obs H F : List Rat) (yO yH yF : List Int) :
    Gen.IsimipStep6.step3 (fun k x y => step3RemoveTrend c (sig k) x y) c.detrending obs H F yO yH yF
      = .ok (step3 c { o with sigO := sig 0, sigH := sig 1, sigF := sig 2 } obs H F yO yH yF) := by
  unfold Gen.IsimipStep6.step3 step3
  cases c.detrending <;> rfl

/-- `step4` (regenerated) = `Model.Isimip.step4`: lower side under `has_lower_bound and has_lower_threshold`, then the upper
    side under `has_upper_bound and has_upper_threshold`, each on obs / cm_hist / cm_future in this order (the draws are
    an oracle per call site) -/
theorem step4_eq (c : Cfg) (dl du : Nat → List Rat) (hb ht : Bool) (obs H F : List Rat) :
    Gen.IsimipStep6.step4 (fun k x => step4RandomizeLower c x (dl k)) (fun k x => step4RandomizeUpper c x (du k))
        c.hasLowerBound c.hasLowerThreshold c.hasUpperBound c.hasUpperThreshold hb ht obs H F
      = step4 c { lowO := dl 0, lowH := dl 1, lowF := dl 2, upO := du 0, upH := du 1, upF := du 2 } obs H F := by
  unfold Gen.IsimipStep6.step4 step4
  cases (c.hasLowerBound && c.hasLowerThreshold) <;> cases (c.hasUpperBound && c.hasUpperThreshold) <;>
    simp only [Bool.false_eq_true, if_false, if_true, bind, Except.bind, pure, Except.pure]
  · cases step4RandomizeUpper c obs (du 0) with
    | error e => rfl
    | ok a => cases step4RandomizeUpper c H (du 1) with
      | error e => rfl
      | ok b => cases step4RandomizeUpper c F (du 2) <;> rfl
  · cases step4RandomizeLower c obs (dl 0) with
    | error e => rfl
    | ok a => cases step4RandomizeLower c H (dl 1) with
      | error e => rfl
      | ok b => cases step4RandomizeLower c F (dl 2) <;> rfl
  · cases step4RandomizeLower c obs (dl 0) with
    | error e => rfl
    | ok a => cases step4RandomizeLower c H (dl 1) with
      | error e => rfl
      | ok b => cases step4RandomizeLower c F (dl 2) with
        | error e => rfl
        | ok d =>
          simp only []
          cases step4RandomizeUpper c a (du 0) with
          | error e => rfl
          | ok a' => cases step4RandomizeUpper c b (du 1) with
            | error e => rfl
            | ok b' => cases step4RandomizeUpper c d (du 2) <;> rfl

/-- `step5` (regenerated) = `Model.Isimip.step5`: with `trend_transfer_only_for_values_within_threshold` the trend is
    transferred on the values between the thresholds only (obs values through their mask, cm_hist / cm_future values
    between thresholds, in this order) and only when all three are non-empty, else `obs_hist` is returned unchanged -/
theorem step5_eq (c : Cfg) (o : Oracles) (obs H F : List Rat) :
    Gen.IsimipStep6.step5 (maskBetween c) (valuesBetween c) (step5TransferTrend c o) c.trendTransferOnlyWithinThreshold obs H F
      = step5 c o obs H F := by
  unfold Gen.IsimipStep6.step5 step5
  cases c.trendTransferOnlyWithinThreshold
  · simp only [Bool.false_eq_true, if_false]
    cases step5TransferTrend c o obs H F <;> rfl
  · simp only [if_true]
    by_cases h : ((maskBetween c obs).any id && decide ((valuesBetween c H).length > 0) && decide ((valuesBetween c F).length > 0)) = true
    · simp only [h, if_true]
      cases step5TransferTrend c o (Py.selectWhere obs (maskBetween c obs)) (valuesBetween c H) (valuesBetween c F) <;> rfl
    · simp only [h, if_false]
      rfl

/-- **`_apply_on_window` (regenerated) = `Model.Isimip.applyOnWindow`**: steps 2, 3, 4, 5, 6, 7 in this order; step 5 sees
    the step-4 outputs; step 6 gets `(obs_hist, obs_future, cm_hist, cm_future)`; the trend removed from `cm_future` in
    step 3 is what step 7 adds back to the step-6 result.  (Step 2 is the identity on finite data — `step2_off`.) -/
theorem apply_on_window_eq (c : Cfg) (fam : IsiFamily) (o : Oracles) (d : Draws) (obs H F : List Rat) (yO yH yF : List Int) :
    Gen.IsimipStep6.apply_on_window (fun a b e => .ok (a, b, e)) (fun a b e y1 y2 y3 => .ok (step3 c o a b e y1 y2 y3))
        (step4 c d) (step5 c o) (step6 c fam o) (step7 c) obs H F yO yH yF
      = applyOnWindow c fam o d obs H F yO yH yF := by
  unfold Gen.IsimipStep6.apply_on_window applyOnWindow
  simp only [Except.bind, bind, pure, Except.pure]

end Lemmas.GenIsimipStep6
