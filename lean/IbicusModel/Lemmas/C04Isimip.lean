/-
  C04 helper lemmas: ISIMIP's per-window pipeline (`Model/Isimip.lean`, steps 3–7) under a change of unit
  `x ↦ a·x + b`, `a > 0`, for an unbounded variable (bounds / thresholds `∓∞`) with the additive trend transfer.
  The property theorems are in `Props/C04.lean`.
-/
import IbicusModel.Lemmas.C04Debiasers
import IbicusModel.Lemmas.IsimipModel

namespace Lemmas.C04
open Model.Stats Model.Family Model.Isimip Lemmas.Stats Lemmas.StatsAffine Lemmas.Family Lemmas.IsimipModel

/-- the settings of an unbounded variable (`tas`, `psl`, `rlds`): no finite bound, no finite threshold -/
structure Unbounded (c : Cfg) : Prop where
  lowerBound : c.lowerBound = .negInf
  lowerThreshold : c.lowerThreshold = .negInf
  upperBound : c.upperBound = .posInf
  upperThreshold : c.upperThreshold = .posInf

theorem Unbounded.flags {c : Cfg} (u : Unbounded c) :
    c.hasLowerBound = false ∧ c.hasLowerThreshold = false ∧ c.hasUpperBound = false ∧ c.hasUpperThreshold = false := by
  simp [Cfg.hasUpperBound, Cfg.hasLowerBound, Cfg.hasUpperThreshold, Cfg.hasLowerThreshold, u.lowerBound,
    u.lowerThreshold, u.upperBound, u.upperThreshold, ExtRat.gtNegInf, ExtRat.ltPosInf]

/-- scaling without offset (trends, anomalies) -/
def scl (a : Rat) (xs : List Rat) : List Rat := xs.map (fun x => a * x)

/-! ### step 3 / step 7: the removed trend scales by `a`, the slope is modelled exactly -/

theorem mem_uniqueYears {y : Int} {years : List Int} (h : y ∈ uniqueYears years) : y ∈ years := by
  unfold uniqueYears at h
  exact List.mem_mergeSort.mp (List.mem_eraseDups.mp h)

theorem selectWhere_year_ne_nil : ∀ (x : List Rat) (years : List Int) (y : Int), x.length = years.length → y ∈ years →
    Py.selectWhere x (years.map (fun t => decide (t = y))) ≠ []
  | [], [], _, _, h => by simp at h
  | [], _ :: _, _, hl, _ => by simp at hl
  | _ :: _, [], _, hl, _ => by simp at hl
  | v :: x, t :: years, y, hl, h => by
    unfold Py.selectWhere
    simp only [List.map_cons, List.zip_cons_cons, List.filterMap_cons]
    by_cases hty : t = y
    · simp [hty]
    · simp only [hty, decide_false]
      have hy : y ∈ years := by
        rcases List.mem_cons.mp h with h | h
        · exact absurd h.symm hty
        · exact h
      have := selectWhere_year_ne_nil x years y (by simpa using hl) hy
      unfold Py.selectWhere at this
      simpa using this

/-- the yearly means carry the unit (guard: one year per value) -/
theorem yearlyMeans_affine (a b : Rat) (x : List Rat) (years : List Int) (hl : x.length = years.length) :
    yearlyMeans (affine a b x) years = affine a b (yearlyMeans x years) := by
  unfold yearlyMeans
  conv_rhs => unfold affine
  rw [List.map_map]
  apply List.map_congr_left
  intro y hy
  simp only [Function.comp]
  have hne := selectWhere_year_ne_nil x years y hl (mem_uniqueYears hy)
  rw [show affine a b x = x.map (fun x => a * x + b) from rfl, Lemmas.Lift.selectWhere_map]
  exact mean_map_affine a b hne

/-- **`linregress(...).slope` scales by `a`** (the slope is a rational function of the data: modelled exactly) -/
theorem linSlope_affine (a b : Rat) (xs ys : List Rat) : linSlope xs (affine a b ys) = a * linSlope xs ys := by
  unfold linSlope
  simp only
  by_cases hy : ys = []
  · subst hy; simp [affine]
  · rw [mean_map_affine a b hy]
    have hdy : (affine a b ys).map (fun x => x - (a * mean ys + b)) = (ys.map (fun x => x - mean ys)).map (fun d => a * d) := by
      unfold affine
      rw [List.map_map, List.map_map]
      apply List.map_congr_left
      intro v _
      simp only [Function.comp]
      ring
    rw [hdy, List.zipWith_map_right]
    have : List.zipWith (fun x y => x * (a * y)) (xs.map (fun x => x - mean xs)) (ys.map (fun x => x - mean ys))
        = (List.zipWith (fun x y => x * y) (xs.map (fun x => x - mean xs)) (ys.map (fun x => x - mean ys))).map (fun s => a * s) := by
      rw [List.map_zipWith]
      congr 1
      funext p q
      ring
    rw [this, sum_map_mul, mul_div_assoc]

theorem annualTrend_affine (c : Cfg) (sig : Bool) (a b : Rat) (x : List Rat) (years : List Int)
    (hl : x.length = years.length) :
    annualTrend c sig (affine a b x) years = scl a (annualTrend c sig x years) := by
  unfold annualTrend scl
  simp only
  split_ifs
  · rw [yearlyMeans_affine a b x years hl, linSlope_affine]
    simp only [List.map_map]
    apply List.map_congr_left
    intro y _
    simp only [Function.comp]
    ring
  · simp only [List.map_map]
    apply List.map_congr_left
    intro y _
    simp

theorem getD_scl (a : Rat) (l : List Rat) (i : Nat) : (scl a l).getD i 0 = a * l.getD i 0 := by
  unfold scl
  by_cases h : i < l.length
  · exact getD_map _ l i h
  · have h1 : (List.map (fun x => a * x) l)[i]? = none := by
      rw [List.getElem?_eq_none]; rw [List.length_map]; omega
    have h2 : l[i]? = none := by rw [List.getElem?_eq_none]; omega
    simp [List.getD, h1, h2]

theorem dailyTrend_affine (c : Cfg) (sig : Bool) (a b : Rat) (x : List Rat) (years : List Int)
    (hl : x.length = years.length) :
    dailyTrend c sig (affine a b x) years = scl a (dailyTrend c sig x years) := by
  unfold dailyTrend
  simp only
  rw [annualTrend_affine c sig a b x years hl]
  conv_rhs => unfold scl
  unfold affine
  rw [List.zipWith_map_left, List.map_zipWith]
  congr 1
  funext _ y
  exact getD_scl a _ _

theorem step3RemoveTrend_affine (c : Cfg) (sig : Bool) (a b : Rat) (x : List Rat) (years : List Int)
    (hl : x.length = years.length) :
    step3RemoveTrend c sig (affine a b x) years
      = (affine a b (step3RemoveTrend c sig x years).1, scl a (step3RemoveTrend c sig x years).2) := by
  unfold step3RemoveTrend
  simp only
  rw [dailyTrend_affine c sig a b x years hl]
  congr 1
  unfold affine scl
  rw [List.zipWith_map, List.map_zipWith]
  congr 1
  funext p q
  ring

/-- step 3 as a whole: the three detrended samples carry the unit, the trend of `cm_future` scales by `a` -/
theorem step3_affine (c : Cfg) (o : Oracles) (a b : Rat) (obs H F : List Rat) (yO yH yF : List Int)
    (hlen : c.detrending = true → obs.length = yO.length ∧ H.length = yH.length ∧ F.length = yF.length) :
    step3 c o (affine a b obs) (affine a b H) (affine a b F) yO yH yF
      = (affine a b (step3 c o obs H F yO yH yF).1, affine a b (step3 c o obs H F yO yH yF).2.1,
         affine a b (step3 c o obs H F yO yH yF).2.2.1, scl a (step3 c o obs H F yO yH yF).2.2.2) := by
  unfold step3
  split_ifs with hd
  · obtain ⟨hO, hH, hF⟩ := hlen hd
    simp only [step3RemoveTrend_affine c _ a b _ _ hO, step3RemoveTrend_affine c _ a b _ _ hH,
      step3RemoveTrend_affine c _ a b _ _ hF]
  · simp only [scl, affine, List.map_map]
    congr 3
    apply List.map_congr_left
    intro _ _
    simp

/-- step 7 adds the (scaled) trend back -/
theorem step7_affine (c : Cfg) (a b : Rat) (r tr : List Rat) :
    step7 c (affine a b r) (scl a tr) = affine a b (step7 c r tr) := by
  unfold step7
  split_ifs
  · unfold affine scl
    rw [List.zipWith_map, List.map_zipWith]
    congr 1
    funext p q
    ring
  · rfl

/-! ### step 5: additive trend transfer -/

theorem fillWhere_map {α} (g : α → α) : ∀ (x : List α) (m : List Bool) (v : List α),
    Model.IsimipFreq.fillWhere (x.map g) m (v.map g) = (Model.IsimipFreq.fillWhere x m v).map g
  | [], _, _ => by simp [Model.IsimipFreq.fillWhere]
  | x :: xs, [], _ => by simp [Model.IsimipFreq.fillWhere]
  | x :: xs, false :: ms, vs => by
    simp only [List.map_cons, Model.IsimipFreq.fillWhere]
    rw [← List.map_cons, fillWhere_map g xs ms vs]; simp
  | x :: xs, true :: ms, [] => by
    simp only [List.map_cons, List.map_nil, Model.IsimipFreq.fillWhere]
    have := fillWhere_map g xs ms []
    simp only [List.map_nil] at this
    rw [this]
  | _ :: xs, true :: ms, v :: vs => by
    simp only [List.map_cons, Model.IsimipFreq.fillWhere]
    rw [fillWhere_map g xs ms vs]

theorem fillWhere_length {α} : ∀ (x : List α) (m : List Bool) (v : List α),
    (Model.IsimipFreq.fillWhere x m v).length = x.length
  | [], _, _ => by simp [Model.IsimipFreq.fillWhere]
  | x :: xs, [], _ => by simp [Model.IsimipFreq.fillWhere]
  | x :: xs, false :: ms, vs => by simp [Model.IsimipFreq.fillWhere, fillWhere_length xs ms vs]
  | x :: xs, true :: ms, [] => by simp [Model.IsimipFreq.fillWhere, fillWhere_length xs ms []]
  | _ :: xs, true :: ms, v :: vs => by simp [Model.IsimipFreq.fillWhere, fillWhere_length xs ms vs]

theorem step5TransferTrend_affine (c : Cfg) (htm : c.trendMethod = .additive) (o : Oracles) {a : Rat} (ha : 0 < a)
    (b : Rat) (obs H F : List Rat) :
    step5TransferTrend c o (affine a b obs) (affine a b H) (affine a b F)
      = (step5TransferTrend c o obs H F).map (affine a b) := by
  unfold step5TransferTrend
  simp only [affine_length]
  split_ifs with hlen
  · rfl
  · have hH : H ≠ [] := by
      intro h; apply hlen; simp [h]
    have hF : F ≠ [] := by
      intro h; apply hlen; simp [h]
    simp only [htm, Except.map]
    congr 1
    rw [ecdf_map_affine ha, iecdf_map_affine ha b _ hF _ (ecdf_le_one _ _ _),
      iecdf_map_affine ha b _ hH _ (ecdf_le_one _ _ _)]
    unfold affine
    rw [List.zip_map, List.zip_map, List.map_map, List.map_map]
    apply List.map_congr_left
    intro t _
    simp only [Function.comp, Prod.map]
    ring

theorem maskBetween_affine {c : Cfg} (u : Unbounded c) (a b : Rat) (x : List Rat) :
    maskBetween c (affine a b x) = maskBetween c x := by
  rw [maskBetween_of_infinite c u.lowerThreshold u.upperThreshold,
    maskBetween_of_infinite c u.lowerThreshold u.upperThreshold]
  unfold affine
  rw [List.map_map]
  rfl

theorem valuesBetween_unbounded {c : Cfg} (u : Unbounded c) (x : List Rat) : valuesBetween c x = x :=
  valuesBetween_of_infinite c u.lowerThreshold u.upperThreshold x

theorem step5_affine {c : Cfg} (u : Unbounded c) (htm : c.trendMethod = .additive) (o : Oracles) {a : Rat} (ha : 0 < a)
    (b : Rat) (obs H F : List Rat) :
    step5 c o (affine a b obs) (affine a b H) (affine a b F) = (step5 c o obs H F).map (affine a b) := by
  unfold step5
  split_ifs with htt
  · simp only [maskBetween_affine u, valuesBetween_unbounded u, affine_length]
    split_ifs
    · rw [show Py.selectWhere (affine a b obs) (maskBetween c obs) = affine a b (Py.selectWhere obs (maskBetween c obs)) from
        Lemmas.Lift.selectWhere_map _ _ _, step5TransferTrend_affine c htm o ha b]
      cases step5TransferTrend c o (Py.selectWhere obs (maskBetween c obs)) H F with
      | error e => rfl
      | ok t =>
        simp only [Except.map, bind, Except.bind, pure, Except.pure]
        congr 1
        exact fillWhere_map _ obs _ t
    · rfl
  · exact step5TransferTrend_affine c htm o ha b obs H F

/-! ### step 6: quantile mapping (no entry goes to a bound: there is none) -/

/-- the fitted parameters carry the unit: `(a·loc + b, a·scale)` -/
def pairAff (a b : Rat) (p : Rat × Rat) : Rat × Rat := (a * p.1 + b, a * p.2)

section step6
variable {F : LocScaleFam} (L : LocScaleLaws F) (scaleAt : Rat → List Rat → Rat)
include L

/-- step 6's fit without fixed arguments (`floc`, `fscale` absent: there is no threshold) is equivariant, and it
    fails on the transformed sample exactly when it fails on the original one -/
theorem ofLocScale_fit_affine {a : Rat} (ha : 0 < a) (b : Rat) (d : List Rat) :
    (IsiFamily.ofLocScale F scaleAt).fit (affine a b d) none none
      = ((IsiFamily.ofLocScale F scaleAt).fit d none none).map (pairAff a b) := by
  unfold IsiFamily.ofLocScale
  simp only [affine_length]
  split_ifs with hlen h1 h2 h2
  · rfl
  · rfl
  · exfalso
    have hd : d ≠ [] := fun h => hlen (by simp [h])
    rw [L.scale_affine a b d ha hd] at h1
    rcases mul_eq_zero.mp h1 with h | h
    · exact absurd h (ne_of_gt ha)
    · exact h2 h
  · exfalso
    have hd : d ≠ [] := fun h => hlen (by simp [h])
    rw [L.scale_affine a b d ha hd, h2, mul_zero] at h1
    exact h1 rfl
  · have hd : d ≠ [] := fun h => hlen (by simp [h])
    simp only [Option.map, pairAff]
    rw [L.scale_affine a b d ha hd, L.loc_affine a b d ha hd]

omit L in
theorem fixedArgs_unbounded {c : Cfg} (u : Unbounded c) : fixedArgs c = .ok (none, none) := by
  obtain ⟨_, h2, _, h4⟩ := u.flags
  unfold fixedArgs
  simp [h2, h4, bind, Except.bind, pure, Except.pure]

omit L in
theorem hasThreshold_unbounded {c : Cfg} (u : Unbounded c) : c.hasThreshold = false := by
  obtain ⟨_, h2, _, h4⟩ := u.flags
  simp [Cfg.hasThreshold, h2, h4]

omit L in
theorem cdfmap_pairAff {a : Rat} (ha : 0 < a) (b : Rat) (p : Rat × Rat) (xs : List Rat) :
    (affine a b xs).map (fun v => thrCdf ((IsiFamily.ofLocScale F scaleAt).cdf (pairAff a b p) v))
      = xs.map (fun v => thrCdf ((IsiFamily.ofLocScale F scaleAt).cdf p v)) := by
  apply affine_map_inv
  intro v _
  simp only [IsiFamily.ofLocScale, pairAff]
  rw [Lemmas.Family.cdf_affine a b p ha v]

omit L in
theorem ppfmap_pairAff (a b : Rat) (p : Rat × Rat) (qs : List Rat) :
    qs.map ((IsiFamily.ofLocScale F scaleAt).ppf (pairAff a b p))
      = affine a b (qs.map ((IsiFamily.ofLocScale F scaleAt).ppf p)) := by
  unfold affine
  rw [List.map_map]
  apply List.map_congr_left
  intro q _
  simp only [IsiFamily.ofLocScale, pairAff, Function.comp]
  exact Lemmas.Family.ppf_affine a b p q

/-- the mapped values carry the unit; branch and pre-mapping flag are unchanged -/
def outAff (a b : Rat) (r : List Rat × Branch × Bool) : List Rat × Branch × Bool := (affine a b r.1, r.2)

theorem adjustBetween_affine {c : Cfg} (u : Unbounded c) (o : Oracles) {a : Rat} (ha : 0 < a) (b : Rat)
    (Obt OFbt Hbt Fns Fbt : List Rat) (hOF : OFbt ≠ []) :
    adjustBetween c (IsiFamily.ofLocScale F scaleAt) o (affine a b Obt) (affine a b OFbt) (affine a b Hbt)
        (affine a b Fns) (affine a b Fbt)
      = (adjustBetween c (IsiFamily.ofLocScale F scaleAt) o Obt OFbt Hbt Fns Fbt).map (outAff a b) := by
  have hfb : qmap c.ecdfMethod c.iecdfMethod (affine a b Fns) (affine a b OFbt) (affine a b Fns)
      = affine a b (qmap c.ecdfMethod c.iecdfMethod Fns OFbt Fns) := qmap_map_affine ha b _ _ _ hOF _
  unfold adjustBetween
  simp only [hasThreshold_unbounded u, Bool.false_and, Bool.false_eq_true, if_false, affine_length,
    fixedArgs_unbounded u, hfb, bind, Except.bind]
  split_ifs
  all_goals first | rfl | skip
  all_goals (
    rw [ofLocScale_fit_affine L scaleAt ha b Fbt, ofLocScale_fit_affine L scaleAt ha b OFbt]
    try rw [ofLocScale_fit_affine L scaleAt ha b Hbt, ofLocScale_fit_affine L scaleAt ha b Obt])
  · cases (IsiFamily.ofLocScale F scaleAt).fit Fbt none none with
    | none => cases (IsiFamily.ofLocScale F scaleAt).fit OFbt none none <;> rfl
    | some fitF => cases (IsiFamily.ofLocScale F scaleAt).fit OFbt none none <;> rfl
  · cases (IsiFamily.ofLocScale F scaleAt).fit Fbt none none with
    | none => cases (IsiFamily.ofLocScale F scaleAt).fit OFbt none none <;> rfl
    | some fitF =>
      cases (IsiFamily.ofLocScale F scaleAt).fit OFbt none none with
      | none => rfl
      | some fitOF =>
        simp only [Option.map, pure, Except.pure, Except.map, outAff]
        rw [cdfmap_pairAff scaleAt ha b fitF Fns, ppfmap_pairAff scaleAt a b fitOF]
  · cases (IsiFamily.ofLocScale F scaleAt).fit Fbt none none with
    | none => cases (IsiFamily.ofLocScale F scaleAt).fit OFbt none none <;> rfl
    | some fitF =>
      cases (IsiFamily.ofLocScale F scaleAt).fit OFbt none none with
      | none => rfl
      | some fitOF =>
        cases (IsiFamily.ofLocScale F scaleAt).fit Hbt none none with
        | none => cases (IsiFamily.ofLocScale F scaleAt).fit Obt none none <;> rfl
        | some fitH =>
          cases (IsiFamily.ofLocScale F scaleAt).fit Obt none none with
          | none => rfl
          | some fitO =>
            simp only [Option.map, pure, Except.pure, Except.map, outAff]
            rw [cdfmap_pairAff scaleAt ha b fitF Fns, cdfmap_pairAff scaleAt ha b fitO Obt,
              cdfmap_pairAff scaleAt ha b fitH Hbt, ppfmap_pairAff scaleAt a b fitOF]

omit L in
theorem setBound_inf_affine (a b : Rat) (xs : List Rat) (m : List Bool) (bd : ExtRat)
    (hb : bd = .negInf ∨ bd = .posInf) : setBound (affine a b xs) m bd = (setBound xs m bd).map (affine a b) := by
  unfold setBound
  split_ifs
  · rcases hb with rfl | rfl <;> rfl
  · rfl

omit L in
theorem setBound_inf_ok {xs ys : List Rat} {m : List Bool} {bd : ExtRat} (hb : bd = .negInf ∨ bd = .posInf)
    (h : setBound xs m bd = .ok ys) : ys = xs := by
  unfold setBound at h
  split_ifs at h
  · rcases hb with rfl | rfl <;> simp [ExtRat.toRat, Except.map] at h
  · exact (Except.ok.inj h).symm

omit L in
theorem sorted_future_affine {a : Rat} (ha : 0 < a) (b : Rat) (X : List Rat) :
    takeIdx (affine a b X) (argsort (affine a b X)) = affine a b (takeIdx X (argsort X)) := by
  rw [argsort_map_affine ha b]
  exact takeIdx_map _ X _ (argsort_valid X)

theorem step6_affine {c : Cfg} (u : Unbounded c) (o : Oracles) {a : Rat} (ha : 0 < a) (b : Rat)
    (obs obsFut H X : List Rat) :
    step6 c (IsiFamily.ofLocScale F scaleAt) o (affine a b obs) (affine a b obsFut) (affine a b H) (affine a b X)
      = (step6 c (IsiFamily.ofLocScale F scaleAt) o obs obsFut H X).map (affine a b) := by
  obtain ⟨h1, h2, h3, h4⟩ := u.flags
  unfold step6 step6Full
  simp only [h2, h4, Bool.false_eq_true, if_false, sorted_future_affine ha b, sortQ_map_affine ha b, affine_length,
    valuesBetween_unbounded u, rankOf_map_affine ha b]
  generalize hFs : takeIdx X (argsort X) = Fs
  have hFsl : Fs.length = X.length := by rw [← hFs]; simp [takeIdx, argsort_length]
  generalize Model.IsimipFreq.finalCounts 0 0 ↑Fs.length = cnt
  generalize Model.IsimipFreq.lowerMask cnt.1 Fs.length = mL
  generalize Model.IsimipFreq.upperMask cnt.2 Fs.length = mU
  generalize Model.IsimipFreq.notMask mL mU = mN
  rw [setBound_inf_affine a b Fs mL _ (Or.inl u.lowerBound)]
  cases hs1 : setBound Fs mL c.lowerBound with
  | error e => rfl
  | ok m1 =>
    have e1 := setBound_inf_ok (Or.inl u.lowerBound) hs1
    subst e1
    simp only [Except.map, bind, Except.bind]
    rw [setBound_inf_affine a b m1 mU _ (Or.inr u.upperBound)]
    cases hs2 : setBound m1 mU c.upperBound with
    | error e => rfl
    | ok m2 =>
      have e2 := setBound_inf_ok (Or.inr u.upperBound) hs2
      subst e2
      simp only [Except.map, pure, Except.pure]
      have hval : ∀ (l : List Rat), l.length = m2.length → takeIdx (affine a b l) (rankOf X) = affine a b (takeIdx l (rankOf X)) := by
        intro l hl
        apply takeIdx_map
        intro i hi
        rw [hl, hFsl]
        exact rankOf_valid X i hi
      split_ifs with hany hlen
      · have hOF : sortQ obsFut ≠ [] := by
          intro h; rw [h] at hlen; simp at hlen
        rw [show Py.selectWhere (affine a b m2) mN = affine a b (Py.selectWhere m2 mN) from
          Lemmas.Lift.selectWhere_map _ _ _, adjustBetween_affine L scaleAt u o ha b _ _ _ _ _ hOF]
        cases adjustBetween c (IsiFamily.ofLocScale F scaleAt) o (sortQ obs) (sortQ obsFut) (sortQ H)
            (Py.selectWhere m2 mN) m2 with
        | error e => rfl
        | ok r =>
          simp only [Except.map, outAff]
          rw [show Model.IsimipFreq.fillWhere (affine a b m2) mN (affine a b r.1)
              = affine a b (Model.IsimipFreq.fillWhere m2 mN r.1) from fillWhere_map _ _ _ _]
          rw [hval _ (fillWhere_length _ _ _)]
      · simp only [hval m2 rfl]
      · simp only [hval m2 rfl]

/-- **`_apply_on_window` (steps 3–7) of an unbounded variable with the additive trend transfer is equivariant.**
    Oracles (`linregress` significance decisions, KS decision, ELA tables) are the same on both sides: they are
    functions of unit-free quantities (trusted base).  Guard: with detrending, one year per value. -/
theorem applyOnWindow_affine {c : Cfg} (u : Unbounded c) (htm : c.trendMethod = .additive) (o : Oracles) (d : Draws)
    {a : Rat} (ha : 0 < a) (b : Rat) (obs H X : List Rat) (yO yH yF : List Int)
    (hlen : c.detrending = true → obs.length = yO.length ∧ H.length = yH.length ∧ X.length = yF.length) :
    applyOnWindow c (IsiFamily.ofLocScale F scaleAt) o d (affine a b obs) (affine a b H) (affine a b X) yO yH yF
      = (applyOnWindow c (IsiFamily.ofLocScale F scaleAt) o d obs H X yO yH yF).map (affine a b) := by
  obtain ⟨h1, h2, h3, h4⟩ := u.flags
  rw [applyOnWindow_eq, applyOnWindow_eq, step3_affine c o a b obs H X yO yH yF hlen]
  simp only
  rw [step4_of_no_bound_threshold_pair c d (by simp [h1]) (by simp [h3]),
    step4_of_no_bound_threshold_pair c d (by simp [h1]) (by simp [h3])]
  simp only [Except.bind]
  rw [step5_affine u htm o ha b]
  cases step5 c o (step3 c o obs H X yO yH yF).1 (step3 c o obs H X yO yH yF).2.1 (step3 c o obs H X yO yH yF).2.2.1 with
  | error e => rfl
  | ok oF =>
    simp only [Except.map]
    rw [step6_affine L scaleAt u o ha b]
    cases step6 c (IsiFamily.ofLocScale F scaleAt) o (step3 c o obs H X yO yH yF).1 oF (step3 c o obs H X yO yH yF).2.1
        (step3 c o obs H X yO yH yF).2.2.1 with
    | error e => rfl
    | ok r =>
      simp only [Except.map]
      rw [step7_affine]

end step6

end Lemmas.C04
