/-
  Helper lemmas for the numeric toolkit, part 5: pointwise forms of the quantile maps, ISIMIP's rank
  interpolation, and the equal-size reproduction law for the six exact (ecdf, iecdf) pairs.
-/
import IbicusModel.Lemmas.StatsIecdf
import IbicusModel.Lemmas.StatsEcdf
import IbicusModel.Lemmas.StatsRank

namespace Lemmas.Stats
open Model.Stats

/-! ### pointwise forms (tied to the list functions of `Model.Stats` by `Props.C16.*_eq_map`) -/

/-- `quantile_map_non_parametically` at one value -/
def qmap1 (em : EcdfMethod) (im : IecdfMethod) (x y : List Rat) (v : Rat) : Rat := iecdf1 im y (ecdf1 em x v)

/-- `quantile_map_non_parametically_with_constant_extrapolation` at one value -/
def qmapExtrap1 (em : EcdfMethod) (im : IecdfMethod) (x y : List Rat) (v : Rat) : Rat :=
  if v > maxQ x then v + (maxQ y - maxQ x) else if v < minQ x then v + (minQ y - minQ x) else qmap1 em im x y v

/-- `scipy.stats.rankdata` (average rank, 1-based) of the value `v` within `x` -/
def rk (x : List Rat) (v : Rat) : Rat :=
  let less := (x.filter (fun w => decide (w < v))).length
  let eq := (x.filter (fun w => decide (w = v))).length
  ((less : Nat) : Rat) + (((eq : Nat) : Rat) + 1) / 2

/-- `_isimip_quantile_map_x_on_y_non_parametically` at one value of `x` -/
def qmapIsimip1 (x y : List Rat) (v : Rat) : Rat :=
  interp1 (linspace 0 1 y.length) (sortQ y) ((rk x v - 1) / (x.length : Rat))

/-- 0-based rank of `v` within `x`: the number of sample values below `v` -/
def rankLt (x : List Rat) (v : Rat) : Nat := (x.filter (fun w => decide (w < v))).length

/-- the (ecdf, iecdf) pairs for which mapping a tie-free sample onto an equally sized target reproduces the
    target's order statistics exactly (in exact arithmetic) -/
def exactPairs : List (EcdfMethod × IecdfMethod) :=
  [(.step, .inverted_cdf), (.step, .closest_observation), (.step, .interpolated_inverted_cdf),
   (.linear, .inverted_cdf), (.linear, .averaged_inverted_cdf), (.linear, .linear)]

/-- the other twelve pairs -/
def otherPairs : List (EcdfMethod × IecdfMethod) :=
  [(.step, .averaged_inverted_cdf), (.step, .hazen), (.step, .weibull), (.step, .linear),
   (.step, .median_unbiased), (.step, .normal_unbiased),
   (.linear, .closest_observation), (.linear, .interpolated_inverted_cdf), (.linear, .hazen),
   (.linear, .weibull), (.linear, .median_unbiased), (.linear, .normal_unbiased)]

/-! ### counting -/

theorem count_le_split (x : List Rat) (v : Rat) :
    (x.filter (fun w => decide (w ≤ v))).length =
      (x.filter (fun w => decide (w < v))).length + (x.filter (fun w => decide (w = v))).length := by
  induction x with
  | nil => simp
  | cons a t ih =>
    simp only [List.filter_cons]
    rcases lt_trichotomy a v with h | h | h
    · have h1 : a ≤ v := le_of_lt h
      have h2 : a ≠ v := ne_of_lt h
      simp only [h, h1, h2, decide_true, decide_false, if_true, List.length_cons]
      simp only [Bool.false_eq_true, if_false]
      omega
    · subst h
      simp only [le_refl, lt_irrefl, decide_true, decide_false, if_true, List.length_cons]
      simp only [Bool.false_eq_true, if_false]
      omega
    · have h1 : ¬ a ≤ v := not_le.mpr h
      have h2 : ¬ a < v := not_lt.mpr (le_of_lt h)
      have h3 : a ≠ v := ne_of_gt h
      simp only [h1, h2, h3, decide_false, Bool.false_eq_true, if_false]
      exact ih

theorem count_eq_of_nodup {x : List Rat} (hx : x.Nodup) {v : Rat} (hv : v ∈ x) :
    (x.filter (fun w => decide (w = v))).length = 1 := by
  induction x with
  | nil => simp at hv
  | cons a t ih =>
    rw [List.nodup_cons] at hx
    simp only [List.filter_cons]
    by_cases h : a = v
    · subst h
      have : t.filter (fun w => decide (w = a)) = [] := by
        rw [List.filter_eq_nil_iff]
        intro w hw; simp only [decide_eq_true_eq]
        intro hwa; subst hwa; exact hx.1 hw
      simp [this]
    · have hv' : v ∈ t := by
        rcases List.mem_cons.mp hv with h' | h'
        · exact absurd h'.symm h
        · exact h'
      simp only [h, decide_false, Bool.false_eq_true, if_false]
      exact ih hx.2 hv'

/-- for a tie-free sample the number of values `≤ v` is the 0-based rank plus one -/
theorem count_le_nodup {x : List Rat} (hx : x.Nodup) {v : Rat} (hv : v ∈ x) :
    (x.filter (fun w => decide (w ≤ v))).length = rankLt x v + 1 := by
  rw [count_le_split, count_eq_of_nodup hx hv]; rfl

theorem rankLt_lt {x : List Rat} (hx : x.Nodup) {v : Rat} (hv : v ∈ x) : rankLt x v + 1 ≤ x.length := by
  rw [← count_le_nodup hx hv]; exact List.length_filter_le _ _

/-! ### ISIMIP's rank interpolation -/

theorem rk_mono (x : List Rat) {v w : Rat} (h : v ≤ w) : rk x v ≤ rk x w := by
  rcases eq_or_lt_of_le h with he | hl
  · rw [he]
  · have hsub : (x.filter (fun a => decide (a ≤ v))).Sublist (x.filter (fun a => decide (a < w))) := by
      apply List.monotone_filter_right
      intro a ha
      simp only [decide_eq_true_eq] at *
      exact lt_of_le_of_lt ha hl
    have hlen := hsub.length_le
    rw [count_le_split] at hlen
    have hlen' : (((x.filter (fun a => decide (a < v))).length : Nat) : Rat)
        + (((x.filter (fun a => decide (a = v))).length : Nat) : Rat)
        ≤ (((x.filter (fun a => decide (a < w))).length : Nat) : Rat) := by exact_mod_cast hlen
    have h1 : (0 : Rat) ≤ (((x.filter (fun a => decide (a = v))).length : Nat) : Rat) := by positivity
    have h2 : (0 : Rat) ≤ (((x.filter (fun a => decide (a = w))).length : Nat) : Rat) := by positivity
    unfold rk
    simp only []
    linarith

theorem isimip_grid (y : List Rat) (hy : y ≠ []) :
    (sortQ y).Pairwise (· ≤ ·) ∧ (sortQ y).length = (linspace 0 1 y.length).length ∧ linspace 0 1 y.length ≠ [] := by
  refine ⟨sortQ_sorted y, by rw [sortQ_length, linspace_length], ?_⟩
  intro h
  have := linspace_length 0 1 y.length
  rw [h] at this
  exact hy (List.length_eq_zero_iff.mp this.symm)

theorem qmapIsimip1_range (x y : List Rat) (hy : y ≠ []) (v : Rat) :
    minQ y ≤ qmapIsimip1 x y v ∧ qmapIsimip1 x y v ≤ maxQ y := by
  obtain ⟨h1, h2, h3⟩ := isimip_grid y hy
  have := interp1_range h1 h2 h3 ((rk x v - 1) / (x.length : Rat))
  rw [sortQ_head y hy, sortQ_length, sortQ_last y hy] at this
  exact this

theorem qmapIsimip1_mono (x y : List Rat) (hy : y ≠ []) {v w : Rat} (h : v ≤ w) :
    qmapIsimip1 x y v ≤ qmapIsimip1 x y w := by
  obtain ⟨h1, h2, h3⟩ := isimip_grid y hy
  apply interp1_mono h1 h2 h3
  apply div_le_div_of_nonneg_right _ (by positivity)
  have := rk_mono x h
  linarith

/-! ### the linear-interpolation ecdf at sample points -/

theorem cnt_sortQ (x : List Rat) (v : Rat) :
    cnt (sortQ x) v = (x.filter (fun w => decide (w ≤ v))).length := by
  rw [cnt_eq_filter (sortQ_sorted x)]
  exact ((sortQ_perm x).filter _).length_eq

/-- in a sorted list, the last of the elements `≤ v` is `v` itself when `v` occurs in the list -/
theorem sorted_at_cnt {s : List Rat} (hs : s.Pairwise (· ≤ ·)) {v : Rat} (hv : v ∈ s) {r : Nat}
    (hc : cnt s v = r + 1) : s.getD r 0 = v := by
  have hle := cnt_le_length s v
  have h1 : s.getD r 0 ≤ v := cnt_below s v r (by omega)
  obtain ⟨k, hk, hkv⟩ := List.mem_iff_getElem.mp hv
  rw [← getD_eq s k hk] at hkv
  apply le_antisymm h1
  by_cases hkr : k ≤ r
  · rw [← hkv]; exact sorted_getD_mono hs hkr (by omega)
  · exfalso
    have hlt : cnt s v < s.length := by omega
    have h2 := cnt_above s v hlt
    rw [hc] at h2
    have h3 : s.getD (r + 1) 0 ≤ s.getD k 0 := sorted_getD_mono hs (by omega) hk
    linarith

/-- `ecdf(x, v, "linear_interpolation") = (#{w ≤ v} − 1)/(n − 1)` at a sample value `v` -/
theorem ecdfLin_at_sample {x : List Rat} (hn : 2 ≤ x.length) {v : Rat} (hv : v ∈ x) {r : Nat}
    (hc : (x.filter (fun w => decide (w ≤ v))).length = r + 1) :
    ecdfLin1 x v = (r : Rat) / ((x.length : Rat) - 1) := by
  have hx : x ≠ [] := by intro h; rw [h] at hn; simp at hn
  have hcs : cnt (sortQ x) v = r + 1 := by rw [cnt_sortQ, hc]
  have hrn : r + 1 ≤ x.length := by rw [← hc]; exact List.length_filter_le _ _
  have hsv : (sortQ x).getD r 0 = v :=
    sorted_at_cnt (sortQ_sorted x) ((sortQ_perm x).mem_iff.mpr hv) hcs
  unfold ecdfLin1
  by_cases hlt : r + 1 < x.length
  · rw [interp1_interior hcs (by rw [sortQ_length]; exact hlt), hsv]
    simp only [sub_self, zero_div]
    rw [lerp_zero, linspace01_getD hn (by omega)]
  · have hr : r + 1 = x.length := by omega
    rw [interp1_top' (by rw [hcs, sortQ_length, hr]) (sortQ_ne_nil hx), linspace_length, linspace01_last hn]
    have hn' : (2 : Rat) ≤ (x.length : Rat) := by exact_mod_cast hn
    have : (r : Rat) = (x.length : Rat) - 1 := by
      have : ((r + 1 : Nat) : Rat) = (x.length : Rat) := by exact_mod_cast hr
      push_cast at this; linarith
    rw [this, div_self (by linarith)]

theorem ecdfLin_at_unique_min (x : List Rat) (hn : 2 ≤ x.length)
    (huniq : (x.filter (fun v => decide (v ≤ minQ x))).length = 1) : ecdfLin1 x (minQ x) = 0 := by
  have hx : x ≠ [] := by intro h; rw [h] at hn; simp at hn
  rw [ecdfLin_at_sample hn (minQ_mem hx) (r := 0) (by simpa using huniq)]
  simp

theorem ecdfStep_at_sample (x : List Rat) (v : Rat) {r : Nat}
    (hc : (x.filter (fun w => decide (w ≤ v))).length = r + 1) :
    ecdfStep1 x v = ((r : Rat) + 1) / (x.length : Rat) := by
  unfold ecdfStep1; rw [hc]; push_cast; rfl

/-! ### the six exact index computations on a sorted target of size `n ≥ 2`, rank `r ≤ n − 1` -/

theorem clampLerp_nat {s : List Rat} {r : Nat} (hr : r + 1 ≤ s.length) : clampLerp s (r : Rat) = s.getD r 0 := by
  by_cases h1 : (r : Rat) ≥ (s.length : Rat) - 1
  · rw [clampLerp_top h1]
    have : (s.length : Rat) ≤ ((r + 1 : Nat) : Rat) := by push_cast; linarith
    have : s.length ≤ r + 1 := by exact_mod_cast this
    have : s.length - 1 = r := by omega
    rw [this]
  · have h0 : ¬ (r : Rat) < 0 := by push Not; positivity
    have hk : (r : Rat).floor = (r : Int) := Rat.floor_intCast r
    rw [clampLerp_interior h0 h1 hk]
    simp [lerp]

theorem exact_step_inverted {s : List Rat} {r : Nat} (hr : r + 1 ≤ s.length) :
    iecdfInverted s (((r : Rat) + 1) / (s.length : Rat)) = s.getD r 0 := by
  have hn : (0 : Rat) < (s.length : Rat) := by
    have : 0 < s.length := by omega
    exact_mod_cast this
  have hr' : (r : Rat) + 1 ≤ (s.length : Rat) := by exact_mod_cast hr
  unfold iecdfInverted
  have : (((s.length : Rat) - 1) * (((r : Rat) + 1) / (s.length : Rat))).floor = (r : Int) := by
    rw [floor_eq_iff]
    have e : ((s.length : Rat) - 1) * (((r : Rat) + 1) / (s.length : Rat))
        = ((r : Rat) + 1) - ((r : Rat) + 1) / (s.length : Rat) := by
      field_simp
    rw [e]
    have h1 : ((r : Rat) + 1) / (s.length : Rat) ≤ 1 := by rw [div_le_one hn]; exact hr'
    have h2 : 0 < ((r : Rat) + 1) / (s.length : Rat) := div_pos (by positivity) hn
    push_cast
    constructor <;> linarith
  rw [this, pyIdx_nat]

theorem exact_step_closest {s : List Rat} {r : Nat} (hr : r + 1 ≤ s.length) :
    quantileClosest s (((r : Rat) + 1) / (s.length : Rat)) = s.getD r 0 := by
  have hn : (s.length : Rat) ≠ 0 := by
    have : 0 < s.length := by omega
    positivity
  rw [quantileClosest_eq]
  have e : (s.length : Rat) * (((r : Rat) + 1) / (s.length : Rat)) - 3 / 2 = (r : Rat) - 1 / 2 := by
    field_simp; ring
  rw [e]
  have hf : ((r : Rat) - 1 / 2).floor = (r : Int) - 1 := by
    rw [floor_eq_iff]; push_cast; constructor <;> linarith
  have hfr : ¬ ((r : Rat) - 1 / 2 - (((r : Int) - 1 : Int) : Rat) = 0) := by
    push_cast; intro h; linarith
  have : closestIdx ((r : Rat) - 1 / 2) = (r : Int) := by
    unfold closestIdx discreteIdx
    rw [hf]
    simp only [hfr, false_and, decide_false, Bool.false_eq_true, if_false]
    split_ifs <;> omega
  rw [this, pyIdx_nat]

theorem exact_step_interpolated {s : List Rat} {r : Nat} (hr : r + 1 ≤ s.length) :
    quantileAB 0 1 s (((r : Rat) + 1) / (s.length : Rat)) = s.getD r 0 := by
  have hn : (s.length : Rat) ≠ 0 := by
    have : 0 < s.length := by omega
    positivity
  rw [quantileAB_eq]
  have e : (s.length : Rat) * (((r : Rat) + 1) / (s.length : Rat))
      + (0 + ((r : Rat) + 1) / (s.length : Rat) * (1 - 0 - 1)) - 1 = (r : Rat) := by
    field_simp; ring
  rw [e]; exact clampLerp_nat hr

theorem exact_linear_inverted {s : List Rat} (hn : 2 ≤ s.length) {r : Nat} (_hr : r + 1 ≤ s.length) :
    iecdfInverted s ((r : Rat) / ((s.length : Rat) - 1)) = s.getD r 0 := by
  have hn' : (2 : Rat) ≤ (s.length : Rat) := by exact_mod_cast hn
  have hd : (s.length : Rat) - 1 ≠ 0 := by intro h; linarith
  unfold iecdfInverted
  have e : ((s.length : Rat) - 1) * ((r : Rat) / ((s.length : Rat) - 1)) = (r : Rat) := by
    field_simp
  have hk : (r : Rat).floor = (r : Int) := Rat.floor_intCast r
  rw [e, hk, pyIdx_nat]

theorem exact_linear_linear {s : List Rat} (hn : 2 ≤ s.length) {r : Nat} (hr : r + 1 ≤ s.length) :
    quantileLinear s ((r : Rat) / ((s.length : Rat) - 1)) = s.getD r 0 := by
  have hn' : (2 : Rat) ≤ (s.length : Rat) := by exact_mod_cast hn
  have hd : (s.length : Rat) - 1 ≠ 0 := by intro h; linarith
  rw [quantileLinear_eq]
  have e : ((s.length : Rat) - 1) * ((r : Rat) / ((s.length : Rat) - 1)) = (r : Rat) := by
    field_simp
  rw [e]; exact clampLerp_nat hr

theorem exact_linear_averaged {s : List Rat} (hn : 2 ≤ s.length) {r : Nat} (hr : r + 1 ≤ s.length) :
    quantileAveraged s ((r : Rat) / ((s.length : Rat) - 1)) = s.getD r 0 := by
  have hn' : (2 : Rat) ≤ (s.length : Rat) := by exact_mod_cast hn
  have hd : (0 : Rat) < (s.length : Rat) - 1 := by linarith
  have hr' : (r : Rat) + 1 ≤ (s.length : Rat) := by exact_mod_cast hr
  rw [quantileAveraged_eq']
  have e : (s.length : Rat) * ((r : Rat) / ((s.length : Rat) - 1)) - 1
      = ((r : Rat) - 1) + (r : Rat) / ((s.length : Rat) - 1) := by
    field_simp; ring
  rw [e]
  have hq0 : 0 ≤ (r : Rat) / ((s.length : Rat) - 1) := div_nonneg (by positivity) (le_of_lt hd)
  have hq1 : (r : Rat) / ((s.length : Rat) - 1) ≤ 1 := by rw [div_le_one hd]; linarith
  rcases Nat.eq_zero_or_pos r with h0 | hpos
  · subst h0
    have hz : ((0 : Nat) : Rat) - 1 + ((0 : Nat) : Rat) / ((s.length : Rat) - 1) = -1 := by simp
    rw [hz]
    unfold avgAt
    have h1 : ¬ ((-1 : Rat) ≥ (s.length : Rat) - 1) := by intro h; linarith
    have h2 : (-1 : Rat) < 0 := by norm_num
    rw [if_neg h1, if_pos h2, pyIdx_zero]
  by_cases htop : r + 1 = s.length
  · have : (r : Rat) = (s.length : Rat) - 1 := by
      have : ((r + 1 : Nat) : Rat) = (s.length : Rat) := by exact_mod_cast htop
      push_cast at this; linarith
    unfold avgAt
    have h1 : (r : Rat) - 1 + (r : Rat) / ((s.length : Rat) - 1) ≥ (s.length : Rat) - 1 := by
      rw [this, div_self (ne_of_gt hd)]; linarith
    rw [if_pos h1, pyIdx_neg_one]
    have : s.length - 1 = r := by omega
    rw [this]
  · have hrlt : (r : Rat) + 1 < (s.length : Rat) := by
      have : r + 1 < s.length := by omega
      exact_mod_cast this
    have hq1' : (r : Rat) / ((s.length : Rat) - 1) < 1 := by rw [div_lt_one hd]; linarith
    have hq0' : 0 < (r : Rat) / ((s.length : Rat) - 1) := div_pos (by exact_mod_cast hpos) hd
    have hr1 : (1 : Rat) ≤ (r : Rat) := by exact_mod_cast hpos
    have h0 : ¬ ((r : Rat) - 1 + (r : Rat) / ((s.length : Rat) - 1) < 0) := by push Not; linarith
    have h1 : ¬ ((r : Rat) - 1 + (r : Rat) / ((s.length : Rat) - 1) ≥ (s.length : Rat) - 1) := by
      push Not; linarith
    have hk : ((r : Rat) - 1 + (r : Rat) / ((s.length : Rat) - 1)).floor = ((r - 1 : Nat) : Int) := by
      rw [floor_eq_iff, Nat.cast_sub hpos]; push_cast; constructor <;> linarith
    rw [avgAt_interior h0 h1 hk]
    have hg : avgGamma ((r : Rat) - 1 + (r : Rat) / ((s.length : Rat) - 1) - ((r - 1 : Nat) : Rat)) = 1 := by
      unfold avgGamma
      rw [if_neg]
      rw [Nat.cast_sub hpos]; push_cast
      intro h; linarith
    rw [hg]
    have : r - 1 + 1 = r := by omega
    rw [this]
    unfold lerp; ring

/-! ### equal sizes -/

theorem qmap_equal_sizes_all (p : EcdfMethod × IecdfMethod) (hp : p ∈ exactPairs) (x y : List Rat)
    (hlen : x.length = y.length) (hn : 2 ≤ x.length) (hx : x.Nodup) {v : Rat} (hv : v ∈ x) :
    qmap1 p.1 p.2 x y v = (sortQ y).getD (rankLt x v) 0 := by
  have hc := count_le_nodup hx hv
  have hr : rankLt x v + 1 ≤ (sortQ y).length := by rw [sortQ_length, ← hlen]; exact rankLt_lt hx hv
  have hsn : 2 ≤ (sortQ y).length := by rw [sortQ_length, ← hlen]; exact hn
  have hl : (x.length : Rat) = ((sortQ y).length : Rat) := by rw [sortQ_length, hlen]
  have hstep := ecdfStep_at_sample x v hc
  have hlin := ecdfLin_at_sample hn hv hc
  rw [hl] at hstep hlin
  simp only [exactPairs, List.mem_cons, List.not_mem_nil, or_false] at hp
  rcases hp with rfl | rfl | rfl | rfl | rfl | rfl <;>
    simp only [qmap1, ecdf1, iecdf1, iecdfSorted]
  · rw [hstep]; exact exact_step_inverted hr
  · rw [hstep]; exact exact_step_closest hr
  · rw [hstep]; exact exact_step_interpolated hr
  · rw [hlin]; exact exact_linear_inverted hsn hr
  · rw [hlin]; exact exact_linear_averaged hsn hr
  · rw [hlin]; exact exact_linear_linear hsn hr

/-- strictly sorted: the prefix counter at the `a`-th element is `a + 1` -/
theorem cnt_at_strict {s : List Rat} (hs : s.Pairwise (· ≤ ·)) (hnd : s.Nodup) {a : Nat} (ha : a < s.length) :
    cnt s (s.getD a 0) = a + 1 := by
  have hstrict : ∀ i j, i < j → j < s.length → s.getD i 0 < s.getD j 0 := by
    intro i j hij hj
    have hle := sorted_getD_mono hs (le_of_lt hij) hj
    apply lt_of_le_of_ne hle
    rw [getD_eq s i (by omega), getD_eq s j hj]
    intro heq
    have := (List.Nodup.getElem_inj_iff hnd).mp heq
    omega
  have hle := cnt_le_length s (s.getD a 0)
  by_contra hne
  rcases Nat.lt_or_gt_of_ne hne with hlt | hgt
  · -- the counter stopped at or before `a`
    have hc : cnt s (s.getD a 0) < s.length := by omega
    have h1 := cnt_above s (s.getD a 0) hc
    have h2 : s.getD (cnt s (s.getD a 0)) 0 ≤ s.getD a 0 := sorted_getD_mono hs (by omega) ha
    linarith
  · have h1 := cnt_below s (s.getD a 0) (a + 1) hgt
    have h2 := hstrict a (a + 1) (by omega) (by omega)
    linarith

/-- for a tie-free sample `argsort(argsort(x))[i]` is the number of sample values below `x[i]` -/
theorem rankOf_eq_rankLt {x : List Rat} (hx : x.Nodup) {i : Nat} (hi : i < x.length) :
    (rankOf x).getD i 0 = rankLt x (x.getD i 0) := by
  have ha := rankOf_lt x i hi
  have hspec := (argsort_spec x _ ha).2
  rw [argsort_rankOf x i hi] at hspec
  -- x[i] is the `a`-th order statistic, `a = rankOf x [i]`
  have hnd : (sortQ x).Nodup := (sortQ_perm x).nodup_iff.mpr hx
  have hc := cnt_at_strict (sortQ_sorted x) hnd (a := (rankOf x).getD i 0) (by rw [sortQ_length]; exact ha)
  rw [← hspec, cnt_sortQ, count_le_nodup hx (getD_mem x i hi)] at hc
  omega

theorem qmap_equal_sizes_sortLike_all (p : EcdfMethod × IecdfMethod) (hp : p ∈ exactPairs) (x y : List Rat)
    (hlen : x.length = y.length) (hn : 2 ≤ x.length) (hx : x.Nodup) :
    qmap p.1 p.2 x y x = sortLike y x := by
  have h1 : qmap p.1 p.2 x y x = x.map (qmap1 p.1 p.2 x y) := by
    unfold qmap iecdf ecdf qmap1 iecdf1
    rw [List.map_map]; rfl
  rw [h1]
  apply List.ext_getElem
  · rw [List.length_map, sortLike_length]
  · intro i hi1 hi2
    have hi : i < x.length := by simpa using hi1
    rw [List.getElem_map, ← getD_eq _ i hi2, sortLike_getD y x i hi, rankOf_eq_rankLt hx hi,
      ← getD_eq x i hi]
    exact qmap_equal_sizes_all p hp x y hlen hn hx (getD_mem x i hi)


/-! ### evaluation on samples that are already sorted (used for the concrete witnesses: the kernel cannot unfold
    `List.mergeSort`, which is defined by well-founded recursion) -/

theorem sortQ_of_sorted {l : List Rat} (h : l.Pairwise (· ≤ ·)) : sortQ l = l := by
  apply List.Perm.eq_of_pairwise (le := (· ≤ ·)) _ (sortQ_sorted _) h (sortQ_perm _)
  intro a b _ _ h1 h2; exact le_antisymm h1 h2

/-- `qmap1` with the two sorts removed -/
def qmapS (em : EcdfMethod) (im : IecdfMethod) (sx sy : List Rat) (v : Rat) : Rat :=
  iecdfSorted im sy (match em with
    | .step => ecdfStep1 sx v
    | .linear => interp1 sx (linspace 0 1 sx.length) v)

theorem qmap1_sorted {x y : List Rat} (hx : x.Pairwise (· ≤ ·)) (hy : y.Pairwise (· ≤ ·)) (em : EcdfMethod)
    (im : IecdfMethod) (v : Rat) : qmap1 em im x y v = qmapS em im x y v := by
  unfold qmap1 qmapS iecdf1 ecdf1 ecdfLin1
  rw [sortQ_of_sorted hx, sortQ_of_sorted hy]
  cases em <;> rfl

end Lemmas.Stats
