/-
  The combinatorial fact behind `_step1_get_annual_cycle_of_upper_bounds` (ISIMIP step 1, tier A): on a series sorted by day
  of year, `np.maximum.reduceat(vals, idx)` over the first-occurrence indices `idx` returned by
  `np.unique(days, return_index=True)` is, for each distinct day, the maximum over ALL values of that day — the segments
  between consecutive first occurrences of a sorted list are exactly the groups by value, the last segment runs to the end.

  `groupMax_of_sorted` proves the hypothesis `GroupMax` of `Lemmas/GenIsimipSteps2.lean` for every sorted day list; with it the
  two `_partial` ties of that file become unconditional for every `argsort` that returns a sorting permutation (stable or
  not): `get_annual_cycle_of_upper_bounds_eq`, `step1_eq`.
-/
import IbicusModel.Lemmas.GenIsimipSteps2

set_option linter.unusedSimpArgs false
set_option linter.unusedVariables false

namespace Lemmas.GroupMax
open Model.Isimip Model.Stats Lemmas.GenIsimipSteps2

/-! ### a sorted list is its first run followed by the elements different from the head -/

/-- below a lower bound `d`, a sorted list is a run of `d`s followed by what `eraseDups` keeps after removing `d` -/
theorem sorted_split (d : Int) : ∀ (rest : List Int), rest.Pairwise (· ≤ ·) → (∀ x ∈ rest, d ≤ x) →
    ∃ m, rest = List.replicate m d ++ rest.filter (fun b => !(b == d))
  | [], _, _ => ⟨0, rfl⟩
  | a :: r, hs, hb => by
    have hs' := List.pairwise_cons.mp hs
    by_cases ha : a = d
    · subst ha
      obtain ⟨m, hm⟩ := sorted_split a r hs'.2 (fun x hx => hb x (List.mem_cons_of_mem _ hx))
      refine ⟨m + 1, ?_⟩
      have : List.filter (fun b => !(b == a)) (a :: r) = List.filter (fun b => !(b == a)) r := by
        simp [List.filter_cons]
      rw [this, List.replicate_succ, List.cons_append, ← hm]
    · refine ⟨0, ?_⟩
      have hda : d < a := by
        have := hb a List.mem_cons_self
        omega
      have : List.filter (fun b => !(b == d)) (a :: r) = a :: r := by
        apply List.filter_eq_self.mpr
        intro x hx
        have hxa : d < x := by
          rcases List.mem_cons.mp hx with rfl | hx'
          · exact hda
          · have := hs'.1 x hx'
            omega
        have : ¬ x = d := by omega
        simpa using this
      rw [this]
      rfl

/-! ### boolean selection on a run -/

theorem sel_none (d : Int) : ∀ (B : List Int) (X : List Rat), d ∉ B →
    Py.selectWhere X (B.map (fun t => decide (t = d))) = []
  | [], X, _ => by simp [Py.selectWhere]
  | b :: B, [], _ => by simp [Py.selectWhere]
  | b :: B, x :: X, h => by
    have hb : ¬ b = d := fun e => h (e ▸ List.mem_cons_self)
    have ih := sel_none d B X (fun e => h (List.mem_cons_of_mem _ e))
    unfold Py.selectWhere at ih ⊢
    simp only [List.map_cons, List.zip_cons_cons, List.filterMap_cons, hb, decide_false, Bool.false_eq_true, if_false]
    exact ih

theorem sel_run (d : Int) (B : List Int) (hB : d ∉ B) : ∀ (n : Nat) (X : List Rat), n ≤ X.length →
    Py.selectWhere X ((List.replicate n d ++ B).map (fun t => decide (t = d))) = X.take n
  | 0, X, _ => by simpa using sel_none d B X hB
  | n + 1, [], h => by simp at h
  | n + 1, x :: X, h => by
    have ih := sel_run d B hB n X (by simpa using h)
    unfold Py.selectWhere at ih ⊢
    simp only [List.replicate_succ, List.cons_append, List.map_cons, List.zip_cons_cons, List.filterMap_cons,
      decide_true, if_true, List.take_succ_cons]
    rw [ih]

theorem sel_skip (d : Int) (R : List Int) : ∀ (A : List Int) (X : List Rat), d ∉ A →
    Py.selectWhere X ((A ++ R).map (fun t => decide (t = d))) = Py.selectWhere (X.drop A.length) (R.map (fun t => decide (t = d)))
  | [], X, _ => by simp
  | a :: A, [], _ => by simp [Py.selectWhere]
  | a :: A, x :: X, h => by
    have ha : ¬ a = d := fun e => h (e ▸ List.mem_cons_self)
    have ih := sel_skip d R A X (fun e => h (List.mem_cons_of_mem _ e))
    unfold Py.selectWhere at ih ⊢
    simp only [List.cons_append, List.map_cons, List.zip_cons_cons, List.filterMap_cons, ha, decide_false,
      Bool.false_eq_true, if_false, List.length_cons, List.drop_succ_cons]
    exact ih

/-- the positions of `d` in `A ++ d…d ++ B` (`d` not in `A`, `B`) select the segment `X[|A| : |A| + n]` -/
theorem sel_segment (d : Int) (A B : List Int) (n : Nat) (X : List Rat) (hA : d ∉ A) (hB : d ∉ B)
    (hn : A.length + n ≤ X.length) :
    Py.selectWhere X ((A ++ (List.replicate n d ++ B)).map (fun t => decide (t = d))) = (X.drop A.length).take n := by
  rw [sel_skip d _ A X hA, sel_run d B hB n _ (by rw [List.length_drop]; omega)]

/-! ### first occurrences -/

/-- the first occurrence of the head of `DD[k:]` is `k` when it does not occur before -/
theorem idxOf_drop_head (DD : List Int) (k : Nat) (d : Int) (r : List Int) (h : DD.drop k = d :: r)
    (hn : d ∉ DD.take k) : DD.idxOf d = k := by
  have hk : k ≤ DD.length := by
    by_contra hc
    rw [List.drop_eq_nil_of_le (by omega)] at h
    cases h
  have hDD : DD = DD.take k ++ (d :: r) := by rw [← h, List.take_append_drop]
  have : DD.idxOf d = (DD.take k ++ (d :: r)).idxOf d := by rw [← hDD]
  rw [this, List.idxOf_append, if_neg hn, List.idxOf_cons_self, List.length_take]
  omega

/-! ### `np.maximum.reduceat`, one segment at a time -/

theorem reduceatMax_cons_ok (X : List Rat) (i : Nat) (is : List Nat) (r : List Rat) (nxt : Nat)
    (hn : (is ++ [X.length]).head? = some nxt) (hi : i < X.length) (hlt : i < nxt)
    (hr : PyElem.reduceatMax X is = .ok r) :
    PyElem.reduceatMax X (i :: is) = .ok (PyElem.maxOf ((X.drop i).take (nxt - i)) :: r) := by
  unfold PyElem.reduceatMax at hr ⊢
  cases is with
  | nil =>
    have : X.length = nxt := by simpa using hn
    have hr' : r = [] := by
      have : (Except.ok [] : Except String (List Rat)) = .ok r := hr
      exact (Except.ok.inj this).symm
    subst hr'
    simp only [List.drop_succ_cons, List.drop_zero, List.nil_append, List.zip_cons_cons, List.zip_nil_right,
      List.mapM_cons, List.mapM_nil, hi, if_true, this, hlt]
    rfl
  | cons j js =>
    have hj : j = nxt := by simpa using hn
    subst hj
    simp only [List.drop_succ_cons, List.drop_zero, List.cons_append, List.zip_cons_cons, List.mapM_cons, hi, if_true, hlt]
    simp only [List.drop_succ_cons, List.drop_zero] at hr
    rw [hr]
    rfl

theorem maxOf_eq_maxQ (l : List Rat) : PyElem.maxOf l = maxQ l := by
  cases l <;> rfl

/-! ### the general statement, by induction on the number of remaining runs -/

/-- invariant of the walk over the runs of a sorted day list `DD`: for the suffix `DD[k0:]` (sorted, none of its days occurs
    before `k0`), `reduceat` over the first occurrences (in `DD`) of its distinct days gives the per-day maxima -/
theorem groupMax_from (X : List Rat) (DD : List Int) (hl : X.length = DD.length) :
    ∀ (n k0 : Nat), (DD.drop k0).length ≤ n → (DD.drop k0).Pairwise (· ≤ ·) →
      (∀ x ∈ DD.take k0, x ∉ DD.drop k0) →
      PyElem.reduceatMax X ((DD.drop k0).eraseDups.map (fun v => DD.idxOf v))
        = .ok ((DD.drop k0).eraseDups.map (fun d => maxQ (Py.selectWhere X (DD.map (fun t => decide (t = d)))))) := by
  intro n
  induction n with
  | zero =>
    intro k0 hlen _ _
    have : DD.drop k0 = [] := List.length_eq_zero_iff.mp (by omega)
    rw [this]
    rfl
  | succ n ih =>
    intro k0 hlen hs hpre
    cases hD : DD.drop k0 with
    | nil => rfl
    | cons d rest =>
      rw [hD] at hlen hs hpre
      rw [List.length_cons] at hlen
      have hs' := List.pairwise_cons.mp hs
      obtain ⟨m, hm⟩ := sorted_split d rest hs'.2 hs'.1
      generalize htl : rest.filter (fun b => !(b == d)) = tl at hm
      have hdtl : d ∉ tl := by
        rw [← htl]
        intro hmem
        have := (List.mem_filter.mp hmem).2
        simp at this
      have htlsub : tl.Sublist rest := by rw [← htl]; exact List.filter_sublist
      have hlenD : DD.length - k0 = rest.length + 1 := by
        have := congrArg List.length hD
        rwa [List.length_drop, List.length_cons] at this
      have hrestlen : rest.length = m + tl.length := by
        have := congrArg List.length hm
        rwa [List.length_append, List.length_replicate] at this
      have hDk : DD.drop k0 = List.replicate (m + 1) d ++ tl := by
        rw [hD, List.replicate_succ, List.cons_append, ← hm]
      have hdrop' : DD.drop (k0 + (m + 1)) = tl := by
        rw [← List.drop_drop, hDk, List.drop_left' (by simp)]
      have htake' : DD.take (k0 + (m + 1)) = DD.take k0 ++ List.replicate (m + 1) d := by
        rw [List.take_add, hDk, List.take_left' (by simp)]
      have hpre' : ∀ x ∈ DD.take (k0 + (m + 1)), x ∉ DD.drop (k0 + (m + 1)) := by
        intro x hx
        rw [hdrop']
        rw [htake'] at hx
        rcases List.mem_append.mp hx with h1 | h1
        · exact fun h2 => hpre x h1 (List.mem_cons_of_mem _ (htlsub.subset h2))
        · rw [List.eq_of_mem_replicate h1]; exact hdtl
      have hih := ih (k0 + (m + 1)) (by rw [hdrop']; have := htlsub.length_le; omega)
        (by rw [hdrop']; exact hs'.2.sublist htlsub) hpre'
      rw [hdrop'] at hih
      -- the head run
      have hidx : DD.idxOf d = k0 := idxOf_drop_head DD k0 d rest hD (fun h => hpre d h List.mem_cons_self)
      have hDD : DD = DD.take k0 ++ (List.replicate (m + 1) d ++ tl) := by rw [← hDk, List.take_append_drop]
      have hk0len : (DD.take k0).length = k0 := by rw [List.length_take]; omega
      have hsel : Py.selectWhere X (DD.map (fun t => decide (t = d))) = (X.drop k0).take (m + 1) := by
        have := sel_segment d (DD.take k0) tl (m + 1) X (fun h => hpre d h List.mem_cons_self) hdtl
          (by rw [hk0len, hl]; omega)
        rw [← hDD, hk0len] at this
        exact this
      have hnext : ((tl.eraseDups.map (fun v => DD.idxOf v)) ++ [X.length]).head? = some (k0 + (m + 1)) := by
        cases htl2 : tl with
        | nil =>
          rw [htl2] at hrestlen
          simp only [List.eraseDups_nil, List.map_nil, List.nil_append, List.head?_cons, List.length_nil] at hrestlen ⊢
          congr 1
          omega
        | cons d' t =>
          rw [htl2] at hdrop'
          have := idxOf_drop_head DD (k0 + (m + 1)) d' t hdrop'
            (fun h => hpre' d' h (by rw [hdrop']; exact List.mem_cons_self))
          simp only [List.eraseDups_cons, List.map_cons, List.cons_append, List.head?_cons, this]
      rw [List.eraseDups_cons, htl, List.map_cons, List.map_cons, hidx,
        reduceatMax_cons_ok X k0 _ _ (k0 + (m + 1)) hnext (by omega) (by omega) hih, hsel, maxOf_eq_maxQ]
      rw [show k0 + (m + 1) - k0 = m + 1 by omega]

/-- **the reduceat route computes the per-day maxima on every series sorted by day of year** (`vals` parallel to `doy`;
    holds trivially for the empty series too): `np.maximum.reduceat(vals, np.unique(doy, return_index=True)[1])[k]` is the
    maximum over all values whose day is the `k`-th distinct day. -/
theorem groupMax_of_sorted (vals : List Rat) (doy : List Int) (hl : vals.length = doy.length)
    (hs : doy.Pairwise (· ≤ ·)) : GroupMax vals doy := by
  unfold GroupMax
  have hu : uniqueYears doy = doy.eraseDups := by
    unfold uniqueYears
    rw [List.mergeSort_of_pairwise (hs.imp (fun h => by simpa using h))]
  rw [hu]
  have := groupMax_from vals doy hl doy.length 0 (by simp) (by simpa using hs) (by simp)
  simpa using this

/-- non-vacuity / sanity: the general theorem instantiated on the concrete sorted series used as the example of `GroupMax` -/
example : GroupMax [3, 1, 2, 5, 4, 4, 7] [1, 1, 2, 3, 3, 3, 9] :=
  groupMax_of_sorted _ _ rfl (by decide)

/-! ### the unconditional ties -/

/-- what `np.argsort` is assumed to return on the day list of a series of `n` values: a permutation of the positions that
    sorts the days (non-decreasingly; ties in any order — numpy's default quicksort is not stable) -/
structure Sorts (argsort : List Int → List Nat) (doy : List Int) : Prop where
  perm : (argsort doy).Perm (List.range doy.length)
  sorted : (Model.Skeleton.take doy (argsort doy)).Pairwise (· ≤ ·)

/-- witness: the stable argsort (`kind="stable"`), positions merge-sorted by their day -/
def stableArgsort (doy : List Int) : List Nat :=
  (List.range doy.length).mergeSort (fun i j => decide (doy.getD i 0 ≤ doy.getD j 0))

/-- `Sorts` is satisfiable for EVERY day list: the stable argsort sorts -/
theorem sorts_stableArgsort (doy : List Int) : Sorts stableArgsort doy := by
  refine ⟨List.mergeSort_perm _ _, ?_⟩
  have hpw := List.pairwise_mergeSort (le := fun i j => decide (doy.getD i 0 ≤ doy.getD j 0))
    (fun a b c h1 h2 => by
      have h1' : doy.getD a 0 ≤ doy.getD b 0 := by simpa using h1
      have h2' : doy.getD b 0 ≤ doy.getD c 0 := by simpa using h2
      have : doy.getD a 0 ≤ doy.getD c 0 := by omega
      simpa using this)
    (fun a b => by
      have := Int.le_total (doy.getD a 0) (doy.getD b 0)
      simpa using this)
    (List.range doy.length)
  unfold Model.Skeleton.take stableArgsort
  rw [List.pairwise_filterMap]
  refine hpw.imp ?_
  intro i j hij b hb b' hb'
  have hij' : doy.getD i 0 ≤ doy.getD j 0 := by simpa using hij
  have e1 : doy.getD i 0 = b := by rw [List.getD_eq_getElem?_getD, Option.mem_def.mp hb]; rfl
  have e2 : doy.getD j 0 = b' := by rw [List.getD_eq_getElem?_getD, Option.mem_def.mp hb']; rfl
  omega

/-- … and by permutations that are NOT stable (numpy's default `kind="quicksort"` may return one): positions 1 and 0 of the
    two equal days swapped (concrete witness, complete finite computation) -/
example : Sorts (fun _ => [1, 0, 3, 2]) [5, 5, 9, 7] := ⟨by decide, by decide⟩

/-- `SortedRoute` (the assumptions of the partial ties) holds for every `argsort` that returns a sorting permutation -/
theorem sortedRoute_of_sorts (argsort : List Int → List Nat) (vals : List Rat) (doy : List Int)
    (hl : vals.length = doy.length) (ha : Sorts argsort doy) (hd : ∀ d ∈ doy, 1 ≤ d) :
    SortedRoute argsort vals doy := by
  have hp : (argsort doy).Perm (List.range vals.length) := by rw [hl]; exact ha.perm
  have hv := Lemmas.Perm.perm_valid (argsort doy) hp
  refine ⟨hl, hp, ?_, hd⟩
  apply groupMax_of_sorted _ _ _ ha.sorted
  rw [Lemmas.Pointwise.take_length vals _ hv, Lemmas.Pointwise.take_length doy _ (fun j hj => hl ▸ hv j hj)]

/-- **`_step1_get_annual_cycle_of_upper_bounds` (regenerated) = `Model.Isimip.annualCycle`**, unconditional: for every
    `argsort` that returns a sorting permutation of the days (stable or not) and every dated series (values parallel to
    their days of year). The filters are extern and instantiated with the model's `maximumFilterWrap` / `uniformFilterWrap`. -/
theorem get_annual_cycle_of_upper_bounds_eq (c : Cfg) (argsort : List Int → List Nat) (vals : List Rat) (doy : List Int)
    (hl : vals.length = doy.length) (ha : Sorts argsort doy) :
    Gen.IsimipSteps.get_annual_cycle_of_upper_bounds argsort (fun a S => maximumFilterWrap S.toNat a)
        (fun a S => uniformFilterWrap S.toNat a) ((c.windowLengthAnnualCycle : Nat) : Int) vals doy
      = .ok (annualCycle c vals doy) := by
  have hp : (argsort doy).Perm (List.range vals.length) := by rw [hl]; exact ha.perm
  have hv := Lemmas.Perm.perm_valid (argsort doy) hp
  refine get_annual_cycle_of_upper_bounds_eq_partial c argsort vals doy hl hp ?_
  apply groupMax_of_sorted _ _ _ ha.sorted
  rw [Lemmas.Pointwise.take_length vals _ hv, Lemmas.Pointwise.take_length doy _ (fun j hj => hl ▸ hv j hj)]

/-- **`ISIMIP.step1` (regenerated wiring) = `Model.Isimip.step1`**, unconditional: three dated series (values parallel to
    their days of year, days of year ≥ 1) and an `argsort` that sorts each of the three day lists. -/
theorem step1_eq (c : Cfg) (argsort : List Int → List Nat) (obs H F : List Rat) (dO dH dF : List Int)
    (hlO : obs.length = dO.length) (hlH : H.length = dH.length) (hlF : F.length = dF.length)
    (haO : Sorts argsort dO) (haH : Sorts argsort dH) (haF : Sorts argsort dF)
    (hdO : ∀ d ∈ dO, 1 ≤ d) (hdH : ∀ d ∈ dH, 1 ≤ d) (hdF : ∀ d ∈ dF, 1 ≤ d) :
    Gen.IsimipSteps.step1 id argsort (fun a S => maximumFilterWrap S.toNat a) (fun a S => uniformFilterWrap S.toNat a)
        c.scaleByAnnualCycle ((c.windowLengthAnnualCycle : Nat) : Int) obs H F dO dH dF
      = step1 c obs H F dO dH dF :=
  step1_eq_partial c argsort obs H F dO dH dF (sortedRoute_of_sorts argsort obs dO hlO haO hdO)
    (sortedRoute_of_sorts argsort H dH hlH haH hdH) (sortedRoute_of_sorts argsort F dF hlF haF hdF)

end Lemmas.GroupMax
