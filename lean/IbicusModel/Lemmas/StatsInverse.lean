/-
  Helper lemmas for the numeric toolkit, part 6: on a tie-free sample the linear-interpolation ecdf
  (`ecdf(method="linear_interpolation")`) and the `linear` quantile (`iecdf(method="linear")`, numpy's default
  `np.quantile`) are inverse to each other — `ecdf ∘ iecdf = id` on `[0, 1]`, `iecdf ∘ ecdf = id` on
  `[min, max]`.  Used by C01 / C03 (CDFt with its default methods); general facts about `Model/Stats`.
-/
import IbicusModel.Lemmas.StatsQmap

namespace Lemmas.Stats
open Model.Stats

/-- consecutive elements of a sorted tie-free list are strictly increasing -/
theorem strict_getD {s : List Rat} (hs : s.Pairwise (· ≤ ·)) (hnd : s.Nodup) {i j : Nat} (hij : i < j)
    (hj : j < s.length) : s.getD i 0 < s.getD j 0 := by
  have hle := sorted_getD_mono hs (le_of_lt hij) hj
  apply lt_of_le_of_ne hle
  rw [getD_eq s i (by omega), getD_eq s j hj]
  intro heq
  have := (List.Nodup.getElem_inj_iff hnd).mp heq
  omega

/-- on a sorted list, a point in `[s[k], s[k+1])` has exactly `k + 1` sample values at or below it -/
theorem cnt_between {s : List Rat} (hs : s.Pairwise (· ≤ ·)) {k : Nat} (hk : k + 1 < s.length) {y : Rat}
    (h0 : s.getD k 0 ≤ y) (h1 : y < s.getD (k + 1) 0) : cnt s y = k + 1 := by
  have hle := cnt_le_length s y
  by_contra hne
  rcases Nat.lt_or_gt_of_ne hne with hlt | hgt
  · have hc : cnt s y < s.length := by omega
    have h2 := cnt_above s y hc
    have h3 : s.getD (cnt s y) 0 ≤ s.getD k 0 := sorted_getD_mono hs (by omega) (by omega)
    linarith
  · have h2 := cnt_below s y (k + 1) hgt
    linarith

/-- a point at or above the largest element: every element counts -/
theorem cnt_top {s : List Rat} (hs : s.Pairwise (· ≤ ·)) (hne : s ≠ []) {y : Rat}
    (h : s.getD (s.length - 1) 0 ≤ y) : cnt s y = s.length := by
  apply cnt_all
  intro v hv
  obtain ⟨i, hi, rfl⟩ := List.getElem_of_mem hv
  rw [← getD_eq s i hi]
  exact le_trans (sorted_getD_mono hs (by omega) (by have := List.length_pos_iff.mpr hne; omega)) h

/-- **`ecdf_lin ∘ quantile_linear = id` on `[0, 1]`** for a strictly sorted sample of size ≥ 2
    (stated on the index axis: `interp` of the knots `k/(n−1)` at the value with virtual index `(n−1) p`) -/
theorem interp_quantile_id {s : List Rat} (hs : s.Pairwise (· ≤ ·)) (hnd : s.Nodup) (hn : 2 ≤ s.length)
    {p : Rat} (h0 : 0 ≤ p) (h1 : p ≤ 1) :
    interp1 s (linspace 0 1 s.length) (quantileLinear s p) = p := by
  have hne : s ≠ [] := by intro h; rw [h] at hn; simp at hn
  have hn' : (2 : Rat) ≤ (s.length : Rat) := by exact_mod_cast hn
  have hd : (0 : Rat) < (s.length : Rat) - 1 := by linarith
  rw [quantileLinear_eq]
  by_cases htop : ((s.length : Rat) - 1) * p ≥ (s.length : Rat) - 1
  · have hp : p = 1 := by
      apply le_antisymm h1
      by_contra hc
      have : ((s.length : Rat) - 1) * p < ((s.length : Rat) - 1) * 1 :=
        mul_lt_mul_of_pos_left (not_le.mp hc) hd
      linarith
    rw [clampLerp_top htop]
    rw [interp1_top' (cnt_top hs hne (le_refl _)) hne, linspace_length, linspace01_last hn, hp]
  · have hlow : ¬ ((s.length : Rat) - 1) * p < 0 := by
      push Not; exact mul_nonneg (le_of_lt hd) h0
    obtain ⟨k, hk, hkn⟩ := interior_floor hlow htop
    rw [clampLerp_interior hlow htop hk]
    have hf := floor_frac (((s.length : Rat) - 1) * p)
    rw [hk] at hf
    have hw0 : 0 ≤ ((s.length : Rat) - 1) * p - (k : Rat) := by exact_mod_cast hf.1
    have hw1 : ((s.length : Rat) - 1) * p - (k : Rat) < 1 := by exact_mod_cast hf.2
    have hlt : s.getD k 0 < s.getD (k + 1) 0 := strict_getD hs hnd (Nat.lt_succ_self k) hkn
    have hdd : 0 < s.getD (k + 1) 0 - s.getD k 0 := by linarith
    have hy0 : s.getD k 0 ≤ lerp (s.getD k 0) (s.getD (k + 1) 0) (((s.length : Rat) - 1) * p - (k : Rat)) :=
      lerp_ge (le_of_lt hlt) hw0
    have hy1 : lerp (s.getD k 0) (s.getD (k + 1) 0) (((s.length : Rat) - 1) * p - (k : Rat)) < s.getD (k + 1) 0 := by
      unfold lerp
      have : (s.getD (k + 1) 0 - s.getD k 0) * (((s.length : Rat) - 1) * p - (k : Rat))
          < (s.getD (k + 1) 0 - s.getD k 0) * 1 := mul_lt_mul_of_pos_left hw1 hdd
      linarith
    rw [interp1_interior (cnt_between hs hkn hy0 hy1) hkn, linspace01_getD hn (by omega),
      linspace01_getD hn hkn]
    unfold lerp
    push_cast
    field_simp
    ring

/-- **`quantile_linear ∘ ecdf_lin = id` on `[min, max]`** for a strictly sorted sample of size ≥ 2 -/
theorem quantile_interp_id {s : List Rat} (hs : s.Pairwise (· ≤ ·)) (hnd : s.Nodup) (hn : 2 ≤ s.length)
    {y : Rat} (h0 : s.getD 0 0 ≤ y) (h1 : y ≤ s.getD (s.length - 1) 0) :
    quantileLinear s (interp1 s (linspace 0 1 s.length) y) = y := by
  have hne : s ≠ [] := by intro h; rw [h] at hn; simp at hn
  have hn' : (2 : Rat) ≤ (s.length : Rat) := by exact_mod_cast hn
  have hd : (0 : Rat) < (s.length : Rat) - 1 := by linarith
  have hc0 : cnt s y ≠ 0 := by
    intro hc
    have := cnt_above s y (by omega)
    rw [hc] at this
    linarith
  obtain ⟨j, hj⟩ : ∃ j, cnt s y = j + 1 := ⟨cnt s y - 1, by omega⟩
  have hle := cnt_le_length s y
  rw [quantileLinear_eq]
  by_cases hlt : j + 1 < s.length
  · have hw := interp_weight hj hlt
    rw [interp1_interior hj hlt, linspace01_getD hn (by omega), linspace01_getD hn hlt]
    have hsj : s.getD j 0 < s.getD (j + 1) 0 := strict_getD hs hnd (Nat.lt_succ_self j) hlt
    have hdd : s.getD (j + 1) 0 - s.getD j 0 ≠ 0 := by intro h; linarith
    have hvi : ((s.length : Rat) - 1) * lerp ((j : Rat) / ((s.length : Rat) - 1)) (((j + 1 : Nat) : Rat) / ((s.length : Rat) - 1))
        ((y - s.getD j 0) / (s.getD (j + 1) 0 - s.getD j 0))
        = (j : Rat) + (y - s.getD j 0) / (s.getD (j + 1) 0 - s.getD j 0) := by
      unfold lerp
      push_cast
      field_simp
      ring
    rw [hvi]
    have hjl : ((j + 1 : Nat) : Rat) ≤ (s.length : Rat) - 1 := by
      have : j + 1 ≤ s.length - 1 := by omega
      have h2 : ((j + 1 : Nat) : Rat) ≤ ((s.length - 1 : Nat) : Rat) := by exact_mod_cast this
      rw [Nat.cast_sub (by omega)] at h2
      simpa using h2
    push_cast at hjl
    have hlow : ¬ ((j : Rat) + (y - s.getD j 0) / (s.getD (j + 1) 0 - s.getD j 0) < 0) := by
      push Not
      have : (0 : Rat) ≤ (j : Rat) := by positivity
      linarith [hw.1]
    have htop : ¬ ((j : Rat) + (y - s.getD j 0) / (s.getD (j + 1) 0 - s.getD j 0) ≥ (s.length : Rat) - 1) := by
      push Not
      linarith [hw.2]
    have hk : ((j : Rat) + (y - s.getD j 0) / (s.getD (j + 1) 0 - s.getD j 0)).floor = (j : Int) := by
      rw [floor_eq_iff]
      push_cast
      constructor <;> linarith [hw.1, hw.2]
    rw [clampLerp_interior hlow htop hk]
    unfold lerp
    field_simp
    ring
  · have hjn : j + 1 = s.length := by omega
    rw [interp1_top' (by omega) hne, linspace_length, linspace01_last hn]
    rw [clampLerp_top (by linarith)]
    apply le_antisymm _ h1
    have := cnt_below s y j (by omega)
    have hjj : j = s.length - 1 := by omega
    rw [hjj] at this
    exact this

/-! ### the same for the list functions of `Model.Stats` (tie-free sample `x`, any order) -/

theorem sortQ_nodup {x : List Rat} (hx : x.Nodup) : (sortQ x).Nodup := (sortQ_perm x).nodup_iff.mpr hx

/-- `ecdf(x, iecdf(x, p, "linear"), "linear_interpolation") = p` for `p ∈ [0, 1]` -/
theorem ecdfLin_iecdfLinear {x : List Rat} (hx : x.Nodup) (hn : 2 ≤ x.length) {p : Rat} (h0 : 0 ≤ p) (h1 : p ≤ 1) :
    ecdfLin1 x (iecdf1 .linear x p) = p := by
  unfold ecdfLin1 iecdf1 iecdfSorted
  have := interp_quantile_id (sortQ_sorted x) (sortQ_nodup hx) (by rw [sortQ_length]; exact hn) h0 h1
  rwa [sortQ_length] at this

/-- `iecdf(x, ecdf(x, y, "linear_interpolation"), "linear") = y` for `y ∈ [min x, max x]` -/
theorem iecdfLinear_ecdfLin {x : List Rat} (hx : x.Nodup) (hn : 2 ≤ x.length) {y : Rat} (h0 : minQ x ≤ y)
    (h1 : y ≤ maxQ x) : iecdf1 .linear x (ecdfLin1 x y) = y := by
  have hne : x ≠ [] := by intro h; rw [h] at hn; simp at hn
  unfold ecdfLin1 iecdf1 iecdfSorted
  have := quantile_interp_id (sortQ_sorted x) (sortQ_nodup hx) (by rw [sortQ_length]; exact hn) (y := y)
    (by rw [sortQ_head x hne]; exact h0) (by rw [sortQ_length, sortQ_last x hne]; exact h1)
  rwa [sortQ_length] at this

/-- **a tie-free sample's values sit at their own ranks**: the `linear` quantile at the
    linear-interpolation ecdf value of a sample value is that value -/
theorem quantile_at_own_rank {x : List Rat} (hx : x.Nodup) (hn : 2 ≤ x.length) {v : Rat} (hv : v ∈ x) :
    iecdf1 .linear x (ecdfLin1 x v) = v :=
  iecdfLinear_ecdfLin hx hn (minQ_le hv) (le_maxQ hv)

/-- for any `y`: `iecdf(x, ecdf(x, y))` is `y` clamped to the sample range (constant extension of `np.interp`) -/
theorem iecdfLinear_ecdfLin_clamp {x : List Rat} (hx : x.Nodup) (hn : 2 ≤ x.length) (y : Rat) :
    iecdf1 .linear x (ecdfLin1 x y) = max (minQ x) (min (maxQ x) y) := by
  have hne : x ≠ [] := by intro h; rw [h] at hn; simp at hn
  have hmm := minQ_le_maxQ hne
  have hsn : 2 ≤ (sortQ x).length := by rw [sortQ_length]; exact hn
  by_cases hlow : y < minQ x
  · have hc : cnt (sortQ x) y = 0 := by
      by_contra hc
      have := cnt_below (sortQ x) y 0 (by omega)
      rw [sortQ_head x hne] at this
      linarith
    have h0 : ecdfLin1 x y = 0 := by
      unfold ecdfLin1
      rw [interp1_below hc, linspace01_first (by omega)]
    rw [h0]
    unfold iecdf1 iecdfSorted
    simp only []
    rw [quantileLinear_zero hsn, sortQ_head x hne, min_eq_right (by linarith), max_eq_left (le_of_lt hlow)]
  by_cases hhigh : maxQ x < y
  · have h1 : ecdfLin1 x y = 1 := ecdfLin_top hn (fun v hv => le_trans (le_maxQ hv) (le_of_lt hhigh))
    rw [h1]
    unfold iecdf1 iecdfSorted
    simp only []
    rw [quantileLinear_one, sortQ_length, sortQ_last x hne, min_eq_left (le_of_lt hhigh), max_eq_right hmm]
  · rw [iecdfLinear_ecdfLin hx hn (not_lt.mp hlow) (not_lt.mp hhigh),
      min_eq_right (not_lt.mp hhigh), max_eq_right (not_lt.mp hlow)]

end Lemmas.Stats
