/-
  Tier A for the dispatch of `CDFt.apply_on_window` / `QuantileDeltaMapping.apply_on_window` (C14's F14 clause; glue of the
  capstone): the dispatch regenerated from /repo's current source (`Gen/WinDispatch.lean`) equals the expected spec of
  `Model/WinDispatch.lean`, and the denotation of that spec is, outcome by outcome,

    * switch off                                → the `else` call on the whole samples (keywords bound by name);
    * switch on, time given, lengths equal      → `denoteYears <regenerated year loop>` on `year(time_cm_future)`;
    * switch on, time given, lengths differ     → `ValueError`  (exactly then; before fix 322a5a2 there was no such check: F14);
    * switch on, time `None`                    → the year loop on `year(create_array_of_consecutive_dates(cm_future.size))`.

  Removing the length check, comparing other sizes, inferring from another array's size, taking the years of another time
  axis, swapping the arguments of the `else` call … changes the regenerated value and breaks `Gen = expected` here.
-/
import IbicusModel.Gen.WinDispatch
import IbicusModel.Lemmas.GenLoops

namespace Lemmas.GenWinDispatch
open Model.Loops Model.Skeleton Model.WinDispatch

/-! ### regenerated = expected (complete finite data, by evaluation) -/

theorem cdft : Gen.WinDispatch.cdft = Model.WinDispatch.cdft := by decide +kernel
theorem qdm : Gen.WinDispatch.qdm = Model.WinDispatch.qdm := by decide +kernel

/-! ### the `else` branch -/

/-- switch off: `return self._apply_debiasing_steps(<elseArgs>)` -/
theorem denote_else {τ α V : Type} (sp : DispatchSpec) (lp : LoopSpec) (g : YearFn α)
    (call : String → (String → Option V) → Except String (List α)) (val : Src → Option V) (e : DEnv τ α)
    (hf : e.flag = false) :
    Model.WinDispatch.denote sp lp g call val e = (call sp.elseCallee (kwOf sp.elseArgs val)).map (List.map some) := by
  simp [Model.WinDispatch.denote, hf]

/-- CDFt's `else` call binds the three whole samples to `obs`, `cm_hist`, `cm_future` -/
theorem kwOf_cdft {V : Type} (val : Src → Option V) :
    kwOf Model.WinDispatch.cdft.elseArgs val "obs" = val (.data .obs)
    ∧ kwOf Model.WinDispatch.cdft.elseArgs val "cm_hist" = val (.data .hist)
    ∧ kwOf Model.WinDispatch.cdft.elseArgs val "cm_future" = val (.data .fut) := by
  refine ⟨?_, ?_, ?_⟩ <;> simp [kwOf, Model.WinDispatch.cdft, List.find?]

/-- QDM's `else` call binds the whole future sample and the two fits computed in front of the switch -/
theorem kwOf_qdm {V : Type} (val : Src → Option V) :
    kwOf Model.WinDispatch.qdm.elseArgs val "cm_future" = val (.data .fut)
    ∧ kwOf Model.WinDispatch.qdm.elseArgs val "fit_obs" = val (.opaque "self._get_obs_and_cm_hist_fits(obs, hist).0")
    ∧ kwOf Model.WinDispatch.qdm.elseArgs val "fit_cm_hist" = val (.opaque "self._get_obs_and_cm_hist_fits(obs, hist).1") := by
  refine ⟨?_, ?_, ?_⟩ <;> simp [kwOf, Model.WinDispatch.qdm, List.find?]

/-! ### the year-window branch -/

/-- switch on, `time_cm_future` given with one entry per value: the year loop on `year(time_cm_future)` -/
theorem denote_years {τ α V : Type} (sp : DispatchSpec) (lp : LoopSpec) (g : YearFn α)
    (call : String → (String → Option V) → Except String (List α)) (val : Src → Option V) (e : DEnv τ α) (t : List τ)
    (hb : sp.body = yearBody) (hg : lp.guard = sp.flag) (hi : lp.iter = .useYears .fut)
    (hf : e.flag = true) (ht : e.time .fut = some t) (hl : t.length = (e.data .fut).length) :
    Model.WinDispatch.denote sp lp g call val e = denoteYears lp g ⟨e.Ly, e.Sy, pick [] [] (e.yearsOf t), e.data⟩ := by
  simp [Model.WinDispatch.denote, hf, hg, hb, yearBody, runBody, ht, denSize, Cmp.holds, hl, hi, setS]

/-- **F14**: switch on, `time_cm_future` given with another length than `cm_future`: `ValueError` -/
theorem denote_value_error {τ α V : Type} (sp : DispatchSpec) (lp : LoopSpec) (g : YearFn α)
    (call : String → (String → Option V) → Except String (List α)) (val : Src → Option V) (e : DEnv τ α) (t : List τ)
    (hb : sp.body = yearBody) (hg : lp.guard = sp.flag)
    (hf : e.flag = true) (ht : e.time .fut = some t) (hl : t.length ≠ (e.data .fut).length) :
    Model.WinDispatch.denote sp lp g call val e = .error "ValueError" := by
  simp [Model.WinDispatch.denote, hf, hg, hb, yearBody, runBody, ht, denSize, Cmp.holds, hl]

/-- switch on, `time_cm_future is None`: the time axis is `create_array_of_consecutive_dates(cm_future.size)` — it has one
    entry per value, the check passes — and the year loop runs on its years -/
theorem denote_years_inferred {τ α V : Type} (sp : DispatchSpec) (lp : LoopSpec) (g : YearFn α)
    (call : String → (String → Option V) → Except String (List α)) (val : Src → Option V) (e : DEnv τ α)
    (hb : sp.body = yearBody) (hg : lp.guard = sp.flag) (hi : lp.iter = .useYears .fut)
    (hf : e.flag = true) (ht : e.time .fut = none)
    (hc : (e.consecutive (e.data .fut).length).length = (e.data .fut).length) :
    Model.WinDispatch.denote sp lp g call val e
      = denoteYears lp g ⟨e.Ly, e.Sy, pick [] [] (e.yearsOf (e.consecutive (e.data .fut).length)), e.data⟩ := by
  simp [Model.WinDispatch.denote, hf, hg, hb, yearBody, runBody, ht, denSize, Cmp.holds, hc, hi, setS]

/-- the `ValueError` of the year-window branch is raised **exactly** when a given `time_cm_future` has another length than
    `cm_future` (provided the year loop itself does not fail with that name) -/
theorem value_error_iff {τ α V : Type} (sp : DispatchSpec) (lp : LoopSpec) (g : YearFn α)
    (call : String → (String → Option V) → Except String (List α)) (val : Src → Option V) (e : DEnv τ α) (t : List τ)
    (hb : sp.body = yearBody) (hg : lp.guard = sp.flag) (hi : lp.iter = .useYears .fut)
    (hf : e.flag = true) (ht : e.time .fut = some t)
    (hloop : denoteYears lp g ⟨e.Ly, e.Sy, pick [] [] (e.yearsOf t), e.data⟩ ≠ .error "ValueError") :
    Model.WinDispatch.denote sp lp g call val e = .error "ValueError" ↔ t.length ≠ (e.data .fut).length := by
  constructor
  · intro h hl
    rw [denote_years sp lp g call val e t hb hg hi hf ht hl] at h
    exact hloop h
  · exact denote_value_error sp lp g call val e t hb hg hf ht

/-! ### the two classes: dispatch ∘ regenerated year loop = the skeleton's `applyYears` -/

theorem cdft_loop_fits : Model.Loops.loopCDFt.guard = Model.WinDispatch.cdft.flag ∧ Model.Loops.loopCDFt.iter = .useYears .fut := by
  decide +kernel

theorem qdm_loop_fits : Model.Loops.loopQDM.guard = Model.WinDispatch.qdm.flag ∧ Model.Loops.loopQDM.iter = .useYears .fut := by
  decide +kernel

/-- `CDFt.apply_on_window` with year windows, both pieces as regenerated -/
theorem denote_cdft_years {τ α V : Type} (g : YearFn α)
    (call : String → (String → Option V) → Except String (List α)) (val : Src → Option V) (e : DEnv τ α) (t : List τ)
    (hf : e.flag = true) (ht : e.time .fut = some t) (hl : t.length = (e.data .fut).length) :
    Model.WinDispatch.denote Gen.WinDispatch.cdft Gen.Loops.loopCDFt g call val e = applyYears g e.Ly e.Sy (e.yearsOf t) (e.data .fut) := by
  rw [cdft, Lemmas.GenLoops.loopCDFt,
    denote_years _ _ g call val e t rfl cdft_loop_fits.1 cdft_loop_fits.2 hf ht hl]
  have hd : (⟨e.Ly, e.Sy, pick [] [] (e.yearsOf t), e.data⟩ : Env α)
      = ⟨e.Ly, e.Sy, pick [] [] (e.yearsOf t), pick (e.data .obs) (e.data .hist) (e.data .fut)⟩ := by
    congr; funext s; cases s <;> rfl
  rw [hd, Lemmas.GenLoops.denote_loopCDFt]

/-- `QuantileDeltaMapping.apply_on_window` with year windows, both pieces as regenerated -/
theorem denote_qdm_years {τ α V : Type} (g : YearFn α)
    (call : String → (String → Option V) → Except String (List α)) (val : Src → Option V) (e : DEnv τ α) (t : List τ)
    (hf : e.flag = true) (ht : e.time .fut = some t) (hl : t.length = (e.data .fut).length) :
    Model.WinDispatch.denote Gen.WinDispatch.qdm Gen.Loops.loopQDM g call val e = applyYears g e.Ly e.Sy (e.yearsOf t) (e.data .fut) := by
  rw [qdm, Lemmas.GenLoops.loopQDM,
    denote_years _ _ g call val e t rfl qdm_loop_fits.1 qdm_loop_fits.2 hf ht hl]
  have hd : (⟨e.Ly, e.Sy, pick [] [] (e.yearsOf t), e.data⟩ : Env α)
      = ⟨e.Ly, e.Sy, pick [] [] (e.yearsOf t), pick (e.data .obs) (e.data .hist) (e.data .fut)⟩ := by
    congr; funext s; cases s <;> rfl
  rw [hd, Lemmas.GenLoops.denote_loopQDM]

/-- **F14 on the regenerated pieces** (both classes) -/
theorem cdft_value_error {τ α V : Type} (g : YearFn α)
    (call : String → (String → Option V) → Except String (List α)) (val : Src → Option V) (e : DEnv τ α) (t : List τ)
    (hf : e.flag = true) (ht : e.time .fut = some t) (hl : t.length ≠ (e.data .fut).length) :
    Model.WinDispatch.denote Gen.WinDispatch.cdft Gen.Loops.loopCDFt g call val e = .error "ValueError" := by
  rw [cdft, Lemmas.GenLoops.loopCDFt]
  exact denote_value_error _ _ g call val e t rfl cdft_loop_fits.1 hf ht hl

theorem qdm_value_error {τ α V : Type} (g : YearFn α)
    (call : String → (String → Option V) → Except String (List α)) (val : Src → Option V) (e : DEnv τ α) (t : List τ)
    (hf : e.flag = true) (ht : e.time .fut = some t) (hl : t.length ≠ (e.data .fut).length) :
    Model.WinDispatch.denote Gen.WinDispatch.qdm Gen.Loops.loopQDM g call val e = .error "ValueError" := by
  rw [qdm, Lemmas.GenLoops.loopQDM]
  exact denote_value_error _ _ g call val e t rfl qdm_loop_fits.1 hf ht hl

/-! ### non-vacuity and the defect the check closed (concrete witnesses, by evaluation) -/

/-- the dispatch as it was before fix 322a5a2 (no length check) -/
def legacyBody : List Stmt :=
  [.inferIfNone .fut "create_array_of_consecutive_dates" (.sizeData .fut), .yearsOf .fut, .yearLoop .fut]

/-- **legacy (F14)**: without the check, a `time_cm_future` that is longer than `cm_future` is not rejected with `ValueError`
    (here: 3 dates for 2 values — the masks have the wrong length and the write fails with numpy's `IndexError`) -/
theorem legacy_no_value_error :
    let e : DEnv Int Int := ⟨true, 1, 1, pick none none (some [2000, 2001, 2002]), pick [] [] [5, 6], fun _ => [], id⟩
    let g : YearFn Int := fun x _ => .ok x
    let call : String → (String → Option Unit) → Except String (List Int) := fun _ _ => .ok []
    Model.WinDispatch.denote { Model.WinDispatch.cdft with body := legacyBody } Model.Loops.loopCDFt g call (fun _ => none) e
        ≠ .error "ValueError"
      ∧ Model.WinDispatch.denote Model.WinDispatch.cdft Model.Loops.loopCDFt g call (fun _ => none) e = .error "ValueError" := by
  decide +kernel

/-- the year-window branch on a well-formed call: every step written -/
example :
    let e : DEnv Int Int := ⟨true, 1, 1, pick none none (some [2000, 2000, 2001]), pick [] [] [5, 6, 7], fun _ => [], id⟩
    Model.WinDispatch.denote Model.WinDispatch.cdft Model.Loops.loopCDFt (fun x _ => .ok (x.map (· + 1))) (fun _ (_ : String → Option Unit) => .ok [])
      (fun _ => none) e = .ok [some 6, some 7, some 8] := by decide +kernel

/-- inferred time axis (`None`): dates are consecutive, here two per year -/
example :
    let e : DEnv Int Int := ⟨true, 1, 1, pick none none none, pick [] [] [5, 6, 7], fun n => (List.range n).map (fun k => 2000 + (k : Int) / 2), id⟩
    Model.WinDispatch.denote Model.WinDispatch.cdft Model.Loops.loopCDFt (fun x _ => .ok (x.map (· + 1))) (fun _ (_ : String → Option Unit) => .ok [])
      (fun _ => none) e = .ok [some 6, some 7, some 8] := by decide +kernel

end Lemmas.GenWinDispatch
