/-
  C10 helpers, part 1 (ISIMIP): the order on `ExtRat`, the value predicates of the property
  (`InBounds`, `NoGap`, `Good`), membership lemmas for the masked assignments of step 6
  (`setWhere` / `fillWhere` / `takeIdx`), and the range of the non-parametric quantile maps for a target
  sample of any size ≥ 1.
  The four `…_any` lemmas are the size-≥-1 versions of the C16 range laws (`Props.C16.ecdf_range`,
  `iecdf_range`, `iecdf_size_one`); they are proved here from C16 so that this file depends on committed
  modules only.
-/
import IbicusModel.Props.C16
import IbicusModel.Lemmas.IsimipModel
import IbicusModel.Lemmas.IsimipFreq
import IbicusModel.Lemmas.StatsRank

namespace Lemmas.C10
open Model.Isimip Model.Stats Model.IsimipFreq Lemmas.Stats

/-! ### the order on bounds / thresholds -/

/-- `s ≤ t` on `ℚ ∪ {±∞}` -/
def extLe : ExtRat → ExtRat → Prop
  | .negInf, _ => True
  | .fin _, .negInf => False
  | .fin a, .fin b => a ≤ b
  | .fin _, .posInf => True
  | .posInf, .posInf => True
  | .posInf, _ => False

instance (s t : ExtRat) : Decidable (extLe s t) := by
  cases s <;> cases t <;> (unfold extLe; exact inferInstance)

theorem extLe_trans {r s t : ExtRat} (h1 : extLe r s) (h2 : extLe s t) : extLe r t := by
  cases r <;> cases s <;> cases t <;> simp only [extLe] at * <;> first | trivial | exact le_trans h1 h2

/-- `v > t` and `s ≤ t` give `v ≥ s` -/
theorem geOf_of_gtOf {s t : ExtRat} (h : extLe s t) {v : Rat} (hv : ExtRat.gtOf v t = true) :
    ExtRat.geOf v s = true := by
  cases s <;> cases t <;> simp only [extLe, ExtRat.gtOf, ExtRat.geOf, decide_eq_true_eq] at * <;>
    first | trivial | (exact le_of_lt (lt_of_le_of_lt h hv))

theorem geOf_of_geOf {s t : ExtRat} (h : extLe s t) {v : Rat} (hv : ExtRat.geOf v t = true) :
    ExtRat.geOf v s = true := by
  cases s <;> cases t <;> simp only [extLe, ExtRat.geOf, decide_eq_true_eq] at * <;>
    first | trivial | (exact le_trans h hv)

theorem leOf_of_leOf {s t : ExtRat} (h : extLe s t) {v : Rat} (hv : ExtRat.leOf v s = true) :
    ExtRat.leOf v t = true := by
  cases s <;> cases t <;> simp only [extLe, ExtRat.leOf, decide_eq_true_eq] at * <;>
    first | trivial | (exact le_trans hv h)

theorem geOf_of_gt {t : ExtRat} {v : Rat} (hv : ExtRat.gtOf v t = true) : ExtRat.geOf v t = true := by
  cases t <;> simp only [ExtRat.gtOf, ExtRat.geOf, decide_eq_true_eq] at * <;> first | trivial | exact le_of_lt hv

theorem leOf_of_lt {t : ExtRat} {v : Rat} (hv : ExtRat.ltOf v t = true) : ExtRat.leOf v t = true := by
  cases t <;> simp only [ExtRat.ltOf, ExtRat.leOf, decide_eq_true_eq] at * <;> first | trivial | exact le_of_lt hv

/-- `v ≥ t` excludes `v < t` -/
theorem not_ltOf_of_geOf {t : ExtRat} {v : Rat} (hv : ExtRat.geOf v t = true) : ExtRat.ltOf v t = false := by
  cases t <;> simp only [ExtRat.ltOf, ExtRat.geOf, decide_eq_true_eq, decide_eq_false_iff_not, not_lt] at * <;>
    trivial

theorem not_gtOf_of_leOf {t : ExtRat} {v : Rat} (hv : ExtRat.leOf v t = true) : ExtRat.gtOf v t = false := by
  cases t <;> simp only [ExtRat.gtOf, ExtRat.leOf, decide_eq_true_eq, decide_eq_false_iff_not, not_lt] at * <;>
    trivial

/-- monotonicity in the value -/
theorem gtOf_mono {t : ExtRat} {a b : Rat} (hab : a ≤ b) (h : ExtRat.gtOf a t = true) : ExtRat.gtOf b t = true := by
  cases t <;> simp only [ExtRat.gtOf, decide_eq_true_eq] at * <;> first | trivial | exact lt_of_lt_of_le h hab

theorem ltOf_mono {t : ExtRat} {a b : Rat} (hab : a ≤ b) (h : ExtRat.ltOf b t = true) : ExtRat.ltOf a t = true := by
  cases t <;> simp only [ExtRat.ltOf, decide_eq_true_eq] at * <;> first | trivial | exact lt_of_le_of_lt hab h

/-! ### the property's predicates on one output value -/

/-- `lb ≤ lower_threshold ≤ upper_threshold ≤ ub` (true for every variable of `isimip3_variable_settings`) -/
def CfgOrdered (c : Cfg) : Prop :=
  extLe c.lowerBound c.lowerThreshold ∧ extLe c.lowerThreshold c.upperThreshold ∧ extLe c.upperThreshold c.upperBound

instance (c : Cfg) : Decidable (CfgOrdered c) := by unfold CfgOrdered; exact inferInstance

/-- `lb ≤ v ≤ ub` -/
def InBounds (c : Cfg) (v : Rat) : Prop := ExtRat.geOf v c.lowerBound = true ∧ ExtRat.leOf v c.upperBound = true

/-- `¬ (lb < v < lower_threshold)` and `¬ (upper_threshold < v < ub)` -/
def NoGap (c : Cfg) (v : Rat) : Prop :=
  ¬ (ExtRat.gtOf v c.lowerBound = true ∧ ExtRat.ltOf v c.lowerThreshold = true) ∧
  ¬ (ExtRat.gtOf v c.upperThreshold = true ∧ ExtRat.ltOf v c.upperBound = true)

instance (c : Cfg) (v : Rat) : Decidable (InBounds c v) := by unfold InBounds; exact inferInstance
instance (c : Cfg) (v : Rat) : Decidable (NoGap c v) := by unfold NoGap; exact inferInstance

/-- `lower_threshold ≤ v ≤ upper_threshold` -/
def Mid (c : Cfg) (v : Rat) : Prop := ExtRat.geOf v c.lowerThreshold = true ∧ ExtRat.leOf v c.upperThreshold = true

/-- strictly between the thresholds (`_get_mask_for_values_between_thresholds`) -/
def Between (c : Cfg) (v : Rat) : Prop := ExtRat.gtOf v c.lowerThreshold = true ∧ ExtRat.ltOf v c.upperThreshold = true

/-- what step 6 writes: a bound, or a value not beyond a threshold -/
def Good (c : Cfg) (v : Rat) : Prop := c.lowerBound = .fin v ∨ c.upperBound = .fin v ∨ Mid c v

theorem Between.mid {c : Cfg} {v : Rat} (h : Between c v) : Mid c v := ⟨geOf_of_gt h.1, leOf_of_lt h.2⟩

theorem geOf_self (v : Rat) : ExtRat.geOf v (.fin v) = true := by simp [ExtRat.geOf]
theorem leOf_self (v : Rat) : ExtRat.leOf v (.fin v) = true := by simp [ExtRat.leOf]
theorem gtOf_self (v : Rat) : ExtRat.gtOf v (.fin v) = false := by simp [ExtRat.gtOf]
theorem ltOf_self (v : Rat) : ExtRat.ltOf v (.fin v) = false := by simp [ExtRat.ltOf]

/-- a value step 6 writes is inside the bounds and not in a gap between a bound and its threshold -/
theorem Good.inBounds_noGap {c : Cfg} (ho : CfgOrdered c) {v : Rat} (h : Good c v) : InBounds c v ∧ NoGap c v := by
  obtain ⟨h1, h2, h3⟩ := ho
  rcases h with hl | hu | hm
  · -- v = lower bound
    have hge : ExtRat.geOf v c.lowerBound = true := by rw [hl]; exact geOf_self v
    have hle1 : ExtRat.leOf v c.lowerBound = true := by rw [hl]; exact leOf_self v
    have hleU : ExtRat.leOf v c.upperThreshold = true := leOf_of_leOf (extLe_trans h1 h2) hle1
    refine ⟨⟨hge, leOf_of_leOf h3 hleU⟩, ?_, ?_⟩
    · rintro ⟨hgt, -⟩; rw [hl, gtOf_self] at hgt; exact Bool.noConfusion hgt
    · rintro ⟨hgt, -⟩; rw [not_gtOf_of_leOf hleU] at hgt; exact Bool.noConfusion hgt
  · -- v = upper bound
    have hle : ExtRat.leOf v c.upperBound = true := by rw [hu]; exact leOf_self v
    have hge1 : ExtRat.geOf v c.upperBound = true := by rw [hu]; exact geOf_self v
    have hgeL : ExtRat.geOf v c.lowerThreshold = true := geOf_of_geOf (extLe_trans h2 h3) hge1
    refine ⟨⟨geOf_of_geOf h1 hgeL, hle⟩, ?_, ?_⟩
    · rintro ⟨-, hlt⟩; rw [not_ltOf_of_geOf hgeL] at hlt; exact Bool.noConfusion hlt
    · rintro ⟨-, hlt⟩; rw [hu, ltOf_self] at hlt; exact Bool.noConfusion hlt
  · refine ⟨⟨geOf_of_geOf h1 hm.1, leOf_of_leOf h3 hm.2⟩, ?_, ?_⟩
    · rintro ⟨-, hlt⟩; rw [not_ltOf_of_geOf hm.1] at hlt; exact Bool.noConfusion hlt
    · rintro ⟨hgt, -⟩; rw [not_gtOf_of_leOf hm.2] at hgt; exact Bool.noConfusion hgt

/-! ### masked selection / assignment -/

theorem setWhere_cons {α} (x : α) (xs : List α) (b : Bool) (m : List Bool) (v : α) :
    Py.setWhere (x :: xs) (b :: m) v = (if b then v else x) :: Py.setWhere xs m v := by
  simp [Py.setWhere]

theorem setWhere_length {α} (xs : List α) (m : List Bool) (v : α) (h : m.length = xs.length) :
    (Py.setWhere xs m v).length = xs.length := by
  simp [Py.setWhere, h]

/-- an all-`False` mask assigns nothing -/
theorem setWhere_of_not_any {α} (xs : List α) (m : List Bool) (v : α) (hm : m.length = xs.length)
    (h : m.any id = false) : Py.setWhere xs m v = xs := by
  induction xs generalizing m with
  | nil => simp [Py.setWhere]
  | cons x t ih =>
    cases m with
    | nil => simp at hm
    | cons b m' =>
      simp only [List.any_cons, id, Bool.or_eq_false_iff] at h
      rw [setWhere_cons, ih m' (by simpa using hm) h.2, h.1]; rfl

theorem selectWhere_cons {α} (x : α) (xs : List α) (b : Bool) (m : List Bool) :
    Py.selectWhere (x :: xs) (b :: m) = if b then x :: Py.selectWhere xs m else Py.selectWhere xs m := by
  cases b <;> simp [Py.selectWhere]

theorem selectWhere_length {α} (xs : List α) (m : List Bool) (h : m.length = xs.length) :
    (Py.selectWhere xs m).length = m.count true := by
  induction xs generalizing m with
  | nil => cases m <;> simp_all [Py.selectWhere]
  | cons x t ih =>
    cases m with
    | nil => simp at h
    | cons b m' =>
      have h' : m'.length = t.length := by simpa using h
      rw [selectWhere_cons]
      cases b <;> simp [ih m' h']

theorem selectWhere_mem {α} (xs : List α) (m : List Bool) {e : α} (h : e ∈ Py.selectWhere xs m) : e ∈ xs := by
  unfold Py.selectWhere at h
  rw [List.mem_filterMap] at h
  obtain ⟨p, hp, he⟩ := h
  by_cases hb : p.2 = true
  · simp only [hb, if_true, Option.some.injEq] at he
    rw [← he]; exact (List.of_mem_zip hp).1
  · simp [hb] at he

/-- `x[mask]` with `mask = pred(x)` is `filter` -/
theorem selectWhere_map_eq_filter (xs : List Rat) (p : Rat → Bool) :
    Py.selectWhere xs (xs.map p) = xs.filter p := by
  induction xs with
  | nil => rfl
  | cons x t ih =>
    rw [List.map_cons, selectWhere_cons, ih, List.filter_cons]

theorem fillWhere_nil {α} (xs : List α) (m : List Bool) : fillWhere xs m [] = xs := by
  induction xs generalizing m with
  | nil => cases m <;> rfl
  | cons x t ih =>
    cases m with
    | nil => rfl
    | cons b m' => cases b <;> simp [fillWhere, ih]

theorem fillWhere_length {α} (xs : List α) (m : List Bool) (vs : List α) : (fillWhere xs m vs).length = xs.length := by
  induction xs generalizing m vs with
  | nil => cases m <;> rfl
  | cons x t ih =>
    cases m with
    | nil => rfl
    | cons b m' =>
      cases b
      · simp [fillWhere, ih]
      · cases vs <;> simp [fillWhere, ih]

/-- members of `x[mask] = vals` (array right-hand side with at least `mask.sum()` values): a value of `vals`, or an
    entry of `x` where the mask is `False` -/
theorem fillWhere_mem {α} (xs : List α) (m : List Bool) (vs : List α) (hm : m.length = xs.length)
    (hc : m.count true ≤ vs.length) {e : α} (h : e ∈ fillWhere xs m vs) :
    e ∈ vs ∨ e ∈ Py.selectWhere xs (m.map (!·)) := by
  induction xs generalizing m vs with
  | nil => cases m <;> simp [fillWhere] at h
  | cons x t ih =>
    cases m with
    | nil => simp at hm
    | cons b m' =>
      have hm' : m'.length = t.length := by simpa using hm
      cases b
      · simp only [fillWhere, List.mem_cons] at h
        simp only [List.map_cons, Bool.not_false, selectWhere_cons, if_true, List.mem_cons]
        have hc' : m'.count true ≤ vs.length := by simpa using hc
        rcases h with rfl | h
        · exact Or.inr (Or.inl rfl)
        · rcases ih m' vs hm' hc' h with h | h
          · exact Or.inl h
          · exact Or.inr (Or.inr h)
      · cases vs with
        | nil => simp at hc
        | cons w ws =>
          simp only [fillWhere, List.mem_cons] at h
          simp only [List.map_cons, Bool.not_true, selectWhere_cons, Bool.false_eq_true, if_false, List.mem_cons]
          have hc' : m'.count true ≤ ws.length := by simpa using hc
          rcases h with rfl | h
          · exact Or.inl (Or.inl rfl)
          · rcases ih m' ws hm' hc' h with h | h
            · exact Or.inl (Or.inr h)
            · exact Or.inr h

/-- the entries of step 6's buffer that are in neither bound mask … do not exist once both assignments are made:
    where `notMask` is `False` the buffer holds a bound -/
theorem bounds_where_not_middle {α} (lo hi : α) (xs : List α) (ml mu : List Bool)
    (hl : ml.length = xs.length) (hu : mu.length = xs.length) {e : α}
    (h : e ∈ Py.selectWhere (Py.setWhere (Py.setWhere xs ml lo) mu hi) ((notMask ml mu).map (!·))) :
    (e = lo ∧ ml.any id = true) ∨ (e = hi ∧ mu.any id = true) := by
  induction xs generalizing ml mu with
  | nil => cases ml <;> cases mu <;> simp [Py.setWhere, Py.selectWhere, notMask] at h
  | cons x t ih =>
    cases ml with
    | nil => simp at hl
    | cons bl ml' =>
      cases mu with
      | nil => simp at hu
      | cons bu mu' =>
        have hl' : ml'.length = t.length := by simpa using hl
        have hu' : mu'.length = t.length := by simpa using hu
        simp only [setWhere_cons, notMask, List.zipWith_cons_cons, List.map_cons, selectWhere_cons] at h
        have tail : e ∈ Py.selectWhere (Py.setWhere (Py.setWhere t ml' lo) mu' hi) ((notMask ml' mu').map (!·)) →
            (e = lo ∧ (bl :: ml').any id = true) ∨ (e = hi ∧ (bu :: mu').any id = true) := by
          intro ht
          rcases ih ml' mu' hl' hu' ht with ⟨h1, h2⟩ | ⟨h1, h2⟩
          · exact Or.inl ⟨h1, by simp [List.any_cons, h2]⟩
          · exact Or.inr ⟨h1, by simp [List.any_cons, h2]⟩
        cases bl <;> cases bu <;> simp only [Bool.not_false, Bool.not_true, Bool.and_true, Bool.and_false, Bool.false_eq_true,
          if_true, if_false, List.mem_cons] at h
        · exact tail h
        · rcases h with rfl | h
          · exact Or.inr ⟨rfl, by simp⟩
          · exact tail h
        · rcases h with rfl | h
          · exact Or.inl ⟨rfl, by simp⟩
          · exact tail h
        · rcases h with rfl | h
          · exact Or.inr ⟨rfl, by simp⟩
          · exact tail h

/-- `x[idx]` with valid indices returns members of `x` -/
theorem takeIdx_mem (l : List Rat) (idx : List Nat) (hidx : ∀ i ∈ idx, i < l.length) {e : Rat}
    (h : e ∈ takeIdx l idx) : e ∈ l := by
  unfold takeIdx at h
  rw [List.mem_map] at h
  obtain ⟨i, hi, rfl⟩ := h
  exact getD_mem l i (hidx i hi)

theorem takeIdx_length (l : List Rat) (idx : List Nat) : (takeIdx l idx).length = idx.length := by
  simp [takeIdx]

theorem rankOf_valid (y : List Rat) : ∀ i ∈ rankOf y, i < y.length := by
  intro i hi
  have := (rankOf_perm y).mem_iff.mp hi
  simpa using this

theorem argsort_valid (y : List Rat) : ∀ i ∈ argsort y, i < y.length := by
  intro i hi
  have := (argsort_perm y).mem_iff.mp hi
  simpa using this

/-! ### masks of step 6 have the length of the sample -/

theorem pySliceIdx_le (i : Int) (n : Nat) : pySliceIdx i n ≤ n := by
  unfold pySliceIdx
  split_ifs with h
  · omega
  · exact Nat.min_le_right _ _

theorem lowerMask_length (nr : Int) (n : Nat) : (lowerMask nr n).length = n := by
  have := pySliceIdx_le nr n
  simp [lowerMask]; omega

theorem upperMask_length (nr : Int) (n : Nat) : (upperMask nr n).length = n := by
  have := pySliceIdx_le ((n : Int) - nr) n
  simp [upperMask]; omega

theorem notMask_length (ml mu : List Bool) (h : ml.length = mu.length) : (notMask ml mu).length = ml.length := by
  simp [notMask, h]

/-! ### ecdf / iecdf range laws for samples of any size (from the C16 laws) -/

theorem eq_singleton_of_length_one {x : List Rat} (h : x.length = 1) : ∃ a, x = [a] := by
  match x, h with
  | [a], _ => exact ⟨a, rfl⟩

/-- `ecdf` values lie in `[0,1]` whatever the sample size -/
theorem ecdf_range_any (m : EcdfMethod) (x : List Rat) (v : Rat) : 0 ≤ ecdf1 m x v ∧ ecdf1 m x v ≤ 1 := by
  by_cases h2 : 2 ≤ x.length
  · exact Props.C16.ecdf_range m x h2 v
  · cases m
    · exact ecdfStep_range x v
    · have hl : x.length = 0 ∨ x.length = 1 := by omega
      rcases hl with h0 | h1
      · have : x = [] := List.length_eq_zero_iff.mp h0
        subst this
        have : ecdf1 .linear [] v = 0 := by
          unfold ecdf1 ecdfLin1 interp1 lastLE sortQ linspace; simp
        rw [this]; norm_num
      · obtain ⟨a, rfl⟩ := eq_singleton_of_length_one h1
        rw [Props.C16.ecdf_size_one_linear]; norm_num

/-- `iecdf` on `[0,1]` stays between the minimum and the maximum of every non-empty sample -/
theorem iecdf_range_any (m : IecdfMethod) (y : List Rat) (hy : y ≠ []) {p : Rat} (h0 : 0 ≤ p) (h1 : p ≤ 1) :
    minQ y ≤ iecdf1 m y p ∧ iecdf1 m y p ≤ maxQ y := by
  by_cases h2 : 2 ≤ y.length
  · exact Props.C16.iecdf_range m y h2 h0 h1
  · have hpos : 1 ≤ y.length := Nat.one_le_iff_ne_zero.mpr (fun h0 => hy (List.length_eq_zero_iff.mp h0))
    have hl : y.length = 1 := by omega
    obtain ⟨a, rfl⟩ := eq_singleton_of_length_one hl
    rw [Props.C16.iecdf_size_one m a h0 h1]
    exact ⟨le_refl _, le_refl _⟩

/-- every value of `quantile_map_non_parametically(x, y, vals)` lies in `[min y, max y]` -/
theorem qmap_mem_range (em : EcdfMethod) (im : IecdfMethod) (x y vals : List Rat) (hy : y ≠ []) {e : Rat}
    (h : e ∈ qmap em im x y vals) : minQ y ≤ e ∧ e ≤ maxQ y := by
  unfold qmap iecdf ecdf at h
  simp only [List.mem_map] at h
  obtain ⟨p, ⟨v, -, rfl⟩, rfl⟩ := h
  exact iecdf_range_any im y hy (ecdf_range_any em x v).1 (ecdf_range_any em x v).2

theorem qmap_length (em : EcdfMethod) (im : IecdfMethod) (x y vals : List Rat) : (qmap em im x y vals).length = vals.length := by
  simp [qmap, iecdf, ecdf]

/-- a quantile map onto a non-empty sample all of whose members are strictly between the thresholds stays strictly
    between the thresholds -/
theorem qmap_between (c : Cfg) (em : EcdfMethod) (im : IecdfMethod) (x y vals : List Rat) (hy : y ≠ [])
    (hb : ∀ w ∈ y, Between c w) {e : Rat} (h : e ∈ qmap em im x y vals) : Between c e := by
  obtain ⟨h1, h2⟩ := qmap_mem_range em im x y vals hy h
  exact ⟨gtOf_mono h1 (hb _ (minQ_mem hy)).1, ltOf_mono h2 (hb _ (maxQ_mem hy)).2⟩

/-! ### values between thresholds -/

theorem valuesBetween_eq_filter (c : Cfg) (x : List Rat) :
    valuesBetween c x = x.filter (fun v => ExtRat.gtOf v c.lowerThreshold && ExtRat.ltOf v c.upperThreshold) := by
  unfold valuesBetween maskBetween
  exact selectWhere_map_eq_filter x _

theorem valuesBetween_between (c : Cfg) (x : List Rat) : ∀ w ∈ valuesBetween c x, Between c w := by
  intro w hw
  rw [valuesBetween_eq_filter, List.mem_filter, Bool.and_eq_true] at hw
  exact hw.2

theorem valuesBetween_mem (c : Cfg) (x : List Rat) {w : Rat} (hw : w ∈ valuesBetween c x) : w ∈ x := by
  rw [valuesBetween_eq_filter, List.mem_filter] at hw
  exact hw.1

/-- the number of values between thresholds does not depend on the order of the sample -/
theorem valuesBetween_length_perm (c : Cfg) {x y : List Rat} (h : x.Perm y) :
    (valuesBetween c x).length = (valuesBetween c y).length := by
  rw [valuesBetween_eq_filter, valuesBetween_eq_filter]
  exact (h.filter _).length_eq

theorem valuesBetween_sortQ_length (c : Cfg) (x : List Rat) :
    (valuesBetween c (sortQ x)).length = (valuesBetween c x).length :=
  valuesBetween_length_perm c (sortQ_perm x)

end Lemmas.C10
