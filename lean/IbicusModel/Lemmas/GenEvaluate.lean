/-
  Tier A proof obligations for C20: the per-location formulas regenerated from the current text of
  `ibicus/evaluate/{marginal,trend,multivariate}.py` (`Gen.Evaluate`) are equal to the hand-written model
  (`Model.Evaluate`), for every statistic passed as a parameter.  A formula computed from another data set, a dropped
  factor, a changed guard or split index breaks one of these.
-/
import IbicusModel.Model.Evaluate
import IbicusModel.Gen.Evaluate
import IbicusModel.Gen.EvaluateConfig
import Mathlib.Tactic.Ring
import Mathlib.Tactic.SplitIfs

set_option linter.unusedSimpArgs false
set_option linter.unnecessarySeqFocus false
set_option linter.unusedTactic false
set_option linter.unreachableTactic false

namespace Lemmas.GenEvaluate
open Model.Evaluate

theorem bind_ok_id {α} (x : Except String α) : (do let t ← x; (Except.ok t : Except String α)) = x := by
  cases x <;> rfl

/-- closes `do let t ← divE a b; .ok t = divE a' b'` once the arguments agree up to casts -/
macro "close_div" : tactic =>
  `(tactic| first | done | (push_cast; first | done | rfl | exact bind_ok_id _))

/-! ### marginal.py -/

theorem marginal_metrics_absolute_bias (P : List Rat → List Int → Rat) (obs cm : List Rat) (tO tC : List Int) :
    Gen.Evaluate.marginal_metrics_absolute_bias P obs cm tO tC = marginalMetricsAbsoluteBias P obs cm tO tC := by
  simp only [Gen.Evaluate.marginal_metrics_absolute_bias, marginalMetricsAbsoluteBias] <;> push_cast <;> ring

theorem marginal_bias_aux (bt : String) (cm obs : Rat) :
    (do
      if bt = "percentage" then
        let t ← Py.divE ((((100 : Int) : Int) : Rat) * (cm - obs)) obs
        let b : Rat := t
        if bt = "absolute" then
          let b : Rat := cm - obs
          (Except.ok b : Except String Rat)
        else (.ok b)
      else
        if bt = "absolute" then
          let b : Rat := cm - obs
          (.ok b)
        else (.error "UnboundLocalError")) = marginalBias bt cm obs := by
  unfold marginalBias pctBias absBias
  by_cases h1 : bt = "percentage"
  · subst h1
    simp only [if_true, show ¬ ("percentage" = "absolute") by decide, if_false]
    close_div
  · simp only [h1, if_false] <;> (split_ifs <;> rfl)

theorem marginal_mean_bias (obs cm : List Rat) (bt : String) :
    Gen.Evaluate.marginal_mean_bias obs cm bt = marginalMeanBias obs cm bt := by
  unfold Gen.Evaluate.marginal_mean_bias marginalMeanBias
  exact marginal_bias_aux bt _ _

theorem marginal_quantile_bias (Q : List Rat → Rat → Rat) (q : Rat) (obs cm : List Rat) (bt : String) :
    Gen.Evaluate.marginal_quantile_bias Q q obs cm bt = marginalQuantileBias Q q obs cm bt := by
  unfold Gen.Evaluate.marginal_quantile_bias marginalQuantileBias
  push_cast
  by_cases h : q < 0 ∨ q > 1
  · simp only [h, if_true]
  · simp only [h, if_false]
    exact marginal_bias_aux bt _ _

theorem marginal_metrics_bias (P : List Rat → List Int → Rat) (obs cm : List Rat) (tO tC : List Int) :
    Gen.Evaluate.marginal_metrics_bias P obs cm tO tC = marginalMetricsBias P obs cm tO tC := by
  unfold Gen.Evaluate.marginal_metrics_bias marginalMetricsBias pctBias
  close_div

theorem yearly_exceedances (I : List Rat → List Int → List Int) (yearOf : List Int → List Int) (x : List Rat) (t : List Int) :
    Gen.Evaluate.yearly_exceedances I yearOf x t = yearlyExceedances (yearOf t) (I x t) := rfl

theorem mean_yearly_exceedances (I : List Rat → List Int → List Int) (yearOf : List Int → List Int) (x : List Rat) (t : List Int) :
    Gen.Evaluate.mean_yearly_exceedances I yearOf x t = meanYearlyExceedances (yearOf t) (I x t) := rfl

/-! ### trend.py -/

theorem trend_bias_aux (g : Bool) (tt : String) (rawV rawF bcV bcF : Rat) :
    (do
      if tt = "additive" then
        let bc_trend : Rat := bcF - bcV
        let raw_trend : Rat := rawF - rawV
        let t ← Py.divE ((((100 : Int) : Int) : Rat) * (bc_trend - raw_trend)) raw_trend
        let bias : Rat := t
        (Except.ok bias : Except String Rat)
      else
        if ¬ (tt = "multiplicative") then (.error "ValueError")
        else
          if g = true ∧ ¬ (bcV ≠ (((0 : Int) : Int) : Rat) ∧ rawV ≠ (((0 : Int) : Int) : Rat)) then (.error "ZeroDivisionError")
          else
            let t2 ← Py.divE bcF bcV
            let bc_trend : Rat := t2
            let t3 ← Py.divE rawF rawV
            let raw_trend : Rat := t3
            let t4 ← Py.divE ((((100 : Int) : Int) : Rat) * (bc_trend - raw_trend)) raw_trend
            let bias : Rat := t4
            (.ok bias)) = trendBias g tt rawV rawF bcV bcF := by
  unfold trendBias pctBias
  by_cases h1 : tt = "additive"
  · simp only [h1, if_true]; close_div
  · by_cases h2 : tt = "multiplicative"
    · have e : (g = true ∧ ¬ (bcV ≠ (((0 : Int) : Int) : Rat) ∧ rawV ≠ (((0 : Int) : Int) : Rat))) ↔ (g = true ∧ (bcV = 0 ∨ rawV = 0)) := by
        push_cast
        constructor
        · rintro ⟨hg, h⟩; refine ⟨hg, ?_⟩; by_contra hc; push Not at hc; exact h hc
        · rintro ⟨hg, h⟩; refine ⟨hg, ?_⟩; rintro ⟨ha, hb⟩; rcases h with h | h <;> contradiction
      subst h2
      simp only [show ¬ ("multiplicative" = "additive") by decide, if_true, if_false, not_true_eq_false, e]
      split_ifs
      · rfl
      · cases Py.divE bcF bcV with
        | error e => rfl
        | ok x =>
          cases Py.divE rawF rawV with
          | error e => rfl
          | ok y =>
            simp only [bind, Except.bind]
            close_div
    · simp only [h1, h2, if_false, not_false_eq_true, if_true]

theorem calculate_mean_trend_bias (tt : String) (rawV rawF bcV bcF : List Rat) :
    Gen.Evaluate.calculate_mean_trend_bias tt rawV rawF bcV bcF = meanTrendBias tt rawV rawF bcV bcF := by
  unfold Gen.Evaluate.calculate_mean_trend_bias meanTrendBias
  rw [← trend_bias_aux]
  simp only [Bool.false_eq_true, false_and, if_false]

theorem calculate_quantile_trend_bias (Q : List Rat → Rat → Rat) (tt : String) (q : Rat) (rawV rawF bcV bcF : List Rat) :
    Gen.Evaluate.calculate_quantile_trend_bias Q tt q rawV rawF bcV bcF = quantileTrendBias Q tt q rawV rawF bcV bcF := by
  unfold Gen.Evaluate.calculate_quantile_trend_bias quantileTrendBias
  rw [← trend_bias_aux]
  simp only [true_and]

theorem calculate_metrics_trend_bias (P : List Rat → List Int → Rat) (tt : String) (rawV rawF bcV bcF : List Rat) (tV tF : List Int) :
    Gen.Evaluate.calculate_metrics_trend_bias P tt rawV rawF bcV bcF tV tF = metricsTrendBias P tt rawV rawF bcV bcF tV tF := by
  unfold Gen.Evaluate.calculate_metrics_trend_bias metricsTrendBias
  rw [← trend_bias_aux]
  simp only [true_and]

theorem trend_aux (g : Bool) (tt : String) (val fut : Rat) :
    (do
      if tt = "additive" then
        let bc_trend : Rat := fut - val
        (Except.ok bc_trend : Except String Rat)
      else
        if ¬ (tt = "multiplicative") then (.error "ValueError")
        else
          if g = true ∧ ¬ (val ≠ (((0 : Int) : Int) : Rat)) then (.error "ZeroDivisionError")
          else
            let t ← Py.divE fut val
            let bc_trend : Rat := t
            (.ok bc_trend)) = trend g tt val fut := by
  unfold trend
  by_cases h1 : tt = "additive"
  · simp only [h1, if_true] <;> rfl
  · by_cases h2 : tt = "multiplicative"
    · subst h2
      simp only [show ¬ ("multiplicative" = "additive") by decide, if_true, if_false, not_true_eq_false, ne_eq, not_not]
      push_cast
      split_ifs
      · rfl
      · exact bind_ok_id _
    · simp only [h1, h2, if_false, not_false_eq_true, if_true]

theorem calculate_mean_trend (tt : String) (bcV bcF : List Rat) :
    Gen.Evaluate.calculate_mean_trend tt bcV bcF = meanTrend tt bcV bcF := by
  unfold Gen.Evaluate.calculate_mean_trend meanTrend
  rw [← trend_aux]
  simp only [Bool.false_eq_true, false_and, if_false]

theorem calculate_quantile_trend (Q : List Rat → Rat → Rat) (tt : String) (q : Rat) (bcV bcF : List Rat) :
    Gen.Evaluate.calculate_quantile_trend Q tt q bcV bcF = quantileTrend Q tt q bcV bcF := by
  unfold Gen.Evaluate.calculate_quantile_trend quantileTrend
  rw [← trend_aux]
  simp only [true_and]

theorem calculate_metrics_trend (P : List Rat → List Int → Rat) (tt : String) (bcV bcF : List Rat) (tV tF : List Int) :
    Gen.Evaluate.calculate_metrics_trend P tt bcV bcF tV tF = metricsTrend P tt bcV bcF tV tF := by
  unfold Gen.Evaluate.calculate_metrics_trend metricsTrend
  rw [← trend_aux]
  simp only [true_and]

/-! ### multivariate.py -/

theorem setWhere_zero_two (l : List Int) :
    Py.setWhere l (l.map (fun x => decide (x = (0 : Int)))) (2 : Int) = l.map (fun v => if v = 0 then 2 else v) := by
  induction l with
  | nil => rfl
  | cons a t ih =>
    simp only [Py.setWhere, List.map_cons, List.zip_cons_cons] at *
    rw [ih]
    by_cases h : a = 0 <;> simp [h]

theorem calculate_chi (I1 I2 : List Rat → List Int → List Int) (x1 x2 : List Rat) (t : List Int) :
    Gen.Evaluate.calculate_chi I1 I2 x1 x2 t = chi (I1 x1 t) (I2 x2 t) := by
  unfold Gen.Evaluate.calculate_chi chi cooccurrence
  simp only [setWhere_zero_two]
  split_ifs
  · rfl
  · exact bind_ok_id _

/-! ### configuration -/

/-- the default arguments in the source are the documented ones -/
theorem defaults : Gen.EvaluateConfig.defaults = documentedDefaults := rfl

end Lemmas.GenEvaluate
