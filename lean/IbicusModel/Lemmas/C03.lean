/-
  Helper lemmas for C03 (no-bias fixed point) and C01 (bias removal when F = H): the `NoClip` guard of the
  parametric mappings, the CDFt composite at one value, conditional lifts of per-window fixed points to the
  write-back loops (the guard is required on the window samples only), window samples of tie-free series.
-/
import IbicusModel.Model.Debiasers
import IbicusModel.Lemmas.Family
import IbicusModel.Lemmas.StatsInverse
import IbicusModel.Lemmas.Lift
import IbicusModel.Lemmas.Years
import IbicusModel.Lemmas.Perm

namespace Lemmas.C03
open Model.Stats Model.Family Model.Debiasers Model.Skeleton Model.Windows Lemmas.Stats

/-! ### small list facts -/

theorem map_eq_self {α} (l : List α) (g : α → α) (h : ∀ x ∈ l, g x = x) : l.map g = l := by
  induction l with
  | nil => rfl
  | cons a t ih =>
    rw [List.map_cons, h a List.mem_cons_self, ih (fun x hx => h x (List.mem_cons_of_mem _ hx))]

theorem thresholdCdf_id (t v : Rat) (h0 : t ≤ v) (h1 : v ≤ 1 - t) : thresholdCdf t v = v := by
  unfold thresholdCdf
  rw [min_eq_left h1, max_eq_left h0]

theorem thresholdCdf_above (t v : Rat) (ht : t ≤ 1 / 2) (h : 1 - t < v) : thresholdCdf t v = 1 - t := by
  unfold thresholdCdf
  rw [min_eq_right (le_of_lt h), max_eq_left (by linarith)]

theorem thresholdCdf_below (t v : Rat) (ht : t ≤ 1 / 2) (h : v < t) : thresholdCdf t v = t := by
  unfold thresholdCdf
  rw [min_eq_left (by linarith), max_eq_right (le_of_lt h)]

/-! ### the `NoClip` guard of the parametric mappings -/

/-- no value of `xs` is touched by `threshold_cdf_vals`: every cdf value under the parameters `p` lies in
    `[t, 1 − t]` (decidable) -/
def NoClip (Fam : LocScaleFam) (t : Rat) (p : Rat × Rat) (xs : List Rat) : Prop :=
  ∀ x ∈ xs, t ≤ Fam.cdf p x ∧ Fam.cdf p x ≤ 1 - t

instance (Fam : LocScaleFam) (t : Rat) (p : Rat × Rat) (xs : List Rat) : Decidable (NoClip Fam t p xs) := by
  unfold NoClip; exact inferInstance

/-- the series `_standard_qm` is applied to, per detrending mode -/
def qmDetrended (d : Detrending) (H F : List Rat) : List Rat :=
  match d with
  | .additive => F.map (fun x => x - (mean F - mean H))
  | .multiplicative => F.map (fun x => x / (mean F / mean H))
  | .no_detrending => F

/-- parametric `_standard_qm` without clipping is the location–scale map
    `v ↦ loc_obs + scale_obs · ((v − loc_H) / scale_H)` -/
theorem standardQMParam_noclip {Fam : LocScaleFam} (L : LocScaleLaws Fam) (t : Rat) (x obs H : List Rat)
    (hc : NoClip Fam t (Fam.fit H) x) :
    standardQMParam Fam.toFamily t x obs H =
      x.map (fun v => Fam.loc obs + Fam.scale obs * ((v - Fam.loc H) / Fam.scale H)) := by
  unfold standardQMParam
  apply List.map_congr_left
  intro v hv
  obtain ⟨h0, h1⟩ := hc v hv
  simp only [LocScaleFam.toFamily]
  rw [thresholdCdf_id t _ h0 h1]
  unfold LocScaleFam.ppf LocScaleFam.cdf LocScaleFam.fit
  simp only []
  rw [L.Ginv_G]

/-! ### CDFt with the default pair at one value -/

theorem ecdf1_linear (x : List Rat) (y : Rat) : ecdf1 .linear x y = ecdfLin1 x y := rfl

theorem quantileLinear_singleton (a p : Rat) : iecdf1 .linear [a] p = a := by
  have hp : ([a] : List Rat).Pairwise (· ≤ ·) := List.pairwise_singleton _ _
  have hs : sortQ [a] = [a] := sortQ_of_sorted hp
  unfold iecdf1 iecdfSorted
  simp only []
  rw [hs, quantileLinear_eq]
  have hc : ∀ vi, clampLerp [a] vi = a := fun vi => by
    have := clampLerp_range hp (by simp) vi
    simp at this; exact le_antisymm this.2 this.1
  exact hc _

/-- `iecdf_F( ecdf_obs( iecdf_obs( ecdf_F(v) ) ) ) = v` for a value `v` of the tie-free sample `F`
    (default methods: `linear_interpolation` / `linear`), tie-free `obs` with at least two values -/
theorem cdft_elem {obs F : List Rat} (ho : obs.Nodup) (hno : 2 ≤ obs.length) (hF : F.Nodup) {v : Rat}
    (hv : v ∈ F) :
    iecdf1 .linear F (ecdfLin1 obs (iecdf1 .linear obs (ecdfLin1 F v))) = v := by
  by_cases hn : 2 ≤ F.length
  · obtain ⟨h0, h1⟩ := ecdfLin_range hn v
    rw [ecdfLin_iecdfLinear ho hno h0 h1]
    exact quantile_at_own_rank hF hn hv
  · match F, hv, hn with
    | [a], hv, _ =>
      have : v = a := by simpa using hv
      rw [this]; exact quantileLinear_singleton a _
    | a :: b :: t, _, hn => simp at hn

/-- with `cm_hist = obs` the delta shift of `_apply_CDFt_mapping` is 0 (resp. 1): nothing is shifted -/
theorem cdftShifted_self (d : DeltaShift) (obs F : List Rat) (hm : d = .multiplicative → mean obs ≠ 0) :
    cdftShifted d obs obs F = (obs, F) := by
  cases d with
  | additive =>
    simp only [cdftShifted, sub_self, add_zero, List.map_id']
  | multiplicative =>
    have := hm rfl
    simp only [cdftShifted, div_self this, mul_one, List.map_id']
  | no_shift => rfl

/-! ### window samples of a tie-free series are tie-free -/

theorem take_indicesIn_sublist {α} (x : List α) (d r : List Int) (hl : x.length = d.length) :
    (take x (indicesIn d r)).Sublist x := by
  rw [Lemmas.Perm.take_indicesIn_eq_zip_filter x d r hl]
  have h1 : (((x.zip d).filter (fun pr => r.contains pr.2)).map Prod.fst).Sublist ((x.zip d).map Prod.fst) :=
    List.Sublist.map _ List.filter_sublist
  rwa [List.map_fst_zip (by omega)] at h1

theorem take_idxWindow_nodup (x : List Rat) (L : Int) (d : List Int) (c : Int) (hl : x.length = d.length)
    (hx : x.Nodup) : (take x (idxWindow L d c)).Nodup :=
  (take_indicesIn_sublist x d _ hl).nodup hx

theorem selectWhere_sublist {α} (x : List α) (m : List Bool) : (Py.selectWhere x m).Sublist x := by
  unfold Py.selectWhere
  induction x generalizing m with
  | nil => simp
  | cons a t ih =>
    cases m with
    | nil => simp
    | cons b u =>
      simp only [List.zip_cons_cons, List.filterMap_cons]
      cases b
      · simp only [Bool.false_eq_true, if_false]
        exact (ih u).trans (List.sublist_cons_self a t)
      · simp only [if_true]
        exact (ih u).cons_cons a

/-! ### conditional lifts: the per-window fixed point is needed on the window samples only -/

/-- running-window loop with `cm_hist = obs` (same dates, same values): if on every window the window function
    returns the future sample unchanged, the run returns `cm_future` unchanged, every step assigned -/
theorem applyLocationRW_fixed_on {α} (f : WinFn α) (L S h : Int) (dO dF : List Int) (obs fut : List α)
    (hS : S = 2 * h + 1) (hh : 0 ≤ h) (hSL : S ≤ L) (hlen : dF.length = fut.length)
    (hr : ∀ d ∈ dF, 1 ≤ d ∧ d ≤ 366)
    (hf : ∀ c ∈ useCenters S dF,
      f (take obs (idxWindow L dO c)) (take obs (idxWindow L dO c)) (take fut (idxWindow L dF c))
        (idxWindow L dO c) (idxWindow L dO c) (idxWindow L dF c) = .ok (take fut (idxWindow L dF c))) :
    applyLocationRW f L S dO dO dF obs obs fut = .ok (fut.map some) := by
  let f' : WinFn α := fun _ _ x _ _ _ => .ok x
  have hcongr : applyLocationRW f L S dO dO dF obs obs fut = applyLocationRW f' L S dO dO dF obs obs fut := by
    unfold applyLocationRW
    apply Lemmas.Lift.runLoop_congr
    intro c hc
    unfold windowWrites
    simp only [hf c hc, f']
  rw [hcongr]
  exact Lemmas.Lift.applyLocationRW_fixed f' (fun _ _ _ _ => rfl) L S h dO dF obs fut hS hh hSL hlen hr

/-- the CDFt / QDM loop over year windows of the future period: if on every window the per-window function
    returns its sample unchanged, the loop returns `cm_future` unchanged -/
theorem applyYears_fixed_on {α} (g : YearFn α) (L S h : Int) (years : List Int) (fut : List α)
    (hS : S = 2 * h + 1) (hh : 0 ≤ h) (hSL : S ≤ L) (hlen : years.length = fut.length)
    (hg : ∀ c ∈ yearCenters S years,
      g (Py.selectWhere fut (yearMask years (yearsInWindow L c))) (Py.whereTrue (yearMask years (yearsInWindow L c)))
        = .ok (Py.selectWhere fut (yearMask years (yearsInWindow L c)))) :
    applyYears g L S years fut = .ok (fut.map some) := by
  let g' : YearFn α := fun x _ => .ok x
  have hcongr : applyYears g L S years fut = applyYears g' L S years fut := by
    unfold applyYears
    apply Lemmas.Lift.runLoop_congr
    intro c hc
    unfold yearWrites
    simp only [hg c hc, g']
  rw [hcongr]
  exact Lemmas.Years.applyYears_fixed g' (fun _ _ => rfl) L S h years fut hS hh hSL hlen

/-! ### per-window functions as `Skeleton.WinFn` / composition of the two window loops -/

/-- a (total) per-window transfer function as a `WinFn` (the window's index lists are not used) -/
def winOf (w : List Rat → List Rat → List Rat → List Rat) : WinFn Rat := fun o h x _ _ _ => .ok (w o h x)

/-- the result buffer of an inner loop used as an array: an unassigned entry (NaN under the verification hook,
    uninitialised memory otherwise) is reported as the error `"unassigned"` -/
def allAssigned {α} (l : List (Option α)) : Except String (List α) :=
  if l.all Option.isSome then .ok (l.filterMap id) else .error "unassigned"

theorem allAssigned_map_some {α} (x : List α) : allAssigned (x.map some) = .ok x := by
  unfold allAssigned
  have h1 : (x.map some).all Option.isSome = true := by simp
  have h2 : (x.map some).filterMap id = x := by
    induction x with
    | nil => rfl
    | cons a t _ => simp
  rw [h1, h2]; rfl

/-- `apply_on_window` of CDFt / QDM with year windows, seen from the running-window loop over days of year:
    the years of the window sample are looked up by the window's index list -/
def winOfYears (g : List Rat → List Rat → YearFn Rat) (Ly Sy : Int) (yearsF : List Int) : WinFn Rat :=
  fun o h x _ _ ix => (applyYears (g o h) Ly Sy (take yearsF ix) x).bind allAssigned

/-! ### general (not necessarily location–scale) families: gamma, beta, … -/

/-- `NoClip` for an arbitrary family -/
def NoClipG {P} (Fam : Family P) (t : Rat) (p : P) (xs : List Rat) : Prop :=
  ∀ x ∈ xs, t ≤ Fam.cdf p x ∧ Fam.cdf p x ≤ 1 - t

instance {P} (Fam : Family P) (t : Rat) (p : P) (xs : List Rat) : Decidable (NoClipG Fam t p xs) := by
  unfold NoClipG; exact inferInstance

/-- the one law of a distribution family the fixed point needs: `ppf ∘ cdf = id` at the values concerned (holds on the
    support of every continuous scipy family; assumed, trusted base) -/
def PpfCdfOn {P} (Fam : Family P) (p : P) (xs : List Rat) : Prop := ∀ x ∈ xs, Fam.ppf p (Fam.cdf p x) = x

/-! ### CDFt's stochastic singularity removal on strictly positive series -/

theorem ssrRandomize_of_ne_zero : ∀ (x u : List Rat), (∀ v ∈ x, v ≠ 0) → x.length ≤ u.length → ssrRandomize x u = x
  | [], _, _, _ => by simp [ssrRandomize]
  | a :: x, [], _, h => by simp at h
  | a :: x, r :: u, hx, h => by
      have ha : a ≠ 0 := hx a List.mem_cons_self
      have ih := ssrRandomize_of_ne_zero x u (fun v hv => hx v (List.mem_cons_of_mem _ hv)) (by simpa using h)
      unfold ssrRandomize at ih ⊢
      simp only [List.zipWith_cons_cons, ha, if_false, ih]

/-- no value of a strictly positive `cm_future` lies below the SSR threshold (the smallest positive value of the three
    samples), so `_set_values_below_threshold_to_zero` changes nothing -/
theorem ssrAfter_of_pos (obs H F : List Rat) (hF : ∀ v ∈ F, 0 < v) : ssrAfter (ssrThreshold obs H F) F = F := by
  unfold ssrAfter
  apply map_eq_self
  intro v hv
  have hmem : v ∈ obs.filter (fun v => decide (v > 0)) ++ H.filter (fun v => decide (v > 0)) ++ F.filter (fun v => decide (v > 0)) := by
    apply List.mem_append_right
    exact List.mem_filter.mpr ⟨hv, by simpa using hF v hv⟩
  have hthr : ssrThreshold obs H F ≤ v := by
    unfold ssrThreshold
    simp only []
    split
    · exact le_of_lt (hF v hv)
    · exact minQ_le hmem
  rw [if_neg (not_lt.mpr hthr)]

/-- the loop over year windows with a centre-dependent per-window function (SSR draws afresh in every window) -/
theorem applyYearsC_fixed_on {α} (g : Int → YearFn α) (L S h : Int) (years : List Int) (fut : List α)
    (hS : S = 2 * h + 1) (hh : 0 ≤ h) (hSL : S ≤ L) (hlen : years.length = fut.length)
    (hg : ∀ c ∈ yearCenters S years,
      g c (Py.selectWhere fut (yearMask years (yearsInWindow L c))) (Py.whereTrue (yearMask years (yearsInWindow L c)))
        = .ok (Py.selectWhere fut (yearMask years (yearsInWindow L c)))) :
    applyYearsC g L S years fut = .ok (fut.map some) := by
  let g' : YearFn α := fun x _ => .ok x
  have hcongr : applyYearsC g L S years fut = applyYears g' L S years fut := by
    unfold applyYearsC applyYears
    apply Lemmas.Lift.runLoop_congr
    intro c hc
    unfold yearWrites
    simp only [hg c hc, g']
  rw [hcongr]
  exact Lemmas.Years.applyYears_fixed g' (fun _ _ => rfl) L S h years fut hS hh hSL hlen

end Lemmas.C03
