/-
  Tier A proof obligations for C16 (and every property stated on `Model/Stats.lean`): the structure of the ecdf / quantile
  toolkit regenerated from /repo's current source as terms of the numpy-expression language (`Gen/Stats.lean`)

    (1) equals the expected term of `Model/NpStats.lean`                       (`Lemmas.GenStats.gen_*`,   closed terms, `decide`)
    (2) whose denotation IS the hand-written function of `Model/Stats.lean`     (`Lemmas.GenStats.sem_*`,   all inputs)

  for every method literal of the dispatch tables, and the error for every other string.  A different array / size /
  comparison / correction / method literal / an extra shortcut in the source breaks (1).
-/
import IbicusModel.Model.NpStats
import IbicusModel.Gen.Stats
import IbicusModel.Lemmas.Stats
import IbicusModel.Lemmas.StatsIecdf
import IbicusModel.Lemmas.StatsEcdf
import Mathlib.Tactic.FieldSimp

namespace Lemmas.GenStats
open Model.Stats Model.NpStats Lemmas.Stats

/-! ### (1) regenerated term = expected term -/

theorem gen_IECDF : Gen.Stats.IECDF = Model.NpStats.IECDF := by decide +kernel
theorem gen_iecdf : Gen.Stats.iecdf = Model.NpStats.iecdf := by decide +kernel
theorem gen_ecdf : Gen.Stats.ecdf = Model.NpStats.ecdf := by decide +kernel
theorem gen_quantile_map_non_parametically :
    Gen.Stats.quantile_map_non_parametically = Model.NpStats.quantile_map_non_parametically := by decide +kernel
theorem gen_quantile_map_non_parametically_with_constant_extrapolation :
    Gen.Stats.quantile_map_non_parametically_with_constant_extrapolation
      = Model.NpStats.quantile_map_non_parametically_with_constant_extrapolation := by decide +kernel
theorem gen_isimip_quantile_map_x_on_y_non_parametically :
    Gen.Stats.isimip_quantile_map_x_on_y_non_parametically = Model.NpStats.isimip_quantile_map_x_on_y_non_parametically := by
  decide +kernel
theorem gen_quantile_map_x_on_y_non_parametically :
    Gen.Stats.quantile_map_x_on_y_non_parametically = Model.NpStats.quantile_map_x_on_y_non_parametically := by decide +kernel
theorem gen_sort_array_like_another_one :
    Gen.Stats.sort_array_like_another_one = Model.NpStats.sort_array_like_another_one := by decide +kernel
theorem gen_defaults : Gen.Stats.defaults = Model.NpStats.defaults := by decide +kernel

/-! ### (2) helper facts -/

/-- `np.quantile(x, np.linspace(0, 1, n))` (method `linear`) on a sorted sample of size `n` is the sample itself: the
    `k`-th knot `k/(n-1)` has virtual index exactly `k` (this is the sentence "in exact arithmetic …" of `ecdfLin1`) -/
theorem quantileLinear_knots (s : List Rat) : (linspace 0 1 s.length).map (quantileLinear s) = s := by
  apply List.ext_getElem
  · simp [linspace_length]
  · intro k h1 h2
    simp only [List.getElem_map]
    by_cases hn : 2 ≤ s.length
    · have hlin : (linspace 0 1 s.length)[k]'(by simpa [linspace_length] using h2) = (k : Rat) / ((s.length : Rat) - 1) := by
        rw [← getD_eq _ k (by simpa [linspace_length] using h2)]; exact linspace01_getD hn h2
      rw [hlin]
      have hn' : (2 : Rat) ≤ (s.length : Rat) := by exact_mod_cast hn
      have hne : ((s.length : Rat) - 1) ≠ 0 := by
        intro h; linarith
      have hvi : ((s.length : Rat) - 1) * ((k : Rat) / ((s.length : Rat) - 1)) = (k : Rat) := by
        field_simp
      unfold quantileLinear
      simp only [hvi]
      by_cases hlast : k = s.length - 1
      · have hge : (k : Rat) ≥ (s.length : Rat) - 1 := by
          rw [hlast, Nat.cast_sub (by omega)]; push_cast; exact le_refl _
        rw [if_pos hge, pyIdx_neg_one, ← hlast, getD_eq s k h2]
      · have hlt : k + 1 < s.length := by omega
        have hlt' : (k : Rat) + 1 < (s.length : Rat) := by exact_mod_cast hlt
        have hfl : (k : Rat).floor = (k : Int) := by
          rw [floor_eq_iff]; push_cast; constructor <;> linarith
        rw [if_neg (by intro h; linarith), if_neg (by
          have : (0 : Rat) ≤ (k : Rat) := by positivity
          intro h; linarith), hfl, pyIdx_nat]
        unfold lerp
        push_cast
        rw [getD_eq s k h2]
        ring
    · have hlen : s.length = 1 := by omega
      have hk : k = 0 := by omega
      subst hk
      unfold quantileLinear
      simp only [hlen, linspace]
      simp only [if_true, List.getElem_cons_zero, Nat.cast_one, sub_self, mul_zero, ge_iff_le, le_refl]
      rw [pyIdx_neg_one, hlen, getD_eq s 0 h2]

theorem iecdf_linear_knots (x : List Rat) : Model.Stats.iecdf .linear x (linspace 0 1 x.length) = sortQ x := by
  have h := quantileLinear_knots (sortQ x)
  rw [sortQ_length] at h
  have e : iecdfSorted .linear (sortQ x) = quantileLinear (sortQ x) := by funext q; rfl
  unfold Model.Stats.iecdf
  rw [e]; exact h

theorem selectWhere_map (xs : List Rat) (p : Rat → Bool) : Py.selectWhere xs (xs.map p) = xs.filter p := by
  unfold Py.selectWhere
  induction xs with
  | nil => simp
  | cons a t ih =>
    simp only [List.map_cons, List.zip_cons_cons, List.filterMap_cons, List.filter_cons]
    cases hp : p a <;> simp [ih]

/-- two mask assignments with computed values = one element-wise choice -/
theorem scatter_filter (p : Rat → Bool) (f : Rat → Rat) :
    ∀ (xs t : List Rat), t.length = xs.length →
      Prim.scatter? t (xs.map p) ((xs.filter p).map f) = some (List.zipWith (fun v m => if p v then f v else m) xs t) := by
  intro xs
  induction xs with
  | nil => intro t ht; cases t with
    | nil => simp [Prim.scatter?]
    | cons _ _ => simp at ht
  | cons a xs ih =>
    intro t ht
    cases t with
    | nil => simp at ht
    | cons b t =>
      have ht' : t.length = xs.length := by simpa using ht
      cases hp : p a
      · simp [Prim.scatter?, hp, ih t ht']
      · simp [Prim.scatter?, hp, ih t ht']

theorem getD_natCast_pyIdx (s : List Rat) (l : List Nat) :
    (l.map Int.ofNat).map (pyIdx s) = takeIdx s l := by
  unfold takeIdx
  rw [List.map_map]
  apply List.map_congr_left
  intro n _
  exact pyIdx_nat s n

/-! ### (2) the denotation of the expected terms, compositionally (sub-expressions arbitrary) -/

variable (env : Env)

theorem denote_IECDFT {xe qe : E} {x q : List Rat} (hx : denote env xe = .ok (.arr x)) (hq : denote env qe = .ok (.arr q)) :
    denote env (IECDFT xe qe) = .ok (.arr (Model.Stats.iecdf .inverted_cdf x q)) := by
  simp [IECDFT, denote, hx, hq, Prim.sort, Prim.size, Prim.arith, Prim.floorInt, Prim.index, Val.scalar?,
    Model.Stats.iecdf, iecdfSorted, iecdfInverted]

theorem denote_iecdfT (m : IecdfMethod) {xe pe : E} {se : SE} {x p : List Rat}
    (hx : denote env xe = .ok (.arr x)) (hp : denote env pe = .ok (.arr p)) (hs : env.strOf se = some (iecdfName m)) :
    denote env (iecdfT xe pe se) = .ok (.arr (Model.Stats.iecdf m x p)) := by
  have hI := denote_IECDFT env hx hp
  cases se with
  | dflt => simp [Env.strOf] at hs
  | lit s =>
    cases m <;> simp [Env.strOf, iecdfName] at hs <;> subst hs <;>
      first
      | (simp only [iecdfT, denote, Env.strOf, if_true]; exact hI)
      | simp [iecdfT, denote, Env.strOf, hx, hp, Prim.quantile, Prim.npMethods, List.lookup]
  | arg n =>
    cases m <;> simp only [iecdfName] at hs <;>
      first
      | (simp only [iecdfT, denote, hs, if_true]; exact hI)
      | simp [iecdfT, denote, hs, hx, hp, Prim.quantile, Prim.npMethods, List.lookup]

/-- any other method string: numpy's `ValueError`, or one of the four `np.quantile` methods the model does not cover -/
theorem denote_iecdfT_other {xe pe : E} {se : SE} {x p : List Rat} {s : String}
    (hx : denote env xe = .ok (.arr x)) (hp : denote env pe = .ok (.arr p)) (hs : env.strOf se = some s)
    (hno : s ∉ iecdfNames) :
    denote env (iecdfT xe pe se)
      = .error (if s ∈ ["lower", "higher", "midpoint", "nearest"] then .unmodelled s else .raised "ValueError") := by
  simp only [iecdfNames, List.mem_cons, List.not_mem_nil, or_false, not_or] at hno
  obtain ⟨h1, h2, h3, h4, h5, h6, h7, h8, h9⟩ := hno
  have b2 := beq_eq_false_iff_ne.mpr h2
  have b3 := beq_eq_false_iff_ne.mpr h3
  have b4 := beq_eq_false_iff_ne.mpr h4
  have b5 := beq_eq_false_iff_ne.mpr h5
  have b6 := beq_eq_false_iff_ne.mpr h6
  have b7 := beq_eq_false_iff_ne.mpr h7
  have b8 := beq_eq_false_iff_ne.mpr h8
  have b9 := beq_eq_false_iff_ne.mpr h9
  cases se with
  | dflt => simp [Env.strOf] at hs
  | lit s' =>
    simp only [Env.strOf, Option.some.injEq] at hs; subst hs
    simp [iecdfT, denote, Env.strOf, hx, hp, Prim.quantile, Prim.npMethods, Prim.npUnmodelled, List.lookup, h1, b2, b3, b4, b5, b6, b7, b8, b9]
    split_ifs <;> rfl
  | arg n =>
    simp [iecdfT, denote, hs, hx, hp, Prim.quantile, Prim.npMethods, Prim.npUnmodelled, List.lookup, h1, b2, b3, b4, b5, b6, b7, b8, b9]
    split_ifs <;> rfl

theorem denote_ecdfT (m : EcdfMethod) {xe ye : E} {se : SE} {x y : List Rat}
    (hx : denote env xe = .ok (.arr x)) (hy : denote env ye = .ok (.arr y)) (hs : env.strOf se = some (ecdfName m)) :
    denote env (ecdfT xe ye se) = .ok (.arr (Model.Stats.ecdf m x y)) := by
  cases m with
  | step =>
    simp [ecdfT, denote, hs, ecdfName, hx, hy, Prim.ecdfStep, Model.Stats.ecdf, ecdf1]
  | linear =>
    simp [ecdfT, denote, hs, ecdfName, hx, hy, Prim.size, Prim.linspace, Prim.quantile, Prim.interp, Val.scalar?,
      iecdf_linear_knots, Model.Stats.ecdf, ecdf1, ecdfLin1, Model.Stats.interp]

theorem denote_ecdfT_hist {xe ye : E} {se : SE} {x y : List Rat}
    (hx : denote env xe = .ok (.arr x)) (hy : denote env ye = .ok (.arr y)) (hs : env.strOf se = some "kernel_density") :
    denote env (ecdfT xe ye se) = .ok (.arr (y.map (ecdfHist1 (env.hist x).1 (env.hist x).2))) := by
  simp [ecdfT, denote, hs, hx, hy, Prim.histCdf]

theorem denote_ecdfT_other {xe ye : E} {se : SE} {s : String} (hs : env.strOf se = some s)
    (hno : s ∉ ["kernel_density", "linear_interpolation", "step_function"]) :
    denote env (ecdfT xe ye se) = .error (.raised "ValueError") := by
  simp only [List.mem_cons, List.not_mem_nil, or_false, not_or] at hno
  simp [ecdfT, denote, hs, hno]

theorem denote_qmapT (em : EcdfMethod) (im : IecdfMethod) {xe ye ve : E} {se si : SE} {x y vals : List Rat}
    (hx : denote env xe = .ok (.arr x)) (hy : denote env ye = .ok (.arr y)) (hv : denote env ve = .ok (.arr vals))
    (hse : env.strOf se = some (ecdfName em)) (hsi : env.strOf si = some (iecdfName im)) :
    denote env (qmapT xe ye ve se si) = .ok (.arr (qmap em im x y vals)) :=
  denote_iecdfT env im hy (denote_ecdfT env em hx hv hse) hsi

theorem denote_qmapT_hist (im : IecdfMethod) {xe ye ve : E} {se si : SE} {x y vals : List Rat}
    (hx : denote env xe = .ok (.arr x)) (hy : denote env ye = .ok (.arr y)) (hv : denote env ve = .ok (.arr vals))
    (hse : env.strOf se = some "kernel_density") (hsi : env.strOf si = some (iecdfName im)) :
    denote env (qmapT xe ye ve se si) = .ok (.arr (vals.map (qmapHist1 im (env.hist x).1 (env.hist x).2 y))) := by
  have h := denote_iecdfT env im hy (denote_ecdfT_hist env hx hv hse) hsi
  have e : qmapHist1 im (env.hist x).1 (env.hist x).2 y
      = fun v => iecdfSorted im (sortQ y) (ecdfHist1 (env.hist x).1 (env.hist x).2 v) := by
    funext v; rfl
  rw [e]
  simpa [qmapT, Model.Stats.iecdf, List.map_map, Function.comp_def] using h

/-- the two mask assignments on top of any mapped vector of the right length -/
theorem denote_extrap {xe ye ve me : E} {x y vals mapped : List Rat}
    (hx : denote env xe = .ok (.arr x)) (hy : denote env ye = .ok (.arr y)) (hv : denote env ve = .ok (.arr vals))
    (hm : denote env me = .ok (.arr mapped)) (hlen : mapped.length = vals.length) :
    denote env (.maskSet (.maskSet me (.lt ve (.amin xe))
        (.add (.index ve (.lt ve (.amin xe))) (.item (.sub (.arr2 (.amin ye) (.amax ye)) (.arr2 (.amin xe) (.amax xe))) 0)))
        (.gt ve (.amax xe))
        (.add (.index ve (.gt ve (.amax xe))) (.item (.sub (.arr2 (.amin ye) (.amax ye)) (.arr2 (.amin xe) (.amax xe))) 1)))
      = .ok (.arr (List.zipWith (fun v m => if v > maxQ x then v + (maxQ y - maxQ x) else if v < minQ x then v + (minQ y - minQ x) else m)
          vals mapped)) := by
  have h1 := scatter_filter (fun v => decide (v < minQ x)) (fun v => v + (minQ y - minQ x)) vals mapped hlen
  have hlen2 : (List.zipWith (fun v m => if (fun v => decide (v < minQ x)) v then (fun v => v + (minQ y - minQ x)) v else m) vals mapped).length
      = vals.length := by simp [hlen]
  have h2 := scatter_filter (fun v => decide (v > maxQ x)) (fun v => v + (maxQ y - maxQ x)) vals _ hlen2
  simp only [denote, hx, hy, hv, hm, bnd_ok, Prim.amin, Prim.amax, Prim.cmp, Val.scalar?, Prim.index, List.length_map, if_true,
    selectWhere_map, Prim.arr2, Prim.arith, Prim.item, List.length_cons, List.length_nil, List.zipWith_cons_cons,
    List.zipWith_nil_right, List.getElem?_cons_zero, List.getElem?_cons_succ, Prim.maskSet, h1]
  rw [h2]
  simp only [List.zipWith_zipWith_right]
  congr 3
  apply List.ext_getElem <;> simp

theorem qmap_length (em : EcdfMethod) (im : IecdfMethod) (x y vals : List Rat) : (qmap em im x y vals).length = vals.length := by
  simp [qmap, Model.Stats.iecdf, Model.Stats.ecdf]

theorem denote_qmapExtrapT (em : EcdfMethod) (im : IecdfMethod) {xe ye ve : E} {se si : SE} {x y vals : List Rat}
    (hx : denote env xe = .ok (.arr x)) (hy : denote env ye = .ok (.arr y)) (hv : denote env ve = .ok (.arr vals))
    (hse : env.strOf se = some (ecdfName em)) (hsi : env.strOf si = some (iecdfName im)) :
    denote env (qmapExtrapT xe ye ve se si) = .ok (.arr (qmapExtrap em im x y vals)) := by
  have h := denote_extrap env hx hy hv (denote_qmapT env em im hx hy hv hse hsi) (qmap_length em im x y vals)
  simpa [qmapExtrapT, qmapExtrap] using h

theorem denote_qmapExtrapT_hist (im : IecdfMethod) {xe ye ve : E} {se si : SE} {x y vals : List Rat}
    (hx : denote env xe = .ok (.arr x)) (hy : denote env ye = .ok (.arr y)) (hv : denote env ve = .ok (.arr vals))
    (hse : env.strOf se = some "kernel_density") (hsi : env.strOf si = some (iecdfName im)) :
    denote env (qmapExtrapT xe ye ve se si)
      = .ok (.arr (vals.map (qmapExtrapHist1 im (env.hist x).1 (env.hist x).2 x y))) := by
  have h := denote_extrap env hx hy hv (denote_qmapT_hist env im hx hy hv hse hsi) (by simp)
  have e : qmapExtrapHist1 im (env.hist x).1 (env.hist x).2 x y
      = fun v => if v > maxQ x then v + (maxQ y - maxQ x) else if v < minQ x then v + (minQ y - minQ x)
          else qmapHist1 im (env.hist x).1 (env.hist x).2 y v := by
    funext v; rfl
  rw [e]
  simp only [qmapExtrapT]
  rw [h]
  congr 2
  apply List.ext_getElem <;> simp

/-- an error of the mapped vector is the error of the whole (the mask assignments come after it) -/
theorem denote_extrap_error {me m1 v1 m2 v2 : E} {e : Err} (hm : denote env me = .error e) :
    denote env (.maskSet (.maskSet me m1 v1) m2 v2) = .error e := by
  simp [denote, hm]

/-- an `ecdf_method` outside the table: `ValueError` (raised by `ecdf` while the argument of `iecdf` is evaluated) -/
theorem denote_qmapT_other_ecdf {xe ye ve : E} {se si : SE} {y : List Rat} {s t : String}
    (hy : denote env ye = .ok (.arr y)) (hse : env.strOf se = some s) (hsi : env.strOf si = some t)
    (hno : s ∉ ["kernel_density", "linear_interpolation", "step_function"]) :
    denote env (qmapT xe ye ve se si) = .error (.raised "ValueError") := by
  have h := denote_ecdfT_other env (xe := xe) (ye := ve) hse hno
  cases si with
  | dflt => simp [Env.strOf] at hsi
  | lit t' =>
    by_cases ht : t' = "inverted_cdf" <;>
      simp [qmapT, iecdfT, IECDFT, denote, Env.strOf, ht, hy, h, Prim.sort, Prim.size, Prim.arith, Val.scalar?]
  | arg n =>
    by_cases ht : t = "inverted_cdf" <;>
      simp [qmapT, iecdfT, IECDFT, denote, hsi, ht, hy, h, Prim.sort, Prim.size, Prim.arith, Val.scalar?]

theorem denote_sortLikeT {xe ye : E} {x y : List Rat} (hx : denote env xe = .ok (.arr x)) (hy : denote env ye = .ok (.arr y)) :
    denote env (sortLikeT xe ye) = .ok (.arr (sortLike x y)) := by
  have e : ((Model.Stats.argsort y).map Int.ofNat).map (fun z : Int => (z : Rat))
      = (Model.Stats.argsort y).map (fun i : Nat => (i : Rat)) := by
    rw [List.map_map]; apply List.map_congr_left; intro n _; simp
  simp only [sortLikeT, denote, hx, hy, bnd_ok, Prim.sort, Prim.argsort, Prim.index, sortLike, rankOf, getD_natCast_pyIdx, e]

theorem denote_isimipT {xe ye : E} {x y : List Rat} (hx : denote env xe = .ok (.arr x)) (hy : denote env ye = .ok (.arr y)) :
    denote env (isimipT xe ye) = .ok (.arr (qmapIsimip x y)) := by
  simp [isimipT, denote, hx, hy, Prim.rankdata, Prim.arith, Prim.size, Prim.linspace, Prim.sort, Prim.interp, Val.scalar?,
    qmapIsimip, List.map_map, Function.comp_def]

/-! ### (2) the semantic theorems: `denote` of the expected term of each function = the function of `Model/Stats.lean`,
    for an arbitrary call environment (arrays / strings by parameter name, histogram oracle) -/

section top
variable {x y vals p q : List Rat}

/-- `IECDF(x)(q)` is `Model.Stats.iecdf .inverted_cdf` (sorted sample indexed at `floor((n-1) q)`) -/
theorem sem_IECDF (hx : env.arr "x" = some x) (hq : env.arr "q" = some q) :
    denote env Model.NpStats.IECDF = .ok (.arr (Model.Stats.iecdf .inverted_cdf x q)) :=
  denote_IECDFT env (by simp [denote, hx]) (by simp [denote, hq])

/-- `iecdf(x, p, method)` for each of the nine method literals -/
theorem sem_iecdf (m : IecdfMethod) (hx : env.arr "x" = some x) (hp : env.arr "p" = some p)
    (hm : env.str "method" = some (iecdfName m)) :
    denote env Model.NpStats.iecdf = .ok (.arr (Model.Stats.iecdf m x p)) :=
  denote_iecdfT env m (by simp [denote, hx]) (by simp [denote, hp]) (by simpa [Env.strOf] using hm)

/-- `iecdf` with any other method string is an error -/
theorem sem_iecdf_other {s : String} (hx : env.arr "x" = some x) (hp : env.arr "p" = some p)
    (hm : env.str "method" = some s) (hno : s ∉ iecdfNames) :
    denote env Model.NpStats.iecdf
      = .error (if s ∈ ["lower", "higher", "midpoint", "nearest"] then .unmodelled s else .raised "ValueError") :=
  denote_iecdfT_other env (x := x) (p := p) (by simp [denote, hx]) (by simp [denote, hp]) (by simpa [Env.strOf] using hm) hno

/-- `ecdf(x, y, "step_function" | "linear_interpolation")` -/
theorem sem_ecdf (m : EcdfMethod) (hx : env.arr "x" = some x) (hy : env.arr "y" = some y)
    (hm : env.str "method" = some (ecdfName m)) :
    denote env Model.NpStats.ecdf = .ok (.arr (Model.Stats.ecdf m x y)) :=
  denote_ecdfT env m (by simp [denote, hx]) (by simp [denote, hy]) (by simpa [Env.strOf] using hm)

/-- `ecdf(x, y, "kernel_density")`: the histogram cdf on the oracle's bins -/
theorem sem_ecdf_kernel_density (hx : env.arr "x" = some x) (hy : env.arr "y" = some y)
    (hm : env.str "method" = some "kernel_density") :
    denote env Model.NpStats.ecdf = .ok (.arr (y.map (ecdfHist1 (env.hist x).1 (env.hist x).2))) :=
  denote_ecdfT_hist env (by simp [denote, hx]) (by simp [denote, hy]) (by simpa [Env.strOf] using hm)

/-- `ecdf` with any other method string raises `ValueError` -/
theorem sem_ecdf_other {s : String} (hm : env.str "method" = some s)
    (hno : s ∉ ["kernel_density", "linear_interpolation", "step_function"]) :
    denote env Model.NpStats.ecdf = .error (.raised "ValueError") :=
  denote_ecdfT_other env (by simpa [Env.strOf] using hm) hno

/-- `quantile_map_non_parametically` for the 2 × 9 method pairs of `EcdfMethod × IecdfMethod` -/
theorem sem_quantile_map_non_parametically (em : EcdfMethod) (im : IecdfMethod)
    (hx : env.arr "x" = some x) (hy : env.arr "y" = some y) (hv : env.arr "vals" = some vals)
    (hem : env.str "ecdf_method" = some (ecdfName em)) (him : env.str "iecdf_method" = some (iecdfName im)) :
    denote env Model.NpStats.quantile_map_non_parametically = .ok (.arr (qmap em im x y vals)) :=
  denote_qmapT env em im (by simp [denote, hx]) (by simp [denote, hy]) (by simp [denote, hv])
    (by simpa [Env.strOf] using hem) (by simpa [Env.strOf] using him)

theorem sem_quantile_map_non_parametically_kernel_density (im : IecdfMethod)
    (hx : env.arr "x" = some x) (hy : env.arr "y" = some y) (hv : env.arr "vals" = some vals)
    (hem : env.str "ecdf_method" = some "kernel_density") (him : env.str "iecdf_method" = some (iecdfName im)) :
    denote env Model.NpStats.quantile_map_non_parametically
      = .ok (.arr (vals.map (qmapHist1 im (env.hist x).1 (env.hist x).2 y))) :=
  denote_qmapT_hist env im (by simp [denote, hx]) (by simp [denote, hy]) (by simp [denote, hv])
    (by simpa [Env.strOf] using hem) (by simpa [Env.strOf] using him)

theorem sem_quantile_map_non_parametically_other_ecdf {s t : String} (hy : env.arr "y" = some y)
    (hem : env.str "ecdf_method" = some s) (him : env.str "iecdf_method" = some t)
    (hno : s ∉ ["kernel_density", "linear_interpolation", "step_function"]) :
    denote env Model.NpStats.quantile_map_non_parametically = .error (.raised "ValueError") :=
  denote_qmapT_other_ecdf env (y := y) (by simp [denote, hy]) (by simpa [Env.strOf] using hem) (by simpa [Env.strOf] using him) hno

theorem sem_quantile_map_non_parametically_other_iecdf (em : EcdfMethod) {t : String}
    (hx : env.arr "x" = some x) (hy : env.arr "y" = some y) (hv : env.arr "vals" = some vals)
    (hem : env.str "ecdf_method" = some (ecdfName em)) (him : env.str "iecdf_method" = some t) (hno : t ∉ iecdfNames) :
    denote env Model.NpStats.quantile_map_non_parametically
      = .error (if t ∈ ["lower", "higher", "midpoint", "nearest"] then .unmodelled t else .raised "ValueError") :=
  denote_iecdfT_other env (x := y) (by simp [denote, hy])
    (denote_ecdfT env em (x := x) (y := vals) (by simp [denote, hx]) (by simp [denote, hv]) (by simpa [Env.strOf] using hem))
    (by simpa [Env.strOf] using him) hno

/-- `quantile_map_non_parametically_with_constant_extrapolation`: `vals < min x` gets `+ (min y − min x)`, `vals > max x`
    gets `+ (max y − max x)` (the latter wins), everything else the plain quantile map -/
theorem sem_quantile_map_non_parametically_with_constant_extrapolation (em : EcdfMethod) (im : IecdfMethod)
    (hx : env.arr "x" = some x) (hy : env.arr "y" = some y) (hv : env.arr "vals" = some vals)
    (hem : env.str "ecdf_method" = some (ecdfName em)) (him : env.str "iecdf_method" = some (iecdfName im)) :
    denote env Model.NpStats.quantile_map_non_parametically_with_constant_extrapolation
      = .ok (.arr (qmapExtrap em im x y vals)) :=
  denote_qmapExtrapT env em im (by simp [denote, hx]) (by simp [denote, hy]) (by simp [denote, hv])
    (by simpa [Env.strOf] using hem) (by simpa [Env.strOf] using him)

theorem sem_quantile_map_non_parametically_with_constant_extrapolation_kernel_density (im : IecdfMethod)
    (hx : env.arr "x" = some x) (hy : env.arr "y" = some y) (hv : env.arr "vals" = some vals)
    (hem : env.str "ecdf_method" = some "kernel_density") (him : env.str "iecdf_method" = some (iecdfName im)) :
    denote env Model.NpStats.quantile_map_non_parametically_with_constant_extrapolation
      = .ok (.arr (vals.map (qmapExtrapHist1 im (env.hist x).1 (env.hist x).2 x y))) :=
  denote_qmapExtrapT_hist env im (by simp [denote, hx]) (by simp [denote, hy]) (by simp [denote, hv])
    (by simpa [Env.strOf] using hem) (by simpa [Env.strOf] using him)

theorem sem_quantile_map_non_parametically_with_constant_extrapolation_other_ecdf {s t : String} (hy : env.arr "y" = some y)
    (hem : env.str "ecdf_method" = some s) (him : env.str "iecdf_method" = some t)
    (hno : s ∉ ["kernel_density", "linear_interpolation", "step_function"]) :
    denote env Model.NpStats.quantile_map_non_parametically_with_constant_extrapolation = .error (.raised "ValueError") :=
  denote_extrap_error env
    (denote_qmapT_other_ecdf env (y := y) (by simp [denote, hy]) (by simpa [Env.strOf] using hem) (by simpa [Env.strOf] using him) hno)

theorem sem_quantile_map_non_parametically_with_constant_extrapolation_other_iecdf (em : EcdfMethod) {t : String}
    (hx : env.arr "x" = some x) (hy : env.arr "y" = some y) (hv : env.arr "vals" = some vals)
    (hem : env.str "ecdf_method" = some (ecdfName em)) (him : env.str "iecdf_method" = some t) (hno : t ∉ iecdfNames) :
    denote env Model.NpStats.quantile_map_non_parametically_with_constant_extrapolation
      = .error (if t ∈ ["lower", "higher", "midpoint", "nearest"] then .unmodelled t else .raised "ValueError") :=
  denote_extrap_error env
    (denote_iecdfT_other env (x := y) (by simp [denote, hy])
      (denote_ecdfT env em (x := x) (y := vals) (by simp [denote, hx]) (by simp [denote, hv]) (by simpa [Env.strOf] using hem))
      (by simpa [Env.strOf] using him) hno)

/-- `_isimip_quantile_map_x_on_y_non_parametically(x, y)` -/
theorem sem_isimip_quantile_map_x_on_y_non_parametically (hx : env.arr "x" = some x) (hy : env.arr "y" = some y) :
    denote env Model.NpStats.isimip_quantile_map_x_on_y_non_parametically = .ok (.arr (qmapIsimip x y)) :=
  denote_isimipT env (by simp [denote, hx]) (by simp [denote, hy])

/-- `quantile_map_x_on_y_non_parametically(x, y, "normal", …)` = the quantile map of `x` itself -/
theorem sem_quantile_map_x_on_y_normal (em : EcdfMethod) (im : IecdfMethod)
    (hx : env.arr "x" = some x) (hy : env.arr "y" = some y) (hmode : env.str "mode" = some "normal")
    (hem : env.str "ecdf_method" = some (ecdfName em)) (him : env.str "iecdf_method" = some (iecdfName im)) :
    denote env Model.NpStats.quantile_map_x_on_y_non_parametically = .ok (.arr (qmap em im x y x)) := by
  have h := denote_qmapT env em im (xe := .arg "x") (ye := .arg "y") (ve := .arg "x") (se := .arg "ecdf_method")
    (si := .arg "iecdf_method") (x := x) (y := y) (vals := x) (by simp [denote, hx]) (by simp [denote, hy]) (by simp [denote, hx])
    (by simpa [Env.strOf] using hem) (by simpa [Env.strOf] using him)
  simpa [Model.NpStats.quantile_map_x_on_y_non_parametically, qmapXonYT, denote, Env.strOf, hmode] using h

theorem sem_quantile_map_x_on_y_normal_kernel_density (im : IecdfMethod)
    (hx : env.arr "x" = some x) (hy : env.arr "y" = some y) (hmode : env.str "mode" = some "normal")
    (hem : env.str "ecdf_method" = some "kernel_density") (him : env.str "iecdf_method" = some (iecdfName im)) :
    denote env Model.NpStats.quantile_map_x_on_y_non_parametically
      = .ok (.arr (x.map (qmapHist1 im (env.hist x).1 (env.hist x).2 y))) := by
  have h := denote_qmapT_hist env im (xe := .arg "x") (ye := .arg "y") (ve := .arg "x") (se := .arg "ecdf_method")
    (si := .arg "iecdf_method") (x := x) (y := y) (vals := x) (by simp [denote, hx]) (by simp [denote, hy]) (by simp [denote, hx])
    (by simpa [Env.strOf] using hem) (by simpa [Env.strOf] using him)
  simpa [Model.NpStats.quantile_map_x_on_y_non_parametically, qmapXonYT, denote, Env.strOf, hmode] using h

theorem sem_quantile_map_x_on_y_isimip (hx : env.arr "x" = some x) (hy : env.arr "y" = some y)
    (hmode : env.str "mode" = some "isimipv3.0") :
    denote env Model.NpStats.quantile_map_x_on_y_non_parametically = .ok (.arr (qmapIsimip x y)) := by
  have h := denote_isimipT env (xe := .arg "x") (ye := .arg "y") (x := x) (y := y) (by simp [denote, hx]) (by simp [denote, hy])
  simpa [Model.NpStats.quantile_map_x_on_y_non_parametically, qmapXonYT, denote, Env.strOf, hmode] using h

theorem sem_quantile_map_x_on_y_other {s : String} (hmode : env.str "mode" = some s) (hno : s ∉ ["normal", "isimipv3.0"]) :
    denote env Model.NpStats.quantile_map_x_on_y_non_parametically = .error (.raised "ValueError") := by
  simp only [List.mem_cons, List.not_mem_nil, or_false, not_or] at hno
  simp [Model.NpStats.quantile_map_x_on_y_non_parametically, qmapXonYT, denote, Env.strOf, hmode, hno]

/-- `sort_array_like_another_one(x, y) = np.sort(x)[np.argsort(np.argsort(y))]` -/
theorem sem_sort_array_like_another_one (hx : env.arr "x" = some x) (hy : env.arr "y" = some y) :
    denote env Model.NpStats.sort_array_like_another_one = .ok (.arr (sortLike x y)) :=
  denote_sortLikeT env (by simp [denote, hx]) (by simp [denote, hy])

end top

/-! ### non-vacuity: a concrete call environment satisfies the hypotheses of the semantic theorems -/

def exEnv : Env where
  arr := fun n => if n = "x" then some [3, 1, 2] else if n = "y" then some [10, 30, 20, 40] else if n = "vals" then some [0, 2, 5] else none
  str := fun n => if n = "ecdf_method" then some "step_function" else if n = "iecdf_method" then some "inverted_cdf" else none
  hist := fun _ => ([], [])

example : denote exEnv Model.NpStats.quantile_map_non_parametically_with_constant_extrapolation
    = .ok (.arr (qmapExtrap .step .inverted_cdf [3, 1, 2] [10, 30, 20, 40] [0, 2, 5])) :=
  sem_quantile_map_non_parametically_with_constant_extrapolation exEnv .step .inverted_cdf
    (by simp [exEnv]) (by simp [exEnv]) (by simp [exEnv]) (by simp [exEnv, ecdfName]) (by simp [exEnv, iecdfName])

end Lemmas.GenStats
