/-
  Helper lemmas for C01 (bias removal when `cm_future = cm_hist`): means of shifted / scaled samples, the
  location–scale map and its fit, collapse of the detrending of `QuantileMapping` when `F = H`, the
  non-parametric quantile map on its own sample, sorted-input evaluation of `argsort` / ranks (for concrete
  witnesses: the kernel cannot unfold `List.mergeSort`).
-/
import IbicusModel.Lemmas.C03

namespace Lemmas.C01
open Model.Stats Model.Family Model.Debiasers Lemmas.Stats Lemmas.Family Lemmas.C03

/-! ### means -/

theorem mean_map_sub (b : Rat) (xs : List Rat) (h : xs ≠ []) : mean (xs.map (fun x => x - b)) = mean xs - b := by
  have := mean_affine 1 (-b) xs h
  unfold affine at this
  have e : (xs.map (fun x => x - b)) = xs.map (fun x => 1 * x + -b) := by
    apply List.map_congr_left; intro x _; ring
  rw [e, this]; ring

theorem mean_map_add (b : Rat) (xs : List Rat) (h : xs ≠ []) : mean (xs.map (fun x => x + b)) = mean xs + b := by
  have := mean_affine 1 b xs h
  unfold affine at this
  have e : (xs.map (fun x => x + b)) = xs.map (fun x => 1 * x + b) := by
    apply List.map_congr_left; intro x _; ring
  rw [e, this]; ring

theorem mean_map_mul (k : Rat) (xs : List Rat) : mean (xs.map (fun x => x * k)) = mean xs * k := by
  unfold mean
  have e : (xs.map (fun x => x * k)) = xs.map (fun x => k * x) := by
    apply List.map_congr_left; intro x _; ring
  rw [e, sum_map_mul, List.length_map]; ring

/-! ### the location–scale map `x ↦ loc_obs + scale_obs · (x − loc_H) / scale_H` -/

/-- what parametric quantile mapping does to a value when nothing is clipped -/
def lsMap (lo so lh sh : Rat) (x : Rat) : Rat := lo + so * ((x - lh) / sh)

/-- **the fit of the mapped sample is the fit of the observations** (location *and* scale): for the abstract
    family laws, `fit (a • x + b) = (a · loc + b, a · scale)` with `a = scale_obs / scale_H > 0` -/
theorem fit_lsMap {Fam : LocScaleFam} (L : LocScaleLaws Fam) (lo so : Rat) (H : List Rat) (hH : H ≠ [])
    (hso : 0 < so) (hsh : 0 < Fam.scale H) :
    Fam.fit (H.map (lsMap lo so (Fam.loc H) (Fam.scale H))) = (lo, so) := by
  have hne : Fam.scale H ≠ 0 := ne_of_gt hsh
  have e : H.map (lsMap lo so (Fam.loc H) (Fam.scale H))
      = affine (so / Fam.scale H) (lo - so / Fam.scale H * Fam.loc H) H := by
    unfold affine lsMap
    apply List.map_congr_left; intro x _; field_simp; ring
  rw [e, fit_affine L _ _ H (div_pos hso hsh) hH]
  congr 1
  · ring
  · field_simp

/-! ### `QuantileMapping.apply_on_window` with `cm_future = cm_hist`: the detrending is the identity -/

theorem quantileMapping_self (qm : List Rat → List Rat → List Rat → List Rat) (d : Detrending) (obs H : List Rat)
    (hm : d = .multiplicative → mean H ≠ 0) : quantileMapping qm d obs H H = qm H obs H := by
  unfold quantileMapping
  cases d with
  | additive =>
    simp only [sub_self, sub_zero, add_zero, List.map_id']
  | multiplicative =>
    have := hm rfl
    simp only [div_self this, div_one, mul_one, List.map_id']
  | no_detrending => rfl

/-! ### the non-parametric map on its own sample never extrapolates -/

theorem qmap_eq_map (em : EcdfMethod) (im : IecdfMethod) (x y vals : List Rat) :
    qmap em im x y vals = vals.map (qmap1 em im x y) := by
  unfold qmap iecdf ecdf qmap1 iecdf1
  rw [List.map_map]; rfl

theorem qmapExtrap_self (em : EcdfMethod) (im : IecdfMethod) (x y : List Rat) :
    qmapExtrap em im x y x = qmap em im x y x := by
  unfold qmapExtrap
  simp only []
  rw [qmap_eq_map, List.zipWith_map_right, List.zipWith_self]
  apply List.map_congr_left
  intro v hv
  rw [if_neg (not_lt.mpr (le_maxQ hv)), if_neg (not_lt.mpr (minQ_le hv))]

/-- values of `iecdf(method = "inverted_cdf")` at a step-ecdf value lie in the range of the target sample -/
theorem qmap_step_inverted_range (x y : List Rat) (hy : y ≠ []) (v : Rat) :
    minQ y ≤ qmap1 .step .inverted_cdf x y v ∧ qmap1 .step .inverted_cdf x y v ≤ maxQ y := by
  unfold qmap1 iecdf1 ecdf1 iecdfSorted
  simp only []
  obtain ⟨h0, h1⟩ := ecdfStep_range x v
  have := iecdfInverted_range (sortQ_sorted y) (sortQ_ne_nil hy) h0 h1
  rwa [sortQ_head y hy, sortQ_length, sortQ_last y hy] at this

/-! ### sorted inputs: `argsort` and the ranks are the identity (used to evaluate concrete witnesses) -/

theorem argsort_of_sorted {l : List Rat} (h : l.Pairwise (· ≤ ·)) : argsort l = List.range l.length := by
  unfold argsort
  have hp : (l.zip (List.range l.length)).Pairwise (fun a b => decide (a.1 ≤ b.1) = true) := by
    have h1 : ((l.zip (List.range l.length)).map Prod.fst).Pairwise (· ≤ ·) := by
      rw [List.map_fst_zip (by simp)]; exact h
    rw [List.pairwise_map] at h1
    exact h1.imp (fun hab => by simpa using hab)
  rw [List.mergeSort_of_pairwise hp]
  exact List.map_snd_zip (by simp)

theorem rankOf_of_sorted {l : List Rat} (h : l.Pairwise (· ≤ ·)) : rankOf l = List.range l.length := by
  unfold rankOf
  rw [argsort_of_sorted h, argsort_of_sorted (range_cast_sorted _)]
  simp

theorem takeIdx_range (l : List Rat) : takeIdx l (List.range l.length) = l := by
  unfold takeIdx; exact range_map_getD l

end Lemmas.C01
