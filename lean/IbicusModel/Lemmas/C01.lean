/-
  Helper lemmas for C01 (bias removal when `cm_future = cm_hist`): means of shifted / scaled samples, the
  location–scale map and its fit, collapse of the detrending of `QuantileMapping` when `F = H`, the
  non-parametric quantile map on its own sample, sorted-input evaluation of `argsort` / ranks (for concrete
  witnesses: the kernel cannot unfold `List.mergeSort`).
-/
import IbicusModel.Lemmas.C03

namespace Lemmas.C01
open Model.Stats Model.Family Model.Debiasers Lemmas.Stats Lemmas.Family Lemmas.C03

/-! ### means -/

theorem mean_map_sub (b : Rat) (xs : List Rat) (h : xs ≠ []) : mean (xs.map (fun x => x - b)) = mean xs - b := by
  have := mean_affine 1 (-b) xs h
  unfold affine at this
  have e : (xs.map (fun x => x - b)) = xs.map (fun x => 1 * x + -b) := by
    apply List.map_congr_left; intro x _; ring
  rw [e, this]; ring

theorem mean_map_add (b : Rat) (xs : List Rat) (h : xs ≠ []) : mean (xs.map (fun x => x + b)) = mean xs + b := by
  have := mean_affine 1 b xs h
  unfold affine at this
  have e : (xs.map (fun x => x + b)) = xs.map (fun x => 1 * x + b) := by
    apply List.map_congr_left; intro x _; ring
  rw [e, this]; ring

theorem mean_map_mul (k : Rat) (xs : List Rat) : mean (xs.map (fun x => x * k)) = mean xs * k := by
  unfold mean
  have e : (xs.map (fun x => x * k)) = xs.map (fun x => k * x) := by
    apply List.map_congr_left; intro x _; ring
  rw [e, sum_map_mul, List.length_map]; ring

/-! ### the location–scale map `x ↦ loc_obs + scale_obs · (x − loc_H) / scale_H` -/

/-- what parametric quantile mapping does to a value when nothing is clipped -/
def lsMap (lo so lh sh : Rat) (x : Rat) : Rat := lo + so * ((x - lh) / sh)

/-- **the fit of the mapped sample is the fit of the observations** (location *and* scale): for the abstract
    family laws, `fit (a • x + b) = (a · loc + b, a · scale)` with `a = scale_obs / scale_H > 0` -/
theorem fit_lsMap {Fam : LocScaleFam} (L : LocScaleLaws Fam) (lo so : Rat) (H : List Rat) (hH : H ≠ [])
    (hso : 0 < so) (hsh : 0 < Fam.scale H) :
    Fam.fit (H.map (lsMap lo so (Fam.loc H) (Fam.scale H))) = (lo, so) := by
  have hne : Fam.scale H ≠ 0 := ne_of_gt hsh
  have e : H.map (lsMap lo so (Fam.loc H) (Fam.scale H))
      = affine (so / Fam.scale H) (lo - so / Fam.scale H * Fam.loc H) H := by
    unfold affine lsMap
    apply List.map_congr_left; intro x _; field_simp; ring
  rw [e, fit_affine L _ _ H (div_pos hso hsh) hH]
  congr 1
  · ring
  · field_simp

/-! ### `QuantileMapping.apply_on_window` with `cm_future = cm_hist`: the detrending is the identity -/

theorem quantileMapping_self (qm : List Rat → List Rat → List Rat → List Rat) (d : Detrending) (obs H : List Rat)
    (hm : d = .multiplicative → mean H ≠ 0) : quantileMapping qm d obs H H = qm H obs H := by
  unfold quantileMapping
  cases d with
  | additive =>
    simp only [sub_self, sub_zero, add_zero, List.map_id']
  | multiplicative =>
    have := hm rfl
    simp only [div_self this, div_one, mul_one, List.map_id']
  | no_detrending => rfl

/-! ### the non-parametric map on its own sample never extrapolates -/

theorem qmap_eq_map (em : EcdfMethod) (im : IecdfMethod) (x y vals : List Rat) :
    qmap em im x y vals = vals.map (qmap1 em im x y) := by
  unfold qmap iecdf ecdf qmap1 iecdf1
  rw [List.map_map]; rfl

theorem qmapExtrap_self (em : EcdfMethod) (im : IecdfMethod) (x y : List Rat) :
    qmapExtrap em im x y x = qmap em im x y x := by
  unfold qmapExtrap
  simp only []
  rw [qmap_eq_map, List.zipWith_map_right, List.zipWith_self]
  apply List.map_congr_left
  intro v hv
  rw [if_neg (not_lt.mpr (le_maxQ hv)), if_neg (not_lt.mpr (minQ_le hv))]

/-- values of `iecdf(method = "inverted_cdf")` at a step-ecdf value lie in the range of the target sample -/
theorem qmap_step_inverted_range (x y : List Rat) (hy : y ≠ []) (v : Rat) :
    minQ y ≤ qmap1 .step .inverted_cdf x y v ∧ qmap1 .step .inverted_cdf x y v ≤ maxQ y := by
  unfold qmap1 iecdf1 ecdf1 iecdfSorted
  simp only []
  obtain ⟨h0, h1⟩ := ecdfStep_range x v
  have := iecdfInverted_range (sortQ_sorted y) (sortQ_ne_nil hy) h0 h1
  rwa [sortQ_head y hy, sortQ_length, sortQ_last y hy] at this

/-! ### sorted inputs: `argsort` and the ranks are the identity (used to evaluate concrete witnesses) -/

theorem argsort_of_sorted {l : List Rat} (h : l.Pairwise (· ≤ ·)) : argsort l = List.range l.length := by
  unfold argsort
  have hp : (l.zip (List.range l.length)).Pairwise (fun a b => decide (a.1 ≤ b.1) = true) := by
    have h1 : ((l.zip (List.range l.length)).map Prod.fst).Pairwise (· ≤ ·) := by
      rw [List.map_fst_zip (by simp)]; exact h
    rw [List.pairwise_map] at h1
    exact h1.imp (fun hab => by simpa using hab)
  rw [List.mergeSort_of_pairwise hp]
  exact List.map_snd_zip (by simp)

theorem rankOf_of_sorted {l : List Rat} (h : l.Pairwise (· ≤ ·)) : rankOf l = List.range l.length := by
  unfold rankOf
  rw [argsort_of_sorted h, argsort_of_sorted (range_cast_sorted _)]
  simp

theorem takeIdx_range (l : List Rat) : takeIdx l (List.range l.length) = l := by
  unfold takeIdx; exact range_map_getD l

/-! ### symmetric sums: the ranks `r/(n−1)` of a tie-free sample and the clipping are symmetric about `1/2` -/

/-- the sum of a function that is antisymmetric under the reflection `r ↦ n − 1 − r` over `0..n−1` is zero -/
theorem sum_range_antisymm (n : Nat) (φ : Nat → Rat) (h : ∀ r, r < n → φ (n - 1 - r) = - φ r) :
    ((List.range n).map φ).sum = 0 := by
  have hrev : (List.range n).reverse = (List.range n).map (fun x => 0 + n - 1 - x) := by
    have := @List.reverse_range' 0 n
    rwa [← List.range_eq_range'] at this
  have h1 : ((List.range n).map φ).sum = (((List.range n).reverse).map φ).sum := by
    rw [List.map_reverse, List.sum_reverse]
  rw [hrev, List.map_map] at h1
  have h2 : (List.range n).map (φ ∘ fun x => 0 + n - 1 - x) = (List.range n).map (fun x => - φ x) := by
    apply List.map_congr_left
    intro r hr
    simp only [Function.comp, Nat.zero_add]
    exact h r (List.mem_range.mp hr)
  rw [h2] at h1
  have h3 : ((List.range n).map (fun x => - φ x)).sum = - ((List.range n).map φ).sum := by
    rw [List.sum_neg, List.map_map]; rfl
  rw [h3] at h1
  linarith

/-- `threshold_cdf_vals` commutes with the reflection `v ↦ 1 − v` (for `t ≤ 1/2`) -/
theorem thresholdCdf_reflect (t v : Rat) (ht : t ≤ 1 / 2) : thresholdCdf t (1 - v) = 1 - thresholdCdf t v := by
  rcases lt_or_ge v t with h | h
  · rw [thresholdCdf_below t v ht h, thresholdCdf_above t (1 - v) ht (by linarith)]
  · rcases le_or_gt v (1 - t) with h' | h'
    · rw [thresholdCdf_id t v h h', thresholdCdf_id t (1 - v) (by linarith) (by linarith)]
    · rw [thresholdCdf_above t v ht h', thresholdCdf_below t (1 - v) ht (by linarith)]
      ring

/-- the ranks of a tie-free sample, as a list, are `argsort(argsort(·))` -/
theorem map_rankLt_eq_rankOf {H : List Rat} (hH : H.Nodup) : H.map (rankLt H) = rankOf H := by
  apply List.ext_getElem
  · rw [List.length_map, rankOf_length]
  · intro i h1 h2
    have hi : i < H.length := by simpa using h1
    rw [List.getElem_map, ← getDN_eq _ i h2, rankOf_eq_rankLt hH hi, getD_eq H i hi]

/-- linear-interpolation ecdf of a tie-free sample at its own values: `rank / (n − 1)` -/
theorem ecdfLin_own {H : List Rat} (hH : H.Nodup) (hn : 2 ≤ H.length) {x : Rat} (hx : x ∈ H) :
    ecdfLin1 H x = ((rankLt H x : Nat) : Rat) / ((H.length : Rat) - 1) :=
  ecdfLin_at_sample hn hx (count_le_nodup hH hx)

/-- **the symmetric sum**: for a tie-free sample, any antisymmetric-about-½ function of the (clipped) ecdf values
    sums to zero -/
theorem sum_symm_ecdf {H : List Rat} (hH : H.Nodup) (hn : 2 ≤ H.length) (t : Rat) (ht : t ≤ 1 / 2) (g : Rat → Rat)
    (hg : ∀ q, g (1 - q) = - g q) :
    (H.map (fun x => g (thresholdCdf t (ecdfLin1 H x)))).sum = 0 := by
  have hn' : (2 : Rat) ≤ (H.length : Rat) := by exact_mod_cast hn
  have hd : (H.length : Rat) - 1 ≠ 0 := by intro h; linarith
  have e1 : H.map (fun x => g (thresholdCdf t (ecdfLin1 H x)))
      = (H.map (rankLt H)).map (fun (r : Nat) => g (thresholdCdf t ((r : Rat) / ((H.length : Rat) - 1)))) := by
    rw [List.map_map]
    apply List.map_congr_left
    intro x hx
    simp only [Function.comp]
    rw [ecdfLin_own hH hn hx]
  rw [e1, map_rankLt_eq_rankOf hH, ((rankOf_perm H).map _).sum_eq]
  apply sum_range_antisymm
  intro r hr
  have hr' : ((H.length - 1 - r : Nat) : Rat) = (H.length : Rat) - 1 - (r : Rat) := by
    rw [Nat.cast_sub (by omega), Nat.cast_sub (by omega)]; simp
  rw [hr']
  have : ((H.length : Rat) - 1 - (r : Rat)) / ((H.length : Rat) - 1) = 1 - (r : Rat) / ((H.length : Rat) - 1) := by
    field_simp
  rw [this, thresholdCdf_reflect t _ ht, hg]

end Lemmas.C01
