/-
  Helper lemmas for the quantitative clause of C01 at UNEQUAL sample sizes, CDFt in its default method pair
  (`linear_interpolation` ecdf + `linear` quantile), `cm_future = cm_hist`, shifted model sample `H'` tie-free of size
  `m ≥ 2`, observations (size `n`) inside the range of `H'` (so that the final `iecdf_H'(ecdf_H'(·))` does not clamp).

  Then `out = [ Q_obs(r/(m−1)) : r = rank of the value in H' ]` with `Q_obs` numpy's `linear` quantile of the
  observations, i.e. the linear interpolant of the sorted observations `s` at the virtual index `(n−1)·r/(m−1)`.  The
  interpolant is monotone and equals `s[k]` at integers, so it is sandwiched between order statistics,

      s[(n−1)·r / m]  ≤  Q_obs(r/(m−1))  ≤  s[min((n−1)(r+1)/m + 1, n−1)]            (natural-number division)

  and both sides are grid sums of the kind bounded in `Lemmas/C01Bound.lean` (the right one for the sample shifted up
  by one order statistic).  Result: `|mean out − mean obs| ≤ range(obs)·(1/n + 1/m)`.
-/
import IbicusModel.Lemmas.C01Bound
import IbicusModel.Lemmas.StatsInverse

namespace Lemmas.C01Bound
open Model.Stats Model.Debiasers Lemmas.Stats Lemmas.C01 Lemmas.C03

/-! ### the sample shifted up by one order statistic: `s⁺[j] = s[min(j+1, n−1)]` -/

def shiftUp (s : List Rat) : List Rat := (List.range s.length).map (fun j => s.getD (min (j + 1) (s.length - 1)) 0)

theorem shiftUp_length (s : List Rat) : (shiftUp s).length = s.length := by simp [shiftUp]

theorem shiftUp_getD (s : List Rat) {j : Nat} (hj : j < s.length) :
    (shiftUp s).getD j 0 = s.getD (min (j + 1) (s.length - 1)) 0 := by
  rw [getD_eq _ j (by rw [shiftUp_length]; exact hj)]
  simp [shiftUp]

theorem shiftUp_sorted {s : List Rat} (hs : s.Pairwise (· ≤ ·)) : (shiftUp s).Pairwise (· ≤ ·) := by
  unfold shiftUp
  rw [List.pairwise_map]
  refine (List.pairwise_lt_range (n := s.length)).imp_of_mem ?_
  intro a b ha hb hab
  have hb' : b < s.length := List.mem_range.mp hb
  exact sorted_getD_mono hs (by omega) (by omega)

theorem shiftUp_ne_nil {s : List Rat} (hne : s ≠ []) : shiftUp s ≠ [] := by
  intro h
  have := shiftUp_length s
  rw [h] at this
  exact hne (List.length_eq_zero_iff.mp this.symm)

theorem shiftUp_sum {s : List Rat} (hne : s ≠ []) :
    (shiftUp s).sum = s.sum - s.getD 0 0 + s.getD (s.length - 1) 0 := by
  obtain ⟨n', hn'⟩ : ∃ n', s.length = n' + 1 := ⟨s.length - 1, by have := List.length_pos_iff.mpr hne; omega⟩
  have c := sum_eq_range s
  unfold shiftUp
  rw [hn'] at c ⊢
  rw [sum_range_succ_last]
  have a := sum_range_succ_first n' (fun j => s.getD j 0)
  have e : (List.range n').map (fun j => s.getD (min (j + 1) (n' + 1 - 1)) 0) = (List.range n').map (fun k => s.getD (k + 1) 0) := by
    apply List.map_congr_left
    intro j hj
    have : j < n' := List.mem_range.mp hj
    rw [Nat.min_eq_left (by omega)]
  rw [e]
  have e2 : min (n' + 1) (n' + 1 - 1) = n' := by omega
  rw [e2]
  simp only [Nat.add_sub_cancel]
  linarith

/-- the grid sum shifted by one grid point: `Σ_{k<m} s[(n−1)k/m] = Σ_{r<m} s[(n−1)(r+1)/m] + s[0] − s[n−1]` -/
theorem gridSum_shift (s : List Rat) {m : Nat} (hm : 0 < m) :
    ((List.range m).map (fun k => s.getD ((s.length - 1) * k / m) 0)).sum
      = gridSum s m + s.getD 0 0 - s.getD (s.length - 1) 0 := by
  have a := sum_range_succ_first m (fun k => s.getD ((s.length - 1) * k / m) 0)
  have b := sum_range_succ_last m (fun k => s.getD ((s.length - 1) * k / m) 0)
  simp only [Nat.mul_zero, Nat.zero_div, Nat.mul_div_cancel _ hm] at a b
  unfold gridSum
  linarith

/-! ### the `linear` quantile between order statistics -/

theorem cast_div_le (a m : Nat) (hm : 0 < m) : ((a / m : Nat) : Rat) ≤ (a : Rat) / (m : Rat) := by
  have hm' : (0 : Rat) < (m : Rat) := by exact_mod_cast hm
  rw [le_div_iff₀ hm']
  have := Nat.div_mul_le_self a m
  exact_mod_cast this

theorem lt_cast_div_succ (a m : Nat) (hm : 0 < m) : (a : Rat) / (m : Rat) < ((a / m : Nat) : Rat) + 1 := by
  have hm' : (0 : Rat) < (m : Rat) := by exact_mod_cast hm
  rw [div_lt_iff₀ hm']
  have := Nat.lt_mul_div_succ a hm
  have h2 : ((a : Nat) : Rat) < ((m * (a / m + 1) : Nat) : Rat) := by exact_mod_cast this
  push_cast at h2
  linarith

/-- the virtual index of the `r`-th grid point, `(n−1)·r/(m−1)`, lies between `(n−1)r/m` and `(n−1)(r+1)/m` -/
theorem vi_between {n m r : Nat} (hn : 1 ≤ n) (hm : 2 ≤ m) (hr : r < m) :
    (((n - 1) * r : Nat) : Rat) / (m : Rat) ≤ ((n : Rat) - 1) * ((r : Rat) / ((m : Rat) - 1)) ∧
      ((n : Rat) - 1) * ((r : Rat) / ((m : Rat) - 1)) ≤ (((n - 1) * (r + 1) : Nat) : Rat) / (m : Rat) := by
  have hn' : (1 : Rat) ≤ (n : Rat) := by exact_mod_cast hn
  have hm' : (2 : Rat) ≤ (m : Rat) := by exact_mod_cast hm
  have hr' : (r : Rat) + 1 ≤ (m : Rat) := by exact_mod_cast hr
  have hr0 : (0 : Rat) ≤ (r : Rat) := by positivity
  have hm1 : (0 : Rat) < (m : Rat) - 1 := by linarith
  have hm0 : (0 : Rat) < (m : Rat) := by linarith
  have e1 : (((n - 1) * r : Nat) : Rat) = ((n : Rat) - 1) * (r : Rat) := by rw [Nat.cast_mul, Nat.cast_sub hn]; simp
  have e2 : (((n - 1) * (r + 1) : Nat) : Rat) = ((n : Rat) - 1) * ((r : Rat) + 1) := by
    rw [Nat.cast_mul, Nat.cast_sub hn]; simp
  rw [e1, e2, mul_div_assoc, mul_div_assoc]
  have h1 : (r : Rat) / (m : Rat) ≤ (r : Rat) / ((m : Rat) - 1) := by
    rw [div_le_div_iff₀ hm0 hm1]; nlinarith
  have h2 : (r : Rat) / ((m : Rat) - 1) ≤ ((r : Rat) + 1) / (m : Rat) := by
    rw [div_le_div_iff₀ hm1 hm0]; nlinarith
  exact ⟨mul_le_mul_of_nonneg_left h1 (by linarith), mul_le_mul_of_nonneg_left h2 (by linarith)⟩

/-- **sandwich** of the `linear` quantile at the grid point `r/(m−1)` between two order statistics -/
theorem quantileLinear_grid_between {s : List Rat} (hs : s.Pairwise (· ≤ ·)) (hne : s ≠ []) {m r : Nat} (hm : 2 ≤ m)
    (hr : r < m) :
    s.getD ((s.length - 1) * r / m) 0 ≤ quantileLinear s ((r : Rat) / ((m : Rat) - 1)) ∧
      quantileLinear s ((r : Rat) / ((m : Rat) - 1)) ≤ (shiftUp s).getD ((s.length - 1) * (r + 1) / m) 0 := by
  have hn : 0 < s.length := List.length_pos_iff.mpr hne
  have hm0 : 0 < m := by omega
  obtain ⟨hv1, hv2⟩ := vi_between (n := s.length) hn hm hr
  rw [quantileLinear_eq]
  constructor
  · -- k = (n-1) r / m ≤ vi, k ≤ n − 1
    have hk : (s.length - 1) * r / m + 1 ≤ s.length := by
      have : (s.length - 1) * r / m ≤ s.length - 1 := by
        apply Nat.div_le_of_le_mul
        rw [Nat.mul_comm m]
        exact Nat.mul_le_mul_left _ (le_of_lt hr)
      omega
    rw [← clampLerp_nat hk]
    exact clampLerp_mono hs hne (le_trans (cast_div_le _ m hm0) hv1)
  · have hg : (s.length - 1) * (r + 1) / m < s.length := by
      have : (s.length - 1) * (r + 1) / m ≤ s.length - 1 := by
        apply Nat.div_le_of_le_mul
        rw [Nat.mul_comm m]
        exact Nat.mul_le_mul_left _ hr
      omega
    rw [shiftUp_getD s hg]
    rcases Nat.lt_or_ge ((s.length - 1) * (r + 1) / m + 1) (s.length - 1) with hlt | hge
    · rw [Nat.min_eq_left (le_of_lt hlt)]
      rw [← clampLerp_nat (s := s) (r := (s.length - 1) * (r + 1) / m + 1) (by omega)]
      apply clampLerp_mono hs hne
      have := lt_cast_div_succ ((s.length - 1) * (r + 1)) m hm0
      rw [Nat.cast_add, Nat.cast_one]
      linarith
    · rw [Nat.min_eq_right hge]
      exact (clampLerp_range hs hne _).2

/-! ### CDFt with `cm_future = cm_hist` at any sizes, under the range guard: the quantile of the observations at the rank -/

theorem cdftShifted_same' (d : DeltaShift) (obs H : List Rat) :
    (cdftShifted d obs H H).2 = (cdftShifted d obs H H).1 := by
  cases d <;> rfl

/-- the `linear` quantile of a non-empty sample lies in its range -/
theorem iecdfLinear_range (obs : List Rat) (ho : obs ≠ []) (p : Rat) :
    minQ obs ≤ iecdf1 .linear obs p ∧ iecdf1 .linear obs p ≤ maxQ obs := by
  unfold iecdf1 iecdfSorted
  simp only []
  rw [quantileLinear_eq]
  have := clampLerp_range (sortQ_sorted obs) (sortQ_ne_nil ho) ((((sortQ obs).length : Rat) - 1) * p)
  rw [sortQ_head _ ho, sortQ_length, sortQ_last _ ho] at this
  rw [sortQ_length]
  exact this

theorem cdft_self_value (d : DeltaShift) (obs H : List Rat) (ho : obs ≠ [])
    (hm : 2 ≤ (cdftShifted d obs H H).1.length) (hH' : (cdftShifted d obs H H).1.Nodup)
    (hr : ∀ v ∈ obs, minQ (cdftShifted d obs H H).1 ≤ v ∧ v ≤ maxQ (cdftShifted d obs H H).1) :
    cdftMapping d .linear .linear obs H H =
      (cdftShifted d obs H H).1.map (fun x => quantileLinear (sortQ obs)
        (((rankLt (cdftShifted d obs H H).1 x : Nat) : Rat) / (((cdftShifted d obs H H).1.length : Rat) - 1))) := by
  unfold cdftMapping cdftMappingG
  simp only []
  rw [cdftShifted_same']
  generalize (cdftShifted d obs H H).1 = H' at hH' hm hr ⊢
  unfold cdftStage4 cdftStage3 cdftStage2 cdftStage1
  rw [List.map_map, List.map_map, List.map_map]
  apply List.map_congr_left
  intro x hx
  simp only [Function.comp, ecdf1_linear]
  rw [iecdfLinear_ecdfLin_clamp hH' hm, ecdfLin_own hH' hm hx]
  obtain ⟨h0, h1⟩ := iecdfLinear_range obs ho (((rankLt H' x : Nat) : Rat) / ((H'.length : Rat) - 1))
  have hlo := (hr _ (minQ_mem ho)).1
  have hhi := (hr _ (maxQ_mem ho)).2
  rw [min_eq_right (le_trans h1 hhi), max_eq_right (le_trans hlo h0)]
  rfl

/-- the sum of the CDFt-mapped calibration sample: the `linear` quantiles of the observations on the grid `r/(m−1)` -/
theorem cdft_self_sum (d : DeltaShift) (obs H : List Rat) (ho : obs ≠ [])
    (hm : 2 ≤ (cdftShifted d obs H H).1.length) (hH' : (cdftShifted d obs H H).1.Nodup)
    (hr : ∀ v ∈ obs, minQ (cdftShifted d obs H H).1 ≤ v ∧ v ≤ maxQ (cdftShifted d obs H H).1) :
    (cdftMapping d .linear .linear obs H H).sum =
      ((List.range (cdftShifted d obs H H).1.length).map (fun (r : Nat) => quantileLinear (sortQ obs)
        ((r : Rat) / (((cdftShifted d obs H H).1.length : Rat) - 1)))).sum := by
  rw [cdft_self_value d obs H ho hm hH' hr]
  generalize (cdftShifted d obs H H).1 = H' at hH' ⊢
  have e : H'.map (fun x => quantileLinear (sortQ obs) (((rankLt H' x : Nat) : Rat) / ((H'.length : Rat) - 1)))
      = (H'.map (rankLt H')).map (fun (r : Nat) => quantileLinear (sortQ obs) ((r : Rat) / ((H'.length : Rat) - 1))) := by
    rw [List.map_map]; rfl
  rw [e, map_rankLt_eq_rankOf hH', ((rankOf_perm H').map _).sum_eq]

/-- **the two-sided comparison of the grid of `linear` quantiles with the sample sum**:
    `m·Σs − (n+m)·R ≤ n·Σ_{r<m} Q(r/(m−1)) ≤ m·Σs + (n+m)·R`, `R = s[n−1] − s[0]` -/
theorem linearGrid_bounds {s : List Rat} (hs : s.Pairwise (· ≤ ·)) (hne : s ≠ []) {m : Nat} (hm : 2 ≤ m) :
    (m : Rat) * s.sum - ((s.length : Rat) + (m : Rat)) * (s.getD (s.length - 1) 0 - s.getD 0 0)
        ≤ (s.length : Rat) * ((List.range m).map (fun (r : Nat) => quantileLinear s ((r : Rat) / ((m : Rat) - 1)))).sum ∧
      (s.length : Rat) * ((List.range m).map (fun (r : Nat) => quantileLinear s ((r : Rat) / ((m : Rat) - 1)))).sum
        ≤ (m : Rat) * s.sum + ((s.length : Rat) + (m : Rat)) * (s.getD (s.length - 1) 0 - s.getD 0 0) := by
  have hn : 0 < s.length := List.length_pos_iff.mpr hne
  have hn' : (0 : Rat) < (s.length : Rat) := by exact_mod_cast hn
  have hm0 : 0 < m := by omega
  have hlo : ((List.range m).map (fun k => s.getD ((s.length - 1) * k / m) 0)).sum
      ≤ ((List.range m).map (fun (r : Nat) => quantileLinear s ((r : Rat) / ((m : Rat) - 1)))).sum :=
    sum_map_le _ _ _ (fun r hr => (quantileLinear_grid_between hs hne hm (List.mem_range.mp hr)).1)
  have hhi : ((List.range m).map (fun (r : Nat) => quantileLinear s ((r : Rat) / ((m : Rat) - 1)))).sum
      ≤ ((List.range m).map (fun r => (shiftUp s).getD ((s.length - 1) * (r + 1) / m) 0)).sum :=
    sum_map_le _ _ _ (fun r hr => (quantileLinear_grid_between hs hne hm (List.mem_range.mp hr)).2)
  rw [gridSum_shift s hm0] at hlo
  have hL := gridSum_lower hs hne hm0
  have hU := gridSum_upper (shiftUp_sorted hs) (shiftUp_ne_nil hne) hm0
  rw [shiftUp_length, shiftUp_sum hne, shiftUp_getD s (by omega : s.length - 1 < s.length),
    shiftUp_getD s hn] at hU
  have hG : gridSum (shiftUp s) m = ((List.range m).map (fun r => (shiftUp s).getD ((s.length - 1) * (r + 1) / m) 0)).sum := by
    unfold gridSum; rw [shiftUp_length]
  rw [← hG] at hhi
  have e1 : min (s.length - 1 + 1) (s.length - 1) = s.length - 1 := by omega
  rw [e1] at hU
  have h01 : s.getD 0 0 ≤ s.getD (min (0 + 1) (s.length - 1)) 0 := sorted_getD_mono hs (Nat.zero_le _) (by omega)
  have hm' : (0 : Rat) < (m : Rat) := by exact_mod_cast hm0
  constructor
  · have := mul_le_mul_of_nonneg_left hlo (le_of_lt hn')
    nlinarith
  · have := mul_le_mul_of_nonneg_left hhi (le_of_lt hn')
    nlinarith

end Lemmas.C01Bound
