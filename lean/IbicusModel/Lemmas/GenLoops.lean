/-
  C06 / C07 / C08 tier A for the loops: the loop structures regenerated from /repo's current source (`Gen/Loops.lean`)
  equal the hand-written specs of `Model/Loops.lean`, and the denotation of those specs *is* the skeleton function of
  `Model/Skeleton.lean` / the centre lists of `Model/Windows.lean` that every C06 / C07 / C08 theorem is stated on.

  A change of the real loops such as: the cm_hist window looked up with the days of year of obs, the mask computed from the
  wrong index set, the result buffer sized like another series, the loop running over `use` of another series, the write
  going to the window indices, a dropped `continue` in `use` … changes the regenerated value and breaks `Gen = Model` here.
-/
import IbicusModel.Gen.Loops
import IbicusModel.Lemmas.Loops

namespace Lemmas.GenLoops
open Model.Loops Model.Skeleton Model.Windows Lemmas.Loops

/-! ### regenerated = expected (complete finite data, by evaluation) -/

theorem useDoy : Gen.Loops.useDoy = Model.Loops.useDoy := by decide +kernel
theorem useYears : Gen.Loops.useYears = Model.Loops.useYears := by decide +kernel
theorem loopRW : Gen.Loops.loopRW = Model.Loops.loopRW := by decide +kernel
theorem loopDC : Gen.Loops.loopDC = Model.Loops.loopDC := by decide +kernel
theorem loopIsimipRW : Gen.Loops.loopIsimipRW = Model.Loops.loopIsimipRW := by decide +kernel
theorem loopIsimipMonths : Gen.Loops.loopIsimipMonths = Model.Loops.loopIsimipMonths := by decide +kernel
theorem loopCDFt : Gen.Loops.loopCDFt = Model.Loops.loopCDFt := by decide +kernel
theorem loopQDM : Gen.Loops.loopQDM = Model.Loops.loopQDM := by decide +kernel

/-! ### denotation of the expected spec = the skeleton (for every element type, window function, window length / step,
    calendar and data) -/

/-- `RunningWindowDebiaser.apply_location` -/
theorem denote_loopRW {α} (f : WinFn α) (L S : Int) (doyO doyH doyF : List Int) (obs hist fut : List α) :
    denote Model.Loops.loopRW f ⟨L, S, pick doyO doyH doyF, pick obs hist fut⟩
      = applyLocationRW f L S doyO doyH doyF obs hist fut := by
  unfold denote applyLocationRW
  have hw : loopWrites Model.Loops.loopRW f ⟨L, S, pick doyO doyH doyF, pick obs hist fut⟩
      = windowWrites f L S doyO doyH doyF obs hist fut := by
    funext c
    simp [loopWrites, slotVal, findSlot, slotOf, Model.Loops.loopRW, writeBack, denIdx, denSel, denMask, pick, windowWrites]
    rw [maskOf_nodup _ _ (idxWindow_nodup _ _ _)]
  rw [hw]
  rfl

/-- `DeltaChange.apply_location` -/
theorem denote_loopDC {α} (f : WinFn α) (L S : Int) (doyO doyH doyF : List Int) (obs hist fut : List α) :
    denote Model.Loops.loopDC f ⟨L, S, pick doyO doyH doyF, pick obs hist fut⟩
      = applyLocationDC f L S doyO doyH doyF obs hist fut := by
  unfold denote applyLocationDC
  have hw : loopWrites Model.Loops.loopDC f ⟨L, S, pick doyO doyH doyF, pick obs hist fut⟩
      = windowWritesDC f L S doyO doyH doyF obs hist fut := by
    funext c
    simp [loopWrites, slotVal, findSlot, slotOf, Model.Loops.loopDC, writeBack, denIdx, denSel, denMask, pick, windowWritesDC]
    rw [maskOf_nodup _ _ (idxWindow_nodup _ _ _)]
  rw [hw]
  rfl

/-- `ISIMIP.apply_location`, running-window loop: the same skeleton as `RunningWindowDebiaser` (the per-window function
    receives the years of the window instead of its dates — both are functions of the positions) -/
theorem denote_loopIsimipRW {α} (f : WinFn α) (L S : Int) (doyO doyH doyF : List Int) (obs hist fut : List α) :
    denote Model.Loops.loopIsimipRW f ⟨L, S, pick doyO doyH doyF, pick obs hist fut⟩
      = applyLocationRW f L S doyO doyH doyF obs hist fut := by
  unfold denote applyLocationRW
  have hw : loopWrites Model.Loops.loopIsimipRW f ⟨L, S, pick doyO doyH doyF, pick obs hist fut⟩
      = windowWrites f L S doyO doyH doyF obs hist fut := by
    funext c
    simp [loopWrites, slotVal, findSlot, slotOf, Model.Loops.loopIsimipRW, writeBack, denIdx, denSel, denMask, pick, windowWrites]
    rw [maskOf_nodup _ _ (idxWindow_nodup _ _ _)]
  rw [hw]
  rfl

/-- `ISIMIP.apply_location`, month loop (window length and step play no role) -/
theorem denote_loopIsimipMonths {α} (f : WinFn α) (L S : Int) (mO mH mF : List Int) (obs hist fut : List α) :
    denote Model.Loops.loopIsimipMonths f ⟨L, S, pick mO mH mF, pick obs hist fut⟩
      = applyLocationMonths f mO mH mF obs hist fut := by
  unfold denote applyLocationMonths
  have hw : loopWrites Model.Loops.loopIsimipMonths f ⟨L, S, pick mO mH mF, pick obs hist fut⟩
      = monthWrites f mO mH mF obs hist fut := by
    funext c
    simp [loopWrites, slotVal, findSlot, slotOf, Model.Loops.loopIsimipMonths, writeBack, denIdx, denSel, pick, monthWrites]
  rw [hw]
  rfl

/-- `CDFt.apply_on_window`, loop over year windows of `cm_future` (`obs`, `cm_hist` are handed over whole: `g` closes
    over them) -/
theorem denote_loopCDFt {α} (g : YearFn α) (L S : Int) (yO yH years : List Int) (obs hist fut : List α) :
    denoteYears Model.Loops.loopCDFt g ⟨L, S, pick yO yH years, pick obs hist fut⟩ = applyYears g L S years fut := by
  unfold denoteYears applyYears
  have hw : yearLoopWrites Model.Loops.loopCDFt g ⟨L, S, pick yO yH years, pick obs hist fut⟩ = yearWrites g L S years fut := by
    funext c
    simp [yearLoopWrites, slotVal, findSlot, slotOf, Model.Loops.loopCDFt, writeBack, denIdx, denSel, denMask, pick, yearWrites,
      take_whereTrue]
  rw [hw]
  rfl

/-- `QuantileDeltaMapping.apply_on_window`, loop over year windows of `cm_future` (the fits of `obs` and `cm_hist` are
    computed once before the loop: `g` closes over them) -/
theorem denote_loopQDM {α} (g : YearFn α) (L S : Int) (yO yH years : List Int) (obs hist fut : List α) :
    denoteYears Model.Loops.loopQDM g ⟨L, S, pick yO yH years, pick obs hist fut⟩ = applyYears g L S years fut := by
  unfold denoteYears applyYears
  have hw : yearLoopWrites Model.Loops.loopQDM g ⟨L, S, pick yO yH years, pick obs hist fut⟩ = yearWrites g L S years fut := by
    funext c
    simp [yearLoopWrites, slotVal, findSlot, slotOf, Model.Loops.loopQDM, writeBack, denIdx, denSel, denMask, pick, yearWrites,
      take_whereTrue]
  rw [hw]
  rfl

/-! ### the generators -/

/-- `RunningWindowOverDaysOfYear.use` yields, for exactly the centres of `useCenters` (those that adjust at least one
    step — the `continue`), the centre and its adjust set -/
theorem denoteGen_useDoy (L S : Int) (doy : List Int) :
    denoteGen Model.Loops.useDoy "" L S doy
      = .ok ((useCenters S doy).map (fun c => [GenVal.int c, GenVal.idx (idxAdjust S doy c)])) := by
  simp [denoteGen, Model.Loops.useDoy, genCentres, useCenters, denGenExpr, GenVal.isEmpty]

/-- `RunningWindowOverYears.use` (default `returns = "years"`) yields, for exactly the centres of `yearCenters` — `np.unique`
    in front changes nothing —, the years adjusted and the years in the window -/
theorem denoteGen_useYears (L S : Int) (years : List Int) :
    denoteGen Model.Loops.useYears "years" L S years
      = .ok ((yearCenters S years).map (fun c => [GenVal.ints (yearsAdjusted S c), GenVal.ints (yearsInWindow L c)])) := by
  simp [denoteGen, Model.Loops.useYears, genCentres, denGenExpr, yearCenters_unique]

/-- the centres at which the two generators yield -/
theorem genCentres_useDoy (L S : Int) (doy : List Int) : genCentres Model.Loops.useDoy L S doy = useCenters S doy := by
  simp [Model.Loops.useDoy, genCentres, useCenters, denGenExpr, GenVal.isEmpty]

theorem genCentres_useYears (L S : Int) (years : List Int) : genCentres Model.Loops.useYears L S years = yearCenters S years := by
  simp [Model.Loops.useYears, genCentres, yearCenters_unique]

/-! ### non-vacuity: a spec with the wrong array has a different denotation (concrete witness, by evaluation) -/

/-- looking the `cm_hist` window up with the days of year of `obs` hands a different sample to the window function -/
example :
    let bad : LoopSpec := { Model.Loops.loopRW with args := [⟨"obs", .data .obs, .sub (.window .obs)⟩, ⟨"cm_hist", .data .hist, .sub (.window .obs)⟩,
           ⟨"cm_future", .data .fut, .sub (.window .fut)⟩] }
    let f : WinFn Int := fun _ h x _ _ _ => .ok (x.map (fun _ => h.sum))
    denote bad f ⟨1, 1, pick [1, 2] [2, 1] [1, 2], pick [0, 0] [10, 20] [0, 0]⟩
      ≠ denote Model.Loops.loopRW f ⟨1, 1, pick [1, 2] [2, 1] [1, 2], pick [0, 0] [10, 20] [0, 0]⟩ := by decide +kernel

end Lemmas.GenLoops
