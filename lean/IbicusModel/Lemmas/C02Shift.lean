/-
  C02 helper lemmas, part 2: shift laws (`x ↦ x + c`) of the sorting / empirical-cdf toolkit as the `a = 1` case of
  `Lemmas/StatsAffine.lean`, the histogram ecdf under the oracle law "the bins shift with the data", and the
  abstract interface `ShiftLaws E Q` that the generic CDFt theorem needs, with its instances
  (step / linear / histogram ecdf × all nine inverse-ecdf methods).
-/
import IbicusModel.Lemmas.StatsAffine
import IbicusModel.Lemmas.C02Mean

namespace Lemmas.C02
open Model.Stats Model.Family Lemmas.Stats Lemmas.StatsAffine

/-! ### shift corollaries of the affine laws -/

theorem sortQ_shift (c : Rat) (xs : List Rat) : sortQ (xs.map (fun x => x + c)) = (sortQ xs).map (fun x => x + c) := by
  rw [map_add_eq_affine, map_add_eq_affine, sortQ_map_affine one_pos]

theorem argsort_shift (c : Rat) (xs : List Rat) : argsort (xs.map (fun x => x + c)) = argsort xs := by
  rw [map_add_eq_affine, argsort_map_affine one_pos]

theorem rankOf_shift (c : Rat) (xs : List Rat) : rankOf (xs.map (fun x => x + c)) = rankOf xs := by
  rw [map_add_eq_affine, rankOf_map_affine one_pos]

theorem takeIdx_shift (c : Rat) (xs : List Rat) (idx : List Nat) (h : ∀ i ∈ idx, i < xs.length) :
    takeIdx (xs.map (fun x => x + c)) idx = (takeIdx xs idx).map (fun x => x + c) :=
  takeIdx_map _ xs idx h

theorem minQ_shift (c : Rat) {xs : List Rat} (h : xs ≠ []) : minQ (xs.map (fun x => x + c)) = minQ xs + c := by
  rw [map_add_eq_affine, minQ_map_affine one_pos c h]; ring

theorem maxQ_shift (c : Rat) {xs : List Rat} (h : xs ≠ []) : maxQ (xs.map (fun x => x + c)) = maxQ xs + c := by
  rw [map_add_eq_affine, maxQ_map_affine one_pos c h]; ring

/-- **the empirical cdfs are shift invariant**: `ecdf (x + c) (y + c) = ecdf x y` (step and linear) -/
theorem ecdf1_shift (m : EcdfMethod) (x : List Rat) (y c : Rat) :
    ecdf1 m (x.map (fun v => v + c)) (y + c) = ecdf1 m x y := by
  have := ecdf1_map_affine one_pos c m x y
  rw [one_mul] at this
  rw [map_add_eq_affine]
  exact this

theorem ecdf_shift (m : EcdfMethod) (x ys : List Rat) (c : Rat) :
    ecdf m (x.map (fun v => v + c)) (ys.map (fun v => v + c)) = ecdf m x ys := by
  unfold ecdf
  rw [List.map_map]
  apply List.map_congr_left
  intro y _
  exact ecdf1_shift m x y c

/-- the ecdf of a sample against itself does not see a shift of the sample -/
theorem ecdf_self_shift (m : EcdfMethod) (x : List Rat) (c : Rat) :
    ecdf m (x.map (fun v => v + c)) (x.map (fun v => v + c)) = ecdf m x x := ecdf_shift m x x c

/-- **all nine inverse empirical cdfs are shift equivariant**: `iecdf (x + c) q = iecdf x q + c` (`q ≤ 1`) -/
theorem iecdf1_shift (m : IecdfMethod) {x : List Rat} (hne : x ≠ []) {q : Rat} (h1 : q ≤ 1) (c : Rat) :
    iecdf1 m (x.map (fun v => v + c)) q = iecdf1 m x q + c := by
  rw [map_add_eq_affine, iecdf1_map_affine one_pos c m hne h1]; ring

theorem iecdf_shift (m : IecdfMethod) {x : List Rat} (hne : x ≠ []) (qs : List Rat) (h1 : ∀ q ∈ qs, q ≤ 1) (c : Rat) :
    iecdf m (x.map (fun v => v + c)) qs = (iecdf m x qs).map (fun v => v + c) := by
  rw [map_add_eq_affine, iecdf_map_affine one_pos c m hne qs h1, ← map_add_eq_affine]

/-- the non-parametric quantile map `iecdf_y(ecdf_x(vals))` with *all three* samples shifted -/
theorem qmap_shift_all (em : EcdfMethod) (im : IecdfMethod) (x : List Rat) {y : List Rat} (hy : y ≠ []) (vals : List Rat)
    (c : Rat) :
    qmap em im (x.map (fun v => v + c)) (y.map (fun v => v + c)) (vals.map (fun v => v + c)) =
      (qmap em im x y vals).map (fun v => v + c) := by
  unfold qmap
  rw [ecdf_shift, iecdf_shift im hy _ (ecdf_le_one em x vals)]

/-! ### the histogram ecdf (`kernel_density`): edges transformed with the data -/

theorem div_affine_cancel {a : Rat} (ha : 0 < a) (b y e0 e1 : Rat) :
    (a * y + b - (a * e0 + b)) / (a * e1 + b - (a * e0 + b)) = (y - e0) / (e1 - e0) := by
  have h1 : a * y + b - (a * e0 + b) = a * (y - e0) := by ring
  have h2 : a * e1 + b - (a * e0 + b) = a * (e1 - e0) := by ring
  rw [h1, h2, mul_div_mul_left _ _ (ne_of_gt ha)]

/-- **`ecdf(method="kernel_density")` under a change of unit of data and bin edges** (`a > 0`; guard: one more
    edge than counts) -/
theorem ecdfHist1_affine {a : Rat} (ha : 0 < a) (b : Rat) (edges : List Rat) (counts : List Nat) (y : Rat)
    (hlen : edges.length = counts.length + 1) :
    ecdfHist1 (affine a b edges) counts (a * y + b) = ecdfHist1 edges counts y := by
  have hg := aff_strictMono ha b
  have e0 : (affine a b edges).getD 0 0 = aff a b (edges.getD 0 0) := getD_map _ edges 0 (by omega)
  have ek : (affine a b edges).getD counts.length 0 = aff a b (edges.getD counts.length 0) :=
    getD_map _ edges counts.length (by omega)
  have hy : a * y + b = aff a b y := rfl
  unfold ecdfHist1
  simp only []
  rw [e0, ek, hy]
  by_cases h0 : y ≤ edges.getD 0 0
  · rw [if_pos h0, if_pos ((aff_le_iff ha b _ _).mpr h0)]
  · rw [if_neg h0, if_neg (fun h => h0 ((aff_le_iff ha b _ _).mp h))]
    by_cases h1 : y ≥ edges.getD counts.length 0
    · rw [if_pos h1, if_pos ((aff_le_iff ha b _ _).mpr h1)]
    · rw [if_neg h1, if_neg (fun h => h1 ((aff_le_iff ha b _ _).mp h))]
      rw [affine_eq_map, lastLE_map_mono hg]
      cases hl : lastLE edges y with
      | none => rfl
      | some j =>
        simp only []
        -- `j + 1 = cnt edges y ≤ counts.length`: otherwise the last edge is `≤ y`
        have hcnt : cnt edges y = j + 1 := by
          rw [lastLE_eq] at hl
          by_cases hz : cnt edges y = 0
          · rw [if_pos hz] at hl; exact absurd hl (by simp)
          · rw [if_neg hz] at hl
            have := Option.some.inj hl
            omega
        have hj : j + 1 ≤ counts.length := by
          by_contra hgt
          exact h1 (cnt_below edges y counts.length (by omega))
        rw [getD_map _ edges j (by omega), getD_map _ edges (j + 1) (by omega)]
        unfold aff
        rw [mul_div_assoc, div_affine_cancel ha, ← mul_div_assoc]

theorem ecdfHist1_shift (c : Rat) (edges : List Rat) (counts : List Nat) (y : Rat)
    (hlen : edges.length = counts.length + 1) :
    ecdfHist1 (edges.map (fun v => v + c)) counts (y + c) = ecdfHist1 edges counts y := by
  have := ecdfHist1_affine one_pos c edges counts y hlen
  rw [one_mul] at this
  rw [map_add_eq_affine]
  exact this

/-! ### the interface of the generic CDFt theorem -/

/-- What `_apply_CDFt_mapping` needs of its empirical cdf `E sample point` and inverse empirical cdf
    `Q sample prob` for the shift to pass through: `E` is shift invariant with values in `[0, 1]`,
    `Q` is shift equivariant on `[0, 1]`. -/
structure ShiftLaws (E Q : List Rat → Rat → Rat) : Prop where
  E_shift : ∀ (x : List Rat) (y c : Rat), x ≠ [] → E (x.map (fun v => v + c)) (y + c) = E x y
  E_le_one : ∀ (x : List Rat) (y : Rat), x ≠ [] → E x y ≤ 1
  Q_shift : ∀ (x : List Rat) (q c : Rat), x ≠ [] → q ≤ 1 → Q (x.map (fun v => v + c)) q = Q x q + c

/-- **every `ecdf_method` × `iecdf_method` pair of the library** (2 × 9) satisfies the laws -/
theorem shiftLaws_ecdf_iecdf (em : EcdfMethod) (im : IecdfMethod) : ShiftLaws (ecdf1 em) (iecdf1 im) where
  E_shift := fun x y c _ => ecdf1_shift em x y c
  E_le_one := fun x y _ => ecdf1_le_one em x y
  Q_shift := fun _ _ c hne h1 => iecdf1_shift im hne h1 c

/-- the histogram ecdf as a function of the sample: `bins x = (edges, counts)` is the oracle `np.histogram(x, "auto")` -/
def histE (bins : List Rat → List Rat × List Nat) (x : List Rat) (y : Rat) : Rat :=
  ecdfHist1 (bins x).1 (bins x).2 y

/-- the oracle laws of the bins: shape (`HistLaws`) and "the bins shift with the data" -/
structure BinsShift (bins : List Rat → List Rat × List Nat) : Prop where
  laws : ∀ x : List Rat, x ≠ [] → HistLaws (bins x).1 (bins x).2
  shift : ∀ (x : List Rat) (c : Rat), x ≠ [] →
    bins (x.map (fun v => v + c)) = ((bins x).1.map (fun v => v + c), (bins x).2)

/-- **histogram ecdf × any inverse-ecdf method** under the oracle law (the empty-sample clause of `E_shift`
    needs the bins of the empty sample to be well-shaped as well: `np.histogram` of an empty array returns one
    empty bin `[0, 1]`, which does *not* shift — so the law is stated for non-empty samples) -/
theorem histE_shift (bins : List Rat → List Rat × List Nat) (hb : BinsShift bins) {x : List Rat} (hx : x ≠ [])
    (y c : Rat) : histE bins (x.map (fun v => v + c)) (y + c) = histE bins x y := by
  unfold histE
  rw [hb.shift x c hx]
  exact ecdfHist1_shift c _ _ y (hb.laws x hx).len

theorem histE_le_one (bins : List Rat → List Rat × List Nat) (hb : BinsShift bins) {x : List Rat} (hx : x ≠ [])
    (y : Rat) : histE bins x y ≤ 1 := (ecdfHist_range (hb.laws x hx) y).2

/-- **`kernel_density` ecdf × every inverse-ecdf method**, under the oracle law for the bins -/
theorem shiftLaws_hist_iecdf (bins : List Rat → List Rat × List Nat) (hb : BinsShift bins) (im : IecdfMethod) :
    ShiftLaws (histE bins) (iecdf1 im) where
  E_shift := fun _ y c hx => histE_shift bins hb hx y c
  E_le_one := fun _ y hx => histE_le_one bins hb hx y
  Q_shift := fun _ _ c hne h1 => iecdf1_shift im hne h1 c

/-! ### non-vacuity -/

example : ecdf1 .linear ([1, 2, 4].map (fun v => v + 3)) (3 + 3) = ecdf1 .linear [1, 2, 4] 3 := ecdf1_shift _ _ _ _
example : iecdf1 .hazen ([1, 2, 4].map (fun v => v + 3)) (1 / 3) = iecdf1 .hazen [1, 2, 4] (1 / 3) + 3 :=
  iecdf1_shift .hazen (by decide) (by norm_num) 3
/-- a bins oracle satisfying `BinsShift`: one bin from the minimum to the maximum + 1 -/
example : BinsShift (fun x => ([minQ x, maxQ x + 1], [x.length])) where
  laws := fun x hx => {
    len := rfl
    incr := by
      have := minQ_le_maxQ hx
      simp only [List.pairwise_cons, List.mem_singleton, forall_eq, List.not_mem_nil, false_imp_iff,
        implies_true, List.Pairwise.nil, and_true]
      linarith
    total := by simpa using List.length_pos_iff.mpr hx }
  shift := fun x c hx => by
    simp only [List.map_cons, List.map_nil, List.length_map, minQ_shift c hx, maxQ_shift c hx]
    congr 2
    ring_nf

end Lemmas.C02
