/-
  C12 tier A for the provenance programs: for every debiaser class, the function table regenerated from /repo's
  current source (`Gen/Purity.lean`: `apply_location` and every ibicus function reachable from it, each numpy call
  classified by the TRUSTED `NpOp.aliases`) is ACCEPTED by the provenance checker of `Model/PurityProg.lean` — no store
  reachable from `apply_location` goes through a name that may denote one of the caller's six buffers, and the returned
  array is a buffer the library allocated.  By `Lemmas.PurityProg.accepted_sound` every execution of the regenerated
  program then preserves the caller's buffers.

  A changed dataflow INTO a write site (`vals = np.asarray(vals); vals *= s`, a sort copy dropped, a helper that returns
  its argument, a basic slice handed to a function that writes into its argument) makes `decide +kernel` fail here on
  the next run; a renamed local, a reordered computation or a new temporary does not.
-/
import IbicusModel.Gen.Purity
import IbicusModel.Lemmas.PurityProg

namespace Lemmas.GenPurity
open Model.PurityProg

/-- complete evaluation of the checker on the regenerated table (labelled `decide +kernel`) -/
theorem gen_LinearScaling_accepted : accepted Gen.Purity.LinearScaling.prog 0 = true := by decide +kernel
theorem gen_QuantileMapping_accepted : accepted Gen.Purity.QuantileMapping.prog 0 = true := by decide +kernel
theorem gen_ECDFM_accepted : accepted Gen.Purity.ECDFM.prog 0 = true := by decide +kernel
theorem gen_CDFt_accepted : accepted Gen.Purity.CDFt.prog 0 = true := by decide +kernel
theorem gen_QuantileDeltaMapping_accepted : accepted Gen.Purity.QuantileDeltaMapping.prog 0 = true := by decide +kernel
theorem gen_ScaledDistributionMapping_accepted : accepted Gen.Purity.ScaledDistributionMapping.prog 0 = true := by decide +kernel
theorem gen_DeltaChange_accepted : accepted Gen.Purity.DeltaChange.prog 0 = true := by decide +kernel
theorem gen_ISIMIP_accepted : accepted Gen.Purity.ISIMIP.prog 0 = true := by decide +kernel

/-- the eight regenerated function tables -/
def tables : List Prog := [Gen.Purity.LinearScaling.prog, Gen.Purity.QuantileMapping.prog, Gen.Purity.ECDFM.prog,
  Gen.Purity.CDFt.prog, Gen.Purity.QuantileDeltaMapping.prog, Gen.Purity.ScaledDistributionMapping.prog,
  Gen.Purity.DeltaChange.prog, Gen.Purity.ISIMIP.prog]

/-- **gen_inputs_preserved.**  For each debiaser class, every execution of the REGENERATED `apply_location` program
    (whichever settings / data branch is taken at each `ite`, whatever the stores write) started with the caller's six
    buffers leaves these buffers as they are and returns a buffer allocated during the call. -/
theorem gen_inputs_preserved {α : Type} (P : Prog) (hP : P ∈ tables) (s t : St α) (henv : s.env = entryCEnv)
    (hheap : Model.Purity.nCaller ≤ s.heap.length) (hx : Exec P (entryProg 0) s t) :
    (∀ k, k < Model.Purity.nCaller → t.heap[k]? = s.heap[k]?) ∧ ∀ b, t.env resultVar = some b → Model.Purity.nCaller ≤ b := by
  simp only [tables, List.mem_cons, List.not_mem_nil, or_false] at hP
  rcases hP with rfl | rfl | rfl | rfl | rfl | rfl | rfl | rfl
  · exact Lemmas.PurityProg.accepted_sound gen_LinearScaling_accepted henv hheap hx
  · exact Lemmas.PurityProg.accepted_sound gen_QuantileMapping_accepted henv hheap hx
  · exact Lemmas.PurityProg.accepted_sound gen_ECDFM_accepted henv hheap hx
  · exact Lemmas.PurityProg.accepted_sound gen_CDFt_accepted henv hheap hx
  · exact Lemmas.PurityProg.accepted_sound gen_QuantileDeltaMapping_accepted henv hheap hx
  · exact Lemmas.PurityProg.accepted_sound gen_ScaledDistributionMapping_accepted henv hheap hx
  · exact Lemmas.PurityProg.accepted_sound gen_DeltaChange_accepted henv hheap hx
  · exact Lemmas.PurityProg.accepted_sound gen_ISIMIP_accepted henv hheap hx

end Lemmas.GenPurity
