/-
  C02 helper lemmas, part 8: a *position-dependent* additive signal through the month loop of ISIMIP.
  `Lemmas/Lift.lean` lifts element-wise value maps; a linear within-period trend `b·(year − mean year)` is a different
  amount at every step.  Here the result buffers of two runs are related by `out'[i] = out[i] + G[i]`
  (`none` = never written stays `none`).
-/
import IbicusModel.Lemmas.C02Lift
import Mathlib.Tactic.Ring

namespace Lemmas.C02
open Model.Skeleton Model.Windows Lemmas.Lift

/-- add the signal value of its own position to a buffer entry -/
def adj (o : Option Rat) (g : Rat) : Option Rat := o.map (fun v => v + g)

/-- the buffer with the signal added position by position -/
def addSignal (G : List Rat) (buf : List (Option Rat)) : List (Option Rat) := List.zipWith adj buf G

/-- a write list with the signal added at the written positions -/
def posW (G : List Rat) (ws : List (Nat × Rat)) : List (Nat × Rat) := ws.map (fun p => (p.1, p.2 + G.getD p.1 0))

theorem zipWith_adj_set : ∀ (out : List (Option Rat)) (G : List Rat) (i : Nat) (v : Rat),
    (List.zipWith adj out G).set i (some (v + G.getD i 0)) = List.zipWith adj (out.set i (some v)) G
  | [], _, _, _ => by simp
  | _ :: _, [], _, _ => by simp
  | o :: out, g :: G, 0, v => by simp [adj]
  | o :: out, g :: G, i + 1, v => by
      simp only [List.zipWith_cons_cons, List.set_cons_succ, List.getD_cons_succ]
      rw [zipWith_adj_set out G i v]

theorem applyWrites_pos (G : List Rat) (out : List (Option Rat)) (ws : List (Nat × Rat)) :
    applyWrites (addSignal G out) (posW G ws) = addSignal G (applyWrites out ws) := by
  unfold applyWrites posW addSignal
  induction ws generalizing out with
  | nil => rfl
  | cons p t ih =>
    simp only [List.map_cons, List.foldl_cons]
    rw [zipWith_adj_set, ih]

theorem addSignal_replicate_none (G : List Rat) (n : Nat) (h : G.length = n) :
    addSignal G (List.replicate n none) = List.replicate n none := by
  unfold addSignal
  apply List.ext_getElem
  · simp [h]
  · intro i h1 h2
    simp [adj]

/-- the generic loop with a position-dependent signal added to every written value -/
theorem runLoop_pos {C} (writes writes' : C → Except String (List (Nat × Rat))) (G : List Rat)
    (cs : List C) (n : Nat) (hG : G.length = n)
    (h : ∀ c ∈ cs, writes' c = (writes c).map (posW G)) :
    runLoop writes' cs n = (runLoop writes cs n).map (addSignal G) := by
  unfold runLoop
  rw [mapE_map writes writes' (posW G) cs h]
  cases mapE writes cs with
  | error e => rfl
  | ok wss =>
    simp only [Except.map, bind, Except.bind, pure, Except.pure]
    congr 1
    have : (List.map (posW G) wss).flatten = posW G wss.flatten := by
      unfold posW; rw [List.map_flatten]
    rw [this, ← applyWrites_pos, addSignal_replicate_none G n hG]

/-- fancy indexing commutes with any map (element types may differ) -/
theorem take_map' {α β} (φ : α → β) (x : List α) (idx : List Nat) : take (x.map φ) idx = (take x idx).map φ := by
  unfold take
  rw [List.map_filterMap]
  congr 1
  funext i
  simp [List.getElem?_map]

/-- fancy indexing of an element-wise sum (valid indices, equal lengths) -/
theorem take_zipWith_add (x g : List Rat) (hl : x.length = g.length) : ∀ (idx : List Nat), (∀ j ∈ idx, j < x.length) →
    take (List.zipWith (· + ·) x g) idx = List.zipWith (· + ·) (take x idx) (take g idx)
  | [], _ => rfl
  | j :: t, hv => by
      have hj := hv j List.mem_cons_self
      have ht := fun k hk => hv k (List.mem_cons_of_mem _ hk)
      have hz : j < (List.zipWith (· + ·) x g).length := by simp [← hl]; exact hj
      rw [Lemmas.Pointwise.take_cons_valid _ j t hz, Lemmas.Pointwise.take_cons_valid x j t hj,
        Lemmas.Pointwise.take_cons_valid g j t (hl ▸ hj), List.zipWith_cons_cons, take_zipWith_add x g hl t ht]
      simp

/-- the writes of one month: pairs (index, value + signal at that index) -/
theorem pairsFor_pos (G : List Rat) (idx : List Nat) (res : List Rat) (hr : res.length = idx.length)
    (hv : ∀ j ∈ idx, j < G.length) :
    pairsFor idx (List.zipWith (· + ·) res (take G idx)) = (pairsFor idx res).map (posW G) := by
  have hlt : (take G idx).length = idx.length := Lemmas.Pointwise.take_length G idx hv
  unfold pairsFor
  rw [if_pos (by simp [hr, hlt]), if_pos hr]
  simp only [Except.map]
  congr 1
  unfold posW
  clear hlt
  induction idx generalizing res with
  | nil => simp
  | cons j t ih =>
    cases res with
    | nil => simp at hr
    | cons a r =>
      have hj := hv j List.mem_cons_self
      rw [Lemmas.Pointwise.take_cons_valid G j t hj]
      simp only [List.zipWith_cons_cons, List.zip_cons_cons, List.map_cons]
      rw [ih r (by simpa using hr) (fun k hk => hv k (List.mem_cons_of_mem _ hk))]
      congr 2
      rw [List.getD_eq_getElem?_getD, List.getElem?_eq_getElem hj]
      rfl

/-- **Lift (ISIMIP month mode), position-dependent additive signal `G`**: if in every month the window function answers
    the sample `x + G[idx]` with its former result plus `G[idx]` (and returns one value per future value of the
    month), the whole result buffer gains `G` position by position. -/
theorem applyLocationMonths_pos (f : WinFn Rat) (mO mH mF : List Int) (obs hist fut G : List Rat)
    (hG : G.length = fut.length) (hmF : mF.length = fut.length)
    (hf : ∀ m ∈ Py.arange1 1 13,
      f (take obs (monthIdx mO m)) (take hist (monthIdx mH m)) (List.zipWith (· + ·) (take fut (monthIdx mF m)) (take G (monthIdx mF m)))
        (monthIdx mO m) (monthIdx mH m) (monthIdx mF m) =
      (f (take obs (monthIdx mO m)) (take hist (monthIdx mH m)) (take fut (monthIdx mF m))
        (monthIdx mO m) (monthIdx mH m) (monthIdx mF m)).map (fun r => List.zipWith (· + ·) r (take G (monthIdx mF m))))
    (hres : ∀ m ∈ Py.arange1 1 13, ∀ res,
      f (take obs (monthIdx mO m)) (take hist (monthIdx mH m)) (take fut (monthIdx mF m))
        (monthIdx mO m) (monthIdx mH m) (monthIdx mF m) = .ok res → res.length = (monthIdx mF m).length) :
    applyLocationMonths f mO mH mF obs hist (List.zipWith (· + ·) fut G) =
      (applyLocationMonths f mO mH mF obs hist fut).map (addSignal G) := by
  unfold applyLocationMonths
  have hlz : (List.zipWith (· + ·) fut G).length = fut.length := by simp [hG]
  rw [hlz]
  apply runLoop_pos _ _ G _ _ hG
  intro m hm
  have hvalid : ∀ j ∈ monthIdx mF m, j < fut.length := fun j hj => hmF ▸ monthIdx_valid mF m j hj
  have h1 := hf m hm
  have h2 := hres m hm
  unfold monthIdx at h1 h2 hvalid
  unfold monthWrites
  simp only [bind, Except.bind]
  rw [take_zipWith_add fut G hG.symm _ hvalid, h1]
  cases hr : f (take obs (Py.whereTrue (mO.map (fun x => decide (x = m))))) (take hist (Py.whereTrue (mH.map (fun x => decide (x = m)))))
      (take fut (Py.whereTrue (mF.map (fun x => decide (x = m))))) (Py.whereTrue (mO.map (fun x => decide (x = m))))
      (Py.whereTrue (mH.map (fun x => decide (x = m)))) (Py.whereTrue (mF.map (fun x => decide (x = m)))) with
  | error e => rfl
  | ok res =>
    simp only [Except.map]
    exact pairsFor_pos G _ res (h2 res hr) (fun j hj => hG ▸ hvalid j hj)

end Lemmas.C02
