/-
  Helper lemmas for C14: the check sequence split into its seven phases, and the effect of each phase
  in closed form.
-/
import IbicusModel.Model.Contract
import Mathlib.Tactic.Linarith

namespace Lemmas.Contract
open Model.Contract

def typeSteps : List Step := [⟨.isNdarray, .obs, .raiseTypeError⟩, ⟨.isNdarray, .cmHist, .raiseTypeError⟩, ⟨.isNdarray, .cmFuture, .raiseTypeError⟩]
def dtypeSteps : List Step := [⟨.floatDtype, .obs, .warnAndConvert⟩, ⟨.floatDtype, .cmHist, .warnAndConvert⟩, ⟨.floatDtype, .cmFuture, .warnAndConvert⟩]
def ndimSteps : List Step := [⟨.ndim3, .obs, .raiseValueError⟩, ⟨.ndim3, .cmHist, .raiseValueError⟩, ⟨.ndim3, .cmFuture, .raiseValueError⟩]
def shapeSteps : List Step := [⟨.sameSpatialShape, .all, .raiseValueError⟩]
def infSteps : List Step := [⟨.infNan, .obs, .warn⟩, ⟨.infNan, .cmHist, .warn⟩, ⟨.infNan, .cmFuture, .warn⟩]
def rangeSteps : List Step := [⟨.outOfRange, .obs, .warn⟩, ⟨.outOfRange, .cmHist, .warn⟩, ⟨.outOfRange, .cmFuture, .warn⟩]
def maskSteps : List Step := [⟨.masked, .obs, .warnAndConvert⟩, ⟨.masked, .cmHist, .warnAndConvert⟩, ⟨.masked, .cmFuture, .warnAndConvert⟩]

theorem steps_phases :
    steps = typeSteps ++ (dtypeSteps ++ (ndimSteps ++ (shapeSteps ++ (infSteps ++ (rangeSteps ++ maskSteps))))) := by decide

theorem runSteps_append (a b : List Step) (st : St) :
    runSteps (a ++ b) st = (match runSteps a st with | .error e => .error e | .ok st' => runSteps b st') := by
  induction a generalizing st with
  | nil => rfl
  | cons s t ih =>
    simp only [List.cons_append, runSteps]
    cases runStep s st with
    | error e => rfl
    | ok st' => exact ih st'

/-! #### phase effects -/

theorem type_phase (w : List Warn) (o h f : InputDesc)
    (ho : o.isNdarray = true) (hh : h.isNdarray = true) (hf : f.isNdarray = true) :
    runSteps typeSteps ⟨w, (o, h, f)⟩ = .ok ⟨w, (o, h, f)⟩ := by
  simp [typeSteps, runSteps, runStep, triggers, getArg, ho, hh, hf]

theorem dtype_phase (w : List Warn) (o h f : InputDesc)
    (ho : o.dtype ≠ .unconvertible) (hh : h.dtype ≠ .unconvertible) (hf : f.dtype ≠ .unconvertible) :
    runSteps dtypeSteps ⟨w, (o, h, f)⟩ = .ok ⟨w ++ dtypeWarns (o, h, f), (toFloat o, toFloat h, toFloat f)⟩ := by
  obtain ⟨o1, o2, o3, od, o5, o6, o7⟩ := o
  obtain ⟨h1, h2, h3, hd, h5, h6, h7⟩ := h
  obtain ⟨f1, f2, f3, fd, f5, f6, f7⟩ := f
  cases od <;> cases hd <;> cases fd <;>
    simp_all [dtypeSteps, runSteps, runStep, triggers, getArg, setArg, convert, warnOf, dtypeWarns, phaseWarns, warnIf, toFloat, DType.isFloat]

theorem ndim_phase (w : List Warn) (o h f : InputDesc)
    (ho : o.ndim = 3) (hh : h.ndim = 3) (hf : f.ndim = 3) :
    runSteps ndimSteps ⟨w, (o, h, f)⟩ = .ok ⟨w, (o, h, f)⟩ := by
  simp [ndimSteps, runSteps, runStep, triggers, getArg, ho, hh, hf]

theorem shape_phase (w : List Warn) (o h f : InputDesc)
    (h1 : o.spatial = h.spatial) (h2 : o.spatial = f.spatial) :
    runSteps shapeSteps ⟨w, (o, h, f)⟩ = .ok ⟨w, (o, h, f)⟩ := by
  simp [shapeSteps, runSteps, runStep, triggers, ← h1, ← h2]

theorem inf_phase (w : List Warn) (o h f : InputDesc) :
    runSteps infSteps ⟨w, (o, h, f)⟩ = .ok ⟨w ++ infNanWarns (o, h, f), (o, h, f)⟩ := by
  cases ho : o.hasInfNan <;> cases hh : h.hasInfNan <;> cases hf : f.hasInfNan <;>
    simp [infSteps, runSteps, runStep, triggers, getArg, warnOf, infNanWarns, phaseWarns, warnIf, ho, hh, hf]

theorem range_phase (w : List Warn) (o h f : InputDesc) :
    runSteps rangeSteps ⟨w, (o, h, f)⟩ = .ok ⟨w ++ rangeWarns (o, h, f), (o, h, f)⟩ := by
  cases ho : o.outOfRange <;> cases hh : h.outOfRange <;> cases hf : f.outOfRange <;>
    simp [rangeSteps, runSteps, runStep, triggers, getArg, warnOf, rangeWarns, phaseWarns, warnIf, ho, hh, hf]

theorem mask_phase (w : List Warn) (o h f : InputDesc) :
    runSteps maskSteps ⟨w, (o, h, f)⟩ = .ok ⟨w ++ maskedWarns (o, h, f), (unmask o, unmask h, unmask f)⟩ := by
  cases ho : o.isMasked <;> cases hh : h.isMasked <;> cases hf : f.isMasked <;>
    simp [maskSteps, runSteps, runStep, triggers, getArg, setArg, convert, warnOf, maskedWarns, phaseWarns, warnIf, unmask, ho, hh, hf]

/-! #### what the conversions leave alone -/

@[simp] theorem toFloat_ndim (d : InputDesc) : (toFloat d).ndim = d.ndim := by unfold toFloat; split <;> rfl
@[simp] theorem toFloat_spatial (d : InputDesc) : (toFloat d).spatial = d.spatial := by unfold toFloat; split <;> rfl
@[simp] theorem toFloat_hasInfNan (d : InputDesc) : (toFloat d).hasInfNan = d.hasInfNan := by unfold toFloat; split <;> rfl
@[simp] theorem toFloat_outOfRange (d : InputDesc) : (toFloat d).outOfRange = d.outOfRange := by unfold toFloat; split <;> rfl
@[simp] theorem toFloat_isMasked (d : InputDesc) : (toFloat d).isMasked = d.isMasked := by unfold toFloat; split <;> rfl
@[simp] theorem toFloat_maskAny (d : InputDesc) : (toFloat d).maskAny = d.maskAny := by unfold toFloat; split <;> rfl
@[simp] theorem toFloat_dtype (d : InputDesc) : (toFloat d).dtype = .float := by
  unfold toFloat; split <;> simp_all
@[simp] theorem unmask_dtype (d : InputDesc) : (unmask d).dtype = d.dtype := by unfold unmask; split <;> rfl
@[simp] theorem unmask_isMasked (d : InputDesc) : (unmask d).isMasked = false := by
  unfold unmask; split <;> simp_all
@[simp] theorem unmask_shape (d : InputDesc) : (unmask d).shape = d.shape := by unfold unmask; split <;> rfl
@[simp] theorem toFloat_shape (d : InputDesc) : (toFloat d).shape = d.shape := by unfold toFloat; split <;> rfl

theorem infNanWarns_toFloat (o h f : InputDesc) : infNanWarns (toFloat o, toFloat h, toFloat f) = infNanWarns (o, h, f) := by
  simp [infNanWarns, phaseWarns, warnIf, getArg]

theorem rangeWarns_toFloat (o h f : InputDesc) : rangeWarns (toFloat o, toFloat h, toFloat f) = rangeWarns (o, h, f) := by
  simp [rangeWarns, phaseWarns, warnIf, getArg]

theorem maskedWarns_toFloat (o h f : InputDesc) : maskedWarns (toFloat o, toFloat h, toFloat f) = maskedWarns (o, h, f) := by
  simp [maskedWarns, phaseWarns, warnIf, getArg]

/-- **The accepted path in closed form.** -/
theorem runSteps_wellFormed (o h f : InputDesc)
    (n1 : o.isNdarray = true) (n2 : h.isNdarray = true) (n3 : f.isNdarray = true)
    (d1 : o.dtype ≠ .unconvertible) (d2 : h.dtype ≠ .unconvertible) (d3 : f.dtype ≠ .unconvertible)
    (s1 : o.ndim = 3) (s2 : h.ndim = 3) (s3 : f.ndim = 3)
    (e1 : o.spatial = h.spatial) (e2 : o.spatial = f.spatial) :
    runSteps steps ⟨[], (o, h, f)⟩ = .ok ⟨okWarns (o, h, f), (convDesc o, convDesc h, convDesc f)⟩ := by
  rw [steps_phases, runSteps_append, type_phase _ _ _ _ n1 n2 n3]
  simp only []
  rw [runSteps_append, dtype_phase _ _ _ _ d1 d2 d3]
  simp only []
  rw [runSteps_append, ndim_phase _ _ _ _ (by simpa using s1) (by simpa using s2) (by simpa using s3)]
  simp only []
  rw [runSteps_append, shape_phase _ _ _ _ (by simpa using e1) (by simpa using e2)]
  simp only []
  rw [runSteps_append, inf_phase]
  simp only []
  rw [runSteps_append, range_phase]
  simp only []
  rw [mask_phase, infNanWarns_toFloat, rangeWarns_toFloat, maskedWarns_toFloat]
  simp [okWarns, convDesc, List.append_assoc]

theorem mem_bif_singleton {α} (a w : α) (c : Bool) : a ∈ (bif c then [w] else []) ↔ (c = true ∧ a = w) := by
  cases c <;> simp

theorem mem_bif_singleton' {α} (a w : α) (c : Bool) : a ∈ (bif c then [] else [w]) ↔ (c = false ∧ a = w) := by
  cases c <;> simp

/-- membership in the warnings of one phase -/
theorem mem_phaseWarns (k : Kind) (p flag : InputDesc → Bool) (x : Inputs) (w : Warn) :
    w ∈ phaseWarns k p flag x ↔ ∃ a ∈ args3, p (getArg x a) = true ∧ w = { kind := k, arg := a, flag := flag (getArg x a) } := by
  simp [phaseWarns, warnIf, mem_bif_singleton, args3]

/-- no argument satisfies `p` ⇒ `p` is false on each of the three -/
theorem firstBad_none (p : InputDesc → Bool) (o h f : InputDesc) (hn : firstBad p (o, h, f) = none) :
    p o = false ∧ p h = false ∧ p f = false := by
  cases ho : p o <;> cases hh : p h <;> cases hf : p f <;> simp [firstBad, args3, getArg, ho, hh, hf] at hn ⊢

theorem firstBad_isSome_or_none (p : InputDesc → Bool) (x : Inputs) :
    (∃ a, firstBad p x = some a) ∨ firstBad p x = none := by
  cases h : firstBad p x with
  | none => exact Or.inr rfl
  | some a => exact Or.inl ⟨a, rfl⟩

end Lemmas.Contract
