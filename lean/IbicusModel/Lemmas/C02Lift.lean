/-
  C02 helper lemmas, part 4: lifting with a *guarded* per-window law.  `Lemmas/Lift.lean` lifts laws that hold
  for every window sample; DeltaChange and detrended QuantileMapping take the mean of the future window sample, so
  their shift law needs that sample to be non-empty.  Here the per-window law is only required at the window samples
  the loop actually forms, and the non-emptiness of every future window sample is derived from the dates
  (`S ≤ L`, days of year in `1..366`): the window of a centre contains the steps the centre adjusts, and `use`
  only yields centres that adjust a step.
-/
import IbicusModel.Lemmas.Lift
import IbicusModel.Props.C07

namespace Lemmas.C02
open Model.Skeleton Model.Windows Lemmas.Windows Lemmas.Skeleton Lemmas.Pointwise Lemmas.Lift

theorem windowWrites_equivariant_at {α} (f : WinFn α) (φo φh φx ψ : α → α) (L S : Int) (dO dH dF : List Int)
    (obs hist fut : List α) (c : Int)
    (hf : f ((take obs (idxWindow L dO c)).map φo) ((take hist (idxWindow L dH c)).map φh)
        ((take fut (idxWindow L dF c)).map φx) (idxWindow L dO c) (idxWindow L dH c) (idxWindow L dF c) =
      (f (take obs (idxWindow L dO c)) (take hist (idxWindow L dH c)) (take fut (idxWindow L dF c))
        (idxWindow L dO c) (idxWindow L dH c) (idxWindow L dF c)).map (List.map ψ)) :
    windowWrites f L S dO dH dF (obs.map φo) (hist.map φh) (fut.map φx) c =
      (windowWrites f L S dO dH dF obs hist fut c).map (mapW ψ) := by
  unfold windowWrites
  simp only [take_map, hf, bind, Except.bind]
  cases f (take obs (idxWindow L dO c)) (take hist (idxWindow L dH c)) (take fut (idxWindow L dF c))
      (idxWindow L dO c) (idxWindow L dH c) (idxWindow L dF c) with
  | error e => rfl
  | ok res =>
    simp only [Except.map, maskSelect_map]
    cases maskSelect res (List.map (fun j => (idxAdjust S dF c).contains j) (idxWindow L dF c)) with
    | error e => rfl
    | ok vals => simp only [Except.map, pairsFor_map]

theorem windowWritesDC_equivariant_at {α} (f : WinFn α) (φo φh φx ψ : α → α) (L S : Int) (dO dH dF : List Int)
    (obs hist fut : List α) (c : Int)
    (hf : f ((take obs (idxWindow L dO c)).map φo) ((take hist (idxWindow L dH c)).map φh)
        ((take fut (idxWindow L dF c)).map φx) (idxWindow L dO c) (idxWindow L dH c) (idxWindow L dF c) =
      (f (take obs (idxWindow L dO c)) (take hist (idxWindow L dH c)) (take fut (idxWindow L dF c))
        (idxWindow L dO c) (idxWindow L dH c) (idxWindow L dF c)).map (List.map ψ)) :
    windowWritesDC f L S dO dH dF (obs.map φo) (hist.map φh) (fut.map φx) c =
      (windowWritesDC f L S dO dH dF obs hist fut c).map (mapW ψ) := by
  unfold windowWritesDC
  simp only [take_map, hf, bind, Except.bind]
  cases f (take obs (idxWindow L dO c)) (take hist (idxWindow L dH c)) (take fut (idxWindow L dF c))
      (idxWindow L dO c) (idxWindow L dH c) (idxWindow L dF c) with
  | error e => rfl
  | ok res =>
    simp only [Except.map, maskSelect_map]
    cases maskSelect res (List.map (fun j => (idxAdjust S dO c).contains j) (idxWindow L dO c)) with
    | error e => rfl
    | ok vals => simp only [Except.map, pairsFor_map]

/-- **Lift (running-window loop), guarded**: the per-window law is required only for non-empty future samples; every
    future window sample the loop forms is assumed non-empty (`hne`, discharged from the dates by
    `futureWindow_ne_nil`). -/
theorem applyLocationRW_equivariant_ne {α} (f : WinFn α) (φo φh φx ψ : α → α) (L S : Int) (dO dH dF : List Int)
    (obs hist fut : List α)
    (hf : ∀ o h x io ih ix, x ≠ [] →
      f (o.map φo) (h.map φh) (x.map φx) io ih ix = (f o h x io ih ix).map (List.map ψ))
    (hne : ∀ c ∈ useCenters S dF, take fut (idxWindow L dF c) ≠ []) :
    applyLocationRW f L S dO dH dF (obs.map φo) (hist.map φh) (fut.map φx) =
      (applyLocationRW f L S dO dH dF obs hist fut).map (List.map (Option.map ψ)) := by
  unfold applyLocationRW
  rw [List.length_map]
  exact runLoop_map _ _ ψ _ _ (fun c hc =>
    windowWrites_equivariant_at f φo φh φx ψ L S dO dH dF obs hist fut c (hf _ _ _ _ _ _ (hne c hc)))

/-- **Lift (DeltaChange loop), guarded**: the loop runs over the days of `obs`; the future sample of every centre
    must be non-empty (`hne`: the future period has a day in every window that `obs` needs). -/
theorem applyLocationDC_equivariant_ne {α} (f : WinFn α) (φo φh φx ψ : α → α) (L S : Int) (dO dH dF : List Int)
    (obs hist fut : List α)
    (hf : ∀ o h x io ih ix, x ≠ [] →
      f (o.map φo) (h.map φh) (x.map φx) io ih ix = (f o h x io ih ix).map (List.map ψ))
    (hne : ∀ c ∈ useCenters S dO, take fut (idxWindow L dF c) ≠ []) :
    applyLocationDC f L S dO dH dF (obs.map φo) (hist.map φh) (fut.map φx) =
      (applyLocationDC f L S dO dH dF obs hist fut).map (List.map (Option.map ψ)) := by
  unfold applyLocationDC
  rw [List.length_map]
  exact runLoop_map _ _ ψ _ _ (fun c hc =>
    windowWritesDC_equivariant_at f φo φh φx ψ L S dO dH dF obs hist fut c (hf _ _ _ _ _ _ (hne c hc)))

/-- **Lift (running-window loop), per-centre form**: the per-window law is required exactly at the window samples
    the loop forms (ISIMIP: the law needs non-empty samples and the years of the window) -/
theorem applyLocationRW_equivariant_at {α} (f : WinFn α) (φo φh φx ψ : α → α) (L S : Int) (dO dH dF : List Int)
    (obs hist fut : List α)
    (hf : ∀ c ∈ useCenters S dF,
      f ((take obs (idxWindow L dO c)).map φo) ((take hist (idxWindow L dH c)).map φh)
        ((take fut (idxWindow L dF c)).map φx) (idxWindow L dO c) (idxWindow L dH c) (idxWindow L dF c) =
      (f (take obs (idxWindow L dO c)) (take hist (idxWindow L dH c)) (take fut (idxWindow L dF c))
        (idxWindow L dO c) (idxWindow L dH c) (idxWindow L dF c)).map (List.map ψ)) :
    applyLocationRW f L S dO dH dF (obs.map φo) (hist.map φh) (fut.map φx) =
      (applyLocationRW f L S dO dH dF obs hist fut).map (List.map (Option.map ψ)) := by
  unfold applyLocationRW
  rw [List.length_map]
  exact runLoop_map _ _ ψ _ _ (fun c hc =>
    windowWrites_equivariant_at f φo φh φx ψ L S dO dH dF obs hist fut c (hf c hc))

/-- the index lists of ISIMIP's month mode -/
def monthIdx (ms : List Int) (m : Int) : List Nat := Py.whereTrue (ms.map (fun x => decide (x = m)))

/-- **Lift (ISIMIP month mode), per-month form** -/
theorem applyLocationMonths_equivariant_at {α} (f : WinFn α) (φo φh φx ψ : α → α) (mO mH mF : List Int)
    (obs hist fut : List α)
    (hf : ∀ m ∈ Py.arange1 1 13,
      f ((take obs (monthIdx mO m)).map φo) ((take hist (monthIdx mH m)).map φh) ((take fut (monthIdx mF m)).map φx)
        (monthIdx mO m) (monthIdx mH m) (monthIdx mF m) =
      (f (take obs (monthIdx mO m)) (take hist (monthIdx mH m)) (take fut (monthIdx mF m))
        (monthIdx mO m) (monthIdx mH m) (monthIdx mF m)).map (List.map ψ)) :
    applyLocationMonths f mO mH mF (obs.map φo) (hist.map φh) (fut.map φx) =
      (applyLocationMonths f mO mH mF obs hist fut).map (List.map (Option.map ψ)) := by
  unfold applyLocationMonths
  rw [List.length_map]
  apply runLoop_map _ _ ψ
  intro m hm
  have h := hf m hm
  unfold monthIdx at h
  unfold monthWrites
  simp only [take_map, h, bind, Except.bind]
  cases f (take obs (Py.whereTrue (mO.map (fun x => decide (x = m))))) (take hist (Py.whereTrue (mH.map (fun x => decide (x = m)))))
      (take fut (Py.whereTrue (mF.map (fun x => decide (x = m))))) (Py.whereTrue (mO.map (fun x => decide (x = m))))
      (Py.whereTrue (mH.map (fun x => decide (x = m)))) (Py.whereTrue (mF.map (fun x => decide (x = m)))) with
  | error e => rfl
  | ok res => simp only [Except.map, pairsFor_map]

/-- every future window sample of the running-window loop is non-empty: a centre yielded by `use` adjusts a step,
    and the steps a centre adjusts lie in its window (`S ≤ L`, days of year in `1..366`) -/
theorem futureWindow_ne_nil {α} (L S : Int) (dF : List Int) (fut : List α)
    (hS : 0 < S) (hSL : S ≤ L) (hlen : dF.length = fut.length) (hr : ∀ d ∈ dF, 1 ≤ d ∧ d ≤ 366) :
    ∀ c ∈ useCenters S dF, take fut (idxWindow L dF c) ≠ [] := by
  intro c hc
  have hadj : idxAdjust S dF c ≠ [] := by
    unfold useCenters at hc
    have := (List.mem_filter.mp hc).2
    intro h
    rw [h] at this
    simp at this
  obtain ⟨i, hi⟩ := List.exists_mem_of_ne_nil _ hadj
  have hw : i ∈ idxWindow L dF c := Props.C07.doy_adjust_subset_window L S dF c i hSL hS hr hi
  have hv : ∀ j ∈ idxWindow L dF c, j < fut.length := fun j hj => hlen ▸ idxWindow_valid L dF c j hj
  intro hnil
  have hl := take_length fut _ hv
  rw [hnil] at hl
  have : idxWindow L dF c = [] := List.length_eq_zero_iff.mp hl.symm
  rw [this] at hw
  simp at hw

/-! ### index-list facts used by the lifted theorems -/

theorem filterMap_id_map (g : Rat → Rat) (x : List (Option Rat)) :
    (x.map (Option.map g)).filterMap id = (x.filterMap id).map g := by
  rw [List.filterMap_map, List.map_filterMap]
  rfl

theorem take_map_some (x : List Rat) (idx : List Nat) : (take (x.map some) idx).filterMap id = take x idx := by
  unfold take
  rw [List.filterMap_filterMap]
  congr 1
  funext i
  simp [List.getElem?_map]
  cases x[i]? <;> rfl

theorem take_length_eq {α β} (x : List α) (y : List β) (idx : List Nat) (h : x.length = y.length)
    (hv : ∀ j ∈ idx, j < x.length) : (take x idx).length = (take y idx).length := by
  rw [Lemmas.Pointwise.take_length x idx hv, Lemmas.Pointwise.take_length y idx (fun j hj => h ▸ hv j hj)]

theorem monthIdx_valid (ms : List Int) (m : Int) : ∀ j ∈ monthIdx ms m, j < ms.length := by
  intro j hj
  unfold monthIdx Py.whereTrue at hj
  have := (List.mem_filter.mp hj).1
  simpa using this


end Lemmas.C02
