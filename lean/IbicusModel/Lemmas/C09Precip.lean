/-
  C09 helpers, part 7: the three precipitation models inside parametric QuantileMapping (`Model/PrecipQM.lean`,
  tied to the real `QuantileMapping.apply_on_window` by the driver `DrvPrecipQM`, `harness/c09.py: precip_qm_tie`).
  The fitted amounts distributions are parameters constrained by monotonicity / sign laws only (`PrecipLaws`),
  proved for the executable rational family; the draws are explicit and arbitrary within numpy's interval.
-/
import IbicusModel.Lemmas.C09Deb
import IbicusModel.Model.PrecipQM

namespace Lemmas.C09
open Model.Stats Model.Precip Model.PrecipQM Model.Debiasers Lemmas.Stats

/-- what monotonicity needs from the amounts distributions fitted to `cm_hist` (`Ah`, its cdf) and to `obs`
    (`Ao`, its ppf): non-decreasing, non-negative -/
structure PrecipLaws (Ah Ao : Amounts) : Prop where
  cdf_mono : ∀ x y : Rat, 0 ≤ x → x ≤ y → Ah.cdfA x ≤ Ah.cdfA y
  cdf_nonneg : ∀ x : Rat, 0 ≤ Ah.cdfA x
  ppf_mono : ∀ p q : Rat, 0 < p → p ≤ q → q < 1 → Ao.ppfA p ≤ Ao.ppfA q
  ppf_nonneg : ∀ p : Rat, 0 < p → p < 1 → 0 ≤ Ao.ppfA p

/-- the executable rational family (`F(z) = z/(1+z)`, `z = x/scale`) satisfies the laws for positive scales -/
theorem precipLaws_ratFam (sh so : Rat) (hsh : 0 < sh) (hso : 0 < so) : PrecipLaws (ratFam 0 sh) (ratFam 0 so) := by
  have cdfv : ∀ x : Rat, 0 < x → (ratFam 0 sh).cdfA x = x / (sh + x) := by
    intro x hx
    simp only [ratFam, ratCdf, if_neg (not_le.mpr hx), sub_zero]
    have : sh + x ≠ 0 := by linarith
    field_simp
  have cdf0 : ∀ x : Rat, x ≤ 0 → (ratFam 0 sh).cdfA x = 0 := by
    intro x hx; simp only [ratFam, ratCdf, if_pos hx]
  refine ⟨?_, ?_, ?_, ?_⟩
  · intro x y hx hxy
    rcases eq_or_lt_of_le hx with h0 | hpos
    · rw [cdf0 x (by linarith)]
      rcases le_or_gt y 0 with hy | hy
      · rw [cdf0 y hy]
      · rw [cdfv y hy]; exact div_nonneg (le_of_lt hy) (by linarith)
    · have hy : 0 < y := lt_of_lt_of_le hpos hxy
      rw [cdfv x hpos, cdfv y hy, div_le_div_iff₀ (by linarith) (by linarith)]
      nlinarith
  · intro x
    rcases le_or_gt x 0 with hx | hx
    · rw [cdf0 x hx]
    · rw [cdfv x hx]; exact div_nonneg (le_of_lt hx) (by linarith)
  · intro p q hp hpq hq
    simp only [ratFam, ratPpf, zero_add]
    have h1 : (0 : Rat) < 1 - p := by linarith
    have h2 : (0 : Rat) < 1 - q := by linarith
    have : p / (1 - p) ≤ q / (1 - q) := by
      rw [div_le_div_iff₀ h1 h2]; nlinarith
    exact mul_le_mul_of_nonneg_left this (le_of_lt hso)
  · intro p hp hp1
    simp only [ratFam, ratPpf, zero_add]
    exact mul_nonneg (le_of_lt hso) (div_nonneg (le_of_lt hp) (by linarith))

/-! ### hurdle model -/

theorem hurdlePpf_mono (Ao : Amounts) (p0o t : Rat) (ht0 : 0 < t) (hp1 : p0o < 1)
    (hQ : ∀ p q : Rat, 0 < p → p ≤ q → q < 1 → Ao.ppfA p ≤ Ao.ppfA q) (hQ0 : ∀ p : Rat, 0 < p → p < 1 → 0 ≤ Ao.ppfA p)
    {a b : Rat} (hab : a ≤ b) (hb : b ≤ 1 - t) : hurdlePpf Ao p0o a ≤ hurdlePpf Ao p0o b := by
  have hd : 0 < 1 - p0o := by linarith
  have arg : ∀ q, q > p0o → q ≤ 1 - t → 0 < (q - p0o) / (1 - p0o) ∧ (q - p0o) / (1 - p0o) < 1 := by
    intro q h1 h2
    exact ⟨div_pos (by linarith) hd, by rw [div_lt_one hd]; linarith⟩
  unfold hurdlePpf
  by_cases ha : a > p0o
  · have hb' : b > p0o := lt_of_lt_of_le ha hab
    rw [if_pos ha, if_pos hb']
    exact hQ _ _ (arg a ha (le_trans hab hb)).1 (div_le_div_of_nonneg_right (by linarith) (le_of_lt hd)) (arg b hb' hb).2
  · rw [if_neg ha]
    by_cases hb' : b > p0o
    · rw [if_pos hb']; exact hQ0 _ (arg b hb' hb).1 (arg b hb' hb).2
    · rw [if_neg hb']

/-- **hurdle model, one pair of values, every draw**: `0 ≤ x_i < x_j ⇒ out_i ≤ out_j`; the draw of a dry value is
    `≤ p0` (`np.random.uniform(0, p0)`), without randomisation its cdf value is `p0` itself -/
theorem qmHurdle1_order (Ah Ao : Amounts) (L : PrecipLaws Ah Ao) (p0h p0o : Rat) (rand : Bool) (t : Rat)
    (ht0 : 0 < t) (ht : t ≤ 1 / 2) (hp1 : p0h ≤ 1) (hpo : p0o < 1)
    (xi xj ui uj : Rat) (hxi : 0 ≤ xi) (hlt : xi < xj) (hui : ui ≤ p0h) :
    qmHurdle1 Ah Ao p0h p0o rand t ui xi ≤ qmHurdle1 Ah Ao p0h p0o rand t uj xj := by
  unfold qmHurdle1
  have hxj : xj ≠ 0 := by intro h; rw [h] at hlt; linarith
  have hc : hurdleCdf Ah p0h rand ui xi ≤ hurdleCdf Ah p0h rand uj xj := by
    unfold hurdleCdf
    rw [if_neg hxj]
    have h1 : 0 ≤ (1 - p0h) * Ah.cdfA xj := mul_nonneg (by linarith) (L.cdf_nonneg xj)
    by_cases h0 : xi = 0
    · rw [if_pos h0]
      cases rand
      · simp only [Bool.false_eq_true, if_false]; linarith
      · simp only [if_true]; linarith
    · rw [if_neg h0]
      have := mul_le_mul_of_nonneg_left (L.cdf_mono xi xj hxi (le_of_lt hlt)) (by linarith : (0 : Rat) ≤ 1 - p0h)
      linarith
  exact hurdlePpf_mono Ao p0o t ht0 hpo L.ppf_mono L.ppf_nonneg (Props.C16.thresholdCdf_mono t hc)
    (Props.C16.thresholdCdf_range t _ ht).2

/-! ### ignore-zeros model -/

/-- **ignore-zeros model**: a dry value is mapped to `ppf_obs(cdf_threshold)`, below every wet value's image -/
theorem qmIz1_order (Ah Ao : Amounts) (L : PrecipLaws Ah Ao) (t : Rat) (ht0 : 0 < t) (ht : t ≤ 1 / 2)
    (xi xj : Rat) (hxi : 0 ≤ xi) (hlt : xi < xj) : qmIz1 Ah Ao t xi ≤ qmIz1 Ah Ao t xj := by
  have hxj : xj ≠ 0 := by intro h; rw [h] at hlt; linarith
  have r := fun v => Props.C16.thresholdCdf_range t v ht
  unfold qmIz1 izCdf
  rw [if_neg hxj]
  by_cases h0 : xi = 0
  · rw [if_pos h0]
    simp only [thresholdE, izPpf]
    exact L.ppf_mono _ _ ht0 (r _).1 (by linarith [(r (Ah.cdfA xj)).2])
  · rw [if_neg h0]
    simp only [thresholdE, izPpf]
    exact L.ppf_mono _ _ (by linarith [(r (Ah.cdfA xi)).1])
      (Props.C16.thresholdCdf_mono t (L.cdf_mono xi xj hxi (le_of_lt hlt))) (by linarith [(r (Ah.cdfA xj)).2])

/-! ### left-censored gamma model -/

theorem censPost_mono (thr : Rat) (h0 : 0 ≤ thr) (censor : Bool) : MonoR (censPost thr censor) := by
  cases censor
  · intro a b h; simpa [censPost] using h
  · intro a b h
    have := censor_monoR thr h0 a b h
    simpa [censPost] using this

/-- **censored model, what holds for every draw**: among values at or above the censoring threshold the map is
    monotone, and a sub-threshold value (draw in `[0, thr)`) never ends up above a value at or above the threshold -/
theorem qmCens1_order (Ah Ao : Amounts) (L : PrecipLaws Ah Ao) (thr : Rat) (censor : Bool) (t : Rat)
    (ht0 : 0 < t) (ht : t ≤ 1 / 2) (h0 : 0 ≤ thr)
    (xi xj ui uj : Rat) (hxi : 0 ≤ xi) (hlt : xi < xj) (hj : thr ≤ xj) (hui0 : 0 ≤ ui) (hui : ui < thr) :
    qmCens1 Ah Ao thr censor t ui xi ≤ qmCens1 Ah Ao thr censor t uj xj := by
  have r := fun v => Props.C16.thresholdCdf_range t v ht
  unfold qmCens1 censPpf censCdf censArg
  rw [if_neg (not_lt.mpr hj)]
  apply censPost_mono thr h0 censor
  by_cases hi : xi < thr
  · rw [if_pos hi]
    exact L.ppf_mono _ _ (by linarith [(r (Ah.cdfA ui)).1])
      (Props.C16.thresholdCdf_mono t (L.cdf_mono ui xj hui0 (by linarith))) (by linarith [(r (Ah.cdfA xj)).2])
  · rw [if_neg hi]
    exact L.ppf_mono _ _ (by linarith [(r (Ah.cdfA xi)).1])
      (Props.C16.thresholdCdf_mono t (L.cdf_mono xi xj hxi (le_of_lt hlt))) (by linarith [(r (Ah.cdfA xj)).2])

/-! ### the window function -/

theorem window_length (d : Detrending) (H F : List Rat) (g : Rat → Rat → Rat) (us : List Rat)
    (hlen : F.length ≤ us.length) : (window d H F g us).length = F.length := by
  cases d <;> simp only [window, List.length_zipWith] <;> omega

theorem window_getD_no (H F : List Rat) (g : Rat → Rat → Rat) (us : List Rat) (hlen : F.length ≤ us.length)
    (i : Nat) (hi : i < F.length) :
    (window .no_detrending H F g us).getD i 0 = g (us.getD i 0) (F.getD i 0) := by
  have hiu : i < us.length := by omega
  rw [getD_eq _ i (by rw [window_length _ _ _ _ _ hlen]; exact hi), getD_eq F i hi, getD_eq us i hiu]
  simp only [window, List.getElem_zipWith]

theorem window_getD_mult (H F : List Rat) (g : Rat → Rat → Rat) (us : List Rat) (hlen : F.length ≤ us.length)
    (i : Nat) (hi : i < F.length) :
    (window .multiplicative H F g us).getD i 0 =
      g (us.getD i 0) (F.getD i 0 / (mean F / mean H)) * (mean F / mean H) := by
  have hiu : i < us.length := by omega
  rw [getD_eq _ i (by rw [window_length _ _ _ _ _ hlen]; exact hi), getD_eq F i hi, getD_eq us i hiu]
  simp only [window, List.getElem_zipWith]

/-- a value-wise randomised inner mapping that is order preserving on non-negative values for every admissible
    draw (`P u`) makes the window function rank preserving — `no_detrending`, and `multiplicative` with `δ > 0` -/
theorem precipWindow_orderPres (d : Detrending) (H F : List Rat) (g : Rat → Rat → Rat) (us : List Rat) (P : Rat → Prop)
    (hd : d ≠ .additive) (hδ : d = .multiplicative → 0 < mean F / mean H)
    (hlen : F.length ≤ us.length) (hF : ∀ v ∈ F, 0 ≤ v) (hP : ∀ u ∈ us, P u)
    (hg : ∀ a b ua ub : Rat, 0 ≤ a → a < b → P ua → g ua a ≤ g ub b) : OrderPres F (window d H F g us) := by
  refine ⟨(window_length d H F g us hlen).symm, ?_⟩
  intro i j hi hj hlt
  have hPi := hP _ (getD_mem us i (by omega))
  have hFi := hF _ (getD_mem F i hi)
  cases d with
  | additive => exact absurd rfl hd
  | no_detrending =>
    rw [window_getD_no H F g us hlen i hi, window_getD_no H F g us hlen j hj]
    exact hg _ _ _ _ hFi hlt hPi
  | multiplicative =>
    have hpos := hδ rfl
    rw [window_getD_mult H F g us hlen i hi, window_getD_mult H F g us hlen j hj]
    apply mul_le_mul_of_nonneg_right _ (le_of_lt hpos)
    exact hg _ _ _ _ (div_nonneg hFi (le_of_lt hpos)) (div_lt_div_of_pos_right hlt hpos) hPi

end Lemmas.C09
